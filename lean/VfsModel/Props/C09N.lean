/-
  C09, n layers — the overlay presents the upper-shadows-lower union of ANY NUMBER n ≥ 1 of
  layers as an ordinary tree (generalisation of Props/C09.lean, which is the case n = 2).

  Setting (`OWN w (u :: is) (idu :: ids) (mu :: ms)`, Proofs/OverlayNLemmas.lean): the leaves
  `u :: is` of the world are pairwise distinct memory leaves holding the flat maps `mu :: ms`
  (`mu` = the upper, writable layer; `ms` = the n-1 ≥ 0 lower layers, in order; the same path may
  be present in several of them); the overlay's layers are the ROOTS of those leaf filesystems,
  `layersN (u :: is) (idu :: ids)` (any filesystem ids). `OWN_iff` spells the setting out with
  indices. Paths are canonical: `p = renderC cs`, all components `GoodComp`, `cs ≠ []` unless
  said otherwise. The abstraction is the n-layer union view
      `firstN all p`  = the entry of the first layer (in order) whose map has `p`
      `viewN all p`   = if (head of all).contains (marker p) then none else firstN all p
  (`viewN [mu, ml] = view mu ml`, `viewN_two`).

  PROVED (no sorry, no axiom), for every n ≥ 1:
  B. observers = the n-layer view   `exists_is_viewN`, `exists_rootN`, `metadata_is_viewN`,
                                    `openFile_serves_viewN` (the FIRST layer that has the path
                                    serves its bytes; the only change of the world is the access
                                    stamp of that entry in that layer), `openFile_absentN`,
                                    `openFile_dirN`.
     These need NO side hypothesis besides the setting and canonicity (as for two layers:
     `RootOk`, `AncDirsN`, the ".whiteout" exclusion are needed by the write side only).
  C. listings                       `read_dir_is_unionN`: a name is listed iff the child path is in
                                    the view, no name twice, ".whiteout" never listed at the root
                                    (the root directory included).
  D. write-side consequences        `create_over_lower_failsN` (+ `create_over_lower_only_failsN`:
                                    the entry exists only in some lower layer k ≥ 1;
                                    `create_over_lower_unchangedN`: no map changes at all when the
                                    ancestors already are in the upper layer;
                                    `createFile_over_dir_failsN`),
                                    `remove_dir_with_lower_children_failsN`
                                    (+ `remove_dir_with_lower_only_child_failsN`),
                                    `ensure_parent_file_refusedN` (+ `_wfN`): the parent is a FILE
                                    of the view, in whichever layer — create_dir / create_file /
                                    append_file fail with `Other` and NO layer map changes (the
                                    counterpart of the fix of `ensure_has_parent`).
     Hypotheses of D, as for two layers: `RootOk mu`, `AncDirsN (mu :: ms) ds` (every proper
     ancestor is a directory of the view), `ds.head? ≠ some woDir`; for listings that
     "/.whiteout" ++ p is not a FILE of the upper layer and the maps are well-formed (`WF`).
     "View unchanged" (`ViewSameN`) is up to the timestamps of directories, because
     `ensure_has_parent` materialises lower-layer parents in the upper layer.
  E. instantiation                  the two-layer statements of Props/C09.lean re-derived from the
                                    n-layer ones (`exists_is_view_ofN`, `metadata_is_view_ofN`,
                                    `read_dir_is_union_ofN`, `create_over_lower_fails_ofN`); n = 1
                                    (`exists_single`).
  F. non-vacuity                    a concrete 3-layer world (leaves in the order 2,0,1) and a
                                    4-layer world, evaluated by `decide`: same path in two lower
                                    layers with different bytes, a directory split across three
                                    layers, a marker in the upper layer hiding a path present in
                                    layers 1 and 3; the observers agree with `viewN` on every
                                    listed path and leave all leaves unchanged.

  NOT PROVED for n layers (they remain two-layer theorems of Props/C09.lean / C10.lean):
  `append_continues_lower_bytes` (the copy-up from layer k), the success paths of
  `remove_file` / `remove_dir` / re-creation (C10), the timestamp setters. Layers that are not
  the root of a memory leaf (a sub-directory of a leaf, an altroot or a nested overlay as a
  layer) are outside the setting, as in the two-layer file.
-/
import VfsModel.Proofs.OverlayNLemmas
import VfsModel.Props.C09
set_option linter.unusedSimpArgs false
set_option linter.unusedVariables false
namespace Vfs.C09
open Vfs Vfs.Overlay

/-! ### the setting and the view, spelled out -/

/-- the setting with indices: equal lengths, pairwise distinct leaf indices, and leaf `is[k]`
is a memory leaf holding `ms[k]` -/
theorem OWN_iff (w : World) (is ids : List Nat) (ms : List FMap) :
    OWN w is ids ms ↔
      (is.length = ids.length ∧ is.length = ms.length ∧ is.Nodup ∧
        ∀ (k i : Nat) (m : FMap), is[k]? = some i → ms[k]? = some m → MemLeafAt w i m) :=
  ⟨fun h => ⟨h.len_ids, h.len_ms, h.nodup, fun k i m => h.leafAt k i m⟩,
    fun ⟨h1, h2, h3, h4⟩ => OWN.of_lists h1 h2 h3 h4⟩

/-- the n-layer view, written out: nothing where a marker sits in the upper layer, otherwise the
first layer (in order) whose map has the path -/
theorem viewN_def (mu : FMap) (ms : List FMap) (p : Str) :
    viewN (mu :: ms) p =
      if mu.contains (marker p) then none else (mu :: ms).findSome? (fun m => m.find? p) := by
  rw [viewN_cons]
  congr 1
  generalize mu :: ms = all
  induction all with
  | nil => rfl
  | cons m rest ih =>
    rw [firstN, List.findSome?_cons, ih]
    cases m.find? p <;> rfl

/-- for two layers it is the view of Props/C09.lean -/
theorem viewN_is_view (mu ml : FMap) (p : Str) : viewN [mu, ml] p = view mu ml p := viewN_two mu ml p

/-- for one layer: the map itself, minus what is marked -/
theorem viewN_single (mu : FMap) (p : Str) :
    viewN [mu] p = if mu.contains (marker p) then none else mu.find? p := by
  rw [viewN_cons]; simp [firstN]

section settingN
variable {w : World} {u idu : Nat} {mu : FMap} {is ids : List Nat} {ms : List FMap}
  (h : OWN w (u :: is) (idu :: ids) (mu :: ms))
include h

/-! ### B. the observers are the n-layer view -/

theorem exists_is_viewN (cs : List Str) (hne : cs ≠ []) (hcs : ∀ c ∈ cs, GoodComp c) :
    (Overlay.fs (layersN (u :: is) (idu :: ids))).exists_ (renderC cs) w
      = (.ok (viewN (mu :: ms) (renderC cs)).isSome, w) :=
  run_oexistsN h cs hne hcs

theorem exists_rootN (hroot : RootOk mu) :
    (Overlay.fs (layersN (u :: is) (idu :: ids))).exists_ [] w = (.ok true, w) := by
  have := run_oexists_rootN h
  obtain ⟨e, he, _⟩ := hroot.root
  rw [hroot.noMark, contains_of_find he] at this
  exact this

theorem metadata_is_viewN (cs : List Str) (hne : cs ≠ []) (hcs : ∀ c ∈ cs, GoodComp c) :
    (Overlay.fs (layersN (u :: is) (idu :: ids))).metadata (renderC cs) w =
      (match viewN (mu :: ms) (renderC cs) with
       | some e => .ok e.meta
       | none => .err .fileNotFound none, w) := by
  have := run_readPath_metadataN h cs hne hcs (fun md => (pure md : M Meta))
  simp only [bind, M.bind, Pure.pure, M.pure] at this
  show (do let q ← readPath (layersN (u :: is) (idu :: ids)) (renderC cs); q.metadata : M Meta) w = _
  cases hv : viewN (mu :: ms) (renderC cs) with
  | none =>
    rw [hv] at this
    rcases readPath_casesN h cs hne hcs with ⟨_, hr⟩ | ⟨k, i, id, m, e, _, _, _, _, _, _, hv', _⟩
    · simp [bind, M.bind, hr]
    · rw [hv] at hv'; cases hv'
  | some e =>
    rcases readPath_casesN h cs hne hcs with ⟨hv', _⟩ | ⟨k, i, id, m, e', hf, hi, hid, hl, he, _, hv', hr⟩
    · rw [hv] at hv'; cases hv'
    · rw [hv] at hv'; injection hv' with hv'; subst hv'
      simp [bind, M.bind, hr, run_vmetadata hl, Mem.metadata, he, Res.withPath]

/-- **the first layer that has the path serves it.** A file of the view is served with exactly
its bytes, by the first layer `k` whose map has the path (`FirstAt`: layer `k` has it, no layer
before `k` does); the only change of the world is the access-time stamp of that entry in the
map of that layer. -/
theorem openFile_serves_viewN (cs : List Str) (hne : cs ≠ []) (hcs : ∀ c ∈ cs, GoodComp c)
    (e : Entry) (hv : viewN (mu :: ms) (renderC cs) = some e) (hfile : e.ftype = .file) :
    ∃ (k i : Nat) (m : FMap) (w' : World),
      FirstAt (mu :: ms) (renderC cs) k m ∧ (u :: is)[k]? = some i ∧
      m.find? (renderC cs) = some e ∧
      (Overlay.fs (layersN (u :: is) (idu :: ids))).openFile (renderC cs) w
        = (.ok { content := e.content, pos := 0 }, w') ∧
      w' = w.setLeafFiles i (m.insert (renderC cs) { e with accessed := .now }) ∧
      OWN w' (u :: is) (idu :: ids)
        ((mu :: ms).set k (m.insert (renderC cs) { e with accessed := .now })) := by
  rcases readPath_casesN h cs hne hcs with ⟨hv', _⟩ | ⟨k, i, id, m, e', hf, hi, hid, hl, he, _, hv', hr⟩
  · rw [hv] at hv'; cases hv'
  · rw [hv] at hv'; injection hv' with hv'; subst hv'
    refine ⟨k, i, m, _, hf, hi, he, ?_, rfl, h.setAt k i hi _⟩
    show (do let q ← readPath (layersN (u :: is) (idu :: ids)) (renderC cs); q.openFile : M RHandle) w = _
    simp only [bind, M.bind, hr, run_vopenFile hl, Mem.openFile_some m _ e he]
    simp [hfile, Res.withPath]

theorem openFile_absentN (cs : List Str) (hne : cs ≠ []) (hcs : ∀ c ∈ cs, GoodComp c)
    (hv : viewN (mu :: ms) (renderC cs) = none) :
    (Overlay.fs (layersN (u :: is) (idu :: ids))).openFile (renderC cs) w
      = (.err .fileNotFound none, w) := by
  show (do let q ← readPath (layersN (u :: is) (idu :: ids)) (renderC cs); q.openFile : M RHandle) w = _
  rcases readPath_casesN h cs hne hcs with ⟨_, hr⟩ | ⟨k, i, id, m, e', hf, hi, hid, hl, he, _, hv', hr⟩
  · simp [bind, M.bind, hr]
  · rw [hv] at hv'; cases hv'

theorem openFile_dirN (cs : List Str) (hne : cs ≠ []) (hcs : ∀ c ∈ cs, GoodComp c)
    (e : Entry) (hv : viewN (mu :: ms) (renderC cs) = some e) (hd : e.ftype = .dir) :
    ((Overlay.fs (layersN (u :: is) (idu :: ids))).openFile (renderC cs) w).1
      = .err .other (some (renderC cs)) := by
  show ((do let q ← readPath (layersN (u :: is) (idu :: ids)) (renderC cs); q.openFile : M RHandle) w).1 = _
  rcases readPath_casesN h cs hne hcs with ⟨hv', _⟩ | ⟨k, i, id, m, e', hf, hi, hid, hl, he, _, hv', hr⟩
  · rw [hv] at hv'; cases hv'
  · rw [hv] at hv'; injection hv' with hv'; subst hv'
    simp only [bind, M.bind, hr, run_vopenFile hl, Mem.openFile_some m _ e he]
    simp [hd, Res.withPath, fail]

/-! ### C. listings: the children of the n-layer union -/

/-- **read_dir is the union of n layers.** For a directory `p` of the view (or the root),
`read_dir` succeeds, changes nothing, lists no name twice, and lists exactly the bare names `n`
such that the n-layer view has an entry at `p/n` (present in some layer and not marked as
deleted) — except that the bookkeeping directory ".whiteout" is never listed at the root. -/
theorem read_dir_is_unionN (cs : List Str) (hcs : ∀ c ∈ cs, GoodComp c)
    (e : Entry) (hdir : dirEntryN (mu :: ms) (renderC cs) = some e) (hd : e.ftype = .dir)
    (hwf : ∀ m ∈ mu :: ms, WF m)
    (hwo : ∀ e, mu.find? (woDirOf (renderC cs)) = some e → e.ftype = .dir) :
    ∃ lst, (Overlay.fs (layersN (u :: is) (idu :: ids))).readDir (renderC cs) w = (.ok lst, w) ∧
      lst.Nodup ∧
      (∀ n, n ∈ lst ↔ ('/' ∉ n ∧ (viewN (mu :: ms) (renderC cs ++ '/' :: n)).isSome = true ∧
                        (renderC cs = [] → n ≠ woDir))) ∧
      (renderC cs = [] → woDir ∉ lst) := by
  refine ⟨pListingN (mu :: ms) (renderC cs), ?_, nodup_pListingN _ _, ?_, ?_⟩
  · show Overlay.readDir _ _ w = _
    rw [run_oreadDirN h cs hcs hwo]
    unfold pReadDirN
    rw [hdir]; simp [hd]
  · intro n
    exact mem_pListingN mu ms _ n (fun m hm => (hwf m hm).childrenHaveDir _)
      ((hwf mu (by simp)).childrenHaveDir _)
  · intro hp; rw [hp]; exact woDir_not_listedN _

/-! ### D. write-side consequences -/

/-- the n-layer view of every (canonical, non-root) path is the same, up to the timestamps of
directories -/
def ViewSameN (all all' : List FMap) : Prop :=
  ∀ q : Str, q.head? = some '/' → (viewN all' q).map dirBlind = (viewN all q).map dirBlind

omit h in
theorem ViewSameN.ftype {all all' : List FMap} (hs : ViewSameN all all') (q : Str)
    (hq : q.head? = some '/') (e : Entry) (hv : viewN all q = some e) :
    ∃ e', viewN all' q = some e' ∧ e'.ftype = e.ftype ∧ (e.ftype = .file → e' = e) := by
  have := hs q hq
  rw [hv] at this
  rcases Option.eq_none_or_eq_some (viewN all' q) with hn | ⟨e', he'⟩
  · rw [hn] at this; cases this
  · rw [he'] at this
    simp only [Option.map_some, Option.some.injEq] at this
    refine ⟨e', he', ?_, ?_⟩
    · rw [← dirBlind_ftype e', this, dirBlind_ftype]
    · intro hf
      have hf' : e'.ftype = .file := by rw [← dirBlind_ftype e', this, dirBlind_ftype]; exact hf
      rw [dirBlind_file e hf, dirBlind_file e' hf'] at this
      exact this

/-- **create over an entry of the n-layer view fails as already-existing.** If the view has an
entry `e` at `p` — in particular when only some lower layer has it — `create_dir(p)` fails with
`FileExists` / `DirectoryExists` according to the type of `e`; the lower layers are untouched
(same maps `ms`), the upper layer may have gained parent directories, and the view of every
path is unchanged. -/
theorem create_over_lower_failsN (ds : List Str) (n : Str) (hds : ∀ c ∈ ds, GoodComp c)
    (hn : GoodComp n) (hroot : RootOk mu) (hanc : AncDirsN (mu :: ms) ds)
    (hhead : ds.head? ≠ some woDir) (e : Entry)
    (hv : viewN (mu :: ms) (renderC (ds ++ [n])) = some e) :
    ∃ mu', (Overlay.fs (layersN (u :: is) (idu :: ids))).createDir (renderC (ds ++ [n])) w =
        (.err (if e.ftype = .file then .fileExists else .dirExists) none,
          w.setLeafFiles u mu') ∧
      OWN (w.setLeafFiles u mu') (u :: is) (idu :: ids) (mu' :: ms) ∧
      ViewSameN (mu :: ms) (mu' :: ms) := by
  have hcs := good_snoc hds hn
  have hne : ds ++ [n] ≠ [] := by simp
  have hsame : ViewSameN (mu :: ms) (fillDirs mu (chain [] ds) :: ms) :=
    fun q hq => view_fillDirsN hds hanc hhead q hq
  obtain ⟨e', he', hft, _⟩ := hsame.ftype _ (renderC_head _ hne) e hv
  refine ⟨fillDirs mu (chain [] ds), ?_, h.setHead _, hsame⟩
  show Overlay.createDir _ _ w = _
  rw [run_ocreateDirN h _ hne hcs]
  unfold pCreateDirN
  rw [List.dropLast_concat, pEnsureN_ok hroot hds hanc]
  simp only [andThen, he', hft]

/-- the case named in the property: the entry exists ONLY from some lower layer `k ≥ 1` on
(layer `k` is the first that has the path; in particular the upper layer does not) -/
theorem create_over_lower_only_failsN (ds : List Str) (n : Str) (hds : ∀ c ∈ ds, GoodComp c)
    (hn : GoodComp n) (hroot : RootOk mu) (hanc : AncDirsN (mu :: ms) ds)
    (hhead : ds.head? ≠ some woDir) (e : Entry) (k : Nat) (m : FMap) (hk : 1 ≤ k)
    (hfirst : FirstAt (mu :: ms) (renderC (ds ++ [n])) k m)
    (hmk : mu.contains (marker (renderC (ds ++ [n]))) = false)
    (hlow : m.find? (renderC (ds ++ [n])) = some e) :
    ∃ mu', (Overlay.fs (layersN (u :: is) (idu :: ids))).createDir (renderC (ds ++ [n])) w =
        (.err (if e.ftype = .file then .fileExists else .dirExists) none,
          w.setLeafFiles u mu') ∧
      OWN (w.setLeafFiles u mu') (u :: is) (idu :: ids) (mu' :: ms) ∧
      ViewSameN (mu :: ms) (mu' :: ms) :=
  create_over_lower_failsN h ds n hds hn hroot hanc hhead e
    (by rw [viewN_unmarked hmk, firstN_of_firstAt hfirst]; exact hlow)

/-- … and NO map changes at all when the proper ancestors already are entries of the upper
layer (nothing has to be materialised): the world after the failed `create_dir` is the world
before -/
theorem create_over_lower_unchangedN (ds : List Str) (n : Str) (hds : ∀ c ∈ ds, GoodComp c)
    (hn : GoodComp n) (hroot : RootOk mu) (hanc : AncDirsN (mu :: ms) ds)
    (hhead : ds.head? ≠ some woDir) (e : Entry)
    (hv : viewN (mu :: ms) (renderC (ds ++ [n])) = some e)
    (hup : ∀ j, 1 ≤ j → j ≤ ds.length → mu.contains (renderC (ds.take j)) = true) :
    (Overlay.fs (layersN (u :: is) (idu :: ids))).createDir (renderC (ds ++ [n])) w =
      (.err (if e.ftype = .file then .fileExists else .dirExists) none, w) := by
  have hcs := good_snoc hds hn
  have hne : ds ++ [n] ≠ [] := by simp
  have hfill : fillDirs mu (chain [] ds) = mu := by
    apply fillDirs_of_contains
    intro k hk
    obtain ⟨j, h1, h2, rfl⟩ := (mem_chain [] ds k).1 hk
    simpa using hup j h1 h2
  show Overlay.createDir _ _ w = _
  rw [run_ocreateDirN h _ hne hcs]
  unfold pCreateDirN
  rw [List.dropLast_concat, pEnsureN_ok hroot hds hanc, hfill]
  simp only [andThen, hv, h.hu.same]

/-- `create_file` over a directory of the n-layer view fails (`Other`), the view is unchanged -/
theorem createFile_over_dir_failsN (ds : List Str) (n : Str) (hds : ∀ c ∈ ds, GoodComp c)
    (hn : GoodComp n) (hroot : RootOk mu) (hanc : AncDirsN (mu :: ms) ds)
    (hhead : ds.head? ≠ some woDir) (e : Entry)
    (hv : viewN (mu :: ms) (renderC (ds ++ [n])) = some e) (hd : e.ftype = .dir) :
    ∃ mu', (Overlay.fs (layersN (u :: is) (idu :: ids))).createFile (renderC (ds ++ [n])) w =
        (.err .other none, w.setLeafFiles u mu') ∧
      OWN (w.setLeafFiles u mu') (u :: is) (idu :: ids) (mu' :: ms) ∧
      ViewSameN (mu :: ms) (mu' :: ms) := by
  have hcs := good_snoc hds hn
  have hne : ds ++ [n] ≠ [] := by simp
  have hsame : ViewSameN (mu :: ms) (fillDirs mu (chain [] ds) :: ms) :=
    fun q hq => view_fillDirsN hds hanc hhead q hq
  obtain ⟨e', he', hft, _⟩ := hsame.ftype _ (renderC_head _ hne) e hv
  refine ⟨fillDirs mu (chain [] ds), ?_, h.setHead _, hsame⟩
  show Overlay.createFile _ _ w = _
  rw [run_ocreateFileN h _ hne hcs]
  unfold pCreateFileN pRefuseN
  rw [List.dropLast_concat, pEnsureN_ok hroot hds hanc]
  simp only [andThen, he', hft, hd, if_true, Res.map]

/-- **removing a directory that still has children in some layer fails as non-empty.** `p` is a
directory of the n-layer view and the view has an entry at `p/n` (for instance one that exists
only in a lower layer): `remove_dir(p)` fails with `Other`, and the world is unchanged — no
marker is created, the view is what it was. -/
theorem remove_dir_with_lower_children_failsN (cs : List Str) (hne : cs ≠ [])
    (hcs : ∀ c ∈ cs, GoodComp c) (e : Entry) (hv : viewN (mu :: ms) (renderC cs) = some e)
    (hd : e.ftype = .dir) (hwf : ∀ m ∈ mu :: ms, WF m)
    (hwo : ∀ e, mu.find? (woDirOf (renderC cs)) = some e → e.ftype = .dir)
    (n : Str) (hn : '/' ∉ n)
    (hchild : (viewN (mu :: ms) (renderC cs ++ '/' :: n)).isSome = true) :
    (Overlay.fs (layersN (u :: is) (idu :: ids))).removeDir (renderC cs) w
      = (.err .other none, w) := by
  show Overlay.removeDir _ _ w = _
  have hmem : n ∈ pListingN (mu :: ms) (renderC cs) :=
    (mem_pListingN mu ms _ n (fun m hm => (hwf m hm).childrenHaveDir _)
      ((hwf mu (by simp)).childrenHaveDir _)).2
      ⟨hn, hchild, fun hp => absurd hp (renderC_ne_nil hne)⟩
  have hnil : pListingN (mu :: ms) (renderC cs) ≠ [] := by
    intro h0; rw [h0] at hmem; cases hmem
  have hrd : pReadDirN (mu :: ms) (renderC cs) = .ok (pListingN (mu :: ms) (renderC cs)) := by
    unfold pReadDirN dirEntryN
    rw [if_neg (renderC_ne_nil hne), hv]
    simp [hd]
  unfold Overlay.removeDir
  rw [run_readPath_thenN h cs hne hcs, hv]
  simp only [bind, M.bind, run_oreadDirN h cs hcs hwo, hrd, hnil, ne_eq, not_false_eq_true,
    if_true, M.failK, fail]

/-- the special case of the property: the child exists only from some lower layer `k ≥ 1` on -/
theorem remove_dir_with_lower_only_child_failsN (cs : List Str) (hne : cs ≠ [])
    (hcs : ∀ c ∈ cs, GoodComp c) (e : Entry) (hv : viewN (mu :: ms) (renderC cs) = some e)
    (hd : e.ftype = .dir) (hwf : ∀ m ∈ mu :: ms, WF m)
    (hwo : ∀ e, mu.find? (woDirOf (renderC cs)) = some e → e.ftype = .dir)
    (n : Str) (hn : '/' ∉ n) (k : Nat) (m : FMap) (hk : 1 ≤ k)
    (hfirst : FirstAt (mu :: ms) (renderC cs ++ '/' :: n) k m)
    (hmk : mu.contains (marker (renderC cs ++ '/' :: n)) = false) :
    (Overlay.fs (layersN (u :: is) (idu :: ids))).removeDir (renderC cs) w
      = (.err .other none, w) := by
  apply remove_dir_with_lower_children_failsN h cs hne hcs e hv hd hwf hwo n hn
  obtain ⟨ce, hce⟩ := (FMap.contains_iff _ _).1 hfirst.has
  rw [viewN_unmarked hmk, firstN_of_firstAt hfirst, hce]; rfl

/-- **a file of the n-layer view cannot get children** (the formal counterpart of the fix of
`OverlayFS::ensure_has_parent`, n layers). The parent `ds` of `p = ds/n` is a FILE of the view —
in whichever of the n layers it sits: `create_dir(p)`, `create_file(p)` and `append_file(p)`
through the overlay fail with `Other`, and the world is unchanged, so EVERY layer map is what it
was (before the fix the call failed too, but left the parent shadowed by an empty directory in
the upper layer). For `append_file` nothing must sit at `p` in the upper map, which is the case
in every well-formed upper map (`upper_child_absent_of_viewN_file`). -/
theorem ensure_parent_file_refusedN (ds : List Str) (n : Str) (hdne : ds ≠ [])
    (hds : ∀ c ∈ ds, GoodComp c) (hn : GoodComp n) (e : Entry)
    (hv : viewN (mu :: ms) (renderC ds) = some e) (hf : e.ftype = .file) :
    (Overlay.fs (layersN (u :: is) (idu :: ids))).createDir (renderC (ds ++ [n])) w
        = (.err .other none, w) ∧
    (Overlay.fs (layersN (u :: is) (idu :: ids))).createFile (renderC (ds ++ [n])) w
        = (.err .other none, w) ∧
    (mu.find? (renderC (ds ++ [n])) = none →
      (Overlay.fs (layersN (u :: is) (idu :: ids))).appendFile (renderC (ds ++ [n])) w
        = (.err .other none, w)) := by
  have hcs := good_snoc hds hn
  have hne : ds ++ [n] ≠ [] := by simp
  have hE : pEnsureN (mu :: ms) (ds ++ [n]).dropLast = (.err .other none, mu) := by
    rw [List.dropLast_concat]; exact pEnsureN_file hdne hv hf
  refine ⟨?_, ?_, ?_⟩
  · show Overlay.createDir _ _ w = _
    rw [run_ocreateDirN h _ hne hcs]
    unfold pCreateDirN
    rw [hE]
    simp only [andThen, h.hu.same]
  · show Overlay.createFile _ _ w = _
    rw [run_ocreateFileN h _ hne hcs]
    unfold pCreateFileN
    rw [hE]
    simp only [andThen, Res.map, h.hu.same]
  · intro hup
    have key : ∀ cs : List Str, cs ≠ [] → (∀ c ∈ cs, GoodComp c) →
        pEnsureN (mu :: ms) cs.dropLast = (.err .other none, mu) →
        mu.find? (renderC cs) = none →
        Overlay.appendFile (layersN (u :: is) (idu :: ids)) (renderC cs) w
          = (.err .other none, w) := by
      intro cs hne hcs hE hup
      unfold Overlay.appendFile copyUp
      simp [bind, M.bind, M.ret, writePath_layersN cs hne hcs, run_vexists h.hu,
        contains_of_none hup, run_ensureHasParentN h cs hne hcs, hE, h.hu.same]
    exact key _ hne hcs hE hup

/-- the same with a well-formed upper map instead of "nothing at `p` in the upper map" -/
theorem ensure_parent_file_refused_wfN (ds : List Str) (n : Str) (hdne : ds ≠ [])
    (hds : ∀ c ∈ ds, GoodComp c) (hn : GoodComp n) (e : Entry)
    (hv : viewN (mu :: ms) (renderC ds) = some e) (hf : e.ftype = .file) (hwf : WF mu) :
    (Overlay.fs (layersN (u :: is) (idu :: ids))).createDir (renderC (ds ++ [n])) w
        = (.err .other none, w) ∧
    (Overlay.fs (layersN (u :: is) (idu :: ids))).createFile (renderC (ds ++ [n])) w
        = (.err .other none, w) ∧
    (Overlay.fs (layersN (u :: is) (idu :: ids))).appendFile (renderC (ds ++ [n])) w
        = (.err .other none, w) := by
  obtain ⟨h1, h2, h3⟩ := ensure_parent_file_refusedN h ds n hdne hds hn e hv hf
  exact ⟨h1, h2, h3 (upper_child_absent_of_viewN_file hwf hds hn hv hf)⟩

end settingN

/-! ### E. instantiation: two layers (Props/C09.lean) and one layer -/

section two
variable {w : World} {u l idu idl : Nat} {mu ml : FMap} (h : OW w u l mu ml)
include h

theorem exists_is_view_ofN (cs : List Str) (hne : cs ≠ []) (hcs : ∀ c ∈ cs, GoodComp c) :
    (Overlay.fs (layers2 u l idu idl)).exists_ (renderC cs) w
      = (.ok (view mu ml (renderC cs)).isSome, w) := by
  have := exists_is_viewN (h.toN idu idl) cs hne hcs
  rwa [layersN_two, viewN_two] at this

theorem metadata_is_view_ofN (cs : List Str) (hne : cs ≠ []) (hcs : ∀ c ∈ cs, GoodComp c) :
    (Overlay.fs (layers2 u l idu idl)).metadata (renderC cs) w =
      (match view mu ml (renderC cs) with
       | some e => .ok e.meta
       | none => .err .fileNotFound none, w) := by
  have := metadata_is_viewN (h.toN idu idl) cs hne hcs
  rwa [layersN_two, viewN_two] at this

omit h in
theorem dirEntryN_two (mu ml : FMap) (p : Str) : dirEntryN [mu, ml] p = dirEntry? mu ml p := by
  unfold dirEntryN dirEntry?
  simp only [List.headD_cons, viewN_two]

theorem read_dir_is_union_ofN (cs : List Str) (hcs : ∀ c ∈ cs, GoodComp c)
    (e : Entry) (hdir : dirEntry? mu ml (renderC cs) = some e) (hd : e.ftype = .dir)
    (hwf : WF mu) (hwfl : WF ml)
    (hwo : ∀ e, mu.find? (woDirOf (renderC cs)) = some e → e.ftype = .dir) :
    ∃ lst, (Overlay.fs (layers2 u l idu idl)).readDir (renderC cs) w = (.ok lst, w) ∧
      lst.Nodup ∧
      (∀ n, n ∈ lst ↔ ('/' ∉ n ∧ (view mu ml (renderC cs ++ '/' :: n)).isSome = true ∧
                        (renderC cs = [] → n ≠ woDir))) ∧
      (renderC cs = [] → woDir ∉ lst) := by
  have := read_dir_is_unionN (h.toN idu idl) cs hcs e (by rw [dirEntryN_two]; exact hdir) hd
    (by intro m hm; simp at hm; rcases hm with rfl | rfl <;> assumption) hwo
  simpa only [layersN_two, viewN_two] using this

theorem create_over_lower_fails_ofN (ds : List Str) (n : Str) (hds : ∀ c ∈ ds, GoodComp c)
    (hn : GoodComp n) (hroot : RootOk mu) (hanc : AncDirs mu ml ds)
    (hhead : ds.head? ≠ some woDir) (e : Entry)
    (hv : view mu ml (renderC (ds ++ [n])) = some e) :
    ∃ mu', (Overlay.fs (layers2 u l idu idl)).createDir (renderC (ds ++ [n])) w =
        (.err (if e.ftype = .file then .fileExists else .dirExists) none,
          w.setLeafFiles u mu') ∧
      OW (w.setLeafFiles u mu') u l mu' ml ∧ ViewSame mu ml mu' ml := by
  obtain ⟨mu', hrun, hown, hsame⟩ := create_over_lower_failsN (h.toN idu idl) ds n hds hn hroot
    ((AncDirsN_two mu ml ds).2 hanc) hhead e (by rw [viewN_two]; exact hv)
  refine ⟨mu', by rwa [layersN_two] at hrun, hown.toOW, ?_⟩
  intro q hq
  have := hsame q hq
  rwa [viewN_two, viewN_two] at this

end two

/-- a single layer: the overlay over one memory leaf shows that leaf (minus marked paths) -/
theorem exists_single {w : World} {u idu : Nat} {mu : FMap} (h : MemLeafAt w u mu)
    (cs : List Str) (hne : cs ≠ []) (hcs : ∀ c ∈ cs, GoodComp c) :
    (Overlay.fs (layersN [u] [idu])).exists_ (renderC cs) w
      = (.ok (!mu.contains (marker (renderC cs)) && mu.contains (renderC cs)), w) := by
  have := exists_is_viewN (OWN.cons (id := idu) h (by simp) .nil) cs hne hcs
  rw [this, viewN_isSome]
  simp

/-! ### F. non-vacuity: concrete 3-layer and 4-layer worlds, computed by `decide` -/

def fileOf (b : Bytes) : Entry := { fileEntryNow with content := b }

/-- the observers of a filesystem at a path, and the leaves afterwards -/
def readAllN (fs : FS) (p : String) (w : World) : Res Bytes :=
  match fs.openFile p.toList w with
  | (.ok r, _) => r.readToEnd.1
  | (.err k pth, _) => .err k pth
  | (.panic, _) => .panic

/-- `exists` and `metadata` of `fs` at `p` answer as the n-layer view of `all`, a file of the view
is read back with the view's bytes, and neither `exists` nor `metadata` changes any leaf -/
def agreesAt (fs : FS) (w : World) (all : List FMap) (p : String) : Bool :=
  decide ((fs.exists_ p.toList w).1 = .ok (viewN all p.toList).isSome) &&
  decide ((fs.metadata p.toList w).1 =
    (match viewN all p.toList with
     | some e => .ok e.meta
     | none => .err .fileNotFound none)) &&
  decide ((fs.exists_ p.toList w).2.leaves = w.leaves) &&
  decide ((fs.metadata p.toList w).2.leaves = w.leaves) &&
  (match viewN all p.toList with
   | some e => if e.ftype = .file then decide (readAllN fs p w = .ok e.content) else true
   | none => decide (readAllN fs p w = .err .fileNotFound none))

/-! #### three layers, the leaves in the order 2, 0, 1

upper (leaf 2): "/d", "/d/a" = "A", and the marker of "/d/h";
layer 1 (leaf 0): "/d", "/d/x" = "1", "/d/b" = "B", "/d/h" = "H";
layer 2 (leaf 1): "/d", "/d/x" = "2", "/d/c" = "C". -/

def m3u : FMap :=
  [("/.whiteout/d/h_wo".toList, fileOf []), ("/.whiteout/d".toList, dirEntryNow),
   ("/.whiteout".toList, dirEntryNow), ("/d/a".toList, fileOf [65]), ("/d".toList, dirEntryNow),
   ([], dirEntryNow)]
def m3a : FMap :=
  [("/d/x".toList, fileOf [49]), ("/d/b".toList, fileOf [66]), ("/d/h".toList, fileOf [72]),
   ("/d".toList, dirEntryNow), ([], dirEntryNow)]
def m3b : FMap :=
  [("/d/x".toList, fileOf [50]), ("/d/c".toList, fileOf [67]), ("/d".toList, dirEntryNow),
   ([], dirEntryNow)]

def w3 : World :=
  { leaves := [{ kind := .mem, files := m3a }, { kind := .mem, files := m3b },
               { kind := .mem, files := m3u }] }

def ofs3 : FS := Overlay.fs (layersN [2, 0, 1] [7, 8, 9])

theorem w3_setting : OWN w3 [2, 0, 1] [7, 8, 9] [m3u, m3a, m3b] :=
  .cons rfl (by decide) (.cons rfl (by decide) (.cons rfl (by decide) .nil))

example : RootOk m3u := ⟨⟨_, rfl, rfl⟩, by decide⟩

-- the same path in layers 1 and 2 with different bytes: layer 1 serves it
example : readAllN ofs3 "/d/x" w3 = .ok [49] := by decide
example : viewN [m3u, m3a, m3b] "/d/x".toList = some (fileOf [49]) := by decide
-- a marker in the upper layer hides a lower path
example : (ofs3.exists_ "/d/h".toList w3).1 = .ok false := by decide
example : viewN [m3u, m3a, m3b] "/d/h".toList = none := by decide
-- the directory split across three layers is listed as one
example : (ofs3.readDir "/d".toList w3).1 = .ok ["a".toList, "x".toList, "b".toList, "c".toList] := by
  decide
example : (ofs3.readDir [] w3).1 = .ok ["d".toList] := by decide
-- the observers agree with the view and change no leaf
example : ∀ p ∈ ["/d", "/d/a", "/d/x", "/d/b", "/d/c", "/d/h", "/nope", "/d/nope"],
    agreesAt ofs3 w3 [m3u, m3a, m3b] p = true := by decide
-- the theorem, instantiated
example : (ofs3.exists_ "/d/c".toList w3) = (.ok true, w3) :=
  exists_is_viewN w3_setting ["d".toList, "c".toList] (by simp) (by decide)
-- write side: creating over lower-only entries fails, removing the split directory fails
example : (ofs3.createDir "/d/c".toList w3).1 = .err .fileExists none := by decide
example : (ofs3.createDir "/d/c".toList w3).2.leaves = w3.leaves := by decide
example : (ofs3.removeDir "/d".toList w3).1 = .err .other none := by decide
example : (ofs3.removeDir "/d".toList w3).2.leaves = w3.leaves := by decide

/-! #### four layers

upper (leaf 0): only the marker of "/h";
layer 1 (leaf 1): "/h" = "H1", "/s", "/s/p";
layer 2 (leaf 2): "/s", "/s/q", "/f" = "L2";
layer 3 (leaf 3): "/h" = "H3", "/s", "/s/r", "/f" = "L3", "/s/p" (again). -/

def m4u : FMap :=
  [("/.whiteout/h_wo".toList, fileOf []), ("/.whiteout".toList, dirEntryNow), ([], dirEntryNow)]
def m4a : FMap :=
  [("/h".toList, fileOf [72, 49]), ("/s/p".toList, fileOf [1]), ("/s".toList, dirEntryNow),
   ([], dirEntryNow)]
def m4b : FMap :=
  [("/s/q".toList, fileOf [2]), ("/s".toList, dirEntryNow), ("/f".toList, fileOf [76, 50]),
   ([], dirEntryNow)]
def m4c : FMap :=
  [("/h".toList, fileOf [72, 51]), ("/s/r".toList, fileOf [3]), ("/s/p".toList, fileOf [4]),
   ("/s".toList, dirEntryNow), ("/f".toList, fileOf [76, 51]), ([], dirEntryNow)]

def w4 : World :=
  { leaves := [{ kind := .mem, files := m4u }, { kind := .mem, files := m4a },
               { kind := .mem, files := m4b }, { kind := .mem, files := m4c }] }

def ofs4 : FS := Overlay.fs (layersN [0, 1, 2, 3] [0, 1, 2, 3])

theorem w4_setting : OWN w4 [0, 1, 2, 3] [0, 1, 2, 3] [m4u, m4a, m4b, m4c] :=
  .cons rfl (by decide) (.cons rfl (by decide) (.cons rfl (by decide) (.cons rfl (by decide) .nil)))

-- a marker in the upper layer hides a path present in layers 1 and 3
example : (ofs4.exists_ "/h".toList w4).1 = .ok false := by decide
example : readAllN ofs4 "/h" w4 = .err .fileNotFound none := by decide
-- the same path in layers 2 and 3 with different bytes: layer 2 serves it
example : readAllN ofs4 "/f" w4 = .ok [76, 50] := by decide
-- the same path in layers 1 and 3: layer 1 serves it, and it is listed once
example : readAllN ofs4 "/s/p" w4 = .ok [1] := by decide
example : (ofs4.readDir "/s".toList w4).1 = .ok ["p".toList, "q".toList, "r".toList] := by decide
example : (ofs4.readDir [] w4).1 = .ok ["s".toList, "f".toList] := by decide
example : ∀ p ∈ ["/h", "/f", "/s", "/s/p", "/s/q", "/s/r", "/s/none", "/.whiteout/h_wo"],
    agreesAt ofs4 w4 [m4u, m4a, m4b, m4c] p = true := by decide
-- the only change made by `open_file` is the access stamp in the serving layer (leaf 2)
example : ((ofs4.openFile "/f".toList w4).2.leaves.map (·.files)) =
    [m4u, m4a, m4b.insert "/f".toList { fileOf [76, 50] with accessed := .now }, m4c] := by decide
-- write side
example : (ofs4.createDir "/s".toList w4).1 = .err .dirExists none := by decide
example : (ofs4.createDir "/f".toList w4).1 = .err .fileExists none := by decide
example : (ofs4.createFile "/s".toList w4).1 = .err .other none := by decide
example : (ofs4.createDir "/s".toList w4).2.leaves = w4.leaves := by decide
example : (ofs4.removeDir "/s".toList w4).1 = .err .other none := by decide
example : (ofs4.removeDir "/s".toList w4).2.leaves = w4.leaves := by decide
-- "/f" is a FILE of the view (served by layer 2, also in layer 3): it gets no children and
-- no leaf changes (the call used to leave an empty directory "/f" in the upper layer)
example : (ofs4.createDir "/f/y".toList w4).1 = .err .other none := by decide
example : (ofs4.createDir "/f/y".toList w4).2.leaves = w4.leaves := by decide
example : (ofs4.createFile "/f/y".toList w4).2.leaves = w4.leaves := by decide
example : ((do let _ ← ofs4.appendFile "/f/y".toList; pure () : M Unit) w4).1
    = .err .other none := by decide
example : (ofs4.appendFile "/f/y".toList w4).2.leaves = w4.leaves := by decide
-- the theorem, instantiated
example : ofs4.createDir "/f/y".toList w4 = (.err .other none, w4) :=
  (ensure_parent_file_refusedN w4_setting ["f".toList] "y".toList (by simp) (by decide)
    (by decide) (fileOf [76, 50]) (by decide) rfl).1

end Vfs.C09
