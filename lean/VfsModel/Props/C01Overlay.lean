/-
  C01 for the overlay AT THE `VfsPath` LEVEL — the operation contract of Props/C09Contract.lean
  (`VContract`, relative to the n-layer union view `oview`) for the five mutators AS THE USER
  CALLS THEM: `VfsPath::create_dir`, a write session (`VfsPath::create_file` + `write_all` +
  drop), an append session (`VfsPath::append_file` + `write_all` + drop), `VfsPath::remove_file`,
  `VfsPath::remove_dir`, on the path `⟨Overlay.fs (layersN …), id, p⟩` (ANY identity `id`).

  SETTING, HYPOTHESES: exactly those of `C09.overlay_contractN`: `OWN w (u :: is) (idu :: ids)
  (mu :: ms)` (n ≥ 1 pairwise distinct memory leaves whose roots are the layers), `OInv mu ms`,
  `ViewWF (oview (mu :: ms))`, per call `OpOK op` (`OpPath`) and the O3 discipline `O3Free`.

  PROVED (no sorry; axioms propext, Classical.choice, Quot.sound)
   0. `vstep fs id op`: the user-level call. `run_getParent_overlay`: the parent probe
      (`get_parent`: `exists` + `metadata` of the parent through the overlay) leaves the world
      UNCHANGED and answers "ok" exactly when the parent is a directory of the view, else
      `Other` labelled with the caller's path.
   1. `vstep_eq_ostep` (the exact relation between the two levels): in the setting,
         vstep fs id op w = ((ostep fs op w).1.withPath op.path, (ostep fs op w).2)
      i.e. the user-level call IS the trait-level call, with the error (if any) relabelled with
      the caller's path: same final world, same success / error KIND / panic. In particular the
      parent probe never changes the outcome class or the effect: below a missing parent (or a
      parent that is a file) the trait-level `create_dir` / `create_file` answer `Other` (from
      `ensure_has_parent`) and so does the probe; NO clause of the contract differs between the
      two levels — the only difference is the LABEL (`none` at the trait level, `some p` at the
      user level).
      `vstep_err_path`: a failed user-level call carries exactly the caller's path.
   2. `vpath_overlay_contractN`: the bundle of `C09.overlay_contractN` for `vstep`, plus the
      label clause. Per operation: `vpath_overlay_createDir_contractN`, `…_write_…`,
      `…_append_…`, `…_removeFile_…`, `…_removeDir_…` (same shapes as the trait-level ones).
   3. `vpath_overlay_refines_reference`: the history theorem of Props/C09Refine.lean for
      `runV` (a finite list of user-level calls): equal success/failure call by call with the
      reference backend, no panic, final view ≈ final reference tree, every error labelled with
      the path of its call; and `runV_eq_runOverlay`: the two histories agree exactly (outcomes up
      to the relabelling, final worlds equal).
   4. Non-vacuity: the 3-layer world and the 12-call history of Props/C09Refine.lean
      (`x_vrefines`, the `example`s instantiate every theorem; `xv_outcomes` evaluates the
      user-level run with `decide +kernel`).
  NOT PROVED here: layers that are not roots of memory leaves (Props/C01OverlaySub.lean), an
  altroot on top of the overlay (Props/C01OverlayAlt.lean); paths violating the discipline;
  `remove_file` on a directory of the view (open defect O3) beyond panic-freedom.
-/
import VfsModel.Props.C09Refine
set_option linter.unusedSimpArgs false
set_option linter.unusedVariables false
set_option linter.unusedSectionVars false
namespace Vfs.C01
open Vfs Vfs.Overlay Vfs.C02 Vfs.C09

/-! ### 0. the user-level call -/

/-- one call of a mutator as the user issues it, through the `VfsPath` layer, on the path
`⟨fs, id, p⟩`; a write session is `create_file`, `write_all`, drop; an append session is
`append_file`, `write_all`, drop -/
def vstep (fs : FS) (id : Nat) : Mut → M Unit
  | .createDir p => VPath.createDir ⟨fs, id, p⟩
  | .write p bs => do let hd ← VPath.createFile ⟨fs, id, p⟩; hd.writeAllAndDrop bs
  | .append p bs => do let hd ← VPath.appendFile ⟨fs, id, p⟩; hd.writeAllAndDrop bs
  | .removeFile p => VPath.removeFile ⟨fs, id, p⟩
  | .removeDir p => VPath.removeDir ⟨fs, id, p⟩

/-! ### relabelling keeps the contract -/

theorem withPath_isOk {α} (p : Str) (r : Res α) : (r.withPath p).isOk = r.isOk := by
  cases r <;> rfl
theorem withPath_kind {α} (p : Str) (r : Res α) : (r.withPath p).kind? = r.kind? := by
  cases r <;> rfl
theorem withPath_panic {α} (p : Str) (r : Res α) : r.withPath p = .panic ↔ r = .panic := by
  cases r <;> simp [Res.withPath]
theorem withPath_errPath {α} (p : Str) (r : Res α) {k : ErrKind} {pth : Option Str}
    (h : r.withPath p = .err k pth) : pth = some p := by
  cases r <;> simp [Res.withPath] at h
  exact h.2.symm

/-- the contract does not look at the label of the error -/
theorem _root_.Vfs.C09.VContract.withPath {v v' : View} {op : Mut} {r : Res Unit} (p : Str)
    (h : VContract v op r v') : VContract v op (r.withPath p) v' where
  ok_iff := by rw [withPath_isOk]; exact h.ok_iff
  effect := by rw [withPath_isOk]; exact h.effect
  unchanged := by rw [withPath_isOk]; exact h.unchanged
  missing := by rw [withPath_kind]; exact h.missing
  occupied := by rw [withPath_kind]; exact h.occupied
  no_panic := fun hp => h.no_panic ((withPath_panic p r).1 hp)

/-- a contract-respecting outcome may be replaced by one of the same class -/
theorem _root_.Vfs.C09.VContract.congr {v v' : View} {op : Mut} {r r' : Res Unit} (h : VContract v op r v')
    (hok : r'.isOk = r.isOk) (hk : r'.kind? = r.kind?) (hp : r' = .panic → r = .panic) :
    VContract v op r' v' where
  ok_iff := by rw [hok]; exact h.ok_iff
  effect := by rw [hok]; exact h.effect
  unchanged := by rw [hok]; exact h.unchanged
  missing := by rw [hk]; exact h.missing
  occupied := by rw [hk]; exact h.occupied
  no_panic := fun h0 => h.no_panic (hp h0)

/-! ### monad bookkeeping -/

theorem run_withPath {α} (p : Str) (m : M α) (w : World) :
    M.withPath p m w = ((m w).1.withPath p, (m w).2) := rfl

/-- a session whose open is relabelled: when the body after a successful open cannot fail with
another label, the whole session is the unlabelled session, relabelled -/
theorem run_session_withPath {α β} (p : Str) (m : M α) (f : α → M β) (w : World)
    (hf : ∀ a w1, m w = (.ok a, w1) → ((f a w1).1).withPath p = (f a w1).1) :
    (M.withPath p m >>= f) w = (((m >>= f) w).1.withPath p, ((m >>= f) w).2) := by
  show M.bind (M.withPath p m) f w = ((M.bind m f w).1.withPath p, (M.bind m f w).2)
  unfold M.bind
  rw [run_withPath]
  rcases hm : m w with ⟨r, w1⟩
  cases r with
  | ok a =>
    show f a w1 = (((f a w1).1).withPath p, (f a w1).2)
    rw [hf a w1 hm]
  | err k pth => rfl
  | panic => rfl

/-! ### 0'. the parent probe through the overlay -/

section settingN
variable {w : World} {u idu : Nat} {mu : FMap} {is ids : List Nat} {ms : List FMap}
  (h : OWN w (u :: is) (idu :: ids) (mu :: ms)) (inv : OInv mu ms)
  {ds : List Str} {n : Str} (hp : OpPath (ds ++ [n])) (id : Nat)
include h inv hp

/-- `exists` of the overlay on the parent: whether the view has it -/
theorem run_parent_exists :
    (Overlay.fs (layersN (u :: is) (idu :: ids))).exists_ (renderC ds) w
      = (.ok (oview (mu :: ms) (renderC ds)).isSome, w) := by
  show Overlay.exists_ _ _ w = _
  rw [run_oexists_anyN h ds hp.hds]
  unfold pexistsN
  by_cases hne : ds = []
  · subst hne
    obtain ⟨e, he, _⟩ := inv.root.root
    simp only [renderC_nil, if_true, List.headD_cons, inv.root.noMark, contains_of_find he,
      oview_root, he]
    rfl
  · rw [if_neg (renderC_ne_nil hne), oview_ne (renderC_ne_nil hne)]

/-- `VfsPath::metadata` of the overlay on the parent: the entry of the view -/
theorem run_parent_metadata :
    VPath.metadata ⟨Overlay.fs (layersN (u :: is) (idu :: ids)), id, renderC ds⟩ w
      = ((match oview (mu :: ms) (renderC ds) with
          | some e => (.ok e.meta : Res Meta)
          | none => .err .fileNotFound none).withPath (renderC ds), w) := by
  unfold VPath.metadata
  rw [run_withPath]
  by_cases hne : ds = []
  · subst hne
    have hrun : (Overlay.fs (layersN (u :: is) (idu :: ids))).metadata [] w
        = VPath.metadata ⟨leafFS u, idu, []⟩ w := rfl
    simp only [renderC_nil, oview_root]
    rw [hrun, run_vmetadata h.hu]
    unfold Mem.metadata
    cases mu.find? [] <;> rfl
  · rw [C09.metadata_is_viewN h ds hne hp.hds, oview_ne (renderC_ne_nil hne)]
    rfl

/-- **the parent probe** (`get_parent`) of a user-level `create_dir` / `create_file` through the
overlay: the world is unchanged; it passes exactly when the parent is a directory of the view,
and otherwise fails with `Other` labelled with the caller's path -/
theorem run_getParent_overlay :
    VPath.getParent ⟨Overlay.fs (layersN (u :: is) (idu :: ids)), id, renderC (ds ++ [n])⟩ w
      = (if pIsDirN (mu :: ms) (renderC ds) then .ok ()
         else .err .other (some (renderC (ds ++ [n]))), w) := by
  have hpar : VPath.parent ⟨Overlay.fs (layersN (u :: is) (idu :: ids)), id, renderC (ds ++ [n])⟩
      = ⟨Overlay.fs (layersN (u :: is) (idu :: ids)), id, renderC ds⟩ := by
    simp only [VPath.parent, VPath.withStr, hp.parent]
  have hex : VPath.exists_ ⟨Overlay.fs (layersN (u :: is) (idu :: ids)), id, renderC ds⟩ w
      = (.ok (oview (mu :: ms) (renderC ds)).isSome, w) := run_parent_exists h inv hp
  have hmd := run_parent_metadata h inv hp id
  have hdir : pIsDirN (mu :: ms) (renderC ds) =
      (match oview (mu :: ms) (renderC ds) with
       | some e => decide (e.ftype = .dir)
       | none => false) := rfl
  unfold VPath.getParent
  simp only [hpar, bind, M.bind, hex]
  rw [hdir]
  cases hv : oview (mu :: ms) (renderC ds) with
  | none => simp [M.failAt]
  | some e =>
    rw [hv] at hmd
    simp only [Option.isSome_some, Bool.not_true, Bool.false_eq_true, if_false, bind, M.bind, hmd,
      Res.withPath]
    by_cases hd : e.ftype = .dir
    · simp [hd, Entry.meta, Pure.pure, M.pure]
    · simp [hd, Entry.meta, M.failAt]

end settingN

/-! ### 1. the user-level call IS the trait-level call, relabelled -/

section settingN2
variable {w : World} {u idu : Nat} {mu : FMap} {is ids : List Nat} {ms : List FMap}
  (h : OWN w (u :: is) (idu :: ids) (mu :: ms)) (inv : OInv mu ms)
  (hv : ViewWF (oview (mu :: ms))) {ds : List Str} {n : Str} (hp : OpPath (ds ++ [n])) (id : Nat)
include h inv hv hp

/-- a write session whose `create_file` succeeded cannot fail any more -/
theorem owrite_session_ok (bs : Bytes) (a : WHandle) (w1 : World)
    (hopen : Overlay.createFile (layersN (u :: is) (idu :: ids)) (renderC (ds ++ [n])) w
      = (.ok a, w1)) : (a.writeAllAndDrop bs w1).1 = .ok () := by
  rw [run_ocreateFileN h _ hp.ne hp.good] at hopen
  have h2 := h.setHead (pCreateFileN mu ms (ds ++ [n])).2
  cases hr : (pCreateFileN mu ms (ds ++ [n])).1 with
  | ok x =>
    rw [hr] at hopen
    simp only [Res.map, Prod.mk.injEq, Res.ok.injEq] at hopen
    obtain ⟨rfl, rfl⟩ := hopen
    rw [run_writeAllAndDrop h2.hu]
  | err k pth => rw [hr] at hopen; simp [Res.map] at hopen
  | panic => rw [hr] at hopen; simp [Res.map] at hopen

/-- an append session whose `append_file` succeeded cannot fail any more -/
theorem oappend_session_ok (bs : Bytes) (a : WHandle) (w1 : World)
    (hopen : Overlay.appendFile (layersN (u :: is) (idu :: ids)) (renderC (ds ++ [n])) w
      = (.ok a, w1)) : (a.writeAllAndDrop bs w1).1 = .ok () := by
  have hne := hp.ne
  have hcs := hp.good
  rcases Option.eq_none_or_eq_some (mu.find? (renderC (ds ++ [n]))) with hup | ⟨e0, hup⟩
  · by_cases hd : VIsDir (oview (mu :: ms)) (renderC ds)
    · obtain ⟨hE, inv1, hs1, hpok, hp1, hm1⟩ := ensure_ok inv hp hv hd
      have hE' : pEnsureN (mu :: ms) (ds ++ [n]).dropLast = (.ok (), fillDirs mu (chain [] ds)) := by
        rw [List.dropLast_concat]; exact hE
      have hf1 : (fillDirs mu (chain [] ds)).find? (renderC (ds ++ [n])) = none := by
        rw [hp1]; exact hup
      have h1 := h.setHead (fillDirs mu (chain [] ds))
      rcases readPath_casesN h1 (ds ++ [n]) hne hcs with
        ⟨hv1, hr⟩ | ⟨k, i, id', m, e1, hf, hi, hid, hl, he1, hmk1, hv1, hr⟩
      · rw [run_oappend_notFound h (ds ++ [n]) hne hcs hup _ hE' hr] at hopen
        simp at hopen
      · by_cases hfile : e1.ftype = .file
        · obtain ⟨j, rfl⟩ : ∃ j, k = j + 1 := by
            cases k with
            | zero =>
              have hg := hf.get
              simp at hg; subst hg
              rw [hf1] at he1; cases he1
            | succ j => exact ⟨j, rfl⟩
          have hm : ms[j]? = some m := by simpa using hf.get
          have hbefore : ∀ j' mj, j' < j → ms[j']? = some mj →
              mj.find? (renderC (ds ++ [n])) = none :=
            fun j' mj hj' hget => hf.before (j' + 1) mj (by omega) (by simpa using hget)
          obtain ⟨w1', hX, hw1⟩ := C04.run_oappendFile_copyUpN h (ds ++ [n]) hne hcs _ hE' hup hmk1
            hf1 hpok j m hm hbefore e1 he1 hfile
          rw [hX] at hopen
          simp only [Prod.mk.injEq, Res.ok.injEq] at hopen
          obtain ⟨rfl, rfl⟩ := hopen
          rw [run_writeAllAndDrop hw1.hu]
        · rw [run_oappend_notFile h (ds ++ [n]) hne hcs hup _ hE' i id' m e1 hr hl he1 hfile] at hopen
          simp at hopen
    · have hE' : pEnsureN (mu :: ms) (ds ++ [n]).dropLast = (.err .other none, mu) := by
        rw [List.dropLast_concat]; exact ensure_fail hd
      rw [run_oappend_ensureFail h (ds ++ [n]) hne hcs hup _ _ _ hE'] at hopen
      simp at hopen
  · rw [run_oappend_upper h (ds ++ [n]) hne hcs e0 hup] at hopen
    cases happ : Mem.appendFile mu (renderC (ds ++ [n])) with
    | ok b =>
      rw [happ] at hopen
      simp only [Res.map, Res.withPath, Prod.mk.injEq, Res.ok.injEq] at hopen
      obtain ⟨rfl, rfl⟩ := hopen
      rw [run_writeAllAndDrop h.hu]
    | err k pth => rw [happ] at hopen; simp [Res.map, Res.withPath] at hopen
    | panic => rw [happ] at hopen; simp [Res.map, Res.withPath] at hopen

/-- below a parent that is not a directory of the view the trait-level `create_dir` answers
`Other` and changes nothing -/
theorem ocreateDir_noparent (hd : ¬ VIsDir (oview (mu :: ms)) (renderC ds)) :
    Overlay.createDir (layersN (u :: is) (idu :: ids)) (renderC (ds ++ [n])) w
      = (.err .other none, w) := by
  have hpure : pCreateDirN mu ms (ds ++ [n]) = (.err .other none, mu) := by
    unfold pCreateDirN
    rw [List.dropLast_concat, ensure_fail hd]
    rfl
  rw [run_ocreateDirN h _ hp.ne hp.good, hpure, h.hu.same]

/-- … and so does `create_file` -/
theorem ocreateFile_noparent (hd : ¬ VIsDir (oview (mu :: ms)) (renderC ds)) :
    Overlay.createFile (layersN (u :: is) (idu :: ids)) (renderC (ds ++ [n])) w
      = (.err .other none, w) := by
  rw [run_ocreateFileN h _ hp.ne hp.good, (pCreateFileN_cases inv hv hp).1 hd, h.hu.same]
  rfl

/-- **the two levels agree, exactly.** In the setting of `overlay_contractN`, the user-level
call through `VfsPath` is the trait-level call with the error (if any) relabelled with the
caller's path: same final world, same success / error kind / panic. The parent probe of
`create_dir` / `create_file` changes nothing and never decides differently from
`ensure_has_parent`. -/
theorem vstep_eq_ostep_path (op : Mut) (hop : op.path = renderC (ds ++ [n])) :
    vstep (Overlay.fs (layersN (u :: is) (idu :: ids))) id op w =
      ((ostep (Overlay.fs (layersN (u :: is) (idu :: ids))) op w).1.withPath op.path,
       (ostep (Overlay.fs (layersN (u :: is) (idu :: ids))) op w).2) := by
  have hg := run_getParent_overlay h inv hp id
  cases op with
  | createDir p =>
    simp only [Mut.path] at hop; subst hop
    by_cases hd : VIsDir (oview (mu :: ms)) (renderC ds)
    · rw [if_pos ((pIsDirN_iff _ _).2 hd)] at hg
      simp only [vstep, ostep, VPath.createDir, bind, M.bind, hg, Mut.path]
      rfl
    · rw [if_neg (fun h0 => hd ((pIsDirN_iff _ _).1 h0))] at hg
      have ho : (Overlay.fs (layersN (u :: is) (idu :: ids))).createDir (renderC (ds ++ [n])) w
          = (.err .other none, w) := ocreateDir_noparent h inv hv hp hd
      simp only [vstep, ostep, VPath.createDir, bind, M.bind, hg, Mut.path, ho]
      rfl
  | write p bs =>
    simp only [Mut.path] at hop; subst hop
    by_cases hd : VIsDir (oview (mu :: ms)) (renderC ds)
    · rw [if_pos ((pIsDirN_iff _ _).2 hd)] at hg
      have key := run_session_withPath (renderC (ds ++ [n]))
        ((Overlay.fs (layersN (u :: is) (idu :: ids))).createFile (renderC (ds ++ [n])))
        (fun hd => hd.writeAllAndDrop bs) w
        (fun a w1 ha => by rw [owrite_session_ok h inv hv hp bs a w1 ha]; rfl)
      simp only [vstep, ostep, VPath.createFile, bind, M.bind, hg, Mut.path] at key ⊢
      exact key
    · rw [if_neg (fun h0 => hd ((pIsDirN_iff _ _).1 h0))] at hg
      have ho : (Overlay.fs (layersN (u :: is) (idu :: ids))).createFile (renderC (ds ++ [n])) w
          = (.err .other none, w) := ocreateFile_noparent h inv hv hp hd
      simp only [vstep, ostep, VPath.createFile, bind, M.bind, hg, Mut.path, ho]
      rfl
  | append p bs =>
    simp only [Mut.path] at hop; subst hop
    have key := run_session_withPath (renderC (ds ++ [n]))
      ((Overlay.fs (layersN (u :: is) (idu :: ids))).appendFile (renderC (ds ++ [n])))
      (fun hd => hd.writeAllAndDrop bs) w
      (fun a w1 ha => by rw [oappend_session_ok h inv hv hp bs a w1 ha]; rfl)
    simp only [vstep, ostep, VPath.appendFile, bind, M.bind, Mut.path] at key ⊢
    exact key
  | removeFile p => rfl
  | removeDir p => rfl

end settingN2

/-! ### 2. the contract at the `VfsPath` level -/

section bundle
variable {w : World} {u idu : Nat} {mu : FMap} {is ids : List Nat} {ms : List FMap}
  (h : OWN w (u :: is) (idu :: ids) (mu :: ms)) (inv : OInv mu ms)
  (hv : ViewWF (oview (mu :: ms)))
include h inv hv

/-- `vstep_eq_ostep_path` for any disciplined operation -/
theorem vstep_eq_ostep (id : Nat) (op : Mut) (hop : OpOK op) :
    vstep (Overlay.fs (layersN (u :: is) (idu :: ids))) id op w =
      ((ostep (Overlay.fs (layersN (u :: is) (idu :: ids))) op w).1.withPath op.path,
       (ostep (Overlay.fs (layersN (u :: is) (idu :: ids))) op w).2) := by
  obtain ⟨ds, n, hp, hpath⟩ := hop
  exact vstep_eq_ostep_path h inv hv hp id op hpath

/-- a failed user-level call carries exactly the caller's path -/
theorem vstep_err_path (id : Nat) (op : Mut) (hop : OpOK op) {k : ErrKind} {pth : Option Str}
    (he : (vstep (Overlay.fs (layersN (u :: is) (idu :: ids))) id op w).1 = .err k pth) :
    pth = some op.path := by
  rw [vstep_eq_ostep h inv hv id op hop] at he
  exact withPath_errPath _ _ he

/-- **vpath_overlay_contractN.** In the n-layer setting, with the hidden state in order
(`OInv`) and a well-formed view (`ViewWF`), EVERY mutator on a disciplined path (`OpOK`;
`remove_file` not on a directory of the view: `O3Free`) CALLED THROUGH THE `VfsPath` LAYER on the
overlay (`vstep`: `create_dir`, write session, append session, `remove_file`, `remove_dir` on
`⟨Overlay.fs (layersN …), id, p⟩`, any `id`)
* leaves a world that is again in the setting, with the lower maps unchanged (append: up to the
  access stamp of the copied entry), hidden state in order and view well-formed again,
* obeys the operation contract `VContract` relative to the n-layer view — exactly as
  `C09.overlay_contractN` states it for the trait level: the parent probe of the `VfsPath` layer
  changes neither the outcome class nor the effect,
* its outcome is the trait-level outcome relabelled, with the SAME final world, and
* a failure carries the caller's path. -/
theorem vpath_overlay_contractN (id : Nat) (op : Mut) (hop : OpOK op)
    (hdisc : O3Free (oview (mu :: ms)) op) :
    ∃ r w' mu' ms',
      vstep (Overlay.fs (layersN (u :: is) (idu :: ids))) id op w = (r, w') ∧
      OWN w' (u :: is) (idu :: ids) (mu' :: ms') ∧ LowerSame ms ms' ∧
      ((∀ p bs, op ≠ .append p bs) → ms' = ms) ∧
      OInv mu' ms' ∧ ViewWF (oview (mu' :: ms')) ∧
      VContract (oview (mu :: ms)) op r (oview (mu' :: ms')) ∧
      (∀ k pth, r = .err k pth → pth = some op.path) ∧
      (∃ r0, ostep (Overlay.fs (layersN (u :: is) (idu :: ids))) op w = (r0, w') ∧
        r = r0.withPath op.path) := by
  obtain ⟨r0, w', mu', ms', hrun, hown, hls, hms, inv', hv', hc⟩ :=
    overlay_contractN h inv hv op hop hdisc
  refine ⟨r0.withPath op.path, w', mu', ms', ?_, hown, hls, hms, inv', hv', hc.withPath _,
    fun k pth he => withPath_errPath _ _ he, r0, hrun, rfl⟩
  rw [vstep_eq_ostep h inv hv id op hop, hrun]

end bundle

/-! per operation, in the shape of the trait-level theorems -/

section perOp
variable {w : World} {u idu : Nat} {mu : FMap} {is ids : List Nat} {ms : List FMap}
  (h : OWN w (u :: is) (idu :: ids) (mu :: ms)) (inv : OInv mu ms)
  (hv : ViewWF (oview (mu :: ms))) {ds : List Str} {n : Str} (hp : OpPath (ds ++ [n])) (id : Nat)
include h inv hv hp

theorem vpath_overlay_createDir_contractN :
    ∃ r mu', VPath.createDir ⟨Overlay.fs (layersN (u :: is) (idu :: ids)), id, renderC (ds ++ [n])⟩ w
        = (r, w.setLeafFiles u mu') ∧
      OWN (w.setLeafFiles u mu') (u :: is) (idu :: ids) (mu' :: ms) ∧ OInv mu' ms ∧
      VContract (oview (mu :: ms)) (.createDir (renderC (ds ++ [n]))) r (oview (mu' :: ms)) := by
  obtain ⟨r, mu', hrun, hown, inv', hc⟩ := overlay_createDir_contractN h inv hv hp
  refine ⟨r.withPath (renderC (ds ++ [n])), mu', ?_, hown, inv', hc.withPath _⟩
  have := vstep_eq_ostep_path h inv hv hp id (.createDir (renderC (ds ++ [n]))) rfl
  rw [hrun] at this
  exact this

theorem vpath_overlay_write_contractN (bs : Bytes) :
    ∃ r mu', (VPath.createFile ⟨Overlay.fs (layersN (u :: is) (idu :: ids)), id, renderC (ds ++ [n])⟩
        >>= fun hd => hd.writeAllAndDrop bs : M Unit) w = (r, w.setLeafFiles u mu') ∧
      OWN (w.setLeafFiles u mu') (u :: is) (idu :: ids) (mu' :: ms) ∧ OInv mu' ms ∧
      VContract (oview (mu :: ms)) (.write (renderC (ds ++ [n])) bs) r (oview (mu' :: ms)) := by
  obtain ⟨r, mu', hrun, hown, inv', hc⟩ := overlay_write_contractN h inv hv hp bs
  refine ⟨r.withPath (renderC (ds ++ [n])), mu', ?_, hown, inv', hc.withPath _⟩
  have := vstep_eq_ostep_path h inv hv hp id (.write (renderC (ds ++ [n])) bs) rfl
  rw [hrun] at this
  exact this

theorem vpath_overlay_append_contractN (bs : Bytes) :
    ∃ r w' mu' ms',
      (VPath.appendFile ⟨Overlay.fs (layersN (u :: is) (idu :: ids)), id, renderC (ds ++ [n])⟩
        >>= fun hd => hd.writeAllAndDrop bs : M Unit) w = (r, w') ∧
      OWN w' (u :: is) (idu :: ids) (mu' :: ms') ∧ LowerSame ms ms' ∧ OInv mu' ms' ∧
      VContract (oview (mu :: ms)) (.append (renderC (ds ++ [n])) bs) r (oview (mu' :: ms')) := by
  obtain ⟨r, w', mu', ms', hrun, hown, hls, inv', hc⟩ := overlay_append_contractN h inv hv hp bs
  refine ⟨r.withPath (renderC (ds ++ [n])), w', mu', ms', ?_, hown, hls, inv', hc.withPath _⟩
  have := vstep_eq_ostep_path h inv hv hp id (.append (renderC (ds ++ [n])) bs) rfl
  rw [hrun] at this
  exact this

omit hv in
theorem vpath_overlay_removeFile_contractN
    (hnd : ¬ VIsDir (oview (mu :: ms)) (renderC (ds ++ [n]))) :
    ∃ r mu', VPath.removeFile ⟨Overlay.fs (layersN (u :: is) (idu :: ids)), id, renderC (ds ++ [n])⟩ w
        = (r, w.setLeafFiles u mu') ∧
      OWN (w.setLeafFiles u mu') (u :: is) (idu :: ids) (mu' :: ms) ∧ OInv mu' ms ∧
      VContract (oview (mu :: ms)) (.removeFile (renderC (ds ++ [n]))) r (oview (mu' :: ms)) := by
  obtain ⟨r, mu', hrun, hown, inv', hc⟩ := overlay_removeFile_contractN h inv hp hnd
  refine ⟨r.withPath (renderC (ds ++ [n])), mu', ?_, hown, inv', hc.withPath _⟩
  show M.withPath _ (ostep _ (.removeFile (renderC (ds ++ [n])))) w = _
  rw [run_withPath, hrun]

omit hv in
theorem vpath_overlay_removeDir_contractN :
    ∃ r mu', VPath.removeDir ⟨Overlay.fs (layersN (u :: is) (idu :: ids)), id, renderC (ds ++ [n])⟩ w
        = (r, w.setLeafFiles u mu') ∧
      OWN (w.setLeafFiles u mu') (u :: is) (idu :: ids) (mu' :: ms) ∧ OInv mu' ms ∧
      VContract (oview (mu :: ms)) (.removeDir (renderC (ds ++ [n]))) r (oview (mu' :: ms)) := by
  obtain ⟨r, mu', hrun, hown, inv', hc⟩ := overlay_removeDir_contractN h inv hp
  refine ⟨r.withPath (renderC (ds ++ [n])), mu', ?_, hown, inv', hc.withPath _⟩
  show M.withPath _ (ostep _ (.removeDir (renderC (ds ++ [n])))) w = _
  rw [run_withPath, hrun]

end perOp

/-! ### 3. histories of user-level calls -/

/-- a history of user-level calls: the outcomes and the final world -/
def runV (fs : FS) (id : Nat) : List Mut → World → List (Res Unit) × World
  | [], w => ([], w)
  | op :: rest, w =>
    ((vstep fs id op w).1 :: (runV fs id rest (vstep fs id op w).2).1,
      (runV fs id rest (vstep fs id op w).2).2)

/-- relabel every outcome of a history with the path of its call -/
def relabel : List Mut → List (Res Unit) → List (Res Unit)
  | op :: ops, r :: rs => r.withPath op.path :: relabel ops rs
  | _, _ => []

/-- every failed outcome carries the path of its call -/
def Labelled : List Mut → List (Res Unit) → Prop
  | op :: ops, r :: rs => (∀ k pth, r = .err k pth → pth = some op.path) ∧ Labelled ops rs
  | _, _ => True

theorem labelled_relabel (ops : List Mut) (rs : List (Res Unit)) : Labelled ops (relabel ops rs) := by
  induction ops generalizing rs with
  | nil => cases rs <;> trivial
  | cons op ops ih =>
    cases rs with
    | nil => trivial
    | cons r rs => exact ⟨fun k pth he => withPath_errPath _ _ he, ih rs⟩

theorem relabel_isOk (ops : List Mut) (rs : List (Res Unit)) (hl : rs.length = ops.length) :
    (relabel ops rs).map Res.isOk = rs.map Res.isOk := by
  induction ops generalizing rs with
  | nil => cases rs with
    | nil => rfl
    | cons r rs => simp at hl
  | cons op ops ih =>
    cases rs with
    | nil => simp at hl
    | cons r rs =>
      simp only [relabel, List.map_cons, withPath_isOk]
      rw [ih rs (by simpa using hl)]

theorem relabel_mem_panic (ops : List Mut) (rs : List (Res Unit))
    (h : ∀ r ∈ rs, r ≠ .panic) : ∀ r ∈ relabel ops rs, r ≠ .panic := by
  induction ops generalizing rs with
  | nil => intro r hr; cases rs <;> simp [relabel] at hr
  | cons op ops ih =>
    cases rs with
    | nil => intro r hr; simp [relabel] at hr
    | cons r0 rs =>
      intro r hr
      simp only [relabel, List.mem_cons] at hr
      rcases hr with rfl | hr
      · exact fun h0 => h r0 (by simp) ((withPath_panic _ _).1 h0)
      · exact ih rs (fun x hx => h x (by simp [hx])) r hr

theorem runOverlay_length (fs : FS) (ops : List Mut) (w : World) :
    (runOverlay fs ops w).1.length = ops.length := by
  induction ops generalizing w with
  | nil => rfl
  | cons op ops ih => simp [runOverlay, ih]

/-- **the two histories agree exactly**: under the hypotheses of `overlay_refines_reference`,
the history of user-level calls ends in the SAME world as the history of trait-level calls, and
its outcomes are those outcomes, each relabelled with the path of its call -/
theorem runV_eq_runOverlay (id : Nat) (ops : List Mut) (hops : ∀ op ∈ ops, OpOK op)
    {w : World} {u idu : Nat} {mu : FMap} {is ids : List Nat} {ms : List FMap}
    (h : OWN w (u :: is) (idu :: ids) (mu :: ms)) (inv : OInv mu ms)
    (hv : ViewWF (oview (mu :: ms))) (m0 : FMap) (href : Refines (oview (mu :: ms)) m0)
    (hdisc : RefO3Free ops m0) :
    runV (Overlay.fs (layersN (u :: is) (idu :: ids))) id ops w =
      (relabel ops (runOverlay (Overlay.fs (layersN (u :: is) (idu :: ids))) ops w).1,
       (runOverlay (Overlay.fs (layersN (u :: is) (idu :: ids))) ops w).2) := by
  induction ops generalizing w mu ms m0 with
  | nil => rfl
  | cons op rest ih =>
    have hop := hops op (by simp)
    have hd3 : O3Free (oview (mu :: ms)) op := by
      intro p hp hd
      subst hp
      exact hdisc.1 ((isDir_of_vcore (href.same _ (opOK_vis hop))).1 hd)
    obtain ⟨r, w', mu1, ms1, hrun, hown1, hls1, _, inv1, hv1, hc⟩ :=
      overlay_contractN h inv hv op hop hd3
    obtain ⟨_, _, _, href1⟩ := refines_step href hop hc
    have hstep := vstep_eq_ostep h inv hv id op hop
    rw [hrun] at hstep
    have hrest := ih (fun o ho => hops o (by simp [ho])) hown1 inv1 hv1 _ href1 hdisc.2
    simp only [runV, runOverlay, hstep, hrun, hrest, relabel]

/-- **vpath_overlay_refines_reference.** The history theorem at the level of the user's calls:
n ≥ 1 memory layers (`OWN`), `OInv`, `ViewWF`, a reference tree `m0` holding the initial view
(`Refines`). For EVERY finite list of mutators on disciplined paths (`OpOK`) issued through the
`VfsPath` layer (`runV`, any `fsId`), under the O3 type discipline (`RefO3Free`): the overlay and
the reference backend agree call by call on success / failure, neither ever panics, every failure
of the overlay is labelled with the path of its call, the final view of the overlay is (up to
timestamps) the final reference tree; the final world is again in the setting with `LowerSame`
lower maps, and all invariants hold again. -/
theorem vpath_overlay_refines_reference (id : Nat) (ops : List Mut) (hops : ∀ op ∈ ops, OpOK op)
    {w : World} {u idu : Nat} {mu : FMap} {is ids : List Nat} {ms : List FMap}
    (h : OWN w (u :: is) (idu :: ids) (mu :: ms)) (inv : OInv mu ms)
    (hv : ViewWF (oview (mu :: ms))) (m0 : FMap) (href : Refines (oview (mu :: ms)) m0)
    (hdisc : RefO3Free ops m0) :
    ∃ mu' ms',
      OWN (runV (Overlay.fs (layersN (u :: is) (idu :: ids))) id ops w).2
        (u :: is) (idu :: ids) (mu' :: ms') ∧
      LowerSame ms ms' ∧ OInv mu' ms' ∧ ViewWF (oview (mu' :: ms')) ∧
      (runV (Overlay.fs (layersN (u :: is) (idu :: ids))) id ops w).1.map Res.isOk
        = (runRef ops m0).1.map Res.isOk ∧
      (∀ r ∈ (runV (Overlay.fs (layersN (u :: is) (idu :: ids))) id ops w).1, r ≠ .panic) ∧
      (∀ r ∈ (runRef ops m0).1, r ≠ .panic) ∧
      Labelled ops (runV (Overlay.fs (layersN (u :: is) (idu :: ids))) id ops w).1 ∧
      Refines (oview (mu' :: ms')) (runRef ops m0).2 := by
  obtain ⟨mu', ms', hown, hls, inv', hv', hoks, hnp1, hnp2, href'⟩ :=
    overlay_refines_reference ops hops h inv hv m0 href hdisc
  rw [runV_eq_runOverlay id ops hops h inv hv m0 href hdisc]
  refine ⟨mu', ms', hown, hls, inv', hv', ?_, relabel_mem_panic _ _ hnp1, hnp2,
    labelled_relabel _ _, href'⟩
  rw [relabel_isOk _ _ (runOverlay_length _ _ _)]
  exact hoks

/-! ### 4. non-vacuity: the 3-layer world and the 12-call history of Props/C09Refine.lean -/

section example3

/-- all hypotheses of `vpath_overlay_refines_reference` hold on the concrete world -/
theorem x_vrefines :
    ∃ mu' ms',
      OWN (runV xfs 5 xOps xw).2 [2, 0, 1] [7, 8, 9] (mu' :: ms') ∧
      LowerSame [xA, xB] ms' ∧ OInv mu' ms' ∧ ViewWF (oview (mu' :: ms')) ∧
      (runV xfs 5 xOps xw).1.map Res.isOk = (runRef xOps xRef).1.map Res.isOk ∧
      (∀ r ∈ (runV xfs 5 xOps xw).1, r ≠ .panic) ∧
      (∀ r ∈ (runRef xOps xRef).1, r ≠ .panic) ∧
      Labelled xOps (runV xfs 5 xOps xw).1 ∧
      Refines (oview (mu' :: ms')) (runRef xOps xRef).2 :=
  vpath_overlay_refines_reference 5 xOps xOps_ok xw_setting xw_inv xw_viewWF xRef xw_refines xOps_o3

/-- the hypotheses of the per-call theorem hold, for a call of each kind -/
example := vpath_overlay_contractN xw_setting xw_inv xw_viewWF 5 (.createDir "/d/new".toList)
  (opOK_of_check (by decide)) (by intro p hp; cases hp)
example := vpath_overlay_contractN xw_setting xw_inv xw_viewWF 5 (.write "/d/x".toList [1, 2])
  (opOK_of_check (by decide)) (by intro p hp; cases hp)
example := vpath_overlay_contractN xw_setting xw_inv xw_viewWF 5 (.append "/d/c".toList [9])
  (opOK_of_check (by decide)) (by intro p hp; cases hp)
example := vpath_overlay_contractN xw_setting xw_inv xw_viewWF 5 (.removeFile "/d/b".toList)
  (opOK_of_check (by decide)) (by intro p hp; injection hp with hp; subst hp; decide)
example := vpath_overlay_contractN xw_setting xw_inv xw_viewWF 5 (.removeDir "/e".toList)
  (opOK_of_check (by decide)) (by intro p hp; cases hp)
-- a call below a missing parent: both levels answer `Other`; the user level labels it
example := vpath_overlay_contractN xw_setting xw_inv xw_viewWF 5 (.createDir "/nope/sub".toList)
  (opOK_of_check (by decide)) (by intro p hp; cases hp)
example : (vstep xfs 5 (.createDir "/nope/sub".toList) xw).1 = .err .other (some "/nope/sub".toList) ∧
    (ostep xfs (.createDir "/nope/sub".toList) xw).1 = .err .other none := by
  constructor <;> decide +kernel
example := vpath_overlay_createDir_contractN xw_setting xw_inv xw_viewWF
  (ds := ["d".toList]) (n := "new".toList) (by decide) 5

/-- independently, by evaluation: the outcomes of the user-level history — the outcomes of
`C09.x_outcomes`, each failure labelled with the path of its call -/
theorem xv_outcomes : (runV xfs 5 xOps xw).1 =
    [.ok (), .ok (), .ok (), .ok (), .ok (), .ok (), .ok (), .ok (),
     .err .dirExists (some "/d".toList), .err .other (some "/d".toList),
     .err .fileNotFound (some "/nope".toList), .err .other (some "/d/x/y".toList)] := by
  decide +kernel

end example3

section audit
#print axioms vstep_eq_ostep
#print axioms vstep_err_path
#print axioms vpath_overlay_contractN
#print axioms vpath_overlay_createDir_contractN
#print axioms vpath_overlay_write_contractN
#print axioms vpath_overlay_append_contractN
#print axioms vpath_overlay_removeFile_contractN
#print axioms vpath_overlay_removeDir_contractN
#print axioms runV_eq_runOverlay
#print axioms vpath_overlay_refines_reference
#print axioms x_vrefines
#print axioms xv_outcomes
end audit

end Vfs.C01
