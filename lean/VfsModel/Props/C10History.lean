/-
  C10 over HISTORIES — what is removed through the overlay stays absent through every later
  disciplined history that does not create it again; what is re-created starts fresh (a file
  holds exactly the new bytes, a directory is empty) although lower layers still hold the old
  entry and the old children. Derived from the refinement theorem
  `C09.overlay_refines_reference` plus three facts about the REFERENCE backend, proved here.

  Props/C10N.lean proves these for single steps / for sequences of operations `Unrelated` to the
  path, by tracking the marker in the upper map. Here nothing is said about markers: the overlay
  is compared with the reference tree call by call, and the reference tree has no hidden state.

  SETTING: `OWN w (u :: is) (idu :: ids) (mu :: ms)`, `OInv mu ms`, `ViewWF (oview (mu :: ms))`
  (invariants: Props/C09Refine.lean `OInv.initial`, `ViewWF.initial`, Props/C03Overlay.lean), a
  reference tree `m0` with `Refines (oview (mu :: ms)) m0`; every operation of a history obeys the
  path discipline `OpOK`, and `remove_file` is never applied to a directory (`RefO3Free`, read
  off the reference run: open defect O3).

  REFERENCE BACKEND (section `reference`; `WF m`, absolute paths):
  * `ref_step_absent` / `ref_history_absent`: an absent path stays absent through every history
    in which no operation `Creates` it — `Creates p op` :⇔ `op = create_dir p ∨ op = write p _`.
    This is the EXACT side condition: `append p`, `remove_file p`, `remove_dir p` are allowed
    (they fail on an absent path), and so is every operation on any other path, in particular
    below `p` (it fails: the parent is missing).
  * `ref_step_keeps` / `ref_history_keeps`: a history with no operation AT a path keeps its entry.
  * `wf_children_absent`, `ref_createDir_fresh`: a directory created by a successful `create_dir`
    has no children.
  OVERLAY (n ≥ 1 memory layers):
  * `removed_stays_absent_history`: `rm` = `remove_file p` or `remove_dir p` SUCCEEDS through the
    overlay; then for EVERY finite history `ops` of disciplined mutators none of which `Creates p`:
    after `rm :: ops` the path is absent from the view; `exists` answers false, `metadata`,
    `read_dir`, `open_file` fail with not-found on the final world; the lower maps are what they
    were up to access stamps (`LowerSame`: whatever a lower layer held at `p` it still holds).
  * `recreated_file_fresh_history`: history `pre ++ [write p bs] ++ post`, `pre` ARBITRARY
    (in particular `remove_file p :: ops`), the write session succeeds, no operation of `post` is
    at `p`: the final view has at `p` a file with exactly `bs`, and `open_file` through the
    overlay hands out exactly `bs`; lower maps as before up to access stamps.
  * `recreated_dir_empty_history`: history `pre ++ [create_dir p] ++ post`, `create_dir` succeeds
    (so `p` was absent: removed before, or never there), no operation of `post` at `p` or at a
    child of `p`: in the final view `p` is a directory without children, and `read_dir(p)`
    through the overlay answers `[]`; lower maps as before — they may still hold `p` and
    children of `p`.
  * `recreated_starts_fresh_history`: the two previous theorems in one statement.
  * `lowerSame_get`: what `LowerSame` says for one layer.
  * non-vacuity (`decide`): on the 3-layer world of Props/C09Refine.lean — "/d/x" (in layers 1
    and 2) removed, three later calls, still absent; re-created with one byte; "/e" (layer 2
    only, with "/e/z") emptied, removed, re-created: empty, layer 2 still holds "/e/z".
  NOT PROVED: histories outside the disciplines; the `VfsPath`-level operations; existence of
  the reference tree `m0` (a hypothesis; exhibited for the concrete world).
-/
import VfsModel.Props.C05Overlay
set_option linter.unusedSimpArgs false
set_option linter.unusedVariables false
namespace Vfs.C10
open Vfs Vfs.Overlay Vfs.C02 Vfs.C01 Vfs.C09

/-! ### the reference backend -/

section reference

theorem wf_stepPhys {m : FMap} (hm : WF m) (op : Mut) (hp : Abs op.path) :
    WF (stepPhys m op).2 := by
  obtain ⟨_, hce, hw⟩ := step_agree hm (CoreEq.refl m) op hp
  exact hw.of_coreEq hce

theorem wf_runRef {m : FMap} (hm : WF m) (ops : List Mut) (hops : ∀ op ∈ ops, Abs op.path) :
    WF (runRef ops m).2 := by
  induction ops generalizing m with
  | nil => exact hm
  | cons op rest ih =>
    exact ih (wf_stepPhys hm op (hops op (by simp))) (fun o ho => hops o (by simp [ho]))

/-- the operations that can bring a path into existence -/
def Creates (p : Str) (op : Mut) : Prop := op = .createDir p ∨ ∃ bs, op = .write p bs

instance (p : Str) (op : Mut) : Decidable (Creates p op) := by
  cases op with
  | createDir q =>
    exact decidable_of_iff (q = p)
      ⟨fun h => Or.inl (by rw [h]), fun h => by
        rcases h with h | ⟨bs, h⟩
        · injection h
        · cases h⟩
  | write q bs =>
    exact decidable_of_iff (q = p)
      ⟨fun h => Or.inr ⟨bs, by rw [h]⟩, fun h => by
        rcases h with h | ⟨bs', h⟩
        · cases h
        · injection h⟩
  | append q bs => exact isFalse (fun h => by rcases h with h | ⟨bs', h⟩ <;> cases h)
  | removeFile q => exact isFalse (fun h => by rcases h with h | ⟨bs', h⟩ <;> cases h)
  | removeDir q => exact isFalse (fun h => by rcases h with h | ⟨bs', h⟩ <;> cases h)

/-- one call that does not create `p` leaves an absent `p` absent -/
theorem ref_step_absent {m : FMap} (hm : WF m) (op : Mut) (hp : Abs op.path) {p : Str}
    (ha : Absent m p) (hnc : ¬ Creates p op) : Absent (stepPhys m op).2 p := by
  have C := (primitive_contracts hm op hp).1
  cases hok : (stepPhys m op).1.isOk with
  | false => rw [C.unchanged hok]; exact ha
  | true =>
    obtain ⟨hnamed, hframe⟩ := C.effect hok
    have hpre := C.ok_iff.1 hok
    by_cases hq : p = op.path
    · cases op with
      | createDir q => exact absurd (Or.inl (by rw [hq]; rfl)) hnc
      | write q bs => exact absurd (Or.inr ⟨bs, by rw [hq]; rfl⟩) hnc
      | append q bs =>
        simp only [Mut.path] at hq; subst hq
        exact absurd hpre (not_isFile_of_absent ha)
      | removeFile q => simp only [Mut.path] at hq; subst hq; exact hnamed
      | removeDir q => simp only [Mut.path] at hq; subst hq; exact hnamed
    · show (stepPhys m op).2.find? p = none
      rw [hframe p hq]; exact ha

/-- **an absent path stays absent through every history that does not create it** -/
theorem ref_history_absent {m : FMap} (hm : WF m) (ops : List Mut)
    (hops : ∀ op ∈ ops, Abs op.path) {p : Str} (ha : Absent m p)
    (hnc : ∀ op ∈ ops, ¬ Creates p op) : Absent (runRef ops m).2 p := by
  induction ops generalizing m with
  | nil => exact ha
  | cons op rest ih =>
    have hp := hops op (by simp)
    exact ih (wf_stepPhys hm op hp) (fun o ho => hops o (by simp [ho]))
      (ref_step_absent hm op hp ha (hnc op (by simp))) (fun o ho => hnc o (by simp [ho]))

/-- one call at another path keeps the entry of `p` -/
theorem ref_step_keeps {m : FMap} (hm : WF m) (op : Mut) (hp : Abs op.path) {p : Str}
    (hne : op.path ≠ p) : (stepPhys m op).2.find? p = m.find? p := by
  have C := (primitive_contracts hm op hp).1
  cases hok : (stepPhys m op).1.isOk with
  | false => rw [C.unchanged hok]
  | true => exact (C.effect hok).2 p (fun h => hne h.symm)

/-- **a history with no operation at `p` keeps the entry of `p`** -/
theorem ref_history_keeps {m : FMap} (hm : WF m) (ops : List Mut)
    (hops : ∀ op ∈ ops, Abs op.path) {p : Str} (hne : ∀ op ∈ ops, op.path ≠ p) :
    (runRef ops m).2.find? p = m.find? p := by
  induction ops generalizing m with
  | nil => rfl
  | cons op rest ih =>
    have hp := hops op (by simp)
    show (runRef rest (stepPhys m op).2).2.find? p = _
    rw [ih (wf_stepPhys hm op hp) (fun o ho => hops o (by simp [ho]))
      (fun o ho => hne o (by simp [ho])), ref_step_keeps hm op hp (hne op (by simp))]

/-- in a well-formed tree nothing is below an absent path -/
theorem wf_children_absent {m : FMap} (hm : WF m) {p : Str} (ha : Absent m p) (n : Str)
    (hn : '/' ∉ n) : m.find? (p ++ '/' :: n) = none := by
  cases hf : m.find? (p ++ '/' :: n) with
  | none => rfl
  | some e =>
    obtain ⟨_, pe, hpe, _⟩ := hm.2 _ e hf (by simp)
    rw [parent_of_child p n hn, ha] at hpe; cases hpe

/-- a directory created by a successful `create_dir` is empty -/
theorem ref_createDir_fresh {m : FMap} (hm : WF m) {p : Str} (hp : Abs p)
    (hok : (stepPhys m (.createDir p)).1.isOk = true) :
    IsDir (stepPhys m (.createDir p)).2 p ∧
    ∀ n, '/' ∉ n → (stepPhys m (.createDir p)).2.find? (p ++ '/' :: n) = none := by
  have C := (primitive_contracts hm (.createDir p) hp).1
  obtain ⟨hnamed, hframe⟩ := C.effect hok
  have hpre := C.ok_iff.1 hok
  refine ⟨hnamed, fun n hn => ?_⟩
  have hne : p ++ '/' :: n ≠ p := by
    intro h0; have := congrArg List.length h0; simp at this
  rw [hframe _ hne]
  exact wf_children_absent hm hpre.2 n hn

theorem runRef_append (a b : List Mut) (m : FMap) :
    runRef (a ++ b) m = ((runRef a m).1 ++ (runRef b (runRef a m).2).1, (runRef b (runRef a m).2).2) := by
  induction a generalizing m with
  | nil => rfl
  | cons op rest ih => simp only [List.cons_append, runRef, ih]

theorem refO3Free_append (a b : List Mut) (m : FMap) :
    RefO3Free (a ++ b) m ↔ RefO3Free a m ∧ RefO3Free b (runRef a m).2 := by
  induction a generalizing m with
  | nil => simp [RefO3Free, runRef]
  | cons op rest ih => simp only [List.cons_append, RefO3Free, runRef, ih, and_assoc]

end reference

theorem runOverlay_append (fs : FS) (a b : List Mut) (w : World) :
    runOverlay fs (a ++ b) w =
      ((runOverlay fs a w).1 ++ (runOverlay fs b (runOverlay fs a w).2).1,
        (runOverlay fs b (runOverlay fs a w).2).2) := by
  induction a generalizing w with
  | nil => rfl
  | cons op rest ih => simp only [List.cons_append, runOverlay, ih]

/-- what `LowerSame` says for one layer: the layer is still there and every path has the same
entry up to its access time -/
theorem lowerSame_get {ms ms' : List FMap} (h : LowerSame ms ms') {k : Nat} {m : FMap}
    (hm : ms[k]? = some m) :
    ∃ m', ms'[k]? = some m' ∧ ∀ q, (m'.find? q).map stripAcc = (m.find? q).map stripAcc := by
  induction h generalizing k with
  | nil => simp at hm
  | @cons a a' ms ms' ha _ ih =>
    cases k with
    | zero => simp at hm; subst hm; exact ⟨a', rfl, ha⟩
    | succ k => simp at hm; simpa using ih hm

theorem absent_of_refines {v : View} {m : FMap} (href : Refines v m) {p : Str} (hvis : Vis p)
    (ha : Absent m p) : v p = none := by
  have := href.same p hvis
  unfold mview at this
  rw [ha] at this
  cases hv : v p with
  | none => rfl
  | some e => rw [hv] at this; cases this

/-! ### histories through the overlay -/

section settingN
variable {w : World} {u idu : Nat} {mu : FMap} {is ids : List Nat} {ms : List FMap}
  (h : OWN w (u :: is) (idu :: ids) (mu :: ms)) (inv : OInv mu ms)
  (hv : ViewWF (oview (mu :: ms))) (m0 : FMap) (href : Refines (oview (mu :: ms)) m0)
include h inv hv href

/-- **removed_stays_absent_history.** `rm` is `remove_file p` or `remove_dir p` and SUCCEEDS
through the overlay. Then after every later finite history `ops` of disciplined mutators none of
which creates `p` (`Creates p op`: `create_dir p` or a write session on `p`; everything else is
allowed, with whatever outcome), `p` is absent from the view of the final world, every observer
of the overlay says so, and the lower layers hold what they held (up to access stamps). -/
theorem removed_stays_absent_history (p : Str) (rm : Mut)
    (hrm : rm = .removeFile p ∨ rm = .removeDir p) (ops : List Mut)
    (hops : ∀ op ∈ rm :: ops, OpOK op) (hnc : ∀ op ∈ ops, ¬ Creates p op)
    (hdisc : RefO3Free (rm :: ops) m0)
    (hok : (ostep (Overlay.fs (layersN (u :: is) (idu :: ids))) rm w).1.isOk = true) :
    let fs := Overlay.fs (layersN (u :: is) (idu :: ids))
    let w' := (runOverlay fs (rm :: ops) w).2
    ∃ mu' ms',
      OWN w' (u :: is) (idu :: ids) (mu' :: ms') ∧ LowerSame ms ms' ∧ OInv mu' ms' ∧
      ViewWF (oview (mu' :: ms')) ∧
      oview (mu' :: ms') p = none ∧
      fs.exists_ p w' = (.ok false, w') ∧
      fs.metadata p w' = (.err .fileNotFound none, w') ∧
      fs.readDir p w' = (.err .fileNotFound none, w') ∧
      fs.openFile p w' = (.err .fileNotFound none, w') := by
  intro fs w'
  obtain ⟨mu', ms', hown, hls, inv', hv', hoks, _, _, href'⟩ :=
    overlay_refines_reference (rm :: ops) hops h inv hv m0 href hdisc
  have hpath : rm.path = p := by rcases hrm with rfl | rfl <;> rfl
  obtain ⟨ds, n, hpth, hp⟩ := hops rm (by simp)
  rw [hpath] at hp
  have habs : ∀ op ∈ rm :: ops, Abs op.path := by
    intro op hop
    obtain ⟨ds', n', hp', hpath'⟩ := hops op hop
    rw [hpath']; exact hp'.abs
  -- the reference removal succeeded as well
  have hrefok : (stepPhys m0 rm).1.isOk = true := by
    simp only [runOverlay, runRef, List.map_cons, List.cons.injEq] at hoks
    rw [← hoks.1]; exact hok
  have C := (primitive_contracts href.wf rm (habs rm (by simp))).1
  have hgone : Absent (stepPhys m0 rm).2 p := by
    have := (C.effect hrefok).1
    rcases hrm with rfl | rfl <;> exact this
  have hfin : Absent (runRef (rm :: ops) m0).2 p :=
    ref_history_absent (wf_stepPhys href.wf rm (habs rm (by simp))) ops
      (fun o ho => habs o (by simp [ho])) hgone hnc
  have hview : oview (mu' :: ms') p = none := by
    apply absent_of_refines href' _ hfin
    rw [hp]; exact Or.inr hpth.nr
  refine ⟨mu', ms', hown, hls, inv', hv', hview, ?_⟩
  subst hp
  exact C05.overlay_absent_all_fail hown inv' hpth hview

/-- **recreated_file_fresh_history.** In a history `pre ++ [write p bs] ++ post` — `pre`
arbitrary, e.g. the removal of `p` followed by anything — where the write session succeeds and no
operation of `post` is at `p`: the final view shows at `p` a file with exactly `bs`, `open_file`
through the overlay serves exactly `bs`, and the lower layers hold what they held (old entry at
`p` included), up to access stamps. -/
theorem recreated_file_fresh_history (p : Str) (bs : Bytes) (pre post : List Mut)
    (hops : ∀ op ∈ pre ++ [.write p bs] ++ post, OpOK op) (hpost : ∀ op ∈ post, op.path ≠ p)
    (hdisc : RefO3Free (pre ++ [.write p bs] ++ post) m0)
    (hok : (ostep (Overlay.fs (layersN (u :: is) (idu :: ids))) (.write p bs)
      (runOverlay (Overlay.fs (layersN (u :: is) (idu :: ids))) pre w).2).1.isOk = true) :
    let fs := Overlay.fs (layersN (u :: is) (idu :: ids))
    let w' := (runOverlay fs (pre ++ [.write p bs] ++ post) w).2
    ∃ mu' ms',
      OWN w' (u :: is) (idu :: ids) (mu' :: ms') ∧ LowerSame ms ms' ∧ OInv mu' ms' ∧
      ViewWF (oview (mu' :: ms')) ∧
      VHasFile (oview (mu' :: ms')) p bs ∧
      (∃ w'', fs.openFile p w' = (.ok { content := bs, pos := 0 }, w'')) := by
  intro fs w'
  rw [refO3Free_append, refO3Free_append] at hdisc
  obtain ⟨⟨hd1, hd2⟩, hd3⟩ := hdisc
  rw [runRef_append] at hd3
  have hops1 : ∀ op ∈ pre, OpOK op := fun o ho => hops o (by simp [ho])
  have hopc : OpOK (.write p bs) := hops _ (by simp)
  have hops3 : ∀ op ∈ post, OpOK op := fun o ho => hops o (by simp [ho])
  have habs : ∀ {l : List Mut}, (∀ op ∈ l, OpOK op) → ∀ op ∈ l, Abs op.path := by
    intro l hl op hop
    obtain ⟨ds', n', hp', hpath'⟩ := hl op hop
    rw [hpath']; exact hp'.abs
  obtain ⟨ds, n, hpth, hp⟩ := hopc
  simp only [Mut.path] at hp
  -- stage 1: the prefix
  obtain ⟨mu1, ms1, hown1, hls1, inv1, hv1, _, _, _, href1⟩ :=
    overlay_refines_reference pre hops1 h inv hv m0 href hd1
  -- stage 2: the write session
  obtain ⟨mu2, ms2, hown2, hls2, inv2, hv2, hoks2, _, _, href2⟩ :=
    overlay_refines_reference [.write p bs] (by simpa using ⟨ds, n, hpth, hp⟩) hown1 inv1 hv1 _ href1
      hd2
  have hrefok : (stepPhys (runRef pre m0).2 (.write p bs)).1.isOk = true := by
    simp only [runOverlay, runRef, List.map_cons, List.cons.injEq] at hoks2
    rw [← hoks2.1]; exact hok
  have hpabs : Abs p := by rw [hp]; exact hpth.abs
  have C := (primitive_contracts href1.wf (.write p bs) hpabs).1
  have hfile : HasFile (runRef [.write p bs] (runRef pre m0).2).2 p bs := (C.effect hrefok).1
  -- stage 3: the rest
  obtain ⟨mu3, ms3, hown3, hls3, inv3, hv3, _, _, _, href3⟩ :=
    overlay_refines_reference post hops3 hown2 inv2 hv2 _ href2 hd3
  have hkeep := ref_history_keeps href2.wf post (habs hops3) hpost
  have hfile3 : HasFile (runRef post (runRef [.write p bs] (runRef pre m0).2).2).2 p bs := by
    unfold HasFile at hfile ⊢; rw [hkeep]; exact hfile
  have hvis : Vis p := by rw [hp]; exact Or.inr hpth.nr
  have hvf : VHasFile (oview (mu3 :: ms3)) p bs :=
    (hasFile_of_vcore (href3.same p hvis)).2 hfile3
  have hw' : w' = (runOverlay fs post (runOverlay fs [.write p bs] (runOverlay fs pre w).2).2).2 := by
    show (runOverlay fs (pre ++ [.write p bs] ++ post) w).2 = _
    rw [runOverlay_append, runOverlay_append]
  rw [hw']
  refine ⟨mu3, ms3, hown3, (hls1.trans hls2).trans hls3, inv3, hv3, hvf, ?_⟩
  subst hp
  obtain ⟨w'', _, hopen, _⟩ := C05.overlay_read_returns_content hown3 hpth.ne hpth.good hvf
  exact ⟨w'', hopen⟩

/-- **recreated_dir_empty_history.** In a history `pre ++ [create_dir p] ++ post` where
`create_dir p` succeeds (so `p` was absent at that moment: removed before, or never present) and
no operation of `post` is at `p` or at a child of `p`: in the final view `p` is a directory
without children, `read_dir(p)` through the overlay answers the empty listing, and the lower
layers hold what they held — `p` and its old children included — up to access stamps. -/
theorem recreated_dir_empty_history (p : Str) (pre post : List Mut)
    (hops : ∀ op ∈ pre ++ [.createDir p] ++ post, OpOK op)
    (hpost : ∀ op ∈ post, op.path ≠ p ∧ parentInternal op.path ≠ p)
    (hdisc : RefO3Free (pre ++ [.createDir p] ++ post) m0)
    (hok : (ostep (Overlay.fs (layersN (u :: is) (idu :: ids))) (.createDir p)
      (runOverlay (Overlay.fs (layersN (u :: is) (idu :: ids))) pre w).2).1.isOk = true) :
    let fs := Overlay.fs (layersN (u :: is) (idu :: ids))
    let w' := (runOverlay fs (pre ++ [.createDir p] ++ post) w).2
    ∃ mu' ms',
      OWN w' (u :: is) (idu :: ids) (mu' :: ms') ∧ LowerSame ms ms' ∧ OInv mu' ms' ∧
      ViewWF (oview (mu' :: ms')) ∧
      VIsDir (oview (mu' :: ms')) p ∧ VNoChildren (oview (mu' :: ms')) p ∧
      fs.readDir p w' = (.ok [], w') := by
  intro fs w'
  rw [refO3Free_append, refO3Free_append] at hdisc
  obtain ⟨⟨hd1, hd2⟩, hd3⟩ := hdisc
  rw [runRef_append] at hd3
  have hops1 : ∀ op ∈ pre, OpOK op := fun o ho => hops o (by simp [ho])
  have hopc : OpOK (.createDir p) := hops _ (by simp)
  have hops3 : ∀ op ∈ post, OpOK op := fun o ho => hops o (by simp [ho])
  have habs : ∀ {l : List Mut}, (∀ op ∈ l, OpOK op) → ∀ op ∈ l, Abs op.path := by
    intro l hl op hop
    obtain ⟨ds', n', hp', hpath'⟩ := hl op hop
    rw [hpath']; exact hp'.abs
  obtain ⟨ds, n, hpth, hp⟩ := hopc
  simp only [Mut.path] at hp
  obtain ⟨mu1, ms1, hown1, hls1, inv1, hv1, _, _, _, href1⟩ :=
    overlay_refines_reference pre hops1 h inv hv m0 href hd1
  obtain ⟨mu2, ms2, hown2, hls2, inv2, hv2, hoks2, _, _, href2⟩ :=
    overlay_refines_reference [.createDir p] (by simpa using ⟨ds, n, hpth, hp⟩) hown1 inv1 hv1 _
      href1 hd2
  have hrefok : (stepPhys (runRef pre m0).2 (.createDir p)).1.isOk = true := by
    simp only [runOverlay, runRef, List.map_cons, List.cons.injEq] at hoks2
    rw [← hoks2.1]; exact hok
  have hpabs : Abs p := by rw [hp]; exact hpth.abs
  obtain ⟨hdir2, hnoc2⟩ := ref_createDir_fresh href1.wf hpabs hrefok
  obtain ⟨mu3, ms3, hown3, hls3, inv3, hv3, _, _, _, href3⟩ :=
    overlay_refines_reference post hops3 hown2 inv2 hv2 _ href2 hd3
  have hkeep := ref_history_keeps href2.wf post (habs hops3) (fun o ho => (hpost o ho).1)
  have hdir3 : IsDir (runRef post (runRef [.createDir p] (runRef pre m0).2).2).2 p := by
    unfold IsDir; rw [hkeep]; exact hdir2
  have hnoc3 : ∀ x, '/' ∉ x →
      (runRef post (runRef [.createDir p] (runRef pre m0).2).2).2.find? (p ++ '/' :: x) = none := by
    intro x hx
    rw [ref_history_keeps href2.wf post (habs hops3)]
    · exact hnoc2 x hx
    · intro o ho h0
      apply (hpost o ho).2
      rw [h0]; exact parent_of_child p x hx
  have hvis : Vis p := by rw [hp]; exact Or.inr hpth.nr
  have hvd : VIsDir (oview (mu3 :: ms3)) p := (isDir_of_vcore (href3.same p hvis)).2 hdir3
  have hvn : VNoChildren (oview (mu3 :: ms3)) p := by
    intro x hx
    apply absent_of_refines href3 _ (hnoc3 x hx)
    rw [hp]; exact Or.inr (NR_child hpth.ne (good_noSlash hpth.good) hpth.head x)
  have hw' : w' = (runOverlay fs post (runOverlay fs [.createDir p] (runOverlay fs pre w).2).2).2 := by
    show (runOverlay fs (pre ++ [.createDir p] ++ post) w).2 = _
    rw [runOverlay_append, runOverlay_append]
  rw [hw']
  refine ⟨mu3, ms3, hown3, (hls1.trans hls2).trans hls3, inv3, hv3, hvd, hvn, ?_⟩
  subst hp
  rw [C05.overlay_readDir_spec hown3 inv3 _ hpth.good hpth.nowo]
  obtain ⟨e, he, hde⟩ := hvd
  rw [he]
  simp only [hde, if_true]
  have hnil : pListingN (mu3 :: ms3) (renderC (ds ++ [n])) = [] := by
    apply List.eq_nil_iff_forall_not_mem.2
    intro x hx
    obtain ⟨hxs, hsome, _⟩ := (C05.mem_listing hown3 inv3 (ds ++ [n]) x).1 hx
    have := hvn x hxs
    rw [oview_ne (by simp)] at this
    rw [this] at hsome; cases hsome
  rw [hnil]

/-- **recreated_starts_fresh_history** (the two theorems above in one statement). The history
re-creates `p` by `c` = a write session with `bs`, or `create_dir p`; `c` succeeds; afterwards no
operation is at `p` (for a directory: nor at a child of `p`). Then the final view shows exactly
`bs` (resp. an empty directory), and so do `open_file` (resp. `read_dir`) through the overlay;
the lower layers still hold what they held. -/
theorem recreated_starts_fresh_history (p : Str) (c : Mut)
    (hc : (∃ bs, c = .write p bs) ∨ c = .createDir p) (pre post : List Mut)
    (hops : ∀ op ∈ pre ++ [c] ++ post, OpOK op)
    (hpost : ∀ op ∈ post, op.path ≠ p ∧ (c = .createDir p → parentInternal op.path ≠ p))
    (hdisc : RefO3Free (pre ++ [c] ++ post) m0)
    (hok : (ostep (Overlay.fs (layersN (u :: is) (idu :: ids))) c
      (runOverlay (Overlay.fs (layersN (u :: is) (idu :: ids))) pre w).2).1.isOk = true) :
    let fs := Overlay.fs (layersN (u :: is) (idu :: ids))
    let w' := (runOverlay fs (pre ++ [c] ++ post) w).2
    ∃ mu' ms',
      OWN w' (u :: is) (idu :: ids) (mu' :: ms') ∧ LowerSame ms ms' ∧ OInv mu' ms' ∧
      ViewWF (oview (mu' :: ms')) ∧
      (∀ bs, c = .write p bs → VHasFile (oview (mu' :: ms')) p bs ∧
        ∃ w'', fs.openFile p w' = (.ok { content := bs, pos := 0 }, w'')) ∧
      (c = .createDir p → VIsDir (oview (mu' :: ms')) p ∧ VNoChildren (oview (mu' :: ms')) p ∧
        fs.readDir p w' = (.ok [], w')) := by
  intro fs w'
  rcases hc with ⟨bs, rfl⟩ | rfl
  · obtain ⟨mu', ms', a, b, c1, d, e, f⟩ := recreated_file_fresh_history h inv hv m0 href p bs pre
      post hops (fun o ho => (hpost o ho).1) hdisc hok
    refine ⟨mu', ms', a, b, c1, d, ?_, fun h0 => by cases h0⟩
    intro bs' hbs
    injection hbs with _ hbs
    subst hbs
    exact ⟨e, f⟩
  · obtain ⟨mu', ms', a, b, c1, d, e, f, g⟩ := recreated_dir_empty_history h inv hv m0 href p pre
      post hops (fun o ho => ⟨(hpost o ho).1, (hpost o ho).2 rfl⟩) hdisc hok
    exact ⟨mu', ms', a, b, c1, d, fun bs h0 => (by cases h0), fun _ => ⟨e, f, g⟩⟩

end settingN

/-! ### non-vacuity: the 3-layer world of Props/C09Refine.lean

upper (leaf 2): "/top"; layer 1 (leaf 0): "/d", "/d/x" = "1", "/d/b"; layer 2 (leaf 1): "/d",
"/d/x" = "2", "/d/c", "/e", "/e/z". -/

section example3

/-- "/d/x" lives in BOTH lower layers. It is removed; a directory is created, "/d/c" is appended
to (copy-up), "/d/x" itself is tried with `append` and `remove_file` (allowed: they do not create
it; both fail): still absent -/
def hOps1 : List Mut :=
  [.createDir "/q".toList, .append "/d/c".toList [9], .append "/d/x".toList [7],
   .removeFile "/d/x".toList, .write "/d/y".toList [1]]

theorem x_removed_stays_absent :
    ∃ mu' ms',
      OWN (runOverlay xfs (.removeFile "/d/x".toList :: hOps1) xw).2 [2, 0, 1] [7, 8, 9]
        (mu' :: ms') ∧
      LowerSame [xA, xB] ms' ∧ oview (mu' :: ms') "/d/x".toList = none := by
  obtain ⟨mu', ms', a, b, _, _, c, _⟩ := removed_stays_absent_history xw_setting xw_inv xw_viewWF xRef xw_refines "/d/x".toList
    (.removeFile "/d/x".toList) (Or.inl rfl) hOps1
    (by intro op hop; apply opOK_of_check; revert op; decide)
    (by decide) (by decide) (by decide +kernel)
  exact ⟨mu', ms', a, b, c⟩

/-- evaluated independently: absent at the end, while layers 1 and 2 still hold their bytes -/
example : (xfs.exists_ "/d/x".toList
    (runOverlay xfs (.removeFile "/d/x".toList :: hOps1) xw).2).1 = .ok false := by decide +kernel
example : (mapsOfN (runOverlay xfs (.removeFile "/d/x".toList :: hOps1) xw).2 [0, 1]).map
    (fun m => (m.find? "/d/x".toList).map (·.content)) = [some [49], some [50]] := by
  decide +kernel

/-- re-created as a file with one byte, after the removal and an unrelated call; later calls
elsewhere -/
theorem x_recreated_file :
    ∃ mu' ms',
      OWN (runOverlay xfs ([.removeFile "/d/x".toList, .createDir "/q".toList] ++
        [.write "/d/x".toList [85]] ++ [.append "/d/c".toList [9]]) xw).2 [2, 0, 1] [7, 8, 9]
        (mu' :: ms') ∧
      LowerSame [xA, xB] ms' ∧ VHasFile (oview (mu' :: ms')) "/d/x".toList [85] := by
  obtain ⟨mu', ms', a, b, _, _, c, _⟩ := recreated_file_fresh_history xw_setting xw_inv xw_viewWF xRef xw_refines "/d/x".toList [85]
    [.removeFile "/d/x".toList, .createDir "/q".toList] [.append "/d/c".toList [9]]
    (by intro op hop; apply opOK_of_check; revert op; decide)
    (by decide) (by decide) (by decide +kernel)
  exact ⟨mu', ms', a, b, c⟩

example : readAllN xfs "/d/x"
    (runOverlay xfs ([.removeFile "/d/x".toList, .createDir "/q".toList] ++
      [.write "/d/x".toList [85]] ++ [.append "/d/c".toList [9]]) xw).2 = .ok [85] := by
  decide +kernel

/-- "/e" exists only in layer 2, with the child "/e/z": emptied, removed, re-created — empty,
although layer 2 still holds "/e" and "/e/z" -/
theorem x_recreated_dir :
    ∃ mu' ms',
      OWN (runOverlay xfs ([.removeFile "/e/z".toList, .removeDir "/e".toList] ++
        [.createDir "/e".toList] ++ [.write "/d/y".toList [1]]) xw).2 [2, 0, 1] [7, 8, 9]
        (mu' :: ms') ∧
      LowerSame [xA, xB] ms' ∧ VIsDir (oview (mu' :: ms')) "/e".toList ∧
      VNoChildren (oview (mu' :: ms')) "/e".toList := by
  obtain ⟨mu', ms', a, b, _, _, c, d, _⟩ := recreated_dir_empty_history xw_setting xw_inv xw_viewWF xRef xw_refines "/e".toList
    [.removeFile "/e/z".toList, .removeDir "/e".toList] [.write "/d/y".toList [1]]
    (by intro op hop; apply opOK_of_check; revert op; decide)
    (by decide) (by decide) (by decide +kernel)
  exact ⟨mu', ms', a, b, c, d⟩

example : (mapsOfN (runOverlay xfs ([.removeFile "/e/z".toList, .removeDir "/e".toList] ++
      [.createDir "/e".toList] ++ [.write "/d/y".toList [1]]) xw).2 [1]).map
    (fun m => ((m.find? "/e".toList).isSome, (m.find? "/e/z".toList).map (·.content)))
      = [(true, some [90])] := by decide +kernel

end example3

end Vfs.C10

section audit
open Vfs.C10
#print axioms ref_history_absent
#print axioms ref_history_keeps
#print axioms ref_createDir_fresh
#print axioms removed_stays_absent_history
#print axioms recreated_file_fresh_history
#print axioms recreated_dir_empty_history
#print axioms recreated_starts_fresh_history
#print axioms x_removed_stays_absent
#print axioms x_recreated_file
#print axioms x_recreated_dir
end audit
