/-
  C19 — Timestamps round-trip and are independent of content.
  * the three setters of MemoryFS store exactly the value passed, touch no other field and no
    other key, and fail with not-found (changing nothing) on a missing path;
  * setters of different fields commute;
  * publishing a writer (flush / drop — what `create_file` + write and `append_file` + write end
    with) keeps `created` and `accessed`, stamps `modified`; a fresh key gets `created := now`;
  * `create_file` over an existing file replaces the entry (truncate semantics: new creation time);
  * PhysicalFS: `set_creation_time` is `NotSupported` and changes nothing, the two other setters
    change one field;
  * the adapters forward to the `VfsPath` setter of the translated path; EmbeddedFS refuses.
-/
import VfsModel.Leaf
import VfsModel.Adapters
import VfsModel.Embedded
import VfsModel.Proofs.FMapLemmas
import VfsModel.Proofs.LeafFrame
import VfsModel.Props.C14
namespace Vfs.C19
open Vfs.FMap

/-! ### MemoryFS: the three setters -/

/-- `set_creation_time`: the stored entry is the old one with `created` replaced -/
theorem setCreated_entry (m : FMap) (p : Str) (e : Entry) (ts : TS) (h : m.find? p = some e) :
    Mem.setCreated m p ts = (.ok (), m.insert p { e with created := ts }) := by
  simp [Mem.setCreated, h]

theorem setModified_entry (m : FMap) (p : Str) (e : Entry) (ts : TS) (h : m.find? p = some e) :
    Mem.setModified m p ts = (.ok (), m.insert p { e with modified := ts }) := by
  simp [Mem.setModified, h]

theorem setAccessed_entry (m : FMap) (p : Str) (e : Entry) (ts : TS) (h : m.find? p = some e) :
    Mem.setAccessed m p ts = (.ok (), m.insert p { e with accessed := ts }) := by
  simp [Mem.setAccessed, h]

/-- round trip of `set_creation_time`: the call succeeds, `metadata` reports exactly `at t` as
creation time and the old values of the type, the length and the two other times, the content
is the old content, and no other key is touched -/
theorem set_roundtrip_created (m : FMap) (p : Str) (e : Entry) (t : Int)
    (h : m.find? p = some e) :
    (Mem.setCreated m p (.at t)).1 = .ok () ∧
    Mem.metadata (Mem.setCreated m p (.at t)).2 p =
      .ok { ftype := e.ftype, len := e.content.length, created := .at t,
            modified := e.modified, accessed := e.accessed } ∧
    (Mem.setCreated m p (.at t)).2.find? p = some { e with created := .at t } ∧
    (∀ e', (Mem.setCreated m p (.at t)).2.find? p = some e' →
        e'.content = e.content ∧ e'.ftype = e.ftype) ∧
    ∀ k, k ≠ p → (Mem.setCreated m p (.at t)).2.find? k = m.find? k := by
  rw [setCreated_entry m p e _ h]
  refine ⟨rfl, by simp [Mem.metadata, Entry.meta], by simp, ?_, ?_⟩
  · intro e' he'; simp at he'; subst he'; exact ⟨rfl, rfl⟩
  · intro k hk; exact find?_insert_ne m p k _ hk

theorem set_roundtrip_modified (m : FMap) (p : Str) (e : Entry) (t : Int)
    (h : m.find? p = some e) :
    (Mem.setModified m p (.at t)).1 = .ok () ∧
    Mem.metadata (Mem.setModified m p (.at t)).2 p =
      .ok { ftype := e.ftype, len := e.content.length, created := e.created,
            modified := .at t, accessed := e.accessed } ∧
    (Mem.setModified m p (.at t)).2.find? p = some { e with modified := .at t } ∧
    (∀ e', (Mem.setModified m p (.at t)).2.find? p = some e' →
        e'.content = e.content ∧ e'.ftype = e.ftype) ∧
    ∀ k, k ≠ p → (Mem.setModified m p (.at t)).2.find? k = m.find? k := by
  rw [setModified_entry m p e _ h]
  refine ⟨rfl, by simp [Mem.metadata, Entry.meta], by simp, ?_, ?_⟩
  · intro e' he'; simp at he'; subst he'; exact ⟨rfl, rfl⟩
  · intro k hk; exact find?_insert_ne m p k _ hk

theorem set_roundtrip_accessed (m : FMap) (p : Str) (e : Entry) (t : Int)
    (h : m.find? p = some e) :
    (Mem.setAccessed m p (.at t)).1 = .ok () ∧
    Mem.metadata (Mem.setAccessed m p (.at t)).2 p =
      .ok { ftype := e.ftype, len := e.content.length, created := e.created,
            modified := e.modified, accessed := .at t } ∧
    (Mem.setAccessed m p (.at t)).2.find? p = some { e with accessed := .at t } ∧
    (∀ e', (Mem.setAccessed m p (.at t)).2.find? p = some e' →
        e'.content = e.content ∧ e'.ftype = e.ftype) ∧
    ∀ k, k ≠ p → (Mem.setAccessed m p (.at t)).2.find? k = m.find? k := by
  rw [setAccessed_entry m p e _ h]
  refine ⟨rfl, by simp [Mem.metadata, Entry.meta], by simp, ?_, ?_⟩
  · intro e' he'; simp at he'; subst he'; exact ⟨rfl, rfl⟩
  · intro k hk; exact find?_insert_ne m p k _ hk

/-- a setter on a missing path: not-found, and the map is the very same map -/
theorem set_absent (m : FMap) (p : Str) (ts : TS) (h : m.find? p = none) :
    Mem.setCreated m p ts = (fail .fileNotFound, m) ∧
    Mem.setModified m p ts = (fail .fileNotFound, m) ∧
    Mem.setAccessed m p ts = (fail .fileNotFound, m) := by
  simp [Mem.setCreated, Mem.setModified, Mem.setAccessed, h]

/-- the metadata of any other path is the same before and after a setter -/
theorem set_frame_metadata (m : FMap) (p k : Str) (ts : TS) (hk : k ≠ p) :
    Mem.metadata (Mem.setCreated m p ts).2 k = Mem.metadata m k ∧
    Mem.metadata (Mem.setModified m p ts).2 k = Mem.metadata m k ∧
    Mem.metadata (Mem.setAccessed m p ts).2 k = Mem.metadata m k := by
  unfold Mem.setCreated Mem.setModified Mem.setAccessed Mem.metadata
  cases h : m.find? p <;> simp [find?_insert_ne _ _ _ _ hk]

/-! ### setters of distinct fields commute -/

/-- the two orders of `set_creation_time` / `set_modification_time` give the same map (as a
function of the key), hence the same metadata everywhere -/
theorem created_modified_commute (m : FMap) (p : Str) (a b : TS) (k : Str) :
    (Mem.setModified (Mem.setCreated m p a).2 p b).2.find? k =
    (Mem.setCreated (Mem.setModified m p b).2 p a).2.find? k := by
  cases h : m.find? p with
  | none => simp [Mem.setCreated, Mem.setModified, h]
  | some e =>
    rw [setCreated_entry m p e a h, setModified_entry m p e b h]
    rw [setModified_entry _ p _ b (find?_insert_self _ _ _),
        setCreated_entry _ p _ a (find?_insert_self _ _ _)]
    simp only [find?_insert]
    split <;> rfl

theorem created_accessed_commute (m : FMap) (p : Str) (a b : TS) (k : Str) :
    (Mem.setAccessed (Mem.setCreated m p a).2 p b).2.find? k =
    (Mem.setCreated (Mem.setAccessed m p b).2 p a).2.find? k := by
  cases h : m.find? p with
  | none => simp [Mem.setCreated, Mem.setAccessed, h]
  | some e =>
    rw [setCreated_entry m p e a h, setAccessed_entry m p e b h]
    rw [setAccessed_entry _ p _ b (find?_insert_self _ _ _),
        setCreated_entry _ p _ a (find?_insert_self _ _ _)]
    simp only [find?_insert]
    split <;> rfl

theorem modified_accessed_commute (m : FMap) (p : Str) (a b : TS) (k : Str) :
    (Mem.setAccessed (Mem.setModified m p a).2 p b).2.find? k =
    (Mem.setModified (Mem.setAccessed m p b).2 p a).2.find? k := by
  cases h : m.find? p with
  | none => simp [Mem.setModified, Mem.setAccessed, h]
  | some e =>
    rw [setModified_entry m p e a h, setAccessed_entry m p e b h]
    rw [setAccessed_entry _ p _ b (find?_insert_self _ _ _),
        setModified_entry _ p _ a (find?_insert_self _ _ _)]
    simp only [find?_insert]
    split <;> rfl

theorem metadata_congr (m1 m2 : FMap) (q : Str) (h : m1.find? q = m2.find? q) :
    Mem.metadata m1 q = Mem.metadata m2 q := by
  unfold Mem.metadata; rw [h]

/-- setting two different time fields in either order yields the same metadata, for every
path `q` (the one set and all others), whether or not `p` exists -/
theorem setters_commute_on_distinct_fields (m : FMap) (p : Str) (a b : TS) (q : Str) :
    Mem.metadata (Mem.setModified (Mem.setCreated m p a).2 p b).2 q =
      Mem.metadata (Mem.setCreated (Mem.setModified m p b).2 p a).2 q ∧
    Mem.metadata (Mem.setAccessed (Mem.setCreated m p a).2 p b).2 q =
      Mem.metadata (Mem.setCreated (Mem.setAccessed m p b).2 p a).2 q ∧
    Mem.metadata (Mem.setAccessed (Mem.setModified m p a).2 p b).2 q =
      Mem.metadata (Mem.setModified (Mem.setAccessed m p b).2 p a).2 q :=
  ⟨metadata_congr _ _ q (created_modified_commute m p a b q),
   metadata_congr _ _ q (created_accessed_commute m p a b q),
   metadata_congr _ _ q (modified_accessed_commute m p a b q)⟩

/-- all three fields set, in any order: `metadata` reports the three values -/
theorem set_all_three (m : FMap) (p : Str) (e : Entry) (c mo a : Int) (h : m.find? p = some e) :
    Mem.metadata
      (Mem.setAccessed (Mem.setModified (Mem.setCreated m p (.at c)).2 p (.at mo)).2 p (.at a)).2 p
      = .ok { ftype := e.ftype, len := e.content.length, created := .at c, modified := .at mo,
              accessed := .at a } := by
  rw [setCreated_entry m p e _ h, setModified_entry _ p _ _ (find?_insert_self _ _ _),
      setAccessed_entry _ p _ _ (find?_insert_self _ _ _)]
  simp [Mem.metadata, Entry.meta]

/-! ### writers: publication keeps `created` and `accessed` -/

/-- flush / drop of a writer on an existing file: content := buffer, `modified := now`,
`created` and `accessed` kept; every other key untouched -/
theorem publish_keeps_created_accessed (files : FMap) (key : Str) (buf : Bytes) (e : Entry)
    (h : files.find? key = some e) (hf : e.ftype = .file) :
    (memPublish files key buf).find? key =
      some { ftype := .file, content := buf, created := e.created, modified := .now,
             accessed := e.accessed } ∧
    ∀ k, k ≠ key → (memPublish files key buf).find? k = files.find? k := by
  unfold memPublish
  simp only [h, hf, ↓reduceIte]
  refine ⟨by simp, fun k hk => ?_⟩
  exact find?_insert_ne _ _ _ _ hk

/-- a key that is gone (the file was removed while the handle was open): nothing is published,
no entry — and no timestamp — appears -/
theorem publish_fresh (files : FMap) (key : Str) (buf : Bytes) (h : files.find? key = none) :
    memPublish files key buf = files := by
  unfold memPublish
  simp only [h]

/-- a creation time set explicitly survives any number of later publications -/
theorem publish_after_setCreated (m : FMap) (p : Str) (e : Entry) (t : Int) (buf : Bytes)
    (h : m.find? p = some e) (hf : e.ftype = .file) :
    ∃ md, Mem.metadata (memPublish (Mem.setCreated m p (.at t)).2 p buf) p = .ok md ∧
      md.created = .at t ∧ md.accessed = e.accessed ∧ md.modified = .now ∧ md.len = buf.length := by
  rw [setCreated_entry m p e _ h]
  have := (publish_keeps_created_accessed (m.insert p { e with created := .at t }) p buf _
    (find?_insert_self _ _ _) hf).1
  exact ⟨{ ftype := .file, len := buf.length, created := .at t, modified := .now,
           accessed := e.accessed }, by simp [Mem.metadata, this, Entry.meta], rfl, rfl, rfl, rfl⟩

/-- one append session on the in-memory backend, at the level of the file map: `append_file`
hands out the old bytes, the write lands at their end, and the publication keeps the creation
time (and the access time); the content is `old ++ bs` -/
theorem append_session_keeps_created (m : FMap) (p : Str) (e : Entry) (bs : Bytes)
    (h : m.find? p = some e) (hf : e.ftype = .file) :
    Mem.appendFile m p = .ok e.content ∧
    (memPublish m p (cursorWrite e.content e.content.length bs)).find? p =
      some { ftype := .file, content := e.content ++ bs, created := e.created, modified := .now,
             accessed := e.accessed } ∧
    Mem.metadata (memPublish m p (cursorWrite e.content e.content.length bs)) p =
      .ok { ftype := .file, len := e.content.length + bs.length, created := e.created,
            modified := .now, accessed := e.accessed } := by
  have hp := (publish_keeps_created_accessed m p (cursorWrite e.content e.content.length bs) e h hf).1
  rw [C14.write_at_end] at hp ⊢
  refine ⟨by simp [Mem.appendFile, h, hf], hp, ?_⟩
  simp [Mem.metadata, hp, Entry.meta]

theorem World.setLeafFiles_self (w : World) (i : Nat) (l : Leaf) (h : w.leaf? i = some l) :
    w.setLeafFiles i l.files = w := by
  unfold World.setLeafFiles World.leaf? at *
  have : w.leaves.modify i (fun l' => { l' with files := l.files }) = w.leaves := by
    apply List.ext_getElem?
    intro j
    rw [List.getElem?_modify]
    by_cases hij : i = j
    · subst hij; simp [h]
    · simp [hij]
  rw [this]

theorem World.setLeafFiles_twice (w : World) (i : Nat) (f g : FMap) :
    (w.setLeafFiles i f).setLeafFiles i g = w.setLeafFiles i g := by
  unfold World.setLeafFiles
  simp only [World.mk.injEq, and_true]
  apply List.ext_getElem?
  intro j
  simp only [List.getElem?_modify]
  cases hj : w.leaves[j]? <;> simp
  split <;> rfl

/-- the same session through the world: `append_file` on leaf `i` (an in-memory leaf), one
`write_all(bs)`, drop. The world afterwards holds, under `p`, the old bytes followed by `bs`,
with the old creation and access times. -/
theorem append_session_world (i : Nat) (w : World) (l : Leaf) (p : Str) (e : Entry) (bs : Bytes)
    (hl : w.leaf? i = some l) (hk : l.kind = .mem)
    (h : l.files.find? p = some e) (hf : e.ftype = .file) :
    ((do let hd ← (leafFS i).appendFile p; hd.writeAllAndDrop bs) : M Unit) w =
      (.ok (), w.setLeafFiles i (l.files.insert p
        { ftype := .file, content := e.content ++ bs, created := e.created, modified := .now,
          accessed := e.accessed })) := by
  have hw : w.setLeafFiles i l.files = w := World.setLeafFiles_self w i l hl
  simp only [bind, M.bind, leafFS, onLeaf, hl, hk, Mem.appendFile, h, hf, Res.map, hw,
    WHandle.writeAllAndDrop, WHandle.write, WHandle.drop, WHandle.flush, C14.write_at_end,
    memPublish, ne_eq, not_true_eq_false, ite_false, ↓reduceIte]

/-- `create_file` over an existing file replaces the entry by a new empty file whose three
times are `now`: truncation resets the creation time -/
theorem create_file_resets (m : FMap) (p : Str) (e : Entry) (h : m.find? p = some e)
    (hf : e.ftype = .file) (hpar : Mem.ensureHasParent m p = .ok ()) :
    Mem.createFile m p = (.ok (), m.insert p fileEntryNow) ∧
    Mem.metadata (Mem.createFile m p).2 p =
      .ok { ftype := .file, len := 0, created := .now, modified := .now, accessed := .now } := by
  have : Mem.createFile m p = (.ok (), m.insert p fileEntryNow) := by
    simp [Mem.createFile, hpar, h, hf]
  rw [this]
  exact ⟨rfl, by simp [Mem.metadata, Entry.meta, fileEntryNow]⟩

/-- … and the writer published afterwards keeps that new creation time, not the old one -/
theorem create_session_created_now (m : FMap) (p : Str) (e : Entry) (buf : Bytes)
    (h : m.find? p = some e) (hf : e.ftype = .file) (hpar : Mem.ensureHasParent m p = .ok ()) :
    ∃ md, Mem.metadata (memPublish (Mem.createFile m p).2 p buf) p = .ok md ∧
      md.created = .now ∧ md.len = buf.length := by
  rw [(create_file_resets m p e h hf hpar).1]
  have := (publish_keeps_created_accessed (m.insert p fileEntryNow) p buf _
    (find?_insert_self _ _ _) rfl).1
  exact ⟨{ ftype := .file, len := buf.length, created := .now, modified := .now,
           accessed := .now }, by rw [Mem.metadata, this]; rfl, rfl, rfl⟩

/-! ### PhysicalFS -/

/-- `set_creation_time` of PhysicalFS: `NotSupported`, world unchanged -/
theorem phys_setCreationTime_notSupported (i : Nat) (w : World) (l : Leaf) (p : Str) (t : Int)
    (hl : w.leaf? i = some l) (hk : l.kind = .phys) :
    (leafFS i).setCreationTime p t w = (fail .notSupported, w) := by
  simp only [leafFS, onLeaf, hl, hk, World.setLeafFiles_self w i l hl]

/-- `Phys.setTime` on an existing entry rewrites that entry with `upd`, nothing else -/
theorem phys_setTime_entry (upd : Entry → Entry) (m : FMap) (p : Str) (e : Entry)
    (h : Phys.lookup m p = .ok (some e)) :
    Phys.setTime upd m p = (.ok (), m.insert p (upd e)) ∧
    (Phys.setTime upd m p).2.find? p = some (upd e) ∧
    ∀ k, k ≠ p → (Phys.setTime upd m p).2.find? k = m.find? k := by
  have : Phys.setTime upd m p = (.ok (), m.insert p (upd e)) := by simp [Phys.setTime, h]
  rw [this]
  exact ⟨rfl, by simp, fun k hk => find?_insert_ne _ _ _ _ hk⟩

/-- the two supported setters of PhysicalFS change exactly one field -/
theorem phys_set_one_field (m : FMap) (p : Str) (e : Entry) (t : Int)
    (h : Phys.lookup m p = .ok (some e)) :
    (Phys.setTime (fun e => { e with modified := .at t }) m p).2.find? p =
      some { ftype := e.ftype, content := e.content, created := e.created, modified := .at t,
             accessed := e.accessed } ∧
    (Phys.setTime (fun e => { e with accessed := .at t }) m p).2.find? p =
      some { ftype := e.ftype, content := e.content, created := e.created, modified := e.modified,
             accessed := .at t } :=
  ⟨(phys_setTime_entry _ m p e h).2.1, (phys_setTime_entry _ m p e h).2.1⟩

theorem phys_setTime_absent (upd : Entry → Entry) (m : FMap) (p : Str)
    (h : Phys.lookup m p = .ok none) : Phys.setTime upd m p = (fail .fileNotFound, m) := by
  simp [Phys.setTime, h]

/-- replacing an entry by one of the same type does not change path resolution -/
theorem phys_resolveParent_insert (m : FMap) (p q : Str) (e e' : Entry)
    (h : m.find? p = some e) (ht : e'.ftype = e.ftype) :
    Phys.resolveParent (m.insert p e') q = Phys.resolveParent m q := by
  unfold Phys.resolveParent
  generalize Phys.ancestors q = as
  induction as with
  | nil => rfl
  | cons a as ih =>
    simp only [List.find?_cons]
    by_cases hap : a = p
    · subst hap
      simp only [find?_insert_self, h, ht]
      cases hd : decide (e.ftype ≠ FType.dir)
      · simp only; exact ih
      · simp only [find?_insert_self, h]
    · simp only [find?_insert_ne _ _ _ _ hap]
      cases hfa : m.find? a with
      | none => simp only [hfa, find?_insert_ne _ _ _ _ hap]
      | some ea =>
        simp only []
        cases hd : decide (ea.ftype ≠ FType.dir)
        · simp only; exact ih
        · simp only [find?_insert_ne _ _ _ _ hap, hfa]

/-- round trip on PhysicalFS: after `set_modification_time(t)` the metadata reports `at t`, the
other fields as before -/
theorem phys_set_roundtrip_modified (m : FMap) (p : Str) (e : Entry) (t : Int)
    (h : Phys.lookup m p = .ok (some e)) :
    ∃ md0, Phys.metadata m p = .ok md0 ∧
      Phys.metadata (Phys.setTime (fun e => { e with modified := .at t }) m p).2 p =
        .ok { md0 with modified := .at t } := by
  have hf : m.find? p = some e ∧ Phys.resolveParent m p = .ok () := by
    unfold Phys.lookup at h
    split at h <;> simp at h
    rename_i u hu
    cases u
    exact ⟨h, hu⟩
  rw [(phys_setTime_entry _ m p e h).1]
  refine ⟨{ e.meta with len := if e.ftype = .dir then 0 else e.content.length }, ?_, ?_⟩
  · simp only [Phys.metadata, h]
  · simp only [Phys.metadata, Phys.lookup,
      phys_resolveParent_insert m p p e { e with modified := .at t } hf.1 rfl, hf.2,
      find?_insert_self]
    rfl

theorem phys_set_roundtrip_accessed (m : FMap) (p : Str) (e : Entry) (t : Int)
    (h : Phys.lookup m p = .ok (some e)) :
    ∃ md0, Phys.metadata m p = .ok md0 ∧
      Phys.metadata (Phys.setTime (fun e => { e with accessed := .at t }) m p).2 p =
        .ok { md0 with accessed := .at t } := by
  have hf : m.find? p = some e ∧ Phys.resolveParent m p = .ok () := by
    unfold Phys.lookup at h
    split at h <;> simp at h
    rename_i u hu
    cases u
    exact ⟨h, hu⟩
  rw [(phys_setTime_entry _ m p e h).1]
  refine ⟨{ e.meta with len := if e.ftype = .dir then 0 else e.content.length }, ?_, ?_⟩
  · simp only [Phys.metadata, h]
  · simp only [Phys.metadata, Phys.lookup,
      phys_resolveParent_insert m p p e { e with accessed := .at t } hf.1 rfl, hf.2,
      find?_insert_self]
    rfl

/-! ### through the world -/

/-- `set_modification_time` through the trait object of an in-memory leaf: success, the world
afterwards is explicit, and `metadata` on that world reports `at t` -/
theorem world_setModificationTime (i : Nat) (w : World) (l : Leaf) (p : Str) (e : Entry) (t : Int)
    (hl : w.leaf? i = some l) (hk : l.kind = .mem) (h : l.files.find? p = some e) :
    (leafFS i).setModificationTime p t w =
      (.ok (), w.setLeafFiles i (l.files.insert p { e with modified := .at t })) ∧
    ((leafFS i).metadata p (w.setLeafFiles i (l.files.insert p { e with modified := .at t }))).1 =
      .ok { ftype := e.ftype, len := e.content.length, created := e.created, modified := .at t,
            accessed := e.accessed } := by
  constructor
  · simp only [leafFS, onLeaf, hl, hk, setModified_entry l.files p e _ h]
  · simp only [leafFS, onLeaf, World.setLeafFiles_same w i l _ hl, hk, Mem.metadata,
      find?_insert_self]
    rfl

theorem world_setCreationTime (i : Nat) (w : World) (l : Leaf) (p : Str) (e : Entry) (t : Int)
    (hl : w.leaf? i = some l) (hk : l.kind = .mem) (h : l.files.find? p = some e) :
    (leafFS i).setCreationTime p t w =
      (.ok (), w.setLeafFiles i (l.files.insert p { e with created := .at t })) ∧
    ((leafFS i).metadata p (w.setLeafFiles i (l.files.insert p { e with created := .at t }))).1 =
      .ok { ftype := e.ftype, len := e.content.length, created := .at t, modified := e.modified,
            accessed := e.accessed } := by
  constructor
  · simp only [leafFS, onLeaf, hl, hk, setCreated_entry l.files p e _ h]
  · simp only [leafFS, onLeaf, World.setLeafFiles_same w i l _ hl, hk, Mem.metadata,
      find?_insert_self]
    rfl

theorem world_setAccessTime (i : Nat) (w : World) (l : Leaf) (p : Str) (e : Entry) (t : Int)
    (hl : w.leaf? i = some l) (hk : l.kind = .mem) (h : l.files.find? p = some e) :
    (leafFS i).setAccessTime p t w =
      (.ok (), w.setLeafFiles i (l.files.insert p { e with accessed := .at t })) ∧
    ((leafFS i).metadata p (w.setLeafFiles i (l.files.insert p { e with accessed := .at t }))).1 =
      .ok { ftype := e.ftype, len := e.content.length, created := e.created,
            modified := e.modified, accessed := .at t } := by
  constructor
  · simp only [leafFS, onLeaf, hl, hk, setAccessed_entry l.files p e _ h]
  · simp only [leafFS, onLeaf, World.setLeafFiles_same w i l _ hl, hk, Mem.metadata,
      find?_insert_self]
    rfl

/-- a setter through the world on a missing path: not-found, world unchanged -/
theorem world_set_absent (i : Nat) (w : World) (l : Leaf) (p : Str) (t : Int)
    (hl : w.leaf? i = some l) (hk : l.kind = .mem) (h : l.files.find? p = none) :
    (leafFS i).setCreationTime p t w = (fail .fileNotFound, w) ∧
    (leafFS i).setModificationTime p t w = (fail .fileNotFound, w) ∧
    (leafFS i).setAccessTime p t w = (fail .fileNotFound, w) := by
  obtain ⟨h1, h2, h3⟩ := set_absent l.files p (.at t) h
  simp only [leafFS, onLeaf, hl, hk, h1, h2, h3, World.setLeafFiles_self w i l hl, and_self]

/-- the `VfsPath` setter over that leaf: same effect (the relabelling touches errors only) -/
theorem vpath_setModificationTime (i fsId : Nat) (w : World) (l : Leaf) (p : Str) (e : Entry)
    (t : Int) (hl : w.leaf? i = some l) (hk : l.kind = .mem) (h : l.files.find? p = some e) :
    VPath.setModificationTime { fs := leafFS i, fsId := fsId, path := p } t w =
      (.ok (), w.setLeafFiles i (l.files.insert p { e with modified := .at t })) := by
  unfold VPath.setModificationTime M.withPath
  simp only [(world_setModificationTime i w l p e t hl hk h).1, Res.withPath]

/-! ### adapters -/

/-- OverlayFS: each setter is the `VfsPath` setter of `write_path(p)` (the top layer) -/
theorem overlay_setters (layers : List VPath) (p : Str) (t : Int) (wp : VPath)
    (h : Overlay.writePath layers p = .ok wp) :
    (Overlay.fs layers).setCreationTime p t = wp.setCreationTime t ∧
    (Overlay.fs layers).setModificationTime p t = wp.setModificationTime t ∧
    (Overlay.fs layers).setAccessTime p t = wp.setAccessTime t := by
  refine ⟨?_, ?_, ?_⟩ <;>
    (funext w; simp only [Overlay.fs, bind, M.bind, M.ret, h])

/-- … and when `write_path` rejects the path, that error is the outcome and nothing changes -/
theorem overlay_setters_badpath (layers : List VPath) (p : Str) (t : Int) (k : ErrKind)
    (pth : Option Str) (h : Overlay.writePath layers p = .err k pth) (w : World) :
    (Overlay.fs layers).setCreationTime p t w = (.err k pth, w) ∧
    (Overlay.fs layers).setModificationTime p t w = (.err k pth, w) ∧
    (Overlay.fs layers).setAccessTime p t w = (.err k pth, w) := by
  refine ⟨?_, ?_, ?_⟩ <;> simp only [Overlay.fs, bind, M.bind, M.ret, h]

/-- AltrootFS: each setter is the `VfsPath` setter of the translated path -/
theorem altroot_setters (root : VPath) (p : Str) (t : Int) (q : VPath)
    (h : Altroot.path root p = .ok q) :
    (Altroot.fs root).setCreationTime p t = q.setCreationTime t ∧
    (Altroot.fs root).setModificationTime p t = q.setModificationTime t ∧
    (Altroot.fs root).setAccessTime p t = q.setAccessTime t := by
  refine ⟨?_, ?_, ?_⟩ <;>
    (funext w; simp only [Altroot.fs, bind, M.bind, M.ret, h])

theorem altroot_setters_badpath (root : VPath) (p : Str) (t : Int) (k : ErrKind)
    (pth : Option Str) (h : Altroot.path root p = .err k pth) (w : World) :
    (Altroot.fs root).setCreationTime p t w = (.err k pth, w) ∧
    (Altroot.fs root).setModificationTime p t w = (.err k pth, w) ∧
    (Altroot.fs root).setAccessTime p t w = (.err k pth, w) := by
  refine ⟨?_, ?_, ?_⟩ <;> simp only [Altroot.fs, bind, M.bind, M.ret, h]

/-- EmbeddedFS: the three setters are `NotSupported` and change nothing -/
theorem embedded_setters (s : Embedded.State) (p : Str) (t : Int) (w : World) :
    (Embedded.fs s).setCreationTime p t w = (fail .notSupported, w) ∧
    (Embedded.fs s).setModificationTime p t w = (fail .notSupported, w) ∧
    (Embedded.fs s).setAccessTime p t w = (fail .notSupported, w) := ⟨rfl, rfl, rfl⟩

/-! ### Non-vacuity: a concrete map -/

def exEntry : Entry :=
  { ftype := .file, content := [1, 2], created := .at 7, modified := .now, accessed := .unset }

def exMap : FMap :=
  [ ([], { ftype := .dir, content := [], created := .now, modified := .unset, accessed := .unset }),
    ("/f".toList, exEntry) ]

example : exMap.find? "/f".toList = some exEntry := by decide
example : Mem.ensureHasParent exMap "/f".toList = .ok () := by decide
example : Mem.metadata (Mem.setCreated exMap "/f".toList (.at 42)).2 "/f".toList =
    .ok { ftype := .file, len := 2, created := .at 42, modified := .now, accessed := .unset } := by
  decide
example : Mem.metadata (memPublish exMap "/f".toList [1, 2, 3]) "/f".toList =
    .ok { ftype := .file, len := 3, created := .at 7, modified := .now, accessed := .unset } := by
  decide
example : Mem.metadata (Mem.createFile exMap "/f".toList).2 "/f".toList =
    .ok { ftype := .file, len := 0, created := .now, modified := .now, accessed := .now } := by
  decide
example : Mem.setCreated exMap "/g".toList (.at 1) = (fail .fileNotFound, exMap) := by decide
example : Phys.lookup exMap "/f".toList = .ok (some exEntry) := by decide
example : (World.leaf? { leaves := [{ kind := .mem, files := exMap }] } 0) =
    some { kind := .mem, files := exMap } := rfl

end Vfs.C19
