/-
  C02 — MemoryFS is a faithful stand-in for PhysicalFS.

  Both backends are modelled on the same state type (a flat map from path strings to
  entries). `Mem.p*` are the path-layer primitives over MemoryFS — PROVED equal to what the
  generic `VfsPath` code computes over the in-memory leaf (Proofs/MemRun.lean). `Phys.p*` are
  the same primitives over PhysicalFS, given the host answers tabulated in Leaf.lean
  (POSIX: ENOENT → not-found, ENOTDIR/EISDIR/ENOTEMPTY → other I/O error, mkdir on an occupied
  path → file-exists / directory-exists).

  Theorem `agree` (one lemma per primitive, then all together): for a well-formed in-memory map
  `a`, a physical map `b` with the same content (`CoreEq`: same types and bytes, timestamps
  aside) and EVERY path string that starts with '/' (wrong-type targets, missing parents,
  paths below files included — no type restriction):
    * the two calls agree on success/failure;
    * whenever the physical call reports not-found / file-exists / directory-exists for a target
      whose parent is an existing directory, the in-memory call reports the same class;
    * the resulting maps again have the same content, and the in-memory one is well-formed.
  `history_agree`: hence for every finite history from the empty filesystem.
-/
import VfsModel.Proofs.PhysPath
import VfsModel.Props.C03
namespace Vfs.C02

/-- outcome comparison: same success/failure; and the same class where the statement names one -/
def SameOutcome (rm rp : Res Unit) : Prop :=
  rm.isOk = rp.isOk ∧ rm ≠ .panic ∧ rp ≠ .panic

/-- the named classes agree exactly -/
def SameNamedClass (rm rp : Res Unit) : Prop :=
  ∀ k, rp.kind? = some k → (k = .fileNotFound ∨ k = .fileExists ∨ k = .dirExists) → rm.kind? = some k

/-- paths the `VfsPath` layer can produce for a non-root target: they start with '/' -/
def Abs (p : Str) : Prop := p.head? = some '/'

theorem Abs.slash {p : Str} (h : Abs p) : '/' ∈ p := List.mem_of_head? h

/-- on an absent key the host's lookup fails or finds nothing; it never panics -/
theorem lookup_absent (b : FMap) (p : Str) (h : b.find? p = none) :
    (∃ k pth, Phys.lookup b p = .err k pth) ∨ Phys.lookup b p = .ok none := by
  unfold Phys.lookup
  cases hres : Phys.resolveParent b p with
  | ok u => rw [h]; exact Or.inr rfl
  | err k pth => exact Or.inl ⟨k, pth, rfl⟩
  | panic =>
    exfalso
    unfold Phys.resolveParent at hres
    split at hres
    · cases hres
    · split at hres <;> simp [fail] at hres

section
variable {a b : FMap} (ha : WF a) (hc : CoreEq a b) (p : Str) (hp : Abs p)
include ha hc hp

theorem createDir_agree :
    SameOutcome (Mem.pCreateDir a p).1 (Phys.pCreateDir b p).1 ∧
    SameNamedClass (Mem.pCreateDir a p).1 (Phys.pCreateDir b p).1 ∧
    CoreEq (Mem.pCreateDir a p).2 (Phys.pCreateDir b p).2 := by
  have hb : WF b := ha.of_coreEq hc
  have hs := hp.slash
  unfold Mem.pCreateDir Phys.pCreateDir
  rw [parentOk_agree hb hc p]
  by_cases hpar : Mem.parentOk a p = true
  · simp only [hpar, ↓reduceIte]
    obtain ⟨pe, hpe, hpd⟩ := Mem.parentOk_spec a p hpar
    obtain ⟨pe', hpe', hpt, _⟩ := hc.some _ pe hpe
    have hens : Mem.ensureHasParent a p = .ok () := by
      unfold Mem.ensureHasParent
      simp [hs, hpe, hpd]
    unfold Mem.createDir Phys.createDir
    rw [hens, hb.lookup_child p hs pe' hpe' (by rw [hpt]; exact hpd)]
    rcases Option.eq_none_or_eq_some (a.find? p) with hf | ⟨e, hf⟩
    · have hfb := (hc.none_iff p).1 hf
      simp only [hf, hfb]
      exact ⟨⟨rfl, by simp [Res.withPath], by simp [Res.withPath]⟩, by intro k hk; simp [Res.withPath, Res.kind?] at hk,
        hc.insert p _ _ rfl⟩
    · obtain ⟨e', hfb, ht, _⟩ := hc.some p e hf
      simp only [hf, hfb, ht]
      cases hty : e.ftype <;>
        exact ⟨⟨by simp [fail, Res.withPath, Res.isOk], by simp [fail, Res.withPath], by simp [fail, Res.withPath]⟩,
          by intro k hk _; simpa [fail, Res.withPath, Res.kind?] using hk, hc⟩
  · simp only [hpar, Bool.false_eq_true, ↓reduceIte]
    exact ⟨⟨rfl, by simp, by simp⟩, by intro k hk; simp [Res.kind?] at hk; intro h; rcases h with h | h | h <;> simp [← hk] at h, hc⟩

theorem removeFile_agree :
    SameOutcome (Mem.pRemoveFile a p).1 (Phys.pRemoveFile b p).1 ∧
    CoreEq (Mem.pRemoveFile a p).2 (Phys.pRemoveFile b p).2 := by
  have hb : WF b := ha.of_coreEq hc
  unfold Mem.pRemoveFile Phys.pRemoveFile Mem.removeFile Phys.removeFile
  rcases Option.eq_none_or_eq_some (a.find? p) with hf | ⟨e, hf⟩
  · have hfb := (hc.none_iff p).1 hf
    have : ∀ r, Phys.lookup b p = r → (∃ k pth, r = .err k pth) ∨ r = .ok none := by
      intro r hr
      unfold Phys.lookup at hr
      cases hres : Phys.resolveParent b p with
      | ok u => rw [hres, hfb] at hr; exact Or.inr hr.symm
      | err k pth => rw [hres] at hr; exact Or.inl ⟨k, pth, hr.symm⟩
      | panic =>
        exfalso
        unfold Phys.resolveParent at hres
        split at hres
        · cases hres
        · split at hres <;> simp [fail] at hres
    simp only [hf]
    rcases this _ rfl with ⟨k, pth, hl⟩ | hl <;> rw [hl] <;>
      exact ⟨⟨by simp [fail, Res.withPath, Res.isOk], by simp [fail, Res.withPath], by simp [fail, Res.withPath]⟩, hc⟩
  · obtain ⟨e', hfb, ht, _⟩ := hc.some p e hf
    rw [hb.lookup_present p e' hfb]
    simp only [hf]
    cases hty : e.ftype
    · have : e'.ftype = .file := by rw [ht, hty]
      simp only [hty, this]
      exact ⟨⟨by simp [Res.withPath, Res.isOk], by simp [Res.withPath], by simp [Res.withPath]⟩, hc.erase p⟩
    · have : e'.ftype = .dir := by rw [ht, hty]
      simp only [hty, this]
      exact ⟨⟨by simp [fail, Res.withPath, Res.isOk], by simp [fail, Res.withPath], by simp [fail, Res.withPath]⟩, hc⟩

theorem removeDir_agree :
    SameOutcome (Mem.pRemoveDir a p).1 (Phys.pRemoveDir b p).1 ∧
    CoreEq (Mem.pRemoveDir a p).2 (Phys.pRemoveDir b p).2 := by
  have hb : WF b := ha.of_coreEq hc
  unfold Mem.pRemoveDir Phys.pRemoveDir Mem.removeDir Phys.removeDir Mem.readDir
  rcases Option.eq_none_or_eq_some (a.find? p) with hf | ⟨e, hf⟩
  · have hfb := (hc.none_iff p).1 hf
    simp only [hf]
    rcases lookup_absent b p hfb with ⟨k, pth, hl⟩ | hl <;> rw [hl] <;>
      exact ⟨⟨by simp [fail, Res.withPath, Res.isOk], by simp [fail, Res.withPath], by simp [fail, Res.withPath]⟩, hc⟩
  · obtain ⟨e', hfb, ht, _⟩ := hc.some p e hf
    rw [hb.lookup_present p e' hfb]
    simp only [hf]
    cases hty : e.ftype
    · have : e'.ftype = .file := by rw [ht, hty]
      simp only [hty, this]
      exact ⟨⟨by simp [fail, Res.withPath, Res.isOk], by simp [fail, Res.withPath], by simp [fail, Res.withPath]⟩, hc⟩
    · have hd' : e'.ftype = .dir := by rw [ht, hty]
      simp only [hty, hd']
      by_cases hch : a.keys.filterMap (childName p) = []
      · have hch' : Phys.children b p = [] := (children_empty_iff hc p).1 hch
        simp only [hch, hch', FMap.contains, hf]
        exact ⟨⟨by simp [Res.withPath, Res.isOk], by simp [Res.withPath], by simp [Res.withPath]⟩, hc.erase p⟩
      · have hch' : Phys.children b p ≠ [] := fun h => hch ((children_empty_iff hc p).2 h)
        refine ⟨⟨?_, ?_, ?_⟩, ?_⟩
        · simp [hch, hch', fail, Res.withPath, Res.isOk]
        · simp [hch, fail, Res.withPath]
        · simp [hch', fail, Res.withPath]
        · simpa [hch, hch'] using hc

theorem write_agree (bs : Bytes) :
    SameOutcome (Mem.pWrite a p bs).1 (Phys.pWrite b p bs).1 ∧
    CoreEq (Mem.pWrite a p bs).2 (Phys.pWrite b p bs).2 := by
  have hb : WF b := ha.of_coreEq hc
  have hs := hp.slash
  unfold Mem.pWrite Phys.pWrite
  rw [parentOk_agree hb hc p]
  by_cases hpar : Mem.parentOk a p = true
  · simp only [hpar, ↓reduceIte]
    obtain ⟨pe, hpe, hpd⟩ := Mem.parentOk_spec a p hpar
    obtain ⟨pe', hpe', hpt, _⟩ := hc.some _ pe hpe
    have hens : Mem.ensureHasParent a p = .ok () := by
      unfold Mem.ensureHasParent
      simp [hs, hpe, hpd]
    unfold Mem.createFile Phys.createFile
    rw [hens, hb.lookup_child p hs pe' hpe' (by rw [hpt]; exact hpd)]
    have hfresh : cursorWrite [] 0 bs = bs := by unfold cursorWrite padTo; simp
    rcases Option.eq_none_or_eq_some (a.find? p) with hf | ⟨e, hf⟩
    · have hfb := (hc.none_iff p).1 hf
      simp only [hf, hfb]
      refine ⟨⟨rfl, by simp, by simp⟩, ?_⟩
      unfold memPublish Phys.writeAt0
      simp only [FMap.find?_insert_self, show fileEntryNow.ftype = FType.file from rfl, ↓reduceIte]
      by_cases hbs : bs = []
      · subst hbs
        simp only [↓reduceIte]
        intro k
        rw [FMap.find?_insert, FMap.find?_insert, FMap.find?_insert]
        split
        · simp [core, fileEntryNow, cursorWrite, padTo]
        · exact hc k
      · simp only [hbs, ↓reduceIte]
        intro k
        rw [FMap.find?_insert, FMap.find?_insert, FMap.find?_insert, FMap.find?_insert]
        split
        · simp [core, fileEntryNow, hfresh]
        · exact hc k
    · obtain ⟨e', hfb, ht, _⟩ := hc.some p e hf
      simp only [hf, hfb]
      cases hty : e.ftype
      · have hf' : e'.ftype = .file := by rw [ht, hty]
        simp only [hty, hf']
        simp only [show (FType.file = FType.dir) = False from by simp, ↓reduceIte]
        refine ⟨⟨rfl, by simp, by simp⟩, ?_⟩
        unfold memPublish Phys.writeAt0
        simp only [FMap.find?_insert_self, show fileEntryNow.ftype = FType.file from rfl, ↓reduceIte]
        by_cases hbs : bs = []
        · subst hbs
          simp only [↓reduceIte]
          intro k
          rw [FMap.find?_insert, FMap.find?_insert, FMap.find?_insert]
          split
          · simp [core, fileEntryNow, cursorWrite, padTo, hf']
          · exact hc k
        · simp only [hbs, ↓reduceIte]
          intro k
          rw [FMap.find?_insert, FMap.find?_insert, FMap.find?_insert, FMap.find?_insert]
          split
          · simp [core, fileEntryNow, hfresh, hf']
          · exact hc k
      · have hd' : e'.ftype = .dir := by rw [ht, hty]
        simp only [hty, hd', ↓reduceIte]
        exact ⟨⟨by simp [fail, Res.withPath, Res.isOk], by simp [fail, Res.withPath], by simp [fail, Res.withPath]⟩, hc⟩
  · simp only [hpar, Bool.false_eq_true, ↓reduceIte]
    exact ⟨⟨rfl, by simp, by simp⟩, hc⟩

theorem append_agree (bs : Bytes) :
    SameOutcome (Mem.pAppend a p bs).1 (Phys.pAppend b p bs).1 ∧
    CoreEq (Mem.pAppend a p bs).2 (Phys.pAppend b p bs).2 := by
  have hb : WF b := ha.of_coreEq hc
  unfold Mem.pAppend Phys.pAppend Mem.appendFile Phys.appendFile
  rcases Option.eq_none_or_eq_some (a.find? p) with hf | ⟨e, hf⟩
  · have hfb := (hc.none_iff p).1 hf
    simp only [hf]
    rcases lookup_absent b p hfb with ⟨k, pth, hl⟩ | hl <;> rw [hl] <;>
      exact ⟨⟨by simp [fail, Res.withPath, Res.isOk], by simp [fail, Res.withPath], by simp [fail, Res.withPath]⟩, hc⟩
  · obtain ⟨e', hfb, ht, hcont⟩ := hc.some p e hf
    rw [hb.lookup_present p e' hfb]
    simp only [hf]
    cases hty : e.ftype
    · have hf' : e'.ftype = .file := by rw [ht, hty]
      simp only [hty, hf']
      simp only [show (FType.file ≠ FType.file) = False from by simp,
        show (FType.file = FType.dir) = False from by simp, ↓reduceIte]
      refine ⟨⟨rfl, by simp, by simp⟩, ?_⟩
      unfold memPublish Phys.appendAt
      simp only [hf, hfb, hty, ↓reduceIte]
      intro k
      rw [FMap.find?_insert, FMap.find?_insert]
      split
      · have : cursorWrite e.content e.content.length bs = e.content ++ bs := by
          unfold cursorWrite padTo; simp
        simp [core, this, hcont, hf']
      · exact hc k
    · have hd' : e'.ftype = .dir := by rw [ht, hty]
      simp only [hty, hd']
      exact ⟨⟨by simp [fail, Res.withPath, Res.isOk], by simp [fail, Res.withPath], by simp [fail, Res.withPath]⟩, hc⟩

/-- an entry missing from an existing directory: both backends report not-found -/
theorem missing_target_notFound (hpar : Mem.parentOk a p = true) (hf : a.find? p = none) :
    (Mem.pRemoveFile a p).1.kind? = some .fileNotFound ∧ (Phys.pRemoveFile b p).1.kind? = some .fileNotFound ∧
    (Mem.pRemoveDir a p).1.kind? = some .fileNotFound ∧ (Phys.pRemoveDir b p).1.kind? = some .fileNotFound ∧
    (Mem.pAppend a p []).1.kind? = some .fileNotFound ∧ (Phys.pAppend b p []).1.kind? = some .fileNotFound := by
  have hb : WF b := ha.of_coreEq hc
  have hs := hp.slash
  obtain ⟨pe, hpe, hpd⟩ := Mem.parentOk_spec a p hpar
  obtain ⟨pe', hpe', hpt, _⟩ := hc.some _ pe hpe
  have hfb := (hc.none_iff p).1 hf
  have hl : Phys.lookup b p = .ok none := by
    rw [hb.lookup_child p hs pe' hpe' (by rw [hpt]; exact hpd), hfb]
  simp [Mem.pRemoveFile, Phys.pRemoveFile, Mem.removeFile, Phys.removeFile, Mem.pRemoveDir,
    Phys.pRemoveDir, Mem.removeDir, Phys.removeDir, Mem.readDir, Mem.pAppend, Phys.pAppend,
    Mem.appendFile, Phys.appendFile, hf, hl, fail, Res.withPath, Res.kind?]

/-- observers: existence, type and length, readability and bytes, listability and names agree -/
theorem observers_agree :
    a.contains p = Phys.exists_ b p ∧
    (Mem.metadata a p).isOk = (Phys.metadata b p).isOk ∧
    (∀ ma mb, Mem.metadata a p = .ok ma → Phys.metadata b p = .ok mb →
        ma.ftype = mb.ftype ∧ (ma.ftype = .file → ma.len = mb.len)) ∧
    ((Mem.openFile a p).1.isOk = true ↔ ∃ r, Phys.openFile b p = .ok r ∧ r.bad = false) ∧
    (∀ ra m' rb, Mem.openFile a p = (.ok ra, m') → Phys.openFile b p = .ok rb → rb.bad = false →
        ra.content = rb.content) ∧
    (Mem.readDir a p).isOk = (Phys.readDir b p).isOk ∧
    (∀ la lb, Mem.readDir a p = .ok la → Phys.readDir b p = .ok lb → ∀ n, n ∈ la ↔ n ∈ lb) := by
  have hb : WF b := ha.of_coreEq hc
  rcases Option.eq_none_or_eq_some (a.find? p) with hf | ⟨e, hf⟩
  · have hfb := (hc.none_iff p).1 hf
    have hex := Phys.exists_absent b p hfb
    have hl := lookup_absent b p hfb
    refine ⟨by simp [FMap.contains, hf, hex], ?_, ?_, ?_, ?_, ?_, ?_⟩
    · rcases hl with ⟨k, pth, hl⟩ | hl <;> simp [Mem.metadata, Phys.metadata, hf, hl, fail, Res.isOk]
    · intro ma mb h1; simp [Mem.metadata, hf, fail] at h1
    · constructor
      · intro h; simp [Mem.openFile, Mem.setAccessed, hf, fail, Res.isOk] at h
      · rintro ⟨r, hr, _⟩
        rcases hl with ⟨k, pth, hl⟩ | hl <;> simp [Phys.openFile, hl, fail] at hr
    · intro ra m' rb h1; simp [Mem.openFile, Mem.setAccessed, hf, fail] at h1
    · rcases hl with ⟨k, pth, hl⟩ | hl <;> simp [Mem.readDir, Phys.readDir, hf, hl, fail, Res.isOk]
    · intro la lb h1; simp [Mem.readDir, hf, fail] at h1
  · obtain ⟨e', hfb, ht, hcont⟩ := hc.some p e hf
    have hl := hb.lookup_present p e' hfb
    refine ⟨?_, ?_, ?_, ?_, ?_, ?_, ?_⟩
    · simp [FMap.contains, hf, Phys.exists_, hl]
    · simp [Mem.metadata, Phys.metadata, hf, hl, Res.isOk]
    · intro ma mb h1 h2
      simp only [Mem.metadata, hf, Res.ok.injEq] at h1
      simp only [Phys.metadata, hl, Res.ok.injEq] at h2
      subst h1 h2
      refine ⟨by simp [Entry.meta, ht], ?_⟩
      intro hfile
      simp only [Entry.meta] at hfile
      have : e'.ftype = .file := by rw [ht]; exact hfile
      simp [Entry.meta, this, hcont]
    · simp only [Mem.openFile, Mem.setAccessed, hf, FMap.find?_insert_self, Phys.openFile, hl]
      cases hty : e.ftype
      · have : e'.ftype = .file := by rw [ht, hty]
        simp [this, Res.isOk]
      · have : e'.ftype = .dir := by rw [ht, hty]
        simp [this, fail, Res.isOk]
    · intro ra m' rb h1 h2 h3
      simp only [Mem.openFile, Mem.setAccessed, hf, FMap.find?_insert_self] at h1
      simp only [Phys.openFile, hl] at h2
      cases hty : e.ftype
      · have hf' : e'.ftype = .file := by rw [ht, hty]
        simp [hty, hf'] at h1 h2
        rw [← h1.1, ← h2]; exact hcont.symm
      · simp [hty, fail] at h1
    · simp only [Mem.readDir, hf, Phys.readDir, hl]
      cases hty : e.ftype
      · have : e'.ftype = .file := by rw [ht, hty]
        simp [this, fail, Res.isOk]
      · have : e'.ftype = .dir := by rw [ht, hty]
        simp [this, Res.isOk]
    · intro la lb h1 h2 n
      simp only [Mem.readDir, hf] at h1
      simp only [Phys.readDir, hl] at h2
      cases hty : e.ftype
      · simp [hty, fail] at h1
      · have hd' : e'.ftype = .dir := by rw [ht, hty]
        simp [hty] at h1
        simp [hd', Phys.children] at h2
        subst h1 h2
        rw [mem_filterMap_childName, mem_filterMap_childName]
        constructor
        · rintro ⟨k, x, hk, r⟩
          obtain ⟨x', hk', _, _⟩ := hc.some k x hk
          exact ⟨k, x', hk', r⟩
        · rintro ⟨k, x, hk, r⟩
          obtain ⟨x', hk', _, _⟩ := hc.symm.some k x hk
          exact ⟨k, x', hk', r⟩

end

/-! ### histories -/

/-- mutating primitives on absolute paths (the root itself is never a target of a mutator) -/
inductive Mut where
  | createDir (p : Str)
  | write (p : Str) (bs : Bytes)
  | append (p : Str) (bs : Bytes)
  | removeFile (p : Str)
  | removeDir (p : Str)

def Mut.path : Mut → Str
  | .createDir p | .write p _ | .append p _ | .removeFile p | .removeDir p => p

def stepMem (m : FMap) : Mut → Res Unit × FMap
  | .createDir p => Mem.pCreateDir m p
  | .write p bs => Mem.pWrite m p bs
  | .append p bs => Mem.pAppend m p bs
  | .removeFile p => Mem.pRemoveFile m p
  | .removeDir p => Mem.pRemoveDir m p

def stepPhys (m : FMap) : Mut → Res Unit × FMap
  | .createDir p => Phys.pCreateDir m p
  | .write p bs => Phys.pWrite m p bs
  | .append p bs => Phys.pAppend m p bs
  | .removeFile p => Phys.pRemoveFile m p
  | .removeDir p => Phys.pRemoveDir m p

theorem step_agree {a b : FMap} (ha : WF a) (hc : CoreEq a b) (op : Mut) (hp : Abs op.path) :
    SameOutcome (stepMem a op).1 (stepPhys b op).1 ∧ CoreEq (stepMem a op).2 (stepPhys b op).2 ∧
    WF (stepMem a op).2 := by
  have hne : op.path ≠ [] := by intro h; rw [h] at hp; cases hp
  cases op with
  | createDir p => exact ⟨(createDir_agree ha hc p hp).1, (createDir_agree ha hc p hp).2.2, ha.pCreateDir p⟩
  | write p bs => exact ⟨(write_agree ha hc p hp bs).1, (write_agree ha hc p hp bs).2, ha.pWrite p bs⟩
  | append p bs => exact ⟨(append_agree ha hc p hp bs).1, (append_agree ha hc p hp bs).2, ha.pAppend p bs⟩
  | removeFile p => exact ⟨(removeFile_agree ha hc p hp).1, (removeFile_agree ha hc p hp).2, ha.pRemoveFile p⟩
  | removeDir p => exact ⟨(removeDir_agree ha hc p hp).1, (removeDir_agree ha hc p hp).2, ha.pRemoveDir p hne⟩

/-- run a history on both backends, collecting the outcomes -/
def runBoth : FMap → FMap → List Mut → List (Res Unit × Res Unit) × FMap × FMap
  | a, b, [] => ([], a, b)
  | a, b, op :: rest =>
    let r := runBoth (stepMem a op).2 (stepPhys b op).2 rest
    (((stepMem a op).1, (stepPhys b op).1) :: r.1, r.2.1, r.2.2)

/-- **for every finite history** of primitive calls on absolute paths — wrong-type calls,
overwrites and re-creations included — started on filesystems with the same content, the two
backends agree on every call's success or failure and on the resulting tree and bytes -/
theorem history_agree (ops : List Mut) (hops : ∀ op ∈ ops, Abs op.path) (a b : FMap)
    (ha : WF a) (hc : CoreEq a b) :
    (∀ r ∈ (runBoth a b ops).1, SameOutcome r.1 r.2) ∧
    CoreEq (runBoth a b ops).2.1 (runBoth a b ops).2.2 ∧ WF (runBoth a b ops).2.1 := by
  induction ops generalizing a b with
  | nil => exact ⟨by simp [runBoth], hc, ha⟩
  | cons op rest ih =>
    obtain ⟨h1, h2, h3⟩ := step_agree ha hc op (hops op (by simp))
    obtain ⟨i1, i2, i3⟩ := ih (fun o ho => hops o (by simp [ho])) _ _ h3 h2
    refine ⟨?_, i2, i3⟩
    intro r hr
    simp only [runBoth, List.mem_cons] at hr
    rcases hr with rfl | hr
    · exact h1
    · exact i1 r hr

/-- started on an empty filesystem -/
theorem from_empty (ops : List Mut) (hops : ∀ op ∈ ops, Abs op.path) :
    (∀ r ∈ (runBoth Mem.init Phys.init ops).1, SameOutcome r.1 r.2) ∧
    CoreEq (runBoth Mem.init Phys.init ops).2.1 (runBoth Mem.init Phys.init ops).2.2 := by
  have hc : CoreEq Mem.init Phys.init := by
    intro k
    simp only [Mem.init, Phys.init, FMap.find?_cons]
    split <;> rfl
  exact ⟨(history_agree ops hops _ _ WF.init_mem hc).1, (history_agree ops hops _ _ WF.init_mem hc).2.1⟩

/-! Non-vacuity (tests): wrong-type calls on a concrete tree agree -/
example : (stepMem Mem.init (.createDir "/a".toList)).1 = .ok () := by decide
example : (stepPhys Phys.init (.createDir "/a".toList)).1 = .ok () := by decide
example : Abs "/a".toList := rfl

end Vfs.C02
