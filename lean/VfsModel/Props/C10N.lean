/-
  C10 for ANY NUMBER OF LAYERS — What is removed through the overlay stays absent until it is
  re-created; a re-created file holds only the new bytes, a re-created directory is empty; the
  markers never appear as entries.

  Props/C10.lean proves this for exactly two layers. Here the overlay has n ≥ 1 layers (the
  property's quantifier is 2..4; nothing below depends on n, and n = 1 — no lower layer — is
  included).

  Setting and notation (Proofs/OverlayNLemmas.lean, Props/C09N.lean):
  `h : OWN w (u :: is) (idu :: ids) (mu :: ms)` — the pairwise distinct leaves `u :: is` of the
  world `w` are memory leaves holding the maps `mu :: ms` (`mu` = upper layer, `ms` = the lower
  layers, any number), the overlay is `Overlay.fs (layersN (u :: is) (idu :: ids))` over the ROOTS
  of those leaves; canonical non-root paths `p = renderC cs` (`cs ≠ []`, `GoodComp` components),
  `marker p = "/.whiteout" ++ p ++ "_wo"`, the n-layer union view `viewN (mu :: ms) p` (nothing
  where the upper map holds `marker p`, else the entry of the first layer that has `p`).
  "Lower layers unchanged" is expressed by `OWN w' … (mu' :: ms)` with the SAME `ms`.

  PROVED (no sorry, no axiom beyond propext / Classical.choice / Quot.sound):
  * `removed_file_absentN`   after a successful `remove_file(p)` — `p` in the upper layer, in one
      lower layer, or in several —: only the upper leaf changed (`OWN … (mu' :: ms)`), `mu'` holds
      `marker p` as an empty file, `viewN (mu' :: ms) p = none`, `exists` is false, `metadata` and
      `open_file` fail with not-found, and `OnlyMarkerAdded mu mu' cs`: every old entry other than
      `p` and its marker is unchanged, nothing new appears outside the directories
      "/.whiteout/<ancestors of p>", those are fresh directories where they were absent, and
      `mu'` has nothing at `p` (for `p` outside ".whiteout"). This is STRONGER than the 2-layer
      theorem (which has no frame part); the frame part is unconditional (`pRemoveFileN_frame`,
      `pRemoveFileN_old` hold whatever the outcome).
    `removed_dir_absentN`    the same for `remove_dir` (plus: it was a path of the view whose
      listing was empty). `removeFile_succeedsN` / `pRemoveFileN_result`: sufficient conditions
      for success (a FILE of the n-layer view, no file in the way inside "/.whiteout").
  * `removed_stays_absent_frameN` (= `marker_hidesN`): while `marker p` is in the upper map, `p` is
      absent from the view whatever else changed in ANY layer (all maps arbitrary, also their
      number); `marked_absent_everywhereN`: … and from `exists` / `metadata` / `open_file`;
      `marked_not_listedN`: … and from the parent's `read_dir`.
    `marker_survives_createDirN / createFileN / writeN / removeFileN / removeDirN / openFileN /
      write_sessionN / appendFileN / appendN`: every such overlay call at a path `q ≠ p` (for the
      removals: `q ≠ marker p`, i.e. not reaching into the reserved ".whiteout" namespace; for
      `open_file`, `append_file`: ANY `q`) keeps `marker p` and the n-layer setting.
      `marker_survives_removeDirN` needs no hypothesis on the bookkeeping area (the 2-layer one
      does); `marker_survives_appendFileN` is NEW (Props/C10.lean only states it:
      `marker_survives_appendFile_stmt`), copy-up from any lower layer included.
    `removed_stays_absentN`  the composition for ANY finite sequence of later operations
      (`OtherOp`: create_dir, write session, append session, remove_file, remove_dir, open_file,
      exists, metadata, read_dir; each `Unrelated` to `p`, each with whatever outcome): the
      marker is still there, `p` is absent from the view and from `exists` / `metadata` /
      `open_file`. (The 2-layer theorem does one `create_dir`.)
    `clearWhiteout_only_erases_markerN`: the only code that removes a marker erases nothing else.
  * `recreated_file_freshN`  on a state where `p` is marked (marker a file, nothing at `p` in the
      upper layer, WHATEVER the lower layers hold at `p`, in however many of them): the write
      session `create_file(p)?.write_all(bs)` succeeds, changes the upper leaf only, removes the
      marker, `viewN p` is a file holding exactly `bs`, and `open_file(p)` hands out exactly `bs`.
    `remove_then_recreate_freshN`  the composition from an ARBITRARY state in which `p` is a file
      of the n-layer view: `remove_file(p)`, then the write session — view and `open_file` serve
      exactly `bs`, every lower layer still holds its old map.
  * `recreated_dir_emptyN`   on a state where `p` is marked and every child of `p` that ANY lower
      layer holds is marked too: `create_dir(p)` succeeds, `p` is a directory of the view again,
      `read_dir(p) = []`, and every other key of the upper map (the children's markers) is kept.
    `recreated_dir_empty_composedN`  the composition from an ARBITRARY state: `p` is a directory
      of the n-layer view whose visible children are the files `xs` (any number; each in the
      upper layer, in one lower layer or in several; lower-layer children that are already
      marked are allowed): `remove_file` on each child, `remove_dir(p)`, `create_dir(p)`,
      `read_dir(p)` (`removeAndRecreateDir`) all succeed, change the upper leaf only, the listing
      is `[]`, `p` is a directory of the view and every former child is still absent. Building
      blocks: `pRemoveFileN_child` (one step, with the invariant `DirInv`), `removeChildrenN`,
      `pRemoveDirN_result` (sufficient conditions for `remove_dir` to succeed, and its result).
      Props/C10.lean only STATES the 2-layer, one-child case
      (`recreated_dir_empty_composed_stmt`); that statement is FALSE as stated
      (`recreated_dir_empty_composed_stmt_false`: top-level directory "_wo"), and true with the
      missing hypothesis `(ds ++ [n]).head? ≠ some woSuffix`: `recreated_dir_empty_composed_ofN`.
  * `markers_invisibleN`     whatever `read_dir` returns: never ".whiteout" at the root, never a
      name whose marker exists, and only names of entries of the n-layer view.
  * the 2-layer theorems of Props/C10.lean as instances (`*_ofN`, section `two`), and the OTHER
    statement Props/C10.lean leaves unproved: `marker_survives_appendFile_holds`.
  * non-vacuity (`decide`, section `concreteN`, on `w3` / `w4` of Props/C09N.lean): four layers,
    "/s/p" in layers 1 AND 3: remove_file → absent for exists / metadata / open_file / read_dir /
    the view, lower maps untouched, ".whiteout" not listed; four unrelated operations later
    (create_dir, write session, open_file stamping layer 2, remove_file of a sibling): still
    absent; re-created: reads exactly the new byte, layers 1 and 3 still hold the old bytes.
    A directory with children spread over three lower layers: children removed, `remove_dir`,
    `create_dir` → empty, children still absent (step by step, and `w4_composed`: the hypotheses
    of `recreated_dir_empty_composedN` hold on that world). Three layers, "/d/x" in both lower layers:
    the same. And `remove_file_on_lower_dir_orphansN`: the OPEN known finding (remove_file on a
    lower-layer DIRECTORY succeeds and orphans its children) on four layers.

  Hypotheses excluding reserved names, as in the 2-layer file (each is a real quirk of the code):
  `(ds ++ [n]).head? ≠ some woDir` (paths inside "/.whiteout"), `ds.head? ≠ some woSuffix` (a
  top-level directory called "_wo": removing below it creates "/.whiteout/_wo", the root marker),
  `hwoarea` / `hwo` (no FILE where the bookkeeping needs a directory); `RootOk mu`; ancestors are
  directories of the view (`AncDirsN`); for listings: every map well-formed (`WF`).

  NOT PROVED:
  * layers that are not roots of memory leaves (sub-directories of leaves, physical leaves,
    nested adapters) — the n-layer infrastructure models leaf ROOTS;
  * the time setters, `copy_file` / `move_file` / `move_dir` with the overlay as source or target
    are not among the `OtherOp`s;
  * "the subtree stays absent" is proved path by path (each removed path has its own marker;
    `remove_dir` only succeeds on an empty listing) — there is no statement about descendants of
    a path removed by `remove_file` applied to a directory: that call orphans them (known finding);
  * `recreated_dir_empty_composedN` asks the visible children to be FILES (sub-directories
    would have to be emptied recursively first: the recursion over a whole subtree is not done),
    and needs `(ds ++ [n]).head? ≠ some woSuffix` — without it the code really fails, see
    `recreated_dir_empty_composed_stmt_false`.
-/
import VfsModel.Proofs.OverlayNRemoveLemmas
import VfsModel.Props.C09N
import VfsModel.Props.C10
set_option linter.unusedSimpArgs false
set_option linter.unusedVariables false
namespace Vfs.C10
open Vfs Vfs.Overlay

/-! ### map-level facts -/

/-- a marker, once set in the upper map, hides the path — whatever else the n maps contain -/
theorem marker_hidesN (mu' : FMap) (ms' : List FMap) (p : Str)
    (hm : mu'.contains (marker p) = true) : viewN (mu' :: ms') p = none := viewN_marked hm

theorem marker_ne (p : Str) : marker p ≠ p := by
  intro heq
  have := congrArg List.length heq
  simp [marker, woDir, woSuffix] at this
  omega

/-- the view of a path only depends on the upper map through the path and its marker -/
theorem viewN_congr_upper {mu mu1 : FMap} {ms : List FMap} {q : Str}
    (h1 : mu1.find? q = mu.find? q) (h2 : mu1.find? (marker q) = mu.find? (marker q)) :
    viewN (mu1 :: ms) q = viewN (mu :: ms) q := by
  rw [viewN_cons, viewN_cons]
  unfold FMap.contains
  rw [h2]
  simp only [firstN, h1]

/-- what a removal through the overlay does to the upper map `mu` (result `mu'`), `p = renderC cs`:
every entry that existed, `p` and its marker aside, is unchanged; outside the directories
"/.whiteout/<ancestors of p>" nothing appears; those directories are fresh where they were
absent; and the upper map has nothing at `p` (for `p` outside ".whiteout") -/
def OnlyMarkerAdded (mu mu' : FMap) (cs : List Str) : Prop :=
  (∀ k, k ≠ renderC cs → k ≠ marker (renderC cs) → mu.contains k = true →
    mu'.find? k = mu.find? k) ∧
  (∀ k, k ≠ renderC cs → k ≠ marker (renderC cs) → k ∉ chain [] (woDir :: cs.dropLast) →
    mu'.find? k = mu.find? k) ∧
  (∀ k ∈ chain [] (woDir :: cs.dropLast), k ≠ renderC cs → k ≠ marker (renderC cs) →
    mu.find? k = none → mu'.find? k = some dirEntryNow) ∧
  (cs.head? ≠ some woDir → mu'.find? (renderC cs) = none)

theorem self_not_in_wo_chain {cs : List Str} (hcs : ∀ c ∈ cs, GoodComp c)
    (hhead : cs.head? ≠ some woDir) : renderC cs ∉ chain [] (woDir :: cs.dropLast) := fun hk =>
  hhead (chain_wo_head _ _ (good_noSlash hcs)
    (fun c hc => (hcs c (List.dropLast_subset _ hc)).noSlash) hk)

theorem onlyMarkerAdded_removeFile {mu mu' : FMap} {ms : List FMap} {cs : List Str}
    (hcs : ∀ c ∈ cs, GoodComp c) (h : pRemoveFileN mu ms cs = (.ok (), mu')) :
    OnlyMarkerAdded mu mu' cs := by
  have h2 : mu' = (pRemoveFileN mu ms cs).2 := by rw [h]
  refine ⟨?_, ?_, ?_, ?_⟩
  · intro k h1 h3 hc; rw [h2]; exact pRemoveFileN_old mu ms cs k h1 h3 hc
  · intro k h1 h3 h4; rw [h2]; exact pRemoveFileN_frame mu ms cs k h1 h3 h4
  · intro k hk h1 h3 hf; exact pRemoveFileN_ok_new h k hk h1 h3 hf
  · intro hhead
    exact pRemoveFileN_ok_self h (marker_ne _).symm (self_not_in_wo_chain hcs hhead)

theorem onlyMarkerAdded_removeDir {mu mu' : FMap} {ms : List FMap} {cs : List Str}
    (hcs : ∀ c ∈ cs, GoodComp c) (h : pRemoveDirN mu ms cs = (.ok (), mu')) :
    OnlyMarkerAdded mu mu' cs := by
  have h2 : mu' = (pRemoveDirN mu ms cs).2 := by rw [h]
  refine ⟨?_, ?_, ?_, ?_⟩
  · intro k h1 h3 hc; rw [h2]; exact pRemoveDirN_old mu ms cs k h1 h3 hc
  · intro k h1 h3 h4; rw [h2]; exact pRemoveDirN_frame mu ms cs k h1 h3 h4
  · intro k hk h1 h3 hf; exact pRemoveDirN_ok_new h k hk h1 h3 hf
  · intro hhead
    exact pRemoveDirN_ok_self h (marker_ne _).symm (self_not_in_wo_chain hcs hhead)

/-- `remove_file(p)` on a file of the n-layer view (in whichever layer(s) it lives), as a function
of the maps: it succeeds; the resulting upper map holds the marker (an empty file), nothing at
`p`, and is otherwise unchanged outside the directories "/.whiteout/<ds>" -/
theorem pRemoveFileN_result (mu : FMap) (ms : List FMap) (ds : List Str) (n : Str)
    (hds : ∀ c ∈ ds, GoodComp c)
    (hn : GoodComp n) (hroot : RootOk mu)
    (hwoarea : ∀ k ∈ chain [] (woDir :: ds), ∀ e, mu.find? k = some e → e.ftype = .dir)
    (hhead : (ds ++ [n]).head? ≠ some woDir)
    (e : Entry) (hv : viewN (mu :: ms) (renderC (ds ++ [n])) = some e) (hfile : e.ftype = .file) :
    ∃ mu', pRemoveFileN mu ms (ds ++ [n]) = (.ok (), mu') ∧
      (∃ em, mu'.find? (marker (renderC (ds ++ [n]))) = some em ∧ em.ftype = .file) ∧
      mu'.find? (renderC (ds ++ [n])) = none ∧
      ∀ k, k ≠ renderC (ds ++ [n]) → k ≠ marker (renderC (ds ++ [n])) →
        k ∉ chain [] (woDir :: ds) → mu'.find? k = mu.find? k := by
  have hne : ds ++ [n] ≠ [] := by simp
  have hpne : renderC (ds ++ [n]) ≠ [] := renderC_ne_nil hne
  have hmne := marker_ne_self ds n
  have hpnc : renderC (ds ++ [n]) ∉ chain [] (woDir :: ds) := fun hk =>
    hhead (chain_wo_head _ _ (good_noSlash (good_snoc hds hn)) (good_noSlash hds) hk)
  obtain ⟨hm, _⟩ := viewN_some_cases hv
  have hnm : mu.find? (marker (renderC (ds ++ [n]))) = none := by
    unfold FMap.contains at hm
    cases hf : mu.find? (marker (renderC (ds ++ [n]))) <;> simp_all
  -- the upper map once `p` is out of it
  obtain ⟨m1, hstep, hm1⟩ : ∃ m1,
      (if mu.contains (renderC (ds ++ [n])) then Mem.pRemoveFile mu (renderC (ds ++ [n]))
        else (.ok (), mu)) = (.ok (), m1) ∧
      ∀ k, m1.find? k = if k = renderC (ds ++ [n]) then none else mu.find? k := by
    rcases Option.eq_none_or_eq_some (mu.find? (renderC (ds ++ [n]))) with hc | ⟨e', hc⟩
    · refine ⟨mu, ?_, ?_⟩
      · rw [contains_of_none hc]; rfl
      · intro k; split
        · rename_i hk; rw [hk]; exact hc
        · rfl
    · have : e' = e := by
        rw [viewN_upper hm hc] at hv; injection hv
      subst this
      refine ⟨mu.erase (renderC (ds ++ [n])), ?_, fun k => FMap.find?_erase _ _ _⟩
      rw [if_pos (contains_of_find hc), pRemoveFile_file mu _ e' hc hfile]
  have hres := pAddWhiteout_result m1 ds n hds hn
    (by obtain ⟨e0, he0, hd0⟩ := hroot.root
        exact ⟨e0, by rw [hm1, if_neg (fun h' => hpne h'.symm)]; exact he0, hd0⟩)
    (by intro k hk e' he'
        rw [hm1] at he'
        split at he'
        · cases he'
        · exact hwoarea k hk e' he')
    (by rw [hm1, if_neg hmne]; exact hnm)
  refine ⟨memPublish ((fillDirs m1 (chain [] (woDir :: ds))).insert
      (marker (renderC (ds ++ [n]))) fileEntryNow) (marker (renderC (ds ++ [n]))) [],
    ?_, ?_, ?_, ?_⟩
  · unfold pRemoveFileN
    simp only [hv, hstep, andThen]
    exact hres
  · obtain ⟨em, h1, h2, _⟩ := find?_memPublish_self
      ((fillDirs m1 (chain [] (woDir :: ds))).insert (marker (renderC (ds ++ [n]))) fileEntryNow)
      (marker (renderC (ds ++ [n]))) [] fileEntryNow (FMap.find?_insert_self _ _ _) rfl
    exact ⟨em, h1, h2⟩
  · rw [find?_memPublish_ne _ _ _ _ hmne.symm, FMap.find?_insert_ne _ _ _ _ hmne.symm,
      find?_fillDirs_not_mem _ _ _ hpnc, hm1, if_pos rfl]
  · intro k hk1 hk2 hk3
    rw [find?_memPublish_ne _ _ _ _ hk2, FMap.find?_insert_ne _ _ _ _ hk2,
      find?_fillDirs_not_mem _ _ _ hk3, hm1, if_neg hk1]

section settingN
variable {w : World} {u idu : Nat} {mu : FMap} {is ids : List Nat} {ms : List FMap}
  (h : OWN w (u :: is) (idu :: ids) (mu :: ms))
include h

/-- `clearWhiteout q` (the only code that removes a marker) erases nothing but `marker q`, and
touches no lower layer -/
theorem clearWhiteout_only_erases_markerN (cs : List Str) (hne : cs ≠ [])
    (hcs : ∀ c ∈ cs, GoodComp c) :
    ∃ r mu', clearWhiteout (layersN (u :: is) (idu :: ids)) (renderC cs) w
        = (r, w.setLeafFiles u mu') ∧
      OWN (w.setLeafFiles u mu') (u :: is) (idu :: ids) (mu' :: ms) ∧
      ∀ k, k ≠ marker (renderC cs) → mu'.find? k = mu.find? k :=
  ⟨_, _, run_clearWhiteoutN h cs hne hcs, h.setHead _, fun k hk => pClear_frame mu _ k hk⟩

/-! ### removal -/

/-- sufficient conditions for `remove_file(p)` to succeed: `p` is a file of the n-layer view (it
may live in the upper layer, in one lower layer, or in several) and the bookkeeping area
"/.whiteout/<ds>" holds no file where a directory is needed -/
theorem removeFile_succeedsN (ds : List Str) (n : Str) (hds : ∀ c ∈ ds, GoodComp c)
    (hn : GoodComp n) (hroot : RootOk mu)
    (hwoarea : ∀ k ∈ chain [] (woDir :: ds), ∀ e, mu.find? k = some e → e.ftype = .dir)
    (hhead : (ds ++ [n]).head? ≠ some woDir)
    (e : Entry) (hv : viewN (mu :: ms) (renderC (ds ++ [n])) = some e) (hfile : e.ftype = .file) :
    ((Overlay.fs (layersN (u :: is) (idu :: ids))).removeFile (renderC (ds ++ [n])) w).1
      = .ok () := by
  obtain ⟨mu', hp, _⟩ := pRemoveFileN_result mu ms ds n hds hn hroot hwoarea hhead e hv hfile
  show (Overlay.removeFile _ _ w).1 = _
  rw [run_oremoveFileN h _ (by simp) (good_snoc hds hn), hp]

/-- **a removed file is absent from every observation (n layers).** After a successful
`remove_file(p)` — `p` may live in the upper layer, in one lower layer or in several —:
only the upper leaf changed (every lower leaf still holds its map: `OWN` with the same `ms`), the
upper map holds the marker of `p` as an empty file, the n-layer view has nothing at `p`, `exists`
/ `metadata` / `open_file` through the overlay report absence, and the upper map changed only as
`OnlyMarkerAdded` says. -/
theorem removed_file_absentN (cs : List Str) (hne : cs ≠ []) (hcs : ∀ c ∈ cs, GoodComp c)
    (hres : ((Overlay.fs (layersN (u :: is) (idu :: ids))).removeFile (renderC cs) w).1 = .ok ()) :
    ∃ mu', (Overlay.fs (layersN (u :: is) (idu :: ids))).removeFile (renderC cs) w
        = (.ok (), w.setLeafFiles u mu') ∧
      OWN (w.setLeafFiles u mu') (u :: is) (idu :: ids) (mu' :: ms) ∧
      (∃ em, mu'.find? (marker (renderC cs)) = some em ∧ em.ftype = .file ∧ em.content = []) ∧
      viewN (mu' :: ms) (renderC cs) = none ∧
      (Overlay.fs (layersN (u :: is) (idu :: ids))).exists_ (renderC cs) (w.setLeafFiles u mu')
        = (.ok false, w.setLeafFiles u mu') ∧
      (Overlay.fs (layersN (u :: is) (idu :: ids))).metadata (renderC cs) (w.setLeafFiles u mu')
        = (.err .fileNotFound none, w.setLeafFiles u mu') ∧
      (Overlay.fs (layersN (u :: is) (idu :: ids))).openFile (renderC cs) (w.setLeafFiles u mu')
        = (.err .fileNotFound none, w.setLeafFiles u mu') ∧
      OnlyMarkerAdded mu mu' cs := by
  have hrun := run_oremoveFileN h cs hne hcs
  change ((Overlay.removeFile _ _ w).1 = _) at hres
  rw [hrun] at hres
  simp only at hres
  have hpair : pRemoveFileN mu ms cs = (.ok (), (pRemoveFileN mu ms cs).2) := by
    rw [← hres]
  obtain ⟨em, hem, hf, hc⟩ := pRemoveFileN_ok hpair
  have h' := h.setHead (pRemoveFileN mu ms cs).2
  have hview : viewN ((pRemoveFileN mu ms cs).2 :: ms) (renderC cs) = none :=
    viewN_marked (contains_of_find hem)
  refine ⟨_, ?_, h', ⟨em, hem, hf, hc⟩, hview, ?_, ?_, ?_, onlyMarkerAdded_removeFile hcs hpair⟩
  · show Overlay.removeFile _ _ w = _
    rw [hrun, hres]
  · rw [C09.exists_is_viewN h' cs hne hcs, hview]; rfl
  · rw [C09.metadata_is_viewN h' cs hne hcs, hview]
  · exact C09.openFile_absentN h' cs hne hcs hview

/-- the same for a removed directory (`remove_dir`; its listing was empty) -/
theorem removed_dir_absentN (cs : List Str) (hne : cs ≠ []) (hcs : ∀ c ∈ cs, GoodComp c)
    (hwo : ∀ e, mu.find? (woDirOf (renderC cs)) = some e → e.ftype = .dir)
    (hres : ((Overlay.fs (layersN (u :: is) (idu :: ids))).removeDir (renderC cs) w).1 = .ok ()) :
    ∃ mu', (Overlay.fs (layersN (u :: is) (idu :: ids))).removeDir (renderC cs) w
        = (.ok (), w.setLeafFiles u mu') ∧
      OWN (w.setLeafFiles u mu') (u :: is) (idu :: ids) (mu' :: ms) ∧
      (∃ em, mu'.find? (marker (renderC cs)) = some em ∧ em.ftype = .file ∧ em.content = []) ∧
      viewN (mu' :: ms) (renderC cs) = none ∧
      (Overlay.fs (layersN (u :: is) (idu :: ids))).exists_ (renderC cs) (w.setLeafFiles u mu')
        = (.ok false, w.setLeafFiles u mu') ∧
      (Overlay.fs (layersN (u :: is) (idu :: ids))).metadata (renderC cs) (w.setLeafFiles u mu')
        = (.err .fileNotFound none, w.setLeafFiles u mu') ∧
      (Overlay.fs (layersN (u :: is) (idu :: ids))).openFile (renderC cs) (w.setLeafFiles u mu')
        = (.err .fileNotFound none, w.setLeafFiles u mu') ∧
      OnlyMarkerAdded mu mu' cs ∧
      -- it was a path of the view whose listing was empty
      (∃ e, viewN (mu :: ms) (renderC cs) = some e) ∧
      pReadDirN (mu :: ms) (renderC cs) = .ok [] := by
  have hrun := run_oremoveDirN h cs hne hcs hwo
  change ((Overlay.removeDir _ _ w).1 = _) at hres
  rw [hrun] at hres
  simp only at hres
  have hpair : pRemoveDirN mu ms cs = (.ok (), (pRemoveDirN mu ms cs).2) := by
    rw [← hres]
  obtain ⟨em, hem, hf, hc⟩ := pRemoveDirN_ok hpair
  obtain ⟨hwas, hlist⟩ := pRemoveDirN_ok_view hpair
  have h' := h.setHead (pRemoveDirN mu ms cs).2
  have hview : viewN ((pRemoveDirN mu ms cs).2 :: ms) (renderC cs) = none :=
    viewN_marked (contains_of_find hem)
  refine ⟨_, ?_, h', ⟨em, hem, hf, hc⟩, hview, ?_, ?_, ?_, onlyMarkerAdded_removeDir hcs hpair,
    hwas, hlist⟩
  · show Overlay.removeDir _ _ w = _
    rw [hrun, hres]
  · rw [C09.exists_is_viewN h' cs hne hcs, hview]; rfl
  · rw [C09.metadata_is_viewN h' cs hne hcs, hview]
  · exact C09.openFile_absentN h' cs hne hcs hview

/-! ### the marker survives unrelated operations -/

omit h in
/-- the frame lemma on maps: while the marker of `p` is in the upper map, `p` is absent from the
n-layer view — whatever else changed in ANY layer (the upper map and every lower map are
arbitrary, and so is the number of lower layers) -/
theorem removed_stays_absent_frameN (mu' : FMap) (ms' : List FMap) (p : Str)
    (hkeep : mu'.contains (marker p) = true) : viewN (mu' :: ms') p = none :=
  marker_hidesN mu' ms' p hkeep

/-- … and so it is absent from every observer of the overlay over that world -/
theorem marked_absent_everywhereN (cs : List Str) (hne : cs ≠ []) (hcs : ∀ c ∈ cs, GoodComp c)
    (hm : mu.contains (marker (renderC cs)) = true) :
    viewN (mu :: ms) (renderC cs) = none ∧
    (Overlay.fs (layersN (u :: is) (idu :: ids))).exists_ (renderC cs) w = (.ok false, w) ∧
    (Overlay.fs (layersN (u :: is) (idu :: ids))).metadata (renderC cs) w
      = (.err .fileNotFound none, w) ∧
    (Overlay.fs (layersN (u :: is) (idu :: ids))).openFile (renderC cs) w
      = (.err .fileNotFound none, w) := by
  have hv := marker_hidesN mu ms _ hm
  refine ⟨hv, ?_, ?_, C09.openFile_absentN h cs hne hcs hv⟩
  · rw [C09.exists_is_viewN h cs hne hcs, hv]; rfl
  · rw [C09.metadata_is_viewN h cs hne hcs, hv]

theorem marker_survives_createDirN (p : Str) (hm : mu.contains (marker p) = true)
    (cs : List Str) (hne : cs ≠ []) (hcs : ∀ c ∈ cs, GoodComp c) (hq : renderC cs ≠ p) :
    ∃ r mu', (Overlay.fs (layersN (u :: is) (idu :: ids))).createDir (renderC cs) w
        = (r, w.setLeafFiles u mu') ∧
      OWN (w.setLeafFiles u mu') (u :: is) (idu :: ids) (mu' :: ms) ∧
      mu'.contains (marker p) = true :=
  ⟨_, _, run_ocreateDirN h cs hne hcs, h.setHead _,
    pCreateDirN_keeps cs (fun he => hq (marker_injective _ _ he).symm) hm⟩

theorem marker_survives_createFileN (p : Str) (hm : mu.contains (marker p) = true)
    (cs : List Str) (hne : cs ≠ []) (hcs : ∀ c ∈ cs, GoodComp c) (hq : renderC cs ≠ p) :
    ∃ r mu', (Overlay.fs (layersN (u :: is) (idu :: ids))).createFile (renderC cs) w
        = (r, w.setLeafFiles u mu') ∧
      OWN (w.setLeafFiles u mu') (u :: is) (idu :: ids) (mu' :: ms) ∧
      mu'.contains (marker p) = true :=
  ⟨_, _, run_ocreateFileN h cs hne hcs, h.setHead _,
    pCreateFileN_keeps cs (fun he => hq (marker_injective _ _ he).symm) hm⟩

theorem marker_survives_removeFileN (p : Str) (hm : mu.contains (marker p) = true)
    (cs : List Str) (hne : cs ≠ []) (hcs : ∀ c ∈ cs, GoodComp c)
    (hq : renderC cs ≠ marker p) :
    ∃ r mu', (Overlay.fs (layersN (u :: is) (idu :: ids))).removeFile (renderC cs) w
        = (r, w.setLeafFiles u mu') ∧
      OWN (w.setLeafFiles u mu') (u :: is) (idu :: ids) (mu' :: ms) ∧
      mu'.contains (marker p) = true :=
  ⟨_, _, run_oremoveFileN h cs hne hcs, h.setHead _,
    pRemoveFileN_keeps cs (fun he => hq he.symm) hm⟩

/-- `remove_dir(q)`, `q ≠ marker p` — with NO hypothesis on the bookkeeping area (`hwo`, which
the 2-layer theorem needs) -/
theorem marker_survives_removeDirN (p : Str) (hm : mu.contains (marker p) = true)
    (cs : List Str) (hne : cs ≠ []) (hcs : ∀ c ∈ cs, GoodComp c)
    (hq : renderC cs ≠ marker p) :
    ∃ r mu', (Overlay.fs (layersN (u :: is) (idu :: ids))).removeDir (renderC cs) w
        = (r, w.setLeafFiles u mu') ∧
      OWN (w.setLeafFiles u mu') (u :: is) (idu :: ids) (mu' :: ms) ∧
      mu'.contains (marker p) = true := by
  obtain ⟨r, mu', hrun, hkeep⟩ := run_oremoveDirN_any h cs hne hcs
  exact ⟨r, mu', hrun, h.setHead _, hkeep _ (fun he => hq he.symm) hm⟩

/-- a completed write session on a handle of the upper leaf (as returned by the overlay's
`create_file` / `append_file`) keeps every key of the upper map -/
theorem marker_survives_write_sessionN (p : Str) (hm : mu.contains (marker p) = true)
    (key : Str) (buf : Bytes) (pos : Nat) (bs : Bytes) :
    ∃ mu', WHandle.writeAllAndDrop
        { leaf := u, key := key, kind := .memFile, buf := buf, pos := pos } bs w
        = (.ok (), w.setLeafFiles u mu') ∧
      OWN (w.setLeafFiles u mu') (u :: is) (idu :: ids) (mu' :: ms) ∧
      mu'.contains (marker p) = true :=
  ⟨_, run_writeAllAndDrop h.hu key buf pos bs, h.setHead _, memPublish_keeps _ _ hm⟩

/-- one write session `create_file(q)?.write_all(bs)` (dropped), `q ≠ p` -/
theorem marker_survives_writeN (p : Str) (hm : mu.contains (marker p) = true)
    (cs : List Str) (hne : cs ≠ []) (hcs : ∀ c ∈ cs, GoodComp c) (hq : renderC cs ≠ p)
    (bs : Bytes) :
    ∃ r mu', (do let hd ← (Overlay.fs (layersN (u :: is) (idu :: ids))).createFile (renderC cs)
                 hd.writeAllAndDrop bs : M Unit) w = (r, w.setLeafFiles u mu') ∧
      OWN (w.setLeafFiles u mu') (u :: is) (idu :: ids) (mu' :: ms) ∧
      mu'.contains (marker p) = true := by
  have hkeep : (pCreateFileN mu ms cs).2.contains (marker p) = true :=
    pCreateFileN_keeps cs (fun he => hq (marker_injective _ _ he).symm) hm
  have h1 := h.setHead (pCreateFileN mu ms cs).2
  cases hr : (pCreateFileN mu ms cs).1 with
  | ok a =>
    refine ⟨.ok (), memPublish (pCreateFileN mu ms cs).2 (renderC cs) (cursorWrite [] 0 bs), ?_,
      h.setHead _, memPublish_keeps _ _ hkeep⟩
    show (do let hd ← Overlay.createFile _ _; hd.writeAllAndDrop bs : M Unit) w = _
    simp only [bind, M.bind, run_ocreateFileN h cs hne hcs, hr, Res.map,
      run_writeAllAndDrop h1.hu, World.setLeafFiles_twice]
  | err k pth =>
    refine ⟨.err k pth, _, ?_, h1, hkeep⟩
    show (do let hd ← Overlay.createFile _ _; hd.writeAllAndDrop bs : M Unit) w = _
    simp only [bind, M.bind, run_ocreateFileN h cs hne hcs, hr, Res.map]
  | panic =>
    refine ⟨.panic, _, ?_, h1, hkeep⟩
    show (do let hd ← Overlay.createFile _ _; hd.writeAllAndDrop bs : M Unit) w = _
    simp only [bind, M.bind, run_ocreateFileN h cs hne hcs, hr, Res.map]

/-- reading a file (the only observer that changes the world: the access-time stamp in the
serving layer, whichever it is) keeps the marker -/
theorem marker_survives_openFileN (p : Str) (hm : mu.contains (marker p) = true)
    (cs : List Str) (hne : cs ≠ []) (hcs : ∀ c ∈ cs, GoodComp c) :
    ∃ r w' mu' ms', (Overlay.fs (layersN (u :: is) (idu :: ids))).openFile (renderC cs) w = (r, w') ∧
      OWN w' (u :: is) (idu :: ids) (mu' :: ms') ∧ mu'.contains (marker p) = true := by
  rcases run_oopenFileN h cs hne hcs with ⟨_, hr⟩ | ⟨k, i, m, hf, hi, hr, hown⟩
  · exact ⟨_, w, mu, ms, hr, h, hm⟩
  · cases k with
    | zero =>
      have hg := hf.get
      simp only [List.getElem?_cons_zero, Option.some.injEq] at hg
      subst hg
      exact ⟨_, _, _, ms, hr, by simpa using hown, Mem.openFile_keeps _ hm⟩
    | succ k =>
      exact ⟨_, _, mu, _, hr, by simpa using hown, hm⟩

/-- **`append_file(q)`, any `q`** (also `q = p`: it fails), copy-up included: the marker survives;
the lower layer that served the copy-up got an access stamp (`ms'`); a returned handle writes to
the upper leaf. (This is `marker_survives_appendFile_stmt` of Props/C10.lean — stated there, not
proved — for any number of layers, and without its side conditions `q ≠ p`, `q ≠ marker p`.) -/
theorem marker_survives_appendFileN (p : Str) (hm : mu.contains (marker p) = true)
    (cs : List Str) (hne : cs ≠ []) (hcs : ∀ c ∈ cs, GoodComp c) :
    ∃ r w' mu' ms', (Overlay.fs (layersN (u :: is) (idu :: ids))).appendFile (renderC cs) w
        = (r, w') ∧
      OWN w' (u :: is) (idu :: ids) (mu' :: ms') ∧ mu'.contains (marker p) = true ∧
      ∀ hd, r = .ok hd → hd.leaf = u ∧ hd.kind = .memFile := by
  obtain ⟨mu', ms', h', hk, hh⟩ := run_oappendFile_keepsN h cs hne hcs _ hm
  exact ⟨_, _, mu', ms', rfl, h', hk, hh⟩

/-- one append session `append_file(q)?.write_all(bs)` (dropped), any `q` -/
theorem marker_survives_appendN (p : Str) (hm : mu.contains (marker p) = true)
    (cs : List Str) (hne : cs ≠ []) (hcs : ∀ c ∈ cs, GoodComp c) (bs : Bytes) :
    ∃ r w' mu' ms',
      (do let hd ← (Overlay.fs (layersN (u :: is) (idu :: ids))).appendFile (renderC cs)
          hd.writeAllAndDrop bs : M Unit) w = (r, w') ∧
      OWN w' (u :: is) (idu :: ids) (mu' :: ms') ∧ mu'.contains (marker p) = true := by
  obtain ⟨r, w1, mu1, ms1, hrun, h1, hk1, hh⟩ := marker_survives_appendFileN h p hm cs hne hcs
  cases r with
  | ok hd =>
    obtain ⟨hleaf, hkind⟩ := hh hd rfl
    obtain ⟨leaf, key, kind, buf, pos⟩ := hd
    simp only at hleaf hkind
    subst hleaf; subst hkind
    refine ⟨.ok (), _, memPublish mu1 key (cursorWrite buf pos bs), ms1, ?_, h1.setHead _,
      memPublish_keeps _ _ hk1⟩
    simp only [bind, M.bind, hrun, run_writeAllAndDrop h1.hu]
  | err k pth => exact ⟨.err k pth, w1, mu1, ms1, by simp only [bind, M.bind, hrun], h1, hk1⟩
  | panic => exact ⟨.panic, w1, mu1, ms1, by simp only [bind, M.bind, hrun], h1, hk1⟩

/-! ### removed stays absent: any sequence of unrelated operations -/

end settingN

/-- the later operations the property quantifies over: every call of the overlay's interface
except the time setters, `copy_file`, `move_file`, `move_dir`; `write` / `append` are one
completed session `create_file(q)?.write_all(bs)` / `append_file(q)?.write_all(bs)` -/
inductive OtherOp where
  | createDir (cs : List Str)
  | write (cs : List Str) (bs : Bytes)
  | append (cs : List Str) (bs : Bytes)
  | removeFile (cs : List Str)
  | removeDir (cs : List Str)
  | openFile (cs : List Str)
  | exists_ (cs : List Str)
  | metadata (cs : List Str)
  | readDir (cs : List Str)

/-- the world after the operation (whatever its outcome) -/
def OtherOp.run (fs : FS) : OtherOp → World → World
  | .createDir cs, w => (fs.createDir (renderC cs) w).2
  | .write cs bs, w => ((do let hd ← fs.createFile (renderC cs); hd.writeAllAndDrop bs : M Unit) w).2
  | .append cs bs, w => ((do let hd ← fs.appendFile (renderC cs); hd.writeAllAndDrop bs : M Unit) w).2
  | .removeFile cs, w => (fs.removeFile (renderC cs) w).2
  | .removeDir cs, w => (fs.removeDir (renderC cs) w).2
  | .openFile cs, w => (fs.openFile (renderC cs) w).2
  | .exists_ cs, w => (fs.exists_ (renderC cs) w).2
  | .metadata cs, w => (fs.metadata (renderC cs) w).2
  | .readDir cs, w => (fs.readDir (renderC cs) w).2

/-- "unrelated to `p`": a canonical path; creations not AT `p` (they are what re-creates `p`);
removals not of the marker file itself (i.e. not reaching into the reserved ".whiteout"
namespace). Everything else is allowed — also operations on ancestors, descendants and siblings
of `p`, removals of `p` itself (they fail), and every observer. -/
def OtherOp.Unrelated (p : Str) : OtherOp → Prop
  | .createDir cs => cs ≠ [] ∧ (∀ c ∈ cs, GoodComp c) ∧ renderC cs ≠ p
  | .write cs _ => cs ≠ [] ∧ (∀ c ∈ cs, GoodComp c) ∧ renderC cs ≠ p
  | .append cs _ => cs ≠ [] ∧ (∀ c ∈ cs, GoodComp c)
  | .removeFile cs => cs ≠ [] ∧ (∀ c ∈ cs, GoodComp c) ∧ renderC cs ≠ marker p
  | .removeDir cs => cs ≠ [] ∧ (∀ c ∈ cs, GoodComp c) ∧ renderC cs ≠ marker p
  | .openFile cs => cs ≠ [] ∧ (∀ c ∈ cs, GoodComp c)
  | .exists_ cs => ∀ c ∈ cs, GoodComp c
  | .metadata cs => cs ≠ [] ∧ (∀ c ∈ cs, GoodComp c)
  | .readDir cs => ∀ c ∈ cs, GoodComp c

section settingN2
variable {w : World} {u idu : Nat} {mu : FMap} {is ids : List Nat} {ms : List FMap}
  (h : OWN w (u :: is) (idu :: ids) (mu :: ms))
include h

/-- one unrelated operation keeps the setting and the marker -/
theorem OtherOp.keepsN (p : Str) (hm : mu.contains (marker p) = true) (o : OtherOp)
    (ho : o.Unrelated p) :
    ∃ mu' ms', OWN (o.run (Overlay.fs (layersN (u :: is) (idu :: ids))) w) (u :: is) (idu :: ids)
        (mu' :: ms') ∧ mu'.contains (marker p) = true := by
  cases o with
  | createDir cs =>
    obtain ⟨hne, hcs, hq⟩ := ho
    obtain ⟨r, mu', hrun, h', hk⟩ := marker_survives_createDirN h p hm cs hne hcs hq
    exact ⟨mu', ms, by simp only [OtherOp.run, hrun]; exact h', hk⟩
  | write cs bs =>
    obtain ⟨hne, hcs, hq⟩ := ho
    obtain ⟨r, mu', hrun, h', hk⟩ := marker_survives_writeN h p hm cs hne hcs hq bs
    exact ⟨mu', ms, by simp only [OtherOp.run, hrun]; exact h', hk⟩
  | append cs bs =>
    obtain ⟨hne, hcs⟩ := ho
    obtain ⟨r, w', mu', ms', hrun, h', hk⟩ := marker_survives_appendN h p hm cs hne hcs bs
    exact ⟨mu', ms', by simp only [OtherOp.run, hrun]; exact h', hk⟩
  | removeFile cs =>
    obtain ⟨hne, hcs, hq⟩ := ho
    obtain ⟨r, mu', hrun, h', hk⟩ := marker_survives_removeFileN h p hm cs hne hcs hq
    exact ⟨mu', ms, by simp only [OtherOp.run, hrun]; exact h', hk⟩
  | removeDir cs =>
    obtain ⟨hne, hcs, hq⟩ := ho
    obtain ⟨r, mu', hrun, h', hk⟩ := marker_survives_removeDirN h p hm cs hne hcs hq
    exact ⟨mu', ms, by simp only [OtherOp.run, hrun]; exact h', hk⟩
  | openFile cs =>
    obtain ⟨hne, hcs⟩ := ho
    obtain ⟨r, w', mu', ms', hrun, h', hk⟩ := marker_survives_openFileN h p hm cs hne hcs
    exact ⟨mu', ms', by simp only [OtherOp.run, hrun]; exact h', hk⟩
  | exists_ cs =>
    refine ⟨mu, ms, ?_, hm⟩
    show OWN (Overlay.exists_ _ _ w).2 _ _ _
    rw [run_oexists_anyN h cs ho]; exact h
  | metadata cs =>
    obtain ⟨hne, hcs⟩ := ho
    refine ⟨mu, ms, ?_, hm⟩
    simp only [OtherOp.run, C09.metadata_is_viewN h cs hne hcs]; exact h
  | readDir cs =>
    refine ⟨mu, ms, ?_, hm⟩
    obtain ⟨r, hr⟩ := run_oreadDirN_world h cs ho
    show OWN (Overlay.readDir _ _ w).2 _ _ _
    rw [hr]; exact h

/-- **removed stays absent (n layers, any sequence of later unrelated operations).** Once the
marker of `p` is in the upper map — which is what a successful `remove_file(p)` / `remove_dir(p)`
leaves behind, see `removed_file_absentN` / `removed_dir_absentN` — then after ANY finite sequence
of unrelated overlay operations (each with whatever outcome): the world is still an n-layer
setting, the marker is still there, `p` is absent from the n-layer view, and `exists(p)` /
`metadata(p)` / `open_file(p)` report absence. -/
theorem removed_stays_absentN (ps : List Str) (hpne : ps ≠ []) (hps : ∀ c ∈ ps, GoodComp c)
    (hm : mu.contains (marker (renderC ps)) = true)
    (ops : List OtherOp) (hops : ∀ o ∈ ops, o.Unrelated (renderC ps)) :
    ∃ mu' ms',
      OWN (ops.foldl (fun w o => o.run (Overlay.fs (layersN (u :: is) (idu :: ids))) w) w)
        (u :: is) (idu :: ids) (mu' :: ms') ∧
      mu'.contains (marker (renderC ps)) = true ∧
      viewN (mu' :: ms') (renderC ps) = none ∧
      (Overlay.fs (layersN (u :: is) (idu :: ids))).exists_ (renderC ps)
          (ops.foldl (fun w o => o.run (Overlay.fs (layersN (u :: is) (idu :: ids))) w) w)
        = (.ok false, ops.foldl (fun w o => o.run (Overlay.fs (layersN (u :: is) (idu :: ids))) w) w) ∧
      (Overlay.fs (layersN (u :: is) (idu :: ids))).metadata (renderC ps)
          (ops.foldl (fun w o => o.run (Overlay.fs (layersN (u :: is) (idu :: ids))) w) w)
        = (.err .fileNotFound none,
            ops.foldl (fun w o => o.run (Overlay.fs (layersN (u :: is) (idu :: ids))) w) w) ∧
      (Overlay.fs (layersN (u :: is) (idu :: ids))).openFile (renderC ps)
          (ops.foldl (fun w o => o.run (Overlay.fs (layersN (u :: is) (idu :: ids))) w) w)
        = (.err .fileNotFound none,
            ops.foldl (fun w o => o.run (Overlay.fs (layersN (u :: is) (idu :: ids))) w) w) := by
  induction ops generalizing w mu ms with
  | nil =>
    obtain ⟨h1, h2, h3, h4⟩ := marked_absent_everywhereN h ps hpne hps hm
    exact ⟨mu, ms, h, hm, h1, h2, h3, h4⟩
  | cons o ops ih =>
    obtain ⟨mu1, ms1, h1, hm1⟩ := OtherOp.keepsN h _ hm o (hops o (by simp))
    exact ih h1 hm1 (fun o' ho' => hops o' (by simp [ho']))

end settingN2

/-! ### re-creation -/

/-- a removal of `ds/n` (frame `hframe`) keeps the root of the upper map in order -/
theorem rootOk_of_frame {mu mu1 : FMap} {ds : List Str} {n : Str} (hds : ∀ c ∈ ds, GoodComp c)
    (hn : GoodComp n) (hroot : RootOk mu)
    (hhead : (ds ++ [n]).head? ≠ some woDir) (hsuf : ds.head? ≠ some woSuffix)
    (hframe : ∀ k, k ≠ renderC (ds ++ [n]) → k ≠ marker (renderC (ds ++ [n])) →
      k ∉ chain [] (woDir :: ds) → mu1.find? k = mu.find? k) : RootOk mu1 := by
  have hcs := good_snoc hds hn
  have hne : ds ++ [n] ≠ [] := by simp
  have hns := good_noSlash hcs
  have hdns := good_noSlash hds
  obtain ⟨e0, he0, hd0⟩ := hroot.root
  have hpne : renderC (ds ++ [n]) ≠ [] := renderC_ne_nil hne
  constructor
  · refine ⟨e0, ?_, hd0⟩
    rw [hframe [] (fun h' => hpne h'.symm) (by simp [marker])
      (fun hk => by
        obtain ⟨i, h1, _, he⟩ := (mem_chain [] (woDir :: ds) _).1 hk
        obtain ⟨i', rfl⟩ : ∃ i', i = i' + 1 := ⟨i - 1, by omega⟩
        simp at he)]
    exact he0
  · have hrm : rootMarker = renderC [woDir, woSuffix] := by simp [rootMarker]
    have hrns : ∀ c ∈ [woDir, woSuffix], '/' ∉ c := by decide
    unfold FMap.contains
    rw [hframe rootMarker ?_ ?_ ?_]
    · exact hroot.noMark
    · rw [hrm]; intro heq
      have := C06.renderC_injective _ _ hrns hns heq
      apply hhead; rw [← this]; rfl
    · rw [hrm, marker_renderC]; intro heq
      have := C06.renderC_injective _ _ hrns (good_noSlash (good_markerComps hds hn)) heq
      simp only [List.cons.injEq, true_and] at this
      cases ds with
      | nil =>
        exact hn.1 (by simpa using this)
      | cons d ds =>
        have hl := congrArg List.length this
        simp at hl
    · rw [hrm]; intro hk
      obtain ⟨i, hi1, hi2, he⟩ := (mem_chain [] (woDir :: ds) _).1 hk
      simp only [List.nil_append] at he
      have := C06.renderC_injective _ _ hrns (by
        intro c hc
        rcases List.mem_cons.1 (List.mem_of_mem_take hc) with rfl | hc
        · exact goodComp_woDir.noSlash
        · exact hdns c hc) he
      obtain ⟨i', rfl⟩ : ∃ i', i = i' + 1 := ⟨i - 1, by omega⟩
      simp only [List.take_succ_cons, List.cons.injEq, true_and] at this
      apply hsuf
      cases ds with
      | nil => simp at this
      | cons d ds =>
        cases i' with
        | zero => simp at this
        | succ i'' => simp at this; simp [this.1]

/-- a removal of `ds/n` (frame `hframe`) keeps the ancestors `ds` directories of the view -/
theorem ancDirsN_of_frame {mu mu1 : FMap} {ms : List FMap} {ds : List Str} {n : Str}
    (hds : ∀ c ∈ ds, GoodComp c) (hn : GoodComp n) (hanc : AncDirsN (mu :: ms) ds)
    (hhead : (ds ++ [n]).head? ≠ some woDir)
    (hframe : ∀ k, k ≠ renderC (ds ++ [n]) → k ≠ marker (renderC (ds ++ [n])) →
      k ∉ chain [] (woDir :: ds) → mu1.find? k = mu.find? k) : AncDirsN (mu1 :: ms) ds := by
  have hcs := good_snoc hds hn
  have hne : ds ++ [n] ≠ [] := by simp
  have hns := good_noSlash hcs
  have hdns := good_noSlash hds
  have hdhead : ds.head? ≠ some woDir := by
    intro hd; apply hhead
    cases ds with
    | nil => simp at hd
    | cons d ds => simpa using hd
  intro j hj1 hj2
  obtain ⟨ea, hva, hda⟩ := hanc j hj1 hj2
  refine ⟨ea, ?_, hda⟩
  have hqns : ∀ c ∈ ds.take j, '/' ∉ c := fun c hc => hdns c (List.mem_of_mem_take hc)
  have hqhead := take_head_ne hj1 hdhead
  have hq1 : renderC (ds.take j) ≠ renderC (ds ++ [n]) := by
    intro heq
    have := congrArg List.length (C06.renderC_injective _ _ hqns hns heq)
    rw [List.length_take, List.length_append, List.length_singleton] at this
    omega
  have hqh : (renderC (ds.take j)).head? = some '/' := by
    apply C09.renderC_head
    intro h0
    have := congrArg List.length h0
    rw [List.length_take, List.length_nil] at this
    omega
  have hq2 : renderC (ds.take j) ≠ marker (renderC (ds ++ [n])) := fun heq =>
    hqhead (renderC_eq_marker_head _ _ hqns heq (C09.renderC_head _ hne))
  have hq3 : renderC (ds.take j) ∉ chain [] (woDir :: ds) := fun hk =>
    hqhead (chain_wo_head _ _ hqns hdns hk)
  have hm1 : marker (renderC (ds.take j)) ≠ renderC (ds ++ [n]) := fun heq =>
    hhead (renderC_eq_marker_head _ _ hns heq.symm hqh)
  have hm2 : marker (renderC (ds.take j)) ≠ marker (renderC (ds ++ [n])) := fun heq =>
    hq1 (marker_injective _ _ heq)
  have hm3 := marker_prefix_not_in_chain ds hds j hj1 hj2
  rw [← hva]
  exact viewN_congr_upper (hframe _ hq1 hq2 hq3) (hframe _ hm1 hm2 hm3)

section settingN3
variable {w : World} {u idu : Nat} {mu : FMap} {is ids : List Nat} {ms : List FMap}
  (h : OWN w (u :: is) (idu :: ids) (mu :: ms))
include h

/-- **a re-created file holds only the newly written bytes (n layers).** `p` is marked as deleted
(its marker is a file of the upper layer, the upper layer has nothing at `p`; ANY NUMBER of lower
layers may still hold an old file at `p` — there is no hypothesis on `ms` beyond the ancestors):
one write session `create_file(p)?.write_all(bs)` succeeds, changes the upper leaf only, removes
the marker, and afterwards the n-layer view serves `p` as a file with content exactly `bs`, and
`open_file(p)` through the overlay hands out exactly `bs`. -/
theorem recreated_file_freshN (ds : List Str) (n : Str) (hds : ∀ c ∈ ds, GoodComp c)
    (hn : GoodComp n) (hroot : RootOk mu) (hanc : AncDirsN (mu :: ms) ds)
    (em : Entry) (bs : Bytes)
    (hmk : mu.find? (marker (renderC (ds ++ [n]))) = some em) (hmf : em.ftype = .file)
    (hup : mu.find? (renderC (ds ++ [n])) = none) :
    ∃ w' mu' e',
      (do let hd ← (Overlay.fs (layersN (u :: is) (idu :: ids))).createFile (renderC (ds ++ [n]))
          hd.writeAllAndDrop bs : M Unit) w = (.ok (), w') ∧
      OWN w' (u :: is) (idu :: ids) (mu' :: ms) ∧
      mu'.contains (marker (renderC (ds ++ [n]))) = false ∧
      mu'.find? (renderC (ds ++ [n])) = some e' ∧
      viewN (mu' :: ms) (renderC (ds ++ [n])) = some e' ∧ e'.ftype = .file ∧ e'.content = bs ∧
      ∃ w'', (Overlay.fs (layersN (u :: is) (idu :: ids))).openFile (renderC (ds ++ [n])) w'
        = (.ok { content := bs, pos := 0 }, w'') := by
  have hcs := good_snoc hds hn
  have hne : ds ++ [n] ≠ [] := by simp
  have hE : pEnsureN (mu :: ms) (ds ++ [n]).dropLast = (.ok (), fillDirs mu (chain [] ds)) := by
    rw [List.dropLast_concat]; exact pEnsureN_ok hroot hds hanc
  have hp0 := find?_snoc_fillDirs (mu := mu) hds hn [] (Or.inl rfl)
  simp only [List.append_nil] at hp0
  have hne' : marker (renderC (ds ++ [n])) ≠ renderC (ds ++ [n]) := marker_ne _
  -- after ensure_has_parent the marker is still there
  have hm1 : (fillDirs mu (chain [] ds)).find? (marker (renderC (ds ++ [n]))) = some em := by
    rw [find?_fillDirs, hmk]; rfl
  have hrefuse : pRefuseN (fillDirs mu (chain [] ds) :: ms) (renderC (ds ++ [n])) = .ok () := by
    unfold pRefuseN; rw [viewN_marked (contains_of_find hm1)]
  have hpar := parentOk_fillDirs_gen (n := n) hroot.root hds hn (chain_dirs_of_ancN hanc)
  have hopen : Mem.pOpenW (fillDirs mu (chain [] ds)) (renderC (ds ++ [n])) =
      (.ok (), (fillDirs mu (chain [] ds)).insert (renderC (ds ++ [n])) fileEntryNow) := by
    unfold Mem.pOpenW
    rw [if_pos hpar, Mem.createFile_fresh _ _ (slash_mem_renderC hne) hpar
      (by rw [hp0]; exact hup)]
    rfl
  have hm2 : ((fillDirs mu (chain [] ds)).insert (renderC (ds ++ [n])) fileEntryNow).find?
      (marker (renderC (ds ++ [n]))) = some em := by
    rw [FMap.find?_insert_ne _ _ _ _ hne']; exact hm1
  have hclear : pClear ((fillDirs mu (chain [] ds)).insert (renderC (ds ++ [n])) fileEntryNow)
      (renderC (ds ++ [n])) =
      (.ok (), ((fillDirs mu (chain [] ds)).insert (renderC (ds ++ [n])) fileEntryNow).erase
        (marker (renderC (ds ++ [n])))) := by
    unfold pClear
    rw [if_pos (contains_of_find hm2), pRemoveFile_file _ _ em hm2 hmf]
  have hpure : pCreateFileN mu ms (ds ++ [n]) =
      (.ok (), ((fillDirs mu (chain [] ds)).insert (renderC (ds ++ [n])) fileEntryNow).erase
        (marker (renderC (ds ++ [n])))) := by
    unfold pCreateFileN
    rw [hE]
    simp only [andThen, hrefuse, hopen, hclear]
  have h3 := h.setHead (pCreateFileN mu ms (ds ++ [n])).2
  -- the file just created by `create_file` sits at the key, so the session publishes
  have hcreated : (pCreateFileN mu ms (ds ++ [n])).2.find? (renderC (ds ++ [n])) =
      some fileEntryNow := by
    rw [hpure]
    show (FMap.erase _ _).find? _ = _
    rw [FMap.find?_erase_ne _ _ _ hne'.symm, FMap.find?_insert_self]
  obtain ⟨e', he', hft, hct⟩ := find?_memPublish_self (pCreateFileN mu ms (ds ++ [n])).2
    (renderC (ds ++ [n])) (cursorWrite [] 0 bs) fileEntryNow hcreated rfl
  have hgone : (memPublish (pCreateFileN mu ms (ds ++ [n])).2 (renderC (ds ++ [n]))
      (cursorWrite [] 0 bs)).contains (marker (renderC (ds ++ [n]))) = false := by
    unfold FMap.contains
    rw [find?_memPublish_ne _ _ _ _ hne', hpure]
    simp
  have h4 := h3.setHead (memPublish (pCreateFileN mu ms (ds ++ [n])).2 (renderC (ds ++ [n]))
      (cursorWrite [] 0 bs))
  rw [World.setLeafFiles_twice] at h4
  have hct' : e'.content = bs := by rw [hct, cursorWrite_nil]
  have hview := viewN_upper (ms := ms) hgone he'
  obtain ⟨k, i, m, w'', _, _, _, hopenf, _, _⟩ := C09.openFile_serves_viewN h4 _ hne hcs e' hview hft
  rw [hct'] at hopenf
  refine ⟨_, _, e', ?_, h4, hgone, he', hview, hft, hct', w'', hopenf⟩
  show (do let hd ← Overlay.createFile _ _; hd.writeAllAndDrop bs : M Unit) w = _
  simp only [bind, M.bind, run_ocreateFileN h _ hne hcs]
  rw [hpure] at h3 ⊢
  simp only [Res.map, run_writeAllAndDrop h3.hu, World.setLeafFiles_twice]

/-- **remove, then re-create: only the new bytes (n layers).** `p` is a file of the n-layer view
(in the upper layer, in one lower layer, or in several lower layers with different bytes).
`remove_file(p)` succeeds; a following write session `create_file(p)?.write_all(bs)` succeeds;
afterwards the marker is gone, every lower layer still holds its old map (`OWN … (mu2 :: ms)`),
and the view — and `open_file` — serve `p` as a file holding exactly `bs`. -/
theorem remove_then_recreate_freshN (ds : List Str) (n : Str) (hds : ∀ c ∈ ds, GoodComp c)
    (hn : GoodComp n) (hroot : RootOk mu) (hanc : AncDirsN (mu :: ms) ds)
    (hhead : (ds ++ [n]).head? ≠ some woDir) (hsuf : ds.head? ≠ some woSuffix)
    (hwoarea : ∀ k ∈ chain [] (woDir :: ds), ∀ e, mu.find? k = some e → e.ftype = .dir)
    (e : Entry) (hv : viewN (mu :: ms) (renderC (ds ++ [n])) = some e) (hfile : e.ftype = .file)
    (bs : Bytes) :
    ∃ w1 w2 mu2 e',
      (Overlay.fs (layersN (u :: is) (idu :: ids))).removeFile (renderC (ds ++ [n])) w
        = (.ok (), w1) ∧
      (do let hd ← (Overlay.fs (layersN (u :: is) (idu :: ids))).createFile (renderC (ds ++ [n]))
          hd.writeAllAndDrop bs : M Unit) w1 = (.ok (), w2) ∧
      OWN w2 (u :: is) (idu :: ids) (mu2 :: ms) ∧
      mu2.contains (marker (renderC (ds ++ [n]))) = false ∧
      viewN (mu2 :: ms) (renderC (ds ++ [n])) = some e' ∧ e'.ftype = .file ∧ e'.content = bs ∧
      ∃ w3, (Overlay.fs (layersN (u :: is) (idu :: ids))).openFile (renderC (ds ++ [n])) w2
        = (.ok { content := bs, pos := 0 }, w3) := by
  have hcs := good_snoc hds hn
  have hne : ds ++ [n] ≠ [] := by simp
  have hns := good_noSlash hcs
  have hdns := good_noSlash hds
  have hdhead : ds.head? ≠ some woDir := by
    intro hd; apply hhead
    cases ds with
    | nil => simp at hd
    | cons d ds => simpa using hd
  obtain ⟨mu1, hpure, ⟨em, hem, hemf⟩, hp1, hframe⟩ :=
    pRemoveFileN_result mu ms ds n hds hn hroot hwoarea hhead e hv hfile
  have h1 := h.setHead mu1
  have hrun : (Overlay.fs (layersN (u :: is) (idu :: ids))).removeFile (renderC (ds ++ [n])) w
      = (.ok (), w.setLeafFiles u mu1) := by
    show Overlay.removeFile _ _ w = _
    rw [run_oremoveFileN h _ hne hcs, hpure]
  have hroot1 : RootOk mu1 := rootOk_of_frame hds hn hroot hhead hsuf hframe
  have hanc1 : AncDirsN (mu1 :: ms) ds := ancDirsN_of_frame hds hn hanc hhead hframe
  obtain ⟨w2, mu2, e', hrun2, hw2, hgone, _, hv2, hf2, hc2, hread⟩ :=
    recreated_file_freshN h1 ds n hds hn hroot1 hanc1 em bs hem hemf hp1
  exact ⟨_, w2, mu2, e', hrun, hrun2, hw2, hgone, hv2, hf2, hc2, hread⟩

/-- **a re-created directory is empty (n layers).** `p` is marked as deleted, the upper layer has
nothing at or below `p`, and every child of `p` that ANY lower layer still holds (each may sit in
one lower layer or in several) is marked as deleted too (it was removed through the overlay
before `p` was): `create_dir(p)` succeeds, changes the upper leaf only, `p` is again a directory
of the n-layer view, and `read_dir(p)` is empty. (`hchd` — markers below "/.whiteout/p" only exist
when that is a directory of the upper map — follows from `WF mu`.) -/
theorem recreated_dir_emptyN (ds : List Str) (n : Str) (hds : ∀ c ∈ ds, GoodComp c)
    (hn : GoodComp n) (hroot : RootOk mu) (hanc : AncDirsN (mu :: ms) ds)
    (hhead : (ds ++ [n]).head? ≠ some woDir) (em : Entry)
    (hmk : mu.find? (marker (renderC (ds ++ [n]))) = some em) (hmf : em.ftype = .file)
    (hup : mu.find? (renderC (ds ++ [n])) = none)
    (hupc : ∀ x, '/' ∉ x → mu.find? (renderC (ds ++ [n]) ++ '/' :: x) = none)
    (hlowc : ∀ x, '/' ∉ x → ∀ m ∈ ms, m.contains (renderC (ds ++ [n]) ++ '/' :: x) = true →
      mu.contains (marker (renderC (ds ++ [n]) ++ '/' :: x)) = true)
    (hwfl : ∀ m ∈ ms, WF m) (hchd : ChildrenHaveDir mu (woDirOf (renderC (ds ++ [n]))))
    (hwo : ∀ e, mu.find? (woDirOf (renderC (ds ++ [n]))) = some e → e.ftype = .dir) :
    ∃ mu', (Overlay.fs (layersN (u :: is) (idu :: ids))).createDir (renderC (ds ++ [n])) w
        = (.ok (), w.setLeafFiles u mu') ∧
      OWN (w.setLeafFiles u mu') (u :: is) (idu :: ids) (mu' :: ms) ∧
      viewN (mu' :: ms) (renderC (ds ++ [n])) = some dirEntryNow ∧
      (Overlay.fs (layersN (u :: is) (idu :: ids))).readDir (renderC (ds ++ [n]))
          (w.setLeafFiles u mu')
        = (.ok [], w.setLeafFiles u mu') ∧
      -- every other key of the upper map is kept: the former children stay marked
      (∀ k, k ≠ marker (renderC (ds ++ [n])) → mu.contains k = true → mu'.contains k = true) := by
  have hcs := good_snoc hds hn
  have hne : ds ++ [n] ≠ [] := by simp
  have hdhead : ds.head? ≠ some woDir := by
    intro hd; apply hhead
    cases ds with
    | nil => simp at hd
    | cons d ds => simpa using hd
  have hE : pEnsureN (mu :: ms) (ds ++ [n]).dropLast = (.ok (), fillDirs mu (chain [] ds)) := by
    rw [List.dropLast_concat]; exact pEnsureN_ok hroot hds hanc
  have hp0 := find?_snoc_fillDirs (mu := mu) hds hn [] (Or.inl rfl)
  simp only [List.append_nil] at hp0
  have hne' : marker (renderC (ds ++ [n])) ≠ renderC (ds ++ [n]) := marker_ne _
  have hm1 : (fillDirs mu (chain [] ds)).find? (marker (renderC (ds ++ [n]))) = some em := by
    rw [find?_fillDirs, hmk]; rfl
  have hpar := parentOk_fillDirs_gen (n := n) hroot.root hds hn (chain_dirs_of_ancN hanc)
  have hmkdir : Mem.pCreateDir (fillDirs mu (chain [] ds)) (renderC (ds ++ [n])) =
      (.ok (), (fillDirs mu (chain [] ds)).insert (renderC (ds ++ [n])) dirEntryNow) :=
    pCreateDir_fresh _ _ hpar (slash_mem_renderC hne) (by rw [hp0]; exact hup)
  have hm2 : ((fillDirs mu (chain [] ds)).insert (renderC (ds ++ [n])) dirEntryNow).find?
      (marker (renderC (ds ++ [n]))) = some em := by
    rw [FMap.find?_insert_ne _ _ _ _ hne']; exact hm1
  have hclear : pClear ((fillDirs mu (chain [] ds)).insert (renderC (ds ++ [n])) dirEntryNow)
      (renderC (ds ++ [n])) =
      (.ok (), ((fillDirs mu (chain [] ds)).insert (renderC (ds ++ [n])) dirEntryNow).erase
        (marker (renderC (ds ++ [n])))) := by
    unfold pClear
    rw [if_pos (contains_of_find hm2), pRemoveFile_file _ _ em hm2 hmf]
  have hpure : pCreateDirN mu ms (ds ++ [n]) =
      (.ok (), ((fillDirs mu (chain [] ds)).insert (renderC (ds ++ [n])) dirEntryNow).erase
        (marker (renderC (ds ++ [n])))) := by
    unfold pCreateDirN
    rw [hE]
    simp only [andThen, viewN_marked (contains_of_find hm1), pCreateTail, hmkdir, hclear]
  -- the new upper map, key by key
  generalize hmu3 : ((fillDirs mu (chain [] ds)).insert (renderC (ds ++ [n])) dirEntryNow).erase
    (marker (renderC (ds ++ [n]))) = mu3 at hpure
  have hfind3 : ∀ k, k ≠ marker (renderC (ds ++ [n])) → k ≠ renderC (ds ++ [n]) →
      k ∉ chain [] ds → mu3.find? k = mu.find? k := by
    intro k h1 h2 h3
    rw [← hmu3, FMap.find?_erase_ne _ _ _ h1, FMap.find?_insert_ne _ _ _ _ h2,
      find?_fillDirs_not_mem _ _ _ h3]
  have hkeep3 : ∀ k, k ≠ marker (renderC (ds ++ [n])) → mu.contains k = true →
      mu3.contains k = true := by
    intro k h1 hc
    rw [← hmu3, contains_erase_ne h1]
    exact contains_insert_of_contains (contains_fillDirs_of_contains _ _ _ hc)
  have hp3 : mu3.find? (renderC (ds ++ [n])) = some dirEntryNow := by
    rw [← hmu3, FMap.find?_erase_ne _ _ _ hne'.symm, FMap.find?_insert_self]
  have hmark3 : mu3.contains (marker (renderC (ds ++ [n]))) = false := by
    rw [← hmu3]; unfold FMap.contains; rw [FMap.find?_erase_self]; rfl
  have hview3 : viewN (mu3 :: ms) (renderC (ds ++ [n])) = some dirEntryNow :=
    viewN_upper hmark3 hp3
  have h3 := h.setHead mu3
  -- no-slash facts
  have hns : ∀ c ∈ ds ++ [n], '/' ∉ c := good_noSlash hcs
  -- "/.whiteout" ++ p and its children are untouched
  have hwd_ne1 : woDirOf (renderC (ds ++ [n])) ≠ marker (renderC (ds ++ [n])) := by
    intro heq
    have := congrArg List.length heq
    simp [marker, woDirOf, woSuffix] at this
  have hwd_ne2 : woDirOf (renderC (ds ++ [n])) ≠ renderC (ds ++ [n]) := by
    intro heq
    have := congrArg List.length heq
    simp [woDirOf, woDir] at this
    omega
  have hwd_nc : woDirOf (renderC (ds ++ [n])) ∉ chain [] ds := by
    rw [woDirOf_renderC]
    apply renderC_not_in_chain _ _ _ (good_noSlash hds) (by simp; omega)
    intro c hc
    rcases List.mem_cons.1 hc with rfl | hc
    · exact goodComp_woDir.noSlash
    · exact hns c hc
  have hwo3 : ∀ e, mu3.find? (woDirOf (renderC (ds ++ [n]))) = some e → e.ftype = .dir := by
    intro e he
    rw [hfind3 _ hwd_ne1 hwd_ne2 hwd_nc] at he
    exact hwo e he
  have hchd_mu3 : ChildrenHaveDir mu3 (renderC (ds ++ [n])) :=
    fun _ _ _ => ⟨dirEntryNow, hp3, rfl⟩
  have hchd_wo3 : ChildrenHaveDir mu3 (woDirOf (renderC (ds ++ [n]))) := by
    intro m hm hc
    -- the child key, as a component list
    have hkey : woDirOf (renderC (ds ++ [n])) ++ '/' :: m = renderC (woDir :: (ds ++ [n]) ++ [m]) := by
      rw [woDirOf_renderC]; simp
    have hkns : ∀ c ∈ woDir :: (ds ++ [n]) ++ [m], '/' ∉ c := by
      intro c hc
      rcases List.mem_append.1 hc with hc | hc
      · rcases List.mem_cons.1 hc with rfl | hc
        · exact goodComp_woDir.noSlash
        · exact hns c hc
      · rw [List.mem_singleton.1 hc]; exact hm
    have hk1 : woDirOf (renderC (ds ++ [n])) ++ '/' :: m ≠ marker (renderC (ds ++ [n])) := by
      rw [hkey, marker_renderC]
      intro heq
      have := C06.renderC_injective _ _ hkns
        (good_noSlash (good_markerComps hds hn)) heq
      have hl := congrArg List.length this
      simp at hl
    have hk2 : woDirOf (renderC (ds ++ [n])) ++ '/' :: m ≠ renderC (ds ++ [n]) := by
      rw [hkey]
      intro heq
      have := C06.renderC_injective _ _ hkns hns heq
      have hl := congrArg List.length this
      simp at hl
    have hk3 : woDirOf (renderC (ds ++ [n])) ++ '/' :: m ∉ chain [] ds := by
      rw [hkey]
      exact renderC_not_in_chain _ _ hkns (good_noSlash hds) (by simp; omega)
    have hcm : mu.contains (woDirOf (renderC (ds ++ [n])) ++ '/' :: m) = true := by
      unfold FMap.contains at hc ⊢
      rw [hfind3 _ hk1 hk2 hk3] at hc; exact hc
    obtain ⟨e, he, hd⟩ := hchd m hm hcm
    exact ⟨e, by rw [hfind3 _ hwd_ne1 hwd_ne2 hwd_nc]; exact he, hd⟩
  -- the listing has no member
  have hempty : pListingN (mu3 :: ms) (renderC (ds ++ [n])) = [] := by
    apply List.eq_nil_iff_forall_not_mem.2
    intro x hx
    have hall : ∀ m ∈ mu3 :: ms, ChildrenHaveDir m (renderC (ds ++ [n])) := by
      intro m hm
      rcases List.mem_cons.1 hm with rfl | hm
      · exact hchd_mu3
      · exact (hwfl m hm).childrenHaveDir _
    obtain ⟨hxs, hxv, _⟩ := (mem_pListingN mu3 ms _ x hall hchd_wo3).1 hx
    rw [viewN_isSome] at hxv
    simp only [Bool.and_eq_true, Bool.not_eq_true', List.any_eq_true] at hxv
    obtain ⟨hnm, m, hmem, hc⟩ := hxv
    -- the child key
    have hkey : renderC (ds ++ [n]) ++ '/' :: x = renderC ((ds ++ [n]) ++ [x]) := by simp
    have hkns : ∀ c ∈ (ds ++ [n]) ++ [x], '/' ∉ c := by
      intro c hc
      rcases List.mem_append.1 hc with hc | hc
      · exact hns c hc
      · simp at hc; subst hc; exact hxs
    have hk1 : renderC (ds ++ [n]) ++ '/' :: x ≠ marker (renderC (ds ++ [n])) := by
      intro heq
      rw [hkey] at heq
      have := renderC_eq_marker_head _ _ hkns heq (C09.renderC_head _ hne)
      apply hhead
      cases ds with
      | nil => simpa using this
      | cons d ds => simpa using this
    have hk2 : renderC (ds ++ [n]) ++ '/' :: x ≠ renderC (ds ++ [n]) := by
      intro heq
      have := congrArg List.length heq
      simp at this
    have hk3 : renderC (ds ++ [n]) ++ '/' :: x ∉ chain [] ds :=
      snoc_not_in_chain hds hn _ (Or.inr rfl)
    have hmu3x : mu3.contains (renderC (ds ++ [n]) ++ '/' :: x) = false := by
      unfold FMap.contains
      rw [hfind3 _ hk1 hk2 hk3, hupc x hxs]; rfl
    rcases List.mem_cons.1 hmem with rfl | hmem
    · rw [hmu3x] at hc; cases hc
    · have hmx := hlowc x hxs m hmem hc
      have hne3 : marker (renderC (ds ++ [n]) ++ '/' :: x) ≠ marker (renderC (ds ++ [n])) :=
        fun heq => hk2 (marker_injective _ _ heq)
      have := hkeep3 _ hne3 hmx
      rw [hnm] at this; cases this
  refine ⟨mu3, ?_, h3, hview3, ?_, hkeep3⟩
  · show Overlay.createDir _ _ w = _
    rw [run_ocreateDirN h _ hne hcs, hpure]
  · show Overlay.readDir _ _ _ = _
    rw [run_oreadDirN h3 _ hcs hwo3]
    unfold pReadDirN dirEntryN
    rw [if_neg (renderC_ne_nil hne), hview3, hempty]
    rfl

/-! ### the markers are not entries -/

/-- **markers are invisible in listings (n layers).** Whatever `read_dir` returns: at the root it
never contains ".whiteout"; and in any directory a listed name is never a name whose marker
exists (so nothing that was removed through the overlay is listed, in whichever lower layers it
still lives); and every listed name is an entry of the n-layer view. -/
theorem markers_invisibleN (cs : List Str) (hcs : ∀ c ∈ cs, GoodComp c)
    (hwf : ∀ m ∈ mu :: ms, WF m)
    (hwo : ∀ e, mu.find? (woDirOf (renderC cs)) = some e → e.ftype = .dir)
    (lst : List Str) (w' : World)
    (hres : (Overlay.fs (layersN (u :: is) (idu :: ids))).readDir (renderC cs) w = (.ok lst, w')) :
    (renderC cs = [] → woDir ∉ lst) ∧
    (∀ x ∈ lst, mu.contains (marker (renderC cs ++ '/' :: x)) = false) ∧
    (∀ x ∈ lst, (viewN (mu :: ms) (renderC cs ++ '/' :: x)).isSome = true) := by
  change (Overlay.readDir _ _ w = _) at hres
  rw [run_oreadDirN h cs hcs hwo] at hres
  unfold pReadDirN at hres
  have hl : lst = pListingN (mu :: ms) (renderC cs) := by
    split at hres
    · simp at hres
    · split at hres
      · simp at hres; exact hres.1.symm
      · simp at hres
  subst hl
  have hmem := fun x => mem_pListingN mu ms (renderC cs) x
    (fun m hm => (hwf m hm).childrenHaveDir _) ((hwf mu (by simp)).childrenHaveDir _)
  refine ⟨fun hp => by rw [hp]; exact woDir_not_listedN _, ?_, ?_⟩
  · intro x hx
    have := ((hmem x).1 hx).2.1
    rw [viewN_isSome] at this
    simp only [Bool.and_eq_true, Bool.not_eq_true'] at this
    exact this.1
  · intro x hx
    exact ((hmem x).1 hx).2.1

/-- a removed name is not listed by its parent: while the marker of `p/x` is in the upper map,
`read_dir(p)` (if it succeeds) does not list `x` -/
theorem marked_not_listedN (cs : List Str) (hcs : ∀ c ∈ cs, GoodComp c)
    (hwf : ∀ m ∈ mu :: ms, WF m)
    (hwo : ∀ e, mu.find? (woDirOf (renderC cs)) = some e → e.ftype = .dir)
    (x : Str) (hm : mu.contains (marker (renderC cs ++ '/' :: x)) = true)
    (lst : List Str) (w' : World)
    (hres : (Overlay.fs (layersN (u :: is) (idu :: ids))).readDir (renderC cs) w = (.ok lst, w')) :
    x ∉ lst := by
  intro hx
  have := (markers_invisibleN h cs hcs hwf hwo lst w' hres).2.1 x hx
  rw [hm] at this; cases this

end settingN3

/-! ### the composition: remove the children, remove the directory, re-create it -/

/-- the invariant of the composition, for the directory with components `qs`: the root of the
upper map is in order, `qs` and its ancestors are directories of the n-layer view, and the
bookkeeping area "/.whiteout/<qs>" holds no file where a directory is needed -/
structure DirInv (mu : FMap) (ms : List FMap) (qs : List Str) : Prop where
  root : RootOk mu
  anc : AncDirsN (mu :: ms) qs
  woarea : ∀ k ∈ chain [] (woDir :: qs), ∀ e, mu.find? k = some e → e.ftype = .dir

theorem find?_none_of_not_contains {m : FMap} {k : Str} (h : ¬ m.contains k = true) :
    m.find? k = none := by
  unfold FMap.contains at h
  cases hf : m.find? k with
  | none => rfl
  | some e => rw [hf] at h; exact absurd rfl h

theorem snoc_head_ne {qs : List Str} {x : Str} {c : Str} (hqne : qs ≠ [])
    (hhead : qs.head? ≠ some c) : (qs ++ [x]).head? ≠ some c := by
  cases qs with
  | nil => exact absurd rfl hqne
  | cons q qs => simpa using hhead

theorem noSlash_snoc {qs : List Str} {x : Str} (hqs : ∀ c ∈ qs, GoodComp c) (hx : '/' ∉ x) :
    ∀ c ∈ qs ++ [x], '/' ∉ c := by
  intro c hc
  rcases List.mem_append.1 hc with hc | hc
  · exact (hqs c hc).noSlash
  · rw [List.mem_singleton.1 hc]; exact hx

theorem marker_child_not_in_chain {qs : List Str} {x : Str} (hqs : ∀ c ∈ qs, GoodComp c)
    (hx : '/' ∉ x) : marker (renderC (qs ++ [x])) ∉ chain [] (woDir :: qs) := by
  rw [marker_renderC]
  apply renderC_not_in_chain _ _ _ _ (by simp)
  · intro c hc
    rcases List.mem_cons.1 hc with rfl | hc
    · exact goodComp_woDir.noSlash
    · exact noSlash_snoc hqs (by simp only [List.mem_append, not_or]; exact ⟨hx, by decide⟩) c hc
  · intro c hc
    rcases List.mem_cons.1 hc with rfl | hc
    · exact goodComp_woDir.noSlash
    · exact (hqs c hc).noSlash

theorem woDirOf_mem_chain (qs : List Str) : woDirOf (renderC qs) ∈ chain [] (woDir :: qs) := by
  rw [woDirOf_renderC]
  exact (mem_chain [] (woDir :: qs) _).2 ⟨(woDir :: qs).length, by simp, Nat.le_refl _, by simp⟩

/-- **one step of the composition**: removing a child `x` (a file of the view, in whichever
layers) of the directory `qs` keeps the invariant, leaves the marker of the child, nothing at the
child in the upper map, "/.whiteout/<qs>" a directory, and touches nothing else outside
"/.whiteout/<qs and its ancestors>" -/
theorem pRemoveFileN_child {mu : FMap} {ms : List FMap} (qs : List Str) (x : Str)
    (hqs : ∀ c ∈ qs, GoodComp c) (hx : GoodComp x) (hqne : qs ≠ [])
    (hhead : qs.head? ≠ some woDir) (hsuf : qs.head? ≠ some woSuffix)
    (inv : DirInv mu ms qs) (e : Entry)
    (hv : viewN (mu :: ms) (renderC (qs ++ [x])) = some e) (hfile : e.ftype = .file) :
    ∃ mu1, pRemoveFileN mu ms (qs ++ [x]) = (.ok (), mu1) ∧ DirInv mu1 ms qs ∧
      (∃ em, mu1.find? (marker (renderC (qs ++ [x]))) = some em ∧ em.ftype = .file) ∧
      mu1.find? (renderC (qs ++ [x])) = none ∧
      (∀ k, k ≠ renderC (qs ++ [x]) → k ≠ marker (renderC (qs ++ [x])) →
        k ∉ chain [] (woDir :: qs) → mu1.find? k = mu.find? k) ∧
      (∀ k, k ≠ renderC (qs ++ [x]) → k ≠ marker (renderC (qs ++ [x])) →
        mu.contains k = true → mu1.find? k = mu.find? k) ∧
      (∃ e, mu1.find? (woDirOf (renderC qs)) = some e ∧ e.ftype = .dir) := by
  have hhead' := snoc_head_ne (x := x) hqne hhead
  have hcs := good_snoc hqs hx
  obtain ⟨mu1, hpure, hmk, hnone, hframe⟩ :=
    pRemoveFileN_result mu ms qs x hqs hx inv.root inv.woarea hhead' e hv hfile
  have hmu1 : mu1 = (pRemoveFileN mu ms (qs ++ [x])).2 := by rw [hpure]
  have hold : ∀ k, k ≠ renderC (qs ++ [x]) → k ≠ marker (renderC (qs ++ [x])) →
      mu.contains k = true → mu1.find? k = mu.find? k := by
    intro k h1 h2 hc; rw [hmu1]; exact pRemoveFileN_old mu ms _ k h1 h2 hc
  -- chain elements are neither the child nor its marker
  have hc1 : ∀ k ∈ chain [] (woDir :: qs), k ≠ renderC (qs ++ [x]) := by
    intro k hk heq; rw [heq] at hk
    exact hhead' (chain_wo_head _ _ (good_noSlash hcs) (good_noSlash hqs) hk)
  have hc2 : ∀ k ∈ chain [] (woDir :: qs), k ≠ marker (renderC (qs ++ [x])) := by
    intro k hk heq; rw [heq] at hk
    exact marker_child_not_in_chain hqs hx.noSlash hk
  have hchain : ∀ k ∈ chain [] (woDir :: qs), ∀ e, mu1.find? k = some e → e.ftype = .dir := by
    intro k hk e' he'
    by_cases hc : mu.contains k = true
    · rw [hold k (hc1 k hk) (hc2 k hk) hc] at he'
      exact inv.woarea k hk e' he'
    · have hf : mu.find? k = none := find?_none_of_not_contains hc
      have := pRemoveFileN_ok_new hpure k (by rw [List.dropLast_concat]; exact hk)
        (hc1 k hk) (hc2 k hk) hf
      rw [this] at he'
      injection he' with he'; subst he'; rfl
  have hwd : ∃ e, mu1.find? (woDirOf (renderC qs)) = some e ∧ e.ftype = .dir := by
    have hk := woDirOf_mem_chain qs
    by_cases hc : mu.contains (woDirOf (renderC qs)) = true
    · obtain ⟨e', he'⟩ := (FMap.contains_iff _ _).1 hc
      exact ⟨e', by rw [hold _ (hc1 _ hk) (hc2 _ hk) hc]; exact he', inv.woarea _ hk e' he'⟩
    · have hf : mu.find? (woDirOf (renderC qs)) = none := find?_none_of_not_contains hc
      exact ⟨dirEntryNow, pRemoveFileN_ok_new hpure _ (by rw [List.dropLast_concat]; exact hk)
        (hc1 _ hk) (hc2 _ hk) hf, rfl⟩
  exact ⟨mu1, hpure,
    ⟨rootOk_of_frame hqs hx inv.root hhead' hsuf hframe,
      ancDirsN_of_frame hqs hx inv.anc hhead' hframe, hchain⟩,
    hmk, hnone, hframe, hold, hwd⟩

/-- the keys of two different children `x ≠ y` of `qs`, and their markers, do not interfere -/
theorem child_keys_apart {qs : List Str} {x y : Str} (hqs : ∀ c ∈ qs, GoodComp c)
    (hx : '/' ∉ x) (hy : '/' ∉ y) (hqne : qs ≠ []) (hhead : qs.head? ≠ some woDir)
    (hxy : y ≠ x) :
    renderC (qs ++ [y]) ≠ renderC (qs ++ [x]) ∧
    renderC (qs ++ [y]) ≠ marker (renderC (qs ++ [x])) ∧
    renderC (qs ++ [y]) ∉ chain [] (woDir :: qs) ∧
    marker (renderC (qs ++ [y])) ≠ renderC (qs ++ [x]) ∧
    marker (renderC (qs ++ [y])) ≠ marker (renderC (qs ++ [x])) ∧
    marker (renderC (qs ++ [y])) ∉ chain [] (woDir :: qs) := by
  have hnx := noSlash_snoc hqs hx
  have hny := noSlash_snoc hqs hy
  have hhx := snoc_head_ne (x := x) hqne hhead
  have hhy := snoc_head_ne (x := y) hqne hhead
  have h1 : renderC (qs ++ [y]) ≠ renderC (qs ++ [x]) := by
    intro heq
    have := C06.renderC_injective _ _ hny hnx heq
    exact hxy (by simpa using this)
  refine ⟨h1, ?_, ?_, ?_, ?_, marker_child_not_in_chain hqs hy⟩
  · intro heq
    exact hhy (renderC_eq_marker_head _ _ hny heq (C09.renderC_head _ (by simp)))
  · intro hk
    exact hhy (chain_wo_head _ _ hny (good_noSlash hqs) hk)
  · intro heq
    exact hhx (renderC_eq_marker_head _ _ hnx heq.symm (C09.renderC_head _ (by simp)))
  · intro heq
    exact h1 (marker_injective _ _ heq)

theorem Mem.pRemoveDir_childless (m : FMap) (p : Str) (e : Entry) (hf : m.find? p = some e)
    (hd : e.ftype = .dir) (hno : ∀ y, '/' ∉ y → m.find? (p ++ '/' :: y) = none) :
    Mem.pRemoveDir m p = (.ok (), m.erase p) := by
  have hl : m.keys.filterMap (childName p) = [] := by
    apply List.eq_nil_iff_forall_not_mem.2
    intro y hy
    obtain ⟨hys, hc⟩ := (mem_children m p y).1 hy
    rw [contains_of_none (hno y hys)] at hc; cases hc
  unfold Mem.pRemoveDir Mem.removeDir Mem.readDir
  simp [hf, hd, hl, contains_of_find hf, Res.withPath]

/-- `remove_dir(p)` on a directory of the n-layer view whose listing is empty and which has no
(hidden) children in the upper map, as a function of the maps: it succeeds; the resulting upper
map holds the marker (an empty file), nothing at `p`, and is otherwise unchanged outside the
directories "/.whiteout/<ds>" -/
theorem pRemoveDirN_result (mu : FMap) (ms : List FMap) (ds : List Str) (n : Str)
    (hds : ∀ c ∈ ds, GoodComp c) (hn : GoodComp n) (hroot : RootOk mu)
    (hwoarea : ∀ k ∈ chain [] (woDir :: ds), ∀ e, mu.find? k = some e → e.ftype = .dir)
    (hhead : (ds ++ [n]).head? ≠ some woDir)
    (e : Entry) (hv : viewN (mu :: ms) (renderC (ds ++ [n])) = some e) (hdir : e.ftype = .dir)
    (hlist : pListingN (mu :: ms) (renderC (ds ++ [n])) = [])
    (hno : ∀ y, '/' ∉ y → mu.find? (renderC (ds ++ [n]) ++ '/' :: y) = none) :
    ∃ mu', pRemoveDirN mu ms (ds ++ [n]) = (.ok (), mu') ∧
      (∃ em, mu'.find? (marker (renderC (ds ++ [n]))) = some em ∧ em.ftype = .file) ∧
      mu'.find? (renderC (ds ++ [n])) = none ∧
      ∀ k, k ≠ renderC (ds ++ [n]) → k ≠ marker (renderC (ds ++ [n])) →
        k ∉ chain [] (woDir :: ds) → mu'.find? k = mu.find? k := by
  have hne : ds ++ [n] ≠ [] := by simp
  have hpne : renderC (ds ++ [n]) ≠ [] := renderC_ne_nil hne
  have hmne := marker_ne_self ds n
  have hpnc : renderC (ds ++ [n]) ∉ chain [] (woDir :: ds) := fun hk =>
    hhead (chain_wo_head _ _ (good_noSlash (good_snoc hds hn)) (good_noSlash hds) hk)
  obtain ⟨hm, _⟩ := viewN_some_cases hv
  have hnm : mu.find? (marker (renderC (ds ++ [n]))) = none :=
    find?_none_of_not_contains (by rw [hm]; simp)
  have hread : pReadDirN (mu :: ms) (renderC (ds ++ [n])) = .ok [] := by
    unfold pReadDirN dirEntryN
    rw [if_neg hpne, hv]
    simp only [hdir, if_true, hlist]
  -- the upper map once `p` is out of it
  obtain ⟨m1, hstep, hm1⟩ : ∃ m1,
      (if mu.contains (renderC (ds ++ [n])) then Mem.pRemoveDir mu (renderC (ds ++ [n]))
        else (.ok (), mu)) = (.ok (), m1) ∧
      ∀ k, m1.find? k = if k = renderC (ds ++ [n]) then none else mu.find? k := by
    rcases Option.eq_none_or_eq_some (mu.find? (renderC (ds ++ [n]))) with hc | ⟨e', hc⟩
    · refine ⟨mu, ?_, ?_⟩
      · rw [contains_of_none hc]; rfl
      · intro k; split
        · rename_i hk; rw [hk]; exact hc
        · rfl
    · have : e' = e := by
        rw [viewN_upper hm hc] at hv; injection hv
      subst this
      refine ⟨mu.erase (renderC (ds ++ [n])), ?_, fun k => FMap.find?_erase _ _ _⟩
      rw [if_pos (contains_of_find hc), Mem.pRemoveDir_childless mu _ e' hc hdir hno]
  have hres := pAddWhiteout_result m1 ds n hds hn
    (by obtain ⟨e0, he0, hd0⟩ := hroot.root
        exact ⟨e0, by rw [hm1, if_neg (fun h' => hpne h'.symm)]; exact he0, hd0⟩)
    (by intro k hk e' he'
        rw [hm1] at he'
        split at he'
        · cases he'
        · exact hwoarea k hk e' he')
    (by rw [hm1, if_neg hmne]; exact hnm)
  refine ⟨memPublish ((fillDirs m1 (chain [] (woDir :: ds))).insert
      (marker (renderC (ds ++ [n]))) fileEntryNow) (marker (renderC (ds ++ [n]))) [],
    ?_, ?_, ?_, ?_⟩
  · unfold pRemoveDirN
    simp only [hv, hread, hstep, andThen, ne_eq, not_true_eq_false, if_false]
    exact hres
  · obtain ⟨em, h1, h2, _⟩ := find?_memPublish_self
      ((fillDirs m1 (chain [] (woDir :: ds))).insert (marker (renderC (ds ++ [n]))) fileEntryNow)
      (marker (renderC (ds ++ [n]))) [] fileEntryNow (FMap.find?_insert_self _ _ _) rfl
    exact ⟨em, h1, h2⟩
  · rw [find?_memPublish_ne _ _ _ _ hmne.symm, FMap.find?_insert_ne _ _ _ _ hmne.symm,
      find?_fillDirs_not_mem _ _ _ hpnc, hm1, if_pos rfl]
  · intro k hk1 hk2 hk3
    rw [find?_memPublish_ne _ _ _ _ hk2, FMap.find?_insert_ne _ _ _ _ hk2,
      find?_fillDirs_not_mem _ _ _ hk3, hm1, if_neg hk1]

/-- `remove_file` on each path in turn; stops at the first failure -/
def removeFiles (fs : FS) : List Str → M Unit
  | [] => pure ()
  | q :: qs => do fs.removeFile q; removeFiles fs qs

section composedN
variable {u idu : Nat} {is ids : List Nat} {ms : List FMap}

/-- **the children, one after the other.** The children `xs` (pairwise different names) of the
directory `qs` are files of the n-layer view, each in whichever layers: removing them in turn
succeeds, changes the upper leaf only, keeps the invariant, leaves every child marked and out of
the upper map, and touches nothing else outside "/.whiteout/<qs and its ancestors>" -/
theorem removeChildrenN (qs : List Str) (hqs : ∀ c ∈ qs, GoodComp c) (hqne : qs ≠ [])
    (hhead : qs.head? ≠ some woDir) (hsuf : qs.head? ≠ some woSuffix)
    (xs : List Str) (hxs : ∀ x ∈ xs, GoodComp x) (hnd : xs.Nodup)
    {w : World} {mu : FMap} (h : OWN w (u :: is) (idu :: ids) (mu :: ms))
    (inv : DirInv mu ms qs)
    (hfiles : ∀ x ∈ xs, ∃ e, viewN (mu :: ms) (renderC (qs ++ [x])) = some e ∧ e.ftype = .file) :
    ∃ mu', removeFiles (Overlay.fs (layersN (u :: is) (idu :: ids)))
          (xs.map fun x => renderC (qs ++ [x])) w = (.ok (), w.setLeafFiles u mu') ∧
      OWN (w.setLeafFiles u mu') (u :: is) (idu :: ids) (mu' :: ms) ∧ DirInv mu' ms qs ∧
      (∀ x ∈ xs, mu'.contains (marker (renderC (qs ++ [x]))) = true ∧
        mu'.find? (renderC (qs ++ [x])) = none) ∧
      (∀ k, (∀ x ∈ xs, k ≠ renderC (qs ++ [x]) ∧ k ≠ marker (renderC (qs ++ [x]))) →
        k ∉ chain [] (woDir :: qs) → mu'.find? k = mu.find? k) ∧
      (∀ k, (∀ x ∈ xs, k ≠ renderC (qs ++ [x]) ∧ k ≠ marker (renderC (qs ++ [x]))) →
        mu.contains k = true → mu'.find? k = mu.find? k) ∧
      (xs ≠ [] → ∃ e, mu'.find? (woDirOf (renderC qs)) = some e ∧ e.ftype = .dir) := by
  induction xs generalizing w mu with
  | nil =>
    refine ⟨mu, ?_, ?_, inv, by simp, fun _ _ _ => rfl, fun _ _ _ => rfl, fun hne => absurd rfl hne⟩
    · rw [h.hu.same]; rfl
    · rw [h.hu.same]; exact h
  | cons x xs ih =>
    have hx := hxs x (by simp)
    have hxs' : ∀ y ∈ xs, GoodComp y := fun y hy => hxs y (by simp [hy])
    obtain ⟨hxn, hnd'⟩ := List.nodup_cons.1 hnd
    obtain ⟨e, hv, hfile⟩ := hfiles x (by simp)
    obtain ⟨mu1, hpure, inv1, ⟨em, hem, _⟩, hnone1, hframe1, hold1, hwd1⟩ :=
      pRemoveFileN_child qs x hqs hx hqne hhead hsuf inv e hv hfile
    have h1 := h.setHead mu1
    have hcs := good_snoc hqs hx
    have hrun1 : (Overlay.fs (layersN (u :: is) (idu :: ids))).removeFile (renderC (qs ++ [x])) w
        = (.ok (), w.setLeafFiles u mu1) := by
      show Overlay.removeFile _ _ w = _
      rw [run_oremoveFileN h _ (by simp) hcs, hpure]
    -- the other children are still files of the view
    have hfiles1 : ∀ y ∈ xs, ∃ e, viewN (mu1 :: ms) (renderC (qs ++ [y])) = some e ∧
        e.ftype = .file := by
      intro y hy
      obtain ⟨ey, hvy, hfy⟩ := hfiles y (by simp [hy])
      have hyx : y ≠ x := fun heq => hxn (heq ▸ hy)
      obtain ⟨a1, a2, a3, a4, a5, a6⟩ := child_keys_apart hqs hx.noSlash (hxs' y hy).noSlash hqne hhead hyx
      exact ⟨ey, by rw [viewN_congr_upper (hframe1 _ a1 a2 a3) (hframe1 _ a4 a5 a6)]; exact hvy, hfy⟩
    obtain ⟨mu', hrun, hown, inv', hmarks, hframe, hold, hwd⟩ := ih hxs' hnd' h1 inv1 hfiles1
    rw [World.setLeafFiles_twice] at hrun hown
    refine ⟨mu', ?_, hown, inv', ?_, ?_, ?_, fun _ => ?_⟩
    · simp only [List.map_cons, removeFiles, bind, M.bind, hrun1, hrun]
    · intro y hy
      rcases List.mem_cons.1 hy with rfl | hy
      · -- the first child: marked by the first step, untouched by the others
        have hapart : ∀ z ∈ xs, marker (renderC (qs ++ [y])) ≠ renderC (qs ++ [z]) ∧
            marker (renderC (qs ++ [y])) ≠ marker (renderC (qs ++ [z])) := by
          intro z hz
          have hzy : y ≠ z := fun heq => hxn (heq ▸ hz)
          obtain ⟨_, _, _, a4, a5, _⟩ := child_keys_apart hqs (hxs' z hz).noSlash hx.noSlash hqne hhead hzy
          exact ⟨a4, a5⟩
        have hapart2 : ∀ z ∈ xs, renderC (qs ++ [y]) ≠ renderC (qs ++ [z]) ∧
            renderC (qs ++ [y]) ≠ marker (renderC (qs ++ [z])) := by
          intro z hz
          have hzy : y ≠ z := fun heq => hxn (heq ▸ hz)
          obtain ⟨a1, a2, _, _, _, _⟩ := child_keys_apart hqs (hxs' z hz).noSlash hx.noSlash hqne hhead hzy
          exact ⟨a1, a2⟩
        have hnc : renderC (qs ++ [y]) ∉ chain [] (woDir :: qs) := fun hk =>
          snoc_head_ne (x := y) hqne hhead
            (chain_wo_head _ _ (good_noSlash hcs) (good_noSlash hqs) hk)
        refine ⟨?_, ?_⟩
        · rw [FMap.contains_iff]
          exact ⟨em, by rw [hold _ hapart (contains_of_find hem)]; exact hem⟩
        · rw [hframe _ hapart2 hnc]; exact hnone1
      · exact hmarks y hy
    · intro k hk hkc
      rw [hframe k (fun z hz => hk z (by simp [hz])) hkc]
      exact hframe1 k (hk x (by simp)).1 (hk x (by simp)).2 hkc
    · intro k hk hc
      have hc1 : mu1.contains k = true := by
        unfold FMap.contains at hc ⊢
        rw [hold1 k (hk x (by simp)).1 (hk x (by simp)).2 hc]; exact hc
      rw [hold k (fun z hz => hk z (by simp [hz])) hc1]
      exact hold1 k (hk x (by simp)).1 (hk x (by simp)).2 hc
    · -- "/.whiteout/<qs>" is a directory after the first step and stays one
      by_cases hxe : xs = []
      · subst hxe
        obtain ⟨e1, he1, hd1⟩ := hwd1
        have hk := woDirOf_mem_chain qs
        exact ⟨e1, by rw [hold _ (by simp) (contains_of_find he1)]; exact he1, hd1⟩
      · exact hwd hxe

end composedN

theorem chain_wo_sub (ds : List Str) (n : Str) :
    ∀ k ∈ chain [] (woDir :: ds), k ∈ chain [] (woDir :: (ds ++ [n])) := by
  intro k hk
  obtain ⟨j, h1, h2, he⟩ := (mem_chain [] (woDir :: ds) _).1 hk
  refine (mem_chain [] (woDir :: (ds ++ [n])) _).2 ⟨j, h1, by simp at h2 ⊢; omega, ?_⟩
  rw [he]
  congr 2
  rw [← List.cons_append, List.take_append_of_le_length h2]

theorem ancDirsN_prefix {all : List FMap} {ds : List Str} {n : Str}
    (h : AncDirsN all (ds ++ [n])) : AncDirsN all ds := by
  intro j h1 h2
  have := h j h1 (by simp; omega)
  rwa [List.take_append_of_le_length h2] at this

theorem head_ne_of_snoc {ds : List Str} {n c : Str} (h : (ds ++ [n]).head? ≠ some c) :
    ds.head? ≠ some c := by
  cases ds with
  | nil => simp
  | cons d ds => simpa using h

/-- remove the children, remove the directory, create it again, list it -/
def removeAndRecreateDir (fs : FS) (qs : List Str) (children : List Str) : M (List Str) := do
  removeFiles fs (children.map fun x => renderC (qs ++ [x]))
  fs.removeDir (renderC qs)
  fs.createDir (renderC qs)
  fs.readDir (renderC qs)

section composedN2
variable {w : World} {u idu : Nat} {mu : FMap} {is ids : List Nat} {ms : List FMap}
  (h : OWN w (u :: is) (idu :: ids) (mu :: ms))
include h

/-- **remove the children, remove the directory, re-create it: empty (n layers, from an arbitrary
state).** `p = ds/n` is a directory of the n-layer view; its children — in the upper layer, in
one lower layer, or in several — are the files `xs` of the view (children that no layer shows
because they are already marked may exist in lower layers as well). `remove_file` on each child,
`remove_dir(p)`, `create_dir(p)` all succeed and change the upper leaf only; afterwards `p` is a
directory of the view again, `read_dir(p) = []`, and every former child is still absent. -/
theorem recreated_dir_empty_composedN (ds : List Str) (n : Str) (hds : ∀ c ∈ ds, GoodComp c)
    (hn : GoodComp n) (hroot : RootOk mu) (hanc : AncDirsN (mu :: ms) (ds ++ [n]))
    (hhead : (ds ++ [n]).head? ≠ some woDir) (hsuf : (ds ++ [n]).head? ≠ some woSuffix)
    (hwoarea : ∀ k ∈ chain [] (woDir :: (ds ++ [n])), ∀ e, mu.find? k = some e → e.ftype = .dir)
    (xs : List Str) (hxs : ∀ x ∈ xs, GoodComp x) (hnd : xs.Nodup)
    (hfiles : ∀ x ∈ xs, ∃ e, viewN (mu :: ms) (renderC ((ds ++ [n]) ++ [x])) = some e ∧
      e.ftype = .file)
    (hupc : ∀ y, '/' ∉ y → mu.contains (renderC ((ds ++ [n]) ++ [y])) = true → y ∈ xs)
    (hlowc : ∀ y, '/' ∉ y → ∀ m ∈ ms, m.contains (renderC ((ds ++ [n]) ++ [y])) = true →
      y ∈ xs ∨ mu.contains (marker (renderC ((ds ++ [n]) ++ [y]))) = true)
    (hwfl : ∀ m ∈ ms, WF m) (hchd : ChildrenHaveDir mu (woDirOf (renderC (ds ++ [n])))) :
    ∃ mu', removeAndRecreateDir (Overlay.fs (layersN (u :: is) (idu :: ids))) (ds ++ [n]) xs w
        = (.ok [], w.setLeafFiles u mu') ∧
      OWN (w.setLeafFiles u mu') (u :: is) (idu :: ids) (mu' :: ms) ∧
      viewN (mu' :: ms) (renderC (ds ++ [n])) = some dirEntryNow ∧
      ∀ x ∈ xs, viewN (mu' :: ms) (renderC ((ds ++ [n]) ++ [x])) = none := by
  have hqs := good_snoc hds hn
  have hqne : ds ++ [n] ≠ [] := by simp
  have hqns := good_noSlash hqs
  -- the child key, both ways
  have hkey : ∀ y : Str, renderC (ds ++ [n]) ++ '/' :: y = renderC ((ds ++ [n]) ++ [y]) := by
    intro y; simp
  -- A. the children
  obtain ⟨mu1, hrunA, h1, inv1, hmarks, hframeA, holdA, hwdA⟩ :=
    removeChildrenN (ds ++ [n]) hqs hqne hhead hsuf xs hxs hnd h ⟨hroot, hanc, hwoarea⟩ hfiles
  have hnoup : ∀ y, '/' ∉ y → mu1.find? (renderC (ds ++ [n]) ++ '/' :: y) = none := by
    intro y hy
    rw [hkey]
    by_cases hyx : y ∈ xs
    · exact (hmarks y hyx).2
    · have hap : ∀ x ∈ xs, renderC ((ds ++ [n]) ++ [y]) ≠ renderC ((ds ++ [n]) ++ [x]) ∧
          renderC ((ds ++ [n]) ++ [y]) ≠ marker (renderC ((ds ++ [n]) ++ [x])) := by
        intro x hx
        obtain ⟨a1, a2, _⟩ := child_keys_apart hqs (hxs x hx).noSlash hy hqne hhead
          (fun heq => hyx (heq ▸ hx))
        exact ⟨a1, a2⟩
      have hnc : renderC ((ds ++ [n]) ++ [y]) ∉ chain [] (woDir :: (ds ++ [n])) := fun hk =>
        snoc_head_ne (x := y) hqne hhead
          (chain_wo_head _ _ (noSlash_snoc hqs hy) hqns hk)
      rw [hframeA _ hap hnc]
      exact find?_none_of_not_contains (fun hc => hyx (hupc y hy hc))
  have hlowmark : ∀ y, '/' ∉ y → ∀ m ∈ ms,
      m.contains (renderC (ds ++ [n]) ++ '/' :: y) = true →
      mu1.contains (marker (renderC (ds ++ [n]) ++ '/' :: y)) = true := by
    intro y hy m hm hc
    rw [hkey] at hc ⊢
    by_cases hyx : y ∈ xs
    · exact (hmarks y hyx).1
    · rcases hlowc y hy m hm hc with h' | h'
      · exact absurd h' hyx
      · have hap : ∀ x ∈ xs, marker (renderC ((ds ++ [n]) ++ [y])) ≠ renderC ((ds ++ [n]) ++ [x]) ∧
            marker (renderC ((ds ++ [n]) ++ [y])) ≠ marker (renderC ((ds ++ [n]) ++ [x])) := by
          intro x hx
          obtain ⟨_, _, _, a4, a5, _⟩ := child_keys_apart hqs (hxs x hx).noSlash hy hqne hhead
            (fun heq => hyx (heq ▸ hx))
          exact ⟨a4, a5⟩
        unfold FMap.contains at h' ⊢
        rw [holdA _ hap h']; exact h'
  obtain ⟨e, hv1, hdir⟩ := inv1.anc (ds ++ [n]).length (by simp) (Nat.le_refl _)
  rw [List.take_length] at hv1
  have hwo1 : ∀ e, mu1.find? (woDirOf (renderC (ds ++ [n]))) = some e → e.ftype = .dir :=
    inv1.woarea _ (woDirOf_mem_chain _)
  -- children of "/.whiteout/p" in the upper map only exist when that is a directory
  have hchd1 : ChildrenHaveDir mu1 (woDirOf (renderC (ds ++ [n]))) := by
    intro c hc hcont
    by_cases hxe : xs = []
    · subst hxe
      have hk : woDirOf (renderC (ds ++ [n])) ++ '/' :: c ∉ chain [] (woDir :: (ds ++ [n])) := by
        rw [woDirOf_renderC, show renderC (woDir :: (ds ++ [n])) ++ '/' :: c
          = renderC ((woDir :: (ds ++ [n])) ++ [c]) by simp]
        apply renderC_not_in_chain _ _ _ _ (by simp)
        · intro c' hc'
          rcases List.mem_append.1 hc' with hc' | hc'
          · rcases List.mem_cons.1 hc' with rfl | hc'
            · exact goodComp_woDir.noSlash
            · exact hqns c' hc'
          · rw [List.mem_singleton.1 hc']; exact hc
        · intro c' hc'
          rcases List.mem_cons.1 hc' with rfl | hc'
          · exact goodComp_woDir.noSlash
          · exact hqns c' hc'
      have hcm : mu.contains (woDirOf (renderC (ds ++ [n])) ++ '/' :: c) = true := by
        unfold FMap.contains at hcont ⊢
        rw [hframeA _ (by simp) hk] at hcont; exact hcont
      obtain ⟨e', he', hd'⟩ := hchd c hc hcm
      exact ⟨e', by rw [holdA _ (by simp) (contains_of_find he')]; exact he', hd'⟩
    · exact hwdA hxe
  have hlist : pListingN (mu1 :: ms) (renderC (ds ++ [n])) = [] := by
    apply List.eq_nil_iff_forall_not_mem.2
    intro y hy
    have hall : ∀ m ∈ mu1 :: ms, ChildrenHaveDir m (renderC (ds ++ [n])) := by
      intro m hm
      rcases List.mem_cons.1 hm with rfl | hm
      · intro c hc hcont
        rw [contains_of_none (hnoup c hc)] at hcont; cases hcont
      · exact (hwfl m hm).childrenHaveDir _
    obtain ⟨hys, hyv, _⟩ := (mem_pListingN mu1 ms _ y hall hchd1).1 hy
    rw [viewN_isSome] at hyv
    simp only [Bool.and_eq_true, Bool.not_eq_true', List.any_eq_true] at hyv
    obtain ⟨hnm, m, hmem, hc⟩ := hyv
    rcases List.mem_cons.1 hmem with rfl | hmem
    · rw [contains_of_none (hnoup y hys)] at hc; cases hc
    · have := hlowmark y hys m hmem hc
      rw [hnm] at this; cases this
  -- B. the directory
  obtain ⟨mu2, hpureB, ⟨em, hem, hemf⟩, hnone2, hframeB⟩ :=
    pRemoveDirN_result mu1 ms ds n hds hn inv1.root
      (fun k hk => inv1.woarea k (chain_wo_sub ds n k hk)) hhead e hv1 hdir hlist hnoup
  have hmu2 : mu2 = (pRemoveDirN mu1 ms (ds ++ [n])).2 := by rw [hpureB]
  have holdB : ∀ k, k ≠ renderC (ds ++ [n]) → k ≠ marker (renderC (ds ++ [n])) →
      mu1.contains k = true → mu2.find? k = mu1.find? k := by
    intro k a1 a2 hc; rw [hmu2]; exact pRemoveDirN_old mu1 ms _ k a1 a2 hc
  have h2 := h1.setHead mu2
  rw [World.setLeafFiles_twice] at h2
  have hrunB : (Overlay.fs (layersN (u :: is) (idu :: ids))).removeDir (renderC (ds ++ [n]))
      (w.setLeafFiles u mu1) = (.ok (), w.setLeafFiles u mu2) := by
    show Overlay.removeDir _ _ _ = _
    rw [run_oremoveDirN h1 _ hqne hqs hwo1, hpureB, World.setLeafFiles_twice]
  -- facts about the keys around p
  have hp_ne_m : ∀ y : Str, '/' ∉ y →
      marker (renderC ((ds ++ [n]) ++ [y])) ≠ renderC (ds ++ [n]) := by
    intro y hy heq
    exact hhead (renderC_eq_marker_head _ _ hqns heq.symm (C09.renderC_head _ (by simp)))
  have hchild_ne : ∀ y : Str, renderC ((ds ++ [n]) ++ [y]) ≠ renderC (ds ++ [n]) := by
    intro y heq
    have := congrArg List.length heq
    simp at this
  have hm_ne_m : ∀ y : Str, marker (renderC ((ds ++ [n]) ++ [y])) ≠ marker (renderC (ds ++ [n])) :=
    fun y heq => hchild_ne y (marker_injective _ _ heq)
  have hdhead := head_ne_of_snoc hhead
  -- C. the re-creation
  have hupc2 : ∀ y, '/' ∉ y → mu2.find? (renderC (ds ++ [n]) ++ '/' :: y) = none := by
    intro y hy
    rw [hkey]
    have a2 : renderC ((ds ++ [n]) ++ [y]) ≠ marker (renderC (ds ++ [n])) := fun heq =>
      snoc_head_ne (x := y) hqne hhead
        (renderC_eq_marker_head _ _ (noSlash_snoc hqs hy) heq (C09.renderC_head _ hqne))
    have a3 : renderC ((ds ++ [n]) ++ [y]) ∉ chain [] (woDir :: ds) := fun hk =>
      snoc_head_ne (x := y) hqne hhead
        (chain_wo_head _ _ (noSlash_snoc hqs hy) (good_noSlash hds) hk)
    rw [hframeB _ (hchild_ne y) a2 a3, ← hkey]
    exact hnoup y hy
  have hlowc2 : ∀ y, '/' ∉ y → ∀ m ∈ ms,
      m.contains (renderC (ds ++ [n]) ++ '/' :: y) = true →
      mu2.contains (marker (renderC (ds ++ [n]) ++ '/' :: y)) = true := by
    intro y hy m hm hc
    have h' := hlowmark y hy m hm hc
    rw [hkey] at h' ⊢
    unfold FMap.contains at h' ⊢
    rw [holdB _ (hp_ne_m y hy) (hm_ne_m y) h']; exact h'
  have hwd_ne1 : woDirOf (renderC (ds ++ [n])) ≠ marker (renderC (ds ++ [n])) := by
    intro heq
    have := congrArg List.length heq
    simp [marker, woDirOf, woSuffix] at this
  have hwd_ne2 : woDirOf (renderC (ds ++ [n])) ≠ renderC (ds ++ [n]) := by
    intro heq
    have := congrArg List.length heq
    simp [woDirOf, woDir] at this
    omega
  have hwd_nc : woDirOf (renderC (ds ++ [n])) ∉ chain [] (woDir :: ds) := by
    rw [woDirOf_renderC]
    apply renderC_not_in_chain _ _ _ _ (by simp)
    · intro c hc
      rcases List.mem_cons.1 hc with rfl | hc
      · exact goodComp_woDir.noSlash
      · exact hqns c hc
    · intro c hc
      rcases List.mem_cons.1 hc with rfl | hc
      · exact goodComp_woDir.noSlash
      · exact (hds c hc).noSlash
  have hwo2 : ∀ e, mu2.find? (woDirOf (renderC (ds ++ [n]))) = some e → e.ftype = .dir := by
    intro e' he'
    rw [hframeB _ hwd_ne2 hwd_ne1 hwd_nc] at he'
    exact hwo1 e' he'
  have hchd2 : ChildrenHaveDir mu2 (woDirOf (renderC (ds ++ [n]))) := by
    intro c hc hcont
    have hk : woDirOf (renderC (ds ++ [n])) ++ '/' :: c = renderC ((woDir :: (ds ++ [n])) ++ [c]) := by
      rw [woDirOf_renderC]; simp
    have hkns : ∀ c' ∈ (woDir :: (ds ++ [n])) ++ [c], '/' ∉ c' := by
      intro c' hc'
      rcases List.mem_append.1 hc' with hc' | hc'
      · rcases List.mem_cons.1 hc' with rfl | hc'
        · exact goodComp_woDir.noSlash
        · exact hqns c' hc'
      · rw [List.mem_singleton.1 hc']; exact hc
    have b1 : woDirOf (renderC (ds ++ [n])) ++ '/' :: c ≠ renderC (ds ++ [n]) := by
      rw [hk]; intro heq
      have := congrArg List.length (C06.renderC_injective _ _ hkns hqns heq)
      simp at this
    have b2 : woDirOf (renderC (ds ++ [n])) ++ '/' :: c ≠ marker (renderC (ds ++ [n])) := by
      rw [hk, marker_renderC]; intro heq
      have := congrArg List.length (C06.renderC_injective _ _ hkns
        (good_noSlash (good_markerComps hds hn)) heq)
      simp at this
    have b3 : woDirOf (renderC (ds ++ [n])) ++ '/' :: c ∉ chain [] (woDir :: ds) := by
      rw [hk]
      apply renderC_not_in_chain _ _ hkns _ (by simp)
      intro c' hc'
      rcases List.mem_cons.1 hc' with rfl | hc'
      · exact goodComp_woDir.noSlash
      · exact (hds c' hc').noSlash
    have hc1 : mu1.contains (woDirOf (renderC (ds ++ [n])) ++ '/' :: c) = true := by
      unfold FMap.contains at hcont ⊢
      rw [hframeB _ b1 b2 b3] at hcont; exact hcont
    obtain ⟨e', he', hd'⟩ := hchd1 c hc hc1
    exact ⟨e', by rw [hframeB _ hwd_ne2 hwd_ne1 hwd_nc]; exact he', hd'⟩
  obtain ⟨mu3, hrunC, h3, hview3, hread3, hkeep3⟩ :=
    recreated_dir_emptyN h2 ds n hds hn
      (rootOk_of_frame hds hn inv1.root hhead (head_ne_of_snoc hsuf) hframeB)
      (ancDirsN_of_frame hds hn (ancDirsN_prefix inv1.anc) hhead hframeB)
      hhead em hem hemf hnone2 hupc2 hlowc2 hwfl hchd2 hwo2
  rw [World.setLeafFiles_twice] at hrunC h3 hread3
  refine ⟨mu3, ?_, h3, hview3, ?_⟩
  · simp only [removeAndRecreateDir, bind, M.bind, hrunA, hrunB, hrunC, hread3]
  · intro x hx
    apply viewN_marked
    apply hkeep3 _ (hm_ne_m x)
    have h' := (hmarks x hx).1
    unfold FMap.contains at h' ⊢
    rw [holdB _ (hp_ne_m x (hxs x hx).noSlash) (hm_ne_m x) h']; exact h'

end composedN2


/-! ### the 2-layer theorems of Props/C10.lean, as instances of the n-layer ones -/

section two
variable {w : World} {u l idu idl : Nat} {mu ml : FMap} (h : OW w u l mu ml)
include h

theorem removed_file_absent_ofN (cs : List Str) (hne : cs ≠ []) (hcs : ∀ c ∈ cs, GoodComp c)
    (hres : ((Overlay.fs (layers2 u l idu idl)).removeFile (renderC cs) w).1 = .ok ()) :
    ∃ mu', (Overlay.fs (layers2 u l idu idl)).removeFile (renderC cs) w
        = (.ok (), w.setLeafFiles u mu') ∧
      OW (w.setLeafFiles u mu') u l mu' ml ∧
      (∃ em, mu'.find? (marker (renderC cs)) = some em ∧ em.ftype = .file ∧ em.content = []) ∧
      view mu' ml (renderC cs) = none ∧
      (Overlay.fs (layers2 u l idu idl)).exists_ (renderC cs) (w.setLeafFiles u mu')
        = (.ok false, w.setLeafFiles u mu') ∧
      (Overlay.fs (layers2 u l idu idl)).metadata (renderC cs) (w.setLeafFiles u mu')
        = (.err .fileNotFound none, w.setLeafFiles u mu') ∧
      (Overlay.fs (layers2 u l idu idl)).openFile (renderC cs) (w.setLeafFiles u mu')
        = (.err .fileNotFound none, w.setLeafFiles u mu') := by
  obtain ⟨mu', h1, h2, h3, h4, h5, h6, h7, _⟩ :=
    removed_file_absentN (h.toN idu idl) cs hne hcs hres
  exact ⟨mu', h1, h2.toOW, h3, by rwa [viewN_two] at h4, h5, h6, h7⟩

theorem removed_dir_absent_ofN (cs : List Str) (hne : cs ≠ []) (hcs : ∀ c ∈ cs, GoodComp c)
    (hwo : ∀ e, mu.find? (woDirOf (renderC cs)) = some e → e.ftype = .dir)
    (hres : ((Overlay.fs (layers2 u l idu idl)).removeDir (renderC cs) w).1 = .ok ()) :
    ∃ mu', (Overlay.fs (layers2 u l idu idl)).removeDir (renderC cs) w
        = (.ok (), w.setLeafFiles u mu') ∧
      OW (w.setLeafFiles u mu') u l mu' ml ∧
      view mu' ml (renderC cs) = none ∧
      (Overlay.fs (layers2 u l idu idl)).exists_ (renderC cs) (w.setLeafFiles u mu')
        = (.ok false, w.setLeafFiles u mu') := by
  obtain ⟨mu', h1, h2, _, h4, h5, _⟩ :=
    removed_dir_absentN (h.toN idu idl) cs hne hcs hwo hres
  exact ⟨mu', h1, h2.toOW, by rwa [viewN_two] at h4, h5⟩

omit h in
theorem removed_stays_absent_frame_ofN (mu' ml' : FMap) (p : Str)
    (hkeep : mu'.contains (marker p) = true) : view mu' ml' p = none := by
  rw [← viewN_two]; exact removed_stays_absent_frameN mu' [ml'] p hkeep

theorem removed_stays_absent_ofN (ps : List Str) (hpne : ps ≠ []) (hps : ∀ c ∈ ps, GoodComp c)
    (hm : mu.contains (marker (renderC ps)) = true)
    (cs : List Str) (hne : cs ≠ []) (hcs : ∀ c ∈ cs, GoodComp c) (hq : renderC cs ≠ renderC ps) :
    ∃ r mu', (Overlay.fs (layers2 u l idu idl)).createDir (renderC cs) w
        = (r, w.setLeafFiles u mu') ∧
      view mu' ml (renderC ps) = none ∧
      (Overlay.fs (layers2 u l idu idl)).exists_ (renderC ps) (w.setLeafFiles u mu')
        = (.ok false, w.setLeafFiles u mu') := by
  obtain ⟨r, mu', hrun, h', hk⟩ :=
    marker_survives_createDirN (h.toN idu idl) _ hm cs hne hcs hq
  obtain ⟨hv, hex, _⟩ := marked_absent_everywhereN h' ps hpne hps hk
  exact ⟨r, mu', hrun, by rwa [viewN_two] at hv, hex⟩

theorem recreated_file_fresh_ofN (ds : List Str) (n : Str) (hds : ∀ c ∈ ds, GoodComp c)
    (hn : GoodComp n) (hroot : RootOk mu) (hanc : AncDirs mu ml ds)
    (em : Entry) (bs : Bytes)
    (hmk : mu.find? (marker (renderC (ds ++ [n]))) = some em) (hmf : em.ftype = .file)
    (hup : mu.find? (renderC (ds ++ [n])) = none) :
    ∃ w' mu' e',
      (do let hd ← (Overlay.fs (layers2 u l idu idl)).createFile (renderC (ds ++ [n]))
          hd.writeAllAndDrop bs : M Unit) w = (.ok (), w') ∧
      OW w' u l mu' ml ∧ mu'.contains (marker (renderC (ds ++ [n]))) = false ∧
      view mu' ml (renderC (ds ++ [n])) = some e' ∧ e'.ftype = .file ∧ e'.content = bs := by
  obtain ⟨w', mu', e', h1, h2, h3, _, h4, h5, h6, _⟩ :=
    recreated_file_freshN (h.toN idu idl) ds n hds hn hroot ((AncDirsN_two mu ml ds).2 hanc)
      em bs hmk hmf hup
  exact ⟨w', mu', e', h1, h2.toOW, h3, by rwa [viewN_two] at h4, h5, h6⟩

theorem remove_then_recreate_fresh_ofN (ds : List Str) (n : Str) (hds : ∀ c ∈ ds, GoodComp c)
    (hn : GoodComp n) (hroot : RootOk mu) (hanc : AncDirs mu ml ds)
    (hhead : (ds ++ [n]).head? ≠ some woDir) (hsuf : ds.head? ≠ some woSuffix)
    (hwoarea : ∀ k ∈ chain [] (woDir :: ds), ∀ e, mu.find? k = some e → e.ftype = .dir)
    (e : Entry) (hv : view mu ml (renderC (ds ++ [n])) = some e) (hfile : e.ftype = .file)
    (bs : Bytes) :
    ∃ w1 w2 mu2 e',
      (Overlay.fs (layers2 u l idu idl)).removeFile (renderC (ds ++ [n])) w = (.ok (), w1) ∧
      (do let hd ← (Overlay.fs (layers2 u l idu idl)).createFile (renderC (ds ++ [n]))
          hd.writeAllAndDrop bs : M Unit) w1 = (.ok (), w2) ∧
      OW w2 u l mu2 ml ∧ mu2.contains (marker (renderC (ds ++ [n]))) = false ∧
      view mu2 ml (renderC (ds ++ [n])) = some e' ∧ e'.ftype = .file ∧ e'.content = bs := by
  obtain ⟨w1, w2, mu2, e', h1, h2, h3, h4, h5, h6, h7, _⟩ :=
    remove_then_recreate_freshN (h.toN idu idl) ds n hds hn hroot ((AncDirsN_two mu ml ds).2 hanc)
      hhead hsuf hwoarea e (by rwa [viewN_two]) hfile bs
  exact ⟨w1, w2, mu2, e', h1, h2, h3.toOW, h4, by rwa [viewN_two] at h5, h6, h7⟩

theorem recreated_dir_empty_ofN (ds : List Str) (n : Str) (hds : ∀ c ∈ ds, GoodComp c)
    (hn : GoodComp n) (hroot : RootOk mu) (hanc : AncDirs mu ml ds)
    (hhead : (ds ++ [n]).head? ≠ some woDir) (em : Entry)
    (hmk : mu.find? (marker (renderC (ds ++ [n]))) = some em) (hmf : em.ftype = .file)
    (hup : mu.find? (renderC (ds ++ [n])) = none)
    (hupc : ∀ x, '/' ∉ x → mu.find? (renderC (ds ++ [n]) ++ '/' :: x) = none)
    (hlowc : ∀ x, '/' ∉ x → ml.contains (renderC (ds ++ [n]) ++ '/' :: x) = true →
      mu.contains (marker (renderC (ds ++ [n]) ++ '/' :: x)) = true)
    (hwfl : WF ml) (hwf : WF mu)
    (hwo : ∀ e, mu.find? (woDirOf (renderC (ds ++ [n]))) = some e → e.ftype = .dir) :
    ∃ mu', (Overlay.fs (layers2 u l idu idl)).createDir (renderC (ds ++ [n])) w
        = (.ok (), w.setLeafFiles u mu') ∧
      OW (w.setLeafFiles u mu') u l mu' ml ∧
      view mu' ml (renderC (ds ++ [n])) = some dirEntryNow ∧
      (Overlay.fs (layers2 u l idu idl)).readDir (renderC (ds ++ [n])) (w.setLeafFiles u mu')
        = (.ok [], w.setLeafFiles u mu') := by
  obtain ⟨mu', h1, h2, h3, h4, _⟩ :=
    recreated_dir_emptyN (h.toN idu idl) ds n hds hn hroot ((AncDirsN_two mu ml ds).2 hanc)
      hhead em hmk hmf hup hupc
      (fun x hx m hm hc => hlowc x hx (by rw [List.mem_singleton.1 hm] at hc; exact hc))
      (fun m hm => by rw [List.mem_singleton.1 hm]; exact hwfl) (hwf.childrenHaveDir _) hwo
  exact ⟨mu', h1, h2.toOW, by rwa [viewN_two] at h3, h4⟩

theorem markers_invisible_ofN (cs : List Str) (hcs : ∀ c ∈ cs, GoodComp c)
    (hwf : WF mu) (hwfl : WF ml)
    (hwo : ∀ e, mu.find? (woDirOf (renderC cs)) = some e → e.ftype = .dir)
    (lst : List Str) (w' : World)
    (hres : (Overlay.fs (layers2 u l idu idl)).readDir (renderC cs) w = (.ok lst, w')) :
    (renderC cs = [] → woDir ∉ lst) ∧
    (∀ x ∈ lst, mu.contains (marker (renderC cs ++ '/' :: x)) = false) := by
  have := markers_invisibleN (h.toN idu idl) cs hcs
    (by intro m hm
        simp only [List.mem_cons, List.not_mem_nil, or_false] at hm
        rcases hm with rfl | rfl
        · exact hwf
        · exact hwfl) hwo lst w' hres
  exact ⟨this.1, this.2.1⟩

end two

/-- **`marker_survives_appendFile_stmt` of Props/C10.lean (stated there, not proved) holds**: it
is the 2-layer instance of `marker_survives_appendFileN` (whose side conditions `q ≠ p`,
`q ≠ marker p` are not even needed) -/
theorem marker_survives_appendFile_holds : marker_survives_appendFile_stmt := by
  intro w u l idu idl mu ml h p hm cs hne hcs _ _
  obtain ⟨r, w', mu', ms', hrun, h', hk, _⟩ :=
    marker_survives_appendFileN (h.toN idu idl) p hm cs hne hcs
  have hlen := h'.len_ms
  match ms', h', hlen with
  | [ml'], h', _ => exact ⟨r, w', mu', ml', hrun, h'.toOW, hk⟩
  | [], _, hlen => simp at hlen
  | _ :: _ :: _, _, hlen => simp at hlen


theorem woPrefix_marker (q : Str) : (woDirOf []).isPrefixOf (marker q) = true := by
  rw [List.isPrefixOf_iff_prefix]
  exact ⟨q ++ woSuffix, by simp [woDirOf, marker]⟩

theorem woPrefix_chain (qs : List Str) (k : Str) (hk : k ∈ chain [] (woDir :: qs)) :
    (woDirOf []).isPrefixOf k = true := by
  obtain ⟨j, h1, h2, he⟩ := (mem_chain [] (woDir :: qs) _).1 hk
  obtain ⟨i, rfl⟩ : ∃ i, j = i + 1 := ⟨j - 1, by omega⟩
  rw [List.isPrefixOf_iff_prefix, he]
  exact ⟨renderC (qs.take i), by simp [woDirOf]⟩

/-- **the 2-layer composition of Props/C10.lean, with the missing hypothesis**
(`hsuf' : (ds ++ [n]).head? ≠ some woSuffix`), as an instance of
`recreated_dir_empty_composedN`: remove the only lower-layer child, remove the directory, create
it again — the new directory is empty -/
theorem recreated_dir_empty_composed_ofN
    (w : World) (u l idu idl : Nat) (mu ml : FMap) (h : OW w u l mu ml) (hwf : WF mu)
    (hwfl : WF ml) (hroot : RootOk mu)
    (ds : List Str) (n x : Str) (hds : ∀ c ∈ ds, GoodComp c) (hn : GoodComp n) (hx : GoodComp x)
    (hanc : AncDirs mu ml ds) (hhead : (ds ++ [n]).head? ≠ some woDir)
    (hsuf' : (ds ++ [n]).head? ≠ some woSuffix)
    (hnowo : ∀ k, (woDirOf []).isPrefixOf k = true → mu.find? k = none)
    (hup : mu.find? (renderC (ds ++ [n])) = none)
    (hupc : ∀ y, '/' ∉ y → mu.find? (renderC (ds ++ [n]) ++ '/' :: y) = none)
    (hlow : ∃ e, ml.find? (renderC (ds ++ [n])) = some e ∧ e.ftype = .dir)
    (hlowc : ∀ y, '/' ∉ y → (ml.contains (renderC (ds ++ [n]) ++ '/' :: y) = true ↔ y = x))
    (hlowx : ∃ e, ml.find? (renderC (ds ++ [n, x])) = some e ∧ e.ftype = .file) :
    let fs := Overlay.fs (layers2 u l idu idl)
    let w1 := (fs.removeFile (renderC (ds ++ [n, x])) w).2
    let w2 := (fs.removeDir (renderC (ds ++ [n])) w1).2
    let w3 := (fs.createDir (renderC (ds ++ [n])) w2).2
    (fs.removeFile (renderC (ds ++ [n, x])) w).1 = .ok () ∧
    (fs.removeDir (renderC (ds ++ [n])) w1).1 = .ok () ∧
    (fs.createDir (renderC (ds ++ [n])) w2).1 = .ok () ∧
    (fs.readDir (renderC (ds ++ [n])) w3).1 = .ok [] := by
  have e1 : (ds ++ [n]) ++ [x] = ds ++ [n, x] := by simp
  have hkey : ∀ y : Str, renderC ((ds ++ [n]) ++ [y]) = renderC (ds ++ [n]) ++ '/' :: y := by
    intro y; simp
  have hnomark : ∀ q, mu.contains (marker q) = false := fun q =>
    contains_of_none (hnowo _ (woPrefix_marker q))
  obtain ⟨ed, hed, hedd⟩ := hlow
  obtain ⟨ex, hex, hexf⟩ := hlowx
  have hancN : AncDirsN [mu, ml] (ds ++ [n]) := by
    intro j h1 h2
    by_cases hj : j ≤ ds.length
    · rw [List.take_append_of_le_length hj]
      exact (AncDirsN_two mu ml ds).2 hanc j h1 hj
    · have : j = (ds ++ [n]).length := by simp at h2 ⊢; omega
      rw [this, List.take_length]
      refine ⟨ed, ?_, hedd⟩
      rw [viewN_lower (hnomark _) hup, firstN, hed]; rfl
  obtain ⟨mu', hrun, _⟩ := recreated_dir_empty_composedN (h.toN idu idl) ds n hds hn hroot hancN
    hhead hsuf'
    (by intro k hk e he; rw [hnowo k (woPrefix_chain _ k hk)] at he; cases he)
    [x] (by simpa using hx) (by simp)
    (by intro y hy
        rw [List.mem_singleton.1 hy]
        refine ⟨ex, ?_, hexf⟩
        rw [viewN_lower (hnomark _) (by rw [hkey]; exact hupc x hx.noSlash)]
        rw [e1, firstN, hex]; rfl)
    (by intro y hy hc
        rw [hkey, contains_of_none (hupc y hy)] at hc; cases hc)
    (by intro y hy m hm hc
        rw [List.mem_singleton.1 hm, hkey] at hc
        left; simp [(hlowc y hy).1 hc])
    (by intro m hm; rw [List.mem_singleton.1 hm]; exact hwfl)
    (hwf.childrenHaveDir _)
  -- read the four outcomes off the run
  rw [layersN_two] at hrun
  simp only [removeAndRecreateDir, List.map, removeFiles, bind, M.bind, e1] at hrun
  intro fs w1 w2 w3
  cases h1 : fs.removeFile (renderC (ds ++ [n, x])) w with
  | mk r1 v1 =>
    have hw1 : w1 = v1 := by show (fs.removeFile _ w).2 = v1; rw [h1]
    rw [show Overlay.fs (layers2 u l idu idl) = fs from rfl, h1] at hrun
    cases r1 with
    | err k p => simp at hrun
    | panic => simp at hrun
    | ok a1 =>
      simp only [Pure.pure, M.pure] at hrun
      cases h2 : fs.removeDir (renderC (ds ++ [n])) v1 with
      | mk r2 v2 =>
        have hw2 : w2 = v2 := by show (fs.removeDir _ w1).2 = v2; rw [hw1, h2]
        rw [h2] at hrun
        cases r2 with
        | err k p => simp at hrun
        | panic => simp at hrun
        | ok a2 =>
          simp only at hrun
          cases h3 : fs.createDir (renderC (ds ++ [n])) v2 with
          | mk r3 v3 =>
            have hw3 : w3 = v3 := by show (fs.createDir _ w2).2 = v3; rw [hw2, h3]
            rw [h3] at hrun
            cases r3 with
            | err k p => simp at hrun
            | panic => simp at hrun
            | ok a3 =>
              simp only at hrun
              refine ⟨rfl, ?_, ?_, ?_⟩
              · rw [hw1, h2]
              · rw [hw2, h3]
              · rw [hw3, hrun]


/-! ### non-vacuity: kernel-evaluated 3- and 4-layer worlds (`decide`) -/

section concreteN
open Vfs.C09

/-- a decidable check of well-formedness, for the concrete maps -/
def wfCheckN (m : FMap) : Bool :=
  (match m.find? [] with
   | some e => decide (e.ftype = .dir)
   | none => false) &&
  m.all fun ke => decide (ke.1 = []) ||
    (decide ('/' ∈ ke.1) && match m.find? (parentInternal ke.1) with
      | some pe => decide (pe.ftype = .dir)
      | none => false)

theorem find?_memN (m : FMap) (k : Str) (e : Entry) (h : m.find? k = some e) : (k, e) ∈ m := by
  induction m with
  | nil => simp at h
  | cons kv rest ih =>
    obtain ⟨k', v⟩ := kv
    rw [FMap.find?_cons] at h
    split at h
    · rename_i hk
      injection h with h
      subst hk; subst h; simp
    · exact List.mem_cons_of_mem _ (ih h)

theorem WF_of_checkN (m : FMap) (h : wfCheckN m = true) : WF m := by
  unfold wfCheckN at h
  rw [Bool.and_eq_true] at h
  obtain ⟨h1, h2⟩ := h
  constructor
  · split at h1
    · rename_i e he
      exact ⟨e, he, by simpa using h1⟩
    · cases h1
  · intro k e hk hne
    rw [List.all_eq_true] at h2
    have := h2 (k, e) (find?_memN m k e hk)
    simp only [Bool.or_eq_true, decide_eq_true_eq, Bool.and_eq_true] at this
    rcases this with h0 | ⟨hs, hp⟩
    · exact absurd h0 hne
    · refine ⟨hs, ?_⟩
      split at hp
      · rename_i pe hpe
        exact ⟨pe, hpe, by simpa using hp⟩
      · cases hp


/-- the maps of the layers `is` of a world, in order -/
def mapsOfN (w : World) (is : List Nat) : List FMap :=
  is.filterMap fun i => (w.leaf? i).map (·.files)

/-- one write session `create_file(p)?.write_all(bs)`, dropped -/
def writeSession (fs : FS) (p : String) (bs : Bytes) : M Unit := do
  let hd ← fs.createFile p.toList
  hd.writeAllAndDrop bs

/-- a world of four memory leaves -/
def world4 (a b c d : FMap) : World :=
  { leaves := [{ kind := .mem, files := a }, { kind := .mem, files := b },
               { kind := .mem, files := c }, { kind := .mem, files := d }] }

/-! #### four layers (`w4`, `ofs4` of Props/C09N.lean): "/s/p" lives in layers 1 AND 3

Intermediate worlds are written out, so that every check is one step of computation. -/

example : w4 = world4 m4u m4a m4b m4c := rfl
example : readAllN ofs4 "/s/p" w4 = .ok [1] := by decide
example : (m4a.find? "/s/p".toList).map (·.content) = some [1] ∧
    (m4c.find? "/s/p".toList).map (·.content) = some [4] := by decide

/-- the upper map after `remove_file("/s/p")`: the marker and its directory are new -/
def m4u_r : FMap :=
  [("/.whiteout/s/p_wo".toList, fileEntryNow), ("/.whiteout/s".toList, dirEntryNow)] ++ m4u

/-- the world after `remove_file("/s/p")`: only the upper leaf changed -/
def w4r : World := world4 m4u_r m4a m4b m4c

example : (ofs4.removeFile "/s/p".toList w4).1 = .ok () := by decide
theorem w4r_is : (ofs4.removeFile "/s/p".toList w4).2.leaves = w4r.leaves := by decide
theorem w4r_setting : OWN w4r [0, 1, 2, 3] [0, 1, 2, 3] [m4u_r, m4a, m4b, m4c] :=
  .cons rfl (by decide) (.cons rfl (by decide) (.cons rfl (by decide) (.cons rfl (by decide) .nil)))

-- absent for every observer, although layers 1 and 3 still hold it
example : viewN [m4u_r, m4a, m4b, m4c] "/s/p".toList = none := by decide
example : (ofs4.exists_ "/s/p".toList w4r).1 = .ok false := by decide
example : (ofs4.metadata "/s/p".toList w4r).1 = .err .fileNotFound none := by decide
example : readAllN ofs4 "/s/p" w4r = .err .fileNotFound none := by decide
example : (ofs4.readDir "/s".toList w4r).1 = .ok ["q".toList, "r".toList] := by decide
-- the bookkeeping directory is in the upper map but is not listed
example : m4u_r.contains "/.whiteout".toList = true := by decide
example : (ofs4.readDir [] w4r).1 = .ok ["s".toList, "f".toList] := by decide
-- all observers agree with the n-layer view of the new maps
example : ∀ p ∈ ["/s/p", "/s/q", "/s/r", "/s", "/f", "/h", "/.whiteout/s/p_wo"],
    agreesAt ofs4 w4r [m4u_r, m4a, m4b, m4c] p = true := by decide
-- the theorem, instantiated
example : (ofs4.exists_ "/s/p".toList w4r) = (.ok false, w4r) :=
  (marked_absent_everywhereN w4r_setting ["s".toList, "p".toList] (by simp) (by decide)
    (by decide)).2.1

/-! unrelated operations later: `create_dir("/t")`, a write session on "/s/q" (so far only in
layer 2), `open_file("/f")` (served by layer 2, whose map changes), `remove_file("/s/r")` -/

def m4u_a : FMap := ("/t".toList, dirEntryNow) :: m4u_r
def w4a : World := world4 m4u_a m4a m4b m4c
example : (ofs4.createDir "/t".toList w4r).1 = .ok () := by decide
theorem w4a_is : (ofs4.createDir "/t".toList w4r).2.leaves = w4a.leaves := by decide

def m4u_b : FMap := [("/s/q".toList, fileOf [7]), ("/s".toList, dirEntryNow)] ++ m4u_a
def w4b : World := world4 m4u_b m4a m4b m4c
example : ((writeSession ofs4 "/s/q" [7]) w4a).1 = .ok () := by decide
theorem w4b_is : ((writeSession ofs4 "/s/q" [7]) w4a).2.leaves = w4b.leaves := by decide

def m4b_f : FMap := m4b.insert "/f".toList { fileOf [76, 50] with accessed := .now }
def w4f : World := world4 m4u_b m4a m4b_f m4c
example : ((ofs4.openFile "/f".toList w4b).1.map (·.content)) = .ok [76, 50] := by decide
theorem w4f_is : (ofs4.openFile "/f".toList w4b).2.leaves = w4f.leaves := by decide

def m4u_o : FMap := ("/.whiteout/s/r_wo".toList, fileEntryNow) :: m4u_b
def w4o : World := world4 m4u_o m4a m4b_f m4c
example : (ofs4.removeFile "/s/r".toList w4f).1 = .ok () := by decide
theorem w4o_is : (ofs4.removeFile "/s/r".toList w4f).2.leaves = w4o.leaves := by decide

-- "/s/p" is still absent
example : m4u_o.contains (marker "/s/p".toList) = true := by decide
example : (ofs4.exists_ "/s/p".toList w4o).1 = .ok false := by decide
example : (ofs4.metadata "/s/p".toList w4o).1 = .err .fileNotFound none := by decide
example : readAllN ofs4 "/s/p" w4o = .err .fileNotFound none := by decide
example : (ofs4.readDir "/s".toList w4o).1 = .ok ["q".toList] := by decide
example : readAllN ofs4 "/s/q" w4o = .ok [7] := by decide

/-! the re-creation: one write session with the byte 'U' -/

def m4u_c : FMap :=
  [("/s/p".toList, fileOf [85]), ("/.whiteout/s/r_wo".toList, fileEntryNow),
   ("/s/q".toList, fileOf [7]), ("/s".toList, dirEntryNow), ("/t".toList, dirEntryNow),
   ("/.whiteout/s".toList, dirEntryNow)] ++ m4u
def w4c : World := world4 m4u_c m4a m4b_f m4c
example : ((writeSession ofs4 "/s/p" [85]) w4o).1 = .ok () := by decide
theorem w4c_is : ((writeSession ofs4 "/s/p" [85]) w4o).2.leaves = w4c.leaves := by decide

-- only the new byte, the marker is gone, layers 1 and 3 still hold the old bytes
example : readAllN ofs4 "/s/p" w4c = .ok [85] := by decide
example : viewN [m4u_c, m4a, m4b_f, m4c] "/s/p".toList = some (fileOf [85]) := by decide
example : m4u_c.contains (marker "/s/p".toList) = false := by decide
example : (ofs4.readDir "/s".toList w4c).1 = .ok ["p".toList, "q".toList] := by decide
example : ∀ p ∈ ["/s/p", "/s/q", "/s/r", "/s", "/t", "/f", "/h"],
    agreesAt ofs4 w4c [m4u_c, m4a, m4b_f, m4c] p = true := by decide

/-! a directory whose three children live in three different lower layers (and "/s/p" in two):
remove the children, remove the directory, create it again — it is empty -/

def m4u_d1 : FMap := ("/.whiteout/s/q_wo".toList, fileEntryNow) :: m4u_r
def m4u_d2 : FMap := ("/.whiteout/s/r_wo".toList, fileEntryNow) :: m4u_d1
def m4u_d3 : FMap := ("/.whiteout/s_wo".toList, fileEntryNow) :: m4u_d2
def m4u_d4 : FMap := ("/s".toList, dirEntryNow) :: m4u_d2
def w4d1 : World := world4 m4u_d1 m4a m4b m4c
def w4d2 : World := world4 m4u_d2 m4a m4b m4c
def w4d3 : World := world4 m4u_d3 m4a m4b m4c
def w4d4 : World := world4 m4u_d4 m4a m4b m4c

-- while a child is left in some lower layer, `remove_dir` refuses
example : (ofs4.removeDir "/s".toList w4r).1 = .err .other none := by decide
example : (ofs4.removeFile "/s/q".toList w4r).1 = .ok () := by decide
theorem w4d1_is : (ofs4.removeFile "/s/q".toList w4r).2.leaves = w4d1.leaves := by decide
example : (ofs4.removeDir "/s".toList w4d1).1 = .err .other none := by decide
example : (ofs4.removeFile "/s/r".toList w4d1).1 = .ok () := by decide
theorem w4d2_is : (ofs4.removeFile "/s/r".toList w4d1).2.leaves = w4d2.leaves := by decide
example : (ofs4.readDir "/s".toList w4d2).1 = .ok [] := by decide
example : (ofs4.removeDir "/s".toList w4d2).1 = .ok () := by decide
theorem w4d3_is : (ofs4.removeDir "/s".toList w4d2).2.leaves = w4d3.leaves := by decide
-- the subtree is absent
example : ∀ p ∈ ["/s", "/s/p", "/s/q", "/s/r"], (ofs4.exists_ p.toList w4d3).1 = .ok false := by
  decide
example : (ofs4.readDir [] w4d3).1 = .ok ["f".toList] := by decide
example : (ofs4.createDir "/s".toList w4d3).1 = .ok () := by decide
theorem w4d4_is : (ofs4.createDir "/s".toList w4d3).2.leaves = w4d4.leaves := by decide
-- the re-created directory is empty; its former children stay absent
example : (ofs4.exists_ "/s".toList w4d4).1 = .ok true := by decide
example : (ofs4.readDir "/s".toList w4d4).1 = .ok [] := by decide
example : ∀ p ∈ ["/s/p", "/s/q", "/s/r"], (ofs4.exists_ p.toList w4d4).1 = .ok false := by decide
example : (ofs4.readDir [] w4d4).1 = .ok ["s".toList, "f".toList] := by decide

/-- the composition theorem applies to the 4-layer world: "/s" with the children p (layers 1 and
3), q (layer 2), r (layer 3) -/
theorem w4_composed :
    ∃ mu', removeAndRecreateDir ofs4 ["s".toList] ["p".toList, "q".toList, "r".toList] w4
        = (.ok [], w4.setLeafFiles 0 mu') ∧
      OWN (w4.setLeafFiles 0 mu') [0, 1, 2, 3] [0, 1, 2, 3] [mu', m4a, m4b, m4c] ∧
      viewN [mu', m4a, m4b, m4c] "/s".toList = some dirEntryNow ∧
      ∀ x ∈ ["p".toList, "q".toList, "r".toList],
        viewN [mu', m4a, m4b, m4c] (renderC (["s".toList] ++ [x])) = none := by
  have hwf : WF m4u ∧ WF m4a ∧ WF m4b ∧ WF m4c :=
    ⟨WF_of_checkN _ (by decide), WF_of_checkN _ (by decide), WF_of_checkN _ (by decide),
      WF_of_checkN _ (by decide)⟩
  refine recreated_dir_empty_composedN w4_setting [] "s".toList (by simp) (by decide)
    ⟨⟨_, rfl, rfl⟩, by decide⟩ ?_ (by decide) (by decide) ?_
    ["p".toList, "q".toList, "r".toList] (by decide) (by decide) ?_ ?_ ?_ ?_
    (hwf.1.childrenHaveDir _)
  · intro j h1 h2
    have : j = 1 := by simp at h2; omega
    subst this
    exact ⟨dirEntryNow, by decide, rfl⟩
  · intro k hk e he
    simp only [chain, List.nil_append, List.mem_cons, List.not_mem_nil, or_false] at hk
    rcases hk with rfl | rfl
    · have : m4u.find? (renderC [woDir]) = some dirEntryNow := by decide
      rw [this] at he; injection he with he; subst he; rfl
    · have : m4u.find? (renderC ([woDir] ++ ["s".toList])) = none := by decide
      rw [this] at he; cases he
  · intro x hx
    simp only [List.mem_cons, List.not_mem_nil, or_false] at hx
    rcases hx with rfl | rfl | rfl
    · exact ⟨fileOf [1], by decide, rfl⟩
    · exact ⟨fileOf [2], by decide, rfl⟩
    · exact ⟨fileOf [3], by decide, rfl⟩
  · intro y hy hc
    simp [m4u, FMap.contains, FMap.find?, renderC] at hc
  · intro y hy m hm hc
    left
    simp only [List.mem_cons, List.not_mem_nil, or_false] at hm
    rcases hm with rfl | rfl | rfl
    · simp [m4a, FMap.contains, FMap.find?, renderC] at hc
      simp [hc]
    · simp [m4b, FMap.contains, FMap.find?, renderC] at hc
      simp [hc]
    · simp [m4c, FMap.contains, FMap.find?, renderC] at hc
      by_cases h1 : ['r'] = y
      · simp [← h1]
      · by_cases h2 : ['p'] = y
        · simp [← h2]
        · simp [h1, h2] at hc
  · intro m hm
    simp only [List.mem_cons, List.not_mem_nil, or_false] at hm
    rcases hm with rfl | rfl | rfl
    · exact hwf.2.1
    · exact hwf.2.2.1
    · exact hwf.2.2.2

/-! #### three layers (`w3`, `ofs3`; the upper layer is leaf 2): "/d/x" lives in BOTH lower
layers, with different bytes -/

/-- a world of three memory leaves -/
def world3 (a b c : FMap) : World :=
  { leaves := [{ kind := .mem, files := a }, { kind := .mem, files := b },
               { kind := .mem, files := c }] }

def m3u_r : FMap := ("/.whiteout/d/x_wo".toList, fileEntryNow) :: m3u
def w3r : World := world3 m3a m3b m3u_r
def m3u_c : FMap := ("/d/x".toList, fileOf [85]) :: m3u
def w3c : World := world3 m3a m3b m3u_c

example : w3 = world3 m3a m3b m3u := rfl
example : readAllN ofs3 "/d/x" w3 = .ok [49] := by decide
example : (ofs3.removeFile "/d/x".toList w3).1 = .ok () := by decide
theorem w3r_is : (ofs3.removeFile "/d/x".toList w3).2.leaves = w3r.leaves := by decide
example : viewN [m3u_r, m3a, m3b] "/d/x".toList = none := by decide
example : (ofs3.exists_ "/d/x".toList w3r).1 = .ok false := by decide
example : (ofs3.metadata "/d/x".toList w3r).1 = .err .fileNotFound none := by decide
example : readAllN ofs3 "/d/x" w3r = .err .fileNotFound none := by decide
example : (ofs3.readDir "/d".toList w3r).1 = .ok ["a".toList, "b".toList, "c".toList] := by decide
example : (ofs3.readDir [] w3r).1 = .ok ["d".toList] := by decide
example : ∀ p ∈ ["/d", "/d/a", "/d/x", "/d/b", "/d/c", "/d/h"],
    agreesAt ofs3 w3r [m3u_r, m3a, m3b] p = true := by decide
example : ((writeSession ofs3 "/d/x" [85]) w3r).1 = .ok () := by decide
theorem w3c_is : ((writeSession ofs3 "/d/x" [85]) w3r).2.leaves = w3c.leaves := by decide
example : readAllN ofs3 "/d/x" w3c = .ok [85] := by decide
example : viewN [m3u_c, m3a, m3b] "/d/x".toList = some (fileOf [85]) := by decide
example : (ofs3.readDir "/d".toList w3c).1 = .ok ["x".toList, "a".toList, "b".toList, "c".toList] := by
  decide
-- "/d/h", removed before, stayed absent all along
example : (ofs3.exists_ "/d/h".toList w3c).1 = .ok false := by decide


/-! #### the 2-layer composition as STATED in Props/C10.lean is false: a top-level directory called
"_wo" is a counterexample -/

def lowWo : FMap := [("/_wo/x".toList, fileL), ("/_wo".toList, dirEntryNow), ([], dirEntryNow)]
def wWo : World :=
  { leaves := [{ kind := .mem, files := Mem.init }, { kind := .mem, files := lowWo }] }

theorem init_find_nonempty (c : Char) (k : Str) : Mem.init.find? (c :: k) = none := by
  simp [Mem.init, FMap.find?]

/-- **`recreated_dir_empty_composed_stmt` of Props/C10.lean (stated there, not proved) does NOT
hold as stated.** With `ds = []`, `n = "_wo"`: `remove_file("/_wo/x")` writes the marker
"/.whiteout/_wo/x_wo", whose parent directory "/.whiteout/_wo" IS the marker of the root; from
then on `exists("")` is false and `create_dir("/_wo")` fails with `Other` — the re-creation is
impossible. The statement needs `(ds ++ [n]).head? ≠ some woSuffix` (not only
`ds.head? ≠ some woSuffix`); with it, it is `recreated_dir_empty_composedN` /
`recreated_dir_empty_composed_ofN`. -/
theorem recreated_dir_empty_composed_stmt_false : ¬ recreated_dir_empty_composed_stmt := by
  intro hstmt
  have := hstmt wWo 0 1 0 1 Mem.init lowWo ⟨rfl, rfl, by decide⟩ WF.init_mem
    (WF_of_checkN _ (by decide)) ⟨⟨_, rfl, rfl⟩, by decide⟩ [] "_wo".toList "x".toList (by simp)
    (by decide) (by decide) (by intro j h1 h2; simp at h2; omega) (by decide) (by simp)
    (by intro k hk
        cases k with
        | nil => simp [woDirOf, woDir] at hk
        | cons c k => exact init_find_nonempty c k)
    (by decide)
    (by intro y hy; exact init_find_nonempty _ _)
    ⟨dirEntryNow, by decide, rfl⟩
    (by intro y hy
        simp [lowWo, FMap.contains, FMap.find?, renderC]
        constructor
        · intro h; exact h.symm
        · intro h; exact h.symm)
    ⟨fileL, by decide, rfl⟩
  exact absurd this.2.2.1 (by decide)

/-! #### the OPEN known finding of Props/C10.lean, on four layers -/

def m4u_orph : FMap := ("/.whiteout/s_wo".toList, fileEntryNow) :: m4u
def w4orph : World := world4 m4u_orph m4a m4b m4c

/-- `remove_file` applied to a DIRECTORY that lives in lower layers succeeds (the overlay never
checks the type): afterwards the directory is absent but its children — in layers 1, 2 and 3 —
are still visible. Removing a subtree "through the overlay" therefore means removing the
children first (`remove_dir` insists on that, see above); `remove_file` on a directory is the
code's defect, not covered by the theorems (they speak of `remove_file` on FILES of the view:
`removeFile_succeedsN`, `remove_then_recreate_freshN`, or of what any successful removal leaves
behind for the path itself: `removed_file_absentN`). -/
theorem remove_file_on_lower_dir_orphansN :
    (ofs4.removeFile "/s".toList w4).1 = .ok () ∧
    (ofs4.removeFile "/s".toList w4).2.leaves = w4orph.leaves ∧
    (ofs4.exists_ "/s".toList w4orph).1 = .ok false ∧
    (ofs4.exists_ "/s/q".toList w4orph).1 = .ok true ∧
    readAllN ofs4 "/s/p" w4orph = .ok [1] := by
  refine ⟨by decide, by decide, by decide, by decide, by decide⟩

end concreteN

end Vfs.C10
