/-
  C04 through the OVERLAY, any number n ≥ 2 of layers: an append session on a path that only lower
  layers have is a copy-up from the FIRST layer that has it, continued by the script — exactly.
  (n-layer generalisation of `C09.append_continues_lower_bytes`, with an arbitrary script of
  writes / seeks / flushes instead of one `write_all`, and with the result stated against the
  handle-independent specification `specRun` of Proofs/SessionLemmas.lean.)

  SETTING (`OWN w (u :: is) (idu :: ids) (mu :: ms)`, Proofs/OverlayNLemmas.lean): the leaves
  `u :: is` are pairwise distinct memory leaves holding `mu` (upper, writable) and `ms` (the lower
  layers in order); the layers are the ROOTS of those leaf filesystems. The path is canonical,
  `p = renderC (ds ++ [n])`. Hypotheses as for the other overlay write-side theorems: `RootOk mu`,
  `AncDirsN (mu :: ms) ds` (every proper ancestor is a directory of the n-layer view),
  `ds.head? ≠ some woDir` (not inside the ".whiteout" namespace); and: `p` absent from `mu`, not
  marked, `FirstAt (mu :: ms) p k m` (layer `k` is the first that has `p`), `m.find? p = some e`,
  `e` a file. Nothing is assumed about layers deeper than `k`.

  PROVED (no sorry; axioms ⊆ {propext, Classical.choice, Quot.sound})
   * `run_vcopyFile_upN`, `run_oappendFile_copyUpN`   exact run lemmas of the copy-up from lower
     layer `j + 1` (the existing n-layer lemmas `run_vcopyFile_keepsN` / `run_oappendFile_keepsN`
     only say that keys are kept): resulting handle, resulting maps of ALL layers.
   * `append_continues_first_layerN`   the append session `append_file(p)`, any `acts`, drop,
     through `VfsPath` on the overlay: `k ≥ 1`; `Ok`; the upper map then holds at `p` a file with
     bytes exactly `(specRun e.content e.content.length acts).1`; the lower maps are
     `ms.set (k-1) (m.insert p {e with accessed := now})` — i.e. UNCHANGED EXCEPT that the entry of
     `p` in layer `k` got its access time stamped (it was opened for the copy-up); spelled out:
     every lower layer holds the same entries up to access times; the n-layer view at `p` is the
     new upper entry; a fresh `open_file` through the overlay reads exactly those bytes and
     `metadata` reports their length. Since `FirstAt` only constrains layers before `k`, it is the
     first layer's bytes that are continued whatever deeper layers hold.
   * `append_upperN`, `append_sessions_upperN`   once the upper map has the file, an append
     session (any list of them) through the overlay is the append session on the upper leaf: no
     lower map changes, the upper map changes only at `p`, result = `specSessions`.
   * `append_sessions_first_layerN`   copy-up session followed by any further append sessions:
     the upper map ends with `specSessions (some e.content) (all of them)`.
   * Non-vacuity: the 3-layer world of Props/C09N.lean ("/d/x" = "1" in layer 1, "2" in layer 2):
     the run is evaluated (`decide +kernel`): bytes served, metadata, layer 1 only access-stamped,
     layer 2 identical, a second append continues the upper copy; and the theorem is instantiated
     on that world (all hypotheses discharged).

  NOTE on "all lower maps unchanged": literally false in the model (and in the code): the copy-up
  reads the lower file through `open_file`, and MemoryFS stamps the access time of the entry it
  opens. Contents, types, creation and modification times of every lower entry are unchanged.

  NOT PROVED
   * CREATE sessions through the overlay against `specSession` (the n-layer `run_ocreateFileN`
     exists; what the upper map holds afterwards in terms of `Holds` is not derived here), hence
     no mixed create/append `sessions_exact` through the overlay;
   * layers that are not roots of memory leaves (sub-directories, altroots, nested overlays,
     physical or embedded lower layers);
   * append on a marked (whited-out) path or on a directory (they fail; C09N/C10N).
-/
import VfsModel.Proofs.SessionLemmas
import VfsModel.Proofs.OverlayNRemoveLemmas
import VfsModel.Props.C09N
set_option linter.unusedSimpArgs false
set_option linter.unusedVariables false
namespace Vfs.C04
open Vfs Vfs.Overlay

/-! ### preliminaries -/

/-- the first layer that has a path is unique -/
theorem FirstAt.unique {all : List FMap} {p : Str} {k k' : Nat} {m m' : FMap}
    (a : FirstAt all p k m) (b : FirstAt all p k' m') : k = k' ∧ m = m' := by
  have hk : k = k' := by
    rcases Nat.lt_trichotomy k k' with hlt | heq | hgt
    · have := b.before k m hlt a.get
      have hc := a.has
      simp [FMap.contains, this] at hc
    · exact heq
    · have := a.before k' m' hgt b.get
      have hc := b.has
      simp [FMap.contains, this] at hc
  subst hk
  have := a.get
  rw [b.get] at this
  injection this with this
  exact ⟨rfl, this.symm⟩

theorem marker_ne_self (p : Str) : marker p ≠ p := by
  intro heq
  have := congrArg List.length heq
  simp [marker, woDir, woSuffix] at this
  omega

/-- replacing one map by a map that differs from it only in access times keeps every layer's
entries up to access times -/
theorem set_same_up_to_access (ms : List FMap) (j : Nat) (m m2 : FMap) (hm : ms[j]? = some m)
    (hsame : ∀ q, (m2.find? q).map stripAcc = (m.find? q).map stripAcc) :
    ∀ (j' : Nat) (mj' : FMap), (ms.set j m2)[j']? = some mj' →
      ∃ mj : FMap, ms[j']? = some mj ∧ ∀ q, (mj'.find? q).map stripAcc = (mj.find? q).map stripAcc := by
  intro j' mj' hget
  rw [List.getElem?_set] at hget
  by_cases hjj : j = j'
  · subst hjj
    rw [if_pos rfl] at hget
    split at hget
    · injection hget with hget; subst hget; exact ⟨m, hm, hsame⟩
    · cases hget
  · rw [if_neg hjj] at hget
    exact ⟨mj', hget, fun _ => rfl⟩

theorem insert_touch_same (m : FMap) (p : Str) (e : Entry) (he : m.find? p = some e) :
    ∀ q, ((m.insert p { e with accessed := .now }).find? q).map stripAcc = (m.find? q).map stripAcc := by
  intro q
  rw [FMap.find?_insert]
  split
  · rename_i hq; subst hq; simp [he, stripAcc]
  · rfl

section settingN
variable {w : World} {u idu : Nat} {mu : FMap} {is ids : List Nat} {ms : List FMap}
  (h : OWN w (u :: is) (idu :: ids) (mu :: ms))
include h

/-! ### the copy-up from lower layer `j + 1`, exactly -/

/-- `copy_file` from the file `p` of lower layer `j + 1` (leaf `i`, any filesystem id) to the
absent path `q` of the upper leaf: success; the upper map gets `q` with exactly the bytes; the
map of layer `j + 1` only has the access time of `p` stamped; all other layers are untouched -/
theorem run_vcopyFile_upN (j i id : Nat) (m : FMap) (hi : is[j]? = some i) (hm : ms[j]? = some m)
    (p q : Str) (e : Entry) (hl0 : m.find? p = some e) (hfile : e.ftype = .file)
    (hq : mu.find? q = none) (hs : '/' ∈ q) (hpar : Mem.parentOk mu q = true) :
    ∃ w', VPath.copyFile { fs := leafFS i, fsId := id, path := p }
        { fs := leafFS u, fsId := idu, path := q } w = (.ok (), w') ∧
      OWN w' (u :: is) (idu :: ids)
        (memPublish (mu.insert q fileEntryNow) q e.content ::
          ms.set j (m.insert p { e with accessed := .now })) := by
  have hl : MemLeafAt w i m := h.leafAt (j + 1) i m (by simpa using hi) (by simpa using hm)
  have hopen := Mem.openFile_some m p e hl0
  rw [if_neg (by simp [hfile])] at hopen
  have h2 : OWN (w.setLeafFiles i (m.insert p { e with accessed := .now })) (u :: is) (idu :: ids)
      (mu :: ms.set j (m.insert p { e with accessed := .now })) := by
    have := h.setAt (j + 1) i (by simpa using hi) (m.insert p { e with accessed := .now })
    simpa using this
  have hcreate : Mem.pOpenW mu q = (.ok (), mu.insert q fileEntryNow) := by
    unfold Mem.pOpenW
    rw [if_pos hpar, Mem.createFile_fresh mu q hs hpar hq]; rfl
  have h3 := h2.setHead (mu.insert q fileEntryNow)
  refine ⟨_, ?_, (h2.setHead (memPublish (mu.insert q fileEntryNow) q e.content))⟩
  unfold VPath.copyFile
  by_cases hid : id = idu
  · simp [hid, bind, M.bind, M.withPath, M.attempt, M.ret, run_vexists h.hu, contains_of_none hq,
      run_copyFile_mem hl, fail, run_vopenFile hl, hopen, Res.withPath,
      run_pOpenW h2.hu, hcreate, Res.map, run_ioCopyAndDrop h3.hu, World.setLeafFiles_twice]
  · simp [hid, bind, M.bind, M.withPath, M.attempt, M.ret, run_vexists h.hu, contains_of_none hq,
      fail, run_vopenFile hl, hopen, Res.withPath, Pure.pure, M.pure,
      run_pOpenW h2.hu, hcreate, Res.map, run_ioCopyAndDrop h3.hu, World.setLeafFiles_twice]

/-- `append_file` through the overlay on a path that the upper layer lacks and whose FIRST holder
is lower layer `j + 1`, as a file: `ensure_has_parent`, the copy-up from THAT layer, and the
append handle on the upper copy — positioned at the end of that layer's bytes -/
theorem run_oappendFile_copyUpN (cs : List Str) (hne : cs ≠ []) (hcs : ∀ c ∈ cs, GoodComp c)
    (mu1 : FMap) (hE : pEnsureN (mu :: ms) cs.dropLast = (.ok (), mu1))
    (hc0 : mu.find? (renderC cs) = none)
    (hm1 : mu1.contains (marker (renderC cs)) = false) (hf1 : mu1.find? (renderC cs) = none)
    (hpar : Mem.parentOk mu1 (renderC cs) = true)
    (j : Nat) (m : FMap) (hm : ms[j]? = some m)
    (hbefore : ∀ j' mj, j' < j → ms[j']? = some mj → mj.find? (renderC cs) = none)
    (e : Entry) (hl0 : m.find? (renderC cs) = some e) (hfile : e.ftype = .file) :
    ∃ w', Overlay.appendFile (layersN (u :: is) (idu :: ids)) (renderC cs) w =
        (.ok (memH u (renderC cs) e.content e.content.length), w') ∧
      OWN w' (u :: is) (idu :: ids)
        (memPublish (mu1.insert (renderC cs) fileEntryNow) (renderC cs) e.content ::
          ms.set j (m.insert (renderC cs) { e with accessed := .now })) := by
  have h1 := h.setHead mu1
  have hfirst : FirstAt (mu1 :: ms) (renderC cs) (j + 1) m := by
    refine ⟨by simpa using hm, contains_of_find hl0, ?_⟩
    intro j' mj hj' hget
    cases j' with
    | zero => simp at hget; subst hget; exact hf1
    | succ j' => exact hbefore j' mj (by omega) (by simpa using hget)
  rcases readPath_casesN h1 cs hne hcs with ⟨hv, _⟩ | ⟨k, i, id, m', e', hf, hi, hid, hl, he', _, hv, hr⟩
  · rw [viewN_unmarked hm1, firstN_of_firstAt hfirst, hl0] at hv; cases hv
  · obtain ⟨hk, hmm⟩ := FirstAt.unique hf hfirst
    rw [hmm] at hl
    subst hk
    have hi' : is[j]? = some i := by simpa using hi
    obtain ⟨w', hcp, hw'⟩ := run_vcopyFile_upN h1 j i id m hi' hm (renderC cs) (renderC cs) e
      hl0 hfile hf1 (slash_mem_renderC hne) hpar
    refine ⟨w', ?_, hw'⟩
    obtain ⟨e2, he2, hft, hct⟩ := find?_memPublish_self (mu1.insert (renderC cs) fileEntryNow)
      (renderC cs) e.content fileEntryNow (FMap.find?_insert_self _ _ _) rfl
    have happ : Mem.appendFile (memPublish (mu1.insert (renderC cs) fileEntryNow) (renderC cs)
        e.content) (renderC cs) = .ok e.content := by
      unfold Mem.appendFile
      rw [he2]; simp [hft, hct]
    unfold Overlay.appendFile copyUp
    simp [bind, M.bind, M.ret, writePath_layersN cs hne hcs, run_vexists h.hu,
      contains_of_none hc0, run_ensureHasParentN h cs hne hcs, hE, hr, run_visFile hl, hl0, hfile,
      hcp, VPath.appendFile, M.withPath, run_appendFile hw'.hu, happ, Res.map, Res.withPath]

/-! ### the theorem -/

/-- **append_continues_first_layerN.** n ≥ 2 layers (the roots of pairwise distinct memory
leaves). The path `p = /d1/…/dk/n` is absent from the upper map and not marked as deleted; `k`
is the FIRST layer that has `p` (`FirstAt`: layer `k` has it, no layer before `k` does —
whatever deeper layers hold at `p`), and it holds a file `e` with bytes `old = e.content`. Then
an append session on `p` through the overlay with ANY script `acts` of writes, seeks and flushes:

* succeeds;
* afterwards the upper map holds at `p` a file whose bytes are exactly
  `specRun old old.length acts` — layer `k`'s bytes continued, not any deeper layer's;
* the lower maps are unchanged, except that the entry of `p` in layer `k` had its access time
  stamped (it was read for the copy-up): `ms' = ms.set (k-1) (m.insert p {e with accessed := now})`;
  in particular every lower layer holds the same entries up to access times;
* the n-layer view at `p` is that upper entry, a fresh `open_file` through the overlay reads
  exactly those bytes and `metadata` reports their length. -/
theorem append_continues_first_layerN (ds : List Str) (n : Str) (hds : ∀ c ∈ ds, GoodComp c)
    (hn : GoodComp n) (hroot : RootOk mu) (hanc : AncDirsN (mu :: ms) ds)
    (hhead : ds.head? ≠ some woDir)
    (hup : mu.find? (renderC (ds ++ [n])) = none)
    (hmk : mu.contains (marker (renderC (ds ++ [n]))) = false)
    (k : Nat) (m : FMap) (hfirst : FirstAt (mu :: ms) (renderC (ds ++ [n])) k m)
    (e : Entry) (he : m.find? (renderC (ds ++ [n])) = some e) (hfile : e.ftype = .file)
    (oid : Nat) (acts : List Act) :
    let p := renderC (ds ++ [n])
    let P : VPath := { fs := Overlay.fs (layersN (u :: is) (idu :: ids)), fsId := oid, path := p }
    let new := (specRun e.content e.content.length acts).1
    ∃ w' mu' e',
      1 ≤ k ∧
      (Session.append acts).run P w = (.ok (), w') ∧
      OWN w' (u :: is) (idu :: ids)
        (mu' :: ms.set (k - 1) (m.insert p { e with accessed := .now })) ∧
      Holds mu' p (some new) ∧
      (∀ (j' : Nat) (mj' : FMap),
        (ms.set (k - 1) (m.insert p { e with accessed := .now }))[j']? = some mj' →
        ∃ mj : FMap, ms[j']? = some mj ∧ ∀ q, (mj'.find? q).map stripAcc = (mj.find? q).map stripAcc) ∧
      viewN (mu' :: ms.set (k - 1) (m.insert p { e with accessed := .now })) p = some e' ∧
      e'.ftype = .file ∧ e'.content = new ∧
      (∃ w2, P.openFile w' = (.ok { content := new, pos := 0 }, w2)) ∧
      (∃ md, P.metadata w' = (.ok md, w') ∧ md.len = new.length ∧ md.ftype = .file) := by
  intro p P new
  have hcs := good_snoc hds hn
  have hne : ds ++ [n] ≠ [] := by simp
  -- `k ≥ 1`: the upper map does not have `p`
  obtain ⟨j, rfl⟩ : ∃ j, k = j + 1 := by
    cases k with
    | zero =>
      have hg := hfirst.get
      simp at hg; subst hg
      rw [hup] at he; cases he
    | succ j => exact ⟨j, rfl⟩
  have hm : ms[j]? = some m := by simpa using hfirst.get
  have hbefore : ∀ j' mj, j' < j → ms[j']? = some mj → mj.find? p = none :=
    fun j' mj hj' hget => hfirst.before (j' + 1) mj (by omega) (by simpa using hget)
  -- `ensure_has_parent`
  have hE : pEnsureN (mu :: ms) (ds ++ [n]).dropLast = (.ok (), fillDirs mu (chain [] ds)) := by
    rw [List.dropLast_concat]; exact pEnsureN_ok hroot hds hanc
  have hp0 := find?_snoc_fillDirs (mu := mu) hds hn [] (Or.inl rfl)
  simp only [List.append_nil] at hp0
  have hm1 : (fillDirs mu (chain [] ds)).contains (marker p) = false := by
    rw [contains_marker_fillDirs hds hhead _ (C09.renderC_head _ hne)]; exact hmk
  obtain ⟨w1, hrun, hw1⟩ := run_oappendFile_copyUpN h (ds ++ [n]) hne hcs _ hE hup hm1
    (by rw [hp0]; exact hup)
    (parentOk_fillDirs_gen hroot.root hds hn (chain_dirs_of_ancN hanc)) j m hm hbefore e he hfile
  -- the copy-up left a file at the key; the session runs on it
  obtain ⟨e1, he1, hft1, _⟩ := find?_memPublish_self
    ((fillDirs mu (chain [] ds)).insert p fileEntryNow) p e.content fileEntryNow
    (FMap.find?_insert_self _ _ _) rfl
  obtain ⟨mu', hsess, ⟨e', he', hf', hc', _, _⟩, hfr⟩ :=
    runActs_mem (i := u) (p := p) hw1.hu e1 he1 hft1 e.content e.content.length acts
  have hw' := hw1.setHead mu'
  have hmark : mu'.contains (marker p) = false := by
    unfold FMap.contains
    rw [hfr _ (marker_ne_self p), find?_memPublish_ne _ _ _ _ (marker_ne_self p),
      FMap.find?_insert_ne _ _ _ _ (marker_ne_self p)]
    exact hm1
  have hv : viewN (mu' :: ms.set j (m.insert p { e with accessed := .now })) p = some e' :=
    viewN_upper hmark he'
  obtain ⟨k2, i2, m2, w2, _, _, _, hopen, _, _⟩ :=
    C09.openFile_serves_viewN hw' (ds ++ [n]) hne hcs e' hv hf'
  have hmeta := C09.metadata_is_viewN hw' (ds ++ [n]) hne hcs
  rw [show viewN (mu' :: ms.set j (m.insert p { e with accessed := .now })) (renderC (ds ++ [n]))
    = some e' from hv] at hmeta
  refine ⟨_, mu', e', by omega, ?_, hw', ⟨e', he', hf', hc'⟩,
    set_same_up_to_access ms j m _ hm (insert_touch_same m p e he), hv, hf', hc', ⟨w2, ?_⟩,
    ⟨e'.meta, ?_, by show e'.content.length = _; rw [hc'], hf'⟩⟩
  · rw [Session.run_append]
    show M.bind (M.withPath p (Overlay.appendFile (layersN (u :: is) (idu :: ids)) p)) _ w = _
    have hrun' : Overlay.appendFile (layersN (u :: is) (idu :: ids)) p w =
        (.ok (memH u p e.content e.content.length), w1) := hrun
    simp only [M.bind, M.withPath, hrun', Res.withPath]
    exact hsess
  · show M.withPath p ((Overlay.fs (layersN (u :: is) (idu :: ids))).openFile p) _ = _
    unfold M.withPath
    rw [hopen, hc']
    rfl
  · show M.withPath p ((Overlay.fs (layersN (u :: is) (idu :: ids))).metadata p) _ = _
    unfold M.withPath
    rw [hmeta]
    rfl

/-! ### once the file is in the upper layer: every further append session stays there -/

/-- an append session through the overlay on a path that the UPPER map holds as a file: it is
the append session on the upper leaf — the bytes continue the upper bytes, the upper map changes
only at `p`, no lower map changes at all -/
theorem append_upperN (cs : List Str) (hne : cs ≠ []) (hcs : ∀ c ∈ cs, GoodComp c)
    (old : Bytes) (hup : Holds mu (renderC cs) (some old)) (oid : Nat) (acts : List Act) :
    let p := renderC cs
    let P : VPath := { fs := Overlay.fs (layersN (u :: is) (idu :: ids)), fsId := oid, path := p }
    ∃ mu', (Session.append acts).run P w = (.ok (), w.setLeafFiles u mu') ∧
      OWN (w.setLeafFiles u mu') (u :: is) (idu :: ids) (mu' :: ms) ∧
      Holds mu' p (some (specRun old old.length acts).1) ∧
      (∀ k, k ≠ p → mu'.find? k = mu.find? k) := by
  intro p P
  obtain ⟨e, he, hf, hc⟩ := hup
  have hX : Overlay.appendFile (layersN (u :: is) (idu :: ids)) p w =
      (.ok (memH u p old old.length), w) := by
    have happ : Mem.appendFile mu (renderC cs) = .ok old := by
      rw [mem_append_handle mu _ e he hf, hc]
    show Overlay.appendFile (layersN (u :: is) (idu :: ids)) (renderC cs) w = _
    unfold Overlay.appendFile copyUp
    simp [bind, M.bind, M.ret, writePath_layersN cs hne hcs, run_vexists h.hu,
      contains_of_find he, VPath.appendFile, M.withPath, run_appendFile h.hu, Pure.pure, M.pure,
      happ, Res.map, Res.withPath]
    rfl
  obtain ⟨mu', hsess, ⟨e', he', hf', hc', _, _⟩, hfr⟩ :=
    runActs_mem (i := u) (p := p) h.hu e he hf old old.length acts
  refine ⟨mu', ?_, h.setHead mu', ⟨e', he', hf', hc'⟩, hfr⟩
  rw [Session.run_append]
  show M.bind (M.withPath p (Overlay.appendFile (layersN (u :: is) (idu :: ids)) p)) _ w = _
  simp only [M.bind, M.withPath, hX, Res.withPath]
  exact hsess

/-- any list of append sessions through the overlay on a file of the upper map -/
theorem append_sessions_upperN (cs : List Str) (hne : cs ≠ []) (hcs : ∀ c ∈ cs, GoodComp c)
    (old : Bytes) (hup : Holds mu (renderC cs) (some old)) (oid : Nat) (scripts : List (List Act)) :
    let p := renderC cs
    let P : VPath := { fs := Overlay.fs (layersN (u :: is) (idu :: ids)), fsId := oid, path := p }
    ∃ mu', runSessions P (scripts.map Session.append) w = w.setLeafFiles u mu' ∧
      OWN (w.setLeafFiles u mu') (u :: is) (idu :: ids) (mu' :: ms) ∧
      Holds mu' p (specSessions (some old) (scripts.map Session.append)) ∧
      (∀ k, k ≠ p → mu'.find? k = mu.find? k) := by
  intro p P
  induction scripts generalizing w mu old with
  | nil =>
    refine ⟨mu, ?_, ?_, hup, fun _ _ => rfl⟩
    · exact h.hu.same.symm
    · rw [h.hu.same]; exact h
  | cons a rest ih =>
    obtain ⟨mu1, hrun1, hown1, hh1, hfr1⟩ := append_upperN h cs hne hcs old hup oid a
    obtain ⟨mu', hrun', hown', hh', hfr'⟩ := ih hown1 _ hh1
    rw [World.setLeafFiles_twice] at hrun' hown'
    refine ⟨mu', ?_, hown', hh', fun k hk => by rw [hfr' k hk, hfr1 k hk]⟩
    simp only [List.map_cons, runSessions]
    rw [show (Session.append a).run P w = _ from hrun1]
    exact hrun'

/-- **the copy-up session followed by any further append sessions**: under the hypotheses of
`append_continues_first_layerN`, the list of append sessions `acts :: scripts` through the
overlay ends with the upper map holding exactly what the specification gives for that list
started from the FIRST layer's bytes; the lower maps are as after the first session (layer `k`
access-stamped at `p`, everything else untouched). -/
theorem append_sessions_first_layerN (ds : List Str) (n : Str) (hds : ∀ c ∈ ds, GoodComp c)
    (hn : GoodComp n) (hroot : RootOk mu) (hanc : AncDirsN (mu :: ms) ds)
    (hhead : ds.head? ≠ some woDir)
    (hup : mu.find? (renderC (ds ++ [n])) = none)
    (hmk : mu.contains (marker (renderC (ds ++ [n]))) = false)
    (k : Nat) (m : FMap) (hfirst : FirstAt (mu :: ms) (renderC (ds ++ [n])) k m)
    (e : Entry) (he : m.find? (renderC (ds ++ [n])) = some e) (hfile : e.ftype = .file)
    (oid : Nat) (acts : List Act) (scripts : List (List Act)) :
    let p := renderC (ds ++ [n])
    let P : VPath := { fs := Overlay.fs (layersN (u :: is) (idu :: ids)), fsId := oid, path := p }
    let ss := (acts :: scripts).map Session.append
    ∃ mu',
      OWN (runSessions P ss w) (u :: is) (idu :: ids)
        (mu' :: ms.set (k - 1) (m.insert p { e with accessed := .now })) ∧
      Holds mu' p (specSessions (some e.content) ss) := by
  intro p P ss
  obtain ⟨w1, mu1, e1, _, hrun1, hown1, hh1, _⟩ :=
    append_continues_first_layerN h ds n hds hn hroot hanc hhead hup hmk k m hfirst e he hfile oid acts
  obtain ⟨mu', hrun', hown', hh', _⟩ :=
    append_sessions_upperN hown1 (ds ++ [n]) (by simp) (good_snoc hds hn) _ hh1 oid scripts
  refine ⟨mu', ?_, hh'⟩
  show OWN (runSessions P (Session.append acts :: scripts.map Session.append) w) _ _ _
  simp only [runSessions]
  rw [show (Session.append acts).run P w = _ from hrun1]
  rw [show runSessions P (scripts.map Session.append) w1 = _ from hrun']
  exact hown'

end settingN

/-! ### non-vacuity: the 3-layer world of Props/C09N.lean (leaves in the order 2, 0, 1)

upper (leaf 2): "/d", "/d/a", the marker of "/d/h";
layer 1 (leaf 0): "/d/x" = "1" (byte 49);   layer 2 (leaf 1): "/d/x" = "2" (byte 50).
An append session on "/d/x" through the overlay must continue the "1" of layer 1. -/

section examples
open Vfs.C09 (w3 ofs3 m3u m3a m3b w3_setting fileOf)

/-- append one byte, seek to the start and overwrite the first byte, flush, seek two past the
end, write one byte (zero-fill) -/
def exActs : List Act :=
  [.write [65], .seek (.start 0), .write [66], .flush, .seek (.fromEnd 2), .write [67]]

def exP3 : VPath := { fs := ofs3, fsId := 42, path := "/d/x".toList }

/-- the specification: started from layer 1's byte -/
example : (specRun [49] 1 exActs).1 = [66, 65, 0, 0, 67] := by decide

/-- the model: the session succeeds, the overlay then serves exactly those bytes, `metadata`
reports 5 -/
example : ((Session.append exActs).run exP3 w3).1 = .ok () := by decide +kernel
example : (exP3.openFile ((Session.append exActs).run exP3 w3).2).1
    = .ok { content := [66, 65, 0, 0, 67], pos := 0 } := by decide +kernel
example : ((exP3.metadata ((Session.append exActs).run exP3 w3).2).1.map fun md => md.len)
    = .ok 5 := by decide +kernel
/-- the bytes sit in the upper leaf (leaf 2); layer 1 (leaf 0) still holds "1" at "/d/x" (only its
access time was stamped); layer 2 (leaf 1) is untouched and still holds "2" -/
example : ((((Session.append exActs).run exP3 w3).2.leaf? 2).bind fun l =>
      (l.files.find? "/d/x".toList).map (·.content)) = some [66, 65, 0, 0, 67] := by decide +kernel
example : ((((Session.append exActs).run exP3 w3).2.leaf? 0).bind fun l =>
      (l.files.find? "/d/x".toList).map stripAcc) = some (stripAcc (fileOf [49])) := by decide +kernel
example : ((Session.append exActs).run exP3 w3).2.leaf? 1 = some { kind := .mem, files := m3b } := by
  decide +kernel
/-- a second append session continues the upper copy -/
example : (exP3.openFile (runSessions exP3 [.append exActs, .append [.write [68]]] w3)).1
    = .ok { content := [66, 65, 0, 0, 67, 68], pos := 0 } := by decide +kernel

/-- the hypotheses of `append_continues_first_layerN` hold in that world, so the theorem applies:
layer 1 is the first holder of "/d/x", layer 2 holds other bytes for it -/
theorem ex_first : FirstAt [m3u, m3a, m3b] (renderC (["d".toList] ++ ["x".toList])) 1 m3a := by
  refine ⟨rfl, by decide, ?_⟩
  intro j mj hj hget
  have : j = 0 := by omega
  subst this
  simp only [List.getElem?_cons_zero, Option.some.injEq] at hget
  subst hget
  decide

example : (m3b.find? (renderC (["d".toList] ++ ["x".toList]))).map (·.content) = some [50] := by decide

example : ∃ (w' : World) (mu' : FMap),
    (Session.append exActs).run
      { fs := Overlay.fs (layersN [2, 0, 1] [7, 8, 9]), fsId := 42,
        path := renderC (["d".toList] ++ ["x".toList]) } w3 = (.ok (), w') ∧
    OWN w' [2, 0, 1] [7, 8, 9]
      (mu' :: [m3a, m3b].set (1 - 1) (m3a.insert (renderC (["d".toList] ++ ["x".toList]))
        { fileOf [49] with accessed := .now })) ∧
    Holds mu' (renderC (["d".toList] ++ ["x".toList])) (some (specRun [49] 1 exActs).1) ∧ True := by
  obtain ⟨w', mu', e', h1, h2, h3, h4, _⟩ :=
    append_continues_first_layerN w3_setting ["d".toList] "x".toList (by decide) (by decide)
      ⟨⟨dirEntryNow, by decide, rfl⟩, by decide⟩
      (by
        intro j h1 h2
        have : j = 1 := by simp at h2; omega
        subst this
        exact ⟨dirEntryNow, by decide, rfl⟩)
      (by decide) (by decide) (by decide) 1 m3a ex_first (fileOf [49]) (by decide) rfl 42 exActs
  exact ⟨w', mu', h2, h3, h4, trivial⟩

end examples

end Vfs.C04
