/-
  C07 — "the altroot view shows exactly the subtree below P, and every operation on path q of the
  altroot has the same outcome and the same effect as on P/q of the underlying filesystem":
  the SIMULATION form, for an altroot rooted at a directory `P` of a MEMORY filesystem, and its
  transfer to the `VfsPath` layer and to overlays whose layers are such altroots (C09/C10).

  Setting (Proofs/SubtreeSim.lean): two worlds related by `RSub spec`: for `spec i = .sub P`,
  leaf `i` of the LEFT world is a memory map `m` in which `P` is a directory, leaf `i` of the RIGHT
  world is the memory map `sub P m` (the keys at or below `P`, with `P` stripped; its keys are
  canonical; the proper ancestors of `P` are directories of `m`); all other leaves, the ghost log and the fault plan are equal. Results are related
  by `RelRes PRdrop Q`: both succeed with `Q`-related values, or both fail with the SAME error
  kind (the labels are equal, or the right one is absent: the altroot labels its errors with
  `P ++ q`, the bare memory filesystem leaves them unlabelled), or both panic. Write handles are
  related by `HSub spec` (same buffer and position, keys shifted by `P`). Path strings handed
  to the two sides are EQUAL and canonical.

  PROVED (no sorry; axioms propext, Classical.choice, Quot.sound only)
    * `altroot_is_subtree_fs`      the altroot over `⟨leafFS i, P⟩` on the left is `SimFS`-related to
                                   the bare `leafFS i` on the right: all 15 trait methods (for
                                   `copy_file` in the `VfsPath`-level form, see Proofs/Sim.lean).
    * `altroot_is_subtree_vpath`   … hence every `VfsPath` of the altroot filesystem is related to
                                   the `VfsPath` with the same string of the sub-filesystem, and by
                                   the parametricity theorems of Proofs/Sim.lean EVERY operation of
                                   the `VfsPath` layer is related; spelled out:
                                   `altroot_exists/metadata/read_dir/create_dir/create_dir_all/
                                    create_file/open_file/append_file/remove_file/remove_dir/
                                    remove_dir_all/read_to_end/write_session/append_session/
                                    copy_file/move_file/copy_dir/move_dir/walk`.
    * `altroot_view_exists`, `altroot_view_metadata`, `altroot_view_readDir`
                                   "shows exactly the subtree": the observers through the altroot,
                                   on ONE world, computed from `sub P m` alone.
    * `overlay_over_subtrees`      an overlay whose layers are (roots of) altroots over directories
                                   `P_k` of memory leaves is `SimFS`-related to the overlay over the
                                   ROOTS of leaves holding `sub P_k m_k`;
      `exists_is_viewN_subtree`, `metadata_is_viewN_subtree`
                                   transferred C09 theorems: `exists` / `metadata` of such an
                                   overlay is the n-layer union view of the sub-maps.
    * `rsub_of_leaf`               the relation is inhabited for every world: replace the leaf by
                                   its sub-map.
    * non-vacuity                  a concrete world with a populated subtree "/r" next to entries
                                   outside it; `decide`-checked: `sub`, and the right-hand leaf is
                                   the sub-map of the left-hand leaf before and after `create_dir`,
                                   a write session and `remove_file` through the altroot; outside
                                   entries untouched; a 2-layer overlay over two sub-directories.

  EXCLUDED / NOT PROVED
    * `create_dir("")` and `remove_dir("")` on the altroot's own root are outside the relation:
      the altroot answers `DirExists` for `create_dir("")` where MemoryFS answers `Other`
      (`root_create_dir_differs`), and `remove_dir("")` removes `P` itself.
    * overlays whose layers are sub-directory `VfsPath`s `⟨leafFS i, P⟩` used DIRECTLY (without an
      altroot in between) are NOT here: see Props/C09Subdir.lean (Proofs/OverlayShift.lean).
    * physical leaves.
-/
import VfsModel.Proofs.SubtreeSim
import VfsModel.Props.C10N
set_option linter.unusedVariables false
set_option linter.unusedSectionVars false
namespace Vfs.C07
open Vfs

/-! ### 1. the filesystem-level theorem -/

/-- **Theorem (C07, simulation form).** -/
theorem altroot_is_subtree_fs {spec : Nat → Role} {i : Nat} {P : Str} (hi : spec i = .sub P)
    (hP : Canon P) (id : Nat) :
    SimFS (RSub spec) PRdrop (HSub spec)
      (Altroot.fs { fs := leafFS i, fsId := id, path := P }) (leafFS i) :=
  altroot_sim_leaf hi hP id

/-- the handle operations are related (the hypothesis `SimHandles` of the parametricity
theorems holds for this relation) -/
theorem subtree_handles (spec : Nat → Role) : SimHandles (RSub spec) PRdrop (HSub spec) :=
  simHandles_sub spec

/-- every path of the altroot filesystem is related to the path with the same string of the
sub-filesystem -/
theorem altroot_is_subtree_vpath {spec : Nat → Role} {i : Nat} {P : Str} (hi : spec i = .sub P)
    (hP : Canon P) (id id' : Nat) {q : Str} (hq : Canon q) :
    SimVPath (RSub spec) PRdrop (HSub spec)
      { fs := Altroot.fs { fs := leafFS i, fsId := id, path := P }, fsId := id', path := q }
      { fs := leafFS i, fsId := id', path := q } :=
  ⟨altroot_is_subtree_fs hi hP id, rfl, rfl, hq⟩

/-! ### 2. every `VfsPath` operation -/

section ops
variable {spec : Nat → Role} {i : Nat} {P : Str} (hi : spec i = .sub P) (hP : Canon P)
  (id id' : Nat)
include hi hP

/-- a path of the altroot filesystem / of the sub-filesystem -/
abbrev apath (i id : Nat) (P : Str) (id' : Nat) (q : Str) : VPath :=
  { fs := Altroot.fs { fs := leafFS i, fsId := id, path := P }, fsId := id', path := q }
abbrev spath (i id' : Nat) (q : Str) : VPath := { fs := leafFS i, fsId := id', path := q }

theorem altroot_exists {q : Str} (hq : Canon q) :
    SimM (RSub spec) PRdrop (· = ·) (apath i id P id' q).exists_ (spath i id' q).exists_ :=
  VPath.sim_exists (altroot_is_subtree_vpath hi hP id id' hq)
theorem altroot_metadata {q : Str} (hq : Canon q) :
    SimM (RSub spec) PRdrop (· = ·) (apath i id P id' q).metadata (spath i id' q).metadata :=
  VPath.sim_metadata (altroot_is_subtree_vpath hi hP id id' hq)
theorem altroot_read_dir {q : Str} (hq : Canon q) :
    SimM (RSub spec) PRdrop
      (ListRel (SimVP (RSub spec) PRdrop (HSub spec) (fun _ _ => True)))
      (apath i id P id' q).readDir (spath i id' q).readDir :=
  VPath.sim_readDir (B0 := fun _ _ => True) (altroot_is_subtree_vpath hi hP id id' hq) trivial
    (fun _ _ _ _ _ => trivial)
theorem altroot_create_dir {q : Str} (hq : Canon q) (hne : q ≠ []) :
    SimM (RSub spec) PRdrop (· = ·) (apath i id P id' q).createDir (spath i id' q).createDir :=
  VPath.sim_createDir (altroot_is_subtree_vpath hi hP id id' hq) hne
theorem altroot_create_dir_all {q : Str} (hq : Canon q) :
    SimM (RSub spec) PRdrop (· = ·) (apath i id P id' q).createDirAll
      (spath i id' q).createDirAll :=
  VPath.sim_createDirAll (altroot_is_subtree_vpath hi hP id id' hq)
theorem altroot_create_file {q : Str} (hq : Canon q) :
    SimM (RSub spec) PRdrop (HSub spec) (apath i id P id' q).createFile
      (spath i id' q).createFile :=
  VPath.sim_createFile (altroot_is_subtree_vpath hi hP id id' hq)
theorem altroot_open_file {q : Str} (hq : Canon q) :
    SimM (RSub spec) PRdrop (· = ·) (apath i id P id' q).openFile (spath i id' q).openFile :=
  VPath.sim_openFile (altroot_is_subtree_vpath hi hP id id' hq)
theorem altroot_append_file {q : Str} (hq : Canon q) :
    SimM (RSub spec) PRdrop (HSub spec) (apath i id P id' q).appendFile
      (spath i id' q).appendFile :=
  VPath.sim_appendFile (altroot_is_subtree_vpath hi hP id id' hq)
theorem altroot_remove_file {q : Str} (hq : Canon q) :
    SimM (RSub spec) PRdrop (· = ·) (apath i id P id' q).removeFile (spath i id' q).removeFile :=
  VPath.sim_removeFile (altroot_is_subtree_vpath hi hP id id' hq)
theorem altroot_remove_dir {q : Str} (hq : Canon q) (hne : q ≠ []) :
    SimM (RSub spec) PRdrop (· = ·) (apath i id P id' q).removeDir (spath i id' q).removeDir :=
  VPath.sim_removeDir (altroot_is_subtree_vpath hi hP id id' hq) hne
theorem altroot_remove_dir_all (fuel : Nat) {q : Str} (hq : Canon q) (hne : q ≠ []) :
    SimM (RSub spec) PRdrop (· = ·) (VPath.removeDirAll fuel (apath i id P id' q))
      (VPath.removeDirAll fuel (spath i id' q)) :=
  VPath.sim_removeDirAll fuel (altroot_is_subtree_vpath hi hP id id' hq) hne
theorem altroot_read_to_end {q : Str} (hq : Canon q) :
    SimM (RSub spec) PRdrop (· = ·) (apath i id P id' q).readToEndChecked
      (spath i id' q).readToEndChecked :=
  VPath.sim_readToEndChecked (altroot_is_subtree_vpath hi hP id id' hq)
theorem altroot_write_session {q : Str} (hq : Canon q) (bs : Bytes) :
    SimM (RSub spec) PRdrop (· = ·)
      (do let hd ← (apath i id P id' q).createFile; hd.writeAllAndDrop bs : M Unit)
      (do let hd ← (spath i id' q).createFile; hd.writeAllAndDrop bs : M Unit) :=
  VPath.sim_writeSession (subtree_handles spec) (altroot_is_subtree_vpath hi hP id id' hq) bs
theorem altroot_append_session {q : Str} (hq : Canon q) (bs : Bytes) :
    SimM (RSub spec) PRdrop (· = ·)
      (do let hd ← (apath i id P id' q).appendFile; hd.writeAllAndDrop bs : M Unit)
      (do let hd ← (spath i id' q).appendFile; hd.writeAllAndDrop bs : M Unit) :=
  VPath.sim_appendSession (subtree_handles spec) (altroot_is_subtree_vpath hi hP id id' hq) bs
theorem altroot_copy_file {s d : Str} (hs : Canon s) (hd : Canon d) :
    SimM (RSub spec) PRdrop (· = ·) ((apath i id P id' s).copyFile (apath i id P id' d))
      ((spath i id' s).copyFile (spath i id' d)) :=
  VPath.sim_copyFile (subtree_handles spec) (altroot_is_subtree_vpath hi hP id id' hs)
    (altroot_is_subtree_vpath hi hP id id' hd) (fun _ => rfl) (fun _ => rfl)
theorem altroot_move_file {s d : Str} (hs : Canon s) (hd : Canon d) :
    SimM (RSub spec) PRdrop (· = ·) ((apath i id P id' s).moveFile (apath i id P id' d))
      ((spath i id' s).moveFile (spath i id' d)) :=
  VPath.sim_moveFile (subtree_handles spec) (altroot_is_subtree_vpath hi hP id id' hs)
    (altroot_is_subtree_vpath hi hP id id' hd)
theorem altroot_copy_dir (fuel : Nat) {s d : Str} (hs : Canon s) (hd : Canon d) (hne : d ≠ []) :
    SimM (RSub spec) PRdrop (· = ·)
      (VPath.copyDir fuel (apath i id P id' s) (apath i id P id' d))
      (VPath.copyDir fuel (spath i id' s) (spath i id' d)) :=
  VPath.sim_copyDir (subtree_handles spec) fuel (altroot_is_subtree_vpath hi hP id id' hs)
    (altroot_is_subtree_vpath hi hP id id' hd) hne (fun _ => rfl) (fun _ => rfl)
theorem altroot_move_dir (fuel : Nat) {s d : Str} (hs : Canon s) (hd : Canon d) (hns : s ≠ [])
    (hne : d ≠ []) :
    SimM (RSub spec) PRdrop (· = ·)
      (VPath.moveDir fuel (apath i id P id' s) (apath i id P id' d))
      (VPath.moveDir fuel (spath i id' s) (spath i id' d)) :=
  VPath.sim_moveDir (subtree_handles spec) fuel (altroot_is_subtree_vpath hi hP id id' hs)
    (altroot_is_subtree_vpath hi hP id id' hd) hns hne (fun _ => rfl) (fun _ => rfl)
/-- the whole walk below `q`: the same items (paths with equal strings, errors of equal kind) -/
theorem altroot_walk (fuel : Nat) {q : Str} (hq : Canon q) :
    SimM (RSub spec) PRdrop
      (ListRel (RelRes PRdrop (SimVP (RSub spec) PRdrop (HSub spec) (fun _ _ => True))))
      (do let s ← (apath i id P id' q).walkDir; VPath.walkAll fuel s)
      (do let s ← (spath i id' q).walkDir; VPath.walkAll fuel s) :=
  SimM.bind (VPath.sim_walkDir (B0 := fun _ _ => True)
      (altroot_is_subtree_vpath hi hP id id' hq) trivial (fun _ _ _ _ _ => trivial))
    fun _ _ hs => VPath.sim_walkAll childClosed_true fuel hs

end ops

/-! ### 3. the relation is inhabited; "the altroot view shows exactly the subtree below P" -/

/-- only leaf `i` is re-rooted -/
def specOne (i : Nat) (P : Str) : Nat → Role := fun j => if j = i then .sub P else .free

/-- for EVERY world whose leaf `i` is a memory map `m` with `P` and its ancestors directories and
canonical keys below `P`, replacing the leaf by its sub-map gives a related world -/
theorem rsub_of_leaf (w : World) (i : Nat) (P : Str) (m : FMap) (h : MemLeafAt w i m)
    (hinv : Inv0 (sub P m)) (hanc : AncOK P m) :
    RSub (specOne i P) w (w.setLeafFiles i (sub P m)) := by
  refine ⟨rfl, rfl, rfl, fun j => ?_⟩
  unfold specOne
  by_cases hj : j = i
  · subst hj
    rw [if_pos rfl]
    exact ⟨m, h, h.set _, hinv, hanc⟩
  · rw [if_neg hj, World.leaf?_setLeafFiles_ne _ _ _ _ (fun e => hj e.symm)]
    rfl

section view
variable {w : World} {i : Nat} {P : Str} {m : FMap} (h : MemLeafAt w i m) (hinv : Inv0 (sub P m))
  (hanc : AncOK P m) (hP : Canon P) (id : Nat)
include h hinv hP

/-- `exists` through the altroot = membership in the sub-map; the world is unchanged -/
theorem altroot_view_exists {q : Str} (hq : Canon q) :
    (Altroot.fs { fs := leafFS i, fsId := id, path := P }).exists_ q w
      = (.ok ((sub P m).contains q), w) := by
  simp only [Altroot.fs, Altroot.path_canon { fs := leafFS i, fsId := id, path := P } q hP hq]
  have := run_exists h (P ++ q)
  rw [contains_sub P m q hq.rooted]
  exact this

/-- `metadata` through the altroot = the entry of the sub-map (errors labelled `P ++ q`) -/
theorem altroot_view_metadata {q : Str} (hq : Canon q) :
    (Altroot.fs { fs := leafFS i, fsId := id, path := P }).metadata q w
      = ((Mem.metadata (sub P m) q).withPath (P ++ q), w) := by
  rw [C07.altroot_exact_metadata { fs := leafFS i, fsId := id, path := P } q hP hq]
  show VPath.metadata { fs := leafFS i, fsId := id, path := P ++ q } w = _
  unfold VPath.metadata
  simp only [M.withPath, run_metadata h, metadata_shift P m hq.rooted]

include hanc in
/-- `read_dir` through the altroot succeeds exactly when the sub-map lists, with the same names -/
theorem altroot_view_readDir {q : Str} (hq : Canon q) :
    RelRes PRdrop NamesRel
      ((Altroot.fs { fs := leafFS i, fsId := id, path := P }).readDir q w).1
      (Mem.readDir (sub P m) q) ∧
    ((Altroot.fs { fs := leafFS i, fsId := id, path := P }).readDir q w).2 = w := by
  have hr := rsub_of_leaf w i P m h hinv hanc
  have hi : specOne i P i = .sub P := by unfold specOne; rw [if_pos rfl]
  have := (altroot_is_subtree_fs hi hP id).base.readDir q hq w _ hr
  rw [run_readDir (h.set (sub P m)) q] at this
  refine ⟨this.1, ?_⟩
  rw [C07.altroot_exact_readDir_run { fs := leafFS i, fsId := id, path := P } q hP hq w]
  show (match (leafFS i).readDir (P ++ q) w with
    | (.ok names, w') => (Res.ok (names.map filenameInternal), w')
    | (.err k _, w') => (.err k (some (P ++ q)), w')
    | (.panic, w') => (.panic, w')).2 = w
  rw [run_readDir h (P ++ q)]
  cases Mem.readDir m (P ++ q) <;> rfl

end view

/-- the exclusion is necessary: on its own root the altroot answers `DirExists`, MemoryFS `Other` -/
theorem root_create_dir_differs :
    let d : Entry := { ftype := .dir, content := [], created := .now, modified := .unset, accessed := .unset }
    let w1 : World := { leaves := [{ kind := .mem, files := [("/r".toList, d), ([], d)] }] }
    let w2 : World := { leaves := [{ kind := .mem, files := sub "/r".toList [("/r".toList, d), ([], d)] }] }
    (((Altroot.fs { fs := leafFS 0, fsId := 0, path := "/r".toList }).createDir [] w1).1.kind?,
     ((leafFS 0).createDir [] w2).1.kind?) = (some .dirExists, some .other) := by
  decide

/-! ### 4. overlays whose layers are altroots over sub-directories of memory leaves (C09/C10) -/

open Vfs.Overlay Vfs.C09

/-- the layers: for each `k`, the ROOT of the altroot filesystem rooted at directory `Ps[k]` of
memory leaf `is[k]` (`idrs[k]`: the `fsId` of the underlying path, `ids[k]`: that of the layer) -/
def altLayers : List Nat → List Nat → List Nat → List Str → List VPath
  | i :: is, idr :: idrs, id :: ids, P :: Ps =>
    { fs := Altroot.fs { fs := leafFS i, fsId := idr, path := P }, fsId := id, path := [] }
      :: altLayers is idrs ids Ps
  | _, _, _, _ => []

/-- every listed leaf is re-rooted at the listed canonical directory -/
inductive SubSpec (spec : Nat → Role) : List Nat → List Nat → List Nat → List Str → Prop
  | nil : SubSpec spec [] [] [] []
  | cons {i idr id : Nat} {P : Str} {is idrs ids : List Nat} {Ps : List Str} :
      spec i = .sub P → Canon P → SubSpec spec is idrs ids Ps →
      SubSpec spec (i :: is) (idr :: idrs) (id :: ids) (P :: Ps)

theorem altLayers_rel {spec : Nat → Role} {is idrs ids : List Nat} {Ps : List Str}
    (h : SubSpec spec is idrs ids Ps) :
    ListRel (SimVPath (RSub spec) PRdrop (HSub spec)) (altLayers is idrs ids Ps) (layersN is ids) := by
  induction h with
  | nil => exact .nil
  | cons hi hP _ ih =>
    exact .cons ⟨altroot_is_subtree_fs hi hP _, rfl, rfl, C06.root_canonical⟩ ih

theorem mem_layersN_id {is ids : List Nat} {b : VPath} (h : b ∈ layersN is ids) : b.fsId ∈ ids := by
  induction is generalizing ids with
  | nil => simp [layersN] at h
  | cons i is ih =>
    cases ids with
    | nil => simp [layersN] at h
    | cons id ids =>
      simp only [layersN, List.mem_cons] at h
      rcases h with rfl | h
      · simp
      · exact List.mem_cons_of_mem _ (ih h)

theorem layersN_ok {is ids : List Nat} (hn : ids.Nodup) : LayersOK (layersN is ids) := by
  induction is generalizing ids with
  | nil => intro a ha; simp [layersN] at ha
  | cons i is ih =>
    cases ids with
    | nil => intro a ha; simp [layersN] at ha
    | cons id ids =>
      rw [List.nodup_cons] at hn
      intro a ha b hb hab
      simp only [layersN, List.mem_cons] at ha hb
      rcases ha with rfl | ha <;> rcases hb with rfl | hb
      · rfl
      · exact absurd (by have := mem_layersN_id hb; rw [← hab] at this; exact this) hn.1
      · exact absurd (by have := mem_layersN_id ha; rw [hab] at this; exact this) hn.1
      · exact ih hn.2 a ha b hb hab

theorem mem_altLayers_id {is idrs ids : List Nat} {Ps : List Str} {b : VPath}
    (h : b ∈ altLayers is idrs ids Ps) : b.fsId ∈ ids := by
  induction is generalizing idrs ids Ps with
  | nil => simp [altLayers] at h
  | cons i is ih =>
    cases idrs with
    | nil => simp [altLayers] at h
    | cons idr idrs =>
      cases ids with
      | nil => simp [altLayers] at h
      | cons id ids =>
        cases Ps with
        | nil => simp [altLayers] at h
        | cons P Ps =>
          simp only [altLayers, List.mem_cons] at h
          rcases h with rfl | h
          · simp
          · exact List.mem_cons_of_mem _ (ih h)

theorem altLayers_ok {is idrs ids : List Nat} {Ps : List Str} (hn : ids.Nodup) :
    LayersOK (altLayers is idrs ids Ps) := by
  induction is generalizing idrs ids Ps with
  | nil => intro a ha; simp [altLayers] at ha
  | cons i is ih =>
    cases idrs with
    | nil => intro a ha; simp [altLayers] at ha
    | cons idr idrs =>
      cases ids with
      | nil => intro a ha; simp [altLayers] at ha
      | cons id ids =>
        cases Ps with
        | nil => intro a ha; simp [altLayers] at ha
        | cons P Ps =>
          rw [List.nodup_cons] at hn
          intro a ha b hb hab
          simp only [altLayers, List.mem_cons] at ha hb
          rcases ha with rfl | ha <;> rcases hb with rfl | hb
          · rfl
          · exact absurd (by have := mem_altLayers_id hb; rw [← hab] at this; exact this) hn.1
          · exact absurd (by have := mem_altLayers_id ha; rw [hab] at this; exact this) hn.1
          · exact ih hn.2 a ha b hb hab

/-- **Theorem (overlays over sub-directories).** The overlay whose layers are altroots rooted at
directories `Ps[k]` of memory leaves `is[k]`, on the left world, is `SimFS`-related to the overlay
over the ROOTS of those leaves, on the right world (where they hold the sub-maps): all trait
methods, at equal canonical paths (`create_dir` / `remove_dir`: not on ""), same outcomes, related
effects. By Proofs/Sim.lean this extends to every `VfsPath` operation on the overlay. -/
theorem overlay_over_subtrees {spec : Nat → Role} {is idrs ids : List Nat} {Ps : List Str}
    (h : SubSpec spec is idrs ids Ps) (hne : is ≠ []) (hn : ids.Nodup) :
    SimFS (RSub spec) PRdrop (HSub spec) (Overlay.fs (altLayers is idrs ids Ps))
      (Overlay.fs (layersN is ids)) := by
  refine Overlay.sim_fs (altLayers_rel h) ?_ (subtree_handles spec) (altLayers_ok hn)
    (layersN_ok hn)
  cases h with
  | nil => exact absurd rfl hne
  | cons _ _ _ => simp [altLayers]

/-- the right world holds the sub-maps, as the setting `OWN` of Props/C09N.lean -/
theorem own_sub {spec : Nat → Role} {is idrs ids : List Nat} {Ps : List Str} {w1 w2 : World}
    (h : SubSpec spec is idrs ids Ps) (hr : RSub spec w1 w2) {ms : List FMap}
    (hown : OWN w1 is ids ms) : OWN w2 is ids (List.zipWith sub Ps ms) := by
  induction h generalizing ms with
  | nil => cases hown; exact .nil
  | cons hi hP _ ih =>
    cases hown with
    | @cons _ _ m0 _ _ _ hm hni hrest =>
      obtain ⟨m1, a1, a2, _⟩ := hr.leafAt hi
      have : m1 = m0 := by
        unfold MemLeafAt at a1 hm
        rw [a1] at hm
        injection hm with hm
        injection hm with _ hm
      subst this
      exact .cons a2 hni (ih hrest)

/-- **Transferred corollary (C09, `exists_is_viewN`).** Layers = altroots over the directories
`Pu :: Ps` of the pairwise distinct memory leaves `u :: is` holding `mu :: ms`. For a canonical
non-root path, `exists` of the overlay answers whether the path is in the n-layer union view of
the SUB-MAPS `sub Pu mu :: zipWith sub Ps ms` (upper shadows lower, whiteout markers of the upper
sub-map respected); the world stays related to the right world. -/
theorem exists_is_viewN_subtree {spec : Nat → Role} {u idr idu : Nat} {Pu : Str}
    {is idrs ids : List Nat} {Ps : List Str}
    (h : SubSpec spec (u :: is) (idr :: idrs) (idu :: ids) (Pu :: Ps)) (hn : (idu :: ids).Nodup)
    {w1 w2 : World} (hr : RSub spec w1 w2) {mu : FMap} {ms : List FMap}
    (hown : OWN w1 (u :: is) (idu :: ids) (mu :: ms))
    (cs : List Str) (hne : cs ≠ []) (hcs : ∀ c ∈ cs, GoodComp c) :
    ((Overlay.fs (altLayers (u :: is) (idr :: idrs) (idu :: ids) (Pu :: Ps))).exists_
        (renderC cs) w1).1
      = .ok (viewN (sub Pu mu :: List.zipWith sub Ps ms) (renderC cs)).isSome ∧
    RSub spec ((Overlay.fs (altLayers (u :: is) (idr :: idrs) (idu :: ids) (Pu :: Ps))).exists_
        (renderC cs) w1).2 w2 := by
  have hown2 : OWN w2 (u :: is) (idu :: ids) (sub Pu mu :: List.zipWith sub Ps ms) :=
    own_sub h hr hown
  have := (overlay_over_subtrees h (by simp) hn).base.exists_ (renderC cs) ⟨cs, hcs, rfl⟩ w1 w2 hr
  rw [exists_is_viewN hown2 cs hne hcs] at this
  obtain ⟨a, b⟩ := this
  rcases e : (Overlay.fs (altLayers (u :: is) (idr :: idrs) (idu :: ids) (Pu :: Ps))).exists_
      (renderC cs) w1 with ⟨r1, w1'⟩
  rw [e] at a b
  refine ⟨?_, b⟩
  cases a with
  | ok hq => exact congrArg Res.ok hq

/-- **Transferred corollary (C09, `metadata_is_viewN`).** -/
theorem metadata_is_viewN_subtree {spec : Nat → Role} {u idr idu : Nat} {Pu : Str}
    {is idrs ids : List Nat} {Ps : List Str}
    (h : SubSpec spec (u :: is) (idr :: idrs) (idu :: ids) (Pu :: Ps)) (hn : (idu :: ids).Nodup)
    {w1 w2 : World} (hr : RSub spec w1 w2) {mu : FMap} {ms : List FMap}
    (hown : OWN w1 (u :: is) (idu :: ids) (mu :: ms))
    (cs : List Str) (hne : cs ≠ []) (hcs : ∀ c ∈ cs, GoodComp c) :
    RelRes PRdrop (· = ·)
      ((Overlay.fs (altLayers (u :: is) (idr :: idrs) (idu :: ids) (Pu :: Ps))).metadata
        (renderC cs) w1).1
      (match viewN (sub Pu mu :: List.zipWith sub Ps ms) (renderC cs) with
       | some e => .ok e.meta
       | none => .err .fileNotFound none) ∧
    RSub spec ((Overlay.fs (altLayers (u :: is) (idr :: idrs) (idu :: ids) (Pu :: Ps))).metadata
        (renderC cs) w1).2 w2 := by
  have hown2 : OWN w2 (u :: is) (idu :: ids) (sub Pu mu :: List.zipWith sub Ps ms) :=
    own_sub h hr hown
  have := (overlay_over_subtrees h (by simp) hn).base.metadata (renderC cs) ⟨cs, hcs, rfl⟩ w1 w2 hr
  rw [metadata_is_viewN hown2 cs hne hcs] at this
  exact this

/-! ### 5. non-vacuity: concrete worlds, kernel-evaluated -/

def xDir : Entry :=
  { ftype := .dir, content := [], created := .now, modified := .unset, accessed := .unset }
def xFile (b : Bytes) : Entry :=
  { ftype := .file, content := b, created := .now, modified := .now, accessed := .unset }

/-- a memory map with a populated subtree "/r" (a directory "/r/d", a file "/r/a") next to
entries outside it -/
def xM : FMap :=
  [("/r/d".toList, xDir), ("/r/a".toList, xFile [104, 105]), ("/r".toList, xDir),
   ("/etc".toList, xDir), ("/etc/passwd".toList, xFile [1, 2, 3]), ([], xDir)]
def xP : Str := "/r".toList
def xW1 : World := { leaves := [{ kind := .mem, files := xM }] }
def xW2 : World := { leaves := [{ kind := .mem, files := sub xP xM }] }
def xRoot : VPath := { fs := leafFS 0, fsId := 7, path := xP }

/-- the sub-map: exactly the subtree, re-rooted -/
example : sub xP xM = [("/d".toList, xDir), ("/a".toList, xFile [104, 105]), ([], xDir)] := by decide

theorem xP_canon : Canon xP := ⟨["r".toList], by decide, by decide⟩

theorem xInv : Inv0 (sub xP xM) := by
  refine ⟨⟨xDir, by decide, rfl⟩, ?_⟩
  intro k hk
  have : k = "/d".toList ∨ k = "/a".toList ∨ k = [] := by
    have h2 : (sub xP xM).keys = ["/d".toList, "/a".toList, []] := by decide
    rw [h2] at hk
    simpa using hk
  rcases this with rfl | rfl | rfl
  · exact ⟨["d".toList], by decide, by decide⟩
  · exact ⟨["a".toList], by decide, by decide⟩
  · exact ⟨[], by simp, rfl⟩

/-- a one-component directory `/c` whose only proper ancestor, the root, is a directory -/
theorem ancOK_one (c : Str) (hc : GoodComp c) (m : FMap) (e : Entry) (he : m.find? [] = some e)
    (hd : e.ftype = .dir) : AncOK (renderC [c]) m := by
  intro ps hps hP j hj
  have : ps = [c] :=
    (C06.renderC_injective [c] ps (by simpa using hc.noSlash) (good_noSlash hps) hP).symm
  subst this
  have hj0 : j = 0 := by simp at hj; exact hj
  subst hj0
  exact ⟨e, he, hd⟩

theorem xAnc : AncOK xP xM := ancOK_one "r".toList (by decide) xM xDir (by decide) rfl

/-- the two concrete worlds are related (the hypotheses of all theorems above hold for them) -/
theorem xRel : RSub (specOne 0 xP) xW1 xW2 := rsub_of_leaf xW1 0 xP xM rfl xInv xAnc

example : specOne 0 xP 0 = .sub xP := rfl

/-- what "related" means for a pair of worlds with one leaf, as a decidable check: the right leaf
is the sub-map of the left leaf -/
def subOf (w1 w2 : World) : Bool :=
  decide (w2.leaves.map (·.files) = w1.leaves.map (fun l => sub xP l.files))

example : subOf xW1 xW2 = true := by decide

/-- `create_dir("/x")` through the altroot and on the bare sub-filesystem: both succeed, the right
leaf is again the sub-map of the left leaf, the entries outside "/r" are untouched -/
example :
    ((Altroot.fs xRoot).createDir "/x".toList xW1).1 = .ok () ∧
    ((leafFS 0).createDir "/x".toList xW2).1 = .ok () ∧
    subOf ((Altroot.fs xRoot).createDir "/x".toList xW1).2 ((leafFS 0).createDir "/x".toList xW2).2
      = true ∧
    (((Altroot.fs xRoot).createDir "/x".toList xW1).2.leaves.map
      fun l => (l.files.find? "/r/x".toList, l.files.find? "/etc/passwd".toList, l.files.find? "/x".toList))
      = [(some dirEntryNow, some (xFile [1, 2, 3]), none)] := by
  refine ⟨?_, ?_, ?_, ?_⟩ <;> decide

/-- a failing call: same error kind on both sides (`create_dir` of an existing directory), label
`P ++ q` on the altroot side, none on the bare side, nothing changes -/
example :
    ((Altroot.fs xRoot).createDir "/d".toList xW1).1 = .err .dirExists (some "/r/d".toList) ∧
    ((leafFS 0).createDir "/d".toList xW2).1 = .err .dirExists none ∧
    subOf ((Altroot.fs xRoot).createDir "/d".toList xW1).2 ((leafFS 0).createDir "/d".toList xW2).2
      = true := by
  refine ⟨?_, ?_, ?_⟩ <;> decide

/-- a write session through the `VfsPath` layer: `create_file("/a")`, `write_all`, drop -/
example :
    ((do let hd ← (apath 0 7 xP 1 "/a".toList).createFile; hd.writeAllAndDrop [9, 9, 9] : M Unit) xW1).1
      = .ok () ∧
    ((do let hd ← (spath 0 1 "/a".toList).createFile; hd.writeAllAndDrop [9, 9, 9] : M Unit) xW2).1
      = .ok () ∧
    subOf ((do let hd ← (apath 0 7 xP 1 "/a".toList).createFile; hd.writeAllAndDrop [9, 9, 9] : M Unit) xW1).2
      ((do let hd ← (spath 0 1 "/a".toList).createFile; hd.writeAllAndDrop [9, 9, 9] : M Unit) xW2).2
      = true ∧
    (((do let hd ← (apath 0 7 xP 1 "/a".toList).createFile; hd.writeAllAndDrop [9, 9, 9] : M Unit) xW1).2.leaves.map
      fun l => (l.files.find? "/r/a".toList).map (·.content)) = [some [9, 9, 9]] := by
  refine ⟨?_, ?_, ?_, ?_⟩ <;> decide

/-- `remove_file("/a")` -/
example :
    ((Altroot.fs xRoot).removeFile "/a".toList xW1).1 = .ok () ∧
    ((leafFS 0).removeFile "/a".toList xW2).1 = .ok () ∧
    subOf ((Altroot.fs xRoot).removeFile "/a".toList xW1).2 ((leafFS 0).removeFile "/a".toList xW2).2
      = true ∧
    (((Altroot.fs xRoot).removeFile "/a".toList xW1).2.leaves.map fun l => l.files.keys)
      = [["/r/d".toList, "/r".toList, "/etc".toList, "/etc/passwd".toList, []]] := by
  refine ⟨?_, ?_, ?_, ?_⟩ <;> decide

/-- the observers through the altroot, computed by the theorems of section 3 -/
example : (Altroot.fs xRoot).exists_ "/a".toList xW1 = (.ok true, xW1) := by
  rw [show xRoot = { fs := leafFS 0, fsId := 7, path := xP } from rfl,
    altroot_view_exists (w := xW1) (i := 0) (m := xM) rfl xInv xP_canon 7
      ⟨["a".toList], by decide, by decide⟩]
  rfl
/-- … "/etc" of the underlying filesystem is not visible through the altroot -/
example : ((Altroot.fs xRoot).exists_ "/etc".toList xW1).1 = .ok false := by decide
example : ((Altroot.fs xRoot).readDir [] xW1).1 = .ok ["d".toList, "a".toList] ∧
    Mem.readDir (sub xP xM) [] = .ok ["d".toList, "a".toList] := by
  constructor <;> decide

/-! a 2-layer overlay over sub-directories of two memory leaves -/

def yM0 : FMap := [("/up/f".toList, xFile [1]), ("/up".toList, xDir), ("/junk".toList, xDir), ([], xDir)]
def yM1 : FMap :=
  [("/lo/g".toList, xFile [2]), ("/lo/f".toList, xFile [3]), ("/lo".toList, xDir), ([], xDir)]
def yW1 : World := { leaves := [{ kind := .mem, files := yM0 }, { kind := .mem, files := yM1 }] }
def yW2 : World :=
  { leaves := [{ kind := .mem, files := sub "/up".toList yM0 }, { kind := .mem, files := sub "/lo".toList yM1 }] }
def ySpec : Nat → Role
  | 0 => .sub "/up".toList
  | 1 => .sub "/lo".toList
  | _ => .free

theorem yInv0 : Inv0 (sub "/up".toList yM0) := by
  refine ⟨⟨xDir, by decide, rfl⟩, ?_⟩
  intro k hk
  have h2 : (sub "/up".toList yM0).keys = ["/f".toList, []] := by decide
  rw [h2] at hk
  have : k = "/f".toList ∨ k = [] := by simpa using hk
  rcases this with rfl | rfl
  · exact ⟨["f".toList], by decide, by decide⟩
  · exact ⟨[], by simp, rfl⟩

theorem yInv1 : Inv0 (sub "/lo".toList yM1) := by
  refine ⟨⟨xDir, by decide, rfl⟩, ?_⟩
  intro k hk
  have h2 : (sub "/lo".toList yM1).keys = ["/g".toList, "/f".toList, []] := by decide
  rw [h2] at hk
  have : k = "/g".toList ∨ k = "/f".toList ∨ k = [] := by simpa using hk
  rcases this with rfl | rfl | rfl
  · exact ⟨["g".toList], by decide, by decide⟩
  · exact ⟨["f".toList], by decide, by decide⟩
  · exact ⟨[], by simp, rfl⟩

theorem yRel : RSub ySpec yW1 yW2 := by
  refine ⟨rfl, rfl, rfl, fun j => ?_⟩
  match j with
  | 0 => exact ⟨yM0, rfl, rfl, yInv0, ancOK_one "up".toList (by decide) yM0 xDir (by decide) rfl⟩
  | 1 => exact ⟨yM1, rfl, rfl, yInv1, ancOK_one "lo".toList (by decide) yM1 xDir (by decide) rfl⟩
  | n + 2 => rfl

theorem ySub : SubSpec ySpec [0, 1] [7, 8] [1, 2] ["/up".toList, "/lo".toList] :=
  .cons rfl ⟨["up".toList], by decide, by decide⟩
    (.cons rfl ⟨["lo".toList], by decide, by decide⟩ .nil)

theorem yOwn : OWN yW1 [0, 1] [1, 2] [yM0, yM1] :=
  .cons rfl (by decide) (.cons rfl (by simp) .nil)

/-- the hypotheses of `exists_is_viewN_subtree` hold; its conclusion for "/g" (lower layer only)
and "/f" (both layers); cross-checked by evaluating the overlay directly -/
example :
    ((Overlay.fs (altLayers [0, 1] [7, 8] [1, 2] ["/up".toList, "/lo".toList])).exists_
        (renderC ["g".toList]) yW1).1
      = .ok (viewN [sub "/up".toList yM0, sub "/lo".toList yM1] (renderC ["g".toList])).isSome :=
  (exists_is_viewN_subtree ySub (by decide) yRel yOwn ["g".toList] (by simp) (by decide)).1

example : (viewN [sub "/up".toList yM0, sub "/lo".toList yM1] (renderC ["g".toList])).isSome = true ∧
    (viewN [sub "/up".toList yM0, sub "/lo".toList yM1] (renderC ["f".toList])).map (·.content)
      = some [1] ∧
    (viewN [sub "/up".toList yM0, sub "/lo".toList yM1] (renderC ["junk".toList])) = none := by
  refine ⟨?_, ?_, ?_⟩ <;> decide

example : ((Overlay.fs (altLayers [0, 1] [7, 8] [1, 2] ["/up".toList, "/lo".toList])).exists_
    "/g".toList yW1).1 = .ok true := by decide

end Vfs.C07
