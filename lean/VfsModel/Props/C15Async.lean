/-
  C15 (async handles and async-only code paths; also C04/C14 for the async writer)

  WHAT IS PROVED (namespace Vfs.C15; models: VfsModel/AsyncHandle.lean, VfsModel/AsyncOps.lean)

   §1 poll by poll, the async in-memory write handle `AWHandle` against the sync `WHandle`
        `pollWrite_eq_sync`           poll_write is never Pending and is the sync write
        `pollFlush_pending_stutters`  a Pending flush changes neither struct nor world, costs one
                                      pending answer of the oracle
        `pollFlush_ready_eq_sync`     a Ready flush = the sync flush (result, world)
        `pollFlush_ready_when_free`   no pending answer left ⇒ Ready
        `pollClose_noop`, `dropA_eq_sync`, `flush_then_drop`, `dropA_frame`
   §2 whole scripts of write / flush / close / drop, any world, any schedule (stuttering simulation)
        `pollOp_sim`                  one poll of one call: stutter, or the sync call
        `driveW_prefix_of_sync`       SAFETY: after any number of polls under any oracle the outcomes
                                      and the world are those of the sync handle on a prefix of the
                                      script
        `driveW_eq_sync`              LIVENESS: ≤ k pending answers and ≥ k + |script| polls: exactly
                                      the sync outcomes and the sync final world
        `driveW_schedule_independent`
   §3 readers
        `reader_after_flush`, `reader_after_drop`  a reader opened after a completed flush / the drop
                                      sees exactly the buffer; `sync_reader_after_flush` the sync
                                      reader after the sync flush holds the same bytes
        `publish_after_removal`       nothing is published once the file is gone / a directory
        `reader_after_close_unchanged`
   §4 sessions (C04/C14 for the async writer)
        `create_session_exactA`, `append_session_exactA`, `writes_concat` (no seek ⇒ the buffer is
        the concatenation of the writes), `create_session_eq_sync`, `append_session_eq_sync`
        (create/append + script = the sync session), `create_failure_eq_sync`
   §5 AsyncMemoryFS = MemoryFS modulo timestamps
        `aleafFS_eq_leafFS`           read_dir, create_dir, create_file, append_file, metadata
                                      (type, length), exists, remove_file, remove_dir: same outcome,
                                      corresponding worlds, on the whole world
        `aleafFS_openFile`, `Mem_openFile_world_eraseTS`, `Mem_setTimes_world_eraseTS`
        `createFileH_eq_sync`, `appendFileH_eq_sync`   the writers correspond
   §6 `copyFileA_eq_copyFile` (all filesystems, all worlds), `moveFileA_eq_moveFile` (under
        `RemovalCommutes`), `mem_removal_commutes`, `moveFileA_eq_moveFile_mem`
   §7 `drain_safe`, `drain_complete`, `overlay_insert_loop` (the `while let … .next().await` loop
        under any schedule), `overlay_readDirA_eq_readDir` (all layers, all filesystems, all worlds)
   §7b `chunksA_eq_sync`, `readerA_chunks`: the async READ handle polled with arbitrary buffer sizes
        delivers chunk by chunk what the sync reader delivers, and in sum exactly the next bytes
        (`read_to_string`, the reader side of `io::copy`); hypothesis: content shorter than 2^64
   §8 `aphys_setTime_tokio`, `aphys_setTime_no_runtime`
   §9 REAL DIFFERENCES with witnesses checked by `decide`:
        `close_does_not_publish`                   memory.rs:138-145
        `async_memory_has_no_timestamps`           memory.rs:309-320, 367-372; filesystem.rs:41-51
        `async_physical_time_setters_need_tokio`   physical.rs:39-62, 137-151
      and non-vacuity examples for every group of hypotheses.

  HYPOTHESES. "Corresponding worlds" = the async world is `ws.eraseTS`, the sync world `ws` with all
  timestamps forgotten (AsyncMemoryFile has no time fields). `MemLeaf ws i`: leaf `i`, if present,
  is an in-memory leaf. `pendings o ≤ k`, `k + |script| ≤ fuel`: the lock is found taken at most `k`
  times and the executor polls often enough. `RemovalCommutes src` for `move_file`. `reader_*`: the
  destination still exists as a file. Nothing else.

  NOT PROVED / OUTSIDE THE MODEL.
   * Lifting §5 through the adapters (an async overlay/altroot over AsyncMemoryFS leaves equals the
     sync stacking modulo timestamps): the adapter code is class (i) (below), so `Overlay.fs` /
     `Altroot.fs` applied to `aleafFS` IS its model, but the theorem "adapters respect `eraseTS`" is a
     parametricity statement over all adapter code and is not proved here; in addition the record
     type `FS` fixes the writer type to the sync `WHandle`, whose drop stamps `modified := now`
     (unobservable through the async API; `amemPublish_eraseTS` is the bridge).
   * What other tasks do between a Pending poll and the next poll (that is C17's interleaving, not
     C15); the blocking `block_on(self.fs.write())` inside `Drop` (memory.rs:152) — it is modelled as
     "acquires the lock"; executors, wakers, `async_std::sync::RwLock` fairness; join errors of
     `spawn_blocking`; chunk sizes of `io::copy` / `read_to_string` (abstracted as on the sync side).
   * AsyncPhysicalFS beyond the classification and `blocking_io`.

  ------------------------------------------------------------------------------------------------
  TABLE: every function of the async port, against its sync twin.
    (i)  = line-by-line port: identical control flow modulo `async`/`.await`, `Async*` type names,
           `&*self.path` vs `&self.path`, `Arc<str>` vs `String`; the existing model of the sync
           function IS its model (for trait methods: the same function of the `FS` record).
    (ii) = structurally different: own model, named in the last column.
  Established by a mechanical diff of the two trees after deleting `.await`, `async`, `Async`, and by
  reading every remaining hunk.

  src/async_vfs/impls/memory.rs            sync twin src/impls/memory.rs
    AsyncMemoryFS::new 34-38, Default 88-92, Debug 26-30     (i)
    ensure_has_parent 43-54                (i)   verbatim (sync 41-52)                Mem.ensureHasParent
    list_dir 57-86                         (i)   verbatim (sync 55-84)                Mem.readDir
    AsyncWritableFile (struct) 94-98       (i)   same three fields (sync 92-96)       AWHandle
      — no `impl Seek` (sync 98-102): the async writer cannot seek (trait object `dyn Write`)
      poll_write 101-109                   (ii)  Cursor::poll_write, never Pending    AWHandle.pollWrite
      poll_flush 111-137                   (ii)  try_write → Pending; publishes without timestamps;
                                                 no clone-and-swap of the buffer      AWHandle.pollFlush
      poll_close 138-145                   (ii)  no sync twin; Cursor::poll_close; does not publish
                                                                                      AWHandle.pollClose
      Drop::drop 148-167                   (ii)  sync drop = flush (136-141); here: swap the buffer
                                                 out, block_on(write()), publish      AWHandle.dropA
    AsyncReadableFile 169-226 (len, poll_read, poll_seek)
                                           (ii)  other arithmetic than sync 143-194   C15.AsyncReader (Props/C15.lean §5)
    read_dir 230-237                       (i)   stream::iter instead of into_iter    AMem.readDir = Mem.readDir
    create_dir 239-261                     (ii)  entry without timestamps             AMem.createDir
    open_file 263-271                      (ii)  read lock, no access-time update     AMem.openFile
    create_file 273-293                    (ii)  entry without timestamps, writer     AMem.createFile(H)
    append_file 295-307                    (i)   `content.seek(End(0)).await` on the cursor (never
                                                 Pending); writer type differs        AMem.appendFile(H)
    metadata 309-320                       (ii)  None, None, None                     AMem.metadata
    set_creation_time / set_modification_time / set_access_time
                                           (ii)  ABSENT (sync 308-342): trait default NotSupported
                                                                                      aleafFS
    exists 322-324                         (i)                                        AMem.exists_
    remove_file 326-332                    (i)                                        AMem.removeFile = Mem.removeFile
    remove_dir 334-344                     (i)                                        AMem.removeDir = Mem.removeDir
    AsyncMemoryFsImpl::new 352-365         (ii)  root entry without timestamps        AMem.init
    ensure_file 480-485                    (i)

  src/async_vfs/impls/overlay.rs           sync twin src/impls/overlay.rs — every function (i):
    new 26-33, write_layer 35-37, read_path 39-57, write_path 59-64, whiteout_path 66-72,
    ensure_has_parent 74-88, create_dir 133-147, open_file 149-151, create_file 153-166,
    append_file 168-179, metadata 181-183, set_*_time 185-195, exists 197-213, remove_file 215-226,
    remove_dir 228-242 (`.next().await.is_some()` for `.next().is_some()`)          Overlay.*
    read_dir 93-131                        (i)/(ii) same statements in the same order; the two `for`
                                                 loops are `while let Some(p) = s.next().await`, the
                                                 result is `stream::iter(entries)`. Modelled
                                                 separately (item-by-item loops) and proved equal
                                                                                      Overlay.readDirA
  src/async_vfs/impls/altroot.rs           sync twin src/impls/altroot.rs — every function (i):
    new 24-26, path 31-39, read_dir 44-53 (`.map` on the stream), create_dir … remove_dir 55-100,
    copy_file 102-107; exists 87-92 writes `match … { Ok(p) => p.exists().await, Err(_) => Ok(false) }`
    for `.map(|p| p.exists()).unwrap_or(Ok(false))`: the same function                Altroot.*
  src/async_vfs/filesystem.rs              trait defaults 41-51, 59-69 (i) (NotSupported ×6)
  src/async_vfs/path.rs                    sync twin src/path.rs
    PathLike::get_path 38-40, eq 44-46, new 58-66, as_str 78-80, join 98-106, root 117-122,
    is_root 135-137, filename 644, extension 660, parent 678-690                       (i)  (no await)
    create_dir 160-166, create_dir_all 187-220, create_file 278-285, open_file 304-310,
    get_parent 312-330, append_file 349-355, remove_file 374-380, remove_dir 400-406,
    metadata 464-469, set_*_time 490-560, is_file 579-585, is_dir 605-611, exists 629-631   (i)
    read_dir 238-260                       (i)   + a stray `println!("{:?}", path)` per item (252):
                                                 writes to stdout, no effect on the filesystem
    remove_dir_all 427-441                 (i)   `#[async_recursion]`; `for` → `while let … .next().await`
    walk_dir 713-721                       (i)   three extra fields initialised to None
    WalkDirIterator::poll_next 1048-1110   (ii)                                       AsyncWalk.pollNext (Props/C15.lean)
    read_to_string 742-764                 (i)   `ReadExt::read_to_string` for `Read::read_to_string`
                                                 (both: read to the end in chunks)
    copy_file 784-830                      (ii)  `async_std::io::copy` flushes the writer (copy.rs:75)
                                                 before the drop publishes again       VPath.copyFileA
    move_file 849-897                      (ii)  the same; the flush precedes the removal of the
                                                 source, the drop follows it           VPath.moveFileA
    copy_dir 915-957                       (i)   the counter is returned from the async block instead
                                                 of captured; `for` → `while let`; nested copy_file
                                                 is the (ii) above
    move_dir 972-1021                      (i)   likewise
  src/async_vfs/impls/physical.rs          sync twin src/impls/physical.rs (classification only; the
                                           async-std / tokio runtime is outside the model)
    new 25-29 (`Pin<PathBuf>`), get_path 31-36                                         (i)
    blocking_io 41-62                      (ii)  no sync twin                          APhys.blockingIo
    read_dir 66-78                         (i)   `filter_map(|e| ready(e.ok()))`
    create_dir 80-97                       (i)   `match` for `map_err`, same cases
    open_file 99-101, create_file 103-105  (i)   async-std `File` (short / zero-length reads: runtime)
    append_file 107-115                    (i)   `.write(true).append(true)` for `.append(true)`
    metadata 117-135, exists 154-156, remove_file 158-161, remove_dir 163-166,
    copy_file 168-171, move_file 173-177, move_dir 179-186                             (i)
    set_modification_time 137-143, set_access_time 145-151
                                           (ii)  through blocking_io: NotSupported without a tokio
                                                 runtime                               APhys.setTime
    set_creation_time                      (i)   absent on both sides (trait default)
-/
import VfsModel.Proofs.AsyncLemmas
import VfsModel.Props.C15
import VfsModel.Props.C14
import VfsModel.Props.C04
namespace Vfs.C15
open Vfs.AsyncWalk (ask)

/-! ### 0. oracle bookkeeping -/

theorem askA_eq_ask : askA = ask := by
  funext o; cases o <;> rfl

theorem askA_pendings (o : List Bool) :
    pendings o = (if (askA o).1 then 1 else 0) + pendings (askA o).2 := by
  rw [askA_eq_ask]; exact ask_pendings o

/-! ### 1. the async write handle, poll by poll -/

/-- `poll_write` never returns `Pending`, leaves the world alone, and is the sync `write`: same
count, same buffer and cursor afterwards — in every world -/
theorem pollWrite_eq_sync (h : AWHandle) (bs : Bytes) (wa ws : World) :
    h.pollWrite bs wa = (.ready (.ok bs.length), (h.pollWrite bs wa).2.1, wa) ∧
    h.toSync.write bs ws = (.ok (bs.length, (h.pollWrite bs wa).2.1.toSync), ws) :=
  ⟨rfl, rfl⟩

theorem pollFlush_eq (h : AWHandle) (o : List Bool) (w : World) :
    h.pollFlush o w =
      if (askA o).1 then (.pending, h, w, (askA o).2)
      else (.ready (.ok ()), h, (h.dropA w).2, (askA o).2) := by
  unfold AWHandle.pollFlush AWHandle.dropA
  rcases hq : askA o with ⟨b, o'⟩
  cases b
  · cases w.leaf? h.leaf <;> rfl
  · rfl

/-- a `Pending` flush changed nothing — not the struct, not the world — and used up one pending
answer of the oracle -/
theorem pollFlush_pending_stutters (h h' : AWHandle) (o o' : List Bool) (w w' : World)
    (hp : h.pollFlush o w = (.pending, h', w', o')) :
    h' = h ∧ w' = w ∧ pendings o = pendings o' + 1 := by
  rw [pollFlush_eq] at hp
  have hc := askA_pendings o
  cases ha : (askA o).1 <;> simp [ha] at hp hc
  obtain ⟨rfl, rfl, rfl⟩ := hp
  exact ⟨rfl, rfl, by omega⟩

/-- the drop publishes what the sync drop publishes: the async world is the sync world with the
timestamps forgotten, before and after -/
theorem dropA_eq_sync (h : AWHandle) (ws : World) :
    (h.dropA ws.eraseTS).2 = (h.toSync.drop ws).2.eraseTS := by
  unfold AWHandle.dropA WHandle.drop WHandle.flush AWHandle.toSync
  simp only [World.leaf?_eraseTS]
  cases hl : ws.leaf? h.leaf with
  | none => rfl
  | some l =>
    simp only [Option.map_some, Leaf.eraseTS, World.setLeafFiles_eraseTS, amemPublish_eraseTS]

/-- the drop reports nothing and cannot fail on either side -/
theorem drop_sync_ok (h : AWHandle) (ws : World) : (h.toSync.drop ws).1 = .ok () := by
  unfold WHandle.drop WHandle.flush AWHandle.toSync
  cases ws.leaf? h.leaf <;> rfl

/-- a `Ready` flush is the sync flush: same result, the struct untouched, the world published to
exactly as the sync flush publishes (modulo the timestamps the async filesystem does not keep),
and no pending answer used -/
theorem pollFlush_ready_eq_sync (h h' : AWHandle) (o o' : List Bool) (ws wa' : World)
    (r : Res Unit) (hp : h.pollFlush o ws.eraseTS = (.ready r, h', wa', o')) :
    h' = h ∧ r = (h.toSync.flush ws).1 ∧ wa' = (h.toSync.flush ws).2.eraseTS ∧
    pendings o = pendings o' := by
  rw [pollFlush_eq] at hp
  have hc := askA_pendings o
  cases ha : (askA o).1 <;> simp [ha] at hp hc
  obtain ⟨rfl, rfl, rfl, rfl⟩ := hp
  refine ⟨rfl, (drop_sync_ok h ws).symm, dropA_eq_sync h ws, by omega⟩

/-- once the oracle has no pending answer left the flush completes -/
theorem pollFlush_ready_when_free (h : AWHandle) (o : List Bool) (w : World)
    (hfree : pendings o = 0) : (h.pollFlush o w).1 = .ready (.ok ()) := by
  rw [pollFlush_eq]
  have hc := askA_pendings o
  cases ha : (askA o).1 <;> simp [ha] at hc ⊢
  omega

/-- `poll_close` completes at once and does nothing at all: it does not publish -/
theorem pollClose_noop (h : AWHandle) (w : World) : h.pollClose w = (.ready (.ok ()), h, w) := rfl

/-- flush-then-drop publishes what drop alone publishes (the pattern of `async_std::io::copy`
followed by the end of the scope) -/
theorem flush_then_drop (h : AWHandle) (w : World) :
    (h.dropA (h.dropA w).2).2 = (h.dropA w).2 := by
  unfold AWHandle.dropA
  cases hl : w.leaf? h.leaf with
  | none => simp [hl]
  | some l =>
    simp only [World.leaf?_setLeafFiles_selfA w h.leaf _ l hl, World.setLeafFiles_twiceA,
      amemPublish_twice]

/-- other leaves are not touched by a flush or a drop -/
theorem dropA_frame (h : AWHandle) (w : World) (j : Nat) (hj : j ≠ h.leaf) :
    (h.dropA w).2.leaf? j = w.leaf? j := by
  unfold AWHandle.dropA
  cases w.leaf? h.leaf with
  | none => rfl
  | some l => exact World.leaf?_setLeafFiles_neA w h.leaf j _ hj

/-! ### 2. whole scripts: the stuttering simulation -/

/-- one poll of one call against the sync handle standing at `h.toSync` in the world `ws`:
`Pending` = nothing happened and one pending answer is gone; `Ready` = the sync call, with the
same outcome, corresponding handles, and the async world = the sync world without timestamps -/
theorem pollOp_sim (h : AWHandle) (op : WOp) (o : List Bool) (ws : World) :
    (∃ o', h.pollOp op o ws.eraseTS = (none, ws.eraseTS, o') ∧ pendings o = pendings o' + 1) ∨
    (∃ out h' o', h.pollOp op o ws.eraseTS
          = (some (out, h'), (h.toSync.syncOp op ws).2.2.eraseTS, o') ∧
        h.toSync.syncOp op ws = (out, h'.map AWHandle.toSync, (h.toSync.syncOp op ws).2.2) ∧
        pendings o = pendings o') := by
  cases op with
  | write bs => exact .inr ⟨_, _, o, rfl, rfl, rfl⟩
  | close => exact .inr ⟨_, _, o, rfl, rfl, rfl⟩
  | drop =>
    refine .inr ⟨.dropped, none, o, ?_, rfl, rfl⟩
    simp only [AWHandle.pollOp, WHandle.syncOp, dropA_eq_sync]
  | flush =>
    have hc := askA_pendings o
    simp only [AWHandle.pollOp, pollFlush_eq]
    cases ha : (askA o).1
    · refine .inr ⟨.flushed (.ok ()), some h, (askA o).2, ?_, ?_, by simp [ha] at hc; omega⟩
      · simp only [Bool.false_eq_true, ↓reduceIte, dropA_eq_sync]
        rfl
      · simp only [WHandle.syncOp]
        have := drop_sync_ok h ws
        unfold WHandle.drop at this
        rw [← this]
        rfl
    · exact .inl ⟨(askA o).2, by simp, by simp [ha] at hc; omega⟩

theorem syncRun_cons_some (h h' : WHandle) (op : WOp) (ops : List WOp) (ws ws' : World) (out : WOut)
    (hs : h.syncOp op ws = (out, some h', ws')) :
    h.syncRun (op :: ops) ws = (out :: (h'.syncRun ops ws').1, (h'.syncRun ops ws').2) := by
  simp only [WHandle.syncRun, hs]

theorem syncRun_cons_none (h : WHandle) (op : WOp) (ops : List WOp) (ws ws' : World) (out : WOut)
    (hs : h.syncOp op ws = (out, none, ws')) :
    h.syncRun (op :: ops) ws = ([out], ws') := by
  simp only [WHandle.syncRun, hs]

/-- SAFETY, for every script, every world, every schedule and every number of polls: what the
async handle has returned and published so far is exactly what the sync handle returns and
publishes on a prefix of the script (the completed calls) — nothing else is ever observable -/
theorem driveW_prefix_of_sync (fuel : Nat) (h : AWHandle) (ops : List WOp) (o : List Bool)
    (ws : World) :
    ∃ n, n ≤ ops.length ∧
      h.driveW fuel ops o ws.eraseTS
        = ((h.toSync.syncRun (ops.take n) ws).1, (h.toSync.syncRun (ops.take n) ws).2.eraseTS) := by
  induction fuel generalizing h ops o ws with
  | zero => exact ⟨0, Nat.zero_le _, by cases ops <;> rfl⟩
  | succ fuel ih =>
    cases ops with
    | nil => exact ⟨0, Nat.zero_le _, rfl⟩
    | cons op ops =>
      rcases pollOp_sim h op o ws with ⟨o', hp, _⟩ | ⟨out, h', o', hp, hs, _⟩
      · obtain ⟨n, hn, ihn⟩ := ih h (op :: ops) o' ws
        exact ⟨n, hn, by simp only [AWHandle.driveW, hp]; exact ihn⟩
      · cases h' with
        | none =>
          refine ⟨1, by simp, ?_⟩
          simp only [AWHandle.driveW, hp, List.take_succ_cons, List.take_zero]
          rw [syncRun_cons_none _ op [] ws _ out hs]
        | some h' =>
          obtain ⟨n, hn, ihn⟩ := ih h' ops o' (h.toSync.syncOp op ws).2.2
          refine ⟨n + 1, by simp [hn], ?_⟩
          simp only [AWHandle.driveW, hp, List.take_succ_cons, ihn]
          rw [syncRun_cons_some _ _ op (ops.take n) ws _ out hs]

/-- LIVENESS: if the lock is found taken at most `k` times, `k + |script|` polls complete the
script, and the outcomes and the final world are those of the sync handle -/
theorem driveW_eq_sync (k fuel : Nat) (h : AWHandle) (ops : List WOp) (o : List Bool) (ws : World)
    (hk : pendings o ≤ k) (hf : k + ops.length ≤ fuel) :
    h.driveW fuel ops o ws.eraseTS
      = ((h.toSync.syncRun ops ws).1, (h.toSync.syncRun ops ws).2.eraseTS) := by
  induction fuel generalizing k h ops o ws with
  | zero =>
    have : ops = [] := List.eq_nil_of_length_eq_zero (by omega)
    subst this; rfl
  | succ fuel ih =>
    cases ops with
    | nil => rfl
    | cons op ops =>
      simp only [List.length_cons] at hf
      rcases pollOp_sim h op o ws with ⟨o', hp, hc⟩ | ⟨out, h', o', hp, hs, hc⟩
      · simp only [AWHandle.driveW, hp]
        exact ih (k - 1) h (op :: ops) o' ws (by omega) (by simp only [List.length_cons]; omega)
      · cases h' with
        | none =>
          simp only [AWHandle.driveW, hp]
          rw [syncRun_cons_none _ op ops ws _ out hs]
        | some h' =>
          have := ih k h' ops o' (h.toSync.syncOp op ws).2.2 (by omega) (by omega)
          simp only [AWHandle.driveW, hp, this]
          rw [syncRun_cons_some _ _ op ops ws _ out hs]

/-- hence the outcomes and the final world do not depend on the schedule -/
theorem driveW_schedule_independent (k1 k2 f1 f2 : Nat) (h : AWHandle) (ops : List WOp)
    (o1 o2 : List Bool) (ws : World) (h1 : pendings o1 ≤ k1) (h2 : pendings o2 ≤ k2)
    (hf1 : k1 + ops.length ≤ f1) (hf2 : k2 + ops.length ≤ f2) :
    h.driveW f1 ops o1 ws.eraseTS = h.driveW f2 ops o2 ws.eraseTS := by
  rw [driveW_eq_sync k1 f1 h ops o1 ws h1 hf1, driveW_eq_sync k2 f2 h ops o2 ws h2 hf2]

/-! ### 3. what a reader sees: after a completed flush, after a drop, after a close -/

theorem dropA_world (h : AWHandle) (w : World) (l : Leaf) (hl : w.leaf? h.leaf = some l) :
    (h.dropA w).2 = w.setLeafFiles h.leaf (amemPublish l.files h.key h.buf) := by
  simp [AWHandle.dropA, hl]

theorem amemPublish_file (m : FMap) (k : Str) (b : Bytes) (e : Entry) (he : m.find? k = some e)
    (hf : e.ftype = .file) : amemPublish m k b = m.insert k (afileEntry b) := by
  simp [amemPublish, he, hf]

/-- the async `open_file` of the destination right after the publication of `h`'s buffer -/
theorem open_after_publish (h : AWHandle) (w : World) (l : Leaf) (e : Entry)
    (hl : w.leaf? h.leaf = some l) (he : l.files.find? h.key = some e) (hf : e.ftype = .file) :
    (aleafFS h.leaf).openFile h.key (h.dropA w).2
      = (.ok { content := h.buf, pos := 0 }, (h.dropA w).2) := by
  rw [dropA_world h w l hl, amemPublish_file _ _ _ e he hf]
  simp only [aleafFS, onLeaf, World.leaf?_setLeafFiles_selfA w h.leaf _ l hl, AMem.openFile,
    FMap.find?_insert_self, World.setLeafFiles_twiceA]
  simp [afileEntry]

/-- a reader opened after a COMPLETED flush sees exactly the bytes written so far (while the file
still exists as a file), whatever the schedule was -/
theorem reader_after_flush (h h' : AWHandle) (o o' : List Bool) (w w' : World) (r : Res Unit)
    (l : Leaf) (e : Entry) (hp : h.pollFlush o w = (.ready r, h', w', o'))
    (hl : w.leaf? h.leaf = some l) (he : l.files.find? h.key = some e) (hf : e.ftype = .file) :
    r = .ok () ∧ (aleafFS h.leaf).openFile h.key w' = (.ok { content := h.buf, pos := 0 }, w') := by
  rw [pollFlush_eq] at hp
  cases ha : (askA o).1 <;> simp [ha] at hp
  obtain ⟨rfl, rfl, rfl, rfl⟩ := hp
  exact ⟨rfl, open_after_publish h w l e hl he hf⟩

/-- … and so does a reader opened after the drop -/
theorem reader_after_drop (h : AWHandle) (w : World) (l : Leaf) (e : Entry)
    (hl : w.leaf? h.leaf = some l) (he : l.files.find? h.key = some e) (hf : e.ftype = .file) :
    (aleafFS h.leaf).openFile h.key (h.dropA w).2
      = (.ok { content := h.buf, pos := 0 }, (h.dropA w).2) :=
  open_after_publish h w l e hl he hf

/-- the sync reader opened after the sync flush holds the same bytes at the same position -/
theorem sync_reader_after_flush (h : AWHandle) (ws : World) (l : Leaf) (e : Entry)
    (hl : ws.leaf? h.leaf = some l) (hk : l.kind = .mem)
    (he : l.files.find? h.key = some e) (hf : e.ftype = .file) :
    ((leafFS h.leaf).openFile h.key (h.toSync.flush ws).2).1 = .ok { content := h.buf, pos := 0 } := by
  have hpub : memPublish l.files h.key h.buf = l.files.insert h.key
      { ftype := .file, content := h.buf, created := e.created, modified := .now,
        accessed := e.accessed } := by
    simp [memPublish, he, hf]
  simp only [WHandle.flush, AWHandle.toSync, hl, hpub, leafFS, onLeaf,
    World.leaf?_setLeafFiles_selfA ws h.leaf _ l hl, hk, Mem.openFile, Mem.setAccessed,
    FMap.find?_insert_self]
  simp

/-- a flush or a drop after the file was removed (or replaced by a directory) publishes nothing -/
theorem publish_after_removal (h : AWHandle) (w : World) (l : Leaf)
    (hl : w.leaf? h.leaf = some l)
    (hgone : ∀ e, l.files.find? h.key = some e → e.ftype ≠ .file) : (h.dropA w).2 = w := by
  rw [dropA_world h w l hl]
  have : amemPublish l.files h.key h.buf = l.files := by
    unfold amemPublish
    cases he : l.files.find? h.key with
    | none => rfl
    | some e => simp [hgone e he]
  rw [this, World.setLeafFiles_sameA w h.leaf l hl]

/-- `close` publishes nothing: a reader opened after `close().await` sees what it saw before -/
theorem reader_after_close_unchanged (h : AWHandle) (w : World) (p : Str) :
    (aleafFS h.leaf).openFile p (h.pollClose w).2.2 = (aleafFS h.leaf).openFile p w := rfl

/-! ### 4. write sessions (C04/C14 for the async handle) -/

/-- the handle `create_file` returns buffers exactly the bytes of one `write` -/
theorem create_session_exactA (leaf : Nat) (key : Str) (bs : Bytes) (w : World) :
    ((({ leaf := leaf, key := key, buf := [], pos := 0 } : AWHandle).pollWrite bs w).2.1).buf = bs :=
  C14.write_fresh bs

/-- the handle `append_file` returns starts at the end of the old bytes -/
theorem append_session_exactA (leaf : Nat) (key : Str) (old bs : Bytes) (w : World) :
    ((({ leaf := leaf, key := key, buf := old, pos := old.length } : AWHandle).pollWrite bs w).2.1).buf
      = old ++ bs :=
  C14.write_at_end old bs

/-- successive `write` calls -/
def writeAllA (h : AWHandle) (w : World) : List Bytes → AWHandle
  | [] => h
  | bs :: rest => writeAllA (h.pollWrite bs w).2.1 w rest

/-- there is no seek on the async writer, so the cursor stays at the end and the buffer is the
concatenation of everything written, in order -/
theorem writes_concat (h : AWHandle) (w : World) (bss : List Bytes) (hpos : h.pos = h.buf.length) :
    (writeAllA h w bss).buf = h.buf ++ bss.flatten ∧
    (writeAllA h w bss).pos = (writeAllA h w bss).buf.length := by
  induction bss generalizing h with
  | nil => simp [writeAllA, hpos]
  | cons bs rest ih =>
    have hb : (h.pollWrite bs w).2.1.buf = h.buf ++ bs := by
      simp only [AWHandle.pollWrite, hpos]; exact C14.write_at_end h.buf bs
    have hp : (h.pollWrite bs w).2.1.pos = (h.pollWrite bs w).2.1.buf.length := by
      rw [hb]; simp [AWHandle.pollWrite, hpos]
    obtain ⟨i1, i2⟩ := ih (h.pollWrite bs w).2.1 hp
    exact ⟨by simp only [writeAllA, i1, hb, List.flatten_cons, List.append_assoc], i2⟩

/-! ### 5. AsyncMemoryFS against MemoryFS: the same function of the map once the timestamps are
forgotten -/

theorem AMem_createDir_eraseTS (m : FMap) (p : Str) :
    AMem.createDir m.eraseTS p = ((Mem.createDir m p).1, (Mem.createDir m p).2.eraseTS) := by
  unfold AMem.createDir Mem.createDir
  rw [Mem.ensureHasParent_eraseTS, FMap.find?_eraseTS]
  cases Mem.ensureHasParent m p with
  | ok _ =>
    cases m.find? p with
    | none => simp [← FMap.insert_eraseTS]
    | some e => rfl
  | err k q => rfl
  | panic => rfl

theorem AMem_createFile_eraseTS (m : FMap) (p : Str) :
    AMem.createFile m.eraseTS p = ((Mem.createFile m p).1, (Mem.createFile m p).2.eraseTS) := by
  unfold AMem.createFile Mem.createFile
  rw [Mem.ensureHasParent_eraseTS, FMap.find?_eraseTS]
  cases Mem.ensureHasParent m p with
  | ok _ =>
    cases m.find? p with
    | none => simp [← FMap.insert_eraseTS]
    | some e =>
      by_cases hd : e.ftype = .dir
      · simp [hd]
      · simp [hd, ← FMap.insert_eraseTS]
  | err k q => rfl
  | panic => rfl

/-- `metadata`: the same type and length; the async answer has `None` where the sync one has times -/
theorem AMem_metadata_eraseTS (m : FMap) (p : Str) :
    AMem.metadata m.eraseTS p = (Mem.metadata m p).map Meta.eraseTS := by
  unfold AMem.metadata Mem.metadata
  rw [FMap.find?_eraseTS]
  cases m.find? p <;> rfl

/-- `open_file`: the same outcome and the same reader -/
theorem AMem_openFile_eraseTS (m : FMap) (p : Str) :
    AMem.openFile m.eraseTS p = (Mem.openFile m p).1 := by
  unfold AMem.openFile Mem.openFile Mem.setAccessed
  rw [FMap.find?_eraseTS]
  cases h : m.find? p with
  | none => rfl
  | some e =>
    simp only [Option.map_some, Entry.eraseTS_ftype, FMap.find?_insert_self]
    by_cases hf : e.ftype = .file <;> simp [hf]

/-- … the sync `open_file` only records an access time: as a function of the key, the map without
timestamps is unchanged (in the model the re-inserted entry moves to the front of the association
list, which stands for the unobservable HashMap order; this is why this one statement is
extensional) -/
theorem Mem_openFile_world_eraseTS (m : FMap) (p k : Str) :
    (Mem.openFile m p).2.eraseTS.find? k = m.eraseTS.find? k := by
  unfold Mem.openFile Mem.setAccessed
  cases h : m.find? p with
  | none => rfl
  | some e =>
    have key : (m.insert p { e with accessed := .now }).eraseTS.find? k = m.eraseTS.find? k := by
      rw [FMap.find?_eraseTS, FMap.find?_eraseTS, FMap.find?_insert]
      by_cases hk : k = p
      · subst hk; simp [h, Entry.eraseTS]
      · simp [hk]
    simp only [FMap.find?_insert_self]
    split <;> exact key

/-- the time setters exist only on the sync side; there they change nothing but timestamps -/
theorem Mem_setTimes_world_eraseTS (m : FMap) (p k : Str) (t : TS) :
    (Mem.setCreated m p t).2.eraseTS.find? k = m.eraseTS.find? k ∧
    (Mem.setModified m p t).2.eraseTS.find? k = m.eraseTS.find? k ∧
    (Mem.setAccessed m p t).2.eraseTS.find? k = m.eraseTS.find? k := by
  unfold Mem.setCreated Mem.setModified Mem.setAccessed
  cases h : m.find? p with
  | none => exact ⟨rfl, rfl, rfl⟩
  | some e =>
    simp only [FMap.find?_eraseTS, FMap.find?_insert]
    by_cases hk : k = p
    · subst hk; simp [h, Entry.eraseTS]
    · simp [hk]

/-- the leaves of the world that are in-memory filesystems -/
def MemLeaf (w : World) (i : Nat) : Prop := ∀ l, w.leaf? i = some l → l.kind = .mem

theorem onLeaf_eraseTS {α} (i : Nat) (f g : Leaf → Res α × FMap) (φ : Res α → Res α) (w : World)
    (hφ : φ .panic = .panic)
    (hfg : ∀ l, w.leaf? i = some l → g l.eraseTS = (φ (f l).1, (f l).2.eraseTS)) :
    onLeaf i g w.eraseTS = (φ (onLeaf i f w).1, (onLeaf i f w).2.eraseTS) := by
  unfold onLeaf
  rw [World.leaf?_eraseTS]
  cases hl : w.leaf? i with
  | none => simp [hφ]
  | some l =>
    simp only [Option.map_some, hfg l hl, World.setLeafFiles_eraseTS]

/-- AsyncMemoryFS and MemoryFS, method by method, on the whole world: started in corresponding
worlds (async = sync without timestamps) every method of the trait except `open_file` and the time
setters returns the same outcome (for `metadata`: the same type and length) and leaves
corresponding worlds; the writers returned by `create_file`/`append_file` correspond -/
theorem aleafFS_eq_leafFS (i : Nat) (ws : World) (hm : MemLeaf ws i) (p : Str) :
    (aleafFS i).readDir p ws.eraseTS
      = (((leafFS i).readDir p ws).1, ((leafFS i).readDir p ws).2.eraseTS) ∧
    (aleafFS i).createDir p ws.eraseTS
      = (((leafFS i).createDir p ws).1, ((leafFS i).createDir p ws).2.eraseTS) ∧
    (aleafFS i).createFile p ws.eraseTS
      = (((leafFS i).createFile p ws).1, ((leafFS i).createFile p ws).2.eraseTS) ∧
    (aleafFS i).appendFile p ws.eraseTS
      = (((leafFS i).appendFile p ws).1, ((leafFS i).appendFile p ws).2.eraseTS) ∧
    (aleafFS i).metadata p ws.eraseTS
      = ((((leafFS i).metadata p ws).1).map Meta.eraseTS, ((leafFS i).metadata p ws).2.eraseTS) ∧
    (aleafFS i).exists_ p ws.eraseTS
      = (((leafFS i).exists_ p ws).1, ((leafFS i).exists_ p ws).2.eraseTS) ∧
    (aleafFS i).removeFile p ws.eraseTS
      = (((leafFS i).removeFile p ws).1, ((leafFS i).removeFile p ws).2.eraseTS) ∧
    (aleafFS i).removeDir p ws.eraseTS
      = (((leafFS i).removeDir p ws).1, ((leafFS i).removeDir p ws).2.eraseTS) := by
  have key : ∀ {α} (f g : Leaf → Res α × FMap) (φ : Res α → Res α), φ .panic = .panic →
      (∀ l, l.kind = .mem → g l.eraseTS = (φ (f l).1, (f l).2.eraseTS)) →
      onLeaf i g ws.eraseTS = (φ (onLeaf i f ws).1, (onLeaf i f ws).2.eraseTS) :=
    fun f g φ hφ h => onLeaf_eraseTS i f g φ ws hφ fun l hl => h l (hm l hl)
  refine ⟨?_, ?_, ?_, ?_, ?_, ?_, ?_, ?_⟩
  · simp only [aleafFS, leafFS]
    refine key _ _ id rfl fun l hk => ?_
    simp only [hk, Leaf.eraseTS, AMem.readDir, Mem.readDir_eraseTS, id]
  · simp only [aleafFS, leafFS]
    refine key _ _ id rfl fun l hk => ?_
    simp only [hk, Leaf.eraseTS, AMem_createDir_eraseTS, id]
  · simp only [aleafFS, leafFS]
    refine key _ _ id rfl fun l hk => ?_
    simp only [hk, Leaf.eraseTS, AMem_createFile_eraseTS, id]
  · simp only [aleafFS, leafFS]
    refine key _ _ id rfl fun l hk => ?_
    simp only [hk, Leaf.eraseTS, AMem.appendFile, Mem.appendFile_eraseTS, id]
  · simp only [aleafFS, leafFS]
    refine key _ _ (Res.map Meta.eraseTS) rfl fun l hk => ?_
    simp only [hk, Leaf.eraseTS, AMem_metadata_eraseTS]
  · simp only [aleafFS, leafFS]
    refine key _ _ id rfl fun l hk => ?_
    simp only [hk, Leaf.eraseTS, AMem.exists_, FMap.contains_eraseTS, id]
  · simp only [aleafFS, leafFS]
    refine key _ _ id rfl fun l hk => ?_
    simp only [hk, Leaf.eraseTS, AMem.removeFile, Mem.removeFile_eraseTS, id]
  · simp only [aleafFS, leafFS]
    refine key _ _ id rfl fun l hk => ?_
    simp only [hk, Leaf.eraseTS, AMem.removeDir, Mem.removeDir_eraseTS, id]

/-- `open_file` on the whole world: the same outcome and the same reader; the async world is
untouched -/
theorem aleafFS_openFile (i : Nat) (ws : World) (hm : MemLeaf ws i) (p : Str) :
    ((aleafFS i).openFile p ws.eraseTS).1 = ((leafFS i).openFile p ws).1 ∧
    ((aleafFS i).openFile p ws.eraseTS).2 = ws.eraseTS := by
  simp only [aleafFS, leafFS, onLeaf, World.leaf?_eraseTS]
  cases hl : ws.leaf? i with
  | none => simp
  | some l =>
    simp only [Option.map_some, hm l hl, Leaf.eraseTS, AMem_openFile_eraseTS]
    refine ⟨by first | rfl | trivial, ?_⟩
    have : ws.eraseTS.leaf? i = some l.eraseTS := by rw [World.leaf?_eraseTS, hl]; rfl
    exact World.setLeafFiles_sameA ws.eraseTS i l.eraseTS this

/-- the writers: `AMem.createFileH` / `appendFileH` return the `AWHandle` whose `toSync` is the
sync writer -/
theorem createFileH_eq_sync (i : Nat) (ws : World) (hm : MemLeaf ws i) (p : Str) :
    ((AMem.createFileH i p ws.eraseTS).1.map AWHandle.toSync,
      (AMem.createFileH i p ws.eraseTS).2)
      = (((leafFS i).createFile p ws).1, ((leafFS i).createFile p ws).2.eraseTS) := by
  simp only [AMem.createFileH, leafFS, onLeaf, World.leaf?_eraseTS]
  cases hl : ws.leaf? i with
  | none => rfl
  | some l =>
    simp only [Option.map_some, hm l hl, Leaf.eraseTS, AMem_createFile_eraseTS,
      World.setLeafFiles_eraseTS]
    cases (Mem.createFile l.files p).1 <;> rfl

theorem appendFileH_eq_sync (i : Nat) (ws : World) (hm : MemLeaf ws i) (p : Str) :
    ((AMem.appendFileH i p ws.eraseTS).1.map AWHandle.toSync,
      (AMem.appendFileH i p ws.eraseTS).2)
      = (((leafFS i).appendFile p ws).1, ((leafFS i).appendFile p ws).2.eraseTS) := by
  simp only [AMem.appendFileH, leafFS, onLeaf, World.leaf?_eraseTS]
  cases hl : ws.leaf? i with
  | none => rfl
  | some l =>
    simp only [Option.map_some, hm l hl, Leaf.eraseTS, AMem.appendFile, Mem.appendFile_eraseTS,
      World.setLeafFiles_eraseTS]
    have : ws.eraseTS.leaf? i = some l.eraseTS := by rw [World.leaf?_eraseTS, hl]; rfl
    have h2 := World.setLeafFiles_sameA ws.eraseTS i l.eraseTS this
    simp only [Leaf.eraseTS] at h2
    rw [h2]
    cases Mem.appendFile l.files p <;> rfl

/-- a whole write session, from `create_file` to the end of the script: the async session in the
world without timestamps is the sync session — same writer, same outcomes, corresponding worlds —
under every fair schedule -/
theorem create_session_eq_sync (i : Nat) (ws : World) (hm : MemLeaf ws i) (p : Str)
    (ops : List WOp) (o : List Bool) (k fuel : Nat) (hk : pendings o ≤ k)
    (hf : k + ops.length ≤ fuel) (h : AWHandle) (wa : World)
    (hc : AMem.createFileH i p ws.eraseTS = (.ok h, wa)) :
    ∃ ws', (leafFS i).createFile p ws = (.ok h.toSync, ws') ∧ wa = ws'.eraseTS ∧
      h.driveW fuel ops o wa
        = ((h.toSync.syncRun ops ws').1, (h.toSync.syncRun ops ws').2.eraseTS) := by
  have e := createFileH_eq_sync i ws hm p
  rw [hc] at e
  simp only [Res.map, Prod.mk.injEq] at e
  obtain ⟨e1, e2⟩ := e
  refine ⟨((leafFS i).createFile p ws).2, ?_, e2, ?_⟩
  · rw [e1]
  · rw [e2]; exact driveW_eq_sync k fuel h ops o _ hk hf

/-- the same for `append_file` -/
theorem append_session_eq_sync (i : Nat) (ws : World) (hm : MemLeaf ws i) (p : Str)
    (ops : List WOp) (o : List Bool) (k fuel : Nat) (hk : pendings o ≤ k)
    (hf : k + ops.length ≤ fuel) (h : AWHandle) (wa : World)
    (hc : AMem.appendFileH i p ws.eraseTS = (.ok h, wa)) :
    ∃ ws', (leafFS i).appendFile p ws = (.ok h.toSync, ws') ∧ wa = ws'.eraseTS ∧
      h.driveW fuel ops o wa
        = ((h.toSync.syncRun ops ws').1, (h.toSync.syncRun ops ws').2.eraseTS) := by
  have e := appendFileH_eq_sync i ws hm p
  rw [hc] at e
  simp only [Res.map, Prod.mk.injEq] at e
  obtain ⟨e1, e2⟩ := e
  refine ⟨((leafFS i).appendFile p ws).2, ?_, e2, ?_⟩
  · rw [e1]
  · rw [e2]; exact driveW_eq_sync k fuel h ops o _ hk hf

/-- failures of `create_file` / `append_file` are the same failures -/
theorem create_failure_eq_sync (i : Nat) (ws : World) (hm : MemLeaf ws i) (p : Str) :
    (AMem.createFileH i p ws.eraseTS).1.isOk = ((leafFS i).createFile p ws).1.isOk ∧
    (AMem.createFileH i p ws.eraseTS).1.kind? = ((leafFS i).createFile p ws).1.kind? ∧
    (AMem.appendFileH i p ws.eraseTS).1.isOk = ((leafFS i).appendFile p ws).1.isOk ∧
    (AMem.appendFileH i p ws.eraseTS).1.kind? = ((leafFS i).appendFile p ws).1.kind? := by
  have e1 := congrArg Prod.fst (createFileH_eq_sync i ws hm p)
  have e2 := congrArg Prod.fst (appendFileH_eq_sync i ws hm p)
  simp only at e1 e2
  rw [← e1, ← e2]
  refine ⟨?_, ?_, ?_, ?_⟩
  · cases (AMem.createFileH i p ws.eraseTS).1 <;> rfl
  · cases (AMem.createFileH i p ws.eraseTS).1 <;> rfl
  · cases (AMem.appendFileH i p ws.eraseTS).1 <;> rfl
  · cases (AMem.appendFileH i p ws.eraseTS).1 <;> rfl

/-! ### 6. `copy_file` / `move_file`: the extra flush of `async_std::io::copy` -/

theorem WHandle_flush_ok (h : WHandle) (w : World) : (h.flush w).1 = .ok () := by
  unfold WHandle.flush
  cases h.kind
  · cases w.leaf? h.leaf <;> rfl
  · rfl
  · rfl

/-- a drop right after a flush publishes nothing new: on every kind of writer, in every world -/
theorem WHandle_drop_after_flush (h : WHandle) (w : World) : h.drop (h.flush w).2 = h.drop w := by
  unfold WHandle.drop WHandle.flush
  cases hk : h.kind
  · cases hl : w.leaf? h.leaf with
    | none => simp [hl]
    | some l =>
      simp only [World.leaf?_setLeafFiles_selfA w h.leaf _ l hl, World.setLeafFiles_twiceA,
        memPublish_idem]
  · rfl
  · rfl

theorem WHandle_flush_then_drop (h : WHandle) :
    (do h.flush; h.drop : M Unit) = h.drop := by
  funext w
  show M.bind h.flush (fun _ => h.drop) w = h.drop w
  unfold M.bind
  have h1 := WHandle_flush_ok h w
  have h2 := WHandle_drop_after_flush h w
  revert h1 h2
  generalize h.flush w = r
  obtain ⟨r1, w1⟩ := r
  intro h1 h2
  simp only at h1
  subst h1
  exact h2

/-- `async_std::io::copy` + drop is `std::io::copy` + drop: same outcome, same world -/
theorem ioCopyFlushDrop_eq : @VPath.ioCopyFlushDrop = @VPath.ioCopyAndDrop := by
  funext src dst selfPath
  unfold VPath.ioCopyFlushDrop VPath.ioCopyAndDrop
  simp only [WHandle_flush_then_drop]

/-- the async `copy_file` is the sync `copy_file`: for every pair of paths over any filesystems and
every world, the same outcome and the same world -/
theorem copyFileA_eq_copyFile : @VPath.copyFileA = @VPath.copyFile := by
  funext src dst
  unfold VPath.copyFileA VPath.copyFile
  simp only [ioCopyFlushDrop_eq]
  rfl

/-- the removal of the source does not depend on, and does not disturb, what a writer publishes:
removing after the publication = publishing after the removal -/
def RemovalCommutes (src : VPath) : Prop :=
  ∀ (h : WHandle) (w : World),
    src.removeFile (h.flush w).2 = ((src.removeFile w).1, (h.flush (src.removeFile w).2).2)

theorem move_tail_eq (src : VPath) (hc : RemovalCommutes src) (h' : WHandle) :
    (do h'.flush
        let res ← M.attempt src.removeFile
        h'.drop
        M.ret res : M Unit)
    = (do let res ← M.attempt src.removeFile
          h'.drop
          M.ret res : M Unit) := by
  funext w
  show M.bind h'.flush (fun _ => M.bind (M.attempt src.removeFile)
        (fun res => M.bind h'.drop (fun _ => M.ret res))) w
      = M.bind (M.attempt src.removeFile) (fun res => M.bind h'.drop (fun _ => M.ret res)) w
  have h1 := WHandle_flush_ok h' w
  have h2 := hc h' w
  have h3 := WHandle_drop_after_flush h' (src.removeFile w).2
  simp only [M.bind, M.attempt]
  revert h1 h2
  generalize h'.flush w = r
  obtain ⟨r1, w1⟩ := r
  intro h1 h2
  simp only at h1 h2
  subst h1
  simp only [h2, h3]

/-- the async `move_file` is the sync `move_file` whenever removing the source commutes with the
publication of the destination (true for the in-memory backend: `mem_removal_commutes`) -/
theorem moveFileA_eq_moveFile (src dst : VPath) (hc : RemovalCommutes src) :
    VPath.moveFileA src dst = VPath.moveFile src dst := by
  unfold VPath.moveFileA VPath.moveFile
  simp only [move_tail_eq src hc]
  rfl

theorem FMap_erase_comm (m : FMap) (a b : Str) : (m.erase a).erase b = (m.erase b).erase a := by
  induction m with
  | nil => rfl
  | cons kv rest ih =>
    obtain ⟨k, v⟩ := kv
    by_cases ha : k = a
    · subst ha
      by_cases hb : k = b
      · subst hb; rfl
      · simp [FMap.erase_cons, hb, ih]
    · by_cases hb : k = b
      · subst hb; simp [FMap.erase_cons, ha, ih]
      · simp [FMap.erase_cons, ha, hb, ih]

theorem FMap_erase_insert_self (m : FMap) (k : Str) (v : Entry) :
    (m.insert k v).erase k = m.erase k := by
  simp [FMap.insert, FMap.erase_cons, FMap.erase_erase_self]

theorem FMap_erase_insert_ne (m : FMap) (k p : Str) (v : Entry) (h : k ≠ p) :
    (m.insert k v).erase p = (m.erase p).insert k v := by
  simp [FMap.insert, FMap.erase_cons, h, FMap_erase_comm]

/-- on the map: removing `p` after publishing under `key` = publishing after removing -/
theorem removeFile_publish_comm (m : FMap) (key p : Str) (buf : Bytes) :
    Mem.removeFile (memPublish m key buf) p
      = ((Mem.removeFile m p).1, memPublish (Mem.removeFile m p).2 key buf) := by
  by_cases hkp : key = p
  · subst hkp
    unfold Mem.removeFile memPublish
    cases he : m.find? key with
    | none => simp [he]
    | some e =>
      by_cases hf : e.ftype = .file
      · simp [hf, FMap_erase_insert_self]
      · simp [hf, he]
  · have hpk : p ≠ key := fun e => hkp e.symm
    unfold Mem.removeFile memPublish
    cases he : m.find? key with
    | none =>
      cases hp : m.find? p with
      | none => simp [he]
      | some ep =>
        by_cases hpf : ep.ftype = .file
        · simp [hpf, FMap.find?_erase_ne m p key hkp, he]
        · simp [hpf, he]
    | some e =>
      by_cases hf : e.ftype = .file
      · simp only [hf, ↓reduceIte, FMap.find?_insert_ne m key p _ hpk]
        cases hp : m.find? p with
        | none => simp [he, hf]
        | some ep =>
          by_cases hpf : ep.ftype = .file
          · simp [hpf, FMap.find?_erase_ne m p key hkp, he, hf, FMap_erase_insert_ne m key p _ hkp]
          · simp [hpf, he, hf]
      · simp only [hf, ↓reduceIte]
        cases hp : m.find? p with
        | none => simp [he, hf]
        | some ep =>
          by_cases hpf : ep.ftype = .file
          · simp [hpf, FMap.find?_erase_ne m p key hkp, he, hf]
          · simp [hpf, he, hf]

theorem World_setLeafFiles_comm (w : World) (a b : Nat) (f g : FMap) (h : a ≠ b) :
    (w.setLeafFiles a f).setLeafFiles b g = (w.setLeafFiles b g).setLeafFiles a f := by
  simp only [World.setLeafFiles]
  congr 1
  apply List.ext_getElem?
  intro n
  simp only [List.getElem?_modify]
  cases w.leaves[n]? with
  | none => simp
  | some l =>
    by_cases ha : a = n <;> by_cases hb : b = n <;> simp [ha, hb]
    omega

/-- the in-memory backend (async record): removing the source commutes with what any writer
publishes — also a writer of the very file that is removed -/
theorem mem_removal_commutes (i fsId : Nat) (p : Str) :
    RemovalCommutes { fs := aleafFS i, fsId := fsId, path := p } := by
  intro h w
  simp only [VPath.removeFile, M.withPath, aleafFS, AMem.removeFile]
  unfold WHandle.flush
  cases hk : h.kind
  case physCreate => rfl
  case physAppend => rfl
  case memFile =>
    cases hl : w.leaf? h.leaf with
    | none =>
      simp only [onLeaf]
      cases hi : w.leaf? i with
      | none => simp [hl]
      | some li =>
        have hne : h.leaf ≠ i := fun e => by rw [e, hi] at hl; cases hl
        simp [World.leaf?_setLeafFiles_neA w i h.leaf _ hne, hl]
    | some lh =>
      by_cases hli : h.leaf = i
      · subst hli
        simp only [onLeaf, World.leaf?_setLeafFiles_selfA w h.leaf _ lh hl, hl,
          World.setLeafFiles_twiceA, removeFile_publish_comm]
      · have hil : i ≠ h.leaf := fun e => hli e.symm
        simp only [onLeaf, World.leaf?_setLeafFiles_neA w h.leaf i _ hil]
        cases hi : w.leaf? i with
        | none => simp [hl]
        | some li =>
          simp only [World.leaf?_setLeafFiles_neA w i h.leaf _ hli, hl]
          rw [World_setLeafFiles_comm w h.leaf i _ _ hli]

/-- hence: over the in-memory backend the async `move_file` is the sync `move_file` -/
theorem moveFileA_eq_moveFile_mem (i fsId : Nat) (p : Str) (dst : VPath) :
    VPath.moveFileA { fs := aleafFS i, fsId := fsId, path := p } dst
      = VPath.moveFile { fs := aleafFS i, fsId := fsId, path := p } dst :=
  moveFileA_eq_moveFile _ dst (mem_removal_commutes i fsId p)

/-! ### 7. streams: the `while let Some(x) = s.next().await` loop, and AsyncOverlayFS::read_dir -/

theorem listStream_pollNext_eq {α} (s : List α) (o : List Bool) :
    ListStream.pollNext s o =
      if (askA o).1 then (none, s, (askA o).2)
      else match s with
        | [] => (some none, [], (askA o).2)
        | x :: rest => (some (some x), rest, (askA o).2) := by
  unfold ListStream.pollNext
  rcases askA o with ⟨b, o'⟩
  cases b <;> cases s <;> rfl

/-- SAFETY: whenever the loop has finished, it has folded the body over the items, in order -/
theorem drain_safe {α β} (body : β → α → β) (fuel : Nat) (acc : β) (s : List α) (o : List Bool)
    (r : β) (h : ListStream.drain body fuel acc s o = some r) : r = s.foldl body acc := by
  induction fuel generalizing acc s o with
  | zero => simp [ListStream.drain] at h
  | succ fuel ih =>
    rw [ListStream.drain, listStream_pollNext_eq] at h
    cases ha : (askA o).1
    · cases s with
      | nil => simp [ha] at h; exact h.symm
      | cons x rest => simp [ha] at h; exact ih (body acc x) rest _ h
    · simp [ha] at h; exact ih acc s _ h

/-- LIVENESS: at most `k` pending answers ⇒ `k + |items| + 1` polls finish the loop -/
theorem drain_complete {α β} (body : β → α → β) (k fuel : Nat) (acc : β) (s : List α)
    (o : List Bool) (hk : pendings o ≤ k) (hf : k + s.length + 1 ≤ fuel) :
    ListStream.drain body fuel acc s o = some (s.foldl body acc) := by
  induction fuel generalizing k acc s o with
  | zero => omega
  | succ fuel ih =>
    rw [ListStream.drain, listStream_pollNext_eq]
    have hc := askA_pendings o
    cases ha : (askA o).1
    · cases s with
      | nil => simp
      | cons x rest =>
        simp only [Bool.false_eq_true, ↓reduceIte, List.foldl_cons]
        simp [ha] at hc
        exact ih k _ _ _ (by omega) (by simp only [List.length_cons] at hf; omega)
    · simp only [↓reduceIte]
      simp [ha] at hc
      exact ih (k - 1) _ _ _ (by omega) (by omega)

/-- one `entries.insert(path.filename())` -/
def insertBody (acc : List Str) (c : VPath) : List Str :=
  if filenameInternal c.path ∈ acc then acc else acc ++ [filenameInternal c.path]

theorem insertAll_eq_foldl (cs : List VPath) (acc : List Str) :
    Overlay.insertAll cs acc = cs.foldl insertBody acc := by
  induction cs generalizing acc with
  | nil => rfl
  | cons c rest ih => simp only [Overlay.insertAll, List.foldl_cons, insertBody, ih]

/-- the listing loop of the async overlay under any schedule: it computes `insertAll` -/
theorem overlay_insert_loop (cs : List VPath) (acc : List Str) (k fuel : Nat) (o : List Bool)
    (hk : pendings o ≤ k) (hf : k + cs.length + 1 ≤ fuel) :
    ListStream.drain insertBody fuel acc cs o = some (Overlay.insertAll cs acc) := by
  rw [insertAll_eq_foldl]; exact drain_complete insertBody k fuel acc cs o hk hf

theorem insertAll_eq (cs : List VPath) (acc : List Str) :
    Overlay.insertAll cs acc
      = (cs.map fun c => filenameInternal c.path).foldl
          (fun a n => if n ∈ a then a else a ++ [n]) acc := by
  induction cs generalizing acc with
  | nil => rfl
  | cons c rest ih => simp only [Overlay.insertAll, List.map_cons, List.foldl_cons, ih]

theorem mergeListingsA_eq (actual : Str) (layers : List VPath) (acc : List Str) :
    Overlay.mergeListingsA actual layers acc = Overlay.mergeListings actual layers acc := by
  induction layers generalizing acc with
  | nil => rfl
  | cons l rest ih =>
    unfold Overlay.mergeListingsA Overlay.mergeListings
    simp only [insertAll_eq, ih]

theorem removeMarks_eq (marks : List VPath) (entries : List Str) :
    Overlay.removeMarks marks entries
      = entries.filter fun n =>
          n ∉ marks.filterMap fun m => Overlay.stripWo (filenameInternal m.path) := by
  induction marks generalizing entries with
  | nil =>
    simp only [Overlay.removeMarks, List.filterMap_nil, List.not_mem_nil, not_false_eq_true,
      decide_true]
    exact (List.filter_eq_self.2 fun _ _ => rfl).symm
  | cons m rest ih =>
    unfold Overlay.removeMarks
    cases hs : Overlay.stripWo (filenameInternal m.path) with
    | none => simp only [ih, List.filterMap_cons, hs]
    | some n =>
      simp only [ih, List.filterMap_cons, hs, List.filter_filter]
      apply List.filter_congr
      intro x _
      simp
      exact Bool.and_comm _ _

/-- `AsyncOverlayFS::read_dir` is `OverlayFS::read_dir`: same outcome, same listing (in the same
order), same world, for any layers over any filesystems -/
theorem overlay_readDirA_eq_readDir : @Overlay.readDirA = @Overlay.readDir := by
  funext layers p
  unfold Overlay.readDirA Overlay.readDir
  simp only [mergeListingsA_eq, removeMarks_eq]

/-! ### 7b. the async READ handle under repeated `poll_read` with arbitrary buffer sizes
(`ReadExt::read_to_string`, the `BufReader` inside `async_std::io::copy`) -/

/-- successive `poll_read`s with buffer sizes `ns` -/
def chunksA (r : AsyncReader) : List Nat → List Bytes × AsyncReader
  | [] => ([], r)
  | n :: ns =>
    match (r.readA n).1 with
    | .ok b => ((chunksA (r.readA n).2 ns).1.cons b, (chunksA (r.readA n).2 ns).2)
    | _ => ([], r)

/-- chunk by chunk the async reader is the sync reader -/
theorem chunksA_eq_sync (r : AsyncReader) (ns : List Nat) (hlen : r.content.length < u64Max) :
    ((chunksA r ns).1, (chunksA r ns).2.toSync) = C04.chunks r.toSync ns := by
  induction ns generalizing r with
  | nil => rfl
  | cons n ns ih =>
    have h := readA_eq_sync r n hlen
    have h1 : (r.toSync.read n).1 = (r.readA n).1 := (congrArg Prod.fst h).symm
    have h2 : (r.toSync.read n).2 = (r.readA n).2.toSync := (congrArg Prod.snd h).symm
    have ih' := ih (r.readA n).2 (by rw [readA_content]; exact hlen)
    simp only [chunksA, C04.chunks, h1, h2]
    cases (r.readA n).1 with
    | ok b =>
      simp only [← ih']
    | err k p => rfl
    | panic => rfl

/-- for every sequence of buffer sizes the concatenated chunks are exactly the next `Σ sizes`
bytes of the file: nothing skipped, repeated or reordered -/
theorem readerA_chunks (r : AsyncReader) (ns : List Nat) (hlen : r.content.length < u64Max) :
    (chunksA r ns).1.flatten = (r.content.drop r.cursorPos).take ns.sum := by
  have h := congrArg Prod.fst (chunksA_eq_sync r ns hlen)
  simp only at h
  rw [h]
  exact (C04.reader_chunks r.toSync ns rfl hlen).1

example : (chunksA { content := [1, 2, 3, 4, 5], cursorPos := 1 } [2, 0, 1, 7]).1
    = [[2, 3], [], [4], [5]] := by decide

/-! ### 8. AsyncPhysicalFS time setters -/

/-- inside a tokio runtime the async time setters are the sync ones -/
theorem aphys_setTime_tokio (upd : Entry → Entry) (m : FMap) (p : Str) :
    APhys.setTime true upd m p = Phys.setTime upd m p := rfl

/-- without a tokio runtime they refuse and change nothing, whatever the path -/
theorem aphys_setTime_no_runtime (upd : Entry → Entry) (m : FMap) (p : Str) :
    APhys.setTime false upd m p = (fail .notSupported, m) := rfl

/-! ### 9. where the async code REALLY differs from the sync code (each with a kernel-checked
witness), and non-vacuity of the theorems above -/

def pf : Str := ['/', 'f']
def pg : Str := ['/', 'g']

/-- a sync in-memory world: `/f` holds `[1, 2]` and carries timestamps -/
def exW : World :=
  { leaves := [{ kind := .mem,
                 files := [(pf, { ftype := .file, content := [1, 2], created := .now,
                                  modified := .at 5, accessed := .unset }),
                           ([], { ftype := .dir, content := [], created := .now,
                                  modified := .unset, accessed := .unset })] }] }

theorem exW_memLeaf : MemLeaf exW 0 := by
  intro l hl
  simp [World.leaf?, exW] at hl
  subst hl; rfl

/-- the writer `create_file("/f")` returns -/
def exH : AWHandle := { leaf := 0, key := pf, buf := [], pos := 0 }

def exOps : List WOp := [.write [7, 8], .flush, .write [9], .close, .flush, .drop]

def exOuts : List WOut :=
  [.wrote (.ok 2), .flushed (.ok ()), .wrote (.ok 1), .closed (.ok ()), .flushed (.ok ()), .dropped]

/-- `create_file` in corresponding worlds: corresponding writers -/
example : (AMem.createFileH 0 pf exW.eraseTS).1 = .ok exH := by decide
example : ((leafFS 0).createFile pf exW).1 = .ok exH.toSync := by decide

/-- the script under a schedule with three `Pending` flushes, and on the sync handle -/
example : (exH.driveW 9 exOps [true, true, false, true] exW.eraseTS).1 = exOuts := by decide
example : (exH.toSync.syncRun exOps exW).1 = exOuts := by decide
example : (exH.driveW 9 exOps [true, true, false, true] exW.eraseTS).2.leaves
    = (exH.toSync.syncRun exOps exW).2.eraseTS.leaves := by decide
example : pendings [true, true, false, true] ≤ 3 ∧ 3 + exOps.length ≤ 9 := by decide
/-- the final file: the bytes written, no timestamps on the async side, timestamps on the sync -/
example : ((exH.driveW 9 exOps [true, true, false, true] exW.eraseTS).2.leaf? 0).map
      (fun l => l.files.find? pf) = some (some (afileEntry [7, 8, 9])) := by decide
example : ((exH.toSync.syncRun exOps exW).2.leaf? 0).map (fun l => l.files.find? pf)
    = some (some { ftype := .file, content := [7, 8, 9], created := .now, modified := .now,
                   accessed := .unset }) := by decide
/-- too few polls: a prefix of the script has run, here the first write and nothing else -/
example : (exH.driveW 3 exOps [true, true, true, true] exW.eraseTS).1 = [.wrote (.ok 2)] := by
  decide
/-- a `Pending` flush -/
example : (exH.pollFlush [true] exW.eraseTS).1 = .pending := by decide
example : (exH.pollFlush [true] exW.eraseTS).2.2.1.leaves = exW.eraseTS.leaves := by decide
/-- the hypotheses of `reader_after_flush` on this world, and its conclusion -/
example : ∃ l e, exW.eraseTS.leaf? exH.leaf = some l ∧ l.files.find? exH.key = some e ∧
    e.ftype = .file := ⟨_, _, rfl, rfl, rfl⟩
example : ((aleafFS 0).openFile pf
      (({ exH with buf := [7, 8], pos := 2 } : AWHandle).pollFlush [] exW.eraseTS).2.2.1).1
    = .ok { content := [7, 8], pos := 0 } := by decide
/-- removed in between: the flush publishes nothing and the file stays absent -/
example : (((({ exH with buf := [7] } : AWHandle).pollFlush []
      ((aleafFS 0).removeFile pf exW.eraseTS).2).2.2.1).leaf? 0).map (fun l => l.files.find? pf)
    = some none := by decide

/-- DIFFERENCE 1 (memory.rs:138-145 → async-std cursor.rs:254-256): `close()` completes without
publishing. After `create_file`, `write([7, 8])`, `close().await` a reader still sees the empty
file; only the drop (or an explicit flush) makes the bytes visible. The sync writer has no `close`;
measured against `futures::io::AsyncWriteExt::close` ("flush and close") this is a gap. -/
theorem close_does_not_publish :
    let w1 := (AMem.createFileH 0 pf exW.eraseTS).2
    let h1 := (exH.pollWrite [7, 8] w1).2.1
    let w2 := (h1.pollClose w1).2.2
    ((aleafFS 0).openFile pf w2).1 = .ok { content := [], pos := 0 } ∧
    ((aleafFS 0).openFile pf (h1.dropA w2).2).1 = .ok { content := [7, 8], pos := 0 } := by
  decide

/-- DIFFERENCE 2 (memory.rs:309-320, 367-372; async_vfs/filesystem.rs:41-51): AsyncMemoryFS keeps
no timestamps — `metadata` answers `None` three times where MemoryFS answers times, and the three
time setters are NotSupported where MemoryFS accepts them -/
theorem async_memory_has_no_timestamps :
    ((aleafFS 0).metadata pf exW.eraseTS).1
      = .ok { ftype := .file, len := 2, created := .unset, modified := .unset, accessed := .unset } ∧
    ((leafFS 0).metadata pf exW).1
      = .ok { ftype := .file, len := 2, created := .now, modified := .at 5, accessed := .unset } ∧
    ((aleafFS 0).setModificationTime pf 3 exW.eraseTS).1 = fail .notSupported ∧
    ((leafFS 0).setModificationTime pf 3 exW).1 = .ok () ∧
    ((aleafFS 0).setCreationTime pf 3 exW.eraseTS).1 = fail .notSupported ∧
    ((leafFS 0).setCreationTime pf 3 exW).1 = .ok () ∧
    ((aleafFS 0).setAccessTime pf 3 exW.eraseTS).1 = fail .notSupported ∧
    ((leafFS 0).setAccessTime pf 3 exW).1 = .ok () := by
  decide

/-- DIFFERENCE 3 (async_vfs/impls/physical.rs:39-62, 137-151 against impls/physical.rs:100-108):
outside a tokio runtime (async-std's or futures' executor) the async physical time setters
answer NotSupported for an existing file; the sync ones set the time -/
theorem async_physical_time_setters_need_tokio :
    (APhys.setTime false (fun e => { e with modified := .at 3 })
        [(pf, fileEntryNow), ([], dirEntryNow)] pf).1 = fail .notSupported ∧
    (Phys.setTime (fun e => { e with modified := .at 3 })
        [(pf, fileEntryNow), ([], dirEntryNow)] pf).1 = .ok () := by
  decide

/-- `copy_file` from `/f` to `/g` over the async in-memory backend: the flush-then-drop of
`async_std::io::copy` leaves `/g` with the bytes of `/f` -/
example :
    (((VPath.copyFileA { fs := aleafFS 0, fsId := 0, path := pf }
        { fs := aleafFS 0, fsId := 0, path := pg } exW.eraseTS).2.leaf? 0).map
      fun l => (l.files.find? pg).map (·.content)) = some (some [1, 2]) := by decide

/-- `move_file` likewise, and the source is gone -/
example :
    (((VPath.moveFileA { fs := aleafFS 0, fsId := 0, path := pf }
        { fs := aleafFS 0, fsId := 0, path := pg } exW.eraseTS).2.leaf? 0).map
      fun l => ((l.files.find? pg).map (·.content), l.files.find? pf)) = some (some [1, 2], none) := by
  decide

/-- the `while let` loop under a schedule with two `Pending` polls -/
example : ListStream.drain (fun (a : List Nat) x => a ++ [x]) 6 [] [1, 2, 3] [true, false, true]
    = some [1, 2, 3] := by decide
/-- … and with too few polls it has not finished -/
example : ListStream.drain (fun (a : List Nat) x => a ++ [x]) 3 [] [1, 2, 3] [true, false, true]
    = none := by decide

/-- the async overlay listing on a two-layer overlay of two async in-memory leaves -/
def exW2 : World :=
  { leaves := [{ kind := .mem, files := [(pf, afileEntry [1]), ([], adirEntry)] },
               { kind := .mem, files := [(pg, afileEntry [2]), (pf, afileEntry [3]), ([], adirEntry)] }] }

example : (Overlay.readDirA [{ fs := aleafFS 0, fsId := 0, path := [] },
                             { fs := aleafFS 1, fsId := 1, path := [] }] [] exW2).1
    = .ok [['f'], ['g']] := by decide

/-- the hypothesis of the session theorems is satisfiable -/
example : ∃ h wa, AMem.createFileH 0 pf exW.eraseTS = (.ok h, wa) := ⟨_, _, rfl⟩

#print axioms driveW_prefix_of_sync
#print axioms driveW_eq_sync
#print axioms driveW_schedule_independent
#print axioms pollFlush_pending_stutters
#print axioms pollFlush_ready_eq_sync
#print axioms reader_after_flush
#print axioms sync_reader_after_flush
#print axioms publish_after_removal
#print axioms writes_concat
#print axioms aleafFS_eq_leafFS
#print axioms aleafFS_openFile
#print axioms Mem_openFile_world_eraseTS
#print axioms create_session_eq_sync
#print axioms append_session_eq_sync
#print axioms copyFileA_eq_copyFile
#print axioms moveFileA_eq_moveFile
#print axioms mem_removal_commutes
#print axioms overlay_readDirA_eq_readDir
#print axioms drain_safe
#print axioms readerA_chunks
#print axioms drain_complete
#print axioms overlay_insert_loop
#print axioms close_does_not_publish
#print axioms async_memory_has_no_timestamps
#print axioms async_physical_time_setters_need_tokio

end Vfs.C15
