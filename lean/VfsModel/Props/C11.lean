/-
  C11 — create_dir_all / remove_dir_all / copy_file / move_file / copy_dir / move_dir.

  "create_dir_all leaves exactly the requested ancChain of directories; remove_dir_all removes
  exactly the subtree and succeeds on an absent path; copy_file/copy_dir produce a byte-identical,
  structure-identical copy (copy_dir returning the number of entries copied) and leave the source
  untouched; move_file/move_dir do the same and leave no trace of the source. The results are
  identical whether source and destination live on the same filesystem instance or on two
  different instances of any backends, and all of them refuse an existing destination without
  side effects."

  Helpers live in Proofs/TransferLemmas.lean. Worlds: memory leaves (`MemLeafAt w i m`, where the
  generic read/write route runs because MemoryFS answers NotSupported to the fast path) and, for
  the fast path, a physical leaf (`PhysLeafAt w i b`).

  PROVED (no sorry, no axiom beyond propext / Quot.sound / Classical.choice):
   1. `existing_destination_refused` — ARBITRARY filesystems: an existing destination makes
      copy_file, move_file, copy_dir, move_dir fail with the world unchanged.
   2. create_dir_all on a memory leaf, path `/c1/…/cn` with slash-free components:
      (a) `dirPrefixes_chain` (+ recursive form `dirPrefixes_step`): the prefixes visited are exactly
          `/c1`, `/c1/c2`, …, the path itself;
      (b) `createDirAll_exact`: if no prefix is a file, the call succeeds and the new map is the
          old one plus exactly the ancChain (`ChainMade`: every prefix a directory, the missing ones
          fresh directories, every old entry unchanged, no key outside the ancChain touched, WF kept);
      (c) `createDirAll_file_prefix`: if a prefix is a file the result is
          `FileExists(some that prefix)` and the WORLD IS UNCHANGED. On a well-formed map the
          shorter prefixes necessarily exist (they are ancestors of a present path), so nothing is
          created; `createDirAll_file_prefix_general` is the statement without well-formedness
          (the shorter prefixes HAVE been created: the loop is not atomic), and
          `not_atomic_without_wf` is a concrete ill-formed map on which a directory is left behind.
      `createDirAll_existing`: if the whole ancChain exists, success and the world is unchanged.
   3. `removeDirAll_absent` — ARBITRARY filesystem: an absent path ⇒ Ok, world unchanged.
      `removeDirAll_exact` — memory leaf, WF map with unique keys, `p ≠ ""` a directory, fuel
      larger than the length difference to the longest key: Ok, and the new map is the old one
      minus exactly the keys at or below `p` (`find?` characterisation for EVERY key), WF and
      key-uniqueness kept. Full induction (mutual `removeDirAll`/`removeChildren`), not only the
      leaf cases. `removeDirAll_exact_fuel`: the same with the plain bound "fuel > every key length".
   4. `copyFile_exact` — memory leaves i (source) and j (destination), ANY i, j (equal or not) and
      ANY `Arc` identities: Ok, the destination leaf has at `d` a file with the source bytes, the
      source entry only has its access time stamped, every other key of both leaves and every other
      leaf unchanged (`Copied`, one statement for both cases), WF/unique keys kept.
      `copyFile_same_instance`, `copyFile_cross_instance`: the two instances of it.
      `copyFile_instance_irrelevant`: same-instance run and cross-instance run on the same
      destination map end with destination maps equal up to the access time of `s`.
      `moveFile_exact` (`Moved`): as copy, and `s` is absent afterwards; `moveFile_no_trace`;
      `moveFile_instance_irrelevant`.
      `copyFile_phys_fast`, `moveFile_phys_fast`: one physical filesystem, fast path
      (`std::fs::copy` / `std::fs::rename`), exact resulting map.
      `fastpath_irrelevant_copy`, `fastpath_irrelevant_move`: generic route on a memory leaf and
      fast path on a physical leaf holding a `CoreEq` map end in `CoreEq` maps.
   5. copy_dir / move_dir of a FLAT directory (only files below it, canonical names; this includes
      the empty directory), any i, j: `copyDir_flat_exact` (count = number of entries, destination
      directory + every file with its bytes, source untouched up to access times, frame),
      `copyDir_empty`, `moveDir_flat_exact` (additionally NO key at or below the source is left),
      `moveDir_empty`.
   6. Non-vacuity: concrete two-leaf world, evaluated by the kernel (`decide +kernel`), and the
      hypotheses of the theorems instantiated on it.

  NOT PROVED:
   * `CopyDirExact` / `MoveDirExact` (arbitrary nested trees: result = subtree grafted, count =
     number of proper descendants) are stated as `def … : Prop` only. Proved instances: flat
     directories (5.), nested trees only on the concrete examples.
   * The model confirms a real defect on the way: copy_dir of a directory INTO ITS OWN SUBTREE on
     one filesystem does not terminate (`copyDir_into_itself_diverges_*`: out of fuel for every
     fuel tried; the walk keeps finding the directories it has just created). `CopyDirExact`
     therefore carries the hypothesis "destination not below the source".
   * remove_dir_all with the fuel bound "number of keys" instead of "key length": not proved (the
     length bound is what the induction uses; both are bounds on the nesting depth).
-/
import VfsModel.Proofs.TransferLemmas
namespace Vfs.C11

/-! ## 1. an existing destination is refused without side effects (arbitrary filesystems) -/

theorem existing_destination_refused (src dst : VPath) (fuel : Nat) (w : World)
    (h : dst.exists_ w = (.ok true, w)) :
    src.copyFile dst w = (.err .other (some src.path), w) ∧
    src.moveFile dst w = (.err .other (some src.path), w) ∧
    src.copyDir fuel dst w = (.err .other (some src.path), w) ∧
    src.moveDir fuel dst w = (.err .other (some src.path), w) :=
  ⟨copyFile_refused src dst w h, moveFile_refused src dst w h, copyDir_refused src dst w fuel h,
    moveDir_refused src dst w fuel h⟩

/-! ## 2. create_dir_all -/

/-- (a) the prefixes visited are exactly the ancestor ancChain and the path itself -/
theorem dirPrefixes_chain (cs : List Str) (h : ∀ c ∈ cs, GoodComp c) :
    VPath.dirPrefixes (renderC cs) =
      (List.range cs.length).map (fun k => renderC (cs.take (k + 1))) :=
  dirPrefixes_renderC cs (fun c hc => (h c hc).2.1)

/-- (a), by recursion on the component list -/
theorem dirPrefixes_step (cs : List Str) (c : Str) (hc : '/' ∉ c) :
    VPath.dirPrefixes (renderC (cs ++ [c])) =
      VPath.dirPrefixes (renderC cs) ++ [renderC (cs ++ [c])] := by
  rw [renderC_snoc, dirPrefixes_snoc _ _ hc]

theorem dirPrefixes_root : VPath.dirPrefixes (renderC []) = [] := by decide

/-- (b) no prefix is a file: success, and the map afterwards is the old map plus exactly the
ancChain of directories -/
theorem createDirAll_exact {w : World} {i : Nat} {m : FMap} (h : MemLeafAt w i m) (hwf : WF m)
    (id : Nat) (cs : List Str) (hg : ∀ c ∈ cs, GoodComp c)
    (hnf : ∀ k, k < cs.length → ∀ e, m.find? (renderC (cs.take (k + 1))) = some e → e.ftype = .dir) :
    ∃ m', VPath.createDirAll { fs := leafFS i, fsId := id, path := renderC cs } w =
        (.ok (), w.setLeafFiles i m') ∧ ChainMade m m' cs := by
  have hsl : ∀ c ∈ cs, '/' ∉ c := fun c hc => (hg c hc).2.1
  obtain ⟨hok, hmade⟩ := createDirAllLoop_chain m hwf cs hsl (fun q hq e he => by
    obtain ⟨k, hk, rfl⟩ := (mem_ancChain cs q).1 hq
    exact hnf k hk e he)
  refine ⟨(Mem.createDirAllLoop m (ancChain cs)).2, ?_, hmade⟩
  rw [run_pCreateDirAll h]
  unfold Mem.pCreateDirAll
  by_cases hp : renderC cs = []
  · have hcs : cs = [] := by
      cases cs with
      | nil => rfl
      | cons c cs => simp at hp
    subst hcs
    simp [Mem.createDirAllLoop]
  · simp only [hp, ↓reduceIte, dirPrefixes_renderC cs hsl]
    rw [← hok]

/-- what `ChainMade` says, spelled out for the k-th prefix -/
theorem createDirAll_exact_prefix_is_dir {m m' : FMap} {cs : List Str} (h : ChainMade m m' cs)
    (k : Nat) (hk : k < cs.length) :
    ∃ e, m'.find? (renderC (cs.take (k + 1))) = some e ∧ e.ftype = .dir :=
  h.dirs _ ((mem_ancChain cs _).2 ⟨k, hk, rfl⟩)

/-- (c) a prefix is a file, well-formed map: `FileExists(that prefix)`, the world is unchanged -/
theorem createDirAll_file_prefix {w : World} {i : Nat} {m : FMap} (h : MemLeafAt w i m) (hwf : WF m)
    (id : Nat) (a b : List Str) (c : Str) (hg : ∀ x ∈ a ++ c :: b, GoodComp x) (e : Entry)
    (hfile : m.find? (renderC (a ++ [c])) = some e) (hft : e.ftype = .file) :
    VPath.createDirAll { fs := leafFS i, fsId := id, path := renderC (a ++ c :: b) } w =
      (.err .fileExists (some (renderC (a ++ [c]))), w) := by
  have hsl : ∀ x ∈ a ++ c :: b, '/' ∉ x := fun x hx => (hg x hx).2.1
  rw [run_pCreateDirAll h]
  unfold Mem.pCreateDirAll
  have hp : renderC (a ++ c :: b) ≠ [] := by simp
  simp only [hp, ↓reduceIte, dirPrefixes_renderC _ hsl]
  rw [createDirAllLoop_file_wf m hwf a b c e (fun x hx => hsl x (by
    simp only [List.mem_append, List.mem_cons, List.not_mem_nil, or_false] at hx ⊢
    rcases hx with hx | hx
    · exact Or.inl hx
    · exact Or.inr (Or.inl hx))) hfile hft]
  simp [h.same]

/-- in a well-formed map the prefixes shorter than a present path are existing directories, so
the file found by (c) is the FIRST prefix that is not a directory -/
theorem shorter_prefixes_are_dirs {m : FMap} (hwf : WF m) (a : List Str) (c : Str) (e : Entry)
    (hq : m.find? (renderC (a ++ [c])) = some e) (k : Nat) (hk : k < a.length) :
    ∃ e', m.find? (renderC (a.take (k + 1))) = some e' ∧ e'.ftype = .dir :=
  (hwf.chain_dirs a c e hq _ ((mem_ancChain a _).2 ⟨k, hk, rfl⟩)).2

/-- (c) without well-formedness: the error names the first file prefix, and the directories
before it HAVE been created (`ChainMade … a`): create_dir_all is not atomic -/
theorem createDirAll_file_prefix_general {w : World} {i : Nat} {m : FMap} (h : MemLeafAt w i m)
    (hwf : WF m) (id : Nat) (a b : List Str) (c : Str) (hg : ∀ x ∈ a ++ c :: b, GoodComp x)
    (hbefore : ∀ k, k < a.length → ∀ e, m.find? (renderC (a.take (k + 1))) = some e → e.ftype = .dir)
    (e : Entry) (hfile : m.find? (renderC (a ++ [c])) = some e) (hft : e.ftype = .file) :
    ∃ m', VPath.createDirAll { fs := leafFS i, fsId := id, path := renderC (a ++ c :: b) } w =
        (.err .fileExists (some (renderC (a ++ [c]))), w.setLeafFiles i m') ∧ ChainMade m m' a := by
  have hsl : ∀ x ∈ a ++ c :: b, '/' ∉ x := fun x hx => (hg x hx).2.1
  obtain ⟨hrun, hmade⟩ := createDirAllLoop_file m hwf a b c e (fun x hx => hsl x (by
      simp only [List.mem_append, List.mem_cons, List.not_mem_nil, or_false] at hx ⊢
      rcases hx with hx | hx
      · exact Or.inl hx
      · exact Or.inr (Or.inl hx)))
    (fun q hq e' he' => by
      obtain ⟨k, hk, rfl⟩ := (mem_ancChain a q).1 hq
      exact hbefore k hk e' he') hfile hft
  refine ⟨_, ?_, hmade⟩
  rw [run_pCreateDirAll h]
  unfold Mem.pCreateDirAll
  have hp : renderC (a ++ c :: b) ≠ [] := by simp
  simp only [hp, ↓reduceIte, dirPrefixes_renderC _ hsl, hrun]

/-- the whole ancChain exists already: success, nothing changes (create_dir_all is idempotent) -/
theorem createDirAll_existing {w : World} {i : Nat} {m : FMap} (h : MemLeafAt w i m) (hwf : WF m)
    (id : Nat) (cs : List Str) (hg : ∀ c ∈ cs, GoodComp c)
    (hall : ∀ k, k < cs.length → ∃ e, m.find? (renderC (cs.take (k + 1))) = some e ∧ e.ftype = .dir) :
    VPath.createDirAll { fs := leafFS i, fsId := id, path := renderC cs } w = (.ok (), w) := by
  have hsl : ∀ c ∈ cs, '/' ∉ c := fun c hc => (hg c hc).2.1
  rw [run_pCreateDirAll h]
  unfold Mem.pCreateDirAll
  by_cases hp : renderC cs = []
  · simp [hp, h.same]
  · simp only [hp, ↓reduceIte, dirPrefixes_renderC cs hsl]
    rw [createDirAllLoop_existing m hwf (ancChain cs) (fun d hd => by
      obtain ⟨k, hk, rfl⟩ := (mem_ancChain cs d).1 hd
      refine ⟨?_, hall k hk⟩
      cases hc : cs.take (k + 1) with
      | nil =>
        cases cs with
        | nil => simp at hk
        | cons x xs => simp at hc
      | cons x xs => simp)]
    simp [h.same]

/-! ## 3. remove_dir_all -/

/-- an absent path: Ok, nothing happens (arbitrary filesystem) -/
theorem removeDirAll_absent (p : VPath) (fuel : Nat) (w : World)
    (h : p.exists_ w = (.ok false, w)) : VPath.removeDirAll (fuel + 1) p w = (.ok (), w) :=
  removeDirAll_absent' w fuel p h

/-- exactly the subtree goes: every key at or below `p` is absent afterwards, every other key is
unchanged -/
theorem removeDirAll_exact {w : World} {i : Nat} {m : FMap} (h : MemLeafAt w i m) (hwf : WF m)
    (hnd : FMap.NodupKeys m) (id fuel : Nat) (p : Str) (e : Entry) (hp : p ≠ [])
    (he : m.find? p = some e) (hd : e.ftype = .dir)
    (hfuel : ∀ k e', m.find? k = some e' → k.length < p.length + fuel) :
    ∃ m', VPath.removeDirAll fuel { fs := leafFS i, fsId := id, path := p } w =
        (.ok (), w.setLeafFiles i m') ∧ WF m' ∧ FMap.NodupKeys m' ∧
      ∀ k, m'.find? k = if under p k then none else m.find? k :=
  rd_all i id fuel w m p e h hwf hnd hp he hd hfuel

/-- the same with the plain bound: more fuel than the longest key is long -/
theorem removeDirAll_exact_fuel {w : World} {i : Nat} {m : FMap} (h : MemLeafAt w i m) (hwf : WF m)
    (hnd : FMap.NodupKeys m) (id fuel : Nat) (p : Str) (e : Entry) (hp : p ≠ [])
    (he : m.find? p = some e) (hd : e.ftype = .dir)
    (hfuel : ∀ k e', m.find? k = some e' → k.length < fuel) :
    ∃ m', VPath.removeDirAll fuel { fs := leafFS i, fsId := id, path := p } w =
        (.ok (), w.setLeafFiles i m') ∧ WF m' ∧ FMap.NodupKeys m' ∧
      ∀ k, m'.find? k = if under p k then none else m.find? k :=
  removeDirAll_exact h hwf hnd id fuel p e hp he hd
    (fun k e' hk => by have := hfuel k e' hk; omega)

/-- `under p k` is "k = p or p/ is a prefix of k" -/
theorem under_spec (p k : Str) : under p k = true ↔ k = p ∨ ∃ t, k = p ++ '/' :: t := under_iff p k

/-! ## 4. copy_file / move_file -/

/-- copy_file between memory leaves `i` and `j` — equal or different, whatever the `Arc`
identities `sid`, `did` (if they are equal the fast path is attempted and falls through). -/
theorem copyFile_exact {w : World} {i j : Nat} {ms md : FMap}
    (hi : MemLeafAt w i ms) (hj : MemLeafAt w j md) (sid did : Nat) (s d : Str) (e : Entry)
    (hs : ms.find? s = some e) (hf : e.ftype = .file) (hd : FreshDest md d) :
    ∃ w', VPath.copyFile { fs := leafFS i, fsId := sid, path := s }
            { fs := leafFS j, fsId := did, path := d } w = (.ok (), w') ∧
      Copied i j ms md s d e w w' :=
  copyFile_mem hi hj sid did s d e hs hf hd

/-- same instance (one `Arc`, one leaf) -/
theorem copyFile_same_instance {w : World} {i : Nat} {m : FMap} (hi : MemLeafAt w i m)
    (id : Nat) (s d : Str) (e : Entry) (hs : m.find? s = some e) (hf : e.ftype = .file)
    (hd : FreshDest m d) :
    ∃ w', VPath.copyFile { fs := leafFS i, fsId := id, path := s }
            { fs := leafFS i, fsId := id, path := d } w = (.ok (), w') ∧
      Copied i i m m s d e w w' :=
  copyFile_mem hi hi id id s d e hs hf hd

/-- two different instances -/
theorem copyFile_cross_instance {w : World} {i j : Nat} {ms md : FMap} (hij : i ≠ j)
    (hi : MemLeafAt w i ms) (hj : MemLeafAt w j md) (sid did : Nat) (_hid : sid ≠ did)
    (s d : Str) (e : Entry) (hs : ms.find? s = some e) (hf : e.ftype = .file) (hd : FreshDest md d) :
    ∃ w', VPath.copyFile { fs := leafFS i, fsId := sid, path := s }
            { fs := leafFS j, fsId := did, path := d } w = (.ok (), w') ∧
      Copied i j ms md s d e w w' ∧
      -- here the two leaves are separate: the source leaf only has the access time of `s` stamped
      ∃ ms', MemLeafAt w' i ms' ∧ ∀ k, (ms'.find? k).map stripAcc = (ms.find? k).map stripAcc := by
  obtain ⟨w', hrun, hc⟩ := copyFile_mem hi hj sid did s d e hs hf hd
  refine ⟨w', hrun, hc, ?_⟩
  obtain ⟨ms', md', hi', _, _, hms'⟩ := hc.leaves
  refine ⟨ms', hi', fun k => ?_⟩
  rw [hms' k]
  by_cases hk : k = s
  · subst hk; simp [hij, hs, stripAcc, touched]
  · simp [hij, hk]

/-- what the destination holds afterwards, spelled out -/
theorem copyFile_exact_content {i j : Nat} {ms md : FMap} {s d : Str} {e : Entry} {w w' : World}
    (h : Copied i j ms md s d e w w') :
    ∃ md', MemLeafAt w' j md' ∧ ∃ e', md'.find? d = some e' ∧ e'.ftype = .file ∧ e'.content = e.content := by
  obtain ⟨_, md', _, hj', hmd', _⟩ := h.leaves
  exact ⟨md', hj', copiedEntry e.content, by rw [hmd' d]; simp, rfl, rfl⟩

/-- "identical whether same instance or different instances": copy `s → d` inside one leaf holding
`m`, and copy `s → d` from another leaf into a leaf holding the same `m`: the destination maps are
equal up to the access time of `s`, and equal at `d`. -/
theorem copyFile_instance_irrelevant {w1 w2 : World} {i i' j' : Nat} {m ms : FMap}
    (h1 : MemLeafAt w1 i m) (h2s : MemLeafAt w2 i' ms) (h2d : MemLeafAt w2 j' m) (hne : i' ≠ j')
    (id sid did : Nat) (s d : Str) (e e2 : Entry)
    (hs1 : m.find? s = some e) (hf1 : e.ftype = .file)
    (hs2 : ms.find? s = some e2) (hf2 : e2.ftype = .file) (hcont : e2.content = e.content)
    (hd : FreshDest m d) :
    ∃ w1' w2' m1' m2',
      VPath.copyFile { fs := leafFS i, fsId := id, path := s }
        { fs := leafFS i, fsId := id, path := d } w1 = (.ok (), w1') ∧
      VPath.copyFile { fs := leafFS i', fsId := sid, path := s }
        { fs := leafFS j', fsId := did, path := d } w2 = (.ok (), w2') ∧
      MemLeafAt w1' i m1' ∧ MemLeafAt w2' j' m2' ∧
      m1'.find? d = m2'.find? d ∧
      ∀ k, (m1'.find? k).map stripAcc = (m2'.find? k).map stripAcc := by
  obtain ⟨w1', hrun1, hc1⟩ := copyFile_mem h1 h1 id id s d e hs1 hf1 hd
  obtain ⟨w2', hrun2, hc2⟩ := copyFile_mem h2s h2d sid did s d e2 hs2 hf2 hd
  obtain ⟨_, m1', _, hm1, hf1', _⟩ := hc1.leaves
  obtain ⟨_, m2', _, hm2, hf2', _⟩ := hc2.leaves
  refine ⟨w1', w2', m1', m2', hrun1, hrun2, hm1, hm2, ?_, ?_⟩
  · rw [hf1' d, hf2' d, hcont]; simp
  · intro k
    rw [hf1' k, hf2' k, hcont]
    by_cases hkd : k = d
    · simp [hkd]
    · by_cases hks : k = s
      · subst hks; simp [hkd, hne, hs1, stripAcc, touched]
      · simp [hkd, hks, hne]

/-- move_file between memory leaves `i` and `j` (equal or different) -/
theorem moveFile_exact {w : World} {i j : Nat} {ms md : FMap}
    (hi : MemLeafAt w i ms) (hj : MemLeafAt w j md) (sid did : Nat) (s d : Str) (e : Entry)
    (hs : ms.find? s = some e) (hf : e.ftype = .file) (hd : FreshDest md d) :
    ∃ w', VPath.moveFile { fs := leafFS i, fsId := sid, path := s }
            { fs := leafFS j, fsId := did, path := d } w = (.ok (), w') ∧
      Moved i j ms md s d e w w' :=
  moveFile_mem hi hj sid did s d e hs hf hd

/-- no trace of the source, the bytes are at the destination -/
theorem moveFile_no_trace {i j : Nat} {ms md : FMap} {s d : Str} {e : Entry} {w w' : World}
    (h : Moved i j ms md s d e w w') :
    ∃ ms' md', MemLeafAt w' i ms' ∧ MemLeafAt w' j md' ∧ ms'.find? s = none ∧
      md'.find? d = some (copiedEntry e.content) := by
  obtain ⟨ms', md', hi', hj', hmd', hms'⟩ := h.leaves
  exact ⟨ms', md', hi', hj', by rw [hms' s]; simp, by rw [hmd' d]; simp⟩

/-- same instance vs. two instances, for move: the destination maps agree on every key other than
`s` (in the two-instance run the destination leaf's own `s`, if any, is of course not the source) -/
theorem moveFile_instance_irrelevant {w1 w2 : World} {i i' j' : Nat} {m ms : FMap}
    (h1 : MemLeafAt w1 i m) (h2s : MemLeafAt w2 i' ms) (h2d : MemLeafAt w2 j' m) (hne : i' ≠ j')
    (id sid did : Nat) (s d : Str) (e e2 : Entry)
    (hs1 : m.find? s = some e) (hf1 : e.ftype = .file)
    (hs2 : ms.find? s = some e2) (hf2 : e2.ftype = .file) (hcont : e2.content = e.content)
    (hd : FreshDest m d) :
    ∃ w1' w2' m1' m2' ms2',
      VPath.moveFile { fs := leafFS i, fsId := id, path := s }
        { fs := leafFS i, fsId := id, path := d } w1 = (.ok (), w1') ∧
      VPath.moveFile { fs := leafFS i', fsId := sid, path := s }
        { fs := leafFS j', fsId := did, path := d } w2 = (.ok (), w2') ∧
      MemLeafAt w1' i m1' ∧ MemLeafAt w2' j' m2' ∧ MemLeafAt w2' i' ms2' ∧
      m1'.find? s = none ∧ ms2'.find? s = none ∧
      ∀ k, k ≠ s → m1'.find? k = m2'.find? k := by
  obtain ⟨w1', hrun1, hc1⟩ := moveFile_mem h1 h1 id id s d e hs1 hf1 hd
  obtain ⟨w2', hrun2, hc2⟩ := moveFile_mem h2s h2d sid did s d e2 hs2 hf2 hd
  obtain ⟨_, m1', _, hm1, hf1', _⟩ := hc1.leaves
  obtain ⟨ms2', m2', hms2, hm2, hf2', hfs2'⟩ := hc2.leaves
  refine ⟨w1', w2', m1', m2', ms2', hrun1, hrun2, hm1, hm2, hms2, ?_, ?_, ?_⟩
  · have hsd : s ≠ d := by intro h; rw [h, hd.absent] at hs1; cases hs1
    rw [hf1' s]; simp [hsd]
  · rw [hfs2' s]; simp
  · intro k hks
    rw [hf1' k, hf2' k, hcont]
    by_cases hkd : k = d <;> simp [hkd, hks, hne]

/-- one physical filesystem: `copy_file` is the fast path `std::fs::copy` -/
theorem copyFile_phys_fast {w : World} {i : Nat} {b : FMap} (h : PhysLeafAt w i b) (hwf : WF b)
    (id : Nat) (s d : Str) (e : Entry) (hs : b.find? s = some e) (hf : e.ftype = .file)
    (hd : FreshDest b d) :
    VPath.copyFile { fs := leafFS i, fsId := id, path := s } { fs := leafFS i, fsId := id, path := d } w =
      (.ok (), w.setLeafFiles i (b.insert d { fileEntryNow with content := e.content })) :=
  copyFile_phys h hwf id s d e hs hf hd

/-- one physical filesystem: `move_file` is the fast path `std::fs::rename` -/
theorem moveFile_phys_fast {w : World} {i : Nat} {b : FMap} (h : PhysLeafAt w i b) (hwf : WF b)
    (id : Nat) (s d : Str) (e : Entry) (hs : b.find? s = some e) (hf : e.ftype = .file)
    (hd : FreshDest b d) :
    ∃ b', VPath.moveFile { fs := leafFS i, fsId := id, path := s }
            { fs := leafFS i, fsId := id, path := d } w = (.ok (), w.setLeafFiles i b') ∧
      ∀ k, b'.find? k = if k = d then some e else if k = s then none else b.find? k :=
  ⟨_, moveFile_phys h hwf id s d e hs hf hd, Phys.find?_rename_file b hwf s d e hs hf hd.absent⟩

/-- the fast path is irrelevant to the result: copy_file by the generic route (memory leaf, where
the fast path answers NotSupported) and by the fast path (physical leaf) on maps that are equal
up to timestamps end in maps that are equal up to timestamps -/
theorem fastpath_irrelevant_copy {w1 w2 : World} {i j : Nat} {a b : FMap}
    (h1 : MemLeafAt w1 i a) (h2 : PhysLeafAt w2 j b) (hwfb : WF b) (hab : CoreEq a b)
    (id1 id2 : Nat) (s d : Str) (e : Entry) (hs : a.find? s = some e) (hf : e.ftype = .file)
    (hd : FreshDest a d) :
    ∃ w1' w2' a' b',
      VPath.copyFile { fs := leafFS i, fsId := id1, path := s }
        { fs := leafFS i, fsId := id1, path := d } w1 = (.ok (), w1') ∧
      VPath.copyFile { fs := leafFS j, fsId := id2, path := s }
        { fs := leafFS j, fsId := id2, path := d } w2 = (.ok (), w2') ∧
      MemLeafAt w1' i a' ∧ PhysLeafAt w2' j b' ∧ CoreEq a' b' := by
  obtain ⟨e', he', hft', hct'⟩ := hab.some s e hs
  have hfb : e'.ftype = .file := by rw [hft']; exact hf
  have hdb : FreshDest b d := hd.of_coreEq hab
  obtain ⟨w1', hrun1, hc1⟩ := copyFile_mem h1 h1 id1 id1 s d e hs hf hd
  obtain ⟨_, a', _, ha', hfa', _⟩ := hc1.leaves
  refine ⟨w1', _, a', _, hrun1, copyFile_phys h2 hwfb id2 s d e' he' hfb hdb, ha', h2.set _, ?_⟩
  intro k
  rw [hfa' k, FMap.find?_insert]
  by_cases hkd : k = d
  · simp [hkd, core, copiedEntry, fileEntryNow, hct']
  · by_cases hks : k = s
    · subst hks
      simp only [hkd, ↓reduceIte, true_and, Option.map_some]
      rw [he']
      simp [core, touched, hft', hct']
    · simp only [hkd, hks, ↓reduceIte, and_false]
      exact hab k

/-- the same for move_file: generic route (read, write, remove) vs. `std::fs::rename` -/
theorem fastpath_irrelevant_move {w1 w2 : World} {i j : Nat} {a b : FMap}
    (h1 : MemLeafAt w1 i a) (h2 : PhysLeafAt w2 j b) (hwfb : WF b) (hab : CoreEq a b)
    (id1 id2 : Nat) (s d : Str) (e : Entry) (hs : a.find? s = some e) (hf : e.ftype = .file)
    (hd : FreshDest a d) :
    ∃ w1' w2' a' b',
      VPath.moveFile { fs := leafFS i, fsId := id1, path := s }
        { fs := leafFS i, fsId := id1, path := d } w1 = (.ok (), w1') ∧
      VPath.moveFile { fs := leafFS j, fsId := id2, path := s }
        { fs := leafFS j, fsId := id2, path := d } w2 = (.ok (), w2') ∧
      MemLeafAt w1' i a' ∧ PhysLeafAt w2' j b' ∧ CoreEq a' b' ∧
      a'.find? s = none ∧ b'.find? s = none := by
  obtain ⟨e', he', hft', hct'⟩ := hab.some s e hs
  have hfb : e'.ftype = .file := by rw [hft']; exact hf
  have hdb : FreshDest b d := hd.of_coreEq hab
  have hsd : s ≠ d := by intro h; rw [h, hd.absent] at hs; cases hs
  obtain ⟨w1', hrun1, hc1⟩ := moveFile_mem h1 h1 id1 id1 s d e hs hf hd
  obtain ⟨_, a', _, ha', hfa', _⟩ := hc1.leaves
  have hfb' := Phys.find?_rename_file b hwfb s d e' he' hfb hdb.absent
  refine ⟨w1', _, a', _, hrun1, moveFile_phys h2 hwfb id2 s d e' he' hfb hdb, ha', h2.set _, ?_, ?_, ?_⟩
  · intro k
    rw [hfa' k, hfb' k]
    by_cases hkd : k = d
    · simp [hkd, core, copiedEntry, hft', hct', hf]
    · by_cases hks : k = s
      · simp [hks, hsd]
      · simp only [hkd, hks, ↓reduceIte, and_false]
        exact hab k
  · rw [hfa' s]; simp [hsd]
  · rw [hfb' s]; simp [hsd]

/-! ## 5. copy_dir / move_dir -/

/-- number of keys strictly below `S` -/
def descendants (m : FMap) (S : Str) : Nat :=
  (m.keys.filter (fun k => under S k && decide (k ≠ S))).length

/-- The general statement for copy_dir on memory leaves — NOT PROVED in general (proved for flat
directories below: `copyDir_flat_exact`; checked on nested trees in the examples).
The destination must not lie inside the source (see `copyDir_into_itself_diverges_*`), the keys
below the source must be canonical (a key such as `/a/..` cannot be created through `VfsPath`,
and `join` would resolve it), fuel must exceed the number of entries. -/
def CopyDirExact : Prop :=
  ∀ (w : World) (i j : Nat) (ms md : FMap) (sid did fuel : Nat) (S : Str) (bs : List Str),
    MemLeafAt w i ms → MemLeafAt w j md → WF ms → WF md → FMap.NodupKeys ms →
    (∀ c ∈ bs, GoodComp c) → (∃ se, ms.find? S = some se ∧ se.ftype = .dir) →
    (∀ k e, ms.find? k = some e → under S k = true → Canon k) →
    FreshDest md (renderC bs) → (i = j → under S (renderC bs) = false) →
    descendants ms S < fuel →
    ∃ w' ms' md',
      VPath.copyDir fuel { fs := leafFS i, fsId := sid, path := S }
        { fs := leafFS j, fsId := did, path := renderC bs } w = (.ok (descendants ms S), w') ∧
      MemLeafAt w' i ms' ∧ MemLeafAt w' j md' ∧
      -- the subtree is grafted at the destination: same types, same bytes
      (md'.find? (renderC bs)).map core = some (.dir, []) ∧
      (∀ t, (md'.find? (renderC bs ++ '/' :: t)).map core = (ms.find? (S ++ '/' :: t)).map core) ∧
      -- nothing else changes on the destination leaf, the source leaf is untouched (access times aside)
      (∀ k, under (renderC bs) k = false →
        (md'.find? k).map stripAcc = (md.find? k).map stripAcc) ∧
      (∀ k, (i = j → under (renderC bs) k = false) →
        (ms'.find? k).map stripAcc = (ms.find? k).map stripAcc)

/-- The general statement for move_dir — NOT PROVED in general (flat case: `moveDir_flat_exact`). -/
def MoveDirExact : Prop :=
  ∀ (w : World) (i j : Nat) (ms md : FMap) (sid did fuel : Nat) (S : Str) (bs : List Str),
    MemLeafAt w i ms → MemLeafAt w j md → WF ms → WF md → FMap.NodupKeys ms → FMap.NodupKeys md →
    S ≠ [] → (∀ c ∈ bs, GoodComp c) → (∃ se, ms.find? S = some se ∧ se.ftype = .dir) →
    (∀ k e, ms.find? k = some e → under S k = true → Canon k) →
    FreshDest md (renderC bs) → (i = j → under S (renderC bs) = false) →
    descendants ms S < fuel →
    (∀ k e, ms.find? k = some e → k.length < S.length + fuel) →
    (i = j → ∀ k e, ms.find? k = some e → under S k = true →
      (renderC bs).length + k.length < 2 * S.length + fuel) →
    ∃ w' ms' md',
      VPath.moveDir fuel { fs := leafFS i, fsId := sid, path := S }
        { fs := leafFS j, fsId := did, path := renderC bs } w = (.ok (), w') ∧
      MemLeafAt w' i ms' ∧ MemLeafAt w' j md' ∧
      (∀ k, under S k = true → ms'.find? k = none) ∧
      (md'.find? (renderC bs)).map core = some (.dir, []) ∧
      (∀ t, (md'.find? (renderC bs ++ '/' :: t)).map core = (ms.find? (S ++ '/' :: t)).map core) ∧
      (∀ k, under (renderC bs) k = false → (i = j → under S k = false) →
        (md'.find? k).map stripAcc = (md.find? k).map stripAcc) ∧
      (∀ k, under S k = false → (i = j → under (renderC bs) k = false) →
        (ms'.find? k).map stripAcc = (ms.find? k).map stripAcc)

/-- copy_dir of a flat directory (only files below it; the empty directory included), from
memory leaf `i` to memory leaf `j`, equal or different, any `Arc` identities: the count is the
number of entries, and `FlatDirCopied` describes both leaves exactly. -/
theorem copyDir_flat_exact {w : World} {i j : Nat} {ms md : FMap}
    (hi : MemLeafAt w i ms) (hj : MemLeafAt w j md) (sid did fuel : Nat) (S : Str) (bs : List Str)
    (hbs : ∀ c ∈ bs, GoodComp c) (hnd : FMap.NodupKeys ms) (hwfd : WF md) (hflat : FlatDir ms S)
    (hfresh : FreshDest md (renderC bs)) (hout : i = j → parentInternal (renderC bs) ≠ S)
    (hfuel : (ms.keys.filterMap (childName S)).length < fuel) :
    ∃ w', VPath.copyDir fuel { fs := leafFS i, fsId := sid, path := S }
            { fs := leafFS j, fsId := did, path := renderC bs } w =
          (.ok (ms.keys.filterMap (childName S)).length, w') ∧
      FlatDirCopied i j ms md S (renderC bs) w w' :=
  copyDir_flat hi hj sid did fuel S bs (fun c hc => (hbs c hc).2.1) hnd hwfd hflat hfresh hout hfuel

/-- copying an EMPTY directory creates exactly the destination directory and returns 0 -/
theorem copyDir_empty {w : World} {i j : Nat} {ms md : FMap}
    (hi : MemLeafAt w i ms) (hj : MemLeafAt w j md) (sid did fuel : Nat) (S : Str) (bs : List Str)
    (hbs : ∀ c ∈ bs, GoodComp c) (hnd : FMap.NodupKeys ms) (hwfd : WF md)
    (hdir : ∃ se, ms.find? S = some se ∧ se.ftype = .dir)
    (hempty : ms.keys.filterMap (childName S) = [])
    (hfresh : FreshDest md (renderC bs)) (hout : i = j → parentInternal (renderC bs) ≠ S) :
    ∃ w' ms' md', VPath.copyDir (fuel + 1) { fs := leafFS i, fsId := sid, path := S }
            { fs := leafFS j, fsId := did, path := renderC bs } w = (.ok 0, w') ∧
      MemLeafAt w' i ms' ∧ MemLeafAt w' j md' ∧
      (∀ k, md'.find? k = if k = renderC bs then some dirEntryNow else md.find? k) ∧
      (∀ k, ms'.find? k = if i = j ∧ k = renderC bs then some dirEntryNow else ms.find? k) := by
  obtain ⟨w', hrun, _, ms', md', hi', hj', hD, _, _, hmdf, hmsf, _⟩ :=
    copyDir_flat_exact hi hj sid did (fuel + 1) S bs hbs hnd hwfd
      ⟨hdir, fun n hn => by rw [hempty] at hn; cases hn⟩ hfresh hout (by rw [hempty]; simp)
  rw [hempty] at hrun
  refine ⟨w', ms', md', hrun, hi', hj', ?_, ?_⟩
  · intro k
    by_cases hk : k = renderC bs
    · rw [if_pos hk, hk]; exact hD
    · rw [if_neg hk]
      exact hmdf k hk (fun n hn => by rw [hempty] at hn; cases hn)
        (fun _ n hn => by rw [hempty] at hn; cases hn)
  · intro k
    by_cases hij : i = j
    · subst hij
      have e1 := hi'.unique hj'
      have e2 := hi.unique hj
      subst e1; subst e2
      by_cases hk : k = renderC bs
      · rw [if_pos ⟨rfl, hk⟩, hk]; exact hD
      · rw [if_neg (fun h => hk h.2)]
        exact hmsf k (fun n hn => by rw [hempty] at hn; cases hn)
          (fun _ => ⟨hk, fun n hn => by rw [hempty] at hn; cases hn⟩)
    · rw [if_neg (fun h => hij h.1)]
      exact hmsf k (fun n hn => by rw [hempty] at hn; cases hn) (fun h => absurd h hij)

/-- move_dir of a flat directory between memory leaves `i`, `j` (equal or different): as copy_dir,
and afterwards NO key at or below the source exists; everything else is unchanged. -/
theorem moveDir_flat_exact {w : World} {i j : Nat} {ms md : FMap}
    (hi : MemLeafAt w i ms) (hj : MemLeafAt w j md) (sid did fuel : Nat) (S : Str) (bs : List Str)
    (hbs : ∀ c ∈ bs, GoodComp c) (hnds : FMap.NodupKeys ms) (hndd : FMap.NodupKeys md)
    (hwfs : WF ms) (hwfd : WF md) (hflat : FlatDir ms S) (hS : S ≠ [])
    (hfresh : FreshDest md (renderC bs)) (hout : i = j → under S (renderC bs) = false)
    (hfuel : (ms.keys.filterMap (childName S)).length < fuel)
    (hb1 : ∀ k e', ms.find? k = some e' → k.length < S.length + fuel)
    (hb2 : i = j → (renderC bs).length < S.length + fuel ∧
      ∀ n ∈ ms.keys.filterMap (childName S), (renderC bs ++ '/' :: n).length < S.length + fuel) :
    ∃ w', VPath.moveDir fuel { fs := leafFS i, fsId := sid, path := S }
            { fs := leafFS j, fsId := did, path := renderC bs } w = (.ok (), w') ∧
      FlatDirMoved i j ms md S (renderC bs) w w' :=
  moveDir_flat hi hj sid did fuel S bs (fun c hc => (hbs c hc).2.1) hnds hndd hwfs hwfd hflat hS
    hfresh hout hfuel hb1 hb2

/-! ## 6. non-vacuity: a concrete two-leaf world -/

def fileE (bs : Bytes) : Entry := { fileEntryNow with content := bs }

/-- leaf 0: `/f` ("hi"), the flat directory `/d` (`/d/x` "x", `/d/y` "yy"), the nested tree `/t`
(`/t/u/`, `/t/u/v` "v"), the empty directory `/e`; leaf 1: an empty MemoryFS -/
def m0 : FMap :=
  [ ("/f".toList, fileE [104, 105]), ("/d/x".toList, fileE [120]), ("/d/y".toList, fileE [121, 121]),
    ("/d".toList, dirEntryNow), ("/t/u/v".toList, fileE [118]), ("/t/u".toList, dirEntryNow),
    ("/t".toList, dirEntryNow), ("/e".toList, dirEntryNow), ([], dirEntryNow) ]

def w2 : World := { leaves := [{ kind := .mem, files := m0 }, { kind := .mem, files := Mem.init }] }

/-- a path on leaf `i`; each leaf is its own `Arc` -/
def at_ (i : Nat) (s : String) : VPath := { fs := leafFS i, fsId := i, path := s.toList }

/-- the observable content of a leaf: key, type, bytes (in storage order) -/
def view (w : World) (i : Nat) : List (String × FType × Bytes) :=
  match w.leaf? i with
  | some l => l.files.map fun kv => (String.ofList kv.1, kv.2.ftype, kv.2.content)
  | none => []

theorem m0_wf : WF m0 := WF.of_check m0 (by decide)
theorem m0_nodup : FMap.NodupKeys m0 := by unfold FMap.NodupKeys; decide
theorem w2_leaf0 : MemLeafAt w2 0 m0 := rfl
theorem w2_leaf1 : MemLeafAt w2 1 Mem.init := rfl

/-! copy_file: two instances, and one instance -/
example : ((at_ 0 "/f").copyFile (at_ 1 "/g") w2).1 = .ok () := by decide +kernel
example : view ((at_ 0 "/f").copyFile (at_ 1 "/g") w2).2 1 =
    [("/g", .file, [104, 105]), ("", .dir, [])] := by decide +kernel
example : ((at_ 0 "/f").copyFile (at_ 0 "/g") w2).1 = .ok () := by decide +kernel
example : (view ((at_ 0 "/f").copyFile (at_ 0 "/g") w2).2 0).head? = some ("/g", .file, [104, 105]) := by
  decide +kernel
/-- existing destination: refused, nothing changes -/
example : ((at_ 0 "/f").copyFile (at_ 0 "/d/x") w2).1 = .err .other (some "/f".toList) ∧
    ((at_ 0 "/f").copyFile (at_ 0 "/d/x") w2).2.leaves = w2.leaves := by decide +kernel

/-! move_file -/
example : ((at_ 0 "/f").moveFile (at_ 1 "/g") w2).1 = .ok () := by decide +kernel
example : view ((at_ 0 "/f").moveFile (at_ 1 "/g") w2).2 1 =
    [("/g", .file, [104, 105]), ("", .dir, [])] := by decide +kernel
example : (view ((at_ 0 "/f").moveFile (at_ 1 "/g") w2).2 0).map (·.1) =
    ["/d/x", "/d/y", "/d", "/t/u/v", "/t/u", "/t", "/e", ""] := by decide +kernel

/-! create_dir_all -/
example : ((at_ 1 "/a/b/c").createDirAll w2).1 = .ok () := by decide +kernel
example : view ((at_ 1 "/a/b/c").createDirAll w2).2 1 =
    [("/a/b/c", .dir, []), ("/a/b", .dir, []), ("/a", .dir, []), ("", .dir, [])] := by decide +kernel
example : VPath.dirPrefixes "/a/b/c".toList = ["/a".toList, "/a/b".toList, "/a/b/c".toList] := by
  decide +kernel
/-- a file among the prefixes: FileExists(/f), nothing changes -/
example : ((at_ 0 "/f/x/y").createDirAll w2).1 = .err .fileExists (some "/f".toList) ∧
    ((at_ 0 "/f/x/y").createDirAll w2).2.leaves = w2.leaves := by decide +kernel

/-- without well-formedness create_dir_all is not atomic: `/a/b` is a file whose parent `/a` is
missing; `/a` is created before the loop stops at `/a/b` -/
def illFormed : World :=
  { leaves := [{ kind := .mem, files := [("/a/b".toList, fileE []), ([], dirEntryNow)] }] }

theorem not_atomic_without_wf :
    ((at_ 0 "/a/b/c").createDirAll illFormed).1 = .err .fileExists (some "/a/b".toList) ∧
    view ((at_ 0 "/a/b/c").createDirAll illFormed).2 0 =
      [("/a", .dir, []), ("/a/b", .file, []), ("", .dir, [])] := by decide +kernel

/-! remove_dir_all (the model's `removeDirAll` is compiled by well-founded recursion; `rmAll` is
its structural twin, `rmAll_eq`) -/
example : ((at_ 0 "/t").removeDirAll 5 w2).1 = .ok () := by rw [← rmAll_eq]; decide +kernel
example : view ((at_ 0 "/t").removeDirAll 5 w2).2 0 =
    [("/f", .file, [104, 105]), ("/d/x", .file, [120]), ("/d/y", .file, [121, 121]), ("/d", .dir, []),
     ("/e", .dir, []), ("", .dir, [])] := by rw [← rmAll_eq]; decide +kernel
/-- absent path: Ok, nothing changes -/
example : ((at_ 0 "/nope").removeDirAll 5 w2).1 = .ok () ∧
    ((at_ 0 "/nope").removeDirAll 5 w2).2.leaves = w2.leaves := by rw [← rmAll_eq]; decide +kernel

/-- the hypotheses of `removeDirAll_exact` hold on the concrete world -/
example : ∃ m', VPath.removeDirAll 7 (at_ 0 "/t") w2 = (.ok (), w2.setLeafFiles 0 m') ∧ WF m' ∧
    FMap.NodupKeys m' ∧ ∀ k, m'.find? k = if under "/t".toList k then none else m0.find? k :=
  removeDirAll_exact w2_leaf0 m0_wf m0_nodup 0 7 "/t".toList dirEntryNow (by decide) (by decide) rfl
    (keys_bound m0 _ (by decide))

/-! copy_dir: flat, nested, empty; across instances and inside one -/
example : ((at_ 0 "/d").copyDir 5 (at_ 1 "/c") w2).1 = .ok 2 := by decide +kernel
example : view ((at_ 0 "/d").copyDir 5 (at_ 1 "/c") w2).2 1 =
    [("/c/y", .file, [121, 121]), ("/c/x", .file, [120]), ("/c", .dir, []), ("", .dir, [])] := by
  decide +kernel
example : ((at_ 0 "/t").copyDir 5 (at_ 1 "/t2") w2).1 = .ok 2 := by decide +kernel
example : view ((at_ 0 "/t").copyDir 5 (at_ 1 "/t2") w2).2 1 =
    [("/t2/u/v", .file, [118]), ("/t2/u", .dir, []), ("/t2", .dir, []), ("", .dir, [])] := by
  decide +kernel
example : ((at_ 0 "/t").copyDir 5 (at_ 0 "/t2") w2).1 = .ok 2 := by decide +kernel
example : ((at_ 0 "/e").copyDir 5 (at_ 1 "/e2") w2).1 = .ok 0 := by decide +kernel
example : view ((at_ 0 "/e").copyDir 5 (at_ 1 "/e2") w2).2 1 = [("/e2", .dir, []), ("", .dir, [])] := by
  decide +kernel
/-- the source is untouched (types and bytes) -/
example : (view ((at_ 0 "/t").copyDir 5 (at_ 1 "/t2") w2).2 0).isPerm (view w2 0) = true := by
  decide +kernel

/-- the hypotheses of `copyDir_flat_exact` hold on the concrete world (two instances) -/
example : ∃ w', VPath.copyDir 5 (at_ 0 "/d") { fs := leafFS 1, fsId := 1, path := renderC ["c".toList] } w2 =
      (.ok 2, w') ∧ FlatDirCopied 0 1 m0 Mem.init "/d".toList (renderC ["c".toList]) w2 w' :=
  copyDir_flat_exact w2_leaf0 w2_leaf1 0 1 5 "/d".toList ["c".toList] (by decide) m0_nodup
    WF.init_mem
    ⟨⟨dirEntryNow, by decide, rfl⟩, by decide⟩
    ⟨by decide, by decide,
      ⟨{ ftype := .dir, content := [], created := .now, modified := .unset, accessed := .unset },
        by decide, rfl⟩⟩ (by decide) (by decide)

/-! move_dir -/
example : ((at_ 0 "/t").moveDir 5 (at_ 1 "/t2") w2).1 = .ok () := by
  unfold VPath.moveDir; simp only [← rmAll_eq]; decide +kernel
example : view ((at_ 0 "/t").moveDir 5 (at_ 1 "/t2") w2).2 1 =
    [("/t2/u/v", .file, [118]), ("/t2/u", .dir, []), ("/t2", .dir, []), ("", .dir, [])] := by
  unfold VPath.moveDir; simp only [← rmAll_eq]; decide +kernel
example : view ((at_ 0 "/t").moveDir 5 (at_ 1 "/t2") w2).2 0 =
    [("/f", .file, [104, 105]), ("/d/x", .file, [120]), ("/d/y", .file, [121, 121]), ("/d", .dir, []),
     ("/e", .dir, []), ("", .dir, [])] := by
  unfold VPath.moveDir; simp only [← rmAll_eq]; decide +kernel
example : ((at_ 0 "/t").moveDir 5 (at_ 0 "/t2") w2).1 = .ok () := by
  unfold VPath.moveDir; simp only [← rmAll_eq]; decide +kernel

/-! copy_dir into the own subtree does not terminate: the walk lists the directory it has just
created, copies it into itself, lists that, … — out of fuel whatever the fuel -/
theorem copyDir_into_itself_diverges_3 :
    ((at_ 0 "/d").copyDir 3 (at_ 0 "/d/sub") w2).1 = .panic := by decide +kernel
theorem copyDir_into_itself_diverges_12 :
    ((at_ 0 "/d").copyDir 12 (at_ 0 "/d/sub") w2).1 = .panic := by decide +kernel
theorem copyDir_into_itself_diverges_20 :
    ((at_ 0 "/e").copyDir 20 (at_ 0 "/e/sub") w2).1 = .panic := by decide +kernel

end Vfs.C11
