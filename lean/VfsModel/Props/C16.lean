import VfsModel.Proofs.ConcLemmas
namespace Vfs.C16
open Vfs Vfs.Conc

/-! ## 1. The tree stays well-formed under every interleaving -/

/-- calls other than `remove_dir("")` -/
def COpOk (c : COp) : Prop := c ≠ .removeDir []

/-- a thread that never removes the root: neither in its remaining calls nor in the call in
progress -/
def ThreadOk (t : Thread) : Prop :=
  (∀ c ∈ t.calls, COpOk c) ∧ (∀ pt, t.cur = some pt → PtOk pt)

theorem start_ok (h : Option WH) (c : COp) (hc : COpOk c) (pt : Pt) (hs : start h c = .inl pt) :
    PtOk pt := by
  cases c with
  | removeDir p =>
    simp only [start, Sum.inl.injEq] at hs; subst hs
    exact fun h => hc (by rw [h])
  | writeDrop bs =>
    cases h <;> simp only [start, Sum.inl.injEq, reduceCtorEq] at hs
    subst hs; trivial
  | createDirAll p =>
    simp only [start] at hs
    split at hs
    · cases hs
    · injection hs with hs; subst hs; trivial
  | _ => simp only [start, Sum.inl.injEq] at hs; subst hs; trivial

/-- no region continues with `remove_dir` -/
theorem region_next_ok (m : FMap) (pt pt' : Pt) (h : (region m pt).next = .inl pt') : PtOk pt' := by
  cases pt with
  | cdaLoop l =>
    cases l with
    | nil => simp [region, okUnit] at h
    | cons d rest =>
      simp only [region] at h
      split at h <;> (try split at h) <;>
        first | (injection h with h; subst h; trivial) | (simp [okUnit] at h)
  | _ =>
    simp only [region] at h
    repeat' split at h
    all_goals first | (injection h with h; subst h; trivial) | (simp [okUnit] at h)

theorem settle_ok (fuel : Nat) (t : Thread) (h : ThreadOk t) : ThreadOk (settle fuel t) := by
  induction fuel generalizing t with
  | zero => exact h
  | succ n ih =>
    unfold settle
    split
    · exact h
    · rename_i hcur
      split
      · exact h
      · rename_i c rest hcalls
        have hc : COpOk c := h.1 c (by rw [hcalls]; simp)
        have hrest : ∀ c' ∈ rest, COpOk c' := fun c' hc' => h.1 c' (by rw [hcalls]; simp [hc'])
        split
        · rename_i pt hs
          refine ⟨hrest, ?_⟩
          intro pt' hpt'
          simp only [Option.some.injEq] at hpt'
          subst hpt'
          exact start_ok _ _ hc _ hs
        · apply ih
          refine ⟨hrest, ?_⟩
          intro pt' hpt'
          simp only [hcur] at hpt'
          cases hpt'

theorem afterRegion_ok (m : FMap) (t : Thread) (pt : Pt) (h : ∀ c ∈ t.calls, COpOk c) :
    ∀ c ∈ (afterRegion m t pt).calls, COpOk c := by
  simpa using h

/-- one scheduled thread: the map stays well-formed and the thread keeps away from the root -/
theorem stepThread_wf (m : FMap) (t : Thread) (hm : WF m) (ht : ThreadOk t) :
    WF (stepThread m t).1 ∧ ThreadOk (stepThread m t).2 := by
  have h0 : ThreadOk (settle (t.calls.length + 1) t) := settle_ok _ _ ht
  rcases stepThread_cases m t with ⟨_, heq⟩ | ⟨pt, hcur, ⟨pt', hn, heq⟩ | ⟨r, hn, heq⟩⟩
  · rw [heq]; exact ⟨hm, h0⟩
  · rw [heq]
    refine ⟨region_wf hm pt (h0.2 pt hcur), afterRegion_ok m _ pt h0.1, ?_⟩
    intro pt'' h''
    simp only [Option.some.injEq] at h''
    subst h''
    exact region_next_ok m pt _ hn
  · rw [heq]
    refine ⟨region_wf hm pt (h0.2 pt hcur), ?_⟩
    apply settle_ok
    refine ⟨afterRegion_ok m _ pt h0.1, ?_⟩
    intro pt'' h''
    cases h''

/-- the invariant of C16: the map is well-formed and no thread is about to remove the root -/
def Inv (s : Sys) : Prop := WF s.files ∧ ∀ t ∈ s.threads, ThreadOk t

/-- **wf_invariant**: for EVERY system state — any number of threads, any programs, any calls in
progress at any program point — and every thread id, one step keeps the map well-formed -/
theorem wf_invariant (s : Sys) (tid : Nat) (h : Inv s) : Inv (step s tid) := by
  cases hg : s.threads[tid]? with
  | none => rw [step_of_none s tid hg]; exact h
  | some t =>
    rw [step_of_some s tid t hg]
    have ht : ThreadOk t := h.2 t (List.mem_of_getElem? hg)
    obtain ⟨h1, h2⟩ := stepThread_wf s.files t h.1 ht
    refine ⟨h1, ?_⟩
    intro t' ht'
    rcases List.mem_or_eq_of_mem_set ht' with ht' | ht'
    · exact h.2 t' ht'
    · rw [ht']; exact h2

/-- **run_wf**: under EVERY schedule the tree stays well-formed -/
theorem run_wf (s : Sys) (schedule : List Nat) (h : Inv s) : Inv (run s schedule) :=
  run_invariant Inv (fun s tid h => wf_invariant s tid h) s h schedule

/-- the usual initial state: a well-formed map and threads that have not started, whose
programs do not contain `remove_dir("")` -/
theorem run_wf_of_programs (m : FMap) (progs : List (List COp)) (schedule : List Nat) (hm : WF m)
    (hp : ∀ prog ∈ progs, ∀ c ∈ prog, c ≠ .removeDir []) :
    WF (run { files := m, threads := progs.map fun p => { calls := p } } schedule).files := by
  refine (run_wf _ schedule ⟨hm, ?_⟩).1
  intro t ht
  simp only [List.mem_map] at ht
  obtain ⟨p, hp', rfl⟩ := ht
  exact ⟨hp p hp', fun pt h => by cases h⟩

/-! ## 2. Linearizability by reduction -/

/-! ### 2a. single-region calls -/

/-- a call is single-region (for a thread whose handle slot is `h`) if it has a region and that
region always completes the call -/
def SingleRegion (h : Option WH) (c : COp) : Prop :=
  ∃ pt, start h c = .inl pt ∧ ∀ m, ∃ r, (region m pt).next = .inr r

/-- program points whose region always completes the call -/
def PtFinal : Pt → Prop
  | .cdCreate _ | .cfCreate _ none | .apOpen _ none | .flush _ | .rmFile _ | .rmDir _
  | .obsExists _ | .obsMeta _ | .obsReadDir _ | .obsOpen _ => True
  | _ => False

theorem ptFinal_next (m : FMap) (pt : Pt) (h : PtFinal pt) : ∃ r, (region m pt).next = .inr r := by
  cases pt with
  | cdCreate p => rw [region_cdCreate]; exact ⟨_, rfl⟩
  | cfCreate p s =>
    cases s with
    | none => rw [region_cfCreate_none]; exact ⟨_, rfl⟩
    | some bs => exact h.elim
  | apOpen p s =>
    cases s with
    | none => simp only [region]; split <;> exact ⟨_, rfl⟩
    | some bs => exact h.elim
  | flush wh => exact ⟨_, rfl⟩
  | rmFile p => simp only [region]; split <;> exact ⟨_, rfl⟩
  | rmDir p => simp only [region]; split <;> exact ⟨_, rfl⟩
  | obsExists p => exact ⟨_, rfl⟩
  | obsMeta p => simp only [region]; split <;> exact ⟨_, rfl⟩
  | obsReadDir p => simp only [region]; split <;> exact ⟨_, rfl⟩
  | obsOpen p => simp only [region]; split <;> exact ⟨_, rfl⟩
  | gpExists p f s => exact h.elim
  | gpMeta p f s => exact h.elim
  | cdaLoop l => exact h.elim

/-- the trait-level calls are single-region: `remove_file`, `remove_dir`, `exists`, `metadata`,
`read_dir`, `open_file`+read, `append_file` (keeping the handle), and `write_all`+drop on an open
handle -/
theorem single_region_calls (h : Option WH) (p : Str) :
    SingleRegion h (.removeFile p) ∧ SingleRegion h (.removeDir p) ∧
    SingleRegion h (.exists_ p) ∧ SingleRegion h (.metadata p) ∧
    SingleRegion h (.readDir p) ∧ SingleRegion h (.read p) ∧
    SingleRegion h (.appendOpen p) ∧
    (∀ wh bs, SingleRegion (some wh) (.writeDrop bs)) :=
  ⟨⟨_, rfl, fun m => ptFinal_next m _ trivial⟩, ⟨_, rfl, fun m => ptFinal_next m _ trivial⟩,
   ⟨_, rfl, fun m => ptFinal_next m _ trivial⟩, ⟨_, rfl, fun m => ptFinal_next m _ trivial⟩,
   ⟨_, rfl, fun m => ptFinal_next m _ trivial⟩, ⟨_, rfl, fun m => ptFinal_next m _ trivial⟩,
   ⟨_, rfl, fun m => ptFinal_next m _ trivial⟩,
   fun _ _ => ⟨_, rfl, fun m => ptFinal_next m _ trivial⟩⟩

/-- **single_region_atomic**: a settled thread whose next call is single-region executes, in ONE
step, exactly `callAtomic` of that call: same map, same handle slot, same result (then it is
brought to its next lock acquisition) -/
theorem single_region_atomic (m : FMap) (t : Thread) (c : COp) (rest : List COp)
    (hcur : t.cur = none) (hcalls : t.calls = c :: rest) (hs : SingleRegion t.handle c)
    (fuel : Nat) :
    ∃ pt, start t.handle c = .inl pt ∧
      stepThread m t = ((callAtomic (fuel + 1) m t.handle c).1,
        settle (rest.length + 1)
          { calls := rest, cur := none, handle := (callAtomic (fuel + 1) m t.handle c).2.1,
            results := t.results ++ [(callAtomic (fuel + 1) m t.handle c).2.2],
            labels := t.labels ++ [pt.label] }) := by
  obtain ⟨pt, hstart, hfin⟩ := hs
  obtain ⟨r, hr⟩ := hfin m
  refine ⟨pt, hstart, ?_⟩
  have hset : settle (t.calls.length + 1) t = { t with calls := rest, cur := some pt } := by
    simp only [settle, hcur, hcalls, hstart]
  rw [stepThread_inr m t pt r (by rw [hset]) hr, hset, callAtomic_inl _ _ _ _ _ hstart,
    go_inr fuel m t.handle pt r hr]
  simp only [afterRegion, withHandle_calls, withHandle_results, withHandle_labels,
    withHandle_handle]

/-! ### 2b. the multi-region calls `create_dir` and `create_file` take effect at their last region -/

/-- the calls covered by the reduction: everything but the two write sessions (NOT atomic, see
§3) and `create_dir_all` (a loop of `create_dir` calls, see C17) -/
def LinCall : COp → Prop
  | .writeSession _ _ | .appendSession _ _ | .createDirAll _ => False
  | _ => True

/-- `Reaches h c pt`: the call `c` of a thread with handle slot `h` can be in progress at program
point `pt`; all regions before `pt` were read-only probes -/
inductive Reaches (h : Option WH) : COp → Pt → Prop
  | first (c : COp) (pt : Pt) : LinCall c → start h c = .inl pt → Reaches h c pt
  | cdMeta (p : Str) : Reaches h (.createDir p) (.gpMeta p false none)
  | cdCreate (p : Str) : Reaches h (.createDir p) (.cdCreate p)
  | cfMeta (p : Str) : Reaches h (.createFile p) (.gpMeta p true none)
  | cfCreate (p : Str) : Reaches h (.createFile p) (.cfCreate p none)

/-- the first point of a linearizable call is either the first probe of `get_parent` or a
final point -/
theorem start_lin (h : Option WH) (c : COp) (pt : Pt) (hl : LinCall c) (hs : start h c = .inl pt) :
    (∃ p, c = .createDir p ∧ pt = .gpExists p false none) ∨
    (∃ p, c = .createFile p ∧ pt = .gpExists p true none) ∨ PtFinal pt := by
  cases c with
  | createDir p => left; exact ⟨p, rfl, by simpa [start] using hs.symm⟩
  | createFile p => right; left; exact ⟨p, rfl, by simpa [start] using hs.symm⟩
  | writeSession p bs => exact hl.elim
  | appendSession p bs => exact hl.elim
  | createDirAll p => exact hl.elim
  | writeDrop bs =>
    right; right
    cases h <;> simp only [start, Sum.inl.injEq, reduceCtorEq] at hs
    subst hs; trivial
  | _ =>
    right; right
    simp only [start, Sum.inl.injEq] at hs
    subst hs; trivial

/-- **the reduction lemma**. Let the call `c` be in progress at `pt`, and let its next region run
on an ARBITRARY map `m` (the other threads may have done anything since the previous region).
Then either the region is a read-only probe that passes (the map and the handle slot are
untouched and the call is still in progress), or the region completes the call — and then the
map, the handle slot and the result are EXACTLY those of the whole call executed atomically on
`m`. So the call takes effect atomically at its last executed region. -/
theorem reaches_region (h : Option WH) (c : COp) (pt : Pt) (hr : Reaches h c pt) (m : FMap) :
    ((region m pt).files = m ∧ (region m pt).handle = none ∧
      ∃ pt', (region m pt).next = .inl pt' ∧ Reaches h c pt') ∨
    (∃ r, (region m pt).next = .inr r ∧
      callAtomic 4 m h c = ((region m pt).files, newHandle h (region m pt).handle, r)) := by
  -- a final point: one region, which is the atomic call
  have final : ∀ c pt, start h c = .inl pt → PtFinal pt →
      ∃ r, (region m pt).next = .inr r ∧
        callAtomic 4 m h c = ((region m pt).files, newHandle h (region m pt).handle, r) := by
    intro c pt hs hf
    obtain ⟨r, hr⟩ := ptFinal_next m pt hf
    exact ⟨r, hr, by rw [callAtomic_inl _ _ _ _ _ hs, go_inr 3 m h pt r hr]⟩
  -- the first probe of `get_parent`
  have probe1 : ∀ c p f, start h c = .inl (.gpExists p f none) →
      Reaches h c (.gpMeta p f none) →
      ((region m (.gpExists p f none)).files = m ∧ (region m (.gpExists p f none)).handle = none ∧
        ∃ pt', (region m (.gpExists p f none)).next = .inl pt' ∧ Reaches h c pt') ∨
      (∃ r, (region m (.gpExists p f none)).next = .inr r ∧
        callAtomic 4 m h c = ((region m (.gpExists p f none)).files,
          newHandle h (region m (.gpExists p f none)).handle, r)) := by
    intro c p f hs hnext
    by_cases hp : ParentDir m p
    · left; rw [(gp_ok m p f none hp).1]; exact ⟨rfl, rfl, _, rfl, hnext⟩
    · rcases (gp_fail m p f none hp).1 with h1 | h1
      · right; rw [h1]
        exact ⟨.err, rfl, by rw [callAtomic_inl _ _ _ _ _ hs, (atomic_gp_fail 2 m h p f none hp).1]; rfl⟩
      · left; rw [h1]; exact ⟨rfl, rfl, _, rfl, hnext⟩
  -- the second probe
  have probe2 : ∀ c p f, start h c = .inl (.gpExists p f none) →
      Reaches h c (if f then .cfCreate p none else .cdCreate p) →
      ((region m (.gpMeta p f none)).files = m ∧ (region m (.gpMeta p f none)).handle = none ∧
        ∃ pt', (region m (.gpMeta p f none)).next = .inl pt' ∧ Reaches h c pt') ∨
      (∃ r, (region m (.gpMeta p f none)).next = .inr r ∧
        callAtomic 4 m h c = ((region m (.gpMeta p f none)).files,
          newHandle h (region m (.gpMeta p f none)).handle, r)) := by
    intro c p f hs hnext
    by_cases hp : ParentDir m p
    · left; rw [(gp_ok m p f none hp).2]; exact ⟨rfl, rfl, _, rfl, hnext⟩
    · right; rw [(gp_fail m p f none hp).2]
      exact ⟨.err, rfl, by rw [callAtomic_inl _ _ _ _ _ hs, (atomic_gp_fail 2 m h p f none hp).1]; rfl⟩
  cases hr with
  | first c pt hl hs =>
    rcases start_lin h c pt hl hs with ⟨p, rfl, rfl⟩ | ⟨p, rfl, rfl⟩ | hf
    · exact probe1 _ p false hs (.cdMeta p)
    · exact probe1 _ p true hs (.cfMeta p)
    · exact Or.inr (final c pt hs hf)
  | cdMeta p => exact probe2 _ p false rfl (.cdCreate p)
  | cfMeta p => exact probe2 _ p true rfl (.cfCreate p)
  | cdCreate p =>
    right
    by_cases hp : ParentDir m p
    · obtain ⟨r, hr⟩ := ptFinal_next m (.cdCreate p) trivial
      refine ⟨r, hr, ?_⟩
      rw [callAtomic_inl 4 m h (.createDir p) (.gpExists p false none) rfl, atomic_gp_ok 2 m h p false none hp]
      exact go_inr 1 m h _ r hr
    · obtain ⟨h1, h2⟩ := createDir_noparent m p hp
      refine ⟨.err, by rw [region_cdCreate, h2], ?_⟩
      rw [callAtomic_inl 4 m h (.createDir p) (.gpExists p false none) rfl,
        (atomic_gp_fail 2 m h p false none hp).1, region_cdCreate, h1]
      rfl
  | cfCreate p =>
    right
    by_cases hp : ParentDir m p
    · obtain ⟨r, hr⟩ := ptFinal_next m (.cfCreate p none) trivial
      refine ⟨r, hr, ?_⟩
      rw [callAtomic_inl 4 m h (.createFile p) (.gpExists p true none) rfl, atomic_gp_ok 2 m h p true none hp]
      exact go_inr 1 m h _ r hr
    · obtain ⟨h1, h2, h3⟩ := createFile_noparent m p hp
      refine ⟨.err, by rw [region_cfCreate_none, h2], ?_⟩
      rw [callAtomic_inl 4 m h (.createFile p) (.gpExists p true none) rfl,
        (atomic_gp_fail 2 m h p true none hp).1, region_cfCreate_none]
      rw [h3, h1]
      rfl

/-- the two probes of `get_parent`, each on its own map: read-only; a probe that fails returns
the error that the whole call, executed atomically on that map, returns (changing nothing) -/
theorem probes_linearize (c : COp) (p : Str) (f : Bool) (h : Option WH)
    (hs : start h c = .inl (.gpExists p f none)) (m1 m2 : FMap) :
    ((region m1 (.gpExists p f none)).files = m1 ∧ (region m1 (.gpExists p f none)).handle = none ∧
      ((region m1 (.gpExists p f none)).next = .inl (.gpMeta p f none) ∨
       ((region m1 (.gpExists p f none)).next = .inr .err ∧
          callAtomic 4 m1 h c = (m1, h, .err)))) ∧
    ((region m2 (.gpMeta p f none)).files = m2 ∧ (region m2 (.gpMeta p f none)).handle = none ∧
      ((region m2 (.gpMeta p f none)).next = .inl (if f then .cfCreate p none else .cdCreate p) ∨
       ((region m2 (.gpMeta p f none)).next = .inr .err ∧
          callAtomic 4 m2 h c = (m2, h, .err)))) := by
  constructor
  · by_cases hp : ParentDir m1 p
    · rw [(gp_ok m1 p f none hp).1]; exact ⟨rfl, rfl, Or.inl rfl⟩
    · rcases (gp_fail m1 p f none hp).1 with h1 | h1
      · rw [h1]
        exact ⟨rfl, rfl, Or.inr ⟨rfl, by
          rw [callAtomic_inl _ _ _ _ _ hs, (atomic_gp_fail 2 m1 h p f none hp).1]⟩⟩
      · rw [h1]; exact ⟨rfl, rfl, Or.inl rfl⟩
  · by_cases hp : ParentDir m2 p
    · rw [(gp_ok m2 p f none hp).2]; exact ⟨rfl, rfl, Or.inl rfl⟩
    · rw [(gp_fail m2 p f none hp).2]
      exact ⟨rfl, rfl, Or.inr ⟨rfl, by
        rw [callAtomic_inl _ _ _ _ _ hs, (atomic_gp_fail 2 m2 h p f none hp).1]⟩⟩

/-- **createDir_linearizes_at_last_region**: `VfsPath::create_dir(p)` is three lock regions
(`exists(parent)`, `metadata(parent)`, `MemoryFS::create_dir`), running on three maps `m1 m2 m3`
between which the other threads may have done anything. Regions 1 and 2 change nothing; if one of
them exits, it exits with `Err`, which is what the atomic call on that map returns (changing
nothing). If the call gets to region 3, the new map, the handle slot and the result are EXACTLY
those of the whole call executed atomically on `m3`: the call takes effect at its last region. -/
theorem createDir_linearizes_at_last_region (p : Str) (h : Option WH) (m1 m2 m3 : FMap) :
    ((region m1 (.gpExists p false none)).files = m1 ∧
      (region m1 (.gpExists p false none)).handle = none ∧
      ((region m1 (.gpExists p false none)).next = .inl (.gpMeta p false none) ∨
       ((region m1 (.gpExists p false none)).next = .inr .err ∧
          callAtomic 4 m1 h (.createDir p) = (m1, h, .err)))) ∧
    ((region m2 (.gpMeta p false none)).files = m2 ∧
      (region m2 (.gpMeta p false none)).handle = none ∧
      ((region m2 (.gpMeta p false none)).next = .inl (.cdCreate p) ∨
       ((region m2 (.gpMeta p false none)).next = .inr .err ∧
          callAtomic 4 m2 h (.createDir p) = (m2, h, .err)))) ∧
    (∃ r, (region m3 (.cdCreate p)).next = .inr r ∧ (region m3 (.cdCreate p)).handle = none ∧
      callAtomic 4 m3 h (.createDir p) = ((region m3 (.cdCreate p)).files, h, r)) := by
  obtain ⟨h1, h2⟩ := probes_linearize (.createDir p) p false h rfl m1 m2
  refine ⟨h1, h2, ?_⟩
  rcases reaches_region h _ _ (.cdCreate p) m3 with ⟨_, _, pt', hn, _⟩ | ⟨r, hn, heq⟩
  · rw [region_cdCreate] at hn; cases hn
  · refine ⟨r, hn, by rw [region_cdCreate], ?_⟩
    rw [heq, region_cdCreate]; rfl

/-- **createFile_linearizes_at_last_region**: the same for `VfsPath::create_file(p)` (regions
`exists(parent)`, `metadata(parent)`, `MemoryFS::create_file`; the write handle is kept): it takes
effect — the empty file and the new handle — atomically at its last region -/
theorem createFile_linearizes_at_last_region (p : Str) (h : Option WH) (m1 m2 m3 : FMap) :
    ((region m1 (.gpExists p true none)).files = m1 ∧
      (region m1 (.gpExists p true none)).handle = none ∧
      ((region m1 (.gpExists p true none)).next = .inl (.gpMeta p true none) ∨
       ((region m1 (.gpExists p true none)).next = .inr .err ∧
          callAtomic 4 m1 h (.createFile p) = (m1, h, .err)))) ∧
    ((region m2 (.gpMeta p true none)).files = m2 ∧
      (region m2 (.gpMeta p true none)).handle = none ∧
      ((region m2 (.gpMeta p true none)).next = .inl (.cfCreate p none) ∨
       ((region m2 (.gpMeta p true none)).next = .inr .err ∧
          callAtomic 4 m2 h (.createFile p) = (m2, h, .err)))) ∧
    (∃ r, (region m3 (.cfCreate p none)).next = .inr r ∧
      callAtomic 4 m3 h (.createFile p) =
        ((region m3 (.cfCreate p none)).files, newHandle h (region m3 (.cfCreate p none)).handle, r)) := by
  obtain ⟨h1, h2⟩ := probes_linearize (.createFile p) p true h rfl m1 m2
  refine ⟨h1, h2, ?_⟩
  rcases reaches_region h _ _ (.cfCreate p) m3 with ⟨_, _, pt', hn, _⟩ | ⟨r, hn, heq⟩
  · rw [region_cfCreate_none] at hn; cases hn
  · exact ⟨r, hn, heq⟩

/-! ### 2c. the global theorem: every interleaving is a sequential execution -/

/-- a thread of the sequential reference machine: no program points, calls are atomic -/
structure AThread where
  calls : List COp
  handle : Option WH := none
  results : List CRes := []

/-- the thread executes its next call atomically -/
def stepAT (m : FMap) (a : AThread) : FMap × AThread :=
  match a.calls with
  | [] => (m, a)
  | c :: rest =>
    ((callAtomic 4 m a.handle c).1,
      { calls := rest, handle := (callAtomic 4 m a.handle c).2.1,
        results := a.results ++ [(callAtomic 4 m a.handle c).2.2] })

def iterAT : Nat → FMap × AThread → FMap × AThread
  | 0, x => x
  | k + 1, x => iterAT k (stepAT x.1 x.2)

theorem iterAT_add (j k : Nat) (x : FMap × AThread) : iterAT (j + k) x = iterAT k (iterAT j x) := by
  induction j generalizing x with
  | zero => simp [iterAT]
  | succ j ih => rw [Nat.add_right_comm]; exact ih _

structure ASys where
  files : FMap
  threads : List AThread

/-- the sequential reference machine: thread `tid` executes its next call atomically -/
def stepA (s : ASys) (tid : Nat) : ASys :=
  match s.threads[tid]? with
  | none => s
  | some a => { files := (stepAT s.files a).1, threads := s.threads.set tid (stepAT s.files a).2 }

/-- a sequential execution: the list says which thread executes its next call -/
def runA (s : ASys) (order : List Nat) : ASys := order.foldl stepA s

theorem runA_append (s : ASys) (a b : List Nat) : runA s (a ++ b) = runA (runA s a) b := by
  simp [runA, List.foldl_append]

theorem runA_replicate (k : Nat) (s : ASys) (tid : Nat) (a : AThread)
    (h : s.threads[tid]? = some a) :
    runA s (List.replicate k tid) =
      { files := (iterAT k (s.files, a)).1, threads := s.threads.set tid (iterAT k (s.files, a)).2 } := by
  induction k generalizing s a with
  | zero =>
    obtain ⟨hlt, rfl⟩ := List.getElem?_eq_some_iff.1 h
    simp [runA, iterAT, List.set_getElem_self hlt]
  | succ k ih =>
    have hlt : tid < s.threads.length := (List.getElem?_eq_some_iff.1 h).1
    have hstep : stepA s tid =
        { files := (stepAT s.files a).1, threads := s.threads.set tid (stepAT s.files a).2 } := by
      simp [stepA, h]
    rw [List.replicate_succ]
    show runA (stepA s tid) (List.replicate k tid) = _
    rw [hstep, ih _ (stepAT s.files a).2 (by simp [List.getElem?_set_self hlt])]
    simp [iterAT, List.set_set]

/-- the simulation relation between a thread of the concurrent machine and one of the sequential
machine: same handle slot, same results; the call in progress (if any) has not been executed by
the sequential thread yet — all its regions so far were read-only probes -/
def Rel (t : Thread) (a : AThread) : Prop :=
  a.handle = t.handle ∧ a.results = t.results ∧ (∀ c ∈ t.calls, LinCall c) ∧
  ((t.cur = none ∧ a.calls = t.calls) ∨
   (∃ pt c, t.cur = some pt ∧ a.calls = c :: t.calls ∧ Reaches t.handle c pt))

/-- `settle` (calls without any region complete at once) is matched by atomic steps -/
theorem settle_sim (m : FMap) (fuel : Nat) (t : Thread) (a : AThread) (h : Rel t a) :
    ∃ k a', iterAT k (m, a) = (m, a') ∧ Rel (settle fuel t) a' := by
  induction fuel generalizing t a with
  | zero => exact ⟨0, a, rfl, h⟩
  | succ n ih =>
    unfold settle
    split
    · exact ⟨0, a, rfl, h⟩
    · rename_i hcur
      split
      · exact ⟨0, a, rfl, h⟩
      · rename_i c rest hcalls
        obtain ⟨h1, h2, h3, h4⟩ := h
        have hac : a.calls = c :: rest := by
          rcases h4 with ⟨_, h4⟩ | ⟨pt, c', h4, _⟩
          · rw [h4, hcalls]
          · rw [hcur] at h4; cases h4
        have hlc : LinCall c := h3 c (by rw [hcalls]; simp)
        have hlrest : ∀ c' ∈ rest, LinCall c' := fun c' hc' => h3 c' (by rw [hcalls]; simp [hc'])
        split
        · rename_i pt hs
          exact ⟨0, a, rfl, h1, h2, hlrest, Or.inr ⟨pt, c, rfl, hac, .first c pt hlc hs⟩⟩
        · rename_i r hs
          have hat : stepAT m a =
              (m, { calls := rest, handle := a.handle, results := a.results ++ [r] }) := by
            simp only [stepAT, hac, h1, callAtomic_inr 4 m t.handle c r hs]
          obtain ⟨k, a', hk, hrel⟩ := ih { t with calls := rest, results := t.results ++ [r] }
            { calls := rest, handle := a.handle, results := a.results ++ [r] }
            ⟨h1, by simp [h2], hlrest, Or.inl ⟨hcur, rfl⟩⟩
          refine ⟨k + 1, a', ?_, hrel⟩
          rw [Nat.add_comm, iterAT_add]
          simp only [iterAT, hat]
          exact hk

/-- one step of a thread of the concurrent machine is matched by `k` atomic steps of the
sequential thread: `k = 0` for a probe that passes; otherwise the completed call (plus the
region-less calls completed on the way) -/
theorem stepThread_sim (m : FMap) (t : Thread) (a : AThread) (h : Rel t a) :
    ∃ k a', iterAT k (m, a) = ((stepThread m t).1, a') ∧ Rel (stepThread m t).2 a' := by
  obtain ⟨k1, a1, hk1, hrel1⟩ := settle_sim m (t.calls.length + 1) t a h
  rcases stepThread_cases m t with ⟨_, heq⟩ | ⟨pt, hcur, ⟨pt', hn, heq⟩ | ⟨r, hn, heq⟩⟩
  · rw [heq]; exact ⟨k1, a1, hk1, hrel1⟩
  · -- a region that continues the call: a read-only probe
    obtain ⟨g1, g2, g3, g4⟩ := hrel1
    rcases g4 with ⟨g4, _⟩ | ⟨pt0, c, g4, g5, g6⟩
    · rw [hcur] at g4; cases g4
    · rw [hcur] at g4; injection g4 with g4; subst g4
      rcases reaches_region _ c pt g6 m with ⟨e1, e2, pt'', e3, e4⟩ | ⟨r, e3, _⟩
      · rw [hn] at e3; injection e3 with e3; subst e3
        rw [heq, e1]
        refine ⟨k1, a1, hk1, ?_, by simpa using g2, by simpa using g3, Or.inr ⟨pt', c, rfl, by simpa using g5, ?_⟩⟩
        · simp [afterRegion_handle, e2, newHandle, g1]
        · simpa [afterRegion_handle, e2, newHandle] using e4
      · rw [hn] at e3; cases e3
  · -- a region that completes the call: the atomic call on the current map
    obtain ⟨g1, g2, g3, g4⟩ := hrel1
    rcases g4 with ⟨g4, _⟩ | ⟨pt0, c, g4, g5, g6⟩
    · rw [hcur] at g4; cases g4
    · rw [hcur] at g4; injection g4 with g4; subst g4
      rcases reaches_region _ c pt g6 m with ⟨_, _, pt'', e3, _⟩ | ⟨r', e3, e4⟩
      · rw [hn] at e3; cases e3
      · rw [hn] at e3; injection e3 with e3; subst e3
        have hat : stepAT m a1 = ((region m pt).files,
            { calls := (settle (t.calls.length + 1) t).calls,
              handle := newHandle (settle (t.calls.length + 1) t).handle (region m pt).handle,
              results := a1.results ++ [r] }) := by
          simp only [stepAT, g5, g1, e4]
        obtain ⟨k3, a3, hk3, hrel3⟩ := settle_sim (region m pt).files
          ((afterRegion m (settle (t.calls.length + 1) t) pt).calls.length + 1)
          { afterRegion m (settle (t.calls.length + 1) t) pt with
            cur := none
            results := (afterRegion m (settle (t.calls.length + 1) t) pt).results ++ [r] }
          { calls := (settle (t.calls.length + 1) t).calls,
            handle := newHandle (settle (t.calls.length + 1) t).handle (region m pt).handle,
            results := a1.results ++ [r] }
          ⟨by simp [afterRegion_handle], by simp [g2], by simpa using g3, Or.inl ⟨rfl, by simp⟩⟩
        rw [heq]
        refine ⟨k1 + (1 + k3), a3, ?_, hrel3⟩
        rw [iterAT_add, hk1, iterAT_add]
        simp only [iterAT, hat]
        exact hk3

/-- the simulation relation between the two machines -/
structure SRel (s : Sys) (sa : ASys) : Prop where
  files : sa.files = s.files
  len : sa.threads.length = s.threads.length
  thr : ∀ (i : Nat) (t : Thread) (a : AThread),
    s.threads[i]? = some t → sa.threads[i]? = some a → Rel t a

theorem step_sim (s : Sys) (sa : ASys) (tid : Nat) (h : SRel s sa) :
    ∃ k, SRel (step s tid) (runA sa (List.replicate k tid)) := by
  cases hg : s.threads[tid]? with
  | none => rw [step_of_none s tid hg]; exact ⟨0, h⟩
  | some t =>
    have hlt : tid < s.threads.length := (List.getElem?_eq_some_iff.1 hg).1
    have hlta : tid < sa.threads.length := by rw [h.len]; exact hlt
    have hga : sa.threads[tid]? = some sa.threads[tid] := List.getElem?_eq_getElem hlta
    obtain ⟨k, a', hk, hrel⟩ := stepThread_sim s.files t sa.threads[tid] (h.thr tid t _ hg hga)
    refine ⟨k, ?_⟩
    rw [step_of_some s tid t hg, runA_replicate k sa tid _ hga, h.files, hk]
    refine ⟨rfl, by simp [h.len], ?_⟩
    intro i t' a'' ht' ha''
    by_cases hi : tid = i
    · subst hi
      rw [List.getElem?_set_self hlt] at ht'
      rw [List.getElem?_set_self hlta] at ha''
      injection ht' with ht'; injection ha'' with ha''
      subst ht'; subst ha''
      exact hrel
    · rw [List.getElem?_set_ne hi] at ht' ha''
      exact h.thr i t' a'' ht' ha''

/-- the sequential order belonging to a schedule: entry `i` of the schedule repeated `ks[i]`
times (`ks[i]` = number of calls the `i`-th step completes: `0` for a step that is not the last
region of its call) — i.e. the calls ordered by their LAST executed region -/
def orderOf (ks schedule : List Nat) : List Nat :=
  (List.zipWith (fun k tid => List.replicate k tid) ks schedule).flatten

theorem run_sim (schedule : List Nat) (s : Sys) (sa : ASys) (h : SRel s sa) :
    ∃ ks : List Nat, ks.length = schedule.length ∧
      SRel (run s schedule) (runA sa (orderOf ks schedule)) := by
  induction schedule generalizing s sa with
  | nil => exact ⟨[], rfl, h⟩
  | cons tid rest ih =>
    obtain ⟨k, hk⟩ := step_sim s sa tid h
    obtain ⟨ks, hlen, hks⟩ := ih (step s tid) _ hk
    refine ⟨k :: ks, by simp [hlen], ?_⟩
    simp only [orderOf, List.zipWith_cons_cons, List.flatten_cons, runA_append]
    exact hks

/-- the sequential machine started on the same programs -/
def absSys (s : Sys) : ASys :=
  { files := s.files,
    threads := s.threads.map fun t => { calls := t.calls, handle := t.handle, results := t.results } }

/-- **linearizable** (C16, global form). Any number of threads, any programs made of the calls
`create_dir`, `create_file`, `append_file`(open), `write_all`+drop, `remove_file`, `remove_dir`,
`exists`, `metadata`, `read_dir`, `open_file`+read (`LinCall`), no call in progress initially.
For EVERY schedule — complete or not — there is a sequential execution of the same programs on
the sequential reference machine (each call atomic; each thread's calls in program order, by
construction of that machine), namely the calls ordered by their last executed region
(`orderOf ks schedule`), after which
 * the map is the same,
 * every thread has the same handle slot and the same list of results (the exact values,
   observers included),
 * the calls not yet executed by the sequential thread are exactly the calls not yet completed
   by the concurrent thread (a call in progress has only done read-only probes so far). -/
theorem linearizable (s0 : Sys) (h0 : ∀ t ∈ s0.threads, t.cur = none ∧ ∀ c ∈ t.calls, LinCall c)
    (schedule : List Nat) :
    ∃ ks : List Nat, ks.length = schedule.length ∧
      SRel (run s0 schedule) (runA (absSys s0) (orderOf ks schedule)) := by
  apply run_sim
  refine ⟨rfl, by simp [absSys], ?_⟩
  intro i t a ht ha
  simp only [absSys, List.getElem?_map, ht, Option.map_some, Option.some.injEq] at ha
  subst ha
  obtain ⟨h1, h2⟩ := h0 t (List.mem_of_getElem? ht)
  exact ⟨rfl, rfl, h2, Or.inl ⟨h1, rfl⟩⟩

/-- … in particular for a schedule that runs every thread to completion: same final map, and
for every thread the same results, with every call of every program executed by the sequential
machine -/
theorem linearizable_complete (s0 : Sys)
    (h0 : ∀ t ∈ s0.threads, t.cur = none ∧ ∀ c ∈ t.calls, LinCall c) (schedule : List Nat)
    (hfin : ∀ t ∈ (run s0 schedule).threads, t.cur = none ∧ t.calls = []) :
    ∃ order : List Nat,
      (runA (absSys s0) order).files = (run s0 schedule).files ∧
      (runA (absSys s0) order).threads.map (fun a => (a.calls, a.handle, a.results)) =
        (run s0 schedule).threads.map (fun t => ([], t.handle, t.results)) := by
  obtain ⟨ks, _, hrel⟩ := linearizable s0 h0 schedule
  refine ⟨orderOf ks schedule, hrel.files, ?_⟩
  apply List.ext_getElem?
  intro i
  simp only [List.getElem?_map]
  cases ht : (run s0 schedule).threads[i]? with
  | none =>
    have : (runA (absSys s0) (orderOf ks schedule)).threads[i]? = none := by
      rw [List.getElem?_eq_none_iff] at ht ⊢
      rw [hrel.len]; exact ht
    rw [this]; rfl
  | some t =>
    have hlt : i < (runA (absSys s0) (orderOf ks schedule)).threads.length := by
      rw [hrel.len]; exact (List.getElem?_eq_some_iff.1 ht).1
    have ha := List.getElem?_eq_getElem hlt
    obtain ⟨g1, g2, _, g4⟩ := hrel.thr i t _ ht ha
    obtain ⟨f1, f2⟩ := hfin t (List.mem_of_getElem? ht)
    rw [ha]
    rcases g4 with ⟨_, g4⟩ | ⟨pt, c, g4, _⟩
    · simp [g1, g2, g4, f2]
    · rw [f1] at g4; cases g4

end Vfs.C16
