/-
  C16 — "MemoryFS is linearizable under concurrent use: under every interleaving each call's
  result and the final state are those of some sequential execution of the same calls that
  respects each thread's program order. In particular the tree stays well-formed, no update is
  lost, and nothing panics or deadlocks."

  Object: the concurrency model VfsModel/Conc.lean (one shared map; a thread = list of calls; a
  call = the sequence of its lock regions; `step s tid` = thread `tid` runs its next region
  atomically; `run s schedule`; `callAtomic` = a whole call run atomically).
  Helper lemmas: VfsModel/Proofs/ConcLemmas.lean.

  EVERYTHING below is PROVED (no placeholder, no axiom beyond Lean's propext / Quot.sound /
  Classical.choice); nothing in this file is "stated, not proved".

  1. Well-formedness under every interleaving
       `wf_invariant`   for EVERY state (any number of threads, any programs, any calls in progress
                        at any program point) with a `WF` map and no `remove_dir("")` in any
                        thread (`Inv`), and every thread id: `step` keeps `Inv` (so the map `WF`)
       `run_wf`, `run_wf_of_programs`   hence every schedule keeps it
       `region_wf` (ConcLemmas)   every region keeps `WF` (`rmDir []` aside); uses
                        `WF.createDir_any` / `WF.createFile_any`: `MemoryFS::create_dir` /
                        `create_file` keep `WF` on EVERY path, because `ensure_has_parent` (parent
                        is an existing DIRECTORY) is evaluated inside the region of the update
     1b. the root itself: `removeDir_root` (`remove_dir("")` is refused, or the tree was the bare
       root and the map becomes empty), `wf_or_empty_invariant`, `run_wf_or_empty`: with NO
       hypothesis on the programs, every step keeps "WF or the empty map"
  2. Linearizability by reduction
       `single_region_calls`   remove_file, remove_dir, exists, metadata, read_dir, open+read,
                        append_file(open), write_all+drop are single-region
       `single_region_atomic`  for such a call one `stepThread` IS `callAtomic`
       `reaches_region`        the reduction lemma: a call in progress (`Reaches`) whose next
                        region runs on an ARBITRARY map either passes a read-only probe, or
                        completes with exactly the map / handle / result of `callAtomic` on that map
       `createDir_linearizes_at_last_region`, `createFile_linearizes_at_last_region`,
       `probes_linearize`      the three regions of create_dir / create_file on three arbitrary
                        maps m1 m2 m3: the probes change nothing, an early exit is the error of the
                        atomic call on that map, the last region equals the atomic call on m3
                        (EXACT equality of result, map and handle slot, not only up to ok/err)
       `linearizable`          GLOBAL theorem: any number of threads, any programs of `LinCall`s
                        (everything but the two sessions and create_dir_all), any schedule
                        (complete or not): the sequential machine `runA` (atomic calls, program
                        order per thread) run in the order of the calls' last regions
                        (`orderOf ks schedule`) ends in the simulation relation `SRel`: same map,
                        same handle slots, same result lists (exact values), same pending calls
       `linearizable_complete` corollary for schedules that run every thread to completion
  3. Negative facts (kernel-evaluated witnesses, `decide +kernel`)
       `writeSession_not_atomic`   a reader sees the EMPTY file between `create_file` and the drop
       `appendSession_lost_update` two append sessions, schedule t0 t1 t0 t1: one update lost
       `old_createDir_race`        variant `regionOld` (create_dir before commit 17b99c0: parent
                        checked for existence in a region of its own): create_dir("/a/b") and
                        remove_dir("/a") both return Ok, "/a/b" has no parent: not `WF`
       `race_fixed`                same calls, current model: create_dir fails, tree well-formed
       `createDirAll_not_atomic_under_removal`   why C17 excludes removals
  4. No deadlock / no panic in the model
       `step_progress`   `step` is total; a scheduled thread with a call in progress or calls
                        left strictly decreases `measure` (bound on its remaining regions)
       `stepThread_progress`, `step_other`, `stepThread_finished`, `mem_ops_no_panic`
-/
import VfsModel.Proofs.ConcLemmas
namespace Vfs.C16
open Vfs Vfs.Conc

/-! ## 1. The tree stays well-formed under every interleaving -/

/-- calls other than `remove_dir("")` -/
def COpOk (c : COp) : Prop := c ≠ .removeDir []

/-- a thread that never removes the root: neither in its remaining calls nor in the call in
progress -/
def ThreadOk (t : Thread) : Prop :=
  (∀ c ∈ t.calls, COpOk c) ∧ (∀ pt, t.cur = some pt → PtOk pt)

theorem start_ok (h : Option WH) (c : COp) (hc : COpOk c) (pt : Pt) (hs : start h c = .inl pt) :
    PtOk pt := by
  cases c with
  | removeDir p =>
    simp only [start, Sum.inl.injEq] at hs; subst hs
    exact fun h => hc (by rw [h])
  | writeDrop bs =>
    cases h <;> simp only [start, Sum.inl.injEq, reduceCtorEq] at hs
    subst hs; trivial
  | createDirAll p =>
    simp only [start] at hs
    split at hs
    · cases hs
    · injection hs with hs; subst hs; trivial
  | _ => simp only [start, Sum.inl.injEq] at hs; subst hs; trivial

/-- no region continues with `remove_dir` -/
theorem region_next_ok (m : FMap) (pt pt' : Pt) (h : (region m pt).next = .inl pt') : PtOk pt' := by
  cases pt with
  | cdaLoop l =>
    cases l with
    | nil => simp [region, okUnit] at h
    | cons d rest =>
      simp only [region] at h
      split at h <;> (try split at h) <;>
        first | (injection h with h; subst h; trivial) | (simp [okUnit] at h)
  | _ =>
    simp only [region] at h
    repeat' split at h
    all_goals first | (injection h with h; subst h; trivial) | (simp [okUnit] at h)

theorem settle_ok (fuel : Nat) (t : Thread) (h : ThreadOk t) : ThreadOk (settle fuel t) := by
  induction fuel generalizing t with
  | zero => exact h
  | succ n ih =>
    unfold settle
    split
    · exact h
    · rename_i hcur
      split
      · exact h
      · rename_i c rest hcalls
        have hc : COpOk c := h.1 c (by rw [hcalls]; simp)
        have hrest : ∀ c' ∈ rest, COpOk c' := fun c' hc' => h.1 c' (by rw [hcalls]; simp [hc'])
        split
        · rename_i pt hs
          refine ⟨hrest, ?_⟩
          intro pt' hpt'
          simp only [Option.some.injEq] at hpt'
          subst hpt'
          exact start_ok _ _ hc _ hs
        · apply ih
          refine ⟨hrest, ?_⟩
          intro pt' hpt'
          simp only [hcur] at hpt'
          cases hpt'

theorem afterRegion_ok (m : FMap) (t : Thread) (pt : Pt) (h : ∀ c ∈ t.calls, COpOk c) :
    ∀ c ∈ (afterRegion m t pt).calls, COpOk c := by
  simpa using h

/-- one scheduled thread: the map stays well-formed and the thread keeps away from the root -/
theorem stepThread_wf (m : FMap) (t : Thread) (hm : WF m) (ht : ThreadOk t) :
    WF (stepThread m t).1 ∧ ThreadOk (stepThread m t).2 := by
  have h0 : ThreadOk (settle (t.calls.length + 1) t) := settle_ok _ _ ht
  rcases stepThread_cases m t with ⟨_, heq⟩ | ⟨pt, hcur, ⟨pt', hn, heq⟩ | ⟨r, hn, heq⟩⟩
  · rw [heq]; exact ⟨hm, h0⟩
  · rw [heq]
    refine ⟨region_wf hm pt (h0.2 pt hcur), afterRegion_ok m _ pt h0.1, ?_⟩
    intro pt'' h''
    simp only [Option.some.injEq] at h''
    subst h''
    exact region_next_ok m pt _ hn
  · rw [heq]
    refine ⟨region_wf hm pt (h0.2 pt hcur), ?_⟩
    apply settle_ok
    refine ⟨afterRegion_ok m _ pt h0.1, ?_⟩
    intro pt'' h''
    cases h''

/-- the invariant of C16: the map is well-formed and no thread is about to remove the root -/
def Inv (s : Sys) : Prop := WF s.files ∧ ∀ t ∈ s.threads, ThreadOk t

/-- **wf_invariant**: for EVERY system state — any number of threads, any programs, any calls in
progress at any program point — and every thread id, one step keeps the map well-formed -/
theorem wf_invariant (s : Sys) (tid : Nat) (h : Inv s) : Inv (step s tid) := by
  cases hg : s.threads[tid]? with
  | none => rw [step_of_none s tid hg]; exact h
  | some t =>
    rw [step_of_some s tid t hg]
    have ht : ThreadOk t := h.2 t (List.mem_of_getElem? hg)
    obtain ⟨h1, h2⟩ := stepThread_wf s.files t h.1 ht
    refine ⟨h1, ?_⟩
    intro t' ht'
    rcases List.mem_or_eq_of_mem_set ht' with ht' | ht'
    · exact h.2 t' ht'
    · rw [ht']; exact h2

/-- **run_wf**: under EVERY schedule the tree stays well-formed -/
theorem run_wf (s : Sys) (schedule : List Nat) (h : Inv s) : Inv (run s schedule) :=
  run_invariant Inv (fun s tid h => wf_invariant s tid h) s h schedule

/-- the usual initial state: a well-formed map and threads that have not started, whose
programs do not contain `remove_dir("")` -/
theorem run_wf_of_programs (m : FMap) (progs : List (List COp)) (schedule : List Nat) (hm : WF m)
    (hp : ∀ prog ∈ progs, ∀ c ∈ prog, c ≠ .removeDir []) :
    WF (run { files := m, threads := progs.map fun p => { calls := p } } schedule).files := by
  refine (run_wf _ schedule ⟨hm, ?_⟩).1
  intro t ht
  simp only [List.mem_map] at ht
  obtain ⟨p, hp', rfl⟩ := ht
  exact ⟨hp p hp', fun pt h => by cases h⟩

/-! ### 1b. what happens when the root itself is removed

`remove_dir("")` succeeds on a tree that consists of the root only, and leaves the EMPTY map, on
which every later call fails without changing anything. So without any hypothesis on the
programs the invariant is "well-formed, or empty". -/

/-- the empty map (the state after `remove_dir("")` on the bare root) -/
def Empty (m : FMap) : Prop := ∀ k, m.find? k = none

theorem regionFiles_empty (m : FMap) (pt : Pt) (h : Empty m) : regionFiles m pt = m := by
  cases pt with
  | cdaLoop l =>
    cases l with
    | nil => rfl
    | cons d rest =>
      simp [regionFiles, Mem.createDir, Mem.ensureHasParent, h (parentInternal d), fail]
  | cdCreate p => simp [regionFiles, Mem.createDir, Mem.ensureHasParent, h (parentInternal p), fail]
  | cfCreate p s => simp [regionFiles, Mem.createFile, Mem.ensureHasParent, h (parentInternal p), fail]
  | flush wh => simp [regionFiles, memPublish, h wh.key]
  | rmFile p => simp [regionFiles, Mem.removeFile, h p]
  | rmDir p => simp [regionFiles, Mem.removeDir, Mem.readDir, h p, fail]
  | obsOpen p => simp [regionFiles, Mem.openFile, Mem.setAccessed, h p, fail]
  | gpExists p f s => rfl
  | gpMeta p f s => rfl
  | apOpen p s => rfl
  | obsExists p => rfl
  | obsMeta p => rfl
  | obsReadDir p => rfl

theorem parent_shorter (k : Str) (hs : '/' ∈ k) : (parentInternal k).length < k.length := by
  have h := (split_last '/' k hs).1
  have : k.length = (beforeLast '/' k ++ '/' :: afterLast '/' k).length := by rw [← h]
  simp only [List.length_append, List.length_cons] at this
  unfold parentInternal
  omega

/-- in a well-formed tree whose root has no children there is nothing but the root -/
theorem _root_.Vfs.WF.only_root {m : FMap} (hwf : WF m) (hl : m.keys.filterMap (childName []) = []) :
    ∀ k, k ≠ [] → m.find? k = none := by
  have key : ∀ n (k : Str), k.length = n → k ≠ [] → m.find? k = none := by
    intro n
    induction n using Nat.strongRecOn with
    | ind n ih =>
      intro k hlen hne
      cases hk : m.find? k with
      | none => rfl
      | some e =>
        obtain ⟨hs, pe, hpe, _⟩ := hwf.2 k e hk hne
        by_cases hp : parentInternal k = []
        · have : afterLast '/' k ∈ m.keys.filterMap (childName []) :=
            (mem_filterMap_childName m [] _).2 ⟨k, e, hk, hs, hp, rfl⟩
          rw [hl] at this
          cases this
        · have := ih _ (by rw [← hlen]; exact parent_shorter k hs) (parentInternal k) rfl hp
          rw [this] at hpe
          cases hpe
  intro k hne
  exact key k.length k rfl hne

/-- `remove_dir("")`: either refused (the tree stays as it is), or the tree was the bare root
and the map is empty afterwards -/
theorem removeDir_root {m : FMap} (hwf : WF m) :
    WF (Mem.removeDir m []).2 ∨ Empty (Mem.removeDir m []).2 := by
  unfold Mem.removeDir
  split
  · rename_i l hl
    split
    · exact Or.inl hwf
    · rename_i hnil
      have hl' : l = [] := by simpa using hnil
      subst hl'
      split
      · right
        have hlist : m.keys.filterMap (childName []) = [] := by
          unfold Mem.readDir at hl
          split at hl
          · simp [fail] at hl
          · split at hl
            · simp [fail] at hl
            · injection hl
        intro k
        by_cases hk : k = []
        · subst hk; exact FMap.find?_erase_self m []
        · rw [FMap.find?_erase_ne m [] k hk]
          exact hwf.only_root hlist k hk
      · exact Or.inl hwf
  · exact Or.inl hwf
  · exact Or.inl hwf

theorem region_wf_or_empty (m : FMap) (pt : Pt) (h : WF m ∨ Empty m) :
    WF (region m pt).files ∨ Empty (region m pt).files := by
  rcases h with h | h
  · by_cases hpt : PtOk pt
    · exact Or.inl (region_wf h pt hpt)
    · cases pt with
      | rmDir p =>
        have hp : p = [] := by
          by_cases hp : p = []
          · exact hp
          · exact absurd hp hpt
        subst hp
        rw [region_files]
        exact removeDir_root h
      | _ => exact absurd trivial hpt
  · rw [region_files, regionFiles_empty m pt h]
    exact Or.inr h

/-- **wf_or_empty_invariant**: with NO hypothesis on the programs (they may call
`remove_dir("")`): every step keeps "the tree is well-formed, or the map is empty" -/
theorem wf_or_empty_invariant (s : Sys) (tid : Nat) (h : WF s.files ∨ Empty s.files) :
    WF (step s tid).files ∨ Empty (step s tid).files := by
  cases hg : s.threads[tid]? with
  | none => rw [step_of_none s tid hg]; exact h
  | some t =>
    rw [step_of_some s tid t hg]
    rcases stepThread_cases s.files t with ⟨_, heq⟩ | ⟨pt, _, ⟨_, _, heq⟩ | ⟨_, _, heq⟩⟩
    · rw [heq]; exact h
    · rw [heq]; exact region_wf_or_empty s.files pt h
    · rw [heq]; exact region_wf_or_empty s.files pt h

theorem run_wf_or_empty (s : Sys) (schedule : List Nat) (h : WF s.files ∨ Empty s.files) :
    WF (run s schedule).files ∨ Empty (run s schedule).files :=
  run_invariant (fun s => WF s.files ∨ Empty s.files) (fun s tid h => wf_or_empty_invariant s tid h)
    s h schedule

/-! ## 2. Linearizability by reduction -/

/-! ### 2a. single-region calls -/

/-- a call is single-region (for a thread whose handle slot is `h`) if it has a region and that
region always completes the call -/
def SingleRegion (h : Option WH) (c : COp) : Prop :=
  ∃ pt, start h c = .inl pt ∧ ∀ m, ∃ r, (region m pt).next = .inr r

/-- program points whose region always completes the call -/
def PtFinal : Pt → Prop
  | .cdCreate _ | .cfCreate _ none | .apOpen _ none | .flush _ | .rmFile _ | .rmDir _
  | .obsExists _ | .obsMeta _ | .obsReadDir _ | .obsOpen _ => True
  | _ => False

theorem ptFinal_next (m : FMap) (pt : Pt) (h : PtFinal pt) : ∃ r, (region m pt).next = .inr r := by
  cases pt with
  | cdCreate p => rw [region_cdCreate]; exact ⟨_, rfl⟩
  | cfCreate p s =>
    cases s with
    | none => rw [region_cfCreate_none]; exact ⟨_, rfl⟩
    | some bs => exact h.elim
  | apOpen p s =>
    cases s with
    | none => simp only [region]; split <;> exact ⟨_, rfl⟩
    | some bs => exact h.elim
  | flush wh => exact ⟨_, rfl⟩
  | rmFile p => simp only [region]; split <;> exact ⟨_, rfl⟩
  | rmDir p => simp only [region]; split <;> exact ⟨_, rfl⟩
  | obsExists p => exact ⟨_, rfl⟩
  | obsMeta p => simp only [region]; split <;> exact ⟨_, rfl⟩
  | obsReadDir p => simp only [region]; split <;> exact ⟨_, rfl⟩
  | obsOpen p => simp only [region]; split <;> exact ⟨_, rfl⟩
  | gpExists p f s => exact h.elim
  | gpMeta p f s => exact h.elim
  | cdaLoop l => exact h.elim

/-- the trait-level calls are single-region: `remove_file`, `remove_dir`, `exists`, `metadata`,
`read_dir`, `open_file`+read, `append_file` (keeping the handle), and `write_all`+drop on an open
handle -/
theorem single_region_calls (h : Option WH) (p : Str) :
    SingleRegion h (.removeFile p) ∧ SingleRegion h (.removeDir p) ∧
    SingleRegion h (.exists_ p) ∧ SingleRegion h (.metadata p) ∧
    SingleRegion h (.readDir p) ∧ SingleRegion h (.read p) ∧
    SingleRegion h (.appendOpen p) ∧
    (∀ wh bs, SingleRegion (some wh) (.writeDrop bs)) :=
  ⟨⟨_, rfl, fun m => ptFinal_next m _ trivial⟩, ⟨_, rfl, fun m => ptFinal_next m _ trivial⟩,
   ⟨_, rfl, fun m => ptFinal_next m _ trivial⟩, ⟨_, rfl, fun m => ptFinal_next m _ trivial⟩,
   ⟨_, rfl, fun m => ptFinal_next m _ trivial⟩, ⟨_, rfl, fun m => ptFinal_next m _ trivial⟩,
   ⟨_, rfl, fun m => ptFinal_next m _ trivial⟩,
   fun _ _ => ⟨_, rfl, fun m => ptFinal_next m _ trivial⟩⟩

/-- **single_region_atomic**: a settled thread whose next call is single-region executes, in ONE
step, exactly `callAtomic` of that call: same map, same handle slot, same result (then it is
brought to its next lock acquisition) -/
theorem single_region_atomic (m : FMap) (t : Thread) (c : COp) (rest : List COp)
    (hcur : t.cur = none) (hcalls : t.calls = c :: rest) (hs : SingleRegion t.handle c)
    (fuel : Nat) :
    ∃ pt, start t.handle c = .inl pt ∧
      stepThread m t = ((callAtomic (fuel + 1) m t.handle c).1,
        settle (rest.length + 1)
          { calls := rest, cur := none, handle := (callAtomic (fuel + 1) m t.handle c).2.1,
            results := t.results ++ [(callAtomic (fuel + 1) m t.handle c).2.2],
            labels := t.labels ++ [pt.label] }) := by
  obtain ⟨pt, hstart, hfin⟩ := hs
  obtain ⟨r, hr⟩ := hfin m
  refine ⟨pt, hstart, ?_⟩
  have hset : settle (t.calls.length + 1) t = { t with calls := rest, cur := some pt } := by
    simp only [settle, hcur, hcalls, hstart]
  rw [stepThread_inr m t pt r (by rw [hset]) hr, hset, callAtomic_inl _ _ _ _ _ hstart,
    go_inr fuel m t.handle pt r hr]
  simp only [afterRegion, withHandle_calls, withHandle_results, withHandle_labels,
    withHandle_handle]

/-! ### 2b. the multi-region calls `create_dir` and `create_file` take effect at their last region -/

/-- the calls covered by the reduction: everything but the two write sessions (NOT atomic, see
§3) and `create_dir_all` (a loop of `create_dir` calls, see C17) -/
def LinCall : COp → Prop
  | .writeSession _ _ | .appendSession _ _ | .createDirAll _ => False
  | _ => True

/-- `Reaches h c pt`: the call `c` of a thread with handle slot `h` can be in progress at program
point `pt`; all regions before `pt` were read-only probes -/
inductive Reaches (h : Option WH) : COp → Pt → Prop
  | first (c : COp) (pt : Pt) : LinCall c → start h c = .inl pt → Reaches h c pt
  | cdMeta (p : Str) : Reaches h (.createDir p) (.gpMeta p false none)
  | cdCreate (p : Str) : Reaches h (.createDir p) (.cdCreate p)
  | cfMeta (p : Str) : Reaches h (.createFile p) (.gpMeta p true none)
  | cfCreate (p : Str) : Reaches h (.createFile p) (.cfCreate p none)

/-- the first point of a linearizable call is either the first probe of `get_parent` or a
final point -/
theorem start_lin (h : Option WH) (c : COp) (pt : Pt) (hl : LinCall c) (hs : start h c = .inl pt) :
    (∃ p, c = .createDir p ∧ pt = .gpExists p false none) ∨
    (∃ p, c = .createFile p ∧ pt = .gpExists p true none) ∨ PtFinal pt := by
  cases c with
  | createDir p => left; exact ⟨p, rfl, by simpa [start] using hs.symm⟩
  | createFile p => right; left; exact ⟨p, rfl, by simpa [start] using hs.symm⟩
  | writeSession p bs => exact hl.elim
  | appendSession p bs => exact hl.elim
  | createDirAll p => exact hl.elim
  | writeDrop bs =>
    right; right
    cases h <;> simp only [start, Sum.inl.injEq, reduceCtorEq] at hs
    subst hs; trivial
  | _ =>
    right; right
    simp only [start, Sum.inl.injEq] at hs
    subst hs; trivial

/-- **the reduction lemma**. Let the call `c` be in progress at `pt`, and let its next region run
on an ARBITRARY map `m` (the other threads may have done anything since the previous region).
Then either the region is a read-only probe that passes (the map and the handle slot are
untouched and the call is still in progress), or the region completes the call — and then the
map, the handle slot and the result are EXACTLY those of the whole call executed atomically on
`m`. So the call takes effect atomically at its last executed region. -/
theorem reaches_region (h : Option WH) (c : COp) (pt : Pt) (hr : Reaches h c pt) (m : FMap) :
    ((region m pt).files = m ∧ (region m pt).handle = none ∧
      ∃ pt', (region m pt).next = .inl pt' ∧ Reaches h c pt') ∨
    (∃ r, (region m pt).next = .inr r ∧
      callAtomic 4 m h c = ((region m pt).files, newHandle h (region m pt).handle, r)) := by
  -- a final point: one region, which is the atomic call
  have final : ∀ c pt, start h c = .inl pt → PtFinal pt →
      ∃ r, (region m pt).next = .inr r ∧
        callAtomic 4 m h c = ((region m pt).files, newHandle h (region m pt).handle, r) := by
    intro c pt hs hf
    obtain ⟨r, hr⟩ := ptFinal_next m pt hf
    exact ⟨r, hr, by rw [callAtomic_inl _ _ _ _ _ hs, go_inr 3 m h pt r hr]⟩
  -- the first probe of `get_parent`
  have probe1 : ∀ c p f, start h c = .inl (.gpExists p f none) →
      Reaches h c (.gpMeta p f none) →
      ((region m (.gpExists p f none)).files = m ∧ (region m (.gpExists p f none)).handle = none ∧
        ∃ pt', (region m (.gpExists p f none)).next = .inl pt' ∧ Reaches h c pt') ∨
      (∃ r, (region m (.gpExists p f none)).next = .inr r ∧
        callAtomic 4 m h c = ((region m (.gpExists p f none)).files,
          newHandle h (region m (.gpExists p f none)).handle, r)) := by
    intro c p f hs hnext
    by_cases hp : ParentDir m p
    · left; rw [(gp_ok m p f none hp).1]; exact ⟨rfl, rfl, _, rfl, hnext⟩
    · rcases (gp_fail m p f none hp).1 with h1 | h1
      · right; rw [h1]
        exact ⟨.err, rfl, by rw [callAtomic_inl _ _ _ _ _ hs, (atomic_gp_fail 2 m h p f none hp).1]; rfl⟩
      · left; rw [h1]; exact ⟨rfl, rfl, _, rfl, hnext⟩
  -- the second probe
  have probe2 : ∀ c p f, start h c = .inl (.gpExists p f none) →
      Reaches h c (if f then .cfCreate p none else .cdCreate p) →
      ((region m (.gpMeta p f none)).files = m ∧ (region m (.gpMeta p f none)).handle = none ∧
        ∃ pt', (region m (.gpMeta p f none)).next = .inl pt' ∧ Reaches h c pt') ∨
      (∃ r, (region m (.gpMeta p f none)).next = .inr r ∧
        callAtomic 4 m h c = ((region m (.gpMeta p f none)).files,
          newHandle h (region m (.gpMeta p f none)).handle, r)) := by
    intro c p f hs hnext
    by_cases hp : ParentDir m p
    · left; rw [(gp_ok m p f none hp).2]; exact ⟨rfl, rfl, _, rfl, hnext⟩
    · right; rw [(gp_fail m p f none hp).2]
      exact ⟨.err, rfl, by rw [callAtomic_inl _ _ _ _ _ hs, (atomic_gp_fail 2 m h p f none hp).1]; rfl⟩
  cases hr with
  | first c pt hl hs =>
    rcases start_lin h c pt hl hs with ⟨p, rfl, rfl⟩ | ⟨p, rfl, rfl⟩ | hf
    · exact probe1 _ p false hs (.cdMeta p)
    · exact probe1 _ p true hs (.cfMeta p)
    · exact Or.inr (final c pt hs hf)
  | cdMeta p => exact probe2 _ p false rfl (.cdCreate p)
  | cfMeta p => exact probe2 _ p true rfl (.cfCreate p)
  | cdCreate p =>
    right
    by_cases hp : ParentDir m p
    · obtain ⟨r, hr⟩ := ptFinal_next m (.cdCreate p) trivial
      refine ⟨r, hr, ?_⟩
      rw [callAtomic_inl 4 m h (.createDir p) (.gpExists p false none) rfl, atomic_gp_ok 2 m h p false none hp]
      exact go_inr 1 m h _ r hr
    · obtain ⟨h1, h2⟩ := createDir_noparent m p hp
      refine ⟨.err, by rw [region_cdCreate, h2], ?_⟩
      rw [callAtomic_inl 4 m h (.createDir p) (.gpExists p false none) rfl,
        (atomic_gp_fail 2 m h p false none hp).1, region_cdCreate, h1]
      rfl
  | cfCreate p =>
    right
    by_cases hp : ParentDir m p
    · obtain ⟨r, hr⟩ := ptFinal_next m (.cfCreate p none) trivial
      refine ⟨r, hr, ?_⟩
      rw [callAtomic_inl 4 m h (.createFile p) (.gpExists p true none) rfl, atomic_gp_ok 2 m h p true none hp]
      exact go_inr 1 m h _ r hr
    · obtain ⟨h1, h2, h3⟩ := createFile_noparent m p hp
      refine ⟨.err, by rw [region_cfCreate_none, h2], ?_⟩
      rw [callAtomic_inl 4 m h (.createFile p) (.gpExists p true none) rfl,
        (atomic_gp_fail 2 m h p true none hp).1, region_cfCreate_none]
      rw [h3, h1]
      rfl

/-- the two probes of `get_parent`, each on its own map: read-only; a probe that fails returns
the error that the whole call, executed atomically on that map, returns (changing nothing) -/
theorem probes_linearize (c : COp) (p : Str) (f : Bool) (h : Option WH)
    (hs : start h c = .inl (.gpExists p f none)) (m1 m2 : FMap) :
    ((region m1 (.gpExists p f none)).files = m1 ∧ (region m1 (.gpExists p f none)).handle = none ∧
      ((region m1 (.gpExists p f none)).next = .inl (.gpMeta p f none) ∨
       ((region m1 (.gpExists p f none)).next = .inr .err ∧
          callAtomic 4 m1 h c = (m1, h, .err)))) ∧
    ((region m2 (.gpMeta p f none)).files = m2 ∧ (region m2 (.gpMeta p f none)).handle = none ∧
      ((region m2 (.gpMeta p f none)).next = .inl (if f then .cfCreate p none else .cdCreate p) ∨
       ((region m2 (.gpMeta p f none)).next = .inr .err ∧
          callAtomic 4 m2 h c = (m2, h, .err)))) := by
  constructor
  · by_cases hp : ParentDir m1 p
    · rw [(gp_ok m1 p f none hp).1]; exact ⟨rfl, rfl, Or.inl rfl⟩
    · rcases (gp_fail m1 p f none hp).1 with h1 | h1
      · rw [h1]
        exact ⟨rfl, rfl, Or.inr ⟨rfl, by
          rw [callAtomic_inl _ _ _ _ _ hs, (atomic_gp_fail 2 m1 h p f none hp).1]⟩⟩
      · rw [h1]; exact ⟨rfl, rfl, Or.inl rfl⟩
  · by_cases hp : ParentDir m2 p
    · rw [(gp_ok m2 p f none hp).2]; exact ⟨rfl, rfl, Or.inl rfl⟩
    · rw [(gp_fail m2 p f none hp).2]
      exact ⟨rfl, rfl, Or.inr ⟨rfl, by
        rw [callAtomic_inl _ _ _ _ _ hs, (atomic_gp_fail 2 m2 h p f none hp).1]⟩⟩

/-- **createDir_linearizes_at_last_region**: `VfsPath::create_dir(p)` is three lock regions
(`exists(parent)`, `metadata(parent)`, `MemoryFS::create_dir`), running on three maps `m1 m2 m3`
between which the other threads may have done anything. Regions 1 and 2 change nothing; if one of
them exits, it exits with `Err`, which is what the atomic call on that map returns (changing
nothing). If the call gets to region 3, the new map, the handle slot and the result are EXACTLY
those of the whole call executed atomically on `m3`: the call takes effect at its last region. -/
theorem createDir_linearizes_at_last_region (p : Str) (h : Option WH) (m1 m2 m3 : FMap) :
    ((region m1 (.gpExists p false none)).files = m1 ∧
      (region m1 (.gpExists p false none)).handle = none ∧
      ((region m1 (.gpExists p false none)).next = .inl (.gpMeta p false none) ∨
       ((region m1 (.gpExists p false none)).next = .inr .err ∧
          callAtomic 4 m1 h (.createDir p) = (m1, h, .err)))) ∧
    ((region m2 (.gpMeta p false none)).files = m2 ∧
      (region m2 (.gpMeta p false none)).handle = none ∧
      ((region m2 (.gpMeta p false none)).next = .inl (.cdCreate p) ∨
       ((region m2 (.gpMeta p false none)).next = .inr .err ∧
          callAtomic 4 m2 h (.createDir p) = (m2, h, .err)))) ∧
    (∃ r, (region m3 (.cdCreate p)).next = .inr r ∧ (region m3 (.cdCreate p)).handle = none ∧
      callAtomic 4 m3 h (.createDir p) = ((region m3 (.cdCreate p)).files, h, r)) := by
  obtain ⟨h1, h2⟩ := probes_linearize (.createDir p) p false h rfl m1 m2
  refine ⟨h1, h2, ?_⟩
  rcases reaches_region h _ _ (.cdCreate p) m3 with ⟨_, _, pt', hn, _⟩ | ⟨r, hn, heq⟩
  · rw [region_cdCreate] at hn; cases hn
  · refine ⟨r, hn, by rw [region_cdCreate], ?_⟩
    rw [heq, region_cdCreate]; rfl

/-- **createFile_linearizes_at_last_region**: the same for `VfsPath::create_file(p)` (regions
`exists(parent)`, `metadata(parent)`, `MemoryFS::create_file`; the write handle is kept): it takes
effect — the empty file and the new handle — atomically at its last region -/
theorem createFile_linearizes_at_last_region (p : Str) (h : Option WH) (m1 m2 m3 : FMap) :
    ((region m1 (.gpExists p true none)).files = m1 ∧
      (region m1 (.gpExists p true none)).handle = none ∧
      ((region m1 (.gpExists p true none)).next = .inl (.gpMeta p true none) ∨
       ((region m1 (.gpExists p true none)).next = .inr .err ∧
          callAtomic 4 m1 h (.createFile p) = (m1, h, .err)))) ∧
    ((region m2 (.gpMeta p true none)).files = m2 ∧
      (region m2 (.gpMeta p true none)).handle = none ∧
      ((region m2 (.gpMeta p true none)).next = .inl (.cfCreate p none) ∨
       ((region m2 (.gpMeta p true none)).next = .inr .err ∧
          callAtomic 4 m2 h (.createFile p) = (m2, h, .err)))) ∧
    (∃ r, (region m3 (.cfCreate p none)).next = .inr r ∧
      callAtomic 4 m3 h (.createFile p) =
        ((region m3 (.cfCreate p none)).files, newHandle h (region m3 (.cfCreate p none)).handle, r)) := by
  obtain ⟨h1, h2⟩ := probes_linearize (.createFile p) p true h rfl m1 m2
  refine ⟨h1, h2, ?_⟩
  rcases reaches_region h _ _ (.cfCreate p) m3 with ⟨_, _, pt', hn, _⟩ | ⟨r, hn, heq⟩
  · rw [region_cfCreate_none] at hn; cases hn
  · exact ⟨r, hn, heq⟩

/-! ### 2c. the global theorem: every interleaving is a sequential execution -/

/-- a thread of the sequential reference machine: no program points, calls are atomic -/
structure AThread where
  calls : List COp
  handle : Option WH := none
  results : List CRes := []

/-- the thread executes its next call atomically -/
def stepAT (m : FMap) (a : AThread) : FMap × AThread :=
  match a.calls with
  | [] => (m, a)
  | c :: rest =>
    ((callAtomic 4 m a.handle c).1,
      { calls := rest, handle := (callAtomic 4 m a.handle c).2.1,
        results := a.results ++ [(callAtomic 4 m a.handle c).2.2] })

def iterAT : Nat → FMap × AThread → FMap × AThread
  | 0, x => x
  | k + 1, x => iterAT k (stepAT x.1 x.2)

theorem iterAT_add (j k : Nat) (x : FMap × AThread) : iterAT (j + k) x = iterAT k (iterAT j x) := by
  induction j generalizing x with
  | zero => simp [iterAT]
  | succ j ih => rw [Nat.add_right_comm]; exact ih _

structure ASys where
  files : FMap
  threads : List AThread

/-- the sequential reference machine: thread `tid` executes its next call atomically -/
def stepA (s : ASys) (tid : Nat) : ASys :=
  match s.threads[tid]? with
  | none => s
  | some a => { files := (stepAT s.files a).1, threads := s.threads.set tid (stepAT s.files a).2 }

/-- a sequential execution: the list says which thread executes its next call -/
def runA (s : ASys) (order : List Nat) : ASys := order.foldl stepA s

theorem runA_append (s : ASys) (a b : List Nat) : runA s (a ++ b) = runA (runA s a) b := by
  simp [runA, List.foldl_append]

theorem runA_replicate (k : Nat) (s : ASys) (tid : Nat) (a : AThread)
    (h : s.threads[tid]? = some a) :
    runA s (List.replicate k tid) =
      { files := (iterAT k (s.files, a)).1, threads := s.threads.set tid (iterAT k (s.files, a)).2 } := by
  induction k generalizing s a with
  | zero =>
    obtain ⟨hlt, rfl⟩ := List.getElem?_eq_some_iff.1 h
    simp [runA, iterAT, List.set_getElem_self hlt]
  | succ k ih =>
    have hlt : tid < s.threads.length := (List.getElem?_eq_some_iff.1 h).1
    have hstep : stepA s tid =
        { files := (stepAT s.files a).1, threads := s.threads.set tid (stepAT s.files a).2 } := by
      simp [stepA, h]
    rw [List.replicate_succ]
    show runA (stepA s tid) (List.replicate k tid) = _
    rw [hstep, ih _ (stepAT s.files a).2 (by simp [List.getElem?_set_self hlt])]
    simp [iterAT, List.set_set]

/-- the simulation relation between a thread of the concurrent machine and one of the sequential
machine: same handle slot, same results; the call in progress (if any) has not been executed by
the sequential thread yet — all its regions so far were read-only probes -/
def Rel (t : Thread) (a : AThread) : Prop :=
  a.handle = t.handle ∧ a.results = t.results ∧ (∀ c ∈ t.calls, LinCall c) ∧
  ((t.cur = none ∧ a.calls = t.calls) ∨
   (∃ pt c, t.cur = some pt ∧ a.calls = c :: t.calls ∧ Reaches t.handle c pt))

/-- `settle` (calls without any region complete at once) is matched by atomic steps -/
theorem settle_sim (m : FMap) (fuel : Nat) (t : Thread) (a : AThread) (h : Rel t a) :
    ∃ k a', iterAT k (m, a) = (m, a') ∧ Rel (settle fuel t) a' := by
  induction fuel generalizing t a with
  | zero => exact ⟨0, a, rfl, h⟩
  | succ n ih =>
    unfold settle
    split
    · exact ⟨0, a, rfl, h⟩
    · rename_i hcur
      split
      · exact ⟨0, a, rfl, h⟩
      · rename_i c rest hcalls
        obtain ⟨h1, h2, h3, h4⟩ := h
        have hac : a.calls = c :: rest := by
          rcases h4 with ⟨_, h4⟩ | ⟨pt, c', h4, _⟩
          · rw [h4, hcalls]
          · rw [hcur] at h4; cases h4
        have hlc : LinCall c := h3 c (by rw [hcalls]; simp)
        have hlrest : ∀ c' ∈ rest, LinCall c' := fun c' hc' => h3 c' (by rw [hcalls]; simp [hc'])
        split
        · rename_i pt hs
          exact ⟨0, a, rfl, h1, h2, hlrest, Or.inr ⟨pt, c, rfl, hac, .first c pt hlc hs⟩⟩
        · rename_i r hs
          have hat : stepAT m a =
              (m, { calls := rest, handle := a.handle, results := a.results ++ [r] }) := by
            simp only [stepAT, hac, h1, callAtomic_inr 4 m t.handle c r hs]
          obtain ⟨k, a', hk, hrel⟩ := ih { t with calls := rest, results := t.results ++ [r] }
            { calls := rest, handle := a.handle, results := a.results ++ [r] }
            ⟨h1, by simp [h2], hlrest, Or.inl ⟨hcur, rfl⟩⟩
          refine ⟨k + 1, a', ?_, hrel⟩
          rw [Nat.add_comm, iterAT_add]
          simp only [iterAT, hat]
          exact hk

/-- one step of a thread of the concurrent machine is matched by `k` atomic steps of the
sequential thread: `k = 0` for a probe that passes; otherwise the completed call (plus the
region-less calls completed on the way) -/
theorem stepThread_sim (m : FMap) (t : Thread) (a : AThread) (h : Rel t a) :
    ∃ k a', iterAT k (m, a) = ((stepThread m t).1, a') ∧ Rel (stepThread m t).2 a' := by
  obtain ⟨k1, a1, hk1, hrel1⟩ := settle_sim m (t.calls.length + 1) t a h
  rcases stepThread_cases m t with ⟨_, heq⟩ | ⟨pt, hcur, ⟨pt', hn, heq⟩ | ⟨r, hn, heq⟩⟩
  · rw [heq]; exact ⟨k1, a1, hk1, hrel1⟩
  · -- a region that continues the call: a read-only probe
    obtain ⟨g1, g2, g3, g4⟩ := hrel1
    rcases g4 with ⟨g4, _⟩ | ⟨pt0, c, g4, g5, g6⟩
    · rw [hcur] at g4; cases g4
    · rw [hcur] at g4; injection g4 with g4; subst g4
      rcases reaches_region _ c pt g6 m with ⟨e1, e2, pt'', e3, e4⟩ | ⟨r, e3, _⟩
      · rw [hn] at e3; injection e3 with e3; subst e3
        rw [heq, e1]
        refine ⟨k1, a1, hk1, ?_, by simpa using g2, by simpa using g3, Or.inr ⟨pt', c, rfl, by simpa using g5, ?_⟩⟩
        · simp [afterRegion_handle, e2, newHandle, g1]
        · simpa [afterRegion_handle, e2, newHandle] using e4
      · rw [hn] at e3; cases e3
  · -- a region that completes the call: the atomic call on the current map
    obtain ⟨g1, g2, g3, g4⟩ := hrel1
    rcases g4 with ⟨g4, _⟩ | ⟨pt0, c, g4, g5, g6⟩
    · rw [hcur] at g4; cases g4
    · rw [hcur] at g4; injection g4 with g4; subst g4
      rcases reaches_region _ c pt g6 m with ⟨_, _, pt'', e3, _⟩ | ⟨r', e3, e4⟩
      · rw [hn] at e3; cases e3
      · rw [hn] at e3; injection e3 with e3; subst e3
        have hat : stepAT m a1 = ((region m pt).files,
            { calls := (settle (t.calls.length + 1) t).calls,
              handle := newHandle (settle (t.calls.length + 1) t).handle (region m pt).handle,
              results := a1.results ++ [r] }) := by
          simp only [stepAT, g5, g1, e4]
        obtain ⟨k3, a3, hk3, hrel3⟩ := settle_sim (region m pt).files
          ((afterRegion m (settle (t.calls.length + 1) t) pt).calls.length + 1)
          { afterRegion m (settle (t.calls.length + 1) t) pt with
            cur := none
            results := (afterRegion m (settle (t.calls.length + 1) t) pt).results ++ [r] }
          { calls := (settle (t.calls.length + 1) t).calls,
            handle := newHandle (settle (t.calls.length + 1) t).handle (region m pt).handle,
            results := a1.results ++ [r] }
          ⟨by simp [afterRegion_handle], by simp [g2], by simpa using g3, Or.inl ⟨rfl, by simp⟩⟩
        rw [heq]
        refine ⟨k1 + (1 + k3), a3, ?_, hrel3⟩
        rw [iterAT_add, hk1, iterAT_add]
        simp only [iterAT, hat]
        exact hk3

/-- the simulation relation between the two machines -/
structure SRel (s : Sys) (sa : ASys) : Prop where
  files : sa.files = s.files
  len : sa.threads.length = s.threads.length
  thr : ∀ (i : Nat) (t : Thread) (a : AThread),
    s.threads[i]? = some t → sa.threads[i]? = some a → Rel t a

theorem step_sim (s : Sys) (sa : ASys) (tid : Nat) (h : SRel s sa) :
    ∃ k, SRel (step s tid) (runA sa (List.replicate k tid)) := by
  cases hg : s.threads[tid]? with
  | none => rw [step_of_none s tid hg]; exact ⟨0, h⟩
  | some t =>
    have hlt : tid < s.threads.length := (List.getElem?_eq_some_iff.1 hg).1
    have hlta : tid < sa.threads.length := by rw [h.len]; exact hlt
    have hga : sa.threads[tid]? = some sa.threads[tid] := List.getElem?_eq_getElem hlta
    obtain ⟨k, a', hk, hrel⟩ := stepThread_sim s.files t sa.threads[tid] (h.thr tid t _ hg hga)
    refine ⟨k, ?_⟩
    rw [step_of_some s tid t hg, runA_replicate k sa tid _ hga, h.files, hk]
    refine ⟨rfl, by simp [h.len], ?_⟩
    intro i t' a'' ht' ha''
    by_cases hi : tid = i
    · subst hi
      rw [List.getElem?_set_self hlt] at ht'
      rw [List.getElem?_set_self hlta] at ha''
      injection ht' with ht'; injection ha'' with ha''
      subst ht'; subst ha''
      exact hrel
    · rw [List.getElem?_set_ne hi] at ht' ha''
      exact h.thr i t' a'' ht' ha''

/-- the sequential order belonging to a schedule: entry `i` of the schedule repeated `ks[i]`
times (`ks[i]` = number of calls the `i`-th step completes: `0` for a step that is not the last
region of its call) — i.e. the calls ordered by their LAST executed region -/
def orderOf (ks schedule : List Nat) : List Nat :=
  (List.zipWith (fun k tid => List.replicate k tid) ks schedule).flatten

theorem run_sim (schedule : List Nat) (s : Sys) (sa : ASys) (h : SRel s sa) :
    ∃ ks : List Nat, ks.length = schedule.length ∧
      SRel (run s schedule) (runA sa (orderOf ks schedule)) := by
  induction schedule generalizing s sa with
  | nil => exact ⟨[], rfl, h⟩
  | cons tid rest ih =>
    obtain ⟨k, hk⟩ := step_sim s sa tid h
    obtain ⟨ks, hlen, hks⟩ := ih (step s tid) _ hk
    refine ⟨k :: ks, by simp [hlen], ?_⟩
    simp only [orderOf, List.zipWith_cons_cons, List.flatten_cons, runA_append]
    exact hks

/-- the sequential machine started on the same programs -/
def absSys (s : Sys) : ASys :=
  { files := s.files,
    threads := s.threads.map fun t => { calls := t.calls, handle := t.handle, results := t.results } }

/-- **linearizable** (C16, global form). Any number of threads, any programs made of the calls
`create_dir`, `create_file`, `append_file`(open), `write_all`+drop, `remove_file`, `remove_dir`,
`exists`, `metadata`, `read_dir`, `open_file`+read (`LinCall`), no call in progress initially.
For EVERY schedule — complete or not — there is a sequential execution of the same programs on
the sequential reference machine (each call atomic; each thread's calls in program order, by
construction of that machine), namely the calls ordered by their last executed region
(`orderOf ks schedule`), after which
 * the map is the same,
 * every thread has the same handle slot and the same list of results (the exact values,
   observers included),
 * the calls not yet executed by the sequential thread are exactly the calls not yet completed
   by the concurrent thread (a call in progress has only done read-only probes so far). -/
theorem linearizable (s0 : Sys) (h0 : ∀ t ∈ s0.threads, t.cur = none ∧ ∀ c ∈ t.calls, LinCall c)
    (schedule : List Nat) :
    ∃ ks : List Nat, ks.length = schedule.length ∧
      SRel (run s0 schedule) (runA (absSys s0) (orderOf ks schedule)) := by
  apply run_sim
  refine ⟨rfl, by simp [absSys], ?_⟩
  intro i t a ht ha
  simp only [absSys, List.getElem?_map, ht, Option.map_some, Option.some.injEq] at ha
  subst ha
  obtain ⟨h1, h2⟩ := h0 t (List.mem_of_getElem? ht)
  exact ⟨rfl, rfl, h2, Or.inl ⟨h1, rfl⟩⟩

/-- … in particular for a schedule that runs every thread to completion: same final map, and
for every thread the same results, with every call of every program executed by the sequential
machine -/
theorem linearizable_complete (s0 : Sys)
    (h0 : ∀ t ∈ s0.threads, t.cur = none ∧ ∀ c ∈ t.calls, LinCall c) (schedule : List Nat)
    (hfin : ∀ t ∈ (run s0 schedule).threads, t.cur = none ∧ t.calls = []) :
    ∃ order : List Nat,
      (runA (absSys s0) order).files = (run s0 schedule).files ∧
      (runA (absSys s0) order).threads.map (fun a => (a.calls, a.handle, a.results)) =
        (run s0 schedule).threads.map (fun t => ([], t.handle, t.results)) := by
  obtain ⟨ks, _, hrel⟩ := linearizable s0 h0 schedule
  refine ⟨orderOf ks schedule, hrel.files, ?_⟩
  apply List.ext_getElem?
  intro i
  simp only [List.getElem?_map]
  cases ht : (run s0 schedule).threads[i]? with
  | none =>
    have : (runA (absSys s0) (orderOf ks schedule)).threads[i]? = none := by
      rw [List.getElem?_eq_none_iff] at ht ⊢
      rw [hrel.len]; exact ht
    rw [this]; rfl
  | some t =>
    have hlt : i < (runA (absSys s0) (orderOf ks schedule)).threads.length := by
      rw [hrel.len]; exact (List.getElem?_eq_some_iff.1 ht).1
    have ha := List.getElem?_eq_getElem hlt
    obtain ⟨g1, g2, _, g4⟩ := hrel.thr i t _ ht ha
    obtain ⟨f1, f2⟩ := hfin t (List.mem_of_getElem? ht)
    rw [ha]
    rcases g4 with ⟨_, g4⟩ | ⟨pt, c, g4, _⟩
    · simp [g1, g2, g4, f2]
    · rw [f1] at g4; cases g4

/-! ## 3. The two write sessions are NOT atomic; the race that was fixed -/

def pC : Str := ['/', 'c']
def bOld : Bytes := [111, 108, 100]
def bNew : Bytes := [110, 101, 119]
def bA : Bytes := [65]
def bB : Bytes := [66]

def fileWith (b : Bytes) : Entry :=
  { ftype := .file, content := b, created := .now, modified := .now, accessed := .now }

/-- the root and the file "/c" = "old" -/
def mC : FMap := [(pC, fileWith bOld), ([], dirEntryNow)]

/-- T0 = `create_file("/c")?.write_all("new")`, drop; T1 = read "/c" -/
def wsSys : Sys :=
  { files := mC, threads := [{ calls := [.writeSession pC bNew] }, { calls := [.read pC] }] }

/-- **writeSession_not_atomic**: a write session is four regions (two probes, `create_file` —
which truncates —, and the publication at drop). Under the schedule t0 t0 t0 t1 t0 the reader
sees the EMPTY file; in the two sequential orders it sees "new" resp. "old". So no sequential
execution of the two calls explains the interleaving: a write session is not atomic. -/
theorem writeSession_not_atomic :
    (run wsSys [0, 0, 0, 1, 0]).threads.map (·.results) = [[.ok .unit], [.ok (.bytes [])]] ∧
    (runA (absSys wsSys) [0, 1]).threads.map (·.results) = [[.ok .unit], [.ok (.bytes bNew)]] ∧
    (runA (absSys wsSys) [1, 0]).threads.map (·.results) = [[.ok .unit], [.ok (.bytes bOld)]] := by
  decide +kernel

/-- T0 = `append_file("/c")?.write_all("A")`, drop; T1 the same with "B" -/
def apSys : Sys :=
  { files := mC,
    threads := [{ calls := [.appendSession pC bA] }, { calls := [.appendSession pC bB] }] }

def contentOf (m : FMap) (p : Str) : Option Bytes := (m.find? p).map (·.content)

/-- **appendSession_lost_update**: an append session is two regions (`append_file` copies the
current content into the handle's buffer; the drop publishes the buffer). Under the schedule
t0 t1 t0 t1 both sessions return `Ok` but the final content is "oldB": the update "A" is lost.
The two sequential orders give "oldAB" and "oldBA". -/
theorem appendSession_lost_update :
    (run apSys [0, 1, 0, 1]).threads.map (·.results) = [[.ok .unit], [.ok .unit]] ∧
    contentOf (run apSys [0, 1, 0, 1]).files pC = some (bOld ++ bB) ∧
    contentOf (runA (absSys apSys) [0, 1]).files pC = some (bOld ++ bA ++ bB) ∧
    contentOf (runA (absSys apSys) [1, 0]).files pC = some (bOld ++ bB ++ bA) := by
  decide +kernel

/-! ### the race between `create_dir` and `remove_dir` before the fix (regression) -/

/-- program points of the variant model: the current ones, plus the two regions of the OLD
`MemoryFS::create_dir` (before commit 17b99c0): `ensure_has_parent` took the lock on its own and
only looked whether the parent EXISTS; the insertion happened under a second acquisition, with no
check of the parent at all -/
inductive OPt where
  | std (pt : Pt)
  | ensureOld (p : Str)
  | insertOld (p : Str)
  deriving Repr, DecidableEq

/-- the variant region function: `VfsPath::create_dir` is `exists(parent)` → `metadata(parent)` →
`ensureOld` → `insertOld`; everything else as in `region` -/
def regionOld (m : FMap) : OPt → FMap × (OPt ⊕ CRes)
  | .std (.gpMeta p false none) =>
    match (region m (.gpMeta p false none)).next with
    | .inl _ => (m, .inl (.ensureOld p))
    | .inr r => (m, .inr r)
  | .std pt =>
    ((region m pt).files,
      match (region m pt).next with
      | .inl pt' => .inl (.std pt')
      | .inr r => .inr r)
  | .ensureOld p =>
    if '/' ∈ p ∧ m.contains (parentInternal p) then (m, .inl (.insertOld p)) else (m, .inr .err)
  | .insertOld p =>
    match m.find? p with
    | some _ => (m, .inr .err)
    | none => (m.insert p dirEntryNow, .inr (.ok .unit))

/-- a thread of the variant model: one call, in progress at `cur` -/
structure OThread where
  cur : Option OPt
  result : Option CRes := none
  deriving Repr, DecidableEq

def stepOld (s : FMap × List OThread) (tid : Nat) : FMap × List OThread :=
  match s.2[tid]? with
  | none => s
  | some t =>
    match t.cur with
    | none => s
    | some pt =>
      match (regionOld s.1 pt).2 with
      | .inl pt' => ((regionOld s.1 pt).1, s.2.set tid { t with cur := some pt' })
      | .inr r => ((regionOld s.1 pt).1, s.2.set tid { cur := none, result := some r })

def runOld (s : FMap × List OThread) (schedule : List Nat) : FMap × List OThread :=
  schedule.foldl stepOld s

def pA : Str := ['/', 'a']
def pAB : Str := ['/', 'a', '/', 'b']

/-- the root and the empty directory "/a" -/
def mA : FMap := [(pA, dirEntryNow), ([], dirEntryNow)]

/-- T0 = `create_dir("/a/b")` (old code), T1 = `remove_dir("/a")` (even the current, atomic one) -/
def raceOld : FMap × List OThread :=
  (mA, [{ cur := some (.std (.gpExists pAB false none)) }, { cur := some (.std (.rmDir pA)) }])

theorem raceOld_run :
    (runOld raceOld [0, 0, 0, 1, 0]).2.map (·.result) = [some (.ok .unit), some (.ok .unit)] ∧
    (runOld raceOld [0, 0, 0, 1, 0]).1.find? pAB = some dirEntryNow ∧
    (runOld raceOld [0, 0, 0, 1, 0]).1.find? pA = none := by
  decide +kernel

/-- **old_createDir_race** (regression): with the old two-region `create_dir`, the schedule
t0 t0 t0 t1 t0 lets BOTH calls return `Ok`, and leaves "/a/b" in a map without "/a": the tree
is not well-formed. (`wf_invariant` shows this cannot happen with the current code.) -/
theorem old_createDir_race :
    (runOld raceOld [0, 0, 0, 1, 0]).2.map (·.result) = [some (.ok .unit), some (.ok .unit)] ∧
    ¬ WF (runOld raceOld [0, 0, 0, 1, 0]).1 := by
  obtain ⟨h1, h2, h3⟩ := raceOld_run
  refine ⟨h1, ?_⟩
  intro hwf
  obtain ⟨_, pe, hpe, _⟩ := hwf.2 pAB dirEntryNow h2 (by decide)
  have hpar : parentInternal pAB = pA := by decide
  rw [hpar, h3] at hpe
  cases hpe

/-- the same two calls in the current model, same kind of schedule: `create_dir` checks the parent
inside its last region, fails, and the tree is well-formed (root only) -/
theorem race_fixed :
    (run { files := mA, threads := [{ calls := [.createDir pAB] }, { calls := [.removeDir pA] }] }
        [0, 0, 1, 0]).threads.map (·.results) = [[.err], [.ok .unit]] ∧
    (run { files := mA, threads := [{ calls := [.createDir pAB] }, { calls := [.removeDir pA] }] }
        [0, 0, 1, 0]).files.keys = [[]] := by
  decide +kernel

/-- `create_dir_all` is NOT linearizable against a concurrent removal (it is a loop of separate
`create_dir` calls): t0 creates "/a", t1 removes it, t0 fails on "/a/b". Sequentially either
`create_dir_all` succeeds (and `remove_dir` fails: not empty), or `remove_dir` fails first (not
found). This is why C17 assumes that nothing is removed. -/
theorem createDirAll_not_atomic_under_removal :
    (run { files := Mem.init, threads := [{ calls := [.createDirAll pAB] }, { calls := [.removeDir pA] }] }
        [0, 1, 0]).threads.map (·.results) = [[.err], [.ok .unit]] ∧
    (runA { files := Mem.init, threads := [{ calls := [.createDirAll pAB] }, { calls := [.removeDir pA] }] }
        [0, 1]).threads.map (·.results) = [[.ok .unit], [.err]] ∧
    (runA { files := Mem.init, threads := [{ calls := [.createDirAll pAB] }, { calls := [.removeDir pA] }] }
        [1, 0]).threads.map (·.results) = [[.ok .unit], [.err]] := by
  decide +kernel

/-! ## 4. No deadlock, no panic: every scheduled thread with work left makes progress -/

def sessExtra : Option Bytes → Nat
  | none => 0
  | some _ => 1

/-- an upper bound for the number of regions a call in progress at `pt` still executes -/
def ptMeasure : Pt → Nat
  | .gpExists _ _ s => 3 + sessExtra s
  | .gpMeta _ _ s => 2 + sessExtra s
  | .cfCreate _ s => 1 + sessExtra s
  | .apOpen _ s => 1 + sessExtra s
  | .cdaLoop l => l.length + 1
  | _ => 1

/-- an upper bound for the number of regions of a call, `+1` for calls that may have none -/
def callMeasure : COp → Nat
  | .createDir _ => 3
  | .createFile _ => 3
  | .writeSession _ _ => 4
  | .appendSession _ _ => 2
  | .createDirAll p => (VPath.dirPrefixes p).length + 1
  | _ => 1

/-- the remaining-work measure of a thread -/
def measure (t : Thread) : Nat :=
  (match t.cur with
    | some pt => ptMeasure pt
    | none => 0) + (t.calls.map callMeasure).sum

theorem ptMeasure_pos (pt : Pt) : 0 < ptMeasure pt := by
  cases pt <;> simp [ptMeasure] <;> omega

theorem callMeasure_pos (c : COp) : 0 < callMeasure c := by
  cases c <;> simp [callMeasure]

theorem start_measure (h : Option WH) (c : COp) (pt : Pt) (hs : start h c = .inl pt) :
    ptMeasure pt ≤ callMeasure c := by
  cases c with
  | writeDrop bs =>
    cases h <;> simp only [start, Sum.inl.injEq, reduceCtorEq] at hs
    subst hs; simp [ptMeasure, callMeasure]
  | createDirAll p =>
    simp only [start] at hs
    split at hs
    · cases hs
    · injection hs with hs; subst hs; simp [ptMeasure, callMeasure]
  | _ =>
    simp only [start, Sum.inl.injEq] at hs
    subst hs; simp [ptMeasure, callMeasure, sessExtra]

/-- a region that continues its call leaves strictly less to do -/
theorem region_measure (m : FMap) (pt pt' : Pt) (h : (region m pt).next = .inl pt') :
    ptMeasure pt' < ptMeasure pt := by
  cases pt with
  | cdaLoop l =>
    cases l with
    | nil => simp [region, okUnit] at h
    | cons d rest =>
      simp only [region] at h
      split at h <;> (try split at h) <;>
        first
        | (injection h with h; subst h; simp [ptMeasure])
        | (simp [okUnit] at h)
  | gpMeta p f s =>
    by_cases hp : ParentDir m p
    · rw [(gp_ok m p f s hp).2] at h
      injection h with h
      subst h
      cases f <;> simp [ptMeasure] <;> omega
    · rw [(gp_fail m p f s hp).2] at h
      cases h
  | _ =>
    simp only [region] at h
    repeat' split at h
    all_goals first
      | (injection h with h; subst h; simp [ptMeasure, sessExtra])
      | (simp [okUnit] at h)

theorem settle_measure (fuel : Nat) (t : Thread) : measure (settle fuel t) ≤ measure t := by
  induction fuel generalizing t with
  | zero => exact Nat.le_refl _
  | succ n ih =>
    unfold settle
    split
    · exact Nat.le_refl _
    · rename_i hcur
      split
      · exact Nat.le_refl _
      · rename_i c rest hcalls
        split
        · rename_i pt hs
          have := start_measure _ _ _ hs
          simp only [measure, hcur, hcalls, List.map_cons, List.sum_cons]
          omega
        · refine Nat.le_trans (ih _) ?_
          simp only [measure, hcur, hcalls, List.map_cons, List.sum_cons]
          omega

/-- a thread with calls left that `settle` leaves without a region to run has completed at
least one (region-less) call -/
theorem settle_idle_lt (n : Nat) (t : Thread) (hcur : t.cur = none) (hcalls : t.calls ≠ [])
    (hidle : (settle (n + 1) t).cur = none) : measure (settle (n + 1) t) < measure t := by
  unfold settle at hidle ⊢
  simp only [hcur] at hidle ⊢
  cases hc : t.calls with
  | nil => exact absurd hc hcalls
  | cons c rest =>
    simp only [hc] at hidle ⊢
    cases hs : start t.handle c with
    | inl pt => simp only [hs] at hidle; cases hidle
    | inr r =>
      simp only [hs] at hidle ⊢
      refine Nat.lt_of_le_of_lt (settle_measure n _) ?_
      have := callMeasure_pos c
      simp only [measure, hcur, hc, List.map_cons, List.sum_cons]
      omega

/-- one scheduled thread with work left: its measure strictly decreases -/
theorem stepThread_progress (m : FMap) (t : Thread) (hw : t.cur ≠ none ∨ t.calls ≠ []) :
    measure (stepThread m t).2 < measure t := by
  have h0 := settle_measure (t.calls.length + 1) t
  rcases stepThread_cases m t with ⟨hidle, heq⟩ | ⟨pt, hcur, ⟨pt', hn, heq⟩ | ⟨r, hn, heq⟩⟩
  · rw [heq]
    cases hc : t.cur with
    | some pt0 =>
      have : settle (t.calls.length + 1) t = t := by unfold settle; simp only [hc]
      rw [this, hc] at hidle; cases hidle
    | none =>
      have hcalls : t.calls ≠ [] := by
        rcases hw with hw | hw
        · exact absurd hc hw
        · exact hw
      exact settle_idle_lt _ t hc hcalls hidle
  · rw [heq]
    have := region_measure m pt pt' hn
    have h1 : measure (settle (t.calls.length + 1) t) =
        ptMeasure pt + ((settle (t.calls.length + 1) t).calls.map callMeasure).sum := by
      simp only [measure, hcur]
    simp only [measure, afterRegion_calls] at h0 h1 ⊢
    omega
  · rw [heq]
    refine Nat.lt_of_le_of_lt (settle_measure _ _) ?_
    have := ptMeasure_pos pt
    have h1 : measure (settle (t.calls.length + 1) t) =
        ptMeasure pt + ((settle (t.calls.length + 1) t).calls.map callMeasure).sum := by
      simp only [measure, hcur]
    simp only [measure, afterRegion_calls] at h0 h1 ⊢
    omega

/-- **step_progress**: `step` is a total function (no region can block: each region is one
acquisition of the one lock, released at its end; no region returns a panic), and a scheduled
thread that has a call in progress or calls left strictly decreases its remaining-work measure.
So every thread scheduled often enough finishes: no deadlock, no livelock. -/
theorem step_progress (s : Sys) (tid : Nat) (t : Thread) (hg : s.threads[tid]? = some t)
    (hw : t.cur ≠ none ∨ t.calls ≠ []) :
    ∃ t', (step s tid).threads[tid]? = some t' ∧ measure t' < measure t := by
  have hlt : tid < s.threads.length := (List.getElem?_eq_some_iff.1 hg).1
  refine ⟨(stepThread s.files t).2, ?_, stepThread_progress s.files t hw⟩
  rw [step_of_some s tid t hg]
  exact List.getElem?_set_self hlt

/-- the other threads are not touched by a step -/
theorem step_other (s : Sys) (tid i : Nat) (hi : tid ≠ i) :
    (step s tid).threads[i]? = s.threads[i]? := by
  cases hg : s.threads[tid]? with
  | none => rw [step_of_none s tid hg]
  | some t => rw [step_of_some s tid t hg]; exact List.getElem?_set_ne hi

/-- a thread without work is finished for good -/
theorem stepThread_finished (m : FMap) (t : Thread) (h1 : t.cur = none) (h2 : t.calls = []) :
    stepThread m t = (m, t) := by
  have : settle (t.calls.length + 1) t = t := by unfold settle; simp only [h1, h2]
  rw [stepThread_idle m t (by rw [this]; exact h1), this]

/-- the memory operations executed inside the regions never return the panic outcome -/
theorem mem_ops_no_panic (m : FMap) (p : Str) :
    (Mem.createDir m p).1 ≠ .panic ∧ (Mem.createFile m p).1 ≠ .panic ∧
    (Mem.removeFile m p).1 ≠ .panic ∧ (Mem.removeDir m p).1 ≠ .panic ∧
    (Mem.openFile m p).1 ≠ .panic ∧ Mem.appendFile m p ≠ .panic ∧
    Mem.metadata m p ≠ .panic ∧ Mem.readDir m p ≠ .panic := by
  have hen := ensureHasParent_no_panic m p
  have hrd : Mem.readDir m p ≠ .panic := by
    unfold Mem.readDir; split <;> (try split) <;> simp [fail]
  refine ⟨?_, ?_, ?_, ?_, ?_, ?_, ?_, hrd⟩
  · unfold Mem.createDir
    split
    · split
      · split <;> simp [fail]
      · simp
    · simp
    · rename_i h; exact absurd h hen
  · unfold Mem.createFile
    split
    · split
      · split <;> simp [fail]
      · simp
    · simp
    · rename_i h; exact absurd h hen
  · unfold Mem.removeFile; split <;> (try split) <;> simp [fail]
  · unfold Mem.removeDir
    split
    · split
      · simp [fail]
      · split <;> simp [fail]
    · simp
    · rename_i h; exact absurd h hrd
  · unfold Mem.openFile Mem.setAccessed
    cases hf : m.find? p with
    | none => simp [fail]
    | some e =>
      simp only [FMap.find?_insert_self]
      split <;> simp [fail]
  · unfold Mem.appendFile; split <;> (try split) <;> simp [fail]
  · unfold Mem.metadata; split <;> simp [fail]

end Vfs.C16
