/-
  C09 at full strength (part 2 of 2) — the invariants hold initially, and the overlay REFINES the
  reference backend over every finite history. (Part 1: Props/C09Contract.lean.)

  3a. `OInv.initial`: every layer map `WF` and no key of the upper map inside ".whiteout"
      (`NoWhiteout`: no markers yet)  ⟹  `OInv mu ms`.
      `ViewWF.initial`: additionally the layers agree on the type of every path they share
      (`TypeConsistent`)  ⟹  `ViewWF (oview (mu :: ms))`.
      Preservation: `overlay_contractN` (part 1) returns `OInv` and `ViewWF` for the new maps.
  3b. `Refines v m`: `m` is a well-formed reference tree whose keys are the root and canonical
      paths outside ".whiteout", and `v q ≈ m.find? q` (`vcore`) for the root and EVERY absolute
      path `q` outside ".whiteout".
      `vpre_iff_pre`: under refinement `VPre v op ↔ C01.Pre m op`.
      `refines_step`: a call that obeys `VContract v op r v'` has the same outcome class as
      `stepPhys m op` (C02/C01Full: the reference model; both succeed or both fail, neither
      panics, not-found for a target missing from an existing directory on both sides,
      file-exists / dir-exists for `create_dir` on an occupied path on both sides) and
      `Refines v' (stepPhys m op).2`.
      `overlay_refines_reference`: by induction over the list — for every finite list of mutators
      on disciplined paths (`OpOK`), under the O3 type discipline read off the reference run
      (`RefO3Free`: `remove_file` never hits a directory): equal success/failure call by call, no
      panic on either side, final view ≈ final reference tree, final world in the setting with
      `LowerSame` lower maps, invariants re-established.
  4.  Non-vacuity (section `example3`): a 3-layer world (leaves 2,0,1; "/d" split over layers 1
      and 2 with "/d/x" in both, a lower-only directory "/e"), the reference tree holding its
      view, and a history of 12 calls (create_dir over a lower-only parent, write below it, append
      with copy-up from layer 2, remove_file of a layer-1 file, emptying + remove_dir of a
      lower-only directory, re-creation of both, and four calls that must fail: occupied,
      non-empty, missing, parent is a file). All hypotheses of `overlay_refines_reference` and of
      `overlay_contractN` are discharged (`decide`), the theorem is instantiated (`x_refines`),
      and — independently — the run is evaluated with `decide +kernel`: `x_outcomes`,
      `x_ref_outcomes`, `x_final_agree` (view = reference tree on every key that occurs), the
      bytes served, the lower layers unchanged up to access stamps.
  NOT PROVED: that a reference tree holding a given view always EXISTS (it is a hypothesis
      `Refines (oview …) m0`; exhibited for the concrete world); refinement of the `VfsPath`-level
      operations; histories that violate the path discipline or O3.
-/
import VfsModel.Props.C09Contract
set_option linter.unusedSimpArgs false
set_option linter.unusedVariables false
namespace Vfs.C09
open Vfs Vfs.Overlay Vfs.C02 Vfs.C01

/-! ### 3a. the invariants hold initially -/

/-- all layers that have a path agree on its type -/
def TypeConsistent (all : List FMap) : Prop :=
  ∀ m ∈ all, ∀ m' ∈ all, ∀ p e e', m.find? p = some e → m'.find? p = some e' → e.ftype = e'.ftype

/-- the upper map has nothing in the ".whiteout" namespace (no markers yet) -/
def NoWhiteout (mu : FMap) : Prop := ∀ k e, mu.find? k = some e → firstComp k ≠ woDir

theorem no_marker_of_noWhiteout {mu : FMap} (hnw : NoWhiteout mu) {q : Str}
    (hq : q.head? = some '/') : mu.find? (marker q) = none := by
  cases hf : mu.find? (marker q) with
  | none => rfl
  | some e => exact absurd (firstComp_marker q hq) (hnw _ e hf)

/-- **the hidden-state invariant holds initially**: well-formed layers, no markers -/
theorem OInv.initial {mu : FMap} {ms : List FMap} (hwf : ∀ m ∈ mu :: ms, WF m)
    (hnw : NoWhiteout mu) : OInv mu ms := by
  refine ⟨⟨(hwf mu (by simp)).1, ?_⟩, hwf, ?_, ?_, ?_⟩
  · cases hf : mu.find? rootMarker with
    | none => exact contains_of_none hf
    | some e => exact absurd (by decide) (hnw _ e hf)
  · intro cs _ _ e he
    exact absurd (firstComp_renderC woDir cs (by decide)) (hnw _ e he)
  · intro q e hq he
    rw [no_marker_of_noWhiteout hnw hq.1] at he; cases he
  · intro q hq hc
    rw [contains_of_none (no_marker_of_noWhiteout hnw hq.1)] at hc; cases hc

/-- **the view is well-formed initially**: well-formed, type-consistent layers, no markers -/
theorem ViewWF.initial {mu : FMap} {ms : List FMap} (hwf : ∀ m ∈ mu :: ms, WF m)
    (hnw : NoWhiteout mu) (htc : TypeConsistent (mu :: ms)) : ViewWF (oview (mu :: ms)) := by
  refine ⟨rootIsDir (OInv.initial (ms := ms) hwf hnw).root, ?_⟩
  intro ds n hne hds hn hhead hpres
  have hpne : renderC ds ++ '/' :: n ≠ [] := by simp
  have hdne : renderC ds ≠ [] := renderC_ne_nil hne
  rw [oview_ne hpne] at hpres
  have hm1 : mu.contains (marker (renderC ds ++ '/' :: n)) = false :=
    contains_of_none (no_marker_of_noWhiteout hnw (NR_child hne (good_noSlash hds) hhead n).1)
  have hm2 : mu.contains (marker (renderC ds)) = false :=
    contains_of_none (no_marker_of_noWhiteout hnw (renderC_head _ hne))
  rw [viewN_unmarked hm1] at hpres
  cases hf : firstN (mu :: ms) (renderC ds ++ '/' :: n) with
  | none => exact absurd hf hpres
  | some e =>
    obtain ⟨k, m, hfa, he⟩ := firstN_some hf
    have hmem : m ∈ mu :: ms := List.mem_of_getElem? hfa.get
    obtain ⟨_, pe, hpe, hpd⟩ := (hwf m hmem).2 _ e he hpne
    rw [parent_of_child (renderC ds) n hn] at hpe
    cases hf2 : firstN (mu :: ms) (renderC ds) with
    | none => rw [(firstN_none_iff _ _).1 hf2 m hmem] at hpe; cases hpe
    | some e2 =>
      obtain ⟨k2, m2, hfa2, he2⟩ := firstN_some hf2
      have hmem2 : m2 ∈ mu :: ms := List.mem_of_getElem? hfa2.get
      refine ⟨e2, by rw [oview_ne hdne, viewN_unmarked hm2]; exact hf2, ?_⟩
      rw [htc m2 hmem2 m hmem _ e2 pe he2 hpe]; exact hpd

/-! ### 3b. refinement of the reference backend -/

/-- a flat map as a view -/
def mview (m : FMap) : View := fun q => m.find? q

/-- the keys of a reference tree: the root and canonical paths outside ".whiteout" -/
def RefKeys (m : FMap) : Prop :=
  ∀ k e, m.find? k = some e → k = [] ∨
    ∃ cs, cs ≠ [] ∧ (∀ c ∈ cs, GoodComp c) ∧ cs.head? ≠ some woDir ∧ k = renderC cs

/-- the view `v` is (up to timestamps) the reference tree `m`: on the root and on EVERY absolute
path outside ".whiteout" — the canonical ones and the others, which are absent on both sides -/
structure Refines (v : View) (m : FMap) : Prop where
  wf : WF m
  keys : RefKeys m
  same : VSame (mview m) v

theorem opOK_vis {op : Mut} (hop : OpOK op) : Vis op.path := by
  obtain ⟨ds, n, hp, hpath⟩ := hop; rw [hpath]; exact Or.inr hp.nr

theorem opOK_parentVis {op : Mut} (hop : OpOK op) : Vis (parentInternal op.path) := by
  obtain ⟨ds, n, hp, hpath⟩ := hop; rw [hpath, hp.parent]; exact hp.parentVis

/-- under refinement the two preconditions say the same -/
theorem vpre_iff_pre {v : View} {m : FMap} (href : Refines v m) {op : Mut} (hop : OpOK op) :
    VPre v op ↔ Pre m op := by
  have hp := href.same _ (opOK_vis hop)
  have hpar := href.same _ (opOK_parentVis hop)
  obtain ⟨ds, n, hpth, hpath⟩ := hop
  cases op with
  | createDir p =>
    simp only [Mut.path] at hp hpar
    exact and_congr (isDir_of_vcore hpar) (none_of_vcore hp)
  | write p bs =>
    simp only [Mut.path] at hp hpar
    refine and_congr (isDir_of_vcore hpar) ?_
    rw [isDir_of_vcore hp]
    constructor
    · intro hnd
      rcases present_cases m p with ha | hf | hd
      · exact Or.inl ha
      · exact Or.inr hf
      · exact absurd hd hnd
    · rintro (ha | hf) hd
      · exact not_isDir_of_absent ha hd
      · exact not_isDir_of_isFile hf hd
  | append p bs => simp only [Mut.path] at hp; exact isFile_of_vcore hp
  | removeFile p => simp only [Mut.path] at hp; exact isFile_of_vcore hp
  | removeDir p =>
    simp only [Mut.path] at hp hpath
    refine and_congr (isDir_of_vcore hp) ?_
    subst hpath
    constructor
    · intro hnc k e hk hs hpk
      rcases href.keys k e hk with rfl | ⟨cs, hne, hcs, hhead, rfl⟩
      · simp at hs
      · rcases List.eq_nil_or_concat cs with rfl | ⟨xs, x, rfl⟩
        · exact hne rfl
        · rw [List.concat_eq_append] at hcs hpk hk hhead
          obtain ⟨hxs, hx⟩ := good_of_snoc hcs
          rw [parent_snoc xs x hxs hx] at hpk
          have hq : Vis (renderC (ds ++ [n]) ++ '/' :: x) :=
            Or.inr (NR_child hpth.ne (good_noSlash hpth.good) hpth.head x)
          have h1 := hnc x hx.noSlash
          have h2 := (none_of_vcore (href.same _ hq)).1 h1
          rw [← hpk, ← renderC_snoc] at h2
          unfold mview at h2; rw [hk] at h2; cases h2
    · intro hnc x hx
      have hq : Vis (renderC (ds ++ [n]) ++ '/' :: x) :=
        Or.inr (NR_child hpth.ne (good_noSlash hpth.good) hpth.head x)
      apply (none_of_vcore (href.same _ hq)).2
      show m.find? _ = none
      cases hf : m.find? (renderC (ds ++ [n]) ++ '/' :: x) with
      | none => rfl
      | some e => exact absurd (parent_of_child _ x hx) (hnc _ e hf (by simp))

theorem vcore_eq_of_isDir {a b : Option Entry}
    (ha : ∃ e, a = some e ∧ e.ftype = .dir) (hb : ∃ e, b = some e ∧ e.ftype = .dir) :
    a.map vcore = b.map vcore := by
  obtain ⟨e1, rfl, h1⟩ := ha
  obtain ⟨e2, rfl, h2⟩ := hb
  simp [vcore_dir h1, vcore_dir h2]

theorem vcore_eq_of_hasFile {a b : Option Entry} {bs : Bytes}
    (ha : ∃ e, a = some e ∧ e.ftype = .file ∧ e.content = bs)
    (hb : ∃ e, b = some e ∧ e.ftype = .file ∧ e.content = bs) :
    a.map vcore = b.map vcore := by
  obtain ⟨e1, rfl, h1, c1⟩ := ha
  obtain ⟨e2, rfl, h2, c2⟩ := hb
  simp [vcore_file h1, vcore_file h2, c1, c2]

/-- **one step of the refinement.** The view `v` refines the reference tree `m`; a call obeys the
view contract from `v` to `v'` with outcome `r`. Then the reference call `stepPhys m op` has the
same outcome class (both succeed or both fail, neither panics; a target missing from an existing
directory is not-found on both sides; `create_dir` on an occupied path reports the same
occupant), and `v'` refines the reference tree after the call. -/
theorem refines_step {v v' : View} {m : FMap} (href : Refines v m) {op : Mut} (hop : OpOK op)
    {r : Res Unit} (hc : VContract v op r v') :
    SameOutcome r (stepPhys m op).1 ∧
    (needsTarget op = true → IsDir m (parentInternal op.path) → Absent m op.path →
      r.kind? = some .fileNotFound ∧ (stepPhys m op).1.kind? = some .fileNotFound) ∧
    (∀ q, op = .createDir q → IsDir m (parentInternal q) →
      (IsFile m q → r.kind? = some .fileExists ∧ (stepPhys m op).1.kind? = some .fileExists) ∧
      (IsDir m q → r.kind? = some .dirExists ∧ (stepPhys m op).1.kind? = some .dirExists)) ∧
    Refines v' (stepPhys m op).2 := by
  have hvis := opOK_vis hop
  have hpvis := opOK_parentVis hop
  have habs : Abs op.path := by
    obtain ⟨ds, n, hp, hpath⟩ := hop; rw [hpath]; exact hp.abs
  have C := (primitive_contracts href.wf op habs).1
  have hpre := vpre_iff_pre href hop
  have hok : r.isOk = (stepPhys m op).1.isOk := by
    rw [Bool.eq_iff_iff, hc.ok_iff, C.ok_iff, hpre]
  have hwf' : WF (stepPhys m op).2 := by
    obtain ⟨_, hce, hw⟩ := step_agree href.wf (CoreEq.refl m) op habs
    exact hw.of_coreEq hce
  refine ⟨⟨hok, hc.no_panic, C.no_panic⟩, ?_, ?_, ?_⟩
  · intro hn hpar ha
    exact ⟨hc.missing hn ((isDir_of_vcore (href.same _ hpvis)).2 hpar)
      ((none_of_vcore (href.same _ hvis)).2 ha), C.missing hn hpar ha⟩
  · intro q hq hpar
    have hpar' : VIsDir v (parentInternal q) := by
      subst hq; exact (isDir_of_vcore (href.same _ hpvis)).2 hpar
    have hqv : Vis q := by subst hq; exact hvis
    constructor
    · intro hf
      exact ⟨(hc.occupied q hq hpar').1 ((isFile_of_vcore (href.same _ hqv)).2 hf),
        (C.occupied q hq hpar).1 hf⟩
    · intro hd
      exact ⟨(hc.occupied q hq hpar').2 ((isDir_of_vcore (href.same _ hqv)).2 hd),
        (C.occupied q hq hpar).2 hd⟩
  · cases hr : r.isOk with
    | false =>
      have hun := C.unchanged (by rw [← hok]; exact hr)
      rw [hun]
      exact ⟨href.wf, href.keys, VSame.trans href.same (hc.unchanged hr)⟩
    | true =>
      obtain ⟨hvnamed, hvframe⟩ := hc.effect hr
      obtain ⟨hnamed, hframe⟩ := C.effect (by rw [← hok]; exact hr)
      refine ⟨hwf', ?_, ?_⟩
      · intro k e hk
        by_cases hkp : k = op.path
        · right
          obtain ⟨ds, n, hp, hpath⟩ := hop
          exact ⟨ds ++ [n], hp.ne, hp.good, hp.head, by rw [hkp, hpath]⟩
        · rw [hframe k hkp] at hk; exact href.keys k e hk
      · intro q hq
        by_cases hqp : q = op.path
        · subst hqp
          have hsame := href.same _ hvis
          cases op with
          | createDir p => exact vcore_eq_of_isDir hvnamed.1 hnamed
          | write p bs => exact vcore_eq_of_hasFile hvnamed hnamed
          | append p bs =>
            obtain ⟨old1, ho1, hn1⟩ := hvnamed
            obtain ⟨old2, ho2, hn2⟩ := hnamed
            have : old1 = old2 := by
              obtain ⟨e1, he1, hf1, hc1⟩ := ho1
              obtain ⟨e2, he2, hf2, hc2⟩ := ho2
              simp only [Mut.path] at hsame
              unfold mview at hsame
              rw [he1, he2] at hsame
              simp only [Option.map_some, Option.some.injEq] at hsame
              rw [vcore_file hf1, vcore_file hf2] at hsame
              rw [← hc1, ← hc2]; exact congrArg Prod.snd hsame
            subst this
            exact vcore_eq_of_hasFile hn1 hn2
          | removeFile p =>
            simp only [VNamed, VAbsent, Named, Absent, Mut.path] at hvnamed hnamed ⊢
            unfold mview; rw [hvnamed, hnamed]
          | removeDir p =>
            simp only [VNamed, VAbsent, Named, Absent, Mut.path] at hvnamed hnamed ⊢
            unfold mview; rw [hvnamed, hnamed]
        · rw [hvframe q hq hqp, href.same q hq]
          unfold mview; rw [hframe q hqp]

/-! ### histories -/

/-- a history through a filesystem: the outcomes and the final world -/
def runOverlay (fs : FS) : List Mut → World → List (Res Unit) × World
  | [], w => ([], w)
  | op :: rest, w =>
    ((ostep fs op w).1 :: (runOverlay fs rest (ostep fs op w).2).1,
      (runOverlay fs rest (ostep fs op w).2).2)

/-- the same history on the reference backend -/
def runRef : List Mut → FMap → List (Res Unit) × FMap
  | [], m => ([], m)
  | op :: rest, m =>
    ((stepPhys m op).1 :: (runRef rest (stepPhys m op).2).1, (runRef rest (stepPhys m op).2).2)

/-- the type discipline of the open defect O3 along a history, read off the REFERENCE run:
`remove_file` is never applied to a path that is a directory at that moment -/
def o3ok (m : FMap) : Mut → Prop
  | .removeFile p => ¬ IsDir m p
  | _ => True

instance (m : FMap) (op : Mut) : Decidable (o3ok m op) := by
  cases op <;> unfold o3ok <;> exact inferInstance

def RefO3Free : List Mut → FMap → Prop
  | [], _ => True
  | op :: rest, m => o3ok m op ∧ RefO3Free rest (stepPhys m op).2

instance : (ops : List Mut) → (m : FMap) → Decidable (RefO3Free ops m)
  | [], _ => isTrue trivial
  | op :: rest, m =>
    have := instDecidableRefO3Free rest (stepPhys m op).2
    by unfold RefO3Free; exact inferInstance

/-- **overlay_refines_reference.** n ≥ 1 memory layers (`OWN`), hidden state in order (`OInv`),
well-formed view (`ViewWF`) — e.g. well-formed type-consistent layers without markers
(`OInv.initial`, `ViewWF.initial`) —, a reference tree `m0` holding the initial view
(`Refines`). For EVERY finite list of mutators on disciplined paths (`OpOK`), under the O3 type
discipline for `remove_file` (`RefO3Free`): the overlay and the reference backend agree call by
call on success / failure, neither ever panics, and the final view of the overlay is (up to
timestamps) the final reference tree; the final world is again in the setting, with the lower
maps unchanged up to access stamps, and all invariants hold again. -/
theorem overlay_refines_reference (ops : List Mut) (hops : ∀ op ∈ ops, OpOK op)
    {w : World} {u idu : Nat} {mu : FMap} {is ids : List Nat} {ms : List FMap}
    (h : OWN w (u :: is) (idu :: ids) (mu :: ms)) (inv : OInv mu ms)
    (hv : ViewWF (oview (mu :: ms))) (m0 : FMap) (href : Refines (oview (mu :: ms)) m0)
    (hdisc : RefO3Free ops m0) :
    ∃ mu' ms',
      OWN (runOverlay (Overlay.fs (layersN (u :: is) (idu :: ids))) ops w).2
        (u :: is) (idu :: ids) (mu' :: ms') ∧
      LowerSame ms ms' ∧ OInv mu' ms' ∧ ViewWF (oview (mu' :: ms')) ∧
      (runOverlay (Overlay.fs (layersN (u :: is) (idu :: ids))) ops w).1.map Res.isOk
        = (runRef ops m0).1.map Res.isOk ∧
      (∀ r ∈ (runOverlay (Overlay.fs (layersN (u :: is) (idu :: ids))) ops w).1, r ≠ .panic) ∧
      (∀ r ∈ (runRef ops m0).1, r ≠ .panic) ∧
      Refines (oview (mu' :: ms')) (runRef ops m0).2 := by
  induction ops generalizing w mu ms m0 with
  | nil =>
    exact ⟨mu, ms, h, LowerSame.refl ms, inv, hv, rfl, by simp [runOverlay], by simp [runRef], href⟩
  | cons op rest ih =>
    have hop := hops op (by simp)
    have hd3 : O3Free (oview (mu :: ms)) op := by
      intro p hp hd
      subst hp
      exact hdisc.1 ((isDir_of_vcore (href.same _ (opOK_vis hop))).1 hd)
    obtain ⟨r, w', mu1, ms1, hrun, hown1, hls1, _, inv1, hv1, hc⟩ :=
      overlay_contractN h inv hv op hop hd3
    obtain ⟨hso, _, _, href1⟩ := refines_step href hop hc
    obtain ⟨mu', ms', hown', hls', inv', hv', hoks, hnp1, hnp2, href'⟩ :=
      ih (fun o ho => hops o (by simp [ho])) hown1 inv1 hv1 _ href1 hdisc.2
    have h1 : (ostep (Overlay.fs (layersN (u :: is) (idu :: ids))) op w).1 = r := by rw [hrun]
    have h2 : (ostep (Overlay.fs (layersN (u :: is) (idu :: ids))) op w).2 = w' := by rw [hrun]
    simp only [runOverlay, runRef, h1, h2]
    refine ⟨mu', ms', hown', hls1.trans hls', inv', hv', ?_, ?_, ?_, href'⟩
    · simp only [List.map_cons, hso.1, hoks]
    · intro x hx
      rcases List.mem_cons.1 hx with rfl | hx
      · exact hso.2.1
      · exact hnp1 x hx
    · intro x hx
      rcases List.mem_cons.1 hx with rfl | hx
      · exact hso.2.2
      · exact hnp2 x hx

/-! ### 4. non-vacuity: a concrete 3-layer world and a history, evaluated by `decide` -/

section checkers

/-- the components of an absolute path string -/
def pathComps (p : Str) : List Str := (splitSlash p).tail

/-- a decidable sufficient check for `OpOK` -/
def opOKb (op : Mut) : Bool :=
  decide (OpPath (pathComps op.path) ∧ renderC (pathComps op.path) = op.path)

theorem opOK_of_check {op : Mut} (h : opOKb op = true) : OpOK op := by
  unfold opOKb at h
  obtain ⟨hp, hr⟩ := of_decide_eq_true h
  have hsplit := List.dropLast_concat_getLast hp.ne
  refine ⟨(pathComps op.path).dropLast, (pathComps op.path).getLast hp.ne, ?_, ?_⟩
  · rw [hsplit]; exact hp
  · rw [hsplit]; exact hr.symm

theorem noWhiteout_of_keys {mu : FMap} (h : ∀ k ∈ mu.keys, firstComp k ≠ woDir) : NoWhiteout mu :=
  fun k e he => h k ((FMap.mem_keys_iff mu k).2 ⟨e, he⟩)

theorem typeConsistent_of_keys {all : List FMap}
    (h : ∀ m ∈ all, ∀ m' ∈ all, ∀ k ∈ m.keys,
      m'.find? k = none ∨ (m.find? k).map (·.ftype) = (m'.find? k).map (·.ftype)) :
    TypeConsistent all := by
  intro m hm m' hm' p e e' he he'
  rcases h m hm m' hm' p ((FMap.mem_keys_iff m p).2 ⟨e, he⟩) with h0 | h0
  · rw [he'] at h0; cases h0
  · rw [he, he'] at h0; simpa using h0

theorem refKeys_of_keys {m : FMap}
    (h : ∀ k ∈ m.keys, k = [] ∨ (pathComps k ≠ [] ∧ (∀ c ∈ pathComps k, GoodComp c) ∧
      (pathComps k).head? ≠ some woDir ∧ k = renderC (pathComps k))) : RefKeys m := by
  intro k e he
  rcases h k ((FMap.mem_keys_iff m k).2 ⟨e, he⟩) with h0 | ⟨h1, h2, h3, h4⟩
  · exact Or.inl h0
  · exact Or.inr ⟨pathComps k, h1, h2, h3, h4⟩

instance (q : Str) : Decidable (Vis q) := by unfold Vis; exact inferInstance

/-- it is enough to compare the view and the reference tree on the keys that occur -/
theorem vsame_of_keys (all : List FMap) (m0 : FMap)
    (h : ∀ q ∈ all.flatMap FMap.keys ++ m0.keys, Vis q →
      (oview all q).map vcore = (m0.find? q).map vcore) : VSame (mview m0) (oview all) := by
  intro q hq
  by_cases hmem : q ∈ all.flatMap FMap.keys ++ m0.keys
  · exact h q hmem hq
  · have h0 : m0.find? q = none := by
      cases hf : m0.find? q with
      | none => rfl
      | some e => exact absurd (List.mem_append_right _ ((FMap.mem_keys_iff m0 q).2 ⟨e, hf⟩)) hmem
    have hall : ∀ m ∈ all, m.find? q = none := by
      intro m hm
      cases hf : m.find? q with
      | none => rfl
      | some e =>
        exact absurd (List.mem_append_left _
          (List.mem_flatMap.2 ⟨m, hm, (FMap.mem_keys_iff m q).2 ⟨e, hf⟩⟩)) hmem
    have hv : oview all q = none := by
      unfold oview dirEntryN
      split
      · cases all with
        | nil => rfl
        | cons m rest => rename_i hq0; rw [← hq0]; exact hall m (by simp)
      · unfold viewN
        split
        · rfl
        · exact (firstN_none_iff _ _).2 hall
    show (oview all q).map vcore = (m0.find? q).map vcore
    rw [hv, h0]

end checkers

section example3
open Vfs.C10 (mapsOfN world3)

/-! upper (leaf 2): only the root and a file "/top";
layer 1 (leaf 0): "/d", "/d/x" = "1", "/d/b" = "B";
layer 2 (leaf 1): "/d", "/d/x" = "2", "/d/c" = "C", "/e", "/e/z" = "Z". -/

def xU : FMap := [("/top".toList, fileOf [84]), ([], dirEntryNow)]
def xA : FMap :=
  [("/d/x".toList, fileOf [49]), ("/d/b".toList, fileOf [66]), ("/d".toList, dirEntryNow),
   ([], dirEntryNow)]
def xB : FMap :=
  [("/d/x".toList, fileOf [50]), ("/d/c".toList, fileOf [67]), ("/d".toList, dirEntryNow),
   ("/e/z".toList, fileOf [90]), ("/e".toList, dirEntryNow), ([], dirEntryNow)]

def xw : World := world3 xA xB xU
def xfs : FS := Overlay.fs (layersN [2, 0, 1] [7, 8, 9])

/-- the reference tree holding the initial view (layer 1 serves "/d/x") -/
def xRef : FMap :=
  [("/top".toList, fileOf [84]), ("/d/x".toList, fileOf [49]), ("/d/b".toList, fileOf [66]),
   ("/d/c".toList, fileOf [67]), ("/d".toList, dirEntryNow), ("/e/z".toList, fileOf [90]),
   ("/e".toList, dirEntryNow), ([], dirEntryNow)]

/-- create_dir over a lower-only parent, a write session below it, an append session with copy-up
from layer 2, remove_file of a layer-1 file, emptying and removing a lower-only directory,
re-creating both; and four calls that must fail (occupied, non-empty, missing, parent is a file) -/
def xOps : List Mut :=
  [.createDir "/d/new".toList, .write "/d/new/f".toList [7, 8], .append "/d/c".toList [9],
   .removeFile "/d/b".toList, .removeFile "/e/z".toList, .removeDir "/e".toList,
   .createDir "/e".toList, .write "/d/b".toList [1],
   .createDir "/d".toList, .removeDir "/d".toList, .append "/nope".toList [1],
   .write "/d/x/y".toList [2]]

theorem xw_setting : OWN xw [2, 0, 1] [7, 8, 9] [xU, xA, xB] :=
  .cons rfl (by decide) (.cons rfl (by decide) (.cons rfl (by decide) .nil))

theorem xw_wf : ∀ m ∈ [xU, xA, xB], WF m := by decide

theorem xw_inv : OInv xU [xA, xB] := OInv.initial xw_wf (noWhiteout_of_keys (by decide))

theorem xw_viewWF : ViewWF (oview [xU, xA, xB]) :=
  ViewWF.initial xw_wf (noWhiteout_of_keys (by decide)) (typeConsistent_of_keys (by decide))

theorem xw_refines : Refines (oview [xU, xA, xB]) xRef :=
  ⟨by decide, refKeys_of_keys (by decide), vsame_of_keys _ _ (by decide)⟩

theorem xOps_ok : ∀ op ∈ xOps, OpOK op := by
  intro op hop
  apply opOK_of_check
  revert op
  decide

theorem xOps_o3 : RefO3Free xOps xRef := by decide

/-- the theorem, instantiated: all hypotheses of `overlay_refines_reference` hold on this world -/
theorem x_refines :
    ∃ mu' ms',
      OWN (runOverlay xfs xOps xw).2 [2, 0, 1] [7, 8, 9] (mu' :: ms') ∧
      LowerSame [xA, xB] ms' ∧ OInv mu' ms' ∧ ViewWF (oview (mu' :: ms')) ∧
      (runOverlay xfs xOps xw).1.map Res.isOk = (runRef xOps xRef).1.map Res.isOk ∧
      (∀ r ∈ (runOverlay xfs xOps xw).1, r ≠ .panic) ∧
      (∀ r ∈ (runRef xOps xRef).1, r ≠ .panic) ∧
      Refines (oview (mu' :: ms')) (runRef xOps xRef).2 :=
  overlay_refines_reference xOps xOps_ok xw_setting xw_inv xw_viewWF xRef xw_refines xOps_o3

instance (v : View) (p : Str) : Decidable (VIsDir v p) :=
  decidable_of_iff ((v p).any (fun e => decide (e.ftype = .dir)) = true)
    (by unfold VIsDir; cases v p <;> simp)

/-- the hypotheses of the per-call theorem `overlay_contractN` hold on this world, for a call of
each kind (the O3 discipline is vacuous except for `remove_file`, where it is evaluated) -/
example := overlay_contractN xw_setting xw_inv xw_viewWF (.createDir "/d/new".toList)
  (opOK_of_check (by decide)) (by intro p hp; cases hp)
example := overlay_contractN xw_setting xw_inv xw_viewWF (.write "/d/x".toList [1, 2])
  (opOK_of_check (by decide)) (by intro p hp; cases hp)
example := overlay_contractN xw_setting xw_inv xw_viewWF (.append "/d/c".toList [9])
  (opOK_of_check (by decide)) (by intro p hp; cases hp)
example := overlay_contractN xw_setting xw_inv xw_viewWF (.removeFile "/d/b".toList)
  (opOK_of_check (by decide)) (by intro p hp; injection hp with hp; subst hp; decide)
example := overlay_contractN xw_setting xw_inv xw_viewWF (.removeDir "/e".toList)
  (opOK_of_check (by decide)) (by intro p hp; cases hp)
-- the per-operation theorems, instantiated
example := overlay_createDir_contractN xw_setting xw_inv xw_viewWF
  (ds := ["d".toList]) (n := "new".toList) (by decide)
example := overlay_removeFile_contractN xw_setting xw_inv
  (ds := ["d".toList]) (n := "b".toList) (by decide) (by decide)
-- a precondition read off the view, evaluated: "/d/c" is a file of the view (served by layer 2)
example : VPre (oview [xU, xA, xB]) (.append "/d/c".toList [9]) :=
  ⟨fileOf [67], by decide, rfl⟩

/-- … and, independently, by evaluation: the outcomes of the overlay -/
theorem x_outcomes : (runOverlay xfs xOps xw).1 =
    [.ok (), .ok (), .ok (), .ok (), .ok (), .ok (), .ok (), .ok (),
     .err .dirExists none, .err .other none, .err .fileNotFound none, .err .other none] := by
  decide +kernel

/-- the reference backend succeeds and fails on the same calls -/
theorem x_ref_outcomes : (runRef xOps xRef).1.map Res.isOk =
    [true, true, true, true, true, true, true, true, false, false, false, false] := by
  decide +kernel

/-- the final view of the overlay is the final reference tree, on every key that occurs -/
theorem x_final_agree :
    ∀ q ∈ (mapsOfN (runOverlay xfs xOps xw).2 [2, 0, 1]).flatMap FMap.keys ++ (runRef xOps xRef).2.keys,
      Vis q → (oview (mapsOfN (runOverlay xfs xOps xw).2 [2, 0, 1]) q).map vcore
        = ((runRef xOps xRef).2.find? q).map vcore := by
  decide +kernel

/-- what the history did: the copy-up continued layer 2's "C", "/d/b" holds only the new byte,
the re-created "/e" is empty, the lower layers still hold their bytes -/
example : (oview (mapsOfN (runOverlay xfs xOps xw).2 [2, 0, 1]) "/d/c".toList).map vcore
    = some (.file, [67, 9]) := by decide +kernel
example : (oview (mapsOfN (runOverlay xfs xOps xw).2 [2, 0, 1]) "/d/b".toList).map vcore
    = some (.file, [1]) := by decide +kernel
example : (oview (mapsOfN (runOverlay xfs xOps xw).2 [2, 0, 1]) "/e/z".toList) = none := by
  decide +kernel
example : (oview (mapsOfN (runOverlay xfs xOps xw).2 [2, 0, 1]) "/d/new/f".toList).map vcore
    = some (.file, [7, 8]) := by decide +kernel
example : ∀ q ∈ xA.keys ++ xB.keys,
    (((mapsOfN (runOverlay xfs xOps xw).2 [2, 0, 1]).drop 1).map (fun m => (m.find? q).map core))
      = [xA, xB].map (fun m => (m.find? q).map core) := by decide +kernel

end example3

end Vfs.C09

section audit
open Vfs.C09
#print axioms overlay_createDir_contractN
#print axioms overlay_write_contractN
#print axioms overlay_append_contractN
#print axioms overlay_removeFile_contractN
#print axioms overlay_removeDir_contractN
#print axioms overlay_removeFile_no_panicN
#print axioms overlay_contractN
#print axioms OInv.initial
#print axioms ViewWF.initial
#print axioms ViewWF.step
#print axioms refines_step
#print axioms overlay_refines_reference
#print axioms x_refines
#print axioms x_outcomes
#print axioms x_final_agree
end audit
