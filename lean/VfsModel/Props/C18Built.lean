/-
  C18, third part (after Props/C18Phys.lean and Props/C18PhysOps.lean): `folder_built`.

  WHAT IS PROVED HERE
  * `folder_built : folder_built_stmt` — for EVERY `GoodFiles` list, putting the files one by one
    onto a fresh physical filesystem with the MODEL's own `VfsPath` operations (`putFile`:
    `create_dir_all` of the parent, `create_file`, `write_all`, drop) succeeds and leaves a map
    with exactly the lookups of `folderMap fl` (`Built fl`). Ingredients:
    `createDir_step` / `createDirAllLoop_chain` (the loop of `create_dir_all` on a physical leaf
    over the chain of prefixes, when no prefix is a file), `folderMap_snoc_find?` (the folder with
    one more file = the old folder + the parent chain + the file), `putFile_spec`,
    `buildFolder_spec`; `folder_built_lookup` (the same with the final world exposed).
  * `physObs_congr`: the physical observers depend on the lookups of the map only (a listing also
    on the storage order). **`embedded_matches_physical_lk`**: the lock-step theorem of
    Props/C18Phys.lean for ANY physical map with the lookups of `folderMap fl` (`read_dir` compared
    as a set of child paths). **`embedded_matches_built_folder`**: end to end — in the world the
    model's operations build, the embedded and the physical filesystem answer alike on every
    canonical path (not below a file, not the root of the empty folder).
  HYPOTHESES: `GoodFiles fl` (decidable) only; the start world is `freshPhys` (one physical leaf
  holding `Phys.init`).
  NOT PROVED: independence of the ORDER in which the files are put (the list order is used; the
  result has the same lookups for every order by `folder_built` itself, since `GoodFiles` and
  `folderMap`'s lookups are order-insensitive — not stated separately); the walk theorem on the
  built map (`embedded_walk_matches_physical` is stated for `folderMap fl` itself).
-/
import VfsModel.Props.C18PhysOps
namespace Vfs.C18
open Vfs.Embedded

/-- every directory entry is the fresh one (no time setter has been used) -/
def DirsNow (m : FMap) : Prop := ∀ k e, m.find? k = some e → e.ftype = .dir → e = dirEntryNow

theorem physLeafAt_set {w : World} {i : Nat} {m : FMap} (h : PhysLeafAt w i m) (m' : FMap) :
    PhysLeafAt (w.setLeafFiles i m') i m' :=
  World.setLeafFiles_same w i _ m' h

theorem run_createDir {w : World} {i : Nat} {m : FMap} (h : PhysLeafAt w i m) (d : Str) :
    (leafFS i).createDir d w =
      ((Phys.createDir m d).1, w.setLeafFiles i (Phys.createDir m d).2) := by
  simp only [leafFS, onLeaf]
  rw [h]

/-- one step of `create_dir_all` on the physical map: the prefix is created, or is already a
directory -/
theorem createDir_step {m : FMap} (hwf : WF m) (hdn : DirsNow m) (pre : List Str) (c : Str)
    (hns : NoSlash (pre ++ [c]))
    (hpre : ∃ e, m.find? (renderC pre) = some e ∧ e.ftype = .dir)
    (hnf : ∀ e, m.find? (renderC (pre ++ [c])) = some e → e.ftype = .dir) :
    ∃ r m₁, Phys.createDir m (renderC (pre ++ [c])) = (r, m₁) ∧
      (r = .ok () ∨ r = .err .dirExists none) ∧ WF m₁ ∧ DirsNow m₁ ∧
      ∀ k, m₁.find? k = if k = renderC (pre ++ [c]) then some dirEntryNow else m.find? k := by
  have hpar : parentInternal (renderC (pre ++ [c])) = renderC pre := by
    rw [parentInternal_renderC _ hns, List.dropLast_concat]
  have hsl : '/' ∈ renderC (pre ++ [c]) := slash_mem_renderC (by simp)
  obtain ⟨pe, hpe, hped⟩ := hpre
  have hlk : Phys.lookup m (renderC (pre ++ [c])) = .ok (m.find? (renderC (pre ++ [c]))) :=
    hwf.lookup_child _ hsl pe (by rw [hpar]; exact hpe) hped
  cases hfd : m.find? (renderC (pre ++ [c])) with
  | none =>
    refine ⟨.ok (), m.insert (renderC (pre ++ [c])) dirEntryNow, ?_, Or.inl rfl, ?_, ?_, ?_⟩
    · unfold Phys.createDir; rw [hlk, hfd]
    · exact hwf.insert_dir _ dirEntryNow rfl hsl pe (by rw [hpar]; exact hpe) hped
    · intro k e hk hd
      rw [FMap.find?_insert] at hk
      split at hk
      · injection hk with hk; exact hk.symm
      · exact hdn k e hk hd
    · intro k
      rw [FMap.find?_insert]
  | some e =>
    have hd := hnf e hfd
    have he := hdn _ e hfd hd
    refine ⟨.err .dirExists none, m, ?_, Or.inr rfl, hwf, hdn, ?_⟩
    · unfold Phys.createDir; rw [hlk, hfd]; simp [hd, fail]
    · intro k
      split
      · rename_i hk; rw [hk, hfd, he]
      · rfl

/-- the loop of `create_dir_all` over the chain `pre/c1`, `pre/c1/c2`, … on a physical leaf:
it succeeds when no element of the chain is a file, and afterwards every element is a (fresh)
directory and nothing else has changed -/
theorem createDirAllLoop_chain (i id : Nat) (q : Str) : ∀ (rest pre : List Str) (w : World)
    (m : FMap), PhysLeafAt w i m → WF m → DirsNow m →
    (∃ e, m.find? (renderC pre) = some e ∧ e.ftype = .dir) →
    NoSlash (pre ++ rest) →
    (∀ k ∈ chain pre rest, ∀ e, m.find? k = some e → e.ftype = .dir) →
    ∃ w' m', VPath.createDirAllLoop (physVP i id q) (chain pre rest) w = (.ok (), w') ∧
      PhysLeafAt w' i m' ∧ WF m' ∧ DirsNow m' ∧
      ∀ k, m'.find? k = if k ∈ chain pre rest then some dirEntryNow else m.find? k := by
  intro rest
  induction rest with
  | nil =>
    intro pre w m h hwf hdn _ _ _
    exact ⟨w, m, rfl, h, hwf, hdn, fun k => by simp [chain]⟩
  | cons c rest ih =>
    intro pre w m h hwf hdn hpre hns hchain
    have hns1 : NoSlash (pre ++ [c]) := fun x hx => hns x (by
      rcases List.mem_append.1 hx with hx | hx
      · exact List.mem_append_left _ hx
      · simp at hx; subst hx; simp)
    obtain ⟨r, m₁, hcd, hr, hwf₁, hdn₁, hfind₁⟩ := createDir_step hwf hdn pre c hns1 hpre
      (hchain _ (by simp [chain]))
    have hrun : (physVP i id q).fs.createDir (renderC (pre ++ [c])) w =
        (r, w.setLeafFiles i m₁) := by
      show (leafFS i).createDir _ w = _
      rw [run_createDir h, hcd]
    obtain ⟨w', m', hloop, hleaf, hwf', hdn', hfind'⟩ :=
      ih (pre ++ [c]) (w.setLeafFiles i m₁) m₁ (physLeafAt_set h m₁) hwf₁ hdn₁
        ⟨dirEntryNow, by rw [hfind₁, if_pos rfl], rfl⟩
        (by rw [List.append_assoc]; exact hns)
        (by
          intro k hk e he
          rw [hfind₁] at he
          split at he
          · injection he with he; rw [← he]; rfl
          · exact hchain k (by simp [chain, hk]) e he)
    refine ⟨w', m', ?_, hleaf, hwf', hdn', ?_⟩
    · show VPath.createDirAllLoop _ (renderC (pre ++ [c]) :: chain (pre ++ [c]) rest) w = _
      unfold VPath.createDirAllLoop
      rw [hrun]
      rcases hr with rfl | rfl
      · exact hloop
      · exact hloop
    · intro k
      rw [hfind', hfind₁]
      show _ = if k ∈ renderC (pre ++ [c]) :: chain (pre ++ [c]) rest then _ else _
      by_cases h1 : k ∈ chain (pre ++ [c]) rest
      · simp [h1]
      · by_cases h2 : k = renderC (pre ++ [c])
        · simp [h2]
        · simp [h1]

/-! ### pure facts about one more file -/

theorem goodFiles_left {a b : List (Str × Bytes)} (h : GoodFiles (a ++ b)) : GoodFiles a := by
  obtain ⟨h1, h2, h3⟩ := h
  refine ⟨fun f hf => h1 f (List.mem_append_left _ hf), ?_,
    fun f hf g hg => h3 f (List.mem_append_left _ hf) g (List.mem_append_left _ hg)⟩
  rw [List.map_append] at h2
  exact (List.nodup_append.1 h2).1

theorem WF_congr {a b : FMap} (h : ∀ k, a.find? k = b.find? k) (hb : WF b) : WF a := by
  unfold WF at *
  simp only [h]
  exact hb

theorem folderMap_dirsNow (fl : List (Str × Bytes)) : DirsNow (folderMap fl) := by
  intro k e hk hd
  rw [folderMap_find?] at hk
  split at hk
  · injection hk with hk; exact hk.symm
  · obtain ⟨_, b, _, _, _, he⟩ := find?_fileKVs_some fl k e hk
    rw [he] at hd; cases hd

theorem mem_chain (k : Str) : ∀ (rest pre : List Str),
    k ∈ chain pre rest ↔ ∃ a b, rest = a ++ b ∧ a ≠ [] ∧ k = renderC (pre ++ a) := by
  intro rest
  induction rest with
  | nil =>
    intro pre
    simp only [chain, List.not_mem_nil, false_iff]
    rintro ⟨a, b, hab, ha, _⟩
    cases a with
    | nil => exact ha rfl
    | cons x a' => simp at hab
  | cons c rest ih =>
    intro pre
    simp only [chain, List.mem_cons, ih]
    constructor
    · rintro (rfl | ⟨a, b, rfl, ha, rfl⟩)
      · exact ⟨[c], rest, rfl, by simp, rfl⟩
      · exact ⟨c :: a, b, rfl, by simp, by simp⟩
    · rintro ⟨a, b, hab, ha, rfl⟩
      cases a with
      | nil => exact absurd rfl ha
      | cons x a' =>
        simp only [List.cons_append, List.cons.injEq] at hab
        obtain ⟨rfl, rfl⟩ := hab
        by_cases ha' : a' = []
        · subst ha'; exact Or.inl rfl
        · exact Or.inr ⟨a', b, rfl, ha', by simp⟩

section onemore
variable {fl₁ : List (Str × Bytes)} {f : Str × Bytes} (hG : GoodFiles (fl₁ ++ [f]))
  {l : List Str} {c : Str} (hsp : splitSlash f.1 = l ++ [c])
include hG hsp

omit hG in
theorem om_noSlash : NoSlash (l ++ [c]) := by
  rw [← hsp]; exact noSlash_split _

omit hG in
theorem om_path : '/' :: f.1 = renderC (l ++ [c]) := by
  have hsp' : splitOnC '/' f.1 = l ++ [c] := hsp
  rw [← renderC_splitSlash f.1, hsp']

/-- no element of the parent chain is an embedded file of the earlier list -/
theorem om_chain_not_file (k : Str) (hk : k ∈ chain [] l) (e : Entry)
    (he : (folderMap fl₁).find? k = some e) : e.ftype = .dir := by
  rw [folderMap_find?] at he
  split at he
  · injection he with he; rw [← he]; rfl
  · exfalso
    obtain ⟨g, b, hkg, hmem, _, _⟩ := find?_fileKVs_some fl₁ k e he
    obtain ⟨a, b', hab, ha, hka⟩ := (mem_chain k l []).1 hk
    rw [List.nil_append, renderC_eq a ha] at hka
    have hg : g = key a := by rw [hkg] at hka; simpa using hka
    have := hG.2.2 (g, b) (List.mem_append_left _ hmem) f (by simp) a.length (by
      rw [hsp, hab]; simp)
    rw [hsp, hab] at this
    simp at this
    exact this hg

/-- the new file's path is neither present in the earlier folder nor on the parent chain -/
theorem om_path_fresh :
    (folderMap fl₁).find? ('/' :: f.1) = none ∧ '/' :: f.1 ∉ chain [] l := by
  have hns := om_noSlash hsp
  have hP := om_path hsp
  constructor
  · rw [hP, folderMap_find?_nodir fl₁ (l ++ [c]) hns (by simp)]
    · have hk : key (l ++ [c]) = f.1 := by rw [← hsp, key_splitSlash]
      rw [hk]
      have hnd := hG.2.1
      rw [List.map_append, List.nodup_append] at hnd
      rw [fileGet?_eq_none fl₁ f.1]
      · rfl
      · intro g hg heq
        exact hnd.2.2 g.1 (List.mem_map.2 ⟨g, hg, rfl⟩) f.1 (by simp) heq
    · rintro ⟨g, hg, x, post, hspg⟩
      have := hG.2.2 f (by simp) g (List.mem_append_left _ hg) (l ++ [c]).length (by
        rw [hspg]; simp)
      rw [hspg, List.take_left' rfl, ← hsp, key_splitSlash] at this
      exact this rfl
  · intro hmem
    obtain ⟨a, b, hab, _, hka⟩ := (mem_chain _ l []).1 hmem
    rw [hP, List.nil_append] at hka
    have hnsa : NoSlash a := fun x hx => hns x (by rw [hab]; simp [hx])
    have := C06.renderC_injective _ _ hns hnsa hka
    have hlen := congrArg List.length this
    rw [hab] at hlen
    simp at hlen

/-- the directory keys of the longer list: those of the shorter one and the parent chain -/
theorem om_dirKeys (k : Str) :
    k ∈ dirKeys (fl₁ ++ [f]) ↔ k ∈ dirKeys fl₁ ∨ k ∈ chain [] l := by
  rw [mem_dirKeys, mem_dirKeys, mem_chain]
  constructor
  · rintro (h | ⟨g, hg, pre, x, post, hspg, hk⟩)
    · exact Or.inl (Or.inl h)
    · rcases List.mem_append.1 hg with hg | hg
      · exact Or.inl (Or.inr ⟨g, hg, pre, x, post, hspg, hk⟩)
      · simp at hg; subst hg
        by_cases hpre : pre = []
        · subst hpre; exact Or.inl (Or.inl hk)
        · right
          rw [hsp] at hspg
          -- pre is a proper prefix of l ++ [c], hence a prefix of l
          rcases List.eq_nil_or_concat post with rfl | ⟨post', y, rfl⟩
          · have := List.append_inj' hspg rfl
            exact ⟨pre, [], by simpa using this.1, hpre, by simpa using hk⟩
          · simp only [List.concat_eq_append] at hspg
            have h' : l ++ [c] = (pre ++ x :: post') ++ [y] := by simpa using hspg
            have := (List.append_inj' h' rfl).1
            exact ⟨pre, x :: post', this, hpre, by simpa using hk⟩
  · rintro ((h | ⟨g, hg, pre, x, post, hspg, hk⟩) | ⟨a, b, hab, ha, hk⟩)
    · exact Or.inl h
    · exact Or.inr ⟨g, List.mem_append_left _ hg, pre, x, post, hspg, hk⟩
    · right
      refine ⟨f, by simp, a, ?_⟩
      cases b with
      | nil => exact ⟨c, [], by rw [hsp, hab]; simp, by simpa using hk⟩
      | cons y b' => exact ⟨y, b' ++ [c], by rw [hsp, hab]; simp, by simpa using hk⟩

/-- the lookups of the folder with one more file -/
theorem folderMap_snoc_find? (k : Str) :
    (folderMap (fl₁ ++ [f])).find? k =
      if k = '/' :: f.1 then some (fileEntry f.2)
      else if k ∈ chain [] l then some dirEntryNow
      else (folderMap fl₁).find? k := by
  obtain ⟨hfresh, hnotchain⟩ := om_path_fresh hG hsp
  have hkvs : ∀ k, (fileKVs (fl₁ ++ [f])).find? k =
      match (fileKVs fl₁).find? k with
      | some e => some e
      | none => if k = '/' :: f.1 then some (fileEntry f.2) else none := by
    intro k
    unfold fileKVs
    rw [List.map_append]
    generalize List.map (fun f => ('/' :: f.1, fileEntry f.2)) fl₁ = A
    induction A with
    | nil =>
      simp only [List.nil_append, List.map_cons, List.map_nil, FMap.find?_cons, FMap.find?_nil]
      by_cases h : '/' :: f.1 = k
      · simp [h]
      · have : ¬ k = '/' :: f.1 := fun e => h e.symm
        simp [h, this]
    | cons kv A ih =>
      obtain ⟨k', v⟩ := kv
      simp only [List.cons_append, FMap.find?_cons]
      by_cases h : k' = k
      · simp [h]
      · simp only [if_neg h]; exact ih
  have hdk := om_dirKeys hG hsp k
  rw [folderMap_find?, hkvs k]
  rw [folderMap_find?] at hfresh
  by_cases hkP : k = '/' :: f.1
  · subst hkP
    rw [if_pos rfl]
    have h1 : '/' :: f.1 ∉ dirKeys fl₁ := by
      intro h; rw [if_pos h] at hfresh; cases hfresh
    rw [if_neg h1] at hfresh
    rw [if_neg (fun h => (hdk.1 h).elim h1 hnotchain), hfresh]
    simp
  · simp only [if_neg hkP]
    by_cases hkc : k ∈ chain [] l
    · rw [if_pos hkc, if_pos (hdk.2 (Or.inr hkc))]
    · rw [if_neg hkc, folderMap_find?]
      by_cases hkd : k ∈ dirKeys fl₁
      · rw [if_pos (hdk.2 (Or.inl hkd)), if_pos hkd]
      · rw [if_neg (fun h => (hdk.1 h).elim hkd hkc), if_neg hkd]
        cases (fileKVs fl₁).find? k with
        | some e => rfl
        | none => rfl

end onemore

/-! ### the world level: one file put through the `VfsPath` layer -/

theorem getParent_of_runs (V : VPath) (w : World) (o : Obs) (r : RunsObs V.parent w o)
    (hex : o.ex = true) (md : Meta) (hmd : o.md = .ok md) (hd : md.ftype = .dir) :
    V.getParent w = (.ok (), w) := by
  unfold VPath.getParent
  simp only [bind, M.bind]
  rw [r.exists_eq, hex]
  simp only [Bool.not_true, Bool.false_eq_true, if_false, M.bind, r.metadata_eq, hmd,
    Res.withPath, hd, ne_eq, not_true_eq_false]
  rfl

theorem run_createFile {w : World} {i : Nat} {m : FMap} (h : PhysLeafAt w i m) (p : Str) :
    (leafFS i).createFile p w =
      ((Phys.createFile m p).1.map (fun _ =>
          ({ leaf := i, key := p, kind := .physCreate, buf := [], pos := 0 } : WHandle)),
        w.setLeafFiles i (Phys.createFile m p).2) := by
  simp only [leafFS, onLeaf]
  rw [h]

theorem run_write_session {w : World} {i : Nat} {m : FMap} (h : PhysLeafAt w i m) (P : Str)
    (bs : Bytes) (hf : m.find? P = some fileEntryNow) :
    WHandle.writeAllAndDrop { leaf := i, key := P, kind := .physCreate, buf := [], pos := 0 } bs w =
      (.ok (), w.setLeafFiles i (m.insert P (fileEntry bs))) := by
  unfold WHandle.writeAllAndDrop WHandle.write WHandle.drop WHandle.flush
  simp only [bind, M.bind, h, hf]
  by_cases hb : bs = []
  · subst hb; rfl
  · simp only [hb, if_false]
    rw [show cursorWrite fileEntryNow.content 0 bs = bs from cursorWrite_nil bs]
    rfl

theorem putFile_spec (i id : Nat) (fl₁ : List (Str × Bytes)) (f : Str × Bytes)
    (hG : GoodFiles (fl₁ ++ [f])) (w : World) (m : FMap) (h : PhysLeafAt w i m)
    (hlk : ∀ k, m.find? k = (folderMap fl₁).find? k) :
    ∃ w' m', putFile i id f w = (.ok (), w') ∧ PhysLeafAt w' i m' ∧
      ∀ k, m'.find? k = (folderMap (fl₁ ++ [f])).find? k := by
  obtain ⟨l, c, hsp⟩ : ∃ l c, splitSlash f.1 = l ++ [c] := by
    rcases List.eq_nil_or_concat (splitSlash f.1) with h0 | ⟨l, c, h0⟩
    · exact absurd h0 (splitOnC_ne_nil _ _)
    · exact ⟨l, c, by simpa using h0⟩
  have hns := om_noSlash hsp
  have hnsl : NoSlash l := fun x hx => hns x (List.mem_append_left _ hx)
  have hP := om_path hsp
  obtain ⟨hfresh, hnotchain⟩ := om_path_fresh hG hsp
  have hwf : WF m := WF_congr hlk (folderMap_wf fl₁)
  have hdn : DirsNow m := fun k e hk hd =>
    folderMap_dirsNow fl₁ k e (by rw [← hlk]; exact hk) hd
  have hparent : parentInternal ('/' :: f.1) = renderC l := by
    rw [hP, parentInternal_renderC _ hns, List.dropLast_concat]
  have hpp : (physVP i id ('/' :: f.1)).parent = physVP i id (renderC l) := by
    unfold VPath.parent VPath.withStr physVP
    simp only [hparent]
  -- step 1: create_dir_all of the parent
  have step1 : ∃ w₁ m₁, (physVP i id (renderC l)).createDirAll w = (.ok (), w₁) ∧
      PhysLeafAt w₁ i m₁ ∧ WF m₁ ∧ DirsNow m₁ ∧
      ∀ k, m₁.find? k = if k ∈ chain [] l then some dirEntryNow else m.find? k := by
    by_cases hl : l = []
    · subst hl
      exact ⟨w, m, rfl, h, hwf, hdn, fun k => by simp [chain]⟩
    · obtain ⟨w₁, m₁, h1, h2, h3, h4, h5⟩ := createDirAllLoop_chain i id (renderC l) l [] w m h
        hwf hdn hwf.1 (by simpa using hnsl)
        (fun k hk e he => om_chain_not_file hG hsp k hk e (by rw [← hlk]; exact he))
      refine ⟨w₁, m₁, ?_, h2, h3, h4, h5⟩
      unfold VPath.createDirAll
      rw [if_neg (show ¬ (physVP i id (renderC l)).path = [] from renderC_ne_nil hl)]
      show VPath.createDirAllLoop _ (VPath.dirPrefixes (renderC l)) w = _
      rw [dirPrefixes_renderC l hnsl]
      exact h1
  obtain ⟨w₁, m₁, hrun1, hleaf1, hwf1, hdn1, hfind1⟩ := step1
  -- the parent is a directory now
  have hpar1 : m₁.find? (renderC l) = some dirEntryNow := by
    rw [hfind1]
    by_cases hl : l = []
    · subst hl
      rw [if_neg (by simp [chain]), hlk]
      exact folderMap_find?_dir fl₁ [] (fun _ h => by cases h) (Or.inl rfl)
    · have hin : renderC l ∈ chain [] l := (mem_chain _ l []).2 ⟨l, [], by simp, hl, rfl⟩
      rw [if_pos hin]
  have hPnone : m₁.find? ('/' :: f.1) = none := by
    rw [hfind1, if_neg hnotchain, hlk, hfresh]
  -- step 2: create_file
  have hgp : (physVP i id ('/' :: f.1)).getParent w₁ = (.ok (), w₁) := by
    have r := phys_runs hleaf1 id (renderC l)
    rw [phys_present hwf1 _ _ hpar1] at r
    exact getParent_of_runs _ w₁ _ (by rw [hpp]; exact r) rfl _ rfl rfl
  have hsl : '/' ∈ ('/' :: f.1 : Str) := by simp
  have hcf : Phys.createFile m₁ ('/' :: f.1) =
      (.ok (), m₁.insert ('/' :: f.1) fileEntryNow) := by
    unfold Phys.createFile
    rw [hwf1.lookup_child _ hsl dirEntryNow (by rw [hparent]; exact hpar1) rfl, hPnone]
  have hrun2 : (physVP i id ('/' :: f.1)).createFile w₁ =
      (.ok { leaf := i, key := '/' :: f.1, kind := .physCreate, buf := [], pos := 0 },
        w₁.setLeafFiles i (m₁.insert ('/' :: f.1) fileEntryNow)) := by
    unfold VPath.createFile
    simp only [bind, M.bind, hgp, M.withPath]
    show (match (leafFS i).createFile ('/' :: f.1) w₁ with | (r, w') => (r.withPath _, w')) = _
    rw [run_createFile hleaf1, hcf]
    rfl
  -- step 3: the write session
  have hleaf2 := physLeafAt_set hleaf1 (m₁.insert ('/' :: f.1) fileEntryNow)
  have hrun3 := run_write_session hleaf2 ('/' :: f.1) f.2 (FMap.find?_insert_self _ _ _)
  refine ⟨(w₁.setLeafFiles i (m₁.insert ('/' :: f.1) fileEntryNow)).setLeafFiles i
      ((m₁.insert ('/' :: f.1) fileEntryNow).insert ('/' :: f.1) (fileEntry f.2)),
    (m₁.insert ('/' :: f.1) fileEntryNow).insert ('/' :: f.1) (fileEntry f.2),
    ?_, physLeafAt_set hleaf2 _, ?_⟩
  · unfold putFile
    simp only [bind, M.bind, hpp, hrun1, hrun2, hrun3]
  · intro k
    rw [FMap.find?_insert, FMap.find?_insert, hfind1, hlk, folderMap_snoc_find? hG hsp k]
    by_cases hk : k = '/' :: f.1
    · simp [hk]
    · simp [hk]

/-- building the rest of the list on top of the folder of the first part -/
theorem buildFolder_spec (i id : Nat) : ∀ (fl₂ fl₁ : List (Str × Bytes)),
    GoodFiles (fl₁ ++ fl₂) → ∀ (w : World) (m : FMap), PhysLeafAt w i m →
    (∀ k, m.find? k = (folderMap fl₁).find? k) →
    ∃ w' m', buildFolder i id fl₂ w = (.ok (), w') ∧ PhysLeafAt w' i m' ∧
      ∀ k, m'.find? k = (folderMap (fl₁ ++ fl₂)).find? k := by
  intro fl₂
  induction fl₂ with
  | nil =>
    intro fl₁ _ w m h hlk
    exact ⟨w, m, rfl, h, by simpa using hlk⟩
  | cons f rest ih =>
    intro fl₁ hG w m h hlk
    have hG' : GoodFiles ((fl₁ ++ [f]) ++ rest) := by simpa using hG
    obtain ⟨w₁, m₁, h1, h2, h3⟩ := putFile_spec i id fl₁ f (goodFiles_left hG') w m h hlk
    obtain ⟨w₂, m₂, h4, h5, h6⟩ := ih (fl₁ ++ [f]) hG' w₁ m₁ h2 h3
    refine ⟨w₂, m₂, ?_, h5, by simpa using h6⟩
    unfold buildFolder
    simp only [bind, M.bind, h1, h4]

/-- **`folder_built`**: for EVERY well-formed file list, putting the files one by one onto a
fresh physical filesystem with the model's own `VfsPath` operations (`create_dir_all` of the
parent, `create_file`, `write_all`, drop) succeeds and leaves a map with exactly the lookups of
`folderMap fl` — the statement `folder_built_stmt` of Props/C18PhysOps.lean -/
theorem folder_built : folder_built_stmt := by
  intro fl hG
  have h0 : PhysLeafAt freshPhys 0 Phys.init := rfl
  have hlk0 : ∀ k, Phys.init.find? k = (folderMap []).find? k := fun k => rfl
  obtain ⟨w', m', h1, h2, h3⟩ := buildFolder_spec 0 0 fl [] (by simpa using hG) freshPhys
    Phys.init h0 hlk0
  unfold Built
  rw [h1]
  refine ⟨rfl, ?_⟩
  rw [h2]
  refine ⟨rfl, ?_, ?_⟩
  · intro k _; simpa using h3 k
  · intro k _; simpa using h3 k

/-- in the form used by the lock-step theorems: the built world holds `folderMap fl` up to the
storage order of the association list -/
theorem folder_built_lookup (fl : List (Str × Bytes)) (hG : GoodFiles fl) :
    ∃ w' m', buildFolder 0 0 fl freshPhys = (.ok (), w') ∧ PhysLeafAt w' 0 m' ∧
      ∀ k, m'.find? k = (folderMap fl).find? k := by
  have h0 : PhysLeafAt freshPhys 0 Phys.init := rfl
  have hlk0 : ∀ k, Phys.init.find? k = (folderMap []).find? k := fun k => rfl
  simpa using buildFolder_spec 0 0 fl [] (by simpa using hG) freshPhys Phys.init h0 hlk0

/-! ### the lock-step theorem on ANY physical map with the lookups of `folderMap fl`
(in particular on the folder the model's operations build) -/

theorem phys_lookup_congr {a b : FMap} (h : ∀ k, a.find? k = b.find? k) (p : Str) :
    Phys.lookup a p = Phys.lookup b p := by
  unfold Phys.lookup Phys.resolveParent
  simp only [h]

theorem phys_children_mem {a b : FMap} (h : ∀ k, a.find? k = b.find? k) (p n : Str) :
    n ∈ Phys.children a p ↔ n ∈ Phys.children b p := by
  unfold Phys.children
  rw [mem_filterMap_childName, mem_filterMap_childName]
  simp only [h]

/-- the observers of a physical map depend on its lookups only — except for the ORDER of a
listing, which follows the storage order -/
theorem physObs_congr {a b : FMap} (h : ∀ k, a.find? k = b.find? k) (p : Str) :
    physObs a p = ⟨(physObs b p).ex, (physObs b p).md,
      (match (physObs b p).rd with
        | .ok _ => .ok (Phys.children a p)
        | r => r), (physObs b p).op⟩ := by
  simp only [physObs, Phys.exists_, Phys.metadata, Phys.readDir, Phys.openFile,
    phys_lookup_congr h p]
  cases Phys.lookup b p with
  | ok o =>
    cases o with
    | none => rfl
    | some e => by_cases hf : e.ftype = .file <;> simp [hf, fail]
  | err k q => rfl
  | panic => rfl

/-- **C18, lock-step, on any physical folder with the lookups of `folderMap fl`** (whatever the
storage order of its entries; `read_dir` is compared as a set of child paths) -/
theorem embedded_matches_physical_lk (fl : List (Str × Bytes)) (hG : GoodFiles fl)
    (cs : List Str) (hcs : GoodCs cs) (hnb : ¬ BelowFile fl (renderC cs))
    (hroot : fl ≠ [] ∨ cs ≠ [])
    (w : World) (i : Nat) (m : FMap) (h : PhysLeafAt w i m)
    (hm : ∀ k, m.find? k = (folderMap fl).find? k) (idE idP : Nat) :
    (((embVP fl idE (renderC cs)).exists_ w).1 = ((physVP i idP (renderC cs)).exists_ w).1 ∧
      ((embVP fl idE (renderC cs)).exists_ w).2 = w ∧
      ((physVP i idP (renderC cs)).exists_ w).2 = w) ∧
    (SameRes (fun a b => a.ftype = b.ftype ∧ a.len = b.len)
        ((embVP fl idE (renderC cs)).metadata w).1 ((physVP i idP (renderC cs)).metadata w).1 ∧
      ((embVP fl idE (renderC cs)).metadata w).2 = w ∧
      ((physVP i idP (renderC cs)).metadata w).2 = w) ∧
    (SameRes (fun a b => ∀ x, x ∈ a.map (·.path) ↔ x ∈ b.map (·.path))
        ((embVP fl idE (renderC cs)).readDir w).1 ((physVP i idP (renderC cs)).readDir w).1 ∧
      ((embVP fl idE (renderC cs)).readDir w).2 = w ∧
      ((physVP i idP (renderC cs)).readDir w).2 = w) ∧
    ((¬ IsDirC fl cs → SameRes (· = ·)
        (readAll (embVP fl idE (renderC cs)) w).1 (readAll (physVP i idP (renderC cs)) w).1) ∧
      (readAll (embVP fl idE (renderC cs)) w).2 = w ∧
      (readAll (physVP i idP (renderC cs)) w).2 = w) ∧
    (SameRes (· = ·)
        ((embVP fl idE (renderC cs)).readToEndChecked w).1
        ((physVP i idP (renderC cs)).readToEndChecked w).1 ∧
      ((embVP fl idE (renderC cs)).readToEndChecked w).2 = w ∧
      ((physVP i idP (renderC cs)).readToEndChecked w).2 = w) := by
  have rE := emb_runs fl idE (renderC cs) w
  have rP := phys_runs h idP (renderC cs)
  rw [physObs_congr hm] at rP
  cases classify fl hG cs hcs hnb hroot with
  | file b he hp =>
    rw [he] at rE; rw [hp] at rP
    rw [rE.exists_eq, rP.exists_eq, rE.metadata_eq, rP.metadata_eq, rE.readDir_eq, rP.readDir_eq,
      rE.readAll_eq, rP.readAll_eq, rE.checked_eq, rP.checked_eq]
    simp [SameRes, Res.withPath, fail, ErrKind.cls, RHandle.readToEnd]
  | dir ch he hp hperm hnames hfind =>
    rw [he] at rE; rw [hp] at rP
    rw [rE.exists_eq, rP.exists_eq, rE.metadata_eq, rP.metadata_eq, rE.readDir_eq, rP.readDir_eq,
      rE.readAll_eq, rP.readAll_eq, rE.checked_eq, rP.checked_eq]
    have hd : IsDirC fl cs := by
      rcases (renderC_mem_dirKeys fl cs hcs.noSlash).1 (by
        have := hfind; rw [folderMap_find?] at this
        by_cases hmem : renderC cs ∈ dirKeys fl
        · exact hmem
        · rw [if_neg hmem] at this
          obtain ⟨f, b, _, _, _, he'⟩ := find?_fileKVs_some fl _ _ this
          cases he') with h0 | h0
      · subst h0
        rcases hroot with h1 | h1
        · exact isDirC_nil h1
        · exact absurd rfl h1
      · exact h0
    have hset : ∀ n, n ∈ ch ↔ n ∈ Phys.children m (renderC cs) := fun n => by
      rw [hperm.mem_iff, phys_children_mem hm]
    simp [SameRes, Res.withPath, fail, ErrKind.cls, RHandle.readToEnd, hd, embVP, physVP,
      VPath.withStr, hset]
  | absent he hp hfind =>
    rw [he] at rE; rw [hp] at rP
    rw [rE.exists_eq, rP.exists_eq, rE.metadata_eq, rP.metadata_eq, rE.readDir_eq, rP.readDir_eq,
      rE.readAll_eq, rP.readAll_eq, rE.checked_eq, rP.checked_eq]
    simp [SameRes, Res.withPath, fail, ErrKind.cls]

/-- **end to end**: build the folder with the model's operations on a fresh physical
filesystem; in the resulting world the embedded filesystem and that physical filesystem answer
alike on every canonical path (conclusion of `embedded_matches_physical_lk`) -/
theorem embedded_matches_built_folder (fl : List (Str × Bytes)) (hG : GoodFiles fl) :
    ∃ w m, buildFolder 0 0 fl freshPhys = (.ok (), w) ∧ PhysLeafAt w 0 m ∧
      (∀ k, m.find? k = (folderMap fl).find? k) ∧
      ∀ (cs : List Str), GoodCs cs → ¬ BelowFile fl (renderC cs) → (fl ≠ [] ∨ cs ≠ []) →
        ∀ idE idP,
        ((embVP fl idE (renderC cs)).exists_ w).1 = ((physVP 0 idP (renderC cs)).exists_ w).1 ∧
        SameRes (fun a b => a.ftype = b.ftype ∧ a.len = b.len)
          ((embVP fl idE (renderC cs)).metadata w).1 ((physVP 0 idP (renderC cs)).metadata w).1 ∧
        SameRes (fun a b => ∀ x, x ∈ a.map (·.path) ↔ x ∈ b.map (·.path))
          ((embVP fl idE (renderC cs)).readDir w).1 ((physVP 0 idP (renderC cs)).readDir w).1 ∧
        SameRes (· = ·) ((embVP fl idE (renderC cs)).readToEndChecked w).1
          ((physVP 0 idP (renderC cs)).readToEndChecked w).1 := by
  obtain ⟨w, m, h1, h2, h3⟩ := folder_built_lookup fl hG
  refine ⟨w, m, h1, h2, h3, ?_⟩
  intro cs hcs hnb hroot idE idP
  obtain ⟨a, b, c, _, e⟩ := embedded_matches_physical_lk fl hG cs hcs hnb hroot w 0 m h2 h3 idE idP
  exact ⟨a.1, b.1, c.1, e.1⟩

end Vfs.C18

#print axioms Vfs.C18.folder_built
#print axioms Vfs.C18.embedded_matches_physical_lk
#print axioms Vfs.C18.embedded_matches_built_folder
