/-
  C05 (traversal) — `VfsPath::walk_dir` on the in-memory backend yields every descendant exactly
  once, every directory before anything inside it, and the iteration terminates on every finite
  well-formed tree.

  Setting. `w` is a world whose leaf `i` is a memory leaf holding the flat map `m`
  (`MemLeafAt w i m`); `Wk.mk i id k` is the `VfsPath` `{ fs := leafFS i, fsId := id, path := k }`.
  `walkCollect fuel P` is `P.walk_dir()?` followed by collecting the iterator (`VPath.walkAll`,
  whose out-of-fuel outcome is the sentinel `.panic`). `Wk.below p k` says `k = p ++ "/" ++ t`
  for some `t` (k is a proper descendant of p by name; `below_iff`, `below_iff_under`).

  PROVED (all for the order in which the model lists the map — no assumption on that order):
    * `walk_observes_only` — for EVERY map (well-formed or not), every path, state and fuel:
        `walk_dir`, `next` and the collected walk leave the world exactly as it was, and the
        outcome of the collected walk is a list or the out-of-fuel sentinel, never an error.
    * `walk_terminates`, `walk_terminates_keys` — fuel > number of keys strictly below p suffices
        (in particular fuel = number of entries of the map): the outcome is `.ok`, not the sentinel.
    * `walk_panic_iff` — and this bound is exact: the sentinel is the outcome iff
        fuel ≤ number of keys strictly below p; `walk_fuel_irrelevant` — all sufficient fuels give
        the same list.
    * `walk_result` — EVERY `.ok` outcome, whatever the fuel: world unchanged, the items are
        `.ok (mk k)` for a list L of path strings with
        L ~ (keys of m strictly below p) as a permutation, L without duplicates, and no path yielded
        before one of its ancestors (`Pairwise`).
    * `walk_items_ok` — every item is `.ok`, a present key on the same filesystem.
    * `walk_complete_nodup` — k is yielded ⇔ k is a key with k ≠ p and (k = p or k = p/t): each once.
    * `walk_dirs_first` — index form: if L[a] is a proper ancestor of L[b] then a < b;
      `walk_ancestors_listed` — every name strictly between p and a yielded path is itself yielded
        and is a directory; `walk_dir_before_content` — the two together, as a split of the list.
    * `walk_root_complete` — for p = "" the walk yields every key but the root, each once.
    * `walk_dir_not_dir` — on an absent path / a file `walk_dir` itself fails (not-found / other,
        path filled in) and there is no iterator.
    * (Proofs/WalkLemmas.lean) `Wk.walkNext_spec` — the step-level statement: from a state
        satisfying the invariant `Wk.Good`, one `next` either ends the walk with nothing pending or
        yields an `.ok` present key, keeps the invariant, removes exactly that key from the pending
        set, and nothing still pending is an ancestor of it.
    * non-vacuity: `sampleW` (depth 4, siblings a / ab / a.b, map order not sorted) — hypotheses
        checked by `decide`, the walk evaluated by `decide`, theorems instantiated.

  ASSUMED (hypotheses, stated in every theorem): `MemLeafAt w i m`; `WF m` (root is a directory,
  every other key has its parent present as a directory); `FMap.NodupKeys m`; p present as a
  directory. Nothing about the listing order. No axioms beyond propext / Classical.choice /
  Quot.sound.

  NOT PROVED here: nothing of the list above is partial. Out of scope: other backends
  (overlay / altroot / physical) and the async iterator (Props/C15); concurrent mutation during
  the walk (the world is one fixed `w`; `walk_observes_only` shows the walk itself does not
  change it).
-/
import VfsModel.Proofs.WalkLemmas
namespace Vfs.C05
open Wk

/-- `self.walk_dir()?` then collect the iterator (at most `fuel` calls of `next`) -/
def walkCollect (fuel : Nat) (p : VPath) : M (List (Res VPath)) := do
  let s ← p.walkDir
  VPath.walkAll fuel s

/-- the items `.ok path` for the path strings `L` on leaf `i` -/
def okItems (i id : Nat) (L : List Str) : List (Res VPath) := L.map (fun k => .ok (mk i id k))

theorem mk_eq (i id : Nat) (k : Str) : mk i id k = { fs := leafFS i, fsId := id, path := k } := rfl

/-- `below p k` is "k ≠ p and k is p or p/t" (the `under` of Proofs/TransferLemmas, minus p) -/
theorem below_iff_under (p k : Str) :
    below p k = true ↔ k ≠ p ∧ (k = p ∨ ∃ t, k = p ++ '/' :: t) := by
  constructor
  · intro h
    refine ⟨?_, Or.inr ((below_iff p k).1 h)⟩
    intro hk; subst hk
    rw [below_irrefl] at h; cases h
  · rintro ⟨hne, h | h⟩
    · exact absurd h hne
    · exact (below_iff p k).2 h

/-- number of keys strictly below `p` -/
def descCount (m : FMap) (p : Str) : Nat := (m.keys.filter (below p)).length

/-! ### the walk only observes -/

/-- `walk_dir`, `next` and the collected walk do not change the world — for every map, path,
state on the leaf and fuel; the collected walk never ends in an error (errors are items) -/
theorem walk_observes_only {w : World} {i : Nat} {m : FMap} (h : MemLeafAt w i m) :
    (∀ (P : VPath), P.fs = leafFS i → (P.walkDir w).2 = w ∧
        ∀ s0, (P.walkDir w).1 = .ok s0 → AllOn i s0.inner ∧ AllOn i s0.todo) ∧
    (∀ (s : VPath.Walk), AllOn i s.inner → AllOn i s.todo →
        ∃ r, VPath.walkNext s w = (.ok r, w) ∧ AllOn i r.2.inner ∧ AllOn i r.2.todo) ∧
    (∀ (fuel : Nat) (s : VPath.Walk), AllOn i s.inner → AllOn i s.todo →
        (VPath.walkAll fuel s w).2 = w ∧
        ((VPath.walkAll fuel s w).1 = .panic ∨ ∃ l, (VPath.walkAll fuel s w).1 = .ok l)) ∧
    (∀ (fuel : Nat) (P : VPath), P.fs = leafFS i → (walkCollect fuel P w).2 = w) := by
  have hdir : ∀ (P : VPath), P.fs = leafFS i → (P.walkDir w).2 = w ∧
      ∀ s0, (P.walkDir w).1 = .ok s0 → AllOn i s0.inner ∧ AllOn i s0.todo := by
    intro P hP
    unfold VPath.walkDir
    simp only [bind, M.bind]
    rw [run_vReadDir h P hP]
    cases hr : Mem.readDir m P.path with
    | panic => exact absurd hr (readDir_ne_panic m _)
    | err k p => exact ⟨rfl, by intro s0 hs; simp [Res.withPath, Res.map] at hs⟩
    | ok names =>
      refine ⟨rfl, ?_⟩
      intro s0 hs
      simp only [Res.withPath, Res.map, pure, M.pure, Res.ok.injEq] at hs
      subst hs
      refine ⟨?_, by intro x hx; cases hx⟩
      intro x hx
      simp only [List.mem_map] at hx
      obtain ⟨n, _, rfl⟩ := hx
      exact hP
  refine ⟨hdir, fun s => walkNext_frame h s, fun fuel s => walkAll_frame h fuel s, ?_⟩
  intro fuel P hP
  obtain ⟨h1, h2⟩ := hdir P hP
  unfold walkCollect
  simp only [bind, M.bind]
  rcases hr : P.walkDir w with ⟨r, w1⟩
  rw [hr] at h1 h2
  simp only at h1 h2
  subst h1
  cases r with
  | panic => rfl
  | err k p => rfl
  | ok s0 =>
    obtain ⟨a, b⟩ := h2 s0 rfl
    exact (walkAll_frame h fuel s0 a b).1

/-! ### the traversal theorem -/

/-- p itself is a key that is not below p: fewer descendants than entries -/
theorem descCount_lt_length (m : FMap) (p : Str) (e : Entry) (hp : m.find? p = some e) :
    descCount m p < m.length := by
  have hpk : p ∈ m.keys := (FMap.mem_keys_iff m p).2 ⟨e, hp⟩
  have : (m.keys.filter (below p)).length < m.keys.length :=
    List.length_filter_lt_length_iff_exists.2 ⟨p, hpk, by rw [below_irrefl]; simp⟩
  simpa [descCount, FMap.keys] using this


section walk
variable {w : World} {i : Nat} {m : FMap} (h : MemLeafAt w i m) (hwf : WF m)
  (hk : FMap.NodupKeys m) (id : Nat) (p : Str) (e : Entry) (hp : m.find? p = some e)
  (hdir : e.ftype = .dir)
include h hwf hk hp hdir

omit hwf hk in
/-- collecting = the walk from the initial state (listing of p, empty stack) -/
theorem walkCollect_eq (fuel : Nat) :
    walkCollect fuel (mk i id p) w = VPath.walkAll fuel (st i id (children m p) []) w := by
  unfold walkCollect
  simp only [bind, M.bind, run_walkDir h id p e hp hdir]

/-- with more fuel than keys strictly below p: an `.ok` list of `.ok` items, world unchanged,
exactly the keys strictly below p, each once, no path before one of its ancestors -/
theorem walk_spec (fuel : Nat) (hf : descCount m p < fuel) :
    ∃ L : List Str, walkCollect fuel (mk i id p) w = (.ok (okItems i id L), w) ∧
      (∀ k, k ∈ L ↔ k ∈ m.keys ∧ below p k = true) ∧ L.Nodup ∧
      L.Pairwise (fun a b => below b a = false) := by
  obtain ⟨g1, g2⟩ := start_good hwf hk p e hp hdir
  have hfilt : m.keys.filter (pending (children m p) []) = m.keys.filter (below p) :=
    List.filter_congr (fun k hk' => g2 k ((FMap.mem_keys_iff m k).1 hk'))
  obtain ⟨L, h1, h2, h3, h4⟩ := walkAll_spec h id hwf hk fuel (children m p) [] g1
    (by rw [hfilt]; exact hf)
  refine ⟨L, by rw [walkCollect_eq h id p e hp hdir]; exact h1, ?_, h3, h4⟩
  intro k
  rw [h2 k]
  constructor
  · rintro ⟨a, b⟩; exact ⟨a, by rw [← g2 k ((FMap.mem_keys_iff m k).1 a)]; exact b⟩
  · rintro ⟨a, b⟩; exact ⟨a, by rw [g2 k ((FMap.mem_keys_iff m k).1 a)]; exact b⟩

/-- termination: fuel > (number of keys strictly below p) — the sentinel is not reached -/
theorem walk_terminates (fuel : Nat) (hf : descCount m p < fuel) :
    ∃ L : List Str, walkCollect fuel (mk i id p) w = (.ok (okItems i id L), w) := by
  obtain ⟨L, h1, _⟩ := walk_spec h hwf hk id p e hp hdir fuel hf
  exact ⟨L, h1⟩

/-- termination with an explicit fuel: the number of entries of the map -/
theorem walk_terminates_keys :
    ∃ L : List Str, walkCollect m.length (mk i id p) w = (.ok (okItems i id L), w) :=
  walk_terminates h hwf hk id p e hp hdir m.length (descCount_lt_length m p e hp)

/-- EVERY `.ok` outcome of the collected walk, whatever the fuel, is the right one -/
theorem walk_result (fuel : Nat) (items : List (Res VPath)) (w' : World)
    (hrun : walkCollect fuel (mk i id p) w = (.ok items, w')) :
    w' = w ∧ ∃ L : List Str, items = okItems i id L ∧
      L.Perm (m.keys.filter (below p)) ∧ L.Nodup ∧
      (∀ k, k ∈ L ↔ k ∈ m.keys ∧ below p k = true) ∧
      L.Pairwise (fun a b => below b a = false) := by
  obtain ⟨L, h1, h2, h3, h4⟩ := walk_spec h hwf hk id p e hp hdir (max fuel (descCount m p + 1))
    (by omega)
  rw [walkCollect_eq h id p e hp hdir] at hrun h1
  have := walkAll_fuel_le (Nat.le_max_left fuel (descCount m p + 1)) _ w w' items hrun
  rw [h1] at this
  simp only [Prod.mk.injEq, Res.ok.injEq] at this
  refine ⟨this.2.symm, L, this.1.symm, ?_, h3, h2, h4⟩
  rw [List.perm_ext_iff_of_nodup h3 (List.Pairwise.filter _ hk)]
  intro k
  rw [h2 k, List.mem_filter]

/-- all sufficient fuels give the same outcome -/
theorem walk_fuel_irrelevant (fuel fuel' : Nat) (hf : descCount m p < fuel)
    (hf' : descCount m p < fuel') :
    walkCollect fuel (mk i id p) w = walkCollect fuel' (mk i id p) w := by
  obtain ⟨L, h1⟩ := walk_terminates h hwf hk id p e hp hdir (descCount m p + 1) (by omega)
  rw [walkCollect_eq h id p e hp hdir] at h1 ⊢
  rw [walkCollect_eq h id p e hp hdir]
  rw [walkAll_fuel_le (show descCount m p + 1 ≤ fuel by omega) _ w w _ h1,
    walkAll_fuel_le (show descCount m p + 1 ≤ fuel' by omega) _ w w _ h1]

/-- the bound is exact: the out-of-fuel sentinel is the outcome iff fuel ≤ #descendants -/
theorem walk_panic_iff (fuel : Nat) :
    (walkCollect fuel (mk i id p) w).1 = .panic ↔ fuel ≤ descCount m p := by
  constructor
  · intro hpan
    apply Nat.le_of_not_lt
    intro hf
    obtain ⟨L, h1⟩ := walk_terminates h hwf hk id p e hp hdir fuel hf
    rw [h1] at hpan
    cases hpan
  · intro hle
    have hfr := walkAll_frame h fuel (st i id (children m p) [])
      (by intro x hx; simp only [st, List.mem_map] at hx; obtain ⟨_, _, rfl⟩ := hx; rfl)
      (by intro x hx; cases hx)
    rw [walkCollect_eq h id p e hp hdir]
    rcases hfr.2 with hpan | ⟨l, hl⟩
    · exact hpan
    · exfalso
      rcases hr : VPath.walkAll fuel (st i id (children m p) []) w with ⟨r, w'⟩
      rw [hr] at hl
      simp only at hl
      subst hl
      have hlen := walkAll_length_lt fuel _ w w' l hr
      rw [← walkCollect_eq h id p e hp hdir] at hr
      obtain ⟨_, L, rfl, hperm, _⟩ := walk_result h hwf hk id p e hp hdir fuel l w' hr
      have := hperm.length_eq
      simp only [okItems, List.length_map] at hlen
      unfold descCount at hle
      omega

/-- every item is `.ok`: a present key strictly below p, on the same filesystem -/
theorem walk_items_ok (fuel : Nat) (items : List (Res VPath)) (w' : World)
    (hrun : walkCollect fuel (mk i id p) w = (.ok items, w')) :
    ∀ it ∈ items, ∃ k, it = .ok (mk i id k) ∧ (∃ e', m.find? k = some e') ∧
      below p k = true := by
  obtain ⟨_, L, rfl, _, _, hmem, _⟩ := walk_result h hwf hk id p e hp hdir fuel items w' hrun
  intro it hit
  simp only [okItems, List.mem_map] at hit
  obtain ⟨k, hkL, rfl⟩ := hit
  obtain ⟨a, b⟩ := (hmem k).1 hkL
  exact ⟨k, rfl, (FMap.mem_keys_iff m k).1 a, b⟩

/-- every proper descendant of p exactly once, and nothing else -/
theorem walk_complete_nodup (fuel : Nat) (L : List Str) (w' : World)
    (hrun : walkCollect fuel (mk i id p) w = (.ok (okItems i id L), w')) :
    L.Perm (m.keys.filter (below p)) ∧ L.Nodup ∧
    (∀ k, k ∈ L ↔ (∃ e', m.find? k = some e') ∧ k ≠ p ∧ (k = p ∨ ∃ t, k = p ++ '/' :: t)) ∧
    (∀ k, (∃ e', m.find? k = some e') → k ≠ p → (k = p ∨ ∃ t, k = p ++ '/' :: t) →
      L.count k = 1) := by
  obtain ⟨_, L', hL, hperm, hnd, hmem, _⟩ :=
    walk_result h hwf hk id p e hp hdir fuel _ w' hrun
  have hLL : L = L' := by
    have := congrArg (List.map (fun it : Res VPath => match it with
      | .ok x => x.path
      | _ => [])) hL
    simpa [okItems, List.map_map, Function.comp_def, mk] using this
  subst hLL
  have hmem' : ∀ k, k ∈ L ↔
      (∃ e', m.find? k = some e') ∧ k ≠ p ∧ (k = p ∨ ∃ t, k = p ++ '/' :: t) := by
    intro k
    rw [hmem k, FMap.mem_keys_iff, below_iff_under]
  refine ⟨hperm, hnd, hmem', ?_⟩
  intro k h1 h2 h3
  rw [List.Nodup.count hnd, if_pos ((hmem' k).2 ⟨h1, h2, h3⟩)]

/-- directories first, index form: a proper ancestor comes strictly earlier -/
theorem walk_dirs_first (fuel : Nat) (L : List Str) (w' : World)
    (hrun : walkCollect fuel (mk i id p) w = (.ok (okItems i id L), w'))
    (a b : Nat) (ha : a < L.length) (hb : b < L.length) (hab : below L[a] L[b] = true) :
    a < b := by
  obtain ⟨_, L', hL, _, _, _, hord⟩ := walk_result h hwf hk id p e hp hdir fuel _ w' hrun
  have hLL : L = L' := by
    have := congrArg (List.map (fun it : Res VPath => match it with
      | .ok x => x.path
      | _ => [])) hL
    simpa [okItems, List.map_map, Function.comp_def, mk] using this
  subst hLL
  rw [List.pairwise_iff_getElem] at hord
  apply Nat.lt_of_not_le
  intro hle
  rcases Nat.lt_or_eq_of_le hle with hlt | heq
  · have := hord b a hb ha hlt
    rw [hab] at this; cases this
  · subst heq
    rw [below_irrefl] at hab; cases hab

/-- every name strictly between p and a yielded path is yielded too, and is a directory -/
theorem walk_ancestors_listed (fuel : Nat) (L : List Str) (w' : World)
    (hrun : walkCollect fuel (mk i id p) w = (.ok (okItems i id L), w'))
    (k1 k2 : Str) (h2 : k2 ∈ L) (hp1 : below p k1 = true) (h12 : below k1 k2 = true) :
    k1 ∈ L ∧ ∃ e1, m.find? k1 = some e1 ∧ e1.ftype = .dir := by
  obtain ⟨_, _, hmem, _⟩ := walk_complete_nodup h hwf hk id p e hp hdir fuel L w' hrun
  have hk2 := ((hmem k2).1 h2).1
  obtain ⟨e1, he1, hd1⟩ := ancestor_dir hwf hk2 h12
  exact ⟨(hmem k1).2 ⟨⟨e1, he1⟩, (below_iff_under p k1).1 hp1⟩, e1, he1, hd1⟩

/-- the C05 sentence: a directory is yielded before anything inside it — if k2 is yielded and
k1 (below p) is a proper ancestor of k2, the list splits as `… k1 … k2 …` -/
theorem walk_dir_before_content (fuel : Nat) (L : List Str) (w' : World)
    (hrun : walkCollect fuel (mk i id p) w = (.ok (okItems i id L), w'))
    (k1 k2 : Str) (h2 : k2 ∈ L) (hp1 : below p k1 = true) (h12 : below k1 k2 = true) :
    ∃ l1 l2 l3, L = l1 ++ k1 :: l2 ++ k2 :: l3 := by
  obtain ⟨h1, _⟩ := walk_ancestors_listed h hwf hk id p e hp hdir fuel L w' hrun k1 k2 h2 hp1 h12
  obtain ⟨a, ha, hak⟩ := List.getElem_of_mem h1
  obtain ⟨b, hb, hbk⟩ := List.getElem_of_mem h2
  have hlt := walk_dirs_first h hwf hk id p e hp hdir fuel L w' hrun a b ha hb
    (by rw [hak, hbk]; exact h12)
  refine ⟨L.take a, (L.drop (a + 1)).take (b - a - 1), L.drop (b + 1), ?_⟩
  have e1 : L = L.take a ++ L[a] :: L.drop (a + 1) := by
    rw [List.getElem_cons_drop, List.take_append_drop]
  have hb' : b - a - 1 < (L.drop (a + 1)).length := by rw [List.length_drop]; omega
  have e2 : L.drop (a + 1) = (L.drop (a + 1)).take (b - a - 1) ++
      (L.drop (a + 1))[b - a - 1] :: (L.drop (a + 1)).drop (b - a - 1 + 1) := by
    rw [List.getElem_cons_drop, List.take_append_drop]
  have e3 : (L.drop (a + 1))[b - a - 1] = k2 := by
    rw [List.getElem_drop]
    have : a + 1 + (b - a - 1) = b := by omega
    simp only [this]; exact hbk
  have e4 : (L.drop (a + 1)).drop (b - a - 1 + 1) = L.drop (b + 1) := by
    rw [List.drop_drop]; congr 1; omega
  rw [e3, e4] at e2
  conv => lhs; rw [e1, e2, hak]
  simp

end walk

/-! ### the root -/

/-- walking the root `""` of a well-formed map yields every key but the root, each once -/
theorem walk_root_complete {w : World} {i : Nat} {m : FMap} (h : MemLeafAt w i m) (hwf : WF m)
    (hk : FMap.NodupKeys m) (id : Nat) :
    ∃ L : List Str, walkCollect m.length (mk i id []) w = (.ok (okItems i id L), w) ∧
      L.Perm (m.keys.filter (fun k => decide (k ≠ []))) ∧ L.Nodup ∧
      (∀ a b (ha : a < L.length) (hb : b < L.length), below L[a] L[b] = true → a < b) := by
  obtain ⟨e, hp, hdir⟩ := hwf.1
  obtain ⟨L, hrun⟩ := walk_terminates_keys h hwf hk id [] e hp hdir
  obtain ⟨hperm, hnd, _, _⟩ := walk_complete_nodup h hwf hk id [] e hp hdir _ L w hrun
  refine ⟨L, hrun, ?_, hnd, fun a b ha hb =>
    walk_dirs_first h hwf hk id [] e hp hdir _ L w hrun a b ha hb⟩
  have : m.keys.filter (below []) = m.keys.filter (fun k => decide (k ≠ [])) := by
    apply List.filter_congr
    intro k hk'
    by_cases hne : k = []
    · subst hne; simp [below_irrefl]
    · rw [below_root hwf k.length k (Nat.le_refl _) ((FMap.mem_keys_iff m k).1 hk') hne]
      simp [hne]
  rw [← this]; exact hperm

/-! ### `walk_dir` on something that is not a directory -/

theorem walk_dir_not_dir {w : World} {i : Nat} {m : FMap} (h : MemLeafAt w i m) (id : Nat)
    (p : Str) (hp : ∀ e, m.find? p = some e → e.ftype ≠ .dir) (fuel : Nat) :
    VPath.walkDir (mk i id p) w =
      (.err (if m.contains p then .other else .fileNotFound) (some p), w) ∧
    walkCollect fuel (mk i id p) w =
      (.err (if m.contains p then .other else .fileNotFound) (some p), w) := by
  have := run_walkDir_fail h id p hp
  refine ⟨this, ?_⟩
  unfold walkCollect
  simp only [bind, M.bind, this]

/-! ### non-vacuity (tests): depth 4, siblings a / ab / a.b, map order unrelated to the tree -/

def sampleW : FMap :=
  [ ("/a/x/y/z".toList, fileEntryNow), ("/ab/x".toList, fileEntryNow), ("/a.b".toList, dirEntryNow),
    ("/a/x".toList, dirEntryNow), ("/a".toList, dirEntryNow), ("/a/f".toList, fileEntryNow),
    ([], dirEntryNow), ("/ab".toList, dirEntryNow), ("/a/x/y".toList, dirEntryNow),
    ("/a.b/c".toList, fileEntryNow), ("/a/x/y/w".toList, dirEntryNow), ("/a/e".toList, dirEntryNow) ]

def worldW : World := { leaves := [{ kind := .mem, files := sampleW }] }

/-- outcome of a collected walk with the items reduced to their path strings -/
def pathsOf (r : Res (List (Res VPath)) × World) : Res (List (Res Str)) :=
  r.1.map (fun items => items.map (fun it => it.map (fun x => x.path)))

theorem sampleW_leaf : MemLeafAt worldW 0 sampleW := rfl
theorem sampleW_wf : WF sampleW := WF_of_check _ (by decide)
theorem sampleW_nodup : FMap.NodupKeys sampleW := by unfold FMap.NodupKeys; decide

/-- the walk of /a as the model computes it: the sibling prefixes /ab and /a.b stay out; the
empty directory /a/e is popped silently; /a/x/y comes after /a/x and before z and w -/
example : pathsOf (walkCollect 7 (mk 0 0 "/a".toList) worldW) =
    .ok [.ok "/a/x".toList, .ok "/a/f".toList, .ok "/a/e".toList, .ok "/a/x/y".toList,
         .ok "/a/x/y/z".toList, .ok "/a/x/y/w".toList] := by decide +kernel

/-- the walk of the root: all eleven keys but "" -/
example : pathsOf (walkCollect 12 (mk 0 0 []) worldW) =
    .ok [.ok "/a.b".toList, .ok "/a".toList, .ok "/ab".toList, .ok "/ab/x".toList,
         .ok "/a/x".toList, .ok "/a/f".toList, .ok "/a/e".toList, .ok "/a/x/y".toList,
         .ok "/a/x/y/z".toList, .ok "/a/x/y/w".toList, .ok "/a.b/c".toList] := by decide +kernel

/-- six keys lie strictly below /a: fuel 6 hits the sentinel, fuel 7 does not (`walk_panic_iff`) -/
example : descCount sampleW "/a".toList = 6 := by decide
example : pathsOf (walkCollect 6 (mk 0 0 "/a".toList) worldW) = .panic := by decide

/-- a file and an absent path: `walk_dir` itself fails -/
example : pathsOf (walkCollect 9 (mk 0 0 "/a/f".toList) worldW) = .err .other (some "/a/f".toList) := by
  decide
example : pathsOf (walkCollect 9 (mk 0 0 "/a/q".toList) worldW) =
    .err .fileNotFound (some "/a/q".toList) := by decide

/-- the hypotheses of the theorems hold on the sample: the theorems instantiated -/
example : ∃ L, walkCollect 7 (mk 0 0 "/a".toList) worldW = (.ok (okItems 0 0 L), worldW) :=
  walk_terminates sampleW_leaf sampleW_wf sampleW_nodup 0 "/a".toList dirEntryNow (by decide) rfl 7
    (by decide)

example (L : List Str)
    (hrun : walkCollect 7 (mk 0 0 "/a".toList) worldW = (.ok (okItems 0 0 L), worldW)) :
    L.Perm (sampleW.keys.filter (below "/a".toList)) ∧ L.Nodup :=
  let r := walk_complete_nodup sampleW_leaf sampleW_wf sampleW_nodup 0 "/a".toList dirEntryNow
    (by decide) rfl 7 L worldW hrun
  ⟨r.1, r.2.1⟩

example : sampleW.keys.filter (below "/a".toList) =
    ["/a/x/y/z".toList, "/a/x".toList, "/a/f".toList, "/a/x/y".toList, "/a/x/y/w".toList,
     "/a/e".toList] := by decide

end Vfs.C05
