/-
  C02 ("MemoryFS is a faithful stand-in for PhysicalFS") for the ITERATING operations — walk_dir,
  remove_dir_all, move_dir (one filesystem) — although the two backends list directories in
  different orders. Method: the PHYSICAL side's result is characterised exactly (as
  TransferLemmas / C11Nested do for memory) and compared. Setting: memory leaf `i` of world `wm`
  holds `a` (`MemLeafAt`), physical leaf `j` of world `wp` holds `b` (`PhysLeafAt`), `WF a`,
  `CoreEq a b` (same types and bytes, timestamps and STORAGE ORDER aside), `NodupKeys a`,
  `NodupKeys b` (needed: `CoreEq` constrains lookups only).

  PROVED (no sorry; axioms propext, Classical.choice, Quot.sound):
   * `walk_agree` (p a directory, fuel > descCount a p): both collected walks are Ok lists of Ok
     items, the two path lists are PERMUTATIONS of each other (= the keys strictly below p), each
     has ancestors first, worlds unchanged. `walk_agree_not_dir`: file / absent / below a file:
     both fail with the path filled in, worlds unchanged.
   * `prd_all` : exact result of remove_dir_all on a physical leaf (`PRDSpec`: Ok, map =
     old map without the subtree, WF, NodupKeys) — the physical twin of `rd_all`.
   * `remove_dir_all_agree` (ANY non-root path string; fuel+1 with |k| < |P| + fuel + 1 for the
     keys): same outcome class (`SameOutcome`), results CoreEq, WF, NodupKeys; on success both =
     `SubtreeRemoved`; on failure nothing changed. Cases `…_dir`, `…_absent`, `…_file`
     (memory `Other`, physical `io`, both with the path).
   * `find?_renameTree_tree` : `Phys.renameTree` key by key; `moveDir_phys_same`: move_dir inside
     one physical filesystem = one `rename`.
   * `move_dir_agree_same` : S a non-root directory, D = renderC bs fresh, not at or below S,
     `C11.DirsBare a S`, hypotheses of `C11.moveDir_exact_same` (canonical keys below S, fuel
     bounds): memory (generic route, any two Arc ids) and physical (rename fast path, one Arc id)
     both Ok, resulting maps CoreEq, both WF.
   * `copy_move_dir_agree_refused` : existing destination: both sides refuse copy_dir and
     move_dir, nothing changes (partial version of `copy_dir_stmt`).
   * non-vacuity: `C11.mN` (depth 4, empty dir, empty file, siblings a / ab / a.b) against `pN` =
     the same tree in REVERSE storage order with other timestamps (`mN_pN_coreEq`, `pN_order`,
     by `decide`); the three main theorems instantiated on `/r`.

  NOT PROVED: `copy_dir_stmt` (copy_dir, two leaves or one) and `move_dir_cross_stmt` (move_dir
  between two leaves): missing lemma = the physical twin of `CD.copyDir_tree`
  (Proofs/CopyDirLemmas.lean, loop invariant `PInv` for `Phys.createDir` / `Phys.copyFile` /
  generic route); with it the comparison is as in `move_dir_agree_same`. Also not proved:
  move_dir on one physical leaf with two DIFFERENT Arc ids (generic route), the root as target
  of remove_dir_all, failure classes beyond `SameOutcome`, partial runs with too little fuel.
-/
import VfsModel.Props.C13Phys
import VfsModel.Props.C02
set_option linter.unusedVariables false
set_option linter.unusedSectionVars false
set_option linter.unusedSimpArgs false
namespace Vfs.C02
open Vfs.C05 (walkCollect descCount okItems)
open Vfs.Wk (mk below)

/-! ## 0. CoreEq maps have the same keys -/

theorem coreEq_present_iff {a b : FMap} (hc : CoreEq a b) (k : Str) :
    (∃ e, a.find? k = some e) ↔ ∃ e, b.find? k = some e := by
  constructor
  · rintro ⟨e, he⟩
    obtain ⟨e', he', _⟩ := hc.some k e he
    exact ⟨e', he'⟩
  · rintro ⟨e, he⟩
    obtain ⟨e', he', _⟩ := hc.symm.some k e he
    exact ⟨e', he'⟩

theorem coreEq_mem_keys {a b : FMap} (hc : CoreEq a b) (k : Str) : k ∈ a.keys ↔ k ∈ b.keys := by
  rw [FMap.mem_keys_iff, FMap.mem_keys_iff]; exact coreEq_present_iff hc k

/-- the stored keys of CoreEq maps without duplicates are permutations of each other (the two
backends may hold — and list — them in different orders) -/
theorem coreEq_keys_perm {a b : FMap} (hc : CoreEq a b) (ha : FMap.NodupKeys a)
    (hb : FMap.NodupKeys b) : a.keys.Perm b.keys :=
  (List.perm_ext_iff_of_nodup ha hb).2 (coreEq_mem_keys hc)

theorem coreEq_descCount_eq {a b : FMap} (hc : CoreEq a b) (ha : FMap.NodupKeys a)
    (hb : FMap.NodupKeys b) (p : Str) : descCount a p = descCount b p := by
  unfold descCount
  exact ((coreEq_keys_perm hc ha hb).filter _).length_eq

theorem coreEq_dir_iff {a b : FMap} (hc : CoreEq a b) (p : Str) :
    (∃ e, a.find? p = some e ∧ e.ftype = .dir) ↔ ∃ e, b.find? p = some e ∧ e.ftype = .dir := by
  constructor
  · rintro ⟨e, he, hd⟩
    obtain ⟨e', he', ht, _⟩ := hc.some p e he
    exact ⟨e', he', by rw [ht]; exact hd⟩
  · rintro ⟨e, he, hd⟩
    obtain ⟨e', he', ht, _⟩ := hc.symm.some p e he
    exact ⟨e', he', by rw [ht]; exact hd⟩

/-! ## 1. walk_dir -/

/-- both results are errors -/
def BothErr {α β} (rm : Res α) (rp : Res β) : Prop :=
  (∃ k pth, rm = .err k pth) ∧ (∃ k pth, rp = .err k pth)

section walk
variable {wm wp : World} {i j : Nat} {a b : FMap} (hm : MemLeafAt wm i a) (hp : PhysLeafAt wp j b)
  (hwf : WF a) (hc : CoreEq a b) (hna : FMap.NodupKeys a) (hnb : FMap.NodupKeys b)
include hm hp hwf hc hna hnb

/-- **walk_agree (directory)**: the collected `walk_dir` of a directory `p` on the memory leaf and
on the physical leaf are both `Ok` lists of `Ok` items, the two lists of paths are permutations of
each other (same SET: exactly the entries strictly below `p`, each once), each of the two lists
has ancestors first, and neither world changes. -/
theorem walk_agree (idm idp : Nat) (p : Str) (hdir : ∃ e, a.find? p = some e ∧ e.ftype = .dir)
    (fuel : Nat) (hf : descCount a p < fuel) :
    ∃ Lm Lp : List Str,
      walkCollect fuel (mk i idm p) wm = (.ok (okItems i idm Lm), wm) ∧
      walkCollect fuel (mk j idp p) wp = (.ok (okItems j idp Lp), wp) ∧
      Lm.Perm Lp ∧
      (∀ k, k ∈ Lm ↔ k ∈ a.keys ∧ below p k = true) ∧
      Lm.Pairwise (fun x y => below y x = false) ∧
      Lp.Pairwise (fun x y => below y x = false) := by
  have hwfb : WF b := hwf.of_coreEq hc
  obtain ⟨e, he, hd⟩ := hdir
  obtain ⟨e', he', hd'⟩ := (coreEq_dir_iff hc p).1 ⟨e, he, hd⟩
  obtain ⟨Lm, h1, h2, h3, h4⟩ := C05.walk_spec hm hwf hna idm p e he hd fuel hf
  obtain ⟨Lp, g1, g2, g3, g4⟩ := C13.phys_walk_spec hp hwfb hnb idp p e' he' hd' fuel
    (by rw [← coreEq_descCount_eq hc hna hnb p]; exact hf)
  refine ⟨Lm, Lp, h1, g1, ?_, h2, h4, g4⟩
  apply (List.perm_ext_iff_of_nodup h3 g3).2
  intro k
  rw [h2 k, g2 k, coreEq_mem_keys hc k]

omit hna hnb in
/-- **walk_agree (not a directory)**: on a file, an absent path, a path below a file: both fail,
with the path filled in, worlds unchanged. (Class: memory reports `Other` on a file and
`FileNotFound` on an absent path; the physical side `io` = `ENOTDIR` resp. `FileNotFound` or
`io` below a file — `SameOutcome`, the comparison of C02.lean.) -/
theorem walk_agree_not_dir (idm idp : Nat) (p : Str)
    (hnd : ¬ ∃ e, a.find? p = some e ∧ e.ftype = .dir) (fuel : Nat) :
    ∃ km kp, walkCollect fuel (mk i idm p) wm = (.err km (some p), wm) ∧
      walkCollect fuel (mk j idp p) wp = (.err kp (some p), wp) := by
  have hwfb : WF b := hwf.of_coreEq hc
  have h1 := (C05.walk_dir_not_dir hm idm p (fun e he hd => hnd ⟨e, he, hd⟩) fuel).2
  obtain ⟨kp, h2⟩ := C13.phys_walk_not_dir hp hwfb idp p
    (fun hd => hnd ((coreEq_dir_iff hc p).2 hd)) fuel
  exact ⟨_, kp, h1, h2⟩

end walk

/-! ## 2. remove_dir_all: the physical side computed exactly -/

theorem prun_vmetadata {w : World} {i : Nat} {m : FMap} (h : PhysLeafAt w i m) (hwf : WF m)
    (id : Nat) (p : Str) (e : Entry) (he : m.find? p = some e) :
    ∃ md, VPath.metadata { fs := leafFS i, fsId := id, path := p } w = (.ok md, w) ∧
      md.ftype = e.ftype := by
  obtain ⟨md, h1, h2⟩ := C13.Phys.metadata_present hwf p e he
  exact ⟨md, by simp [VPath.metadata, M.withPath, C13.prun_metadata h, h1, Res.withPath], h2⟩

theorem Phys.removeFile_file {m : FMap} (hwf : WF m) (s : Str) (e : Entry)
    (hs : m.find? s = some e) (hf : e.ftype = .file) :
    Phys.removeFile m s = (.ok (), m.erase s) := by
  simp [Phys.removeFile, hwf.lookup_present s e hs, hf]

theorem Phys.removeDir_empty {m : FMap} (hwf : WF m) (s : Str) (e : Entry)
    (hs : m.find? s = some e) (hf : e.ftype = .dir)
    (hempty : m.keys.filterMap (childName s) = []) :
    Phys.removeDir m s = (.ok (), m.erase s) := by
  simp [Phys.removeDir, hwf.lookup_present s e hs, hf, Phys.children, hempty]

/-- specification of `remove_dir_all fuel` on an existing directory of PHYSICAL leaf `i`
(the physical twin of `RDSpec` in Proofs/TransferLemmas.lean) -/
def PRDSpec (i id fuel : Nat) : Prop :=
  ∀ (w : World) (m : FMap) (P : Str) (e : Entry), PhysLeafAt w i m → WF m → FMap.NodupKeys m →
    P ≠ [] → m.find? P = some e → e.ftype = .dir →
    (∀ k e', m.find? k = some e' → k.length < P.length + fuel) →
    ∃ m', VPath.removeDirAll fuel { fs := leafFS i, fsId := id, path := P } w =
        (.ok (), w.setLeafFiles i m') ∧ WF m' ∧ FMap.NodupKeys m' ∧ SubtreeRemoved m m' P

def PRCSpec (i id fuel : Nat) : Prop :=
  ∀ (P : Str) (ns : List Str) (w : World) (m1 : FMap), PhysLeafAt w i m1 → WF m1 →
    FMap.NodupKeys m1 → ns.Nodup → (∀ n ∈ ns, '/' ∉ n) →
    (∀ n ∈ ns, ∃ e, m1.find? (P ++ '/' :: n) = some e) →
    (∀ k e', m1.find? k = some e' → k.length < P.length + 1 + fuel) →
    ∃ m', VPath.removeChildren fuel
        (ns.map fun n => ({ fs := leafFS i, fsId := id, path := P ++ '/' :: n } : VPath)) w =
        (.ok (), w.setLeafFiles i m') ∧ WF m' ∧ FMap.NodupKeys m' ∧
      ∀ k, m'.find? k = if ns.any (fun n => under (P ++ '/' :: n) k) then none else m1.find? k

theorem PhysLeafAt.same {w : World} {i : Nat} {m : FMap} (h : PhysLeafAt w i m) :
    w.setLeafFiles i m = w := World.setLeafFiles_self w i _ h

theorem prc_of_prd (i id fuel : Nat) (hRD : PRDSpec i id fuel) : PRCSpec i id fuel := by
  intro P ns
  induction ns with
  | nil =>
    intro w m1 h hwf hnd _ _ _ _
    exact ⟨m1, by simp [VPath.removeChildren, pure, M.pure, PhysLeafAt.same h], hwf, hnd,
      fun k => by simp⟩
  | cons n rest ih =>
    intro w m1 h hwf hnd hns hsl hex hb
    obtain ⟨ec, hec⟩ := hex n (by simp)
    have hn : '/' ∉ n := hsl n (by simp)
    rw [List.nodup_cons] at hns
    have cont : ∀ m2, WF m2 → FMap.NodupKeys m2 → SubtreeRemoved m1 m2 (P ++ '/' :: n) →
        ∃ m', VPath.removeChildren fuel
          (rest.map fun n => ({ fs := leafFS i, fsId := id, path := P ++ '/' :: n } : VPath))
          (w.setLeafFiles i m2) = (.ok (), w.setLeafFiles i m') ∧ WF m' ∧ FMap.NodupKeys m' ∧
        ∀ k, m'.find? k =
          if (n :: rest).any (fun n => under (P ++ '/' :: n) k) then none else m1.find? k := by
      intro m2 hwf2 hnd2 hrem
      obtain ⟨m', hrun, hwf', hnd', hfind⟩ := ih (w.setLeafFiles i m2) m2 (h.set m2) hwf2 hnd2 hns.2
        (fun x hx => hsl x (by simp [hx]))
        (fun x hx => by
          obtain ⟨ex, hex'⟩ := hex x (by simp [hx])
          refine ⟨ex, ?_⟩
          have hne : n ≠ x := fun heq => hns.1 (heq ▸ hx)
          rw [hrem, under_sibling P n x (hsl x (by simp [hx])) hne]
          exact hex')
        (fun k e' hk => by
          rw [hrem] at hk
          split at hk
          · cases hk
          · exact hb k e' hk)
      refine ⟨m', by rw [hrun, World.setLeafFiles_twice], hwf', hnd', ?_⟩
      intro k
      rw [hfind k, hrem k, List.any_cons]
      cases under (P ++ '/' :: n) k <;> simp
    rw [List.map_cons, VPath.removeChildren.eq_2]
    obtain ⟨md, hmd, hmdt⟩ := prun_vmetadata h hwf id _ ec hec
    cases hft : ec.ftype with
    | file =>
      have hrf : VPath.removeFile { fs := leafFS i, fsId := id, path := P ++ '/' :: n } w =
          (.ok (), w.setLeafFiles i (m1.erase (P ++ '/' :: n))) := by
        simp [VPath.removeFile, M.withPath, C13.prun_removeFile h,
          Phys.removeFile_file hwf _ ec hec hft, Res.withPath]
      simp only [bind, M.bind, hmd, hmdt, hft, hrf]
      apply cont (m1.erase (P ++ '/' :: n))
      · have := hwf.pRemoveFile (P ++ '/' :: n)
        simpa [Mem.pRemoveFile, Mem.removeFile_file m1 _ ec hec hft] using this
      · exact FMap.nodup_erase _ _ hnd
      · intro k
        rw [FMap.find?_erase]
        by_cases hk : k = P ++ '/' :: n
        · subst hk; simp [under_self]
        · rw [if_neg hk]
          cases hu : under (P ++ '/' :: n) k with
          | false => simp
          | true =>
            simp only [↓reduceIte]
            cases hf : m1.find? k with
            | none => rfl
            | some e' =>
              have := hwf.nothing_below_file _ ec hec hft k ⟨e', hf⟩
              unfold under at hu
              rw [this] at hu
              simp [hk] at hu
    | dir =>
      obtain ⟨m2, hrun, hwf2, hnd2, hrem⟩ := hRD w m1 (P ++ '/' :: n) ec h hwf hnd (by simp) hec hft
        (fun k e' hk => by
          have := hb k e' hk
          simp [List.length_append]; omega)
      simp only [bind, M.bind, hmd, hmdt, hft, hrun]
      exact cont m2 hwf2 hnd2 hrem

theorem prd_all (i id : Nat) : ∀ fuel, PRDSpec i id fuel := by
  intro fuel
  induction fuel with
  | zero =>
    intro w m P e _ _ _ _ he _ hb
    have := hb P e he
    omega
  | succ fuel ih =>
    have hRC := prc_of_prd i id fuel ih
    intro w m P e h hwf hnd hP he hd hb
    have hex : Phys.exists_ m P = true := by
      simp [Phys.exists_, hwf.lookup_present P e he]
    obtain ⟨m1, hrun, hwf1, hnd1, hfind⟩ := hRC P (m.keys.filterMap (childName P)) w m h hwf hnd
      (filterMap_childName_nodup m P hnd) (fun n hn => (listing_spec m P n hn).1)
      (fun n hn => (listing_spec m P n hn).2) (fun k e' hk => by have := hb k e' hk; omega)
    have hP1 : m1.find? P = some e := by
      rw [hfind P]
      have : (m.keys.filterMap (childName P)).any (fun n => under (P ++ '/' :: n) P) = false := by
        rw [Bool.eq_false_iff]
        intro hany
        rw [List.any_eq_true] at hany
        obtain ⟨n, _, hu⟩ := hany
        exact (under_child P n P hu).2 rfl
      rw [this]; exact he
    have hempty : m1.keys.filterMap (childName P) = [] := by
      apply List.eq_nil_iff_forall_not_mem.2
      intro n hn
      obtain ⟨hsl, e', he'⟩ := listing_spec m1 P n hn
      rw [hfind] at he'
      split at he'
      · cases he'
      · rename_i hany
        apply hany
        rw [List.any_eq_true]
        exact ⟨n, mem_listing m P n hsl e' he', under_self _⟩
    have hrd : Mem.removeDir m1 P = (.ok (), m1.erase P) := by
      have hc1 : m1.contains P = true := (FMap.contains_iff _ _).2 ⟨e, hP1⟩
      simp [Mem.removeDir, Mem.readDir_dir m1 P e hP1 hd, hempty, hc1]
    have hprd : VPath.removeDir { fs := leafFS i, fsId := id, path := P } (w.setLeafFiles i m1) =
        (.ok (), w.setLeafFiles i (m1.erase P)) := by
      simp [VPath.removeDir, M.withPath, C13.prun_removeDir (h.set m1),
        Phys.removeDir_empty hwf1 P e hP1 hd hempty, Res.withPath, World.setLeafFiles_twice]
    refine ⟨m1.erase P, ?_, ?_, FMap.nodup_erase _ _ hnd1, ?_⟩
    · rw [VPath.removeDirAll.eq_2]
      have hl : (List.map (fun n => VPath.withStr { fs := leafFS i, fsId := id, path := P } (P ++ '/' :: n))
          (m.keys.filterMap (childName P))) =
          (List.map (fun n => ({ fs := leafFS i, fsId := id, path := P ++ '/' :: n } : VPath))
          (m.keys.filterMap (childName P))) := rfl
      simp only [bind, M.bind, VPath.exists_, run_exists_phys h, hex, Bool.not_true,
        Bool.false_eq_true, ↓reduceIte, VPath.readDir, M.withPath, C13.prun_readDir h,
        C13.Phys.readDir_dir hwf P e he hd, Res.withPath, pure, M.pure, hl, hrun, hprd]
    · have := hwf1.pRemoveDir P hP
      simpa [Mem.pRemoveDir, hrd] using this
    · intro k
      rw [FMap.find?_erase]
      by_cases hk : k = P
      · subst hk; simp [under_self]
      · rw [if_neg hk, hfind k]
        cases hany : (m.keys.filterMap (childName P)).any (fun n => under (P ++ '/' :: n) k) with
        | true =>
          rw [List.any_eq_true] at hany
          obtain ⟨n, _, hu⟩ := hany
          simp [(under_child P n k hu).1]
        | false =>
          simp only [Bool.false_eq_true, ↓reduceIte]
          cases hu : under P k with
          | false => simp
          | true =>
            simp only [↓reduceIte]
            cases hf : m.find? k with
            | none => rfl
            | some e' =>
              exfalso
              rcases (under_iff P k).1 hu with hkp | ⟨t, ht⟩
              · exact hk hkp
              · subst ht
                obtain ⟨n, hn, ⟨en, hen⟩, hun⟩ := hwf.below_via_child P t e' hf
                have : (m.keys.filterMap (childName P)).any (fun n => under (P ++ '/' :: n) (P ++ '/' :: t)) = true := by
                  rw [List.any_eq_true]
                  exact ⟨n, mem_listing m P n hn en hen, hun⟩
                rw [this] at hany; cases hany

theorem subtreeRemoved_coreEq {a b a' b' : FMap} {P : Str} (hc : CoreEq a b)
    (ha : SubtreeRemoved a a' P) (hb : SubtreeRemoved b b' P) : CoreEq a' b' := by
  intro k
  rw [ha k, hb k]
  split
  · rfl
  · exact hc k

section remove
variable {wm wp : World} {i j : Nat} {a b : FMap} (hm : MemLeafAt wm i a) (hp : PhysLeafAt wp j b)
  (hwf : WF a) (hc : CoreEq a b) (hna : FMap.NodupKeys a) (hnb : FMap.NodupKeys b)
include hm hp hwf hc hna hnb

/-- **remove_dir_all_agree, a directory**: both `Ok`; both maps are the old map without the
subtree at `P` (`SubtreeRemoved`), hence `CoreEq` again, well-formed, duplicate-free. The two
runs remove the children in the order of THEIR listing; the result does not depend on it. -/
theorem remove_dir_all_agree_dir (idm idp : Nat) (P : Str) (hP : P ≠ [])
    (hdir : ∃ e, a.find? P = some e ∧ e.ftype = .dir) (fuel : Nat)
    (hfuel : ∀ k e, a.find? k = some e → k.length < P.length + fuel) :
    ∃ a' b', VPath.removeDirAll fuel (mk i idm P) wm = (.ok (), wm.setLeafFiles i a') ∧
      VPath.removeDirAll fuel (mk j idp P) wp = (.ok (), wp.setLeafFiles j b') ∧
      SubtreeRemoved a a' P ∧ SubtreeRemoved b b' P ∧ CoreEq a' b' ∧ WF a' ∧ WF b' ∧
      FMap.NodupKeys a' ∧ FMap.NodupKeys b' := by
  have hwfb : WF b := hwf.of_coreEq hc
  obtain ⟨e, he, hd⟩ := hdir
  obtain ⟨e', he', hd'⟩ := (coreEq_dir_iff hc P).1 ⟨e, he, hd⟩
  obtain ⟨a', h1, h2, h3, h4⟩ := rd_all i idm fuel wm a P e hm hwf hna hP he hd hfuel
  obtain ⟨b', g1, g2, g3, g4⟩ := prd_all j idp fuel wp b P e' hp hwfb hnb hP he' hd'
    (fun k ek hk => by
      obtain ⟨ea, hea⟩ := (coreEq_present_iff hc k).2 ⟨ek, hk⟩
      exact hfuel k ea hea)
  exact ⟨a', b', h1, g1, h4, g4, subtreeRemoved_coreEq hc h4 g4, h2, g2, h3, g3⟩

omit hna hnb in
/-- **remove_dir_all_agree, an absent path** (below a file included): both `Ok`, nothing changes -/
theorem remove_dir_all_agree_absent (idm idp : Nat) (P : Str) (habs : a.find? P = none)
    (fuel : Nat) :
    VPath.removeDirAll (fuel + 1) (mk i idm P) wm = (.ok (), wm) ∧
    VPath.removeDirAll (fuel + 1) (mk j idp P) wp = (.ok (), wp) := by
  constructor
  · apply removeDirAll_absent'
    show (leafFS i).exists_ P wm = _
    rw [run_exists hm]
    have : a.contains P = false := by
      cases hcn : a.contains P with
      | false => rfl
      | true =>
        obtain ⟨e, he⟩ := (FMap.contains_iff _ _).1 hcn
        rw [habs] at he; cases he
    rw [this]
  · apply removeDirAll_absent'
    show (leafFS j).exists_ P wp = _
    rw [run_exists_phys hp, Phys.exists_absent b P ((hc.none_iff P).1 habs)]

omit hna hnb in
/-- **remove_dir_all_agree, a file**: both fail with the path filled in (memory: `Other`,
physical: `io` = ENOTDIR from `read_dir`), nothing changes -/
theorem remove_dir_all_agree_file (idm idp : Nat) (P : Str)
    (hfile : ∃ e, a.find? P = some e ∧ e.ftype = .file) (fuel : Nat) :
    VPath.removeDirAll (fuel + 1) (mk i idm P) wm = (.err .other (some P), wm) ∧
    VPath.removeDirAll (fuel + 1) (mk j idp P) wp = (.err .io (some P), wp) := by
  have hwfb : WF b := hwf.of_coreEq hc
  obtain ⟨e, he, hf⟩ := hfile
  obtain ⟨e', he', ht, _⟩ := hc.some P e he
  have hf' : e'.ftype = .file := by rw [ht]; exact hf
  constructor
  · have hcn : a.contains P = true := (FMap.contains_iff _ _).2 ⟨e, he⟩
    rw [VPath.removeDirAll.eq_2]
    simp [bind, M.bind, VPath.exists_, Wk.mk, run_exists hm, hcn, VPath.readDir, M.withPath,
      run_readDir hm, Mem.readDir, he, hf, fail, Res.withPath]
  · have hex : Phys.exists_ b P = true := by
      simp [Phys.exists_, hwfb.lookup_present P e' he']
    rw [VPath.removeDirAll.eq_2]
    simp [bind, M.bind, VPath.exists_, Wk.mk, run_exists_phys hp, hex, VPath.readDir, M.withPath,
      C13.prun_readDir hp, C13.Phys.readDir_file hwfb P e' he' hf', Res.withPath]

/-- **remove_dir_all_agree**: ANY non-root path string (directory, file, absent, below a file),
fuel above the longest key (= nesting depth available): the two runs end with outcomes of the
same class (`SameOutcome`: both `Ok` or both an error, no panic), the resulting maps are `CoreEq`
again, well-formed and duplicate-free; on success both are the old map without the subtree. -/
theorem remove_dir_all_agree (idm idp : Nat) (P : Str) (hP : P ≠ []) (fuel : Nat)
    (hfuel : ∀ k e, a.find? k = some e → k.length < P.length + (fuel + 1)) :
    ∃ rm rp a' b',
      VPath.removeDirAll (fuel + 1) (mk i idm P) wm = (rm, wm.setLeafFiles i a') ∧
      VPath.removeDirAll (fuel + 1) (mk j idp P) wp = (rp, wp.setLeafFiles j b') ∧
      SameOutcome rm rp ∧ CoreEq a' b' ∧ WF a' ∧ WF b' ∧ FMap.NodupKeys a' ∧ FMap.NodupKeys b' ∧
      (rm = .ok () → SubtreeRemoved a a' P ∧ SubtreeRemoved b b' P) ∧
      (rm ≠ .ok () → a' = a ∧ b' = b) := by
  have hwfb : WF b := hwf.of_coreEq hc
  cases hf : a.find? P with
  | none =>
    obtain ⟨h1, h2⟩ := remove_dir_all_agree_absent hm hp hwf hc idm idp P hf fuel
    refine ⟨.ok (), .ok (), a, b, by rw [h1, hm.same], by rw [h2, PhysLeafAt.same hp],
      ⟨rfl, by simp, by simp⟩, hc, hwf, hwfb, hna, hnb, fun _ => ⟨?_, ?_⟩, fun h => absurd rfl h⟩
    · intro k
      split
      · rename_i hu
        cases hk : a.find? k with
        | none => rfl
        | some ek =>
          exfalso
          rcases (under_iff P k).1 hu with h | ⟨t, ht⟩
          · subst h; rw [hf] at hk; cases hk
          · subst ht
            obtain ⟨n, hn, ⟨en, hen⟩, hun⟩ := hwf.below_via_child P t ek hk
            obtain ⟨_, pe, hpe, _⟩ := hwf.2 _ en hen (by simp)
            rw [parent_of_child P n hn, hf] at hpe; cases hpe
      · rfl
    · have hfb := (hc.none_iff P).1 hf
      intro k
      split
      · rename_i hu
        cases hk : b.find? k with
        | none => rfl
        | some ek =>
          exfalso
          rcases (under_iff P k).1 hu with h | ⟨t, ht⟩
          · subst h; rw [hfb] at hk; cases hk
          · subst ht
            obtain ⟨n, hn, ⟨en, hen⟩, hun⟩ := hwfb.below_via_child P t ek hk
            obtain ⟨_, pe, hpe, _⟩ := hwfb.2 _ en hen (by simp)
            rw [parent_of_child P n hn, hfb] at hpe; cases hpe
      · rfl
  | some e =>
    cases hft : e.ftype with
    | file =>
      obtain ⟨h1, h2⟩ := remove_dir_all_agree_file hm hp hwf hc idm idp P ⟨e, hf, hft⟩ fuel
      exact ⟨.err .other (some P), .err .io (some P), a, b, by rw [h1, hm.same],
        by rw [h2, PhysLeafAt.same hp],
        ⟨rfl, by simp, by simp⟩, hc, hwf, hwfb, hna, hnb, (fun h => by cases h),
        (fun _ => ⟨rfl, rfl⟩)⟩
    | dir =>
      obtain ⟨a', b', h1, h2, h3, h4, h5, h6, h7, h8, h9⟩ :=
        remove_dir_all_agree_dir hm hp hwf hc hna hnb idm idp P hP ⟨e, hf, hft⟩ (fuel + 1) hfuel
      exact ⟨_, _, a', b', h1, h2, ⟨rfl, by simp, by simp⟩, h5, h6, h7, h8, h9,
        fun _ => ⟨h3, h4⟩, fun h => absurd rfl h⟩

end remove

/-! ## 3. move_dir inside one filesystem: `std::fs::rename` against the generic route -/

/-- the key map of `Phys.renameTree` -/
def reKey (S D k : Str) : Str :=
  if k = S then D else if (S ++ ['/']).isPrefixOf k then D ++ k.drop S.length else k

theorem renameTree_eq (m : FMap) (S D : Str) :
    Phys.renameTree m S D = m.map (fun kv => (reKey S D kv.1, kv.2)) := by
  unfold Phys.renameTree
  apply List.map_congr_left
  intro kv _
  unfold reKey
  split
  · rfl
  · split <;> rfl

theorem find?_mapKey_hit (g : Str → Str) (k0 : Str) : ∀ (m : FMap),
    (∀ k1 ∈ m.keys, g k1 = g k0 → k1 = k0) →
    FMap.find? (m.map (fun kv => (g kv.1, kv.2))) (g k0) = m.find? k0 := by
  intro m
  induction m with
  | nil => intro _; rfl
  | cons kv rest ih =>
    obtain ⟨k1, v⟩ := kv
    intro h
    have ih' := ih (fun x hx => h x (by simp [FMap.keys] at hx ⊢; exact Or.inr hx))
    simp only [List.map_cons, FMap.find?_cons, ih']
    by_cases hk : k1 = k0
    · subst hk; simp
    · have : g k1 ≠ g k0 := fun hg => hk (h k1 (by simp [FMap.keys]) hg)
      simp [hk, this]

theorem find?_mapKey_miss (g : Str → Str) (k : Str) : ∀ (m : FMap),
    (∀ k1 ∈ m.keys, g k1 ≠ k) →
    FMap.find? (m.map (fun kv => (g kv.1, kv.2))) k = none := by
  intro m
  induction m with
  | nil => intro _; rfl
  | cons kv rest ih =>
    obtain ⟨k1, v⟩ := kv
    intro h
    have ih' := ih (fun x hx => h x (by simp [FMap.keys] at hx ⊢; exact Or.inr hx))
    simp only [List.map_cons, FMap.find?_cons, ih']
    simp [h k1 (by simp [FMap.keys])]

theorem prefix_graft (S t : Str) : (S ++ ['/']).isPrefixOf (S ++ '/' :: t) = true := by
  have : S ++ '/' :: t = (S ++ ['/']) ++ t := by simp
  rw [this, List.isPrefixOf_iff_prefix]
  exact List.prefix_append _ _

theorem reKey_self (S D : Str) : reKey S D S = D := by simp [reKey]

theorem reKey_graft (S D t : Str) : reKey S D (S ++ '/' :: t) = D ++ '/' :: t := by
  unfold reKey
  rw [if_neg (CD.graft_ne S t), if_pos (prefix_graft S t)]
  simp

theorem reKey_other (S D k : Str) (h : under S k = false) : reKey S D k = k := by
  unfold under at h
  simp only [Bool.or_eq_false_iff, decide_eq_false_iff_not] at h
  unfold reKey
  rw [if_neg h.1]
  simp [h.2]

theorem reKey_cases (S D k : Str) :
    (k = S ∧ reKey S D k = D) ∨ (∃ t, k = S ++ '/' :: t ∧ reKey S D k = D ++ '/' :: t) ∨
    (under S k = false ∧ reKey S D k = k) := by
  cases hu : under S k with
  | false => exact Or.inr (Or.inr ⟨rfl, reKey_other S D k hu⟩)
  | true =>
    rcases (under_iff S k).1 hu with h | ⟨t, ht⟩
    · subst h; exact Or.inl ⟨rfl, reKey_self _ D⟩
    · subst ht; exact Or.inr (Or.inl ⟨t, rfl, reKey_graft S D t⟩)

/-- **`rename` computed exactly**: the renamed tree, key by key. `D` and everything below it is
absent before; `D` is not at or below `S`. -/
theorem find?_renameTree_tree (b : FMap) (S D : Str)
    (hD : ∀ k, under D k = true → b.find? k = none) (hout : under S D = false) :
    (Phys.renameTree b S D).find? D = b.find? S ∧
    (∀ t, (Phys.renameTree b S D).find? (D ++ '/' :: t) = b.find? (S ++ '/' :: t)) ∧
    (∀ k, under S k = true → under D k = false → (Phys.renameTree b S D).find? k = none) ∧
    (∀ k, under S k = false → under D k = false →
      (Phys.renameTree b S D).find? k = b.find? k) := by
  rw [renameTree_eq]
  have habs : ∀ k ∈ b.keys, under D k = false := by
    intro k hk
    cases hu : under D k with
    | false => rfl
    | true =>
      obtain ⟨e, he⟩ := (FMap.mem_keys_iff b k).1 hk
      rw [hD k hu] at he; cases he
  refine ⟨?_, ?_, ?_, ?_⟩
  · have h1 := find?_mapKey_hit (reKey S D) S b (by
      intro k1 hk1 hg
      rw [reKey_self] at hg
      rcases reKey_cases S D k1 with ⟨h, _⟩ | ⟨t, _, h⟩ | ⟨_, h⟩
      · exact h
      · rw [h] at hg; exact absurd hg (CD.graft_ne D t)
      · rw [h] at hg; have := habs k1 hk1; rw [hg, under_self] at this; cases this)
    rw [reKey_self] at h1; exact h1
  · intro t
    have h2 := find?_mapKey_hit (reKey S D) (S ++ '/' :: t) b (by
      intro k1 hk1 hg
      rw [reKey_graft] at hg
      rcases reKey_cases S D k1 with ⟨_, h⟩ | ⟨t', h1, h⟩ | ⟨_, h⟩
      · rw [h] at hg; exact absurd hg.symm (CD.graft_ne D t)
      · rw [h] at hg; rw [h1, (CD.graft_inj D t' t).1 hg]
      · rw [h] at hg; have := habs k1 hk1; rw [hg, CD.under_graft] at this; cases this)
    rw [reKey_graft] at h2; exact h2
  · intro k hu hd
    apply find?_mapKey_miss
    intro k1 hk1 hg
    rcases reKey_cases S D k1 with ⟨_, h⟩ | ⟨t', _, h⟩ | ⟨h0, h⟩
    · rw [h] at hg; rw [← hg, under_self] at hd; cases hd
    · rw [h] at hg; rw [← hg, CD.under_graft] at hd; cases hd
    · rw [h] at hg; rw [hg, hu] at h0; cases h0
  · intro k hu hd
    have hk := reKey_other S D k hu
    have h4 := find?_mapKey_hit (reKey S D) k b (by
      intro k1 hk1 hg
      rw [hk] at hg
      rcases reKey_cases S D k1 with ⟨_, h⟩ | ⟨t', _, h⟩ | ⟨_, h⟩
      · rw [h] at hg; rw [← hg, under_self] at hd; cases hd
      · rw [h] at hg; rw [← hg, CD.under_graft] at hd; cases hd
      · rw [h] at hg; exact hg)
    rw [hk] at h4; exact h4

theorem nothing_under_fresh {b : FMap} (hwf : WF b) {D : Str} (hd : FreshDest b D) :
    ∀ k, under D k = true → b.find? k = none := by
  intro k hu
  cases hk : b.find? k with
  | none => rfl
  | some ek =>
    exfalso
    rcases (under_iff D k).1 hu with h | ⟨t, ht⟩
    · subst h; rw [hd.absent] at hk; cases hk
    · subst ht
      obtain ⟨n, hn, ⟨en, hen⟩, _⟩ := hwf.below_via_child D t ek hk
      obtain ⟨_, pe, hpe, _⟩ := hwf.2 _ en hen (by simp)
      rw [parent_of_child D n hn, hd.absent] at hpe; cases hpe

theorem Phys.rename_dir (b : FMap) (hwf : WF b) (S D : Str) (e : Entry)
    (hs : b.find? S = some e) (hd : FreshDest b D) (hout : under S D = false) :
    Phys.rename b S D = (.ok (), Phys.renameTree b S D) := by
  obtain ⟨pe, hpe, hpd⟩ := hd.parent
  have hnp : (S ++ ['/']).isPrefixOf D = false := by
    unfold under at hout
    simp only [Bool.or_eq_false_iff] at hout
    exact hout.2
  simp [Phys.rename, hwf.resolve_present S e hs, hwf.resolve_child D hd.slash pe hpe hpd,
    hwf.lookup_present S e hs, hd.lookup hwf, hnp]

/-- `move_dir` inside ONE physical filesystem (same `Arc`): `std::fs::rename` does it all -/
theorem moveDir_phys_same {w : World} {j : Nat} {b : FMap} (h : PhysLeafAt w j b) (hwf : WF b)
    (id fuel : Nat) (S D : Str) (e : Entry) (hs : b.find? S = some e) (hd : FreshDest b D)
    (hout : under S D = false) :
    VPath.moveDir fuel { fs := leafFS j, fsId := id, path := S }
      { fs := leafFS j, fsId := id, path := D } w =
      (.ok (), w.setLeafFiles j (Phys.renameTree b S D)) := by
  have hex : VPath.exists_ { fs := leafFS j, fsId := id, path := D } w = (.ok false, w) := by
    simp [VPath.exists_, run_exists_phys h, Phys.exists_absent b D hd.absent]
  have hfast : (leafFS j).moveDir S D w = (.ok (), w.setLeafFiles j (Phys.renameTree b S D)) := by
    show onLeaf j _ w = _
    rw [run_onLeaf_phys h]
    simp [Phys.rename_dir b hwf S D e hs hd hout]
  unfold VPath.moveDir
  simp [M.withPath, bind, M.bind, hex, M.attempt, hfast, pure, M.pure, Res.withPath]

theorem core_of_stripAcc {x y : Option Entry} (h : x.map stripAcc = y.map stripAcc) :
    x.map core = y.map core := by
  cases x <;> cases y <;> simp at h ⊢
  rename_i u v
  have h1 := congrArg Entry.ftype h
  have h2 := congrArg Entry.content h
  simp [stripAcc] at h1 h2
  simp [core, h1, h2]

/-- **move_dir_agree, one filesystem**: `S` a directory (not the root), `D = renderC bs` fresh and
not at or below `S`, directory entries at or below `S` bare (`C11.DirsBare`; needed because
`create_dir` makes a directory without bytes while `rename` keeps the entry), fuel bounds of
`C11.moveDir_exact_same` for the memory side. Memory runs the generic route (create_dir, walk,
copy item by item in ITS listing order, remove_dir_all), the physical side a single `rename`: both
`Ok`, the resulting maps are `CoreEq`, the memory one well-formed. -/
theorem move_dir_agree_same {wm wp : World} {i j : Nat} {a b : FMap}
    (hm : MemLeafAt wm i a) (hp : PhysLeafAt wp j b) (hwf : WF a) (hc : CoreEq a b)
    (hna : FMap.NodupKeys a) (sid did pid fuel : Nat) (S : Str) (bs : List Str) (hS : S ≠ [])
    (hbs : ∀ c ∈ bs, GoodComp c) (hdir : ∃ se, a.find? S = some se ∧ se.ftype = .dir)
    (hcanon : ∀ k e, a.find? k = some e → under S k = true → Canon k)
    (hbare : C11.DirsBare a S)
    (hfresh : FreshDest a (renderC bs)) (hout : under S (renderC bs) = false)
    (hfuel : C11.descendants a S < fuel)
    (hb1 : ∀ k e, a.find? k = some e → k.length < S.length + fuel)
    (hb2 : ∀ k e, a.find? k = some e → under S k = true →
      (renderC bs).length + k.length < 2 * S.length + fuel) :
    ∃ wm' a',
      VPath.moveDir fuel { fs := leafFS i, fsId := sid, path := S }
        { fs := leafFS i, fsId := did, path := renderC bs } wm = (.ok (), wm') ∧
      MemLeafAt wm' i a' ∧ (∀ l, l ≠ i → wm'.leaf? l = wm.leaf? l) ∧
      VPath.moveDir fuel { fs := leafFS j, fsId := pid, path := S }
        { fs := leafFS j, fsId := pid, path := renderC bs } wp =
        (.ok (), wp.setLeafFiles j (Phys.renameTree b S (renderC bs))) ∧
      CoreEq a' (Phys.renameTree b S (renderC bs)) ∧ WF a' ∧
      WF (Phys.renameTree b S (renderC bs)) := by
  have hwfb : WF b := hwf.of_coreEq hc
  have hfb : FreshDest b (renderC bs) := hfresh.of_coreEq hc
  obtain ⟨se, hse, hsd⟩ := hdir
  obtain ⟨se', hse', hst, hsc⟩ := hc.some S se hse
  obtain ⟨w', a', h1, h2, h3, h4, h5, h6, h7, h8⟩ :=
    C11.moveDir_exact_same hm hwf hna sid did fuel S bs hS hbs ⟨se, hse, hsd⟩ hcanon hfresh hout
      hfuel hb1 hb2
  obtain ⟨r1, r2, r3, r4⟩ := find?_renameTree_tree b S (renderC bs) (nothing_under_fresh hwfb hfb) hout
  have hce : CoreEq a' (Phys.renameTree b S (renderC bs)) := by
    intro k
    cases hd : under (renderC bs) k with
    | true =>
      rcases (under_iff _ k).1 hd with hk | ⟨t, hk⟩
      · subst hk
        rw [h6, r1, hse']
        have hbareS := hbare S se hse (under_self S) hsd
        simp only [Option.map_some, Option.some.injEq, core, Prod.mk.injEq]
        exact ⟨by rw [hst, hsd]; rfl, by rw [hsc, hbareS]; rfl⟩
      · subst hk
        rw [C11.graft_core hbare h7 t, r2 t]
        exact hc _
    | false =>
      cases hu : under S k with
      | true => rw [h5 k hu, r3 k hu hd]
      | false => rw [core_of_stripAcc (h8 k hu hd), r4 k hu hd]; exact hc k
  exact ⟨w', a', h1, h2, h4, moveDir_phys_same hp hwfb pid fuel S _ se' hse' hfb hout, hce, h3,
    h3.of_coreEq hce⟩

/-! ## 4. what is not proved: full statements -/

/-- copy_dir, memory against physical (two leaves of the same kind, or one leaf): same outcome,
`CoreEq` results. NOT PROVED: needs the physical twin of `CD.copyDir_tree`
(Proofs/CopyDirLemmas.lean: loop invariant `PInv` over `Phys.createDir` / `Phys.copyFile` /
the generic open-create-write route); the memory half is `C11.copyDir_exact`. -/
def copy_dir_stmt : Prop :=
  ∀ (wm wp : World) (i j i2 j2 : Nat) (a b a2 b2 : FMap) (sid did sidp didp fuel : Nat) (S D : Str),
    MemLeafAt wm i a → MemLeafAt wm i2 a2 → PhysLeafAt wp j b → PhysLeafAt wp j2 b2 →
    (i = i2 ↔ j = j2) → WF a → WF a2 → CoreEq a b → CoreEq a2 b2 →
    FMap.NodupKeys a → FMap.NodupKeys b → C11.DirsBare a S →
    (∃ e, a.find? S = some e ∧ e.ftype = .dir) → FreshDest a2 D → (i = i2 → under S D = false) →
    C11.descendants a S < fuel →
    ∃ n wm' wp' a' b' a2' b2',
      VPath.copyDir fuel { fs := leafFS i, fsId := sid, path := S }
        { fs := leafFS i2, fsId := did, path := D } wm = (.ok n, wm') ∧
      VPath.copyDir fuel { fs := leafFS j, fsId := sidp, path := S }
        { fs := leafFS j2, fsId := didp, path := D } wp = (.ok n, wp') ∧
      MemLeafAt wm' i a' ∧ MemLeafAt wm' i2 a2' ∧ PhysLeafAt wp' j b' ∧ PhysLeafAt wp' j2 b2' ∧
      CoreEq a' b' ∧ CoreEq a2' b2'

/-- move_dir between two leaves (generic route on both sides). NOT PROVED, same missing lemma. -/
def move_dir_cross_stmt : Prop :=
  ∀ (wm wp : World) (i j i2 j2 : Nat) (a b a2 b2 : FMap) (sid did sidp didp fuel : Nat) (S D : Str),
    i ≠ i2 → j ≠ j2 →
    MemLeafAt wm i a → MemLeafAt wm i2 a2 → PhysLeafAt wp j b → PhysLeafAt wp j2 b2 →
    WF a → WF a2 → CoreEq a b → CoreEq a2 b2 →
    FMap.NodupKeys a → FMap.NodupKeys b → C11.DirsBare a S → S ≠ [] →
    (∃ e, a.find? S = some e ∧ e.ftype = .dir) → FreshDest a2 D →
    C11.descendants a S < fuel → (∀ k e, a.find? k = some e → k.length < S.length + fuel) →
    ∃ wm' wp' a' b' a2' b2',
      VPath.moveDir fuel { fs := leafFS i, fsId := sid, path := S }
        { fs := leafFS i2, fsId := did, path := D } wm = (.ok (), wm') ∧
      VPath.moveDir fuel { fs := leafFS j, fsId := sidp, path := S }
        { fs := leafFS j2, fsId := didp, path := D } wp = (.ok (), wp') ∧
      MemLeafAt wm' i a' ∧ MemLeafAt wm' i2 a2' ∧ PhysLeafAt wp' j b' ∧ PhysLeafAt wp' j2 b2' ∧
      CoreEq a' b' ∧ CoreEq a2' b2'

/-- **copy_dir / move_dir, refusal** (partial version of `copy_dir_stmt`): an existing destination
is refused on both sides by the `exists` probe, nothing changes. -/
theorem copy_move_dir_agree_refused {wm wp : World} {i2 j2 : Nat} {a2 b2 : FMap}
    (hm : MemLeafAt wm i2 a2) (hp : PhysLeafAt wp j2 b2) (hwf : WF a2) (hc : CoreEq a2 b2)
    (srcm srcp : VPath) (did didp fuel : Nat) (D : Str) (hD : ∃ e, a2.find? D = some e) :
    (∃ k pth, VPath.copyDir fuel srcm { fs := leafFS i2, fsId := did, path := D } wm =
      (.err k pth, wm)) ∧
    (∃ k pth, VPath.copyDir fuel srcp { fs := leafFS j2, fsId := didp, path := D } wp =
      (.err k pth, wp)) ∧
    (∃ k pth, VPath.moveDir fuel srcm { fs := leafFS i2, fsId := did, path := D } wm =
      (.err k pth, wm)) ∧
    (∃ k pth, VPath.moveDir fuel srcp { fs := leafFS j2, fsId := didp, path := D } wp =
      (.err k pth, wp)) := by
  have hwfb : WF b2 := hwf.of_coreEq hc
  obtain ⟨e, he⟩ := hD
  obtain ⟨e', he', _⟩ := hc.some D e he
  have h1 : VPath.exists_ { fs := leafFS i2, fsId := did, path := D } wm = (.ok true, wm) := by
    simp [VPath.exists_, run_exists hm, (FMap.contains_iff _ _).2 ⟨e, he⟩]
  have h2 : VPath.exists_ { fs := leafFS j2, fsId := didp, path := D } wp = (.ok true, wp) := by
    simp [VPath.exists_, run_exists_phys hp, Phys.exists_, hwfb.lookup_present D e' he']
  exact ⟨⟨_, _, copyDir_refused _ _ _ fuel h1⟩, ⟨_, _, copyDir_refused _ _ _ fuel h2⟩,
    ⟨_, _, moveDir_refused _ _ _ fuel h1⟩, ⟨_, _, moveDir_refused _ _ _ fuel h2⟩⟩

/-! ## 5. non-vacuity: CoreEq maps stored in different orders -/

def coreEqCheck (a b : FMap) : Bool :=
  a.keys.all (fun k => decide ((a.find? k).map core = (b.find? k).map core)) &&
  b.keys.all (fun k => a.contains k)

theorem coreEq_of_check (a b : FMap) (h : coreEqCheck a b = true) : CoreEq a b := by
  unfold coreEqCheck at h
  simp only [Bool.and_eq_true, List.all_eq_true, decide_eq_true_eq] at h
  intro k
  by_cases hk : k ∈ a.keys
  · exact h.1 k hk
  · have ha : a.find? k = none := by
      cases hf : a.find? k with
      | none => rfl
      | some e => exact absurd ((FMap.mem_keys_iff a k).2 ⟨e, hf⟩) hk
    cases hb : b.find? k with
    | none => rw [ha]
    | some e =>
      have := h.2 k ((FMap.mem_keys_iff b k).2 ⟨e, hb⟩)
      obtain ⟨e', he'⟩ := (FMap.contains_iff _ _).1 this
      rw [ha] at he'; cases he'

/-- the physical twin of `C11.mN`: the same tree stored in the REVERSE order, other timestamps -/
def pN : FMap := (C11.mN.map (fun kv => (kv.1, { kv.2 with modified := .at 7 }))).reverse

def wMem : World := { leaves := [{ kind := .mem, files := C11.mN }] }
def wPhys : World := { leaves := [{ kind := .phys, files := pN }] }

theorem mN_pN_coreEq : CoreEq C11.mN pN := coreEq_of_check _ _ (by decide)
theorem pN_nodup : FMap.NodupKeys pN := by unfold FMap.NodupKeys; decide
theorem pN_order : C11.mN.keys ≠ pN.keys := by decide

/-- `walk_agree`, `remove_dir_all_agree`, `move_dir_agree_same` instantiated on `/r` -/
example := walk_agree (wm := wMem) (wp := wPhys) (i := 0) (j := 0) rfl rfl C11.mN_wf mN_pN_coreEq
  C11.mN_nodup pN_nodup 0 0 "/r".toList ⟨_, rfl, rfl⟩ 9 (by decide)
example := remove_dir_all_agree (wm := wMem) (wp := wPhys) (i := 0) (j := 0) rfl rfl C11.mN_wf
  mN_pN_coreEq C11.mN_nodup pN_nodup 0 0 "/r".toList (by decide) 9 (keys_bound _ _ (by decide))
example := move_dir_agree_same (wm := wMem) (wp := wPhys) (i := 0) (j := 0) rfl rfl C11.mN_wf
  mN_pN_coreEq C11.mN_nodup 0 1 0 20 "/r".toList ["t".toList] (by decide) (by decide)
  ⟨_, rfl, rfl⟩ (C11.mN_canon _) (C11.mN_bare _) (C11.fresh_of_check _ _ (by decide)) (by decide)
  (by decide) (keys_bound _ _ (by decide)) (fun k e hk _ => by
    have := keys_bound C11.mN 11 (by decide) k e hk
    simp [renderC] at this ⊢; omega)

#print axioms walk_agree
#print axioms walk_agree_not_dir
#print axioms remove_dir_all_agree
#print axioms move_dir_agree_same
#print axioms copy_move_dir_agree_refused

end Vfs.C02
