/-
  Non-vacuity of Props/C11OverlaySource.lean: the hypotheses of `copyDir_from_overlay_exact` and
  `moveDir_from_overlay_exact` are satisfiable on a concrete non-trivial world, and the result is
  re-evaluated by the kernel.
  World: four memory leaves; leaves 2, 0, 1 are the upper layer and two lower layers of an overlay
  (layout of Props/C09Refine.lean), leaf 3 is the destination. A 3-call history through the
  overlay (a write session below a nested lower-only directory, two `remove_file`s of lower-layer
  files) produces a state in which the directory "/d/n" is spread over ALL THREE layers and
  "/d/b", "/d/n/q" are whited out; the invariants of that state come from
  `C05.overlay_history_walkable`, the concrete maps from `mapsOfN` (`decide +kernel`).
  Nothing is proved here beyond instantiation and evaluation.
-/
import VfsModel.Props.C11OverlaySource
set_option linter.unusedVariables false
namespace Vfs.C11
open Vfs Vfs.Overlay Vfs.C02 Vfs.C01 Vfs.C09 Vfs.C05 Vfs.Wk
open Vfs.C10 (mapsOfN world4)

section example4

/-! leaf 0 = layer 1, leaf 1 = layer 2, leaf 2 = upper layer, leaf 3 = the DESTINATION (not a layer).
layer 1: "/d", "/d/x" = "1", "/d/b" = "B", "/d/n", "/d/n/p" = [1];
layer 2: "/d", "/d/x" = "2" (shadowed), "/d/c" = "C", "/d/n", "/d/n/q" = [2], "/d/n/p" = [3] (shadowed);
upper:   "/top". -/
def yA : FMap :=
  [("/d/n/p".toList, C09.fileOf [1]), ("/d/n".toList, dirEntryNow), ("/d/x".toList, C09.fileOf [49]),
   ("/d/b".toList, C09.fileOf [66]), ("/d".toList, dirEntryNow), ([], dirEntryNow)]
def yB : FMap :=
  [("/d/n/p".toList, C09.fileOf [3]), ("/d/n/q".toList, C09.fileOf [2]), ("/d/n".toList, dirEntryNow),
   ("/d/x".toList, C09.fileOf [50]), ("/d/c".toList, C09.fileOf [67]), ("/d".toList, dirEntryNow),
   ([], dirEntryNow)]
def yU : FMap := [("/top".toList, C09.fileOf [84]), ([], dirEntryNow)]

def yw : World := world4 yA yB yU Mem.init

/-- a write session below the nested lower-only directory (so "/d/n" is spread over all three
layers), then two removals: "/d/b" (layer 1) and the nested "/d/n/q" (layer 2) get whiteouts -/
def yOps : List Mut :=
  [.write "/d/n/r".toList [7, 8], .removeFile "/d/b".toList, .removeFile "/d/n/q".toList]

theorem yw_setting : OWN yw [2, 0, 1] [7, 8, 9] [yU, yA, yB] :=
  .cons rfl (by decide) (.cons rfl (by decide) (.cons rfl (by decide) .nil))
theorem yw_wf : ∀ m ∈ [yU, yA, yB], WF m := by decide
theorem yw_inv : OInv yU [yA, yB] := OInv.initial yw_wf (noWhiteout_of_keys (by decide))
theorem yw_viewWF : ViewWF (oview [yU, yA, yB]) :=
  ViewWF.initial yw_wf (noWhiteout_of_keys (by decide)) (typeConsistent_of_keys (by decide))
theorem yw_names : NamesOK [yU, yA, yB] := namesOK_of_keys (by decide)
theorem yOps_ok : ∀ op ∈ yOps, OpOK op := by
  intro op hop
  apply opOK_of_check
  revert op
  decide
theorem yOps_o3 : C03.ViewO3Free xfs [2, 0, 1] yOps yw := by decide +kernel

/-- the world after the history -/
def yw2 : World := (runOverlay xfs yOps yw).2

theorem yw2_setting : ∃ mu' ms', mu' :: ms' = mapsOfN yw2 [2, 0, 1] ∧
    OWN yw2 [2, 0, 1] [7, 8, 9] (mu' :: ms') ∧ OInv mu' ms' ∧ ViewWF (oview (mu' :: ms')) ∧
    NamesOK (mu' :: ms') := by
  obtain ⟨mu', ms', hown, inv', hv', hn'⟩ :=
    overlay_history_walkable yOps yOps_ok yw_setting yw_inv yw_viewWF yw_names yOps_o3
  exact ⟨mu', ms', (C03.mapsOfN_of_OWN hown).symm, hown, inv', hv', hn'⟩

/-- the markers are really there: the upper map holds whiteouts for "/d/b" and "/d/n/q" -/
example : ((mapsOfN yw2 [2, 0, 1]).head!.contains "/.whiteout/d/b_wo".toList,
    (mapsOfN yw2 [2, 0, 1]).head!.contains "/.whiteout/d/n/q_wo".toList) = (true, true) := by
  decide +kernel

/-- what the overlay shows strictly below "/d" after the history -/
def yD : List Str :=
  ["/d/n".toList, "/d/x".toList, "/d/c".toList, "/d/n/r".toList, "/d/n/p".toList]

theorem yD_desc : DescList (ovisView (mapsOfN yw2 [2, 0, 1])) "/d".toList yD :=
  descList_overlay_check (by decide) (by decide +kernel) (by decide +kernel)

/-- **the hypotheses of `copyDir_from_overlay_exact` are satisfiable**: copy "/d" out of the
3-layer overlay (nested directory "/d/n" spread over the three layers, "/d/b" and "/d/n/q" whited
out) to "/copy" on leaf 3 -/
example : ∃ w' mt',
    VPath.copyDir 6 ⟨xfs, 4, "/d".toList⟩ ⟨leafFS 3, 5, "/copy".toList⟩ yw2 = (.ok 5, w') ∧
    MemLeafAt w' 3 mt' ∧
    (∀ ts, ts ≠ [] → (∀ c ∈ ts, GoodComp c) →
      (mt'.find? (renderC (["copy".toList] ++ ts))).map vcore
        = (ovisView (mapsOfN yw2 [2, 0, 1]) (renderC (["d".toList] ++ ts))).map vcore) := by
  obtain ⟨mu', ms', hmaps, hown, inv', hv', hn'⟩ := yw2_setting
  have hleaf : MemLeafAt yw2 3 Mem.init := by unfold MemLeafAt; decide +kernel
  have hD : DescList (ovisView (mu' :: ms')) (renderC ["d".toList]) yD := by
    rw [hmaps]; exact yD_desc
  have hsrc : VIsDir (oview (mu' :: ms')) (renderC ["d".toList]) := by
    rw [hmaps]; decide +kernel
  obtain ⟨w', mu2, ms2, mt', hrun, _, _, _, _, hl', _, hcopy, _⟩ :=
    copyDir_from_overlay_exact hown inv' hv' hn' (t := 3) (tid := 5) (id := 4) (by decide)
      (by decide) (ss := ["d".toList]) (dp := []) (n0 := "copy".toList) (by decide) hsrc
      (by decide) hleaf (show Mem.init.find? (renderC []) = some _ from rfl) rfl
      (fresh_of_wf WF.init_mem (by decide) (by decide)) hD (fuel := 6) (by decide)
  refine ⟨w', mt', hrun, hl', ?_⟩
  rw [← hmaps]
  exact hcopy

/-! … and evaluated by the kernel: 5 items; the copy holds n/, x, c and n/r, n/p — neither the
whited-out "b" and "n/q" nor ".whiteout"; "x" has the bytes of layer 1, "n/p" those of layer 1 -/
example : (VPath.copyDir 6 ⟨xfs, 4, "/d".toList⟩ ⟨leafFS 3, 5, "/copy".toList⟩ yw2).1 = .ok 5 := by
  decide +kernel

example : ((leafFS 3).readDir "/copy".toList
    (VPath.copyDir 6 ⟨xfs, 4, "/d".toList⟩ ⟨leafFS 3, 5, "/copy".toList⟩ yw2).2).1.map
      (fun l => (l.contains "b".toList, l.contains "n".toList, l.length)) = .ok (false, true, 3) := by
  decide +kernel

example : ((leafFS 3).readDir "/copy/n".toList
    (VPath.copyDir 6 ⟨xfs, 4, "/d".toList⟩ ⟨leafFS 3, 5, "/copy".toList⟩ yw2).2).1.map
      (fun l => (l.contains "q".toList, l.contains "p".toList, l.contains "r".toList, l.length))
    = .ok (false, true, true, 2) := by
  decide +kernel

example : C09.readAllN (leafFS 3) "/copy/x"
    (VPath.copyDir 6 ⟨xfs, 4, "/d".toList⟩ ⟨leafFS 3, 5, "/copy".toList⟩ yw2).2 = .ok [49] := by
  decide +kernel

example : C09.readAllN (leafFS 3) "/copy/n/p"
    (VPath.copyDir 6 ⟨xfs, 4, "/d".toList⟩ ⟨leafFS 3, 5, "/copy".toList⟩ yw2).2 = .ok [1] := by
  decide +kernel

/-- with one unit of fuel less the loop runs dry -/
example : (VPath.copyDir 5 ⟨xfs, 4, "/d".toList⟩ ⟨leafFS 3, 5, "/copy".toList⟩ yw2).1 = .panic := by
  decide +kernel

/-- the hypotheses of `moveDir_from_overlay_exact` are satisfiable on the same world -/
example : ∃ w' mu' ms', VPath.moveDir 6 ⟨xfs, 4, "/d".toList⟩ ⟨leafFS 3, 5, "/moved".toList⟩ yw2
      = (.ok (), w') ∧ OWN w' [2, 0, 1] [7, 8, 9] (mu' :: ms') ∧
    oview (mu' :: ms') "/d".toList = none := by
  obtain ⟨mu', ms', hmaps, hown, inv', hv', hn'⟩ := yw2_setting
  have hleaf : MemLeafAt yw2 3 Mem.init := by unfold MemLeafAt; decide +kernel
  have hD : DescList (ovisView (mu' :: ms')) (renderC ["d".toList]) yD := by
    rw [hmaps]; exact yD_desc
  have hsrc : VIsDir (oview (mu' :: ms')) (renderC ["d".toList]) := by
    rw [hmaps]; decide +kernel
  have hdepth : FuelOK (oview (mu' :: ms')) ["d".toList] 6 := by
    rw [hmaps]; exact fuelOK_of_keys (by decide) (by decide +kernel)
  obtain ⟨w', mu2, ms2, mt', hrun, st2, _, _, _, _, _, _, hgone, _⟩ :=
    moveDir_from_overlay_exact hown inv' hv' hn' (t := 3) (tid := 5) (id := 4) (by decide)
      (by decide) (ss := ["d".toList]) (dp := []) (n0 := "moved".toList) (by decide) hsrc
      (by decide) hleaf (show Mem.init.find? (renderC []) = some _ from rfl) rfl
      (fresh_of_wf WF.init_mem (by decide) (by decide)) hD (fuel := 6) (by decide) hdepth
  exact ⟨w', mu2, ms2, hrun, st2.own, hgone _ (InSub.self (by decide))⟩

end example4

end Vfs.C11
