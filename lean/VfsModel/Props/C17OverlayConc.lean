/-
  C17 for the overlay, under ALL interleavings — "Any number of threads calling create_dir_all
  concurrently on arbitrary, possibly overlapping paths of one filesystem (with no concurrent
  removals and no files in the way) all return success under every interleaving, and afterwards
  every requested path and each of its ancestors is a directory."

  Object: the interleaving model VfsModel/OverlayConc.lean of `OverlayFS` over n ≥ 1 in-memory
  layers.  One atomic step = one `FileSystem` trait call of a layer (`exists`, `metadata`,
  `create_dir`, `remove_file` of MemoryFS — the linearizable calls of C16); the overlay's and the
  VfsPath layer's code between two such calls is thread-local.  (Finer than one step per VfsPath
  primitive: `VfsPath::create_dir`, `is_dir`, `create_dir_all` on the write layer are several steps.)

  PROVED (no sorry, no axiom beyond propext / Classical.choice / Quot.sound):

  1. THE SMALL-STEP MODEL IS THE MODELLED CODE (arbitrary layers, no hypothesis):
     `small_step_is_createDirAll` : `(OConc.createDirAll layers p).run =
        VPath.createDirAll ⟨Overlay.fs layers, id, p⟩` (all calls of the program one after the
        other = the shallow definition of Adapters.lean / PathOps.lean);
     `one_thread_alone` : a single thread scheduled `callsFrom` times has returned the result of
        that shallow definition, in its final world.

  2. `overlay_create_dir_all_concurrent` : n ≥ 1 memory layers (`OWN`), any number of threads,
     thread i = `create_dir_all(renderC cs_i)`, `cs_i` canonical (`GoodComp`) and not below
     "/.whiteout" (`PathsOK`).  Initial state: `RootOk` of the write layer; no non-empty prefix of
     a requested path is a FILE of the n-layer view (`hnofile`; whiteouts left by earlier removals
     are allowed — a lower FILE hidden by a whiteout is allowed too); the markers of requested
     prefixes are files (`hmark`) and the write layer holds no file at a marked requested prefix
     (`hghost`) — both are consequences of the sequential invariant `OInv` of C09Contract
     (`overlay_create_dir_all_concurrent_OInv`).  Then for EVERY schedule, at every moment:
       (a) the world differs from the initial one only in the write layer's map (`s.world =
           w0.setLeafFiles u mu`: lower layers, ghost fields untouched), and that map evolved by
           `Evolve`: entries persist unchanged except markers of requested prefixes that have
           become directories; new entries are directories at requested prefixes;
       (b) every thread that has returned has returned `Ok(())` (no error is ever recorded), and
           every non-empty prefix of ITS path is a directory of the n-layer view;
       (c) hence when all threads have finished all results are `Ok(())` and every requested path
           and each of its prefixes is a directory of the view.
     Proof: rely-guarantee (Proofs/OverlayConcCalc.lean `wpR`, `run_SInv`) reduces all schedules
     to one thread under interference `Evolve` (Proofs/OverlayConcThread.lean `sp_createDirAll`).

  3. WHICH CLAUSE NEEDS THE O11 REPAIR: (b).  `old_fails` : on the two-layer world `wC` (whiteout at
     "/c"), threads `create_dir_all("/c/x")`, `create_dir_all("/c/y")`, the PRE-REPAIR `create_dir`
     (`OConc.createDirOld`) run under the schedule `badSchedule` (thread 1 runs up to and including
     its `create_dir("/c")` on the write layer, then thread 0 runs to completion) ends with thread 0
     = `Err(Other)` — kernel-evaluated.  In the proof, the repair is used in `sp_createDir`
     (`DirectoryExists` from the write layer ⇒ the marker is cleared before returning, so the
     postcondition `VisDir` holds) and `sp_clearT` (a marker that vanished is tolerated).

  4. NON-VACUITY: `wC_instance` instantiates (2) on `wC` for every schedule;
     `new_ok_preemptOnce_*` : every schedule in which each thread is preempted at most once
     (`preemptOnce 32 32`, 2178 schedules, all steps of both threads) ends with both `Ok` and
     "/c", "/c/x", "/c/y" directories of the write layer — kernel-evaluated (`decide +kernel`);
     `old_fails_some` : with the old `create_dir` some schedule of that family fails;
     `new_ok_window` / `old_fails_window` : ALL C(10,5) = 252 interleavings of the critical window
     (the 5 calls of each thread starting with its `create_dir("/c")` on the write layer, enumerated
     by `OConc.interleavings`), then completion: all end well with the repaired code, some fail
     with the old one.

  NOT PROVED: exhaustive kernel enumeration of ALL C(56,28) interleavings of the example (out of
  reach by evaluation; all schedules are covered by theorem (2) / `wC_instance` instead);
  nothing about PhysicalFS layers or about concurrent removals / file creation.
  Do not import together with Props/C17.lean (TransferLemmas / OverlayLemmas name clash).
-/
import VfsModel.Proofs.OverlayConcThread
set_option linter.unusedVariables false
set_option linter.unusedSimpArgs false
namespace Vfs.C17
open Vfs Vfs.Overlay Vfs.OConc

/-! ## 1. the small-step model is the modelled code -/

/-- all calls of the small-step program, one after the other, are `VfsPath::create_dir_all` on
the overlay path — arbitrary layers, every path string -/
theorem small_step_is_createDirAll (layers : List VPath) (id : Nat) (p : Str) :
    (OConc.createDirAll layers p).run
      = VPath.createDirAll { fs := Overlay.fs layers, fsId := id, path := p } :=
  OConc.run_createDirAll layers id p

/-- one thread alone, scheduled until it has made all its calls: it has returned the result of
`VfsPath::create_dir_all` on the overlay path, and the world is the one that call leaves -/
theorem one_thread_alone (layers : List VPath) (id : Nat) (p : Str) (w : World) :
    OConc.run (initSys layers w [p])
        (List.replicate ((OConc.createDirAll layers p).callsFrom w) 0)
      = { world := (VPath.createDirAll { fs := Overlay.fs layers, fsId := id, path := p } w).2,
          threads := [.done (VPath.createDirAll { fs := Overlay.fs layers, fsId := id, path := p } w).1] } := by
  rw [← small_step_is_createDirAll layers id p]
  exact alone_run _ w

/-! ## 2. all interleavings -/

section main
variable {u idu : Nat} {is ids : List Nat} {ms : List FMap} {paths : List (List Str)}

/-- the hypotheses on the initial state give the stable invariant -/
theorem GI_init (mu0 : FMap) (hroot : RootOk mu0)
    (hnofile : ∀ q, Req paths q → ∀ e, viewN (mu0 :: ms) q = some e → e.ftype = .dir)
    (hghost : ∀ q, Req paths q → mu0.contains (marker q) = true →
      ∀ e, mu0.find? q = some e → e.ftype = .dir)
    (hmark : ∀ q, Req paths q → ∀ e, mu0.find? (marker q) = some e → e.ftype = .file) :
    GI ms paths mu0 := by
  refine ⟨hroot.root, hroot.noMark, ?_, ?_, hmark⟩
  · intro q hq e he
    by_cases hm : mu0.contains (marker q) = true
    · exact hghost q hq hm e he
    · exact hnofile q hq e (viewN_upper (by simpa using hm) he)
  · intro q hq
    by_cases hm : mu0.contains (marker q) = true
    · exact Or.inl hm
    · right
      rcases Option.eq_none_or_eq_some (mu0.find? q) with hf | ⟨e, hf⟩
      · right
        intro e he
        exact hnofile q hq e (by rw [viewN_lower (by simpa using hm) hf]; exact he)
      · exact Or.inl (contains_of_find hf)

/-- **overlay_create_dir_all_concurrent** (C17 for OverlayFS over n memory layers, every
interleaving of layer calls). See the header for the reading of (a), (b), (c). -/
theorem overlay_create_dir_all_concurrent (w0 : World) (mu0 : FMap)
    (hown : OWN w0 (u :: is) (idu :: ids) (mu0 :: ms)) (hp : PathsOK paths) (hroot : RootOk mu0)
    (hnofile : ∀ cs ∈ paths, ∀ j, 1 ≤ j → j ≤ cs.length →
      ∀ e, viewN (mu0 :: ms) (renderC (cs.take j)) = some e → e.ftype = .dir)
    (hghost : ∀ q, Req paths q → mu0.contains (marker q) = true →
      ∀ e, mu0.find? q = some e → e.ftype = .dir)
    (hmark : ∀ q, Req paths q → ∀ e, mu0.find? (marker q) = some e → e.ftype = .file)
    (schedule : List Nat) :
    let s := OConc.run (initSys (layersN (u :: is) (idu :: ids)) w0 (paths.map renderC)) schedule
    ∃ mu,
      -- (a)
      (s.world = w0.setLeafFiles u mu ∧ OWN s.world (u :: is) (idu :: ids) (mu :: ms) ∧
        Evolve paths mu0 mu) ∧
      -- (b)
      (s.threads.length = paths.length ∧
       ∀ (i : Nat) (cs : List Str) (r : Res Unit), paths[i]? = some cs →
        s.results[i]? = some (some r) →
        r = .ok () ∧ ∀ j, 1 ≤ j → j ≤ cs.length →
          ∃ e, viewN (mu :: ms) (renderC (cs.take j)) = some e ∧ e.ftype = .dir) ∧
      -- (c)
      (s.finished = true →
        s.results = paths.map (fun _ => some (.ok ())) ∧
        ∀ cs ∈ paths, ∀ j, 1 ≤ j → j ≤ cs.length →
          ∃ e, viewN (mu :: ms) (renderC (cs.take j)) = some e ∧ e.ftype = .dir) := by
  intro s
  have hl1 : is.length = ids.length := by have := hown.len_ids; simpa using this
  have hl2 : is.length = ms.length := by have := hown.len_ms; simpa using this
  have g0 : GI ms paths mu0 := GI_init mu0 hroot
    (fun q ⟨cs, hcs, j, h1, h2, hq⟩ e he => hnofile cs hcs j h1 h2 e (hq ▸ he)) hghost hmark
  -- the postconditions of the threads
  let Qs : List (Res Unit → World → Prop) := paths.map fun cs => fun r w' =>
    ∃ mu', St u idu is ids ms w' mu' ∧ (r = .ok () ∧ VisUpTo ms cs cs.length mu')
  have hR : ∀ w, RelW u idu is ids ms (Evolve paths) w w := RelW_refl Evolve.refl
  have hT := RelW_trans (u := u) (idu := idu) (is := is) (ids := ids) (ms := ms)
    (Rel := Evolve paths) (fun _ _ _ => Evolve.trans hp)
  have hinit : SInv (RelW u idu is ids ms (Evolve paths)) Qs w0
      (initSys (layersN (u :: is) (idu :: ids)) w0 (paths.map renderC)) := by
    refine ⟨hR w0, by simp [initSys, Qs], ?_⟩
    intro i t Q ht hQ
    simp only [initSys, List.map_map, List.getElem?_map] at ht
    simp only [Qs, List.getElem?_map] at hQ
    cases hpi : paths[i]? with
    | none => simp [hpi] at ht
    | some cs =>
      simp only [hpi, Option.map_some, Option.some.injEq, Function.comp] at ht hQ
      subst ht; subst hQ
      exact sp_createDirAll hp hl1 hl2 cs (List.mem_of_getElem? hpi) mu0 g0 w0 hown
  have hinv : SInv (RelW u idu is ids ms (Evolve paths)) Qs w0 s := run_SInv hR hT Qs w0 _ schedule hinit
  obtain ⟨mu, hw, hev⟩ := hinv.rel mu0 hown
  have hst : St u idu is ids ms s.world mu := by rw [hw]; exact hown.setHead mu
  have hlen : s.threads.length = paths.length := by rw [hinv.len]; simp [Qs]
  have hb : ∀ (i : Nat) (cs : List Str) (r : Res Unit), paths[i]? = some cs →
      s.results[i]? = some (some r) →
      r = .ok () ∧ ∀ j, 1 ≤ j → j ≤ cs.length →
        ∃ e, viewN (mu :: ms) (renderC (cs.take j)) = some e ∧ e.ftype = .dir := by
    intro i cs r hpi hres
    simp only [Sys.results, List.getElem?_map] at hres
    cases hti : s.threads[i]? with
    | none => simp [hti] at hres
    | some t =>
      simp only [hti, Option.map_some, Option.some.injEq] at hres
      cases t with
      | done r' =>
        simp only [Prog.result?, Option.some.injEq] at hres
        subst hres
        have hQ : Qs[i]? = some (fun r w' =>
            ∃ mu', St u idu is ids ms w' mu' ∧ (r = .ok () ∧ VisUpTo ms cs cs.length mu')) := by
          simp [Qs, hpi]
        obtain ⟨mu', hst', hr, hvis⟩ := wpR_done hR _ _ _ (hinv.thr i _ _ hti hQ)
        have := St.unique hst hst'
        subst this
        exact ⟨hr, fun j h1 h2 => (hvis j h1 h2).view⟩
      | exists_ _ _ _ => simp [Prog.result?] at hres
      | metadata _ _ _ => simp [Prog.result?] at hres
      | createDir _ _ _ => simp [Prog.result?] at hres
      | removeFile _ _ _ => simp [Prog.result?] at hres
  refine ⟨mu, ⟨hw, hst, hev⟩, ⟨hlen, hb⟩, ?_⟩
  intro hfin
  have hall : ∀ (i : Nat) (cs : List Str), paths[i]? = some cs → s.results[i]? = some (some (.ok ())) ∧
      ∀ j, 1 ≤ j → j ≤ cs.length →
        ∃ e, viewN (mu :: ms) (renderC (cs.take j)) = some e ∧ e.ftype = .dir := by
    intro i cs hpi
    have hlt : i < s.threads.length := by rw [hlen]; exact (List.getElem?_eq_some_iff.1 hpi).1
    have hti : s.threads[i]? = some s.threads[i] := List.getElem?_eq_getElem hlt
    have hsome : (s.threads[i]).result?.isSome = true := by
      have := List.all_eq_true.1 hfin s.threads[i] (List.getElem_mem hlt)
      simpa using this
    obtain ⟨r, hr⟩ := Option.isSome_iff_exists.1 hsome
    have hres : s.results[i]? = some (some r) := by
      simp [Sys.results, hti, hr]
    obtain ⟨hok, hd⟩ := hb i cs r hpi hres
    subst hok
    exact ⟨hres, hd⟩
  refine ⟨?_, ?_⟩
  · apply List.ext_getElem?
    intro i
    cases hpi : paths[i]? with
    | none =>
      have : paths.length ≤ i := by
        rcases Nat.lt_or_ge i paths.length with h | h
        · rw [List.getElem?_eq_getElem h] at hpi; cases hpi
        · exact h
      simp [Sys.results, hpi, List.getElem?_eq_none (by rw [hlen]; exact this)]
    | some cs => rw [(hall i cs hpi).1]; simp [hpi]
  · intro cs hcs
    obtain ⟨i, hi⟩ := List.mem_iff_getElem?.1 hcs
    exact (hall i cs hi).2

/-- lower layers and ghost fields never change (consequence of (a)) -/
theorem lower_layers_unchanged (w0 : World) (mu : FMap) (i : Nat) (hi : i ≠ u) :
    (w0.setLeafFiles u mu).leaf? i = w0.leaf? i ∧ (w0.setLeafFiles u mu).log = w0.log ∧
    (w0.setLeafFiles u mu).fault = w0.fault ∧ (w0.setLeafFiles u mu).fired = w0.fired :=
  ⟨World.leaf?_setLeafFiles_ne w0 u i mu (fun h => hi h.symm), rfl, rfl, rfl⟩

end main

/-! ## 3./4. the example: a whiteout at "/c", two threads below it -/

def fileOf' (b : Bytes) : Entry := { fileEntryNow with content := b }
def kC : Str := ['/', 'c']
def kOld : Str := ['/', 'c', '/', 'o']
def pX : Str := ['/', 'c', '/', 'x']
def pY : Str := ['/', 'c', '/', 'y']
def kWo : Str := ['/', '.', 'w', 'h', 'i', 't', 'e', 'o', 'u', 't']
def kWoC : Str := kWo ++ kC
def kMC : Str := kWo ++ kC ++ ['_', 'w', 'o']
def kMOld : Str := kWo ++ kOld ++ ['_', 'w', 'o']

/-- the write layer after `remove_file("/c/o")`, `remove_dir("/c")` through the overlay: the
markers "/.whiteout/c/o_wo" and "/.whiteout/c_wo" -/
def muC : FMap :=
  [(kMC, fileOf' []), (kMOld, fileOf' []), (kWoC, dirEntryNow), (kWo, dirEntryNow), ([], dirEntryNow)]
/-- the lower layer still holds "/c" and "/c/o" -/
def mlC : FMap := [(kOld, fileOf' [49]), (kC, dirEntryNow), ([], dirEntryNow)]
def wC : World := { leaves := [{ kind := .mem, files := mlC }, { kind := .mem, files := muC }] }
def layC : List VPath := layersN [1, 0] [7, 8]
def pathsC : List (List Str) := [[['c'], ['x']], [['c'], ['y']]]

example : pathsC.map renderC = [pX, pY] := by decide
example : marker kC = kMC ∧ marker kOld = kMOld := by decide

/-- T0 = `create_dir_all("/c/x")`, T1 = `create_dir_all("/c/y")`, repaired code -/
def sNew : Sys := initSys layC wC [pX, pY]
/-- the same threads over the pre-repair `create_dir` -/
def sOld : Sys := initSysOld layC wC [pX, pY]

/-- both threads returned `Ok(())`; "/c", "/c/x", "/c/y" are directories of the write layer, the
lower layer is as before -/
def goodC (s : Sys) : Bool :=
  s.results = [some (.ok ()), some (.ok ())] &&
  (s.world.leaves.map fun l => ([kC, pX, pY].map fun q => (l.files.find? q).map (·.ftype))) ==
    [[some .dir, none, none], [some .dir, some .dir, some .dir]] &&
  (s.world.leaves.map (·.files))[0]? == some mlC

theorem wC_setting : OWN wC [1, 0] [7, 8] [muC, mlC] :=
  .cons rfl (by decide) (.cons rfl (by decide) .nil)

theorem pathsC_ok : PathsOK pathsC := by
  intro cs hcs
  simp only [pathsC, List.mem_cons, List.not_mem_nil, or_false] at hcs
  rcases hcs with rfl | rfl <;> exact ⟨by decide, by decide⟩

theorem req_cases {q : Str} (h : Req pathsC q) : q = kC ∨ q = pX ∨ q = pY := by
  obtain ⟨cs, hcs, j, h1, h2, rfl⟩ := h
  simp only [pathsC, List.mem_cons, List.not_mem_nil, or_false] at hcs
  rcases hcs with rfl | rfl
  · have : j = 1 ∨ j = 2 := by simp at h2; omega
    rcases this with rfl | rfl
    · left; decide
    · right; left; decide
  · have : j = 1 ∨ j = 2 := by simp at h2; omega
    rcases this with rfl | rfl
    · left; decide
    · right; right; decide

/-- the hypotheses of `overlay_create_dir_all_concurrent` hold in `wC`: the theorem instantiated,
for EVERY schedule — all results that exist are `Ok`, and when both threads have finished "/c",
"/c/x", "/c/y" are directories of the view -/
theorem wC_instance (schedule : List Nat) :
    ∃ mu, (OConc.run sNew schedule).world = wC.setLeafFiles 1 mu ∧ Evolve pathsC muC mu ∧
      (∀ (i : Nat) (r : Res Unit), i < 2 → (OConc.run sNew schedule).results[i]? = some (some r) →
        r = .ok ()) ∧
      ((OConc.run sNew schedule).finished = true →
        (OConc.run sNew schedule).results = [some (.ok ()), some (.ok ())] ∧
        ∀ q ∈ [kC, pX, pY], ∃ e, viewN [mu, mlC] q = some e ∧ e.ftype = .dir) := by
  have hroot : RootOk muC := ⟨⟨_, rfl, rfl⟩, by decide⟩
  have hnofile : ∀ q, Req pathsC q → ∀ e, viewN [muC, mlC] q = some e → e.ftype = .dir := by
    intro q hq e he
    have hnone : viewN [muC, mlC] q = none := by
      rcases req_cases hq with rfl | rfl | rfl <;> decide
    rw [hnone] at he; cases he
  have hghost : ∀ q, Req pathsC q → muC.contains (marker q) = true →
      ∀ e, muC.find? q = some e → e.ftype = .dir := by
    intro q hq _ e he
    have hnone : muC.find? q = none := by
      rcases req_cases hq with rfl | rfl | rfl <;> decide
    rw [hnone] at he; cases he
  have hmark : ∀ q, Req pathsC q → ∀ e, muC.find? (marker q) = some e → e.ftype = .file := by
    intro q hq e he
    rcases req_cases hq with rfl | rfl | rfl
    · have : muC.find? (marker kC) = some (fileOf' []) := by decide
      rw [this] at he; injection he with he; subst he; rfl
    · have : muC.find? (marker pX) = none := by decide
      rw [this] at he; cases he
    · have : muC.find? (marker pY) = none := by decide
      rw [this] at he; cases he
  obtain ⟨mu, ⟨hw, _, hev⟩, ⟨_, hb⟩, hc⟩ := overlay_create_dir_all_concurrent wC muC wC_setting
    pathsC_ok hroot
    (fun cs hcs j h1 h2 e he => hnofile _ ⟨cs, hcs, j, h1, h2, rfl⟩ e he) hghost hmark schedule
  refine ⟨mu, hw, hev, ?_, ?_⟩
  · intro i r hi hres
    have h2 : i = 0 ∨ i = 1 := by omega
    rcases h2 with rfl | rfl
    · exact (hb 0 _ r rfl hres).1
    · exact (hb 1 _ r rfl hres).1
  · intro hfin
    obtain ⟨h1, h2⟩ := hc hfin
    refine ⟨h1, ?_⟩
    intro q hq
    simp only [List.mem_cons, List.not_mem_nil, or_false] at hq
    rcases hq with rfl | rfl | rfl
    · exact h2 [['c'], ['x']] (by simp [pathsC]) 1 (by omega) (by simp)
    · exact h2 [['c'], ['x']] (by simp [pathsC]) 2 (by omega) (by simp)
    · exact h2 [['c'], ['y']] (by simp [pathsC]) 2 (by omega) (by simp)

/-! ### kernel-evaluated schedules -/

/-- each thread makes 28 layer calls when it runs alone from `wC` -/
example : (OConc.createDirAll layC pX).callsFrom wC = 28 ∧
    (OConc.createDirAll layC pY).callsFrom wC = 28 := by decide +kernel

-- one after the other, in both orders
example : goodC (OConc.run sNew (List.replicate 32 0 ++ List.replicate 32 1)) = true := by
  decide +kernel
example : goodC (OConc.run sNew (List.replicate 32 1 ++ List.replicate 32 0)) = true := by
  decide +kernel

/-- the schedule on which the pre-repair code fails: T1 runs until it has created "/c" in the write
layer (8 calls; the whiteout of "/c" is still there), then T0 runs to completion, then T1 -/
def badSchedule : List Nat := List.replicate 8 1 ++ List.replicate 32 0 ++ List.replicate 24 1

/-- **the pre-repair `create_dir` fails under `badSchedule`**: T0's `create_dir("/c")` gets
`DirectoryExists` from the write layer and returns it at once, `create_dir_all` goes on to
"/c/x", whose `ensure_has_parent` does not see "/c" (still whited out): `Err(Other)` — clause (b)
of `overlay_create_dir_all_concurrent` is false for the old code -/
theorem old_fails :
    (OConc.run sOld badSchedule).results = [some (.err .other (some pX)), some (.ok ())] := by
  decide +kernel

/-- T1's eighth call is the `create_dir` on the write layer -/
example : ((OConc.run sOld (List.replicate 7 1)).threads.map Prog.label)[1]? = some "create_dir" ∧
    (OConc.run sOld (List.replicate 8 1)).world.leaves.map (fun l => l.files.contains kC && l.files.contains kMC)
      = [false, true] := by decide +kernel

/-- the repaired code under the same schedule -/
theorem new_ok_badSchedule : goodC (OConc.run sNew badSchedule) = true := by decide +kernel

/-- the schedules in which each thread is preempted at most once -/
example : (preemptOnce 32 32).length = 2178 := by decide +kernel

set_option maxRecDepth 100000 in
theorem new_ok_preemptOnce_1 :
    ((preemptOnce 32 32).take 550).all (fun sc => goodC (OConc.run sNew sc)) = true := by
  decide +kernel
set_option maxRecDepth 100000 in
theorem new_ok_preemptOnce_2 :
    (((preemptOnce 32 32).drop 550).take 550).all (fun sc => goodC (OConc.run sNew sc)) = true := by
  decide +kernel
set_option maxRecDepth 100000 in
theorem new_ok_preemptOnce_3 :
    (((preemptOnce 32 32).drop 1100).take 550).all (fun sc => goodC (OConc.run sNew sc)) = true := by
  decide +kernel
set_option maxRecDepth 100000 in
theorem new_ok_preemptOnce_4 :
    ((preemptOnce 32 32).drop 1650).all (fun sc => goodC (OConc.run sNew sc)) = true := by
  decide +kernel

/-- every schedule of the family ends with both `Ok` and the three directories present -/
theorem new_ok_preemptOnce : ∀ sc ∈ preemptOnce 32 32, goodC (OConc.run sNew sc) = true := by
  intro sc hsc
  rw [← List.take_append_drop 550 (preemptOnce 32 32), List.mem_append] at hsc
  rcases hsc with h | h
  · exact List.all_eq_true.1 new_ok_preemptOnce_1 sc h
  · rw [← List.take_append_drop 550 (List.drop 550 (preemptOnce 32 32)), List.mem_append] at h
    rcases h with h | h
    · exact List.all_eq_true.1 new_ok_preemptOnce_2 sc h
    · rw [List.drop_drop] at h
      rw [← List.take_append_drop 550 (List.drop (550 + 550) (preemptOnce 32 32)), List.mem_append] at h
      rcases h with h | h
      · exact List.all_eq_true.1 new_ok_preemptOnce_3 sc h
      · rw [List.drop_drop] at h
        exact List.all_eq_true.1 new_ok_preemptOnce_4 sc h

/-- ALL interleavings of the critical window: both threads have made their first 7 calls (each is
about to call `create_dir("/c")` on the write layer); then EVERY interleaving of the next 5 calls
of each thread (write-layer `create_dir`, marker probe, marker removal, the first probes of
"/c/x" resp. "/c/y"); then both run to completion -/
def windowSchedules : List (List Nat) :=
  (interleavings 5 5).map fun mid =>
    List.replicate 7 0 ++ List.replicate 7 1 ++ mid ++ List.replicate 32 0 ++ List.replicate 32 1

example : windowSchedules.length = 252 := by decide +kernel

/-- both threads are about to call `create_dir` of the write layer after the common prefix -/
example : (OConc.run sNew (List.replicate 7 0 ++ List.replicate 7 1)).threads.map Prog.label
    = ["create_dir", "create_dir"] := by decide +kernel

set_option maxRecDepth 100000 in
/-- the repaired code: every interleaving of the window ends well -/
theorem new_ok_window : windowSchedules.all (fun sc => goodC (OConc.run sNew sc)) = true := by
  decide +kernel

set_option maxRecDepth 100000 in
/-- the old code: some interleaving of the window fails -/
theorem old_fails_window : windowSchedules.any (fun sc => !goodC (OConc.run sOld sc)) = true := by
  decide +kernel

/-- with the old `create_dir` some schedule of the family fails -/
theorem old_fails_some : ∃ sc ∈ preemptOnce 32 32, goodC (OConc.run sOld sc) = false :=
  ⟨badSchedule, by decide +kernel, by decide +kernel⟩

end Vfs.C17

#print axioms Vfs.C17.small_step_is_createDirAll
#print axioms Vfs.C17.one_thread_alone
#print axioms Vfs.C17.overlay_create_dir_all_concurrent
#print axioms Vfs.C17.wC_instance
#print axioms Vfs.C17.old_fails
#print axioms Vfs.C17.new_ok_preemptOnce
#print axioms Vfs.C17.old_fails_some
#print axioms Vfs.C17.new_ok_window
#print axioms Vfs.C17.old_fails_window
