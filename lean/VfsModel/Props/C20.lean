/-
  C20 — Underlying failures are never reported as success.

  Fault model (Adapters.lean): `faultFS inner` puts `faultGate` in front of every trait method of
  `inner`. The world carries a plan `fault : Option Nat`: the call through a gate that finds
  `some 0` fails with `fail .io` (kind `.io`, no path), sets `fired := true`, `fault := none`, and
  does not reach `inner`; `some (k+1)` counts down; `none` passes through. A plan fires at most once.

  Notions (Proofs/Faithful.lean):
    `Faithful m`     : `∀ w, w.fired = false → (m w).2.fired = true → (m w).1.isOk = false`
                       — a fault that fires while `m` runs is not reported as success.
    `FaithfulIO m`   : … `→ (m w).1.isIo = true` — the outcome is the injected error itself
                       (`err .io _`): not `ok`, not a panic, not a kind any caller swallows.
                       `FaithfulIO m → Faithful m` (`FaithfulIO.faithful`); all theorems below are
                       proved in the strong form, the weak forms are corollaries.
    `FaithfulItem m` : for an iterator step: the step yields `some (err .io _)` or fails itself.
    `FS.Faithful fs` : every trait method of `fs` is `FaithfulIO`.

  PROVED (all at full strength, for ARBITRARY inner filesystems satisfying `FS.Faithful`, any
  number of layers, any nesting of adapters and wrappers):
    1. `faultGate_faithful`, `faultGate_fires`, `faultGate_counts`, `faultGate_passthrough`,
       `faultFS_faithful`, `leafFS_faithful`, `leaf_never_touches_plan`, `handles_never_touch_plan`,
       `recordFS_faithful`.
    2. `pathops_faithful` (exists, metadata, create_dir, create_dir_all, read_dir, create_file,
       open_file, append_file, remove_file, remove_dir, remove_dir_all, is_file, is_dir,
       read_to_string, set_*_time, walk_dir), `write_session_faithful`,
       `transfers_faithful` (copy_file, move_file, copy_dir, move_dir; hypothesis for both
       filesystems), `walk_faithful` / `walkNext_yields_error` (`WalkDirIterator::next`),
       `walkAll_reports_error` (the collected iteration),
       `composites_faithful` (the weak `Faithful` form of the eight composite operations named by
       the property).
    3. `altroot_faithful`.
    4. `overlay_faithful` (current model: `OverlayFS::exists` swallows `FileNotFound` only).
       `stack_faithful`: altroot over overlay over fault-wrapped leaves.
    5. `ok_implies_no_fault`, `fired_implies_io_error`, `fired_implies_no_panic`.
    6. Non-vacuity: concrete runs in which the fault fires inside `create_dir_all`, `copy_file`,
       a step of `walk_dir`, `copy_dir` and the overlay's `exists`, and the error comes out.
    7. `existsSwallowing_not_faithful`: the historical `OverlayFS::exists`
       (`read_path(..).map(..).unwrap_or(Ok(false))`, before commit "fix: OverlayFS::exists
       reported layer errors as \"does not exist\"") is NOT faithful — concrete two-layer witness.

  NOT PROVED / out of scope here:
    * the optional second half of item 5 ("the run from `w` equals the run from
      `{ w with fault := none }` when the countdown never reaches zero") is only stated for the
      gate (`faultGate_passthrough`); for arbitrary inner filesystems it is false as stated (an
      `FS` record may inspect the ghost field), and for the concrete stacks it is a relational
      property outside this calculus.
    * "with its full effect in place by another route" (the fallback paths of copy_file /
      move_file / move_dir after `NotSupported`) is covered in the sense that the fallback is
      itself faithful; functional correctness of the effect is the subject of C01–C05, not C20.
    * panics unrelated to a fired fault (fuel exhaustion, slice out of range in `relJoin`) are
      not excluded here; what is proved is that a *fired fault* never becomes a panic.
  Nothing in the list of the task statement turned out false for the current model; no
  `_partial` variants were needed.
-/
import VfsModel.Proofs.Faithful
namespace Vfs.C20
open Vfs.VPath

/-! ### 1. the gate, the fault wrapper, leaves and handles -/

/-- the gate is faithful around any faithful call (in particular around a leaf method) -/
theorem faultGate_faithful {α} {m : M α} (hm : FaithfulIO m) :
    FaithfulIO (faultGate m) ∧ Faithful (faultGate m) :=
  ⟨faultGate_faithfulIO hm, (faultGate_faithfulIO hm).faithful⟩

/-- countdown at zero: the call fails with the injected error, the plan is consumed, and the
inner call is not made (the rest of the world is unchanged) -/
theorem faultGate_fires {α} (m : M α) (w : World) (h : w.fault = some 0) :
    faultGate m w = (fail .io, { w with fault := none, fired := true }) := by
  unfold faultGate; rw [h]

/-- countdown above zero: one call is counted and the inner call runs -/
theorem faultGate_counts {α} (m : M α) (w : World) (k : Nat) (h : w.fault = some (k + 1)) :
    faultGate m w = m { w with fault := some k } := by
  unfold faultGate; rw [h]

/-- no plan (in particular after the plan has fired): the gate is transparent -/
theorem faultGate_passthrough {α} (m : M α) (w : World) (h : w.fault = none) :
    faultGate m w = m w := by
  unfold faultGate; rw [h]

theorem faultFS_faithful {inner : FS} (h : inner.Faithful) : (faultFS inner).Faithful :=
  Vfs.faultFS_faithful h

/-- a leaf filesystem never touches `fired` / `fault`, whatever the outcome of the call -/
theorem leaf_never_touches_plan (i : Nat) (b : Bool) (f : Option Nat) :
    (leafFS i).AllPreserve (fun w => w.fired = b ∧ w.fault = f) := leafFS_keeps_plan i b f

theorem leafFS_faithful (i : Nat) : (leafFS i).Faithful := Vfs.leafFS_faithful i

/-- `WHandle.write / flush / drop` act directly on a leaf and never touch the plan -/
theorem handles_never_touch_plan (h : WHandle) (bs : Bytes) (w : World) :
    ((h.write bs w).2.fired = w.fired ∧ (h.write bs w).2.fault = w.fault) ∧
    ((h.flush w).2.fired = w.fired ∧ (h.flush w).2.fault = w.fault) ∧
    ((h.drop w).2.fired = w.fired ∧ (h.drop w).2.fault = w.fault) :=
  ⟨h.write_fired bs w, h.flush_fired w, h.drop_fired w⟩

theorem recordFS_faithful {inner : FS} (tag : Nat) (h : inner.Faithful) :
    (recordFS tag inner).Faithful := Vfs.recordFS_faithful tag h

/-- the base case used by every instance below: a fault-wrapped leaf -/
theorem faultLeaf_faithful (i : Nat) : (faultFS (leafFS i)).Faithful :=
  faultFS_faithful (leafFS_faithful i)

/-! ### 2. the `VfsPath` layer -/

/-- the one-path operations -/
structure PathOps (p : VPath) : Prop where
  exists_ : FaithfulIO p.exists_
  metadata : FaithfulIO p.metadata
  createDir : FaithfulIO p.createDir
  createDirAll : FaithfulIO p.createDirAll
  readDir : FaithfulIO p.readDir
  createFile : FaithfulIO p.createFile
  openFile : FaithfulIO p.openFile
  appendFile : FaithfulIO p.appendFile
  removeFile : FaithfulIO p.removeFile
  removeDir : FaithfulIO p.removeDir
  removeDirAll : ∀ fuel, FaithfulIO (p.removeDirAll fuel)
  isFile : FaithfulIO p.isFile
  isDir : FaithfulIO p.isDir
  readToEndChecked : FaithfulIO p.readToEndChecked
  setCreationTime : ∀ t, FaithfulIO (p.setCreationTime t)
  setModificationTime : ∀ t, FaithfulIO (p.setModificationTime t)
  setAccessTime : ∀ t, FaithfulIO (p.setAccessTime t)
  walkDir : FaithfulIO p.walkDir

/-- **every one-path operation of the `VfsPath` layer is faithful** over a faithful filesystem -/
theorem pathops_faithful (p : VPath) (h : p.fs.Faithful) : PathOps p where
  exists_ := faith_exists p h
  metadata := faith_metadata p h
  createDir := faith_createDir p h
  createDirAll := faith_createDirAll p h
  readDir := faith_readDir p h
  createFile := faith_createFile p h
  openFile := faith_openFile p h
  appendFile := faith_appendFile p h
  removeFile := faith_removeFile p h
  removeDir := faith_removeDir p h
  removeDirAll fuel := faith_removeDirAll fuel p h
  isFile := faith_isFile p h
  isDir := faith_isDir p h
  readToEndChecked := faith_readToEndChecked p h
  setCreationTime t := faith_setCreationTime p t h
  setModificationTime t := faith_setModificationTime p t h
  setAccessTime t := faith_setAccessTime p t h
  walkDir := faith_walkDir p h

/-- a write session on ANY write handle (create_file / append_file of any stack): `write_all`
then drop cannot make the plan fire (handles bypass the wrappers), a fortiori it is faithful -/
theorem write_session_faithful (h : WHandle) (bs : Bytes) :
    FaithfulIO (h.writeAllAndDrop bs) ∧ FaithfulIO (h.write bs) ∧ FaithfulIO h.flush ∧
      FaithfulIO h.drop :=
  ⟨h.faith_writeAllAndDrop bs, h.faith_write bs, h.faith_flush, h.faith_drop⟩

/-- the two-path operations -/
structure Transfers (src dst : VPath) : Prop where
  copyFile : FaithfulIO (src.copyFile dst)
  moveFile : FaithfulIO (src.moveFile dst)
  copyDir : ∀ fuel, FaithfulIO (src.copyDir fuel dst)
  moveDir : ∀ fuel, FaithfulIO (src.moveDir fuel dst)

/-- **copy_file, move_file, copy_dir, move_dir are faithful** when both filesystems are. The
fast paths swallow `NotSupported` only; `move_file` returns the outcome of the source removal
after dropping the destination handle; the loops hand an error item of the walk on. -/
theorem transfers_faithful (src dst : VPath) (hs : src.fs.Faithful) (hd : dst.fs.Faithful) :
    Transfers src dst where
  copyFile := faith_copyFile src dst hs hd
  moveFile := faith_moveFile src dst hs hd
  copyDir fuel := faith_copyDir fuel src dst hs hd
  moveDir fuel := faith_moveDir fuel src dst hs hd

/-- **`WalkDirIterator::next`** over a faithful filesystem: the step is `FaithfulItem`, and the
state it returns is again a walk over the same filesystem (so the statement applies to every
later step) -/
theorem walk_faithful (fs : FS) (hfs : fs.Faithful) (s : Walk) (hs : s.On fs) :
    FaithfulItem (walkNext s) ∧ Returns (walkNext s) (fun r => r.2.On fs) :=
  ⟨faith_walkNext fs hfs s hs,
   ⟨fun w a he => ((walkNext_on fs s hs).post w a he).2⟩⟩

/-- the walk returned by `walk_dir` is a walk over the path's filesystem -/
theorem walkDir_state (p : VPath) : Returns p.walkDir (fun s => s.On p.fs) := walkDir_on p

/-- spelled out: if the fault fires during a step of the walk, the step does not return `ok`
unless the item it yields is the injected error -/
theorem walkNext_yields_error (fs : FS) (hfs : fs.Faithful) (s : Walk) (hs : s.On fs) (w : World)
    (hw : w.fired = false) (hf : (walkNext s w).2.fired = true) :
    (∃ p, (walkNext s w).1 = .err .io p) ∨
      (∃ p s', (walkNext s w).1 = .ok (some (.err .io p), s')) := by
  have h := (faith_walkNext fs hfs s hs).io w hw hf
  cases hr : (walkNext s w).1 with
  | ok a =>
    rw [hr] at h
    obtain ⟨item, s'⟩ := a
    cases item with
    | none => simp [Res.isIoItem] at h
    | some r =>
      have h' : r.isIo = true := h
      obtain ⟨p, rfl⟩ := (Res.isIo_iff r).1 h'
      exact Or.inr ⟨p, s', rfl⟩
  | err k p =>
    rw [hr] at h
    cases k <;> simp [Res.isIoItem] at h
    exact Or.inl ⟨p, rfl⟩
  | panic => rw [hr] at h; simp [Res.isIoItem] at h

/-- the whole iteration (`walk_dir()?.collect()`): a fault that fires at any step is visible in
the result — the collection fails, or one of the collected items is the injected error -/
theorem walkAll_reports_error (fs : FS) (hfs : fs.Faithful) (fuel : Nat) (s : Walk) (hs : s.On fs)
    (w : World) (hw : w.fired = false) (hf : (walkAll fuel s w).2.fired = true) :
    (walkAll fuel s w).1.isOk = false ∨
      ∃ l, (walkAll fuel s w).1 = .ok l ∧ ∃ x ∈ l, ∃ p, x = .err .io p := by
  rcases walkAll_reports fs hfs fuel s hs w hw hf with h | ⟨l, hl, x, hx, hio⟩
  · exact Or.inl h
  · exact Or.inr ⟨l, hl, x, hx, (Res.isIo_iff x).1 hio⟩

/-- the composite operations named by the property, in the weak form of its statement -/
theorem composites_faithful (src dst : VPath) (hs : src.fs.Faithful) (hd : dst.fs.Faithful)
    (fuel : Nat) :
    Faithful src.createDirAll ∧ Faithful (src.removeDirAll fuel) ∧ Faithful (src.copyFile dst) ∧
    Faithful (src.moveFile dst) ∧ Faithful (src.copyDir fuel dst) ∧ Faithful (src.moveDir fuel dst) ∧
    Faithful src.walkDir ∧ Faithful src.readToEndChecked :=
  ⟨(faith_createDirAll src hs).faithful, (faith_removeDirAll fuel src hs).faithful,
   (faith_copyFile src dst hs hd).faithful, (faith_moveFile src dst hs hd).faithful,
   (faith_copyDir fuel src dst hs hd).faithful, (faith_moveDir fuel src dst hs hd).faithful,
   (faith_walkDir src hs).faithful, (faith_readToEndChecked src hs).faithful⟩

/-! ### 3. AltrootFS -/

/-- **AltrootFS is faithful over a faithful root.** (`exists` maps a failing `path` — a pure
join — to `false`: no call is made on that branch, so no fault can have fired.) -/
theorem altroot_faithful (root : VPath) (h : root.fs.Faithful) : (Altroot.fs root).Faithful :=
  Altroot.faithful root h

/-! ### 4. OverlayFS -/

/-- **OverlayFS is faithful over faithful layers** — any number of layers, each an arbitrary
faithful filesystem (`writeLayer []` is the placeholder filesystem, so the empty list is
covered). Of the errors of `read_path`, `exists` swallows `FileNotFound` only. -/
theorem overlay_faithful (layers : List VPath) (hl : ∀ l ∈ layers, l.fs.Faithful) :
    (Overlay.fs layers).Faithful :=
  Overlay.faithful layers hl

/-- adapters stacked on adapters: an altroot over an overlay over fault-wrapped leaves, and the
whole `VfsPath` layer on top of it -/
theorem stack_faithful (a b : Nat) (pa pb at_ : Str) (id : Nat) (q : Str) :
    PathOps { fs := Altroot.fs { fs := Overlay.fs [{ fs := faultFS (leafFS a), fsId := 0, path := pa },
                                                     { fs := faultFS (leafFS b), fsId := 1, path := pb }],
                                  fsId := 2, path := at_ },
              fsId := id, path := q } := by
  apply pathops_faithful
  apply altroot_faithful
  apply overlay_faithful
  intro l hm
  simp only [List.mem_cons, List.mem_nil_iff, or_false] at hm
  rcases hm with rfl | rfl <;> exact faultLeaf_faithful _

/-! ### 5. corollaries -/

/-- **`ok` implies that no fault fired** during the operation -/
theorem ok_implies_no_fault {α} {m : M α} (h : Faithful m) (w : World) (hw : w.fired = false)
    (hok : (m w).1.isOk = true) : (m w).2.fired = false :=
  h.ok_not_fired w hw hok

/-- a fired fault comes out as the injected error … -/
theorem fired_implies_io_error {α} {m : M α} (h : FaithfulIO m) (w : World) (hw : w.fired = false)
    (hf : (m w).2.fired = true) : ∃ p, (m w).1 = .err .io p :=
  (Res.isIo_iff _).1 (h.io w hw hf)

/-- … in particular never as a panic -/
theorem fired_implies_no_panic {α} {m : M α} (h : FaithfulIO m) (w : World) (hw : w.fired = false)
    (hf : (m w).2.fired = true) : (m w).1.isPanic = false :=
  h.no_panic w hw hf

/-! ### 6. non-vacuity: the fault does fire inside composite operations, and the error comes out -/

def memWorld (fault : Option Nat) : World :=
  { leaves := [{ kind := .mem, files := Mem.init }], fault := fault }

def fpath (s : Str) : VPath := { fs := faultFS (leafFS 0), fsId := 0, path := s }

/-- without a plan `create_dir_all "/a/b"` succeeds -/
example : ((fpath "/a/b".toList).createDirAll (memWorld none)).1 = .ok () := by decide
/-- fault on the first call: error, the plan has fired -/
example : ((fpath "/a/b".toList).createDirAll (memWorld (some 0))).1 = .err .io (some "/a".toList) := by decide
example : ((fpath "/a/b".toList).createDirAll (memWorld (some 0))).2.fired = true := by decide
/-- fault on the second call (`/a` already created — a partial effect, reported as an error) -/
example : ((fpath "/a/b".toList).createDirAll (memWorld (some 1))).1 = .err .io (some "/a/b".toList) := by decide
example : ((fpath "/a/b".toList).createDirAll (memWorld (some 1))).2.fired = true := by decide
example : (((fpath "/a/b".toList).createDirAll (memWorld (some 1))).2.leaves.map
    (fun l => l.files.contains "/a".toList)) = [true] := by decide
/-- a plan longer than the operation does not fire, and the operation succeeds -/
example : ((fpath "/a/b".toList).createDirAll (memWorld (some 2))).1 = .ok () := by decide
example : ((fpath "/a/b".toList).createDirAll (memWorld (some 2))).2.fired = false := by decide

/-- the hypotheses of the theorems hold for this instance -/
example : PathOps (fpath "/a/b".toList) := pathops_faithful _ (faultLeaf_faithful 0)

/-- `copy_file` over MemoryFS takes the fallback path (the fast path is `NotSupported`, which is
swallowed); a fault in the fast-path call itself (call 2: exists, copy_file) is NOT swallowed -/
def srcWorld (fault : Option Nat) : World :=
  { leaves := [{ kind := .mem,
                 files := [("/f".toList, { fileEntryNow with content := [1, 2, 3] }),
                           ([], dirEntryNow)] }],
    fault := fault }

example : ((fpath "/f".toList).copyFile (fpath "/g".toList) (srcWorld none)).1 = .ok () := by decide
example : ((fpath "/f".toList).copyFile (fpath "/g".toList) (srcWorld (some 1))).1
    = .err .io (some "/f".toList) := by decide
example : ((fpath "/f".toList).copyFile (fpath "/g".toList) (srcWorld (some 1))).2.fired = true := by
  decide

/-- the walk: `/d` is listed (call 1: read_dir), the fault hits the `metadata` of the item
(call 2): the step returns normally and the item it yields is the injected error -/
def walkWorld (fault : Option Nat) : World :=
  { leaves := [{ kind := .mem, files := [("/d".toList, dirEntryNow), ([], dirEntryNow)] }],
    fault := fault }

example : (((fpath []).walkDir >>= walkNext) (walkWorld (some 1))).1.isOk = true := by decide
example : (((fpath []).walkDir >>= walkNext) (walkWorld (some 1))).1.isIoItem = true := by decide
example : (((fpath []).walkDir >>= walkNext) (walkWorld (some 1))).2.fired = true := by decide
example : (((fpath []).walkDir >>= walkNext) (walkWorld none)).1.isIoItem = false := by decide
/-- `copy_dir "/d" → "/e"` where `/d` holds the directory `/d/x`: 11 trait calls in all. The 6th
(index 5: exists, get_parent ×2, create_dir, read_dir, then the `metadata` inside the walk step)
makes the walk yield an error item, which `copy_dir` returns. (`decide +kernel`: plain kernel
evaluation, no axioms beyond the standard ones; the elaborator's `decide` is slow on the long
successful run.) -/
def dirWorld (fault : Option Nat) : World :=
  { leaves := [{ kind := .mem,
                 files := [("/d/x".toList, dirEntryNow), ("/d".toList, dirEntryNow), ([], dirEntryNow)] }],
    fault := fault }

example : ((fpath "/d".toList).copyDir 5 (fpath "/e".toList) (dirWorld none)).1 = .ok 1 := by
  decide +kernel
example : ((fpath "/d".toList).copyDir 5 (fpath "/e".toList) (dirWorld (some 5))).1.isIo = true := by
  decide
example : ((fpath "/d".toList).copyDir 5 (fpath "/e".toList) (dirWorld (some 5))).2.fired = true := by
  decide
/-- every one of the 11 calls, when it is the one that fails, makes `copy_dir` fail -/
example : (List.range 11).all (fun k =>
    let r := (fpath "/d".toList).copyDir 5 (fpath "/e".toList) (dirWorld (some k))
    r.2.fired && r.1.isIo) = true := by decide +kernel
/-- and a plan beyond the last call does not fire -/
example : ((fpath "/d".toList).copyDir 5 (fpath "/e".toList) (dirWorld (some 11))).2.fired = false := by
  decide +kernel

/-! ### 7. the historical defect, visible in the theory -/

/-- `OverlayFS::exists` before the fix (`read_path(path).map(|p| p.exists()).unwrap_or(Ok(false))`):
EVERY error of `read_path` becomes `Ok(false)` -/
def existsSwallowing (layers : List VPath) (p : Str) : M Bool := do
  let wo ← M.ret (Overlay.whiteoutPath layers p)
  let marked ← wo.exists_
  if marked then pure false
  else fun w =>
    match Overlay.readPath layers p w with
    | (.ok q, w') => q.exists_ w'
    | (.err _ _, w') => (.ok false, w')
    | (.panic, w') => (.panic, w')

def twoLayers : List VPath :=
  [{ fs := faultFS (leafFS 0), fsId := 0, path := [] },
   { fs := faultFS (leafFS 1), fsId := 1, path := [] }]

/-- `/a` exists in the lower layer only; the plan hits the second call (`exists` on the upper
layer inside `read_path`; the first call is the whiteout check) -/
def twoWorld (fault : Option Nat) : World :=
  { leaves := [{ kind := .mem, files := Mem.init },
               { kind := .mem, files := [("/a".toList, dirEntryNow), ([], dirEntryNow)] }],
    fault := fault }

/-- **the regression**: the old `exists` answers `Ok(false)` for an entry that exists, while the
injected failure has fired -/
theorem existsSwallowing_wrong :
    (existsSwallowing twoLayers "/a".toList (twoWorld (some 1))).1 = .ok false ∧
    (existsSwallowing twoLayers "/a".toList (twoWorld (some 1))).2.fired = true ∧
    (existsSwallowing twoLayers "/a".toList (twoWorld none)).1 = .ok true := by decide

theorem existsSwallowing_not_faithful : ¬ Faithful (existsSwallowing twoLayers "/a".toList) := by
  intro h
  have := h (twoWorld (some 1)) rfl (by decide)
  revert this
  decide

/-- the fixed `exists` on the same instance reports the error -/
example : (Overlay.exists_ twoLayers "/a".toList (twoWorld (some 1))).1 = .err .io none := by decide
example : (Overlay.exists_ twoLayers "/a".toList (twoWorld none)).1 = .ok true := by decide
example : FaithfulIO (Overlay.exists_ twoLayers "/a".toList) :=
  (overlay_faithful twoLayers (by
    intro l hm
    simp only [twoLayers, List.mem_cons, List.mem_nil_iff, or_false] at hm
    rcases hm with rfl | rfl <;> exact faultLeaf_faithful _)).exists_ _

end Vfs.C20
