/-
  C13 — `move_dir` WITHIN one physical filesystem (same leaf, same `Arc` identity) never returns
  the out-of-fuel / panic sentinel, for EVERY fuel (0 included). Closes the open statement
  `phys_move_dir_same_stmt` of Props/C13Phys.lean.

  WHAT THE MODEL (AND THE RUST CODE) DOES. `PhysicalFS::move_dir` (impls/physical.rs) maps EVERY
  failure of `std::fs::rename` to `NotSupported` ("possibly different filesystems"), so — contrary
  to the paper argument that the fast path "answers Ok or an error other than NotSupported" — the
  generic fallback of `VfsPath::move_dir` (create_dir destination; walk_dir source; copy loop;
  remove_dir_all) IS entered whenever `rename` fails. What is proved is that in that case the
  fallback fails BEFORE its fuel-consuming loop:
    - `rename` fails, the destination does not `exists()`, and `create_dir(destination)` succeeds
      only if the source is ABSENT from a well-formed tree (`Phys.rename_fail_absent`);
    - `create_dir` adds exactly the key `D ≠ S`, so the source is still absent and `walk_dir`
      (= `read_dir` of the source) answers an error (`ENOENT`/`ENOTDIR`).

  PROVED
   * `Phys.rename_fail_state`   : a failing `rename` leaves the map as it is.
   * `Phys.rename_fail_absent`  : characterisation of the NotSupported case that survives
       `create_dir`: WF tree, `lookup D = Ok none`, `D` not at or below `S`, `rename` not Ok
       ⟹ `S` is absent.
   * `phys_moveDir_fast`        : how the trait method `move_dir` runs on a physical leaf.
   * `phys_move_dir_outcome_same`: the outcome is `Ok` (exactly when `rename` is Ok: then the world
       is the renamed tree) or an error — three cases spelled out.
   * `phys_move_dir_terminates_same`: never `.panic`, any fuel, any `S`, `D` with
       `under S D = false` (source a directory, a file, absent, below a file; destination existing,
       absent, with missing parent).
   * `phys_move_dir_same_holds : phys_move_dir_same_stmt` — the statement as written is TRUE.
   * necessity of `under S D = false` for the "any fuel" form: kernel-checked witnesses with fuel 0
       (`D = S` absent: the fallback creates the source itself and enters the loop;
        `D` inside the directory `S`: `rename` answers EINVAL, the fallback enters the loop).
   * non-vacuity on the world `wP` of C13Phys (`decide`), outcomes evaluated by the kernel.

  HYPOTHESES: `PhysLeafAt w i ms`, `WF ms` (every key has a directory parent), `under S D = false`.
  No hypothesis on key uniqueness, canonicity, fuel.

  NOT PROVED
   * `under S D = true` (destination at or below the source): there the fallback loop runs; with
     enough fuel the behaviour is that of `copy_dir` into its own subtree (not treated here; only
     the fuel-0 witnesses above).
   * same leaf with DIFFERENT `Arc` identities (unchanged from C13Phys).
-/
import VfsModel.Props.C02Composite
set_option linter.unusedVariables false
set_option linter.unusedSectionVars false
set_option linter.unusedSimpArgs false
namespace Vfs.C13
open Vfs.Wk (mk)

/-! ## 1. `std::fs::rename` in the model -/

theorem Phys.rename_ok_or_same (m : FMap) (s d : Str) :
    (Phys.rename m s d).1 = .ok () ∨ (Phys.rename m s d).2 = m := by
  unfold Phys.rename
  repeat' split
  all_goals first | exact Or.inr rfl | exact Or.inl rfl

/-- a failing `rename` does not touch the map -/
theorem Phys.rename_fail_state (m : FMap) (s d : Str) (h : (Phys.rename m s d).1 ≠ .ok ()) :
    (Phys.rename m s d).2 = m :=
  (Phys.rename_ok_or_same m s d).resolve_left h

/-- `walk_dir` of an absent source answers an error -/
theorem phys_walkDir_absent {w2 : World} {i : Nat} {m : FMap} (h2 : PhysLeafAt w2 i m) (id : Nat)
    (S : Str) (hs : m.find? S = none) :
    ∃ k, VPath.walkDir (mk i id S) w2 = (.err k (some S), w2) := by
  obtain ⟨k, pth, hr⟩ := Phys.readDir_absent m S hs
  exact ⟨k, (WkG.collect_readDir_err 0 (mk i id S) w2 w2 k pth (by
    show (leafFS i).readDir S w2 = _
    rw [prun_readDir h2 S, hr])).1⟩

/-- **the NotSupported case that survives `create_dir`**: on a well-formed tree, if the destination
is absent and resolvable (which is what a successful `create_dir` says), is not at or below the
source, and `rename` still fails, then the source is absent -/
theorem Phys.rename_fail_absent {m : FMap} (hwf : WF m) (S D : Str)
    (hl : Phys.lookup m D = .ok none) (hout : under S D = false)
    (hne : (Phys.rename m S D).1 ≠ .ok ()) : m.find? S = none := by
  cases hs : m.find? S with
  | none => rfl
  | some e =>
    exfalso
    obtain ⟨_, hres⟩ := Phys.lookup_none_find hl
    have hnp : (S ++ ['/']).isPrefixOf D = false := by
      unfold under at hout
      simp only [Bool.or_eq_false_iff] at hout
      exact hout.2
    apply hne
    simp [Phys.rename, hwf.resolve_present S e hs, hres, hwf.lookup_present S e hs, hl, hnp]

/-! ## 2. the trait method and the path-level `move_dir` -/

section same
variable {w : World} {i : Nat} {ms : FMap} (hi : PhysLeafAt w i ms)
include hi

/-- the trait method `move_dir` of a physical leaf: `Ok` with the renamed tree when `rename` is
`Ok`, otherwise `NotSupported` (whatever the reason) and nothing changed -/
theorem phys_moveDir_fast (S D : Str) :
    ((Phys.rename ms S D).1 = .ok () ∧
      (leafFS i).moveDir S D w = (.ok (), w.setLeafFiles i (Phys.rename ms S D).2)) ∨
    ((Phys.rename ms S D).1 ≠ .ok () ∧
      (leafFS i).moveDir S D w = (.err .notSupported none, w)) := by
  have hrun : (leafFS i).moveDir S D w = _ := run_onLeaf_phys hi _
  by_cases hok : (Phys.rename ms S D).1 = .ok ()
  · left
    refine ⟨hok, ?_⟩
    rw [hrun]
    rcases hr : Phys.rename ms S D with ⟨r, f⟩
    rw [hr] at hok
    simp only at hok
    subst hok
    rfl
  · right
    refine ⟨hok, ?_⟩
    have hst := Phys.rename_fail_state ms S D hok
    rw [hrun]
    rcases hr : Phys.rename ms S D with ⟨r, f⟩
    rw [hr] at hok hst
    simp only at hok hst
    subst hst
    cases r with
    | ok u => exact absurd rfl hok
    | err k p => simp [fail, World.setLeafFiles_self w i _ hi]
    | panic => simp [fail, World.setLeafFiles_self w i _ hi]

/-- **outcome of `move_dir` within one physical filesystem**, any fuel: `Ok` with the renamed tree
exactly when `rename` succeeds (and the destination does not exist), otherwise an error -/
theorem phys_move_dir_outcome_same (hwf : WF ms) (id fuel : Nat) (S D : Str)
    (hout : under S D = false) :
    (Phys.exists_ ms D = false ∧ (Phys.rename ms S D).1 = .ok () ∧
      VPath.moveDir fuel (mk i id S) (mk i id D) w =
        (.ok (), w.setLeafFiles i (Phys.rename ms S D).2)) ∨
    ((Phys.exists_ ms D = true ∨ (Phys.rename ms S D).1 ≠ .ok ()) ∧
      ∃ k p w', VPath.moveDir fuel (mk i id S) (mk i id D) w = (.err k p, w')) := by
  have hex : VPath.exists_ (mk i id D) w = (.ok (Phys.exists_ ms D), w) := run_exists_phys hi D
  cases hE : Phys.exists_ ms D with
  | true =>
    right
    refine ⟨Or.inl rfl, ?_⟩
    rw [hE] at hex
    unfold VPath.moveDir
    simp [M.withPath, bind, M.bind, hex, M.failAt, Res.withPath]
  | false =>
    rw [hE] at hex
    have hex' : VPath.exists_ { fs := leafFS i, fsId := id, path := D } w = (.ok false, w) := hex
    show (false = false ∧ (Phys.rename ms S D).1 = .ok () ∧
      VPath.moveDir fuel { fs := leafFS i, fsId := id, path := S }
        { fs := leafFS i, fsId := id, path := D } w =
        (.ok (), w.setLeafFiles i (Phys.rename ms S D).2)) ∨
      ((false = true ∨ (Phys.rename ms S D).1 ≠ .ok ()) ∧
      ∃ k p w', VPath.moveDir fuel { fs := leafFS i, fsId := id, path := S }
        { fs := leafFS i, fsId := id, path := D } w = (.err k p, w'))
    rcases phys_moveDir_fast hi S D with ⟨hok, hfast⟩ | ⟨hne, hfast⟩
    · left
      refine ⟨rfl, hok, ?_⟩
      unfold VPath.moveDir
      simp [M.withPath, bind, M.bind, hex', M.attempt, hfast, pure, M.pure, Res.withPath]
    · right
      refine ⟨Or.inr hne, ?_⟩
      have hin : i < w.leaves.length :=
        leaf_lt_of_some (by unfold PhysLeafAt at hi; rw [hi]; simp)
      have hnp := (VPath.np_createDir (mk i id D) (leaf_no_panic_len hin)).np w rfl
      rcases hc : VPath.createDir (mk i id D) w with ⟨r, w2⟩
      rw [hc] at hnp
      have hc' : VPath.createDir { fs := leafFS i, fsId := id, path := D } w = (r, w2) := hc
      cases r with
      | panic => exact absurd rfl hnp
      | err k p =>
        refine ⟨k, some S, w2, ?_⟩
        unfold VPath.moveDir
        simp [M.withPath, bind, M.bind, hex', M.attempt, hfast, pure, M.pure, Res.withPath, hc',
          M.ret]
      | ok u =>
        obtain ⟨hl, hw2⟩ := phys_vcreateDir_ok hi id D hc
        have hsabs : ms.find? S = none := Phys.rename_fail_absent hwf S D hl hout hne
        have hSD : S ≠ D := by
          rintro rfl
          rw [under_self] at hout
          cases hout
        have h2 : PhysLeafAt w2 i (ms.insert D dirEntryNow) := by rw [hw2]; exact hi.set _
        have hs2 : (ms.insert D dirEntryNow).find? S = none := by
          rw [FMap.find?_insert_ne _ _ _ _ hSD]; exact hsabs
        obtain ⟨k, hwalk⟩ := phys_walkDir_absent h2 id S hs2
        have hwalk' : VPath.walkDir { fs := leafFS i, fsId := id, path := S } w2 =
            (.err k (some S), w2) := hwalk
        refine ⟨k, some S, w2, ?_⟩
        unfold VPath.moveDir
        simp [M.withPath, bind, M.bind, hex', M.attempt, hfast, pure, M.pure, Res.withPath, hc',
          hwalk', M.ret]

/-- **C13, `move_dir` within one physical filesystem**: never the sentinel — for every fuel (0
included), every source string and every destination string not at or below the source -/
theorem phys_move_dir_terminates_same (hwf : WF ms) (id fuel : Nat) (S D : Str)
    (hout : under S D = false) :
    (VPath.moveDir fuel (mk i id S) (mk i id D) w).1 ≠ .panic := by
  rcases phys_move_dir_outcome_same hi hwf id fuel S D hout with ⟨_, _, h⟩ | ⟨_, k, p, w', h⟩ <;>
    rw [h] <;> simp

end same

/-- the open statement of Props/C13Phys.lean holds as written -/
theorem phys_move_dir_same_holds : phys_move_dir_same_stmt := by
  intro w i ms id fuel S D hi hwf hout
  exact phys_move_dir_terminates_same hi hwf id fuel S D hout

/-! ## 3. non-vacuity and exactness on the world `wP` of C13Phys -/

/-- the hypotheses hold on `wP` (leaf 0 = the physical tree `C11.mN`): a directory moved to a fresh
sibling, with fuel 0 — by the theorem -/
example : (VPath.moveDir 0 (mk 0 7 "/r/a".toList) (mk 0 7 "/r/a2".toList) wP).1 ≠ .panic :=
  phys_move_dir_terminates_same wP_leaf0 C11.mN_wf 7 0 _ _ (by decide)
example : phys_move_dir_same_stmt := phys_move_dir_same_holds
/-- kernel: the directory move is `Ok` with fuel 0 (the fast path), and so is a file as source -/
example : (VPath.moveDir 0 (mk 0 7 "/r/a".toList) (mk 0 7 "/r/a2".toList) wP).1 = .ok () := by
  decide +kernel
example : (VPath.moveDir 0 (mk 0 7 "/r/ab".toList) (mk 0 7 "/r/zz".toList) wP).1 = .ok () := by
  decide +kernel
/-- kernel: `rename` fails (absent source) ⟹ NotSupported ⟹ fallback: `create_dir` succeeds,
`walk_dir` of the source answers `ENOENT` — an error with fuel 0, not the sentinel; note the
destination directory has been created -/
example : (VPath.moveDir 0 (mk 0 7 "/nope".toList) (mk 0 7 "/r/zz".toList) wP).1 =
    .err .fileNotFound (some "/nope".toList) := by decide +kernel
example : ((VPath.moveDir 0 (mk 0 7 "/nope".toList) (mk 0 7 "/r/zz".toList) wP).2.leaf? 0).map
    (fun l => (l.files.find? "/r/zz".toList).isSome) = some true := by decide +kernel
/-- kernel: destination with a missing parent: `create_dir` fails; existing destination: refused -/
example : (VPath.moveDir 0 (mk 0 7 "/r/a".toList) (mk 0 7 "/q/zz".toList) wP).1 ≠ .panic ∧
    (VPath.moveDir 0 (mk 0 7 "/r/a".toList) (mk 0 7 "/q/zz".toList) wP).1 ≠ .ok () := by
  decide +kernel
example : (VPath.moveDir 0 (mk 0 7 "/r/a".toList) (mk 0 7 "/r/ab".toList) wP).1 =
    .err .other (some "/r/a".toList) := by decide +kernel
/-- the hypothesis `under S D = false` is NECESSARY for the any-fuel form. (a) `D = S`, absent: the
fallback creates the source itself, the walk succeeds, the loop starts: sentinel with fuel 0 -/
example : (VPath.moveDir 0 (mk 0 7 "/r/zz".toList) (mk 0 7 "/r/zz".toList) wP).1 = .panic := by
  decide +kernel
/-- (b) destination inside the source directory: `rename` answers EINVAL, mapped to NotSupported,
the fallback enters its loop: sentinel with fuel 0 -/
example : (VPath.moveDir 0 (mk 0 7 "/r/a".toList) (mk 0 7 "/r/a/zz".toList) wP).1 = .panic := by
  decide +kernel

#print axioms Phys.rename_fail_absent
#print axioms phys_move_dir_outcome_same
#print axioms phys_move_dir_terminates_same
#print axioms phys_move_dir_same_holds

end Vfs.C13
