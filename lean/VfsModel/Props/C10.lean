/-
  C10 — What is removed through the overlay stays absent until it is re-created; the markers
  never appear as entries.

  Setting and notation as in Props/C09.lean: `OW w u l mu ml` (two memory leaves `u ≠ l`, upper
  map `mu`, lower map `ml`), the overlay `Overlay.fs (layers2 u l idu idl)`, canonical paths
  `p = renderC (ds ++ [n])`, `marker p = "/.whiteout" ++ p ++ "_wo"`, the union view `view`.

  PROVED (no sorry, no axiom):
  * `removed_file_absent`      after a successful `remove_file(p)`: only the upper leaf changed
                               (the lower leaf still holds `ml`), the upper map holds `marker p`
                               (an empty file), `view p = none`, `exists` is false, `metadata` and
                               `open_file` fail with not-found. `removed_dir_absent`: the same for
                               `remove_dir`. `removeFile_succeeds` / `pRemoveFile_result`:
                               sufficient conditions for the success, and the resulting upper map.
  * `removed_stays_absent_frame` (= `marker_hides`): while `marker p` is in the upper map, `p` is
    absent from the view, whatever else changed in either map; `marker_inj`;
    `clearWhiteout_only_erases_marker`; and which operations keep a marker:
    `marker_survives_createDir / createFile / removeFile / removeDir / write_session / openFile`
    — every such overlay call at a path `q ≠ p` (for the removals: `q ≠ marker p`, i.e. not
    reaching into the reserved ".whiteout" namespace) keeps `marker p`; `removed_stays_absent`
    puts it together for `exists`.
  * `recreated_file_fresh`     on a state where `p` is marked (marker a file, nothing at `p` in
                               the upper layer, whatever the lower layer holds): the write session
                               `create_file(p)?.write_all(bs)` succeeds, removes the marker, and
                               `view p` is a file holding exactly `bs`.
    `remove_then_recreate_fresh`  the composition from an ARBITRARY state in which `p` is a file
                               of the view: `remove_file(p)`, then the write session — the view
                               serves exactly `bs`.
  * `recreated_dir_empty`      on a state where `p` is marked and every child of `p` that the
                               lower layer holds is marked too (any number of children):
                               `create_dir(p)` succeeds, `p` is a directory of the view again and
                               `read_dir(p) = []`.
  * `markers_invisible`        whatever `read_dir` returns: never ".whiteout" at the root, and
                               never a name whose marker exists. `wo_names_can_appear`: a name
                               `y_wo` IS listed in a non-root directory when a layer really holds
                               such an entry (reserved names are outside the property).
  * non-vacuity (`decide`, section `concrete`, on the world of C09): remove_file then exists
    false / listing empty / ".whiteout" not listed / lower layer untouched; unrelated create_dir
    later: still absent; re-created file holds the fresh byte; remove_dir + create_dir gives an
    empty directory; and the OPEN known finding `remove_file_on_lower_dir_orphans`:
    `remove_file("/d")` on a lower-layer DIRECTORY succeeds, afterwards `view "/d" = none` but
    `view "/d/x" ≠ none` and "/d/x" is still readable (the Rust code does exactly this).

  Hypotheses excluding reserved names (each one corresponds to a real quirk of the code):
  `(ds ++ [n]).head? ≠ some woDir` (paths inside "/.whiteout"), `ds.head? ≠ some woSuffix` (a
  top-level directory called "_wo": removing below it creates "/.whiteout/_wo", the root marker),
  `hwoarea` (no FILE where the bookkeeping needs a directory).

  STATED, NOT PROVED (as `def … : Prop`):
  * `marker_survives_appendFile_stmt` — the frame lemma for `append_file(q)`, `q ≠ p`;
  * `recreated_dir_empty_composed_stmt` — the composition remove child, remove dir, create dir
    from an arbitrary state (the three steps are proved separately: `removed_file_absent`,
    `removed_dir_absent`, `recreated_dir_empty`; the composition is checked on the concrete world).
-/
import VfsModel.Props.C09
set_option linter.unusedSimpArgs false
set_option linter.unusedVariables false
namespace Vfs.C10
open Vfs Vfs.Overlay

/-! ### map-level facts -/

/-- a marker, once set, hides the path — whatever else the two maps contain -/
theorem marker_hides (mu' ml' : FMap) (p : Str) (hm : mu'.contains (marker p) = true) :
    view mu' ml' p = none := view_marked hm

theorem marker_inj (p q : Str) (h : marker p = marker q) : p = q := marker_injective p q h

/-- `clearWhiteout q` (the only code that removes a marker) erases nothing but `marker q` -/
theorem clearWhiteout_only_erases_marker {w : World} {u l idu idl : Nat} {mu ml : FMap}
    (h : OW w u l mu ml) (cs : List Str) (hne : cs ≠ []) (hcs : ∀ c ∈ cs, GoodComp c) :
    ∃ r mu', clearWhiteout (layers2 u l idu idl) (renderC cs) w = (r, w.setLeafFiles u mu') ∧
      ∀ k, k ≠ marker (renderC cs) → mu'.find? k = mu.find? k :=
  ⟨_, _, run_clearWhiteout h cs hne hcs, fun k hk => pClear_frame mu _ k hk⟩

theorem pRemoveFile_file (m : FMap) (k : Str) (e : Entry) (hf : m.find? k = some e)
    (hfile : e.ftype = .file) : Mem.pRemoveFile m k = (.ok (), m.erase k) := by
  unfold Mem.pRemoveFile Mem.removeFile
  simp [hf, hfile, Res.withPath]

theorem pCreateDir_fresh (m : FMap) (k : Str) (hpar : Mem.parentOk m k = true) (hs : '/' ∈ k)
    (hf : m.find? k = none) : Mem.pCreateDir m k = (.ok (), m.insert k dirEntryNow) := by
  obtain ⟨pe, hpe, hpd⟩ := Mem.parentOk_spec m k hpar
  unfold Mem.pCreateDir Mem.createDir Mem.ensureHasParent
  simp [hpar, hs, hpe, hpd, hf, Res.withPath]

theorem renderC_not_in_chain (xs ds : List Str) (hx : ∀ c ∈ xs, '/' ∉ c)
    (hds : ∀ c ∈ ds, '/' ∉ c) (hlen : ds.length < xs.length) : renderC xs ∉ chain [] ds := by
  intro hk
  obtain ⟨j, h1, h2, he⟩ := (mem_chain [] ds _).1 hk
  simp only [List.nil_append] at he
  have := C06.renderC_injective xs (ds.take j) hx
    (fun c hc => hds c (List.mem_of_mem_take hc)) he
  have hl := congrArg List.length this
  simp at hl
  omega

/-- the marker of `ds/n` can be written as soon as the directories "/.whiteout/<ds>" are absent
or directories and the marker itself is absent; the resulting map -/
theorem pAddWhiteout_result (m : FMap) (ds : List Str) (n : Str)
    (hds : ∀ c ∈ ds, GoodComp c) (hn : GoodComp n)
    (hrootdir : ∃ e, m.find? [] = some e ∧ e.ftype = .dir)
    (hdirs : ∀ k ∈ chain [] (woDir :: ds), ∀ e, m.find? k = some e → e.ftype = .dir)
    (hnm : m.find? (marker (renderC (ds ++ [n]))) = none) :
    pAddWhiteout m (ds ++ [n]) =
      (.ok (), memPublish ((fillDirs m (chain [] (woDir :: ds))).insert
        (marker (renderC (ds ++ [n]))) fileEntryNow) (marker (renderC (ds ++ [n]))) []) := by
  have hds' : ∀ c ∈ woDir :: ds, GoodComp c := by
    intro c hc
    rcases List.mem_cons.1 hc with rfl | hc
    · exact goodComp_woDir
    · exact hds c hc
  have hn' := goodComp_wo hn
  obtain ⟨e0, he0, hd0⟩ := hrootdir
  have hmk := mkdirs_chain m [] (woDir :: ds) (by simp) (good_noSlash hds')
    ⟨e0, he0, hd0⟩ hdirs
  have hmr : marker (renderC (ds ++ [n])) = renderC ((woDir :: ds) ++ [n ++ woSuffix]) :=
    marker_renderC ds n
  have hpar := parentOk_fillDirs_gen (n := n ++ woSuffix) ⟨e0, he0, hd0⟩ hds' hn' hdirs
  have hfind := find?_snoc_fillDirs (mu := m) hds' hn' [] (Or.inl rfl)
  simp only [List.append_nil] at hfind
  rw [← hmr] at hpar hfind
  have hcreate := Mem.createFile_fresh (fillDirs m (chain [] (woDir :: ds)))
    (marker (renderC (ds ++ [n]))) (by rw [hmr]; exact slash_mem_renderC (by simp))
    hpar (by rw [hfind]; exact hnm)
  unfold pAddWhiteout
  rw [List.dropLast_concat, hmk]
  simp only [andThen, Mem.pTouch, hpar, if_true, hcreate]

theorem pAddWhiteout_succeeds (m : FMap) (ds : List Str) (n : Str)
    (hds : ∀ c ∈ ds, GoodComp c) (hn : GoodComp n)
    (hrootdir : ∃ e, m.find? [] = some e ∧ e.ftype = .dir)
    (hdirs : ∀ k ∈ chain [] (woDir :: ds), ∀ e, m.find? k = some e → e.ftype = .dir)
    (hnm : m.find? (marker (renderC (ds ++ [n]))) = none) :
    (pAddWhiteout m (ds ++ [n])).1 = .ok () := by
  rw [pAddWhiteout_result m ds n hds hn hrootdir hdirs hnm]

/-- a canonical path in the chain of "/.whiteout/<ds>" starts with ".whiteout" -/
theorem chain_wo_head (xs ds : List Str) (hx : ∀ c ∈ xs, '/' ∉ c) (hds : ∀ c ∈ ds, '/' ∉ c)
    (h : renderC xs ∈ chain [] (woDir :: ds)) : xs.head? = some woDir := by
  obtain ⟨i, h1, h2, he⟩ := (mem_chain [] (woDir :: ds) _).1 h
  simp only [List.nil_append] at he
  have := C06.renderC_injective xs ((woDir :: ds).take i) hx (by
    intro c hc
    rcases List.mem_cons.1 (List.mem_of_mem_take hc) with rfl | hc
    · exact goodComp_woDir.noSlash
    · exact hds c hc) he
  obtain ⟨i', rfl⟩ : ∃ i', i = i' + 1 := ⟨i - 1, by omega⟩
  rw [this]; simp

/-- the marker of an ancestor of `ds/n` is not one of the directories "/.whiteout/<ds>" -/
theorem marker_prefix_not_in_chain (ds : List Str) (hds : ∀ c ∈ ds, GoodComp c) (j : Nat)
    (h1 : 1 ≤ j) (h2 : j ≤ ds.length) :
    marker (renderC (ds.take j)) ∉ chain [] (woDir :: ds) := by
  intro hk
  rcases List.eq_nil_or_concat (ds.take j) with hnil | ⟨ys, y, hy⟩
  · have := congrArg List.length hnil
    rw [List.length_take, List.length_nil] at this; omega
  · rw [List.concat_eq_append] at hy
    have hgood : ∀ c ∈ ys ++ [y], GoodComp c := by
      intro c hc; rw [← hy] at hc; exact hds c (List.mem_of_mem_take hc)
    obtain ⟨hys, hyg⟩ := good_of_snoc hgood
    rw [hy, marker_renderC] at hk
    obtain ⟨i, hi1, hi2, he⟩ := (mem_chain [] (woDir :: ds) _).1 hk
    simp only [List.nil_append] at he
    have heq := C06.renderC_injective _ _ (good_noSlash (good_markerComps hys hyg)) (by
      intro c hc
      rcases List.mem_cons.1 (List.mem_of_mem_take hc) with rfl | hc
      · exact goodComp_woDir.noSlash
      · exact (hds c hc).noSlash) he
    obtain ⟨i', rfl⟩ : ∃ i', i = i' + 1 := ⟨i - 1, by omega⟩
    simp only [List.take_succ_cons, List.cons.injEq, true_and] at heq
    -- two prefixes of `ds` of the same length
    have hp1 : ys ++ [y ++ woSuffix] <+: ds := by rw [heq]; exact List.take_prefix _ _
    have hp2 : ys ++ [y] <+: ds := by rw [← hy]; exact List.take_prefix _ _
    have hle : (ys ++ [y ++ woSuffix]).length ≤ (ys ++ [y]).length := by simp
    have hpp := List.prefix_of_prefix_length_le hp1 hp2 hle
    have := hpp.eq_of_length (by simp)
    have h3 := List.append_cancel_left this
    simp at h3
    have := congrArg List.length h3
    simp [woSuffix] at this

theorem marker_ne_self (ds : List Str) (n : Str) :
    marker (renderC (ds ++ [n])) ≠ renderC (ds ++ [n]) := by
  intro heq
  have := congrArg List.length heq
  simp [marker, woDir, woSuffix] at this
  omega

/-- `remove_file(p)` on a file of the view, as a function of the maps: the resulting upper map
holds the marker (an empty file), nothing at `p`, and is otherwise unchanged outside the
directories "/.whiteout/<ds>" -/
theorem pRemoveFile_result (mu ml : FMap) (ds : List Str) (n : Str) (hds : ∀ c ∈ ds, GoodComp c)
    (hn : GoodComp n) (hroot : RootOk mu)
    (hwoarea : ∀ k ∈ chain [] (woDir :: ds), ∀ e, mu.find? k = some e → e.ftype = .dir)
    (hhead : (ds ++ [n]).head? ≠ some woDir)
    (e : Entry) (hv : view mu ml (renderC (ds ++ [n])) = some e) (hfile : e.ftype = .file) :
    ∃ mu', pRemoveFile mu ml (ds ++ [n]) = (.ok (), mu') ∧
      (∃ em, mu'.find? (marker (renderC (ds ++ [n]))) = some em ∧ em.ftype = .file) ∧
      mu'.find? (renderC (ds ++ [n])) = none ∧
      ∀ k, k ≠ renderC (ds ++ [n]) → k ≠ marker (renderC (ds ++ [n])) →
        k ∉ chain [] (woDir :: ds) → mu'.find? k = mu.find? k := by
  have hne : ds ++ [n] ≠ [] := by simp
  have hpne : renderC (ds ++ [n]) ≠ [] := renderC_ne_nil hne
  have hmne := marker_ne_self ds n
  have hpnc : renderC (ds ++ [n]) ∉ chain [] (woDir :: ds) := fun hk =>
    hhead (chain_wo_head _ _ (good_noSlash (good_snoc hds hn)) (good_noSlash hds) hk)
  obtain ⟨hm, hcase⟩ := view_some_cases hv
  have hnm : mu.find? (marker (renderC (ds ++ [n]))) = none := by
    unfold FMap.contains at hm
    cases hf : mu.find? (marker (renderC (ds ++ [n]))) <;> simp_all
  -- the upper map once `p` is out of it
  obtain ⟨m1, hstep, hm1⟩ : ∃ m1,
      (if mu.contains (renderC (ds ++ [n])) then Mem.pRemoveFile mu (renderC (ds ++ [n]))
        else (.ok (), mu)) = (.ok (), m1) ∧
      ∀ k, m1.find? k = if k = renderC (ds ++ [n]) then none else mu.find? k := by
    rcases hcase with hc | ⟨hc, _⟩
    · refine ⟨mu.erase (renderC (ds ++ [n])), ?_, fun k => FMap.find?_erase _ _ _⟩
      rw [if_pos (contains_of_find hc), pRemoveFile_file mu _ e hc hfile]
    · refine ⟨mu, ?_, ?_⟩
      · rw [contains_of_none hc]; rfl
      · intro k; split
        · rename_i hk; rw [hk]; exact hc
        · rfl
  have hres := pAddWhiteout_result m1 ds n hds hn
    (by obtain ⟨e0, he0, hd0⟩ := hroot.root
        exact ⟨e0, by rw [hm1, if_neg (fun h' => hpne h'.symm)]; exact he0, hd0⟩)
    (by intro k hk e' he'
        rw [hm1] at he'
        split at he'
        · cases he'
        · exact hwoarea k hk e' he')
    (by rw [hm1, if_neg hmne]; exact hnm)
  refine ⟨memPublish ((fillDirs m1 (chain [] (woDir :: ds))).insert
      (marker (renderC (ds ++ [n]))) fileEntryNow) (marker (renderC (ds ++ [n]))) [],
    ?_, ?_, ?_, ?_⟩
  · unfold pRemoveFile
    simp only [hv, hstep, andThen]
    exact hres
  · obtain ⟨em, h1, h2, _⟩ := find?_memPublish_self
      ((fillDirs m1 (chain [] (woDir :: ds))).insert (marker (renderC (ds ++ [n]))) fileEntryNow)
      (marker (renderC (ds ++ [n]))) [] fileEntryNow (FMap.find?_insert_self _ _ _) rfl
    exact ⟨em, h1, h2⟩
  · rw [find?_memPublish_ne _ _ _ _ hmne.symm, FMap.find?_insert_ne _ _ _ _ hmne.symm,
      find?_fillDirs_not_mem _ _ _ hpnc, hm1, if_pos rfl]
  · intro k hk1 hk2 hk3
    rw [find?_memPublish_ne _ _ _ _ hk2, FMap.find?_insert_ne _ _ _ _ hk2,
      find?_fillDirs_not_mem _ _ _ hk3, hm1, if_neg hk1]

section setting
variable {w : World} {u l idu idl : Nat} {mu ml : FMap} (h : OW w u l mu ml)
include h

/-! ### removal -/

/-- sufficient conditions for `remove_file(p)` to succeed: `p` is a file of the view and the
bookkeeping area "/.whiteout/<ds>" holds no file where a directory is needed -/
theorem removeFile_succeeds (ds : List Str) (n : Str) (hds : ∀ c ∈ ds, GoodComp c)
    (hn : GoodComp n) (hroot : RootOk mu)
    (hwoarea : ∀ k ∈ chain [] (woDir :: ds), ∀ e, mu.find? k = some e → e.ftype = .dir)
    (e : Entry) (hv : view mu ml (renderC (ds ++ [n])) = some e) (hfile : e.ftype = .file) :
    ((Overlay.fs (layers2 u l idu idl)).removeFile (renderC (ds ++ [n])) w).1 = .ok () := by
  have hcs := good_snoc hds hn
  have hne : ds ++ [n] ≠ [] := by simp
  have hpne : renderC (ds ++ [n]) ≠ [] := renderC_ne_nil hne
  show (Overlay.removeFile _ _ w).1 = _
  rw [run_oremoveFile h _ hne hcs]
  obtain ⟨hm, hc | ⟨hc, _⟩⟩ := view_some_cases hv
  · -- the upper layer has the file: it is erased first
    have hrm : Mem.pRemoveFile mu (renderC (ds ++ [n])) = (.ok (), mu.erase (renderC (ds ++ [n]))) :=
      pRemoveFile_file mu _ e hc hfile
    unfold pRemoveFile
    simp only [hv, contains_of_find hc, if_true, hrm, andThen]
    apply pAddWhiteout_succeeds _ ds n hds hn
    · obtain ⟨e0, he0, hd0⟩ := hroot.root
      exact ⟨e0, by rw [FMap.find?_erase_ne _ _ _ (fun h' => hpne h'.symm)]; exact he0, hd0⟩
    · intro k hk e' he'
      rw [FMap.find?_erase] at he'
      split at he'
      · cases he'
      · exact hwoarea k hk e' he'
    · rw [FMap.find?_erase]
      split
      · rfl
      · unfold FMap.contains at hm
        cases hf : mu.find? (marker (renderC (ds ++ [n]))) <;> simp_all
  · unfold pRemoveFile
    simp only [hv, contains_of_none hc, Bool.false_eq_true, if_false, andThen]
    apply pAddWhiteout_succeeds _ ds n hds hn hroot.root hwoarea
    unfold FMap.contains at hm
    cases hf : mu.find? (marker (renderC (ds ++ [n]))) <;> simp_all

/-- **a removed file is absent from every observation.** After a successful `remove_file(p)`:
only the upper leaf changed (the lower leaf still holds `ml`), the upper map holds the marker of
`p` as an empty file, the union view has nothing at `p`, and `exists` / `metadata` / `open_file`
through the overlay report absence. -/
theorem removed_file_absent (cs : List Str) (hne : cs ≠ []) (hcs : ∀ c ∈ cs, GoodComp c)
    (hres : ((Overlay.fs (layers2 u l idu idl)).removeFile (renderC cs) w).1 = .ok ()) :
    ∃ mu', (Overlay.fs (layers2 u l idu idl)).removeFile (renderC cs) w
        = (.ok (), w.setLeafFiles u mu') ∧
      OW (w.setLeafFiles u mu') u l mu' ml ∧
      (∃ em, mu'.find? (marker (renderC cs)) = some em ∧ em.ftype = .file ∧ em.content = []) ∧
      view mu' ml (renderC cs) = none ∧
      (Overlay.fs (layers2 u l idu idl)).exists_ (renderC cs) (w.setLeafFiles u mu')
        = (.ok false, w.setLeafFiles u mu') ∧
      (Overlay.fs (layers2 u l idu idl)).metadata (renderC cs) (w.setLeafFiles u mu')
        = (.err .fileNotFound none, w.setLeafFiles u mu') ∧
      (Overlay.fs (layers2 u l idu idl)).openFile (renderC cs) (w.setLeafFiles u mu')
        = (.err .fileNotFound none, w.setLeafFiles u mu') := by
  have hrun := run_oremoveFile (idu := idu) (idl := idl) h cs hne hcs
  change ((Overlay.removeFile _ _ w).1 = _) at hres
  rw [hrun] at hres
  simp only at hres
  have hpair : pRemoveFile mu ml cs = (.ok (), (pRemoveFile mu ml cs).2) := by
    rw [← hres]
  obtain ⟨em, hem, hf, hc⟩ := pRemoveFile_ok hpair
  have h' := h.setU (pRemoveFile mu ml cs).2
  have hview : view (pRemoveFile mu ml cs).2 ml (renderC cs) = none :=
    view_marked (contains_of_find hem)
  refine ⟨_, ?_, h', ⟨em, hem, hf, hc⟩, hview, ?_, ?_, ?_⟩
  · show Overlay.removeFile _ _ w = _
    rw [hrun, hres]
  · rw [C09.exists_is_view h' cs hne hcs, hview]; rfl
  · rw [C09.metadata_is_view h' cs hne hcs, hview]
  · exact C09.openFile_absent h' cs hne hcs hview

/-- the same for a removed directory (`remove_dir`; its listing was empty) -/
theorem removed_dir_absent (cs : List Str) (hne : cs ≠ []) (hcs : ∀ c ∈ cs, GoodComp c)
    (hwo : ∀ e, mu.find? (woDirOf (renderC cs)) = some e → e.ftype = .dir)
    (hres : ((Overlay.fs (layers2 u l idu idl)).removeDir (renderC cs) w).1 = .ok ()) :
    ∃ mu', (Overlay.fs (layers2 u l idu idl)).removeDir (renderC cs) w
        = (.ok (), w.setLeafFiles u mu') ∧
      OW (w.setLeafFiles u mu') u l mu' ml ∧
      view mu' ml (renderC cs) = none ∧
      (Overlay.fs (layers2 u l idu idl)).exists_ (renderC cs) (w.setLeafFiles u mu')
        = (.ok false, w.setLeafFiles u mu') := by
  have hrun := run_oremoveDir (idu := idu) (idl := idl) h cs hne hcs hwo
  change ((Overlay.removeDir _ _ w).1 = _) at hres
  rw [hrun] at hres
  simp only at hres
  have hpair : pRemoveDir mu ml cs = (.ok (), (pRemoveDir mu ml cs).2) := by
    rw [← hres]
  obtain ⟨em, hem, hf, hc⟩ := pRemoveDir_ok hpair
  have h' := h.setU (pRemoveDir mu ml cs).2
  have hview : view (pRemoveDir mu ml cs).2 ml (renderC cs) = none :=
    view_marked (contains_of_find hem)
  refine ⟨_, ?_, h', hview, ?_⟩
  · show Overlay.removeDir _ _ w = _
    rw [hrun, hres]
  · rw [C09.exists_is_view h' cs hne hcs, hview]; rfl

/-! ### the marker survives unrelated operations -/

omit h in
/-- the frame lemma on maps: while the marker of `p` is in the upper map, `p` is absent from
the view — whatever else changed in either map -/
theorem removed_stays_absent_frame (mu' ml' : FMap) (p : Str)
    (hkeep : mu'.contains (marker p) = true) : view mu' ml' p = none := marker_hides mu' ml' p hkeep

theorem marker_survives_createDir (p : Str) (hm : mu.contains (marker p) = true)
    (cs : List Str) (hne : cs ≠ []) (hcs : ∀ c ∈ cs, GoodComp c) (hq : renderC cs ≠ p) :
    ∃ r mu', (Overlay.fs (layers2 u l idu idl)).createDir (renderC cs) w
        = (r, w.setLeafFiles u mu') ∧ OW (w.setLeafFiles u mu') u l mu' ml ∧
      mu'.contains (marker p) = true :=
  ⟨_, _, run_ocreateDir h cs hne hcs, h.setU _,
    pCreateDir_keeps cs (fun he => hq (marker_injective _ _ he).symm) hm⟩

theorem marker_survives_createFile (p : Str) (hm : mu.contains (marker p) = true)
    (cs : List Str) (hne : cs ≠ []) (hcs : ∀ c ∈ cs, GoodComp c) (hq : renderC cs ≠ p) :
    ∃ r mu', (Overlay.fs (layers2 u l idu idl)).createFile (renderC cs) w
        = (r, w.setLeafFiles u mu') ∧ OW (w.setLeafFiles u mu') u l mu' ml ∧
      mu'.contains (marker p) = true :=
  ⟨_, _, run_ocreateFile h cs hne hcs, h.setU _,
    pCreateFile_keeps cs (fun he => hq (marker_injective _ _ he).symm) hm⟩

theorem marker_survives_removeFile (p : Str) (hm : mu.contains (marker p) = true)
    (cs : List Str) (hne : cs ≠ []) (hcs : ∀ c ∈ cs, GoodComp c)
    (hq : renderC cs ≠ marker p) :
    ∃ r mu', (Overlay.fs (layers2 u l idu idl)).removeFile (renderC cs) w
        = (r, w.setLeafFiles u mu') ∧ OW (w.setLeafFiles u mu') u l mu' ml ∧
      mu'.contains (marker p) = true :=
  ⟨_, _, run_oremoveFile h cs hne hcs, h.setU _, pRemoveFile_keeps cs (fun he => hq he.symm) hm⟩

theorem marker_survives_removeDir (p : Str) (hm : mu.contains (marker p) = true)
    (cs : List Str) (hne : cs ≠ []) (hcs : ∀ c ∈ cs, GoodComp c)
    (hwo : ∀ e, mu.find? (woDirOf (renderC cs)) = some e → e.ftype = .dir)
    (hq : renderC cs ≠ marker p) :
    ∃ r mu', (Overlay.fs (layers2 u l idu idl)).removeDir (renderC cs) w
        = (r, w.setLeafFiles u mu') ∧ OW (w.setLeafFiles u mu') u l mu' ml ∧
      mu'.contains (marker p) = true :=
  ⟨_, _, run_oremoveDir h cs hne hcs hwo, h.setU _, pRemoveDir_keeps cs (fun he => hq he.symm) hm⟩

/-- a completed write session on a handle of the upper leaf (as returned by the overlay's
`create_file` / `append_file`) keeps every key of the upper map -/
theorem marker_survives_write_session (p : Str) (hm : mu.contains (marker p) = true)
    (key : Str) (buf : Bytes) (pos : Nat) (bs : Bytes) :
    ∃ mu', WHandle.writeAllAndDrop
        { leaf := u, key := key, kind := .memFile, buf := buf, pos := pos } bs w
        = (.ok (), w.setLeafFiles u mu') ∧ OW (w.setLeafFiles u mu') u l mu' ml ∧
      mu'.contains (marker p) = true :=
  ⟨_, run_writeAllAndDrop h.hu key buf pos bs, h.setU _, memPublish_keeps _ _ hm⟩

/-- reading a file (the only observer that changes the world: the access-time stamp) keeps the
marker -/
theorem marker_survives_openFile (p : Str) (hm : mu.contains (marker p) = true)
    (cs : List Str) (hne : cs ≠ []) (hcs : ∀ c ∈ cs, GoodComp c) :
    ∃ r w' mu' ml', (Overlay.fs (layers2 u l idu idl)).openFile (renderC cs) w = (r, w') ∧
      OW w' u l mu' ml' ∧ mu'.contains (marker p) = true := by
  rw [C09.openFile_run h cs hne hcs]
  have hopen_keeps : (Mem.openFile mu (renderC cs)).2.contains (marker p) = true := by
    rcases Option.eq_none_or_eq_some (mu.find? (renderC cs)) with hf | ⟨e, hf⟩
    · rw [Mem.openFile_none mu _ hf]; exact hm
    · rw [Mem.openFile_some mu _ e hf]; exact contains_insert_of_contains hm
  by_cases h0 : mu.contains (marker (renderC cs)) = true
  · exact ⟨_, _, mu, ml, by rw [if_pos h0], h, hm⟩
  · by_cases h1 : mu.contains (renderC cs) = true
    · exact ⟨_, _, _, ml, by rw [if_neg h0, if_pos h1], h.setU _, hopen_keeps⟩
    · by_cases h2 : ml.contains (renderC cs) = true
      · exact ⟨_, _, mu, _, by rw [if_neg h0, if_neg h1, if_pos h2], h.setL _, hm⟩
      · exact ⟨_, _, mu, ml, by rw [if_neg h0, if_neg h1, if_neg h2], h, hm⟩

/-- **removed stays absent**: e.g. after any `create_dir(q)`, `q ≠ p`, the removed path `p` is
still absent from the view and `exists(p)` is still false -/
theorem removed_stays_absent (ps : List Str) (hpne : ps ≠ []) (hps : ∀ c ∈ ps, GoodComp c)
    (hm : mu.contains (marker (renderC ps)) = true)
    (cs : List Str) (hne : cs ≠ []) (hcs : ∀ c ∈ cs, GoodComp c) (hq : renderC cs ≠ renderC ps) :
    ∃ r mu', (Overlay.fs (layers2 u l idu idl)).createDir (renderC cs) w
        = (r, w.setLeafFiles u mu') ∧
      view mu' ml (renderC ps) = none ∧
      (Overlay.fs (layers2 u l idu idl)).exists_ (renderC ps) (w.setLeafFiles u mu')
        = (.ok false, w.setLeafFiles u mu') := by
  obtain ⟨r, mu', hrun, h', hk⟩ := marker_survives_createDir (idu := idu) (idl := idl) h _ hm cs
    hne hcs hq
  have hv := marker_hides mu' ml _ hk
  exact ⟨r, mu', hrun, hv, by rw [C09.exists_is_view h' ps hpne hps, hv]; rfl⟩

/-! ### re-creation -/

/-- **a re-created file holds only the newly written bytes.** `p` is marked as deleted (its
marker is a file of the upper layer, the upper layer has nothing at `p`; the lower layer may
still hold the old file): one write session `create_file(p)?.write_all(bs)` succeeds, removes
the marker, and afterwards the view serves `p` as a file with content exactly `bs`. -/
theorem recreated_file_fresh (ds : List Str) (n : Str) (hds : ∀ c ∈ ds, GoodComp c)
    (hn : GoodComp n) (hroot : RootOk mu) (hanc : AncDirs mu ml ds)
    (hhead : ds.head? ≠ some woDir) (em : Entry) (bs : Bytes)
    (hmk : mu.find? (marker (renderC (ds ++ [n]))) = some em) (hmf : em.ftype = .file)
    (hup : mu.find? (renderC (ds ++ [n])) = none) :
    ∃ w' mu' e',
      (do let hd ← (Overlay.fs (layers2 u l idu idl)).createFile (renderC (ds ++ [n]))
          hd.writeAllAndDrop bs : M Unit) w = (.ok (), w') ∧
      OW w' u l mu' ml ∧ mu'.contains (marker (renderC (ds ++ [n]))) = false ∧
      view mu' ml (renderC (ds ++ [n])) = some e' ∧ e'.ftype = .file ∧ e'.content = bs := by
  have hcs := good_snoc hds hn
  have hne : ds ++ [n] ≠ [] := by simp
  have hE : pEnsure mu ml (ds ++ [n]).dropLast = (.ok (), fillDirs mu (chain [] ds)) := by
    rw [List.dropLast_concat]; exact pEnsure_ok hroot hds hanc
  have hp0 := find?_snoc_fillDirs (mu := mu) hds hn [] (Or.inl rfl)
  simp only [List.append_nil] at hp0
  have hne' : marker (renderC (ds ++ [n])) ≠ renderC (ds ++ [n]) := by
    intro heq
    have := congrArg List.length heq
    simp [marker, woDir, woSuffix] at this
    omega
  -- after ensure_has_parent the marker is still there
  have hm1 : (fillDirs mu (chain [] ds)).find? (marker (renderC (ds ++ [n]))) = some em := by
    rw [find?_fillDirs, hmk]; rfl
  have hrefuse : pRefuse (fillDirs mu (chain [] ds)) ml (renderC (ds ++ [n])) = .ok () := by
    unfold pRefuse; rw [view_marked (contains_of_find hm1)]
  have hpar := parentOk_fillDirs (n := n) hroot hds hn hanc
  have hopen : Mem.pOpenW (fillDirs mu (chain [] ds)) (renderC (ds ++ [n])) =
      (.ok (), (fillDirs mu (chain [] ds)).insert (renderC (ds ++ [n])) fileEntryNow) := by
    unfold Mem.pOpenW
    rw [if_pos hpar, Mem.createFile_fresh _ _ (slash_mem_renderC hne) hpar
      (by rw [hp0]; exact hup)]
    rfl
  have hm2 : ((fillDirs mu (chain [] ds)).insert (renderC (ds ++ [n])) fileEntryNow).find?
      (marker (renderC (ds ++ [n]))) = some em := by
    rw [FMap.find?_insert_ne _ _ _ _ hne']; exact hm1
  have hclear : pClear ((fillDirs mu (chain [] ds)).insert (renderC (ds ++ [n])) fileEntryNow)
      (renderC (ds ++ [n])) =
      (.ok (), ((fillDirs mu (chain [] ds)).insert (renderC (ds ++ [n])) fileEntryNow).erase
        (marker (renderC (ds ++ [n])))) := by
    unfold pClear
    rw [if_pos (contains_of_find hm2), pRemoveFile_file _ _ em hm2 hmf]
  have hpure : pCreateFile mu ml (ds ++ [n]) =
      (.ok (), ((fillDirs mu (chain [] ds)).insert (renderC (ds ++ [n])) fileEntryNow).erase
        (marker (renderC (ds ++ [n])))) := by
    unfold pCreateFile
    rw [hE]
    simp only [andThen, hrefuse, hopen, hclear]
  have h3 := h.setU (pCreateFile mu ml (ds ++ [n])).2
  -- the file just created by `create_file` sits at the key, so the session publishes
  have hcreated : (pCreateFile mu ml (ds ++ [n])).2.find? (renderC (ds ++ [n])) =
      some fileEntryNow := by
    rw [hpure]
    show (FMap.erase _ _).find? _ = _
    rw [FMap.find?_erase_ne _ _ _ hne'.symm, FMap.find?_insert_self]
  obtain ⟨e', he', hft, hct⟩ := find?_memPublish_self (pCreateFile mu ml (ds ++ [n])).2
    (renderC (ds ++ [n])) (cursorWrite [] 0 bs) fileEntryNow hcreated rfl
  have hgone : (memPublish (pCreateFile mu ml (ds ++ [n])).2 (renderC (ds ++ [n]))
      (cursorWrite [] 0 bs)).contains (marker (renderC (ds ++ [n]))) = false := by
    unfold FMap.contains
    rw [find?_memPublish_ne _ _ _ _ hne', hpure]
    simp
  refine ⟨_, _, e', ?_, h3.setU _, hgone, view_upper hgone he', hft, by rw [hct, cursorWrite_nil]⟩
  show (do let hd ← Overlay.createFile _ _; hd.writeAllAndDrop bs : M Unit) w = _
  simp only [bind, M.bind, run_ocreateFile h _ hne hcs]
  rw [hpure] at h3 ⊢
  simp only [Res.map, run_writeAllAndDrop h3.hu, World.setLeafFiles_twice]

omit h in
theorem take_head_ne {ds : List Str} {j : Nat} (h1 : 1 ≤ j) (hd : ds.head? ≠ some woDir) :
    (ds.take j).head? ≠ some woDir := by
  cases ds with
  | nil => simp
  | cons d ds =>
    obtain ⟨i, rfl⟩ : ∃ i, j = i + 1 := ⟨j - 1, by omega⟩
    simpa using hd

/-- **remove, then re-create: only the new bytes.** `p` is a file of the view (in either layer).
`remove_file(p)` succeeds; a following write session `create_file(p)?.write_all(bs)` succeeds;
afterwards the marker is gone and the view serves `p` as a file holding exactly `bs` — nothing of
the old content, although the lower layer still has the old file. -/
theorem remove_then_recreate_fresh (ds : List Str) (n : Str) (hds : ∀ c ∈ ds, GoodComp c)
    (hn : GoodComp n) (hroot : RootOk mu) (hanc : AncDirs mu ml ds)
    (hhead : (ds ++ [n]).head? ≠ some woDir) (hsuf : ds.head? ≠ some woSuffix)
    (hwoarea : ∀ k ∈ chain [] (woDir :: ds), ∀ e, mu.find? k = some e → e.ftype = .dir)
    (e : Entry) (hv : view mu ml (renderC (ds ++ [n])) = some e) (hfile : e.ftype = .file)
    (bs : Bytes) :
    ∃ w1 w2 mu2 e',
      (Overlay.fs (layers2 u l idu idl)).removeFile (renderC (ds ++ [n])) w = (.ok (), w1) ∧
      (do let hd ← (Overlay.fs (layers2 u l idu idl)).createFile (renderC (ds ++ [n]))
          hd.writeAllAndDrop bs : M Unit) w1 = (.ok (), w2) ∧
      OW w2 u l mu2 ml ∧ mu2.contains (marker (renderC (ds ++ [n]))) = false ∧
      view mu2 ml (renderC (ds ++ [n])) = some e' ∧ e'.ftype = .file ∧ e'.content = bs := by
  have hcs := good_snoc hds hn
  have hne : ds ++ [n] ≠ [] := by simp
  have hns := good_noSlash hcs
  have hdns := good_noSlash hds
  have hdhead : ds.head? ≠ some woDir := by
    intro hd; apply hhead
    cases ds with
    | nil => simp at hd
    | cons d ds => simpa using hd
  obtain ⟨mu1, hpure, ⟨em, hem, hemf⟩, hp1, hframe⟩ :=
    pRemoveFile_result mu ml ds n hds hn hroot hwoarea hhead e hv hfile
  have h1 := h.setU mu1
  have hrun : (Overlay.fs (layers2 u l idu idl)).removeFile (renderC (ds ++ [n])) w
      = (.ok (), w.setLeafFiles u mu1) := by
    show Overlay.removeFile _ _ w = _
    rw [run_oremoveFile h _ hne hcs, hpure]
  -- the root of the new upper map
  have hroot1 : RootOk mu1 := by
    obtain ⟨e0, he0, hd0⟩ := hroot.root
    have hpne : renderC (ds ++ [n]) ≠ [] := renderC_ne_nil hne
    constructor
    · refine ⟨e0, ?_, hd0⟩
      rw [hframe [] (fun h' => hpne h'.symm) (by simp [marker])
        (fun hk => by
          obtain ⟨i, h1, _, he⟩ := (mem_chain [] (woDir :: ds) _).1 hk
          obtain ⟨i', rfl⟩ : ∃ i', i = i' + 1 := ⟨i - 1, by omega⟩
          simp at he)]
      exact he0
    · have hrm : rootMarker = renderC [woDir, woSuffix] := by simp [rootMarker]
      have hrns : ∀ c ∈ [woDir, woSuffix], '/' ∉ c := by decide
      unfold FMap.contains
      rw [hframe rootMarker ?_ ?_ ?_]
      · exact hroot.noMark
      · rw [hrm]; intro heq
        have := C06.renderC_injective _ _ hrns hns heq
        apply hhead; rw [← this]; rfl
      · rw [hrm, marker_renderC]; intro heq
        have := C06.renderC_injective _ _ hrns (good_noSlash (good_markerComps hds hn)) heq
        simp only [List.cons.injEq, true_and] at this
        cases ds with
        | nil =>
          exact hn.1 (by simpa using this)
        | cons d ds =>
          have hl := congrArg List.length this
          simp at hl
      · rw [hrm]; intro hk
        obtain ⟨i, hi1, hi2, he⟩ := (mem_chain [] (woDir :: ds) _).1 hk
        simp only [List.nil_append] at he
        have := C06.renderC_injective _ _ hrns (by
          intro c hc
          rcases List.mem_cons.1 (List.mem_of_mem_take hc) with rfl | hc
          · exact goodComp_woDir.noSlash
          · exact hdns c hc) he
        obtain ⟨i', rfl⟩ : ∃ i', i = i' + 1 := ⟨i - 1, by omega⟩
        simp only [List.take_succ_cons, List.cons.injEq, true_and] at this
        apply hsuf
        cases ds with
        | nil => simp at this
        | cons d ds =>
          cases i' with
          | zero => simp at this
          | succ i'' => simp at this; simp [this.1]
  -- the ancestors are still directories of the view
  have hanc1 : AncDirs mu1 ml ds := by
    intro j hj1 hj2
    obtain ⟨ea, hva, hda⟩ := hanc j hj1 hj2
    refine ⟨ea, ?_, hda⟩
    have hqns : ∀ c ∈ ds.take j, '/' ∉ c := fun c hc => hdns c (List.mem_of_mem_take hc)
    have hqhead := take_head_ne hj1 hdhead
    have hq1 : renderC (ds.take j) ≠ renderC (ds ++ [n]) := by
      intro heq
      have := congrArg List.length (C06.renderC_injective _ _ hqns hns heq)
      rw [List.length_take, List.length_append, List.length_singleton] at this
      omega
    have hqh : (renderC (ds.take j)).head? = some '/' := by
      apply C09.renderC_head
      intro h0
      have := congrArg List.length h0
      rw [List.length_take, List.length_nil] at this
      omega
    have hq2 : renderC (ds.take j) ≠ marker (renderC (ds ++ [n])) := fun heq =>
      hqhead (renderC_eq_marker_head _ _ hqns heq (C09.renderC_head _ hne))
    have hq3 : renderC (ds.take j) ∉ chain [] (woDir :: ds) := fun hk =>
      hqhead (chain_wo_head _ _ hqns hdns hk)
    have hm1 : marker (renderC (ds.take j)) ≠ renderC (ds ++ [n]) := fun heq =>
      hhead (renderC_eq_marker_head _ _ hns heq.symm hqh)
    have hm2 : marker (renderC (ds.take j)) ≠ marker (renderC (ds ++ [n])) := fun heq =>
      hq1 (marker_injective _ _ heq)
    have hm3 := marker_prefix_not_in_chain ds hds j hj1 hj2
    rw [← hva]
    unfold view FMap.contains
    rw [hframe _ hq1 hq2 hq3, hframe _ hm1 hm2 hm3]
  obtain ⟨w2, mu2, e', hrun2, hw2, hgone, hv2, hf2, hc2⟩ :=
    recreated_file_fresh (idu := idu) (idl := idl) h1 ds n hds hn hroot1 hanc1 hdhead em bs hem hemf hp1
  exact ⟨_, w2, mu2, e', hrun, hrun2, hw2, hgone, hv2, hf2, hc2⟩

/-- **a re-created directory is empty.** `p` is marked as deleted, the upper layer has nothing at
or below `p`, and every child of `p` that the lower layer still holds is marked as deleted too
(it was removed through the overlay before `p` was): `create_dir(p)` succeeds, `p` is again a
directory of the view, and `read_dir(p)` is empty. -/
theorem recreated_dir_empty (ds : List Str) (n : Str) (hds : ∀ c ∈ ds, GoodComp c)
    (hn : GoodComp n) (hroot : RootOk mu) (hanc : AncDirs mu ml ds)
    (hhead : (ds ++ [n]).head? ≠ some woDir) (em : Entry)
    (hmk : mu.find? (marker (renderC (ds ++ [n]))) = some em) (hmf : em.ftype = .file)
    (hup : mu.find? (renderC (ds ++ [n])) = none)
    (hupc : ∀ x, '/' ∉ x → mu.find? (renderC (ds ++ [n]) ++ '/' :: x) = none)
    (hlowc : ∀ x, '/' ∉ x → ml.contains (renderC (ds ++ [n]) ++ '/' :: x) = true →
      mu.contains (marker (renderC (ds ++ [n]) ++ '/' :: x)) = true)
    (hwfl : WF ml) (hwf : WF mu)
    (hwo : ∀ e, mu.find? (woDirOf (renderC (ds ++ [n]))) = some e → e.ftype = .dir) :
    ∃ mu', (Overlay.fs (layers2 u l idu idl)).createDir (renderC (ds ++ [n])) w
        = (.ok (), w.setLeafFiles u mu') ∧
      OW (w.setLeafFiles u mu') u l mu' ml ∧
      view mu' ml (renderC (ds ++ [n])) = some dirEntryNow ∧
      (Overlay.fs (layers2 u l idu idl)).readDir (renderC (ds ++ [n])) (w.setLeafFiles u mu')
        = (.ok [], w.setLeafFiles u mu') := by
  have hcs := good_snoc hds hn
  have hne : ds ++ [n] ≠ [] := by simp
  have hdhead : ds.head? ≠ some woDir := by
    intro hd; apply hhead
    cases ds with
    | nil => simp at hd
    | cons d ds => simpa using hd
  have hE : pEnsure mu ml (ds ++ [n]).dropLast = (.ok (), fillDirs mu (chain [] ds)) := by
    rw [List.dropLast_concat]; exact pEnsure_ok hroot hds hanc
  have hp0 := find?_snoc_fillDirs (mu := mu) hds hn [] (Or.inl rfl)
  simp only [List.append_nil] at hp0
  have hne' : marker (renderC (ds ++ [n])) ≠ renderC (ds ++ [n]) := by
    intro heq
    have := congrArg List.length heq
    simp [marker, woDir, woSuffix] at this
    omega
  have hm1 : (fillDirs mu (chain [] ds)).find? (marker (renderC (ds ++ [n]))) = some em := by
    rw [find?_fillDirs, hmk]; rfl
  have hpar := parentOk_fillDirs (n := n) hroot hds hn hanc
  have hmkdir : Mem.pCreateDir (fillDirs mu (chain [] ds)) (renderC (ds ++ [n])) =
      (.ok (), (fillDirs mu (chain [] ds)).insert (renderC (ds ++ [n])) dirEntryNow) :=
    pCreateDir_fresh _ _ hpar (slash_mem_renderC hne) (by rw [hp0]; exact hup)
  have hm2 : ((fillDirs mu (chain [] ds)).insert (renderC (ds ++ [n])) dirEntryNow).find?
      (marker (renderC (ds ++ [n]))) = some em := by
    rw [FMap.find?_insert_ne _ _ _ _ hne']; exact hm1
  have hclear : pClear ((fillDirs mu (chain [] ds)).insert (renderC (ds ++ [n])) dirEntryNow)
      (renderC (ds ++ [n])) =
      (.ok (), ((fillDirs mu (chain [] ds)).insert (renderC (ds ++ [n])) dirEntryNow).erase
        (marker (renderC (ds ++ [n])))) := by
    unfold pClear
    rw [if_pos (contains_of_find hm2), pRemoveFile_file _ _ em hm2 hmf]
  have hpure : pCreateDir mu ml (ds ++ [n]) =
      (.ok (), ((fillDirs mu (chain [] ds)).insert (renderC (ds ++ [n])) dirEntryNow).erase
        (marker (renderC (ds ++ [n])))) := by
    unfold pCreateDir
    rw [hE]
    simp only [andThen, view_marked (contains_of_find hm1), pCreateTail, hmkdir, hclear]
  -- the new upper map, key by key
  generalize hmu3 : ((fillDirs mu (chain [] ds)).insert (renderC (ds ++ [n])) dirEntryNow).erase
    (marker (renderC (ds ++ [n]))) = mu3 at hpure
  have hfind3 : ∀ k, k ≠ marker (renderC (ds ++ [n])) → k ≠ renderC (ds ++ [n]) →
      k ∉ chain [] ds → mu3.find? k = mu.find? k := by
    intro k h1 h2 h3
    rw [← hmu3, FMap.find?_erase_ne _ _ _ h1, FMap.find?_insert_ne _ _ _ _ h2,
      find?_fillDirs_not_mem _ _ _ h3]
  have hkeep3 : ∀ k, k ≠ marker (renderC (ds ++ [n])) → mu.contains k = true →
      mu3.contains k = true := by
    intro k h1 hc
    rw [← hmu3, contains_erase_ne h1]
    exact contains_insert_of_contains (contains_fillDirs_of_contains _ _ _ hc)
  have hp3 : mu3.find? (renderC (ds ++ [n])) = some dirEntryNow := by
    rw [← hmu3, FMap.find?_erase_ne _ _ _ hne'.symm, FMap.find?_insert_self]
  have hmark3 : mu3.contains (marker (renderC (ds ++ [n]))) = false := by
    rw [← hmu3]; unfold FMap.contains; rw [FMap.find?_erase_self]; rfl
  have hview3 : view mu3 ml (renderC (ds ++ [n])) = some dirEntryNow := view_upper hmark3 hp3
  have h3 := h.setU mu3
  -- no-slash facts
  have hns : ∀ c ∈ ds ++ [n], '/' ∉ c := good_noSlash hcs
  -- "/.whiteout" ++ p and its children are untouched
  have hwd_ne1 : woDirOf (renderC (ds ++ [n])) ≠ marker (renderC (ds ++ [n])) := by
    intro heq
    have := congrArg List.length heq
    simp [marker, woDirOf, woSuffix] at this
  have hwd_ne2 : woDirOf (renderC (ds ++ [n])) ≠ renderC (ds ++ [n]) := by
    intro heq
    have := congrArg List.length heq
    simp [woDirOf, woDir] at this
    omega
  have hwd_nc : woDirOf (renderC (ds ++ [n])) ∉ chain [] ds := by
    rw [woDirOf_renderC]
    apply renderC_not_in_chain _ _ _ (good_noSlash hds) (by simp; omega)
    intro c hc
    rcases List.mem_cons.1 hc with rfl | hc
    · exact goodComp_woDir.noSlash
    · exact hns c hc
  have hwo3 : ∀ e, mu3.find? (woDirOf (renderC (ds ++ [n]))) = some e → e.ftype = .dir := by
    intro e he
    rw [hfind3 _ hwd_ne1 hwd_ne2 hwd_nc] at he
    exact hwo e he
  have hchd_mu3 : ChildrenHaveDir mu3 (renderC (ds ++ [n])) :=
    fun _ _ _ => ⟨dirEntryNow, hp3, rfl⟩
  have hchd_wo3 : ChildrenHaveDir mu3 (woDirOf (renderC (ds ++ [n]))) := by
    intro m hm hc
    -- the child key, as a component list
    have hkey : woDirOf (renderC (ds ++ [n])) ++ '/' :: m = renderC (woDir :: (ds ++ [n]) ++ [m]) := by
      rw [woDirOf_renderC]; simp
    have hkns : ∀ c ∈ woDir :: (ds ++ [n]) ++ [m], '/' ∉ c := by
      intro c hc
      rcases List.mem_append.1 hc with hc | hc
      · rcases List.mem_cons.1 hc with rfl | hc
        · exact goodComp_woDir.noSlash
        · exact hns c hc
      · rw [List.mem_singleton.1 hc]; exact hm
    have hk1 : woDirOf (renderC (ds ++ [n])) ++ '/' :: m ≠ marker (renderC (ds ++ [n])) := by
      rw [hkey, marker_renderC]
      intro heq
      have := C06.renderC_injective _ _ hkns
        (good_noSlash (good_markerComps hds hn)) heq
      have hl := congrArg List.length this
      simp at hl
    have hk2 : woDirOf (renderC (ds ++ [n])) ++ '/' :: m ≠ renderC (ds ++ [n]) := by
      rw [hkey]
      intro heq
      have := C06.renderC_injective _ _ hkns hns heq
      have hl := congrArg List.length this
      simp at hl
    have hk3 : woDirOf (renderC (ds ++ [n])) ++ '/' :: m ∉ chain [] ds := by
      rw [hkey]
      exact renderC_not_in_chain _ _ hkns (good_noSlash hds) (by simp; omega)
    have hcm : mu.contains (woDirOf (renderC (ds ++ [n])) ++ '/' :: m) = true := by
      unfold FMap.contains at hc ⊢
      rw [hfind3 _ hk1 hk2 hk3] at hc; exact hc
    obtain ⟨e, he, hd⟩ := hwf.childrenHaveDir _ m hm hcm
    exact ⟨e, by rw [hfind3 _ hwd_ne1 hwd_ne2 hwd_nc]; exact he, hd⟩
  -- the listing has no member
  have hempty : pListing mu3 ml (renderC (ds ++ [n])) = [] := by
    apply List.eq_nil_iff_forall_not_mem.2
    intro x hx
    obtain ⟨hxs, hxv, _⟩ := (mem_pListing mu3 ml _ x hchd_mu3 (hwfl.childrenHaveDir _)
      hchd_wo3).1 hx
    rw [view_isSome] at hxv
    simp only [Bool.and_eq_true, Bool.not_eq_true', Bool.or_eq_true] at hxv
    obtain ⟨hnm, hc⟩ := hxv
    -- the child key
    have hkey : renderC (ds ++ [n]) ++ '/' :: x = renderC ((ds ++ [n]) ++ [x]) := by simp
    have hkns : ∀ c ∈ (ds ++ [n]) ++ [x], '/' ∉ c := by
      intro c hc
      rcases List.mem_append.1 hc with hc | hc
      · exact hns c hc
      · simp at hc; subst hc; exact hxs
    have hk1 : renderC (ds ++ [n]) ++ '/' :: x ≠ marker (renderC (ds ++ [n])) := by
      intro heq
      rw [hkey] at heq
      have := renderC_eq_marker_head _ _ hkns heq (C09.renderC_head _ hne)
      apply hhead
      cases ds with
      | nil => simpa using this
      | cons d ds => simpa using this
    have hk2 : renderC (ds ++ [n]) ++ '/' :: x ≠ renderC (ds ++ [n]) := by
      intro heq
      have := congrArg List.length heq
      simp at this
    have hk3 : renderC (ds ++ [n]) ++ '/' :: x ∉ chain [] ds :=
      snoc_not_in_chain hds hn _ (Or.inr rfl)
    have hmu3x : mu3.contains (renderC (ds ++ [n]) ++ '/' :: x) = false := by
      unfold FMap.contains
      rw [hfind3 _ hk1 hk2 hk3, hupc x hxs]; rfl
    rcases hc with hc | hc
    · rw [hmu3x] at hc; cases hc
    · have hmx := hlowc x hxs hc
      have hne3 : marker (renderC (ds ++ [n]) ++ '/' :: x) ≠ marker (renderC (ds ++ [n])) :=
        fun heq => hk2 (marker_injective _ _ heq)
      have := hkeep3 _ hne3 hmx
      rw [hnm] at this; cases this
  refine ⟨mu3, ?_, h3, hview3, ?_⟩
  · show Overlay.createDir _ _ w = _
    rw [run_ocreateDir h _ hne hcs, hpure]
  · show Overlay.readDir _ _ _ = _
    rw [run_oreadDir h3 _ hcs hwo3]
    unfold pReadDir dirEntry?
    rw [if_neg (renderC_ne_nil hne), hview3, hempty]
    rfl

/-! ### the markers are not entries -/

/-- **markers are invisible in listings.** Whatever `read_dir` returns: at the root it never
contains ".whiteout"; and in any directory a listed name is never a name whose marker exists
(so nothing that was removed through the overlay is listed). -/
theorem markers_invisible (cs : List Str) (hcs : ∀ c ∈ cs, GoodComp c)
    (hwf : WF mu) (hwfl : WF ml)
    (hwo : ∀ e, mu.find? (woDirOf (renderC cs)) = some e → e.ftype = .dir)
    (lst : List Str) (w' : World)
    (hres : (Overlay.fs (layers2 u l idu idl)).readDir (renderC cs) w = (.ok lst, w')) :
    (renderC cs = [] → woDir ∉ lst) ∧
    (∀ x ∈ lst, mu.contains (marker (renderC cs ++ '/' :: x)) = false) := by
  change (Overlay.readDir _ _ w = _) at hres
  rw [run_oreadDir h cs hcs hwo] at hres
  unfold pReadDir at hres
  have hl : lst = pListing mu ml (renderC cs) := by
    split at hres
    · simp at hres
    · split at hres
      · simp at hres; exact hres.1.symm
      · simp at hres
  subst hl
  refine ⟨fun hp => by rw [hp]; exact woDir_not_listed mu ml, ?_⟩
  intro x hx
  have := ((mem_pListing mu ml _ x (hwf.childrenHaveDir _) (hwfl.childrenHaveDir _)
    (hwf.childrenHaveDir _)).1 hx).2.1
  rw [view_isSome] at this
  simp only [Bool.and_eq_true, Bool.not_eq_true'] at this
  exact this.1

end setting

/-- stated, not proved: the frame lemma for `append_file(q)`, `q ≠ p` -/
def marker_survives_appendFile_stmt : Prop :=
  ∀ (w : World) (u l idu idl : Nat) (mu ml : FMap), OW w u l mu ml →
    ∀ (p : Str), mu.contains (marker p) = true →
    ∀ (cs : List Str), cs ≠ [] → (∀ c ∈ cs, GoodComp c) → renderC cs ≠ p →
      renderC cs ≠ marker p →
      ∃ r w' mu' ml', (Overlay.fs (layers2 u l idu idl)).appendFile (renderC cs) w = (r, w') ∧
        OW w' u l mu' ml' ∧ mu'.contains (marker p) = true

/-- stated, not proved: remove the only lower-layer child, remove the directory, create it again:
the new directory is empty -/
def recreated_dir_empty_composed_stmt : Prop :=
  ∀ (w : World) (u l idu idl : Nat) (mu ml : FMap), OW w u l mu ml → WF mu → WF ml → RootOk mu →
  ∀ (ds : List Str) (n x : Str), (∀ c ∈ ds, GoodComp c) → GoodComp n → GoodComp x →
    AncDirs mu ml ds → (ds ++ [n]).head? ≠ some woDir → ds.head? ≠ some woSuffix →
    (∀ k, (woDirOf []).isPrefixOf k = true → mu.find? k = none) →
    mu.find? (renderC (ds ++ [n])) = none →
    (∀ y, '/' ∉ y → mu.find? (renderC (ds ++ [n]) ++ '/' :: y) = none) →
    (∃ e, ml.find? (renderC (ds ++ [n])) = some e ∧ e.ftype = .dir) →
    (∀ y, '/' ∉ y → (ml.contains (renderC (ds ++ [n]) ++ '/' :: y) = true ↔ y = x)) →
    (∃ e, ml.find? (renderC (ds ++ [n, x])) = some e ∧ e.ftype = .file) →
    let fs := Overlay.fs (layers2 u l idu idl)
    let w1 := (fs.removeFile (renderC (ds ++ [n, x])) w).2
    let w2 := (fs.removeDir (renderC (ds ++ [n])) w1).2
    let w3 := (fs.createDir (renderC (ds ++ [n])) w2).2
    (fs.removeFile (renderC (ds ++ [n, x])) w).1 = .ok () ∧
    (fs.removeDir (renderC (ds ++ [n])) w1).1 = .ok () ∧
    (fs.createDir (renderC (ds ++ [n])) w2).1 = .ok () ∧
    (fs.readDir (renderC (ds ++ [n])) w3).1 = .ok []

/-! ### non-vacuity: the concrete world of Props/C09.lean

lower layer { "/d" directory, "/d/x" file with the byte 'L' }, upper layer empty; `decide`. -/

section concrete
open Vfs.C09

/-- the upper map after `remove_file("/d/x")`: the marker and its directories -/
def upRemoved : FMap :=
  [("/.whiteout/d/x_wo".toList, fileEntryNow), ("/.whiteout/d".toList, dirEntryNow),
   ("/.whiteout".toList, dirEntryNow)] ++ Mem.init

/-- the world after `remove_file("/d/x")` (intermediate worlds are written out so that every
check below is one step of computation) -/
def wRemoved : World :=
  { leaves := [{ kind := .mem, files := upRemoved }, { kind := .mem, files := exLower }] }

example : (ofs.removeFile "/d/x".toList w0).1 = .ok () := by decide
theorem wRemoved_is : (ofs.removeFile "/d/x".toList w0).2.leaves = wRemoved.leaves := by decide

example : OW wRemoved 0 1 upRemoved exLower := ⟨rfl, rfl, by decide⟩
example : (ofs.exists_ "/d/x".toList wRemoved).1 = .ok false := by decide
example : viewOf wRemoved "/d/x" = none := by decide
example : (ofs.metadata "/d/x".toList wRemoved).1 = .err .fileNotFound none := by decide
example : readAll ofs "/d/x" wRemoved = .err .fileNotFound none := by decide
example : (ofs.readDir "/d".toList wRemoved).1 = .ok [] := by decide
-- the bookkeeping directory exists in the upper layer but is not listed
example : upRemoved.contains "/.whiteout".toList = true := by decide
example : (ofs.readDir [] wRemoved).1 = .ok ["d".toList] := by decide
-- unrelated operations later: still absent
example : (ofs.createDir "/e".toList wRemoved).1 = .ok () := by decide
example : viewOf (ofs.createDir "/e".toList wRemoved).2 "/d/x" = none := by decide

/-- … then one write session `create_file("/d/x")?.write_all("U")` -/
def wRecreated : World :=
  { leaves := [{ kind := .mem, files :=
      [("/d/x".toList, { fileEntryNow with content := [85] }), ("/d".toList, dirEntryNow),
       ("/.whiteout/d".toList, dirEntryNow), ("/.whiteout".toList, dirEntryNow)] ++ Mem.init },
    { kind := .mem, files := exLower }] }

example : ((do let hd ← ofs.createFile "/d/x".toList; hd.writeAllAndDrop [85] : M Unit)
    wRemoved).1 = .ok () := by decide
theorem wRecreated_is :
    ((do let hd ← ofs.createFile "/d/x".toList; hd.writeAllAndDrop [85] : M Unit) wRemoved).2.leaves
      = wRecreated.leaves := by decide
example : readAll ofs "/d/x" wRecreated = .ok [85] := by decide
example : (ofs.readDir "/d".toList wRecreated).1 = .ok ["x".toList] := by decide
example : (mapsOf wRecreated).1.contains (marker "/d/x".toList) = false := by decide

/-- … or, instead, `remove_dir("/d")` (now empty) -/
def wDirRemoved : World :=
  { leaves := [{ kind := .mem, files := ("/.whiteout/d_wo".toList, fileEntryNow) :: upRemoved },
    { kind := .mem, files := exLower }] }

example : (ofs.removeDir "/d".toList wRemoved).1 = .ok () := by decide
theorem wDirRemoved_is : (ofs.removeDir "/d".toList wRemoved).2.leaves = wDirRemoved.leaves := by
  decide
example : (ofs.exists_ "/d".toList wDirRemoved).1 = .ok false := by decide
example : (ofs.exists_ "/d/x".toList wDirRemoved).1 = .ok false := by decide
example : (ofs.readDir [] wDirRemoved).1 = .ok [] := by decide

/-- … and then `create_dir("/d")` -/
def wDirRecreated : World :=
  { leaves := [{ kind := .mem, files := ("/d".toList, dirEntryNow) :: upRemoved },
    { kind := .mem, files := exLower }] }

example : (ofs.createDir "/d".toList wDirRemoved).1 = .ok () := by decide
theorem wDirRecreated_is :
    (ofs.createDir "/d".toList wDirRemoved).2.leaves = wDirRecreated.leaves := by decide
example : (ofs.exists_ "/d".toList wDirRecreated).1 = .ok true := by decide
example : (ofs.readDir "/d".toList wDirRecreated).1 = .ok [] := by decide
example : (ofs.exists_ "/d/x".toList wDirRecreated).1 = .ok false := by decide

/-- the world after `remove_file("/d")` — a DIRECTORY of the lower layer -/
def wOrphan : World :=
  { leaves := [{ kind := .mem, files :=
      [("/.whiteout/d_wo".toList, fileEntryNow), ("/.whiteout".toList, dirEntryNow)] ++ Mem.init },
    { kind := .mem, files := exLower }] }

/-- **OPEN known finding, as a proved fact.** `remove_file` applied to a DIRECTORY that exists in
the lower layer succeeds (the overlay never checks the type): afterwards the directory is absent
from the view but its child is still visible — a child without its parent. The Rust code does
exactly this. -/
theorem remove_file_on_lower_dir_orphans :
    (ofs.removeFile "/d".toList w0).1 = .ok () ∧
    (ofs.removeFile "/d".toList w0).2.leaves = wOrphan.leaves ∧
    viewOf wOrphan "/d" = none ∧ viewOf wOrphan "/d/x" ≠ none ∧
    (ofs.exists_ "/d".toList wOrphan).1 = .ok false ∧
    (ofs.exists_ "/d/x".toList wOrphan).1 = .ok true ∧
    readAll ofs "/d/x" wOrphan = .ok [76] := by
  refine ⟨by decide, by decide, by decide, by decide, by decide, by decide, by decide⟩

/-- names of the form `x_wo` are reserved, not hidden: a layer that really holds "/d/y_wo" gets it
listed (this is why `markers_invisible` speaks of markers, not of names) -/
def wWoName : World :=
  { leaves := [{ kind := .mem, files := exUpper },
               { kind := .mem, files := ("/d/y_wo".toList, fileL) :: exLower }] }

theorem wo_names_can_appear :
    (ofs.readDir "/d".toList wWoName).1 = .ok ["y_wo".toList, "x".toList] := by decide

end concrete

end Vfs.C10
