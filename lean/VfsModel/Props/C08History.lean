/-
  C08 over WHOLE HISTORIES of the public path API — "OverlayFS never modifies lower layers;
  observers modify nothing", for arbitrary lower filesystems.

  ALPHABET. `POp` is the public `VfsPath` API as seen from the root of an overlay: create_dir,
  create_dir_all, a create session (create_file, any list of write / seek / flush, drop), an
  append session, remove_file, remove_dir, remove_dir_all, copy_file, move_file, copy_dir,
  move_dir (each endpoint `End.here p`: the path string `p` of the overlay, or `End.other q`: a
  path of ANY other filesystem value of the world), the three time setters, and the observers
  exists, metadata, read_dir, open_file + read to end, walk_dir (collected), read_to_string,
  is_file, is_dir. A path of the overlay is `root.withStr p` for ANY string `p` (the results of
  `root.join(..)` are of this form, `VPath.join_fs`; no well-formedness of `p` is assumed).
  `runOp root o : M Unit` runs one call with the model's PathOps functions; `runHistory` runs a
  list of calls, whatever their outcomes (success, error, panic), and returns the final world.

  WHAT IS PROVED (axioms: propext, Classical.choice, Quot.sound at most)
   1. `lower_layers_never_modified_history` — overlay `Overlay.fs (upper :: lowers)`, the
      layers ANY `FS` values, `I` ANY predicate on worlds such that
        (a) every method of `upper.fs` (and the write handles it returns) preserves `I`,
        (b) the four OBSERVER methods of each lower layer preserve `I`,
        (c) a lower layer carrying the SAME filesystem identity (`fsId`, the `Arc` pointer of
            the Rust code) as the upper layer satisfies (a) too (vacuous for distinct ids:
            `lower_layers_never_modified_history'`),
        (d) the filesystems of `End.other` endpoints satisfy (a):
      every finite history of `POp`s preserves `I`.
      So: the overlay sends nothing but observer calls to its lower layers, over whole histories,
      composite operations, sessions and failing calls included.
   2. `observers_modify_nothing_history` — ANY filesystem value whose four observers preserve
      `I` (no hypothesis on any mutating method): every history of observer `POp`s preserves `I`.
      With `overlay_observers_pure` (Props/C08.lean) this needs only the observers of the layers,
      the upper one included (`overlay_observers_modify_nothing_history`).
   3. Instances. `Built leafOK tagOK` is the family of filesystem values built from the leaves
      `i` with `leafOK i` by AltrootFS, OverlayFS (any number of layers, any nesting), the
      recording wrapper with tags `tagOK`, the fault wrapper, and EmbeddedFS.
      `LeafInv I j`: `I` is a statement about leaf `j` of the world only, kept by the observers
      of that leaf. Two such statements:
        * `SameLeaf j kind m0` (Proofs/LeafFrame.lean): leaf `j` holds exactly the entries of
          `m0` — keys, types, bytes, creation and modification times — UP TO ACCESS TIMES;
        * `PhysExact j m0`: the physical leaf `j` holds exactly the map `m0`, bit for bit,
          access times included.
      ACCESS STAMPS. MemoryFS `open_file` takes the WRITE lock and sets `file.accessed =
      Some(now)` before it even checks the type (src/impls/memory.rs:234-247); the model does the
      same (`Mem.openFile` = `Mem.setAccessed … .now` first). The overlay calls `open_file` on the
      layer that holds the file (`open_file`, and `copy_file` from the lower layer when
      `append_file` copies up), so a lower MEMORY layer IS modified in this one field by an
      overlay read or copy-up: `x_access_stamp_on_lower`, `x_copy_up_stamps_lower` (`decide`).
      Hence the memory statement is modulo `accessed` and cannot be strengthened; PhysicalFS
      `open_file` is `File::open`, the model leaves the map alone, and the statement for a
      physical lower leaf is exact.
        * `lower_leaves_unchanged_history` (items 2 and 4 of the task): upper layer `Built (· ≠ j)`,
          lower layers `Built` from ANY leaves (a lower layer may be leaf `j` itself, a
          sub-directory of it, an altroot into it, an overlay over it, a recorded / faulty
          version of it …), other endpoints `Built (· ≠ j)`: every history keeps `LeafInv`
          statements about leaf `j`; `…_same` and `…_phys_exact` are the two readings.
        * `lower_log_clean_history`: `I` = `NoMutation t` (the ghost call log holds no mutating
          call with tag `t`): the lower layers may contain `recordFS t _` anywhere, the upper
          layer and the other endpoints only recorders with other tags.
        * `observers_leaves_unchanged_history`, `observers_log_clean_history`: observer histories
          on ANY `Built` value (an overlay of leaves, an altroot over an overlay, an overlay whose
          layers are altroots — `xAltOverOvl`, `xOvlOfAlts`) keep EVERY leaf (upper included) and
          record no mutating call with any tag.
   4. Non-vacuity (`decide +kernel`): the 3-layer world `xW` (upper = leaf 0, lower = leaves 1, 2,
      leaf 3 a separate MemoryFS), the history `xOps` using every constructor of `POp`; 28 of
      its 30 calls succeed, the upper leaf and leaf 3 change, leaves 1 and 2 keep their entries
      (by the theorem AND by evaluation), the access stamp appears on leaf 1.

  NOT PROVED / NOT CLAIMED
    * "Unchanged" for a memory leaf is modulo `accessed` (see above — the code does stamp it).
    * Handles kept open ACROSS calls of a history are not part of `POp` (sessions are complete:
      open, actions, drop); for them see `C03.Step` — `HandleOK I` of the returned handle is
      part of `AllPreserve`, so the same argument applies, it is just not restated here.
    * `End.other` endpoints are asked to satisfy (a) although a transfer SOURCE is only observed
      by copy_file / copy_dir; a history that copies from the lower layer's own filesystem value
      into the overlay is therefore not covered (it would be an observer of that layer).
    * Sequential semantics only (interleavings: C16/C17). User-defined `FileSystem` values are
      covered by the generic theorems (1, 2) once (a)/(b) are shown for them, not by `Built`.
-/
import VfsModel.Props.C03Stack
import VfsModel.Proofs.ObsWalk
namespace Vfs.C08
open Vfs.VPath Vfs.Overlay
open Vfs.C03 (HAct runActs)

/-! ### the alphabet -/

/-- an endpoint of a transfer -/
inductive End where
  /-- the path string `p` of the overlay -/
  | here (p : Str)
  /-- a path of another filesystem value of the world -/
  | other (q : VPath)

/-- the `VfsPath` an endpoint denotes, seen from the root of the overlay -/
def End.path (root : VPath) : End → VPath
  | .here p => root.withStr p
  | .other q => q

/-- the public path API -/
inductive POp where
  | createDir (p : Str)
  | createDirAll (p : Str)
  /-- create_file, the actions, drop -/
  | createSession (p : Str) (acts : List HAct)
  /-- append_file, the actions, drop -/
  | appendSession (p : Str) (acts : List HAct)
  | removeFile (p : Str)
  | removeDir (p : Str)
  | removeDirAll (fuel : Nat) (p : Str)
  | copyFile (s d : End)
  | moveFile (s d : End)
  | copyDir (fuel : Nat) (s d : End)
  | moveDir (fuel : Nat) (s d : End)
  | setCreationTime (p : Str) (t : Int)
  | setModificationTime (p : Str) (t : Int)
  | setAccessTime (p : Str) (t : Int)
  | exists_ (p : Str)
  | metadata (p : Str)
  | readDir (p : Str)
  /-- open_file, read to the end, drop -/
  | readFile (p : Str)
  /-- walk_dir, iterated to the end -/
  | walk (fuel : Nat) (p : Str)
  | readToString (p : Str)
  | isFile (p : Str)
  | isDir (p : Str)

/-- one call (its value forgotten) -/
def runOp (root : VPath) : POp → M Unit
  | .createDir p => (root.withStr p).createDir
  | .createDirAll p => (root.withStr p).createDirAll
  | .createSession p acts => do let h ← (root.withStr p).createFile; runActs h acts
  | .appendSession p acts => do let h ← (root.withStr p).appendFile; runActs h acts
  | .removeFile p => (root.withStr p).removeFile
  | .removeDir p => (root.withStr p).removeDir
  | .removeDirAll fuel p => removeDirAll fuel (root.withStr p)
  | .copyFile s d => (s.path root).copyFile (d.path root)
  | .moveFile s d => (s.path root).moveFile (d.path root)
  | .copyDir fuel s d => do let _ ← copyDir fuel (s.path root) (d.path root); pure ()
  | .moveDir fuel s d => moveDir fuel (s.path root) (d.path root)
  | .setCreationTime p t => (root.withStr p).setCreationTime t
  | .setModificationTime p t => (root.withStr p).setModificationTime t
  | .setAccessTime p t => (root.withStr p).setAccessTime t
  | .exists_ p => do let _ ← (root.withStr p).exists_; pure ()
  | .metadata p => do let _ ← (root.withStr p).metadata; pure ()
  | .readDir p => do let _ ← (root.withStr p).readDir; pure ()
  | .readFile p => do
    let h ← (root.withStr p).openFile
    let _ ← M.ret h.readToEnd.1
    pure ()
  | .walk fuel p => do
    let s ← (root.withStr p).walkDir
    let _ ← walkAll fuel s
    pure ()
  | .readToString p => do let _ ← (root.withStr p).readToEndChecked; pure ()
  | .isFile p => do let _ ← (root.withStr p).isFile; pure ()
  | .isDir p => do let _ ← (root.withStr p).isDir; pure ()

/-- a history: the calls one after the other, whatever their outcomes; the world at the end -/
def runHistory (root : VPath) : List POp → World → World
  | [], w => w
  | o :: rest, w => runHistory root rest (runOp root o w).2

/-- which calls of a history succeeded (for the examples) -/
def outcomes (root : VPath) : List POp → World → List Bool
  | [], _ => []
  | o :: rest, w =>
    (match (runOp root o w).1 with | .ok _ => true | _ => false) ::
      outcomes root rest (runOp root o w).2

theorem runHistory_append (root : VPath) (a b : List POp) (w : World) :
    runHistory root (a ++ b) w = runHistory root b (runHistory root a w) := by
  induction a generalizing w with
  | nil => rfl
  | cons o rest ih => simp only [List.cons_append, runHistory, ih]

/-- the observers of the alphabet -/
def POp.observer : POp → Bool
  | .exists_ _ | .metadata _ | .readDir _ | .readFile _ | .walk _ _ | .readToString _
  | .isFile _ | .isDir _ => true
  | _ => false

section generic
variable {I : World → Prop}

/-- hypothesis (d): the filesystem of an endpoint outside the overlay -/
def End.OK (I : World → Prop) : End → Prop
  | .here _ => True
  | .other q => q.fs.AllPreserve I

def POp.OthersOK (I : World → Prop) : POp → Prop
  | .copyFile s d | .moveFile s d | .copyDir _ s d | .moveDir _ s d => s.OK I ∧ d.OK I
  | _ => True

theorem End.path_all (root : VPath) (hroot : root.fs.AllPreserve I) (e : End) (he : e.OK I) :
    (e.path root).fs.AllPreserve I := by
  cases e with
  | here p => exact hroot
  | other q => exact he

/-! ### every call, every history -/

/-- one call on a filesystem all of whose methods preserve `I` -/
theorem runOp_pres (root : VPath) (hroot : root.fs.AllPreserve I) (o : POp) (ho : o.OthersOK I) :
    Preserves I (runOp root o) := by
  have hr : ∀ p, (root.withStr p).fs.AllPreserve I := fun _ => hroot
  cases o with
  | createDir p => exact pres_createDir _ (hr p)
  | createDirAll p => exact pres_createDirAll _ (hr p)
  | createSession p acts =>
    exact Preserves.bindQ _ (pres_createFile _ (hr p)) (createFile_handle _ (hr p))
      (fun hd hk => C03.pres_runActs acts hd hk)
  | appendSession p acts =>
    exact Preserves.bindQ _ (pres_appendFile _ (hr p)) (appendFile_handle _ (hr p))
      (fun hd hk => C03.pres_runActs acts hd hk)
  | removeFile p => exact pres_removeFile _ (hr p)
  | removeDir p => exact pres_removeDir _ (hr p)
  | removeDirAll fuel p => exact pres_removeDirAll fuel _ (hr p)
  | copyFile s d =>
    have hs := End.path_all root hroot s ho.1
    exact pres_copyFile _ _ hs.obs (End.path_all root hroot d ho.2) (fun _ => hs)
  | moveFile s d =>
    exact Stk.pres_moveFile _ _ (End.path_all root hroot s ho.1) (End.path_all root hroot d ho.2)
  | copyDir fuel s d =>
    exact Preserves.bind
      (Stk.pres_copyDir fuel _ _ (End.path_all root hroot s ho.1) (End.path_all root hroot d ho.2))
      (fun _ => Preserves.pure _)
  | moveDir fuel s d =>
    exact Stk.pres_moveDir fuel _ _ (End.path_all root hroot s ho.1) (End.path_all root hroot d ho.2)
  | setCreationTime p t => exact pres_setCreationTime _ t (hr p)
  | setModificationTime p t => exact pres_setModificationTime _ t (hr p)
  | setAccessTime p t => exact pres_setAccessTime _ t (hr p)
  | exists_ p => exact Preserves.bind (pres_exists _ (hr p).obs) (fun _ => Preserves.pure _)
  | metadata p => exact Preserves.bind (pres_metadata _ (hr p).obs) (fun _ => Preserves.pure _)
  | readDir p => exact Preserves.bind (pres_readDir _ (hr p).obs) (fun _ => Preserves.pure _)
  | readFile p =>
    exact Preserves.bind (pres_openFile _ (hr p).obs)
      (fun _ => Preserves.bind (Preserves.ret _) (fun _ => Preserves.pure _))
  | walk fuel p => exact ObsWalk.pres_walkCollect fuel _ (hr p).obs
  | readToString p =>
    exact Preserves.bind (Stk.pres_readToEndChecked _ (hr p).obs) (fun _ => Preserves.pure _)
  | isFile p => exact Preserves.bind (pres_isFile _ (hr p).obs) (fun _ => Preserves.pure _)
  | isDir p => exact Preserves.bind (pres_isDir _ (hr p).obs) (fun _ => Preserves.pure _)

/-- one OBSERVER call: only the four observer methods of the filesystem are involved -/
theorem runOp_pres_obs (root : VPath) (hroot : root.fs.ObsPreserve I) (o : POp)
    (ho : o.observer = true) : Preserves I (runOp root o) := by
  have hr : ∀ p, (root.withStr p).fs.ObsPreserve I := fun _ => hroot
  cases o with
  | exists_ p => exact Preserves.bind (pres_exists _ (hr p)) (fun _ => Preserves.pure _)
  | metadata p => exact Preserves.bind (pres_metadata _ (hr p)) (fun _ => Preserves.pure _)
  | readDir p => exact Preserves.bind (pres_readDir _ (hr p)) (fun _ => Preserves.pure _)
  | readFile p =>
    exact Preserves.bind (pres_openFile _ (hr p))
      (fun _ => Preserves.bind (Preserves.ret _) (fun _ => Preserves.pure _))
  | walk fuel p => exact ObsWalk.pres_walkCollect fuel _ (hr p)
  | readToString p =>
    exact Preserves.bind (Stk.pres_readToEndChecked _ (hr p)) (fun _ => Preserves.pure _)
  | isFile p => exact Preserves.bind (pres_isFile _ (hr p)) (fun _ => Preserves.pure _)
  | isDir p => exact Preserves.bind (pres_isDir _ (hr p)) (fun _ => Preserves.pure _)
  | _ => cases ho

/-- histories on a filesystem all of whose methods preserve `I` -/
theorem history_pres (root : VPath) (hroot : root.fs.AllPreserve I) (ops : List POp)
    (hops : ∀ o ∈ ops, o.OthersOK I) (w : World) (hw : I w) : I (runHistory root ops w) := by
  induction ops generalizing w with
  | nil => exact hw
  | cons o rest ih =>
    exact ih (fun x hx => hops x (by simp [hx])) _
      ((runOp_pres root hroot o (hops o (by simp))).pres w hw)

/-- **Observers modify nothing, over whole histories.** ANY filesystem value whose four
observer methods preserve `I` — nothing is assumed about its mutating methods: every history
of observer calls (exists, metadata, read_dir, open_file + read, the collected walk,
read_to_string, is_file, is_dir), on any path strings, succeeding or failing, preserves `I`. -/
theorem observers_modify_nothing_history (root : VPath) (hroot : root.fs.ObsPreserve I)
    (ops : List POp) (hops : ∀ o ∈ ops, o.observer = true) (w : World) (hw : I w) :
    I (runHistory root ops w) := by
  induction ops generalizing w with
  | nil => exact hw
  | cons o rest ih =>
    exact ih (fun x hx => hops x (by simp [hx])) _
      ((runOp_pres_obs root hroot o (hops o (by simp))).pres w hw)

/-- **Lower layers are never modified, over whole histories.** The layers are arbitrary `FS`
values and `I` is an arbitrary predicate on worlds. If (a) every method of the upper layer's
filesystem preserves `I`, (b) the four observers of each lower layer preserve `I`, (c) lower
layers sharing the filesystem identity of the upper layer satisfy (a), (d) endpoints outside the
overlay satisfy (a) — then every finite history of public path calls through the overlay
preserves `I`. -/
theorem lower_layers_never_modified_history (upper : VPath) (lowers : List VPath)
    (hup : upper.fs.AllPreserve I)
    (hlow : ∀ l ∈ lowers, l.fs.ObsPreserve I)
    (hid : ∀ l ∈ lowers, l.fsId = upper.fsId → l.fs.AllPreserve I)
    (root : VPath) (hroot : root.fs = Overlay.fs (upper :: lowers))
    (ops : List POp) (hops : ∀ o ∈ ops, o.OthersOK I) (w : World) (hw : I w) :
    I (runHistory root ops w) := by
  apply history_pres root _ ops hops w hw
  rw [hroot]
  apply overlay_all_preserve
  refine { nonempty := by simp, observers := ?_, upper := hup, same := ?_ }
  · intro l hl
    simp only [List.mem_cons] at hl
    rcases hl with rfl | hl
    · exact hup.obs
    · exact hlow l hl
  · intro l hl h
    simp only [List.mem_cons] at hl
    rcases hl with rfl | hl
    · exact hup
    · exact hid l hl h

/-- the same with distinct filesystem identities: only (a), (b), (d) remain -/
theorem lower_layers_never_modified_history' (upper : VPath) (lowers : List VPath)
    (hup : upper.fs.AllPreserve I)
    (hlow : ∀ l ∈ lowers, l.fs.ObsPreserve I)
    (hid : ∀ l ∈ lowers, l.fsId ≠ upper.fsId)
    (root : VPath) (hroot : root.fs = Overlay.fs (upper :: lowers))
    (ops : List POp) (hops : ∀ o ∈ ops, o.OthersOK I) (w : World) (hw : I w) :
    I (runHistory root ops w) :=
  lower_layers_never_modified_history upper lowers hup hlow
    (fun l hl h => absurd h (hid l hl)) root hroot ops hops w hw

/-- observer histories through an overlay: only the observers of the layers matter, the upper
layer included -/
theorem overlay_observers_modify_nothing_history (layers : List VPath) (hne : layers ≠ [])
    (hobs : ∀ l ∈ layers, l.fs.ObsPreserve I)
    (root : VPath) (hroot : root.fs = Overlay.fs layers)
    (ops : List POp) (hops : ∀ o ∈ ops, o.observer = true) (w : World) (hw : I w) :
    I (runHistory root ops w) := by
  apply observers_modify_nothing_history root _ ops hops w hw
  rw [hroot]
  exact overlay_observers_pure layers ⟨hne, hobs⟩

end generic

/-! ### the family of filesystem values built from some of the leaves -/

/-- filesystem values built from the leaves `i` with `leafOK i` by the adapters of the crate
and the harness wrappers (recorders only with tags `tagOK`), in any nesting -/
inductive Built (leafOK tagOK : Nat → Prop) : FS → Prop where
  | leaf (i : Nat) (h : leafOK i) : Built leafOK tagOK (leafFS i)
  | alt (root : VPath) (h : Built leafOK tagOK root.fs) : Built leafOK tagOK (Altroot.fs root)
  | ovl (layers : List VPath) (hne : layers ≠ []) (h : ∀ l ∈ layers, Built leafOK tagOK l.fs) :
      Built leafOK tagOK (Overlay.fs layers)
  | record (tag : Nat) (inner : FS) (ht : tagOK tag) (h : Built leafOK tagOK inner) :
      Built leafOK tagOK (recordFS tag inner)
  | fault (inner : FS) (h : Built leafOK tagOK inner) : Built leafOK tagOK (faultFS inner)
  | embedded (s : Embedded.State) : Built leafOK tagOK (Embedded.fs s)

/-- no restriction -/
abbrev Any : Nat → Prop := fun _ => True

theorem Built.mono {a b a' b' : Nat → Prop} (ha : ∀ i, a i → a' i) (hb : ∀ i, b i → b' i) {fs : FS}
    (h : Built a b fs) : Built a' b' fs := by
  induction h with
  | leaf i hi => exact .leaf i (ha i hi)
  | alt root _ ih => exact .alt root ih
  | ovl layers hne _ ih => exact .ovl layers hne ih
  | record tag inner ht _ ih => exact .record tag inner (hb tag ht) ih
  | fault inner _ ih => exact .fault inner ih
  | embedded s => exact .embedded s

section wrappers
variable {I : World → Prop}

/-- `I` does not look at the fault plan -/
def FaultFree (I : World → Prop) : Prop := ∀ (w : World) f b, I w → I { w with fault := f, fired := b }

theorem faultGate_pres' {α} (hI : FaultFree I) {m : M α} (hm : Preserves I m) :
    Preserves I (faultGate m) := by
  refine ⟨fun w hw => ?_⟩
  unfold faultGate
  split
  · exact hI w _ _ hw
  · exact hm.pres _ (hI w _ w.fired hw)
  · exact hm.pres w hw

theorem faultFS_all' (hI : FaultFree I) (inner : FS) (hi : inner.AllPreserve I) :
    (faultFS inner).AllPreserve I where
  readDir p := faultGate_pres' hI (hi.readDir p)
  createDir p := faultGate_pres' hI (hi.createDir p)
  openFile p := faultGate_pres' hI (hi.openFile p)
  createFile p := faultGate_pres' hI (hi.createFile p)
  appendFile p := faultGate_pres' hI (hi.appendFile p)
  metadata p := faultGate_pres' hI (hi.metadata p)
  setCreationTime p x := faultGate_pres' hI (hi.setCreationTime p x)
  setModificationTime p x := faultGate_pres' hI (hi.setModificationTime p x)
  setAccessTime p x := faultGate_pres' hI (hi.setAccessTime p x)
  exists_ p := faultGate_pres' hI (hi.exists_ p)
  removeFile p := faultGate_pres' hI (hi.removeFile p)
  removeDir p := faultGate_pres' hI (hi.removeDir p)
  copyFile s d := faultGate_pres' hI (hi.copyFile s d)
  moveFile s d := faultGate_pres' hI (hi.moveFile s d)
  moveDir s d := faultGate_pres' hI (hi.moveDir s d)
  createHandle p := Stk.faultGate_ret (hi.createHandle p)
  appendHandle p := Stk.faultGate_ret (hi.appendHandle p)

theorem faultFS_obs' (hI : FaultFree I) (inner : FS) (hi : inner.ObsPreserve I) :
    (faultFS inner).ObsPreserve I where
  readDir p := faultGate_pres' hI (hi.readDir p)
  openFile p := faultGate_pres' hI (hi.openFile p)
  metadata p := faultGate_pres' hI (hi.metadata p)
  exists_ p := faultGate_pres' hI (hi.exists_ p)

theorem recordFS_all' (tag : Nat) (inner : FS)
    (hlog : ∀ m p p2, Preserves I (logCall tag m p p2)) (hi : inner.AllPreserve I) :
    (recordFS tag inner).AllPreserve I where
  readDir p := Preserves.bind (hlog _ p []) (fun _ => hi.readDir p)
  createDir p := Preserves.bind (hlog _ p []) (fun _ => hi.createDir p)
  openFile p := Preserves.bind (hlog _ p []) (fun _ => hi.openFile p)
  createFile p := Preserves.bind (hlog _ p []) (fun _ => hi.createFile p)
  appendFile p := Preserves.bind (hlog _ p []) (fun _ => hi.appendFile p)
  metadata p := Preserves.bind (hlog _ p []) (fun _ => hi.metadata p)
  setCreationTime p x := Preserves.bind (hlog _ p []) (fun _ => hi.setCreationTime p x)
  setModificationTime p x := Preserves.bind (hlog _ p []) (fun _ => hi.setModificationTime p x)
  setAccessTime p x := Preserves.bind (hlog _ p []) (fun _ => hi.setAccessTime p x)
  exists_ p := Preserves.bind (hlog _ p []) (fun _ => hi.exists_ p)
  removeFile p := Preserves.bind (hlog _ p []) (fun _ => hi.removeFile p)
  removeDir p := Preserves.bind (hlog _ p []) (fun _ => hi.removeDir p)
  copyFile s d := Preserves.bind (hlog _ s d) (fun _ => hi.copyFile s d)
  moveFile s d := Preserves.bind (hlog _ s d) (fun _ => hi.moveFile s d)
  moveDir s d := Preserves.bind (hlog _ s d) (fun _ => hi.moveDir s d)
  createHandle p := Returns.bind (fun _ => hi.createHandle p)
  appendHandle p := Returns.bind (fun _ => hi.appendHandle p)

theorem recordFS_obs' (tag : Nat) (inner : FS)
    (hlog : ∀ m p p2, m.mutating = false → Preserves I (logCall tag m p p2))
    (hi : inner.ObsPreserve I) : (recordFS tag inner).ObsPreserve I where
  readDir p := Preserves.bind (hlog _ p [] rfl) (fun _ => hi.readDir p)
  openFile p := Preserves.bind (hlog _ p [] rfl) (fun _ => hi.openFile p)
  metadata p := Preserves.bind (hlog _ p [] rfl) (fun _ => hi.metadata p)
  exists_ p := Preserves.bind (hlog _ p [] rfl) (fun _ => hi.exists_ p)

/-- every method of a `Built` value preserves `I`, given that for the admitted leaves and the
admitted recorder tags -/
theorem Built.all {leafOK tagOK : Nat → Prop}
    (hleaf : ∀ i, leafOK i → (leafFS i).AllPreserve I)
    (hlog : ∀ tag, tagOK tag → ∀ m p p2, Preserves I (logCall tag m p p2))
    (hfault : FaultFree I) {fs : FS} (h : Built leafOK tagOK fs) : fs.AllPreserve I := by
  induction h with
  | leaf i hi => exact hleaf i hi
  | alt root _ ih => exact Altroot.all_preserve root ih
  | ovl layers hne _ ih =>
    apply overlay_all_preserve
    exact { nonempty := hne
            observers := fun l hl => (ih l hl).obs
            upper := ih _ (writeLayer_mem layers hne)
            same := fun l hl _ => ih l hl }
  | record tag inner ht _ ih => exact recordFS_all' tag inner (hlog tag ht) ih
  | fault inner _ ih => exact faultFS_all' hfault inner ih
  | embedded s => exact Stk.embedded_all_preserve s

/-- the observers of a `Built` value preserve `I`, given that for the observers of the admitted
leaves and the observer entries of the admitted recorder tags -/
theorem Built.obs {leafOK tagOK : Nat → Prop}
    (hleaf : ∀ i, leafOK i → (leafFS i).ObsPreserve I)
    (hlog : ∀ tag, tagOK tag → ∀ m p p2, m.mutating = false → Preserves I (logCall tag m p p2))
    (hfault : FaultFree I) {fs : FS} (h : Built leafOK tagOK fs) : fs.ObsPreserve I := by
  induction h with
  | leaf i hi => exact hleaf i hi
  | alt root _ ih => exact Altroot.obs_preserve root ih
  | ovl layers hne _ ih => exact overlay_observers_pure layers ⟨hne, ih⟩
  | record tag inner ht _ ih => exact recordFS_obs' tag inner (hlog tag ht) ih
  | fault inner _ ih => exact faultFS_obs' hfault inner ih
  | embedded s => exact (Stk.embedded_all_preserve s).obs

end wrappers

/-! ### statements about one leaf -/

/-- `I` is a statement about leaf `j` of the world only (not about other leaves, not about the
ghost fields), and the observers of leaf `j` keep it -/
structure LeafInv (I : World → Prop) (j : Nat) : Prop where
  ignores : ∀ i, i ≠ j → IgnoresLeaf I i
  leavesOnly : Stk.LeavesOnly I
  obs : (leafFS j).ObsPreserve I

namespace LeafInv
variable {I : World → Prop} {j : Nat}

theorem faultFree (h : LeafInv I j) : FaultFree I := fun w _ _ hw => h.leavesOnly w _ rfl hw

/-- values built without leaf `j`: every method keeps the statement about leaf `j` -/
theorem all (h : LeafInv I j) {fs : FS} (hfs : Built (· ≠ j) Any fs) : fs.AllPreserve I :=
  Built.all (fun i hi => leafFS_all_preserve i (h.ignores i hi))
    (fun tag _ m p p2 => Stk.logCall_pres h.leavesOnly tag m p p2) h.faultFree hfs

/-- values built from any leaves, leaf `j` included: the observers keep the statement -/
theorem obsAny (h : LeafInv I j) {fs : FS} (hfs : Built Any Any fs) : fs.ObsPreserve I :=
  Built.obs (fun i _ => by
      by_cases hij : i = j
      · subst hij; exact h.obs
      · exact (leafFS_all_preserve i (h.ignores i hij)).obs)
    (fun tag _ m p p2 _ => Stk.logCall_pres h.leavesOnly tag m p p2) h.faultFree hfs

end LeafInv

theorem sameLeaf_leavesOnly (j : Nat) (kind : LeafKind) (m0 : FMap) :
    Stk.LeavesOnly (SameLeaf j kind m0) := by
  intro w w' hl ⟨l, h1, h2, h3⟩
  refine ⟨l, ?_, h2, h3⟩
  unfold World.leaf? at *
  rw [hl]; exact h1

/-- leaf `j` holds the entries of `m0` up to access times -/
theorem sameLeaf_leafInv (j : Nat) (kind : LeafKind) (m0 : FMap) : LeafInv (SameLeaf j kind m0) j where
  ignores i hi := SameLeaf.ignores j i kind m0 hi
  leavesOnly := sameLeaf_leavesOnly j kind m0
  obs := leafFS_obs_same j kind m0

/-- the physical leaf `j` holds exactly the map `m0` (access times included) -/
def PhysExact (j : Nat) (m0 : FMap) (w : World) : Prop :=
  ∃ l, w.leaf? j = some l ∧ l.kind = .phys ∧ l.files = m0

theorem onLeaf_physExact {α} (j : Nat) (m0 : FMap) (f : Leaf → Res α × FMap)
    (hf : ∀ l, l.kind = .phys → (f l).2 = l.files) : Preserves (PhysExact j m0) (onLeaf j f) := by
  refine ⟨fun w ⟨l, h1, h2, h3⟩ => ?_⟩
  unfold onLeaf
  rw [h1]
  refine ⟨{ l with files := (f l).2 }, World.setLeafFiles_same w j l _ h1, h2, ?_⟩
  show (f l).2 = m0
  rw [hf l h2, h3]

theorem physExact_leafInv (j : Nat) (m0 : FMap) : LeafInv (PhysExact j m0) j where
  ignores i hi := by
    intro w f ⟨l, h1, h2, h3⟩
    exact ⟨l, by rw [World.leaf?_setLeafFiles_ne w i j f hi]; exact h1, h2, h3⟩
  leavesOnly := by
    intro w w' hl ⟨l, h1, h2, h3⟩
    refine ⟨l, ?_, h2, h3⟩
    unfold World.leaf? at *
    rw [hl]; exact h1
  obs :=
    { readDir := fun p => onLeaf_physExact j m0 _ (fun l hk => by rw [hk])
      openFile := fun p => onLeaf_physExact j m0 _ (fun l hk => by rw [hk])
      metadata := fun p => onLeaf_physExact j m0 _ (fun l hk => by rw [hk])
      exists_ := fun p => onLeaf_physExact j m0 _ (fun l hk => by rw [hk]) }

/-! ### instances: the leaves below the lower layers -/

def End.Off (j : Nat) : End → Prop
  | .here _ => True
  | .other q => Built (· ≠ j) Any q.fs

/-- the endpoints outside the overlay live on values built without leaf `j` -/
def POp.Off (j : Nat) : POp → Prop
  | .copyFile s d | .moveFile s d | .copyDir _ s d | .moveDir _ s d => s.Off j ∧ d.Off j
  | _ => True

theorem POp.Off.othersOK {I : World → Prop} {j : Nat} (hI : LeafInv I j) {o : POp} (h : o.Off j) :
    o.OthersOK I := by
  have he : ∀ e : End, e.Off j → e.OK I := by
    intro e he
    cases e with
    | here p => trivial
    | other q => exact hI.all he
  cases o <;> first | trivial | exact ⟨he _ h.1, he _ h.2⟩

/-- **The leaves below the lower layers are never modified** (arbitrary nesting). Overlay
`upper :: lowers`; the upper layer is any value built WITHOUT leaf `j`; the lower layers are any
values built from ANY leaves — leaf `j` itself, a directory of it, an altroot into it, another
overlay over it, recorded or faulty versions: nested adapters are instances; distinct filesystem
identities; endpoints outside the overlay built without leaf `j`. Every history keeps every
statement about leaf `j` that the observers of leaf `j` keep. -/
theorem lower_leaves_unchanged_history {I : World → Prop} (j : Nat) (hI : LeafInv I j)
    (upper : VPath) (lowers : List VPath)
    (hup : Built (· ≠ j) Any upper.fs)
    (hlow : ∀ l ∈ lowers, Built Any Any l.fs)
    (hid : ∀ l ∈ lowers, l.fsId ≠ upper.fsId)
    (root : VPath) (hroot : root.fs = Overlay.fs (upper :: lowers))
    (ops : List POp) (hops : ∀ o ∈ ops, o.Off j) (w : World) (hw : I w) :
    I (runHistory root ops w) :=
  lower_layers_never_modified_history' upper lowers (hI.all hup)
    (fun l hl => hI.obsAny (hlow l hl)) hid root hroot ops
    (fun o ho => (hops o ho).othersOK hI) w hw

/-- reading 1: leaf `j` (memory or physical) keeps its keys, types, bytes, creation and
modification times. The ACCESS times are excluded, and have to be: see `x_access_stamp_on_lower`. -/
theorem lower_leaves_unchanged_history_same (j : Nat) (kind : LeafKind) (m0 : FMap)
    (upper : VPath) (lowers : List VPath)
    (hup : Built (· ≠ j) Any upper.fs) (hlow : ∀ l ∈ lowers, Built Any Any l.fs)
    (hid : ∀ l ∈ lowers, l.fsId ≠ upper.fsId)
    (root : VPath) (hroot : root.fs = Overlay.fs (upper :: lowers))
    (ops : List POp) (hops : ∀ o ∈ ops, o.Off j) (w : World) (hw : SameLeaf j kind m0 w) :
    SameLeaf j kind m0 (runHistory root ops w) :=
  lower_leaves_unchanged_history j (sameLeaf_leafInv j kind m0) upper lowers hup hlow hid root hroot
    ops hops w hw

/-- reading 2: a PHYSICAL leaf `j` keeps its map exactly, access times included -/
theorem lower_leaves_unchanged_history_phys_exact (j : Nat) (m0 : FMap)
    (upper : VPath) (lowers : List VPath)
    (hup : Built (· ≠ j) Any upper.fs) (hlow : ∀ l ∈ lowers, Built Any Any l.fs)
    (hid : ∀ l ∈ lowers, l.fsId ≠ upper.fsId)
    (root : VPath) (hroot : root.fs = Overlay.fs (upper :: lowers))
    (ops : List POp) (hops : ∀ o ∈ ops, o.Off j) (w : World) (hw : PhysExact j m0 w) :
    PhysExact j m0 (runHistory root ops w) :=
  lower_leaves_unchanged_history j (physExact_leafInv j m0) upper lowers hup hlow hid root hroot
    ops hops w hw

/-- **Observer histories leave every leaf alone** — the upper layer's included — on ANY built
value: an overlay of leaves, an altroot over an overlay, an overlay whose layers are altroots,
… (`root.fs` is not even required to be an overlay). -/
theorem observers_leaves_unchanged_history {I : World → Prop} (j : Nat) (hI : LeafInv I j)
    (root : VPath) (hroot : Built Any Any root.fs)
    (ops : List POp) (hops : ∀ o ∈ ops, o.observer = true) (w : World) (hw : I w) :
    I (runHistory root ops w) :=
  observers_modify_nothing_history root (hI.obsAny hroot) ops hops w hw

theorem observers_leaves_unchanged_history_same (j : Nat) (kind : LeafKind) (m0 : FMap)
    (root : VPath) (hroot : Built Any Any root.fs)
    (ops : List POp) (hops : ∀ o ∈ ops, o.observer = true) (w : World)
    (hw : SameLeaf j kind m0 w) : SameLeaf j kind m0 (runHistory root ops w) :=
  observers_leaves_unchanged_history j (sameLeaf_leafInv j kind m0) root hroot ops hops w hw

theorem observers_leaves_unchanged_history_phys_exact (j : Nat) (m0 : FMap)
    (root : VPath) (hroot : Built Any Any root.fs)
    (ops : List POp) (hops : ∀ o ∈ ops, o.observer = true) (w : World)
    (hw : PhysExact j m0 w) : PhysExact j m0 (runHistory root ops w) :=
  observers_leaves_unchanged_history j (physExact_leafInv j m0) root hroot ops hops w hw

/-! ### instances: the ghost call log -/

theorem noMutation_faultFree (t : Nat) : FaultFree (NoMutation t) := fun _ _ _ hw => hw

/-- values whose recorders all carry tags other than `t` log nothing under tag `t` -/
theorem noMutation_all (t : Nat) {fs : FS} (h : Built Any (· ≠ t) fs) :
    fs.AllPreserve (NoMutation t) :=
  Built.all (fun i _ => leafFS_log t i)
    (fun tag ht m p p2 => C08.logCall_pres t tag m p p2 (fun h => absurd h ht))
    (noMutation_faultFree t) h

/-- the observers of any built value log observer calls only -/
theorem noMutation_obs (t : Nat) {fs : FS} (h : Built Any Any fs) :
    fs.ObsPreserve (NoMutation t) :=
  Built.obs (fun i _ => (leafFS_log t i).obs)
    (fun tag _ m p p2 hm => C08.logCall_pres t tag m p p2 (fun _ => hm))
    (noMutation_faultFree t) h

def End.Untagged (t : Nat) : End → Prop
  | .here _ => True
  | .other q => Built Any (· ≠ t) q.fs

def POp.Untagged (t : Nat) : POp → Prop
  | .copyFile s d | .moveFile s d | .copyDir _ s d | .moveDir _ s d => s.Untagged t ∧ d.Untagged t
  | _ => True

/-- **The call log of the lower layers contains observer calls only.** The lower layers are any
built values, with recorders tagged `t` anywhere in them (`recordFS t (leafFS j)` is the harness
setting); the upper layer and the endpoints outside the overlay carry other tags only. After
every history, every log entry tagged `t` is exists / metadata / read_dir / open_file. -/
theorem lower_log_clean_history (t : Nat) (upper : VPath) (lowers : List VPath)
    (hup : Built Any (· ≠ t) upper.fs)
    (hlow : ∀ l ∈ lowers, Built Any Any l.fs)
    (hid : ∀ l ∈ lowers, l.fsId ≠ upper.fsId)
    (root : VPath) (hroot : root.fs = Overlay.fs (upper :: lowers))
    (ops : List POp) (hops : ∀ o ∈ ops, o.Untagged t) (w : World) (hw : NoMutation t w) :
    NoMutation t (runHistory root ops w) := by
  apply lower_layers_never_modified_history' upper lowers (noMutation_all t hup)
    (fun l hl => noMutation_obs t (hlow l hl)) hid root hroot ops _ w hw
  intro o ho
  have he : ∀ e : End, e.Untagged t → e.OK (NoMutation t) := by
    intro e he
    cases e with
    | here p => trivial
    | other q => exact noMutation_all t he
  have h := hops o ho
  cases o <;> first | trivial | exact ⟨he _ h.1, he _ h.2⟩

/-- observer histories record no mutating call under ANY tag, on any built value -/
theorem observers_log_clean_history (t : Nat) (root : VPath) (hroot : Built Any Any root.fs)
    (ops : List POp) (hops : ∀ o ∈ ops, o.observer = true) (w : World) (hw : NoMutation t w) :
    NoMutation t (runHistory root ops w) :=
  observers_modify_nothing_history root (noMutation_obs t hroot) ops hops w hw

/-! ### kernel-evaluable twins (for the `decide` examples only)

`VPath.removeDirAll` is compiled by well-founded recursion, which the kernel does not unfold;
`rmAllH` is its structural twin (as `rmAll` in Proofs/TransferLemmas.lean, which cannot be
imported here), `runOpK` / `runHistoryK` / `outcomesK` use it and are EQUAL to the originals. -/

def rmChildrenWithH (rec : VPath → M Unit) : List VPath → M Unit
  | [] => pure ()
  | c :: rest => do
    let md ← c.metadata
    match md.ftype with
    | .file => c.removeFile
    | .dir => rec c
    rmChildrenWithH rec rest

def rmAllH : Nat → VPath → M Unit
  | 0, _ => M.ret .panic
  | fuel + 1, p => do
    if !(← p.exists_) then pure ()
    else
      let children ← p.readDir
      rmChildrenWithH (rmAllH fuel) children
      p.removeDir

theorem rmChildrenWithH_eq (fuel : Nat) (h : ∀ p, rmAllH fuel p = VPath.removeDirAll fuel p) :
    ∀ l, rmChildrenWithH (rmAllH fuel) l = VPath.removeChildren fuel l := by
  intro l
  induction l with
  | nil => rw [VPath.removeChildren.eq_1]; rfl
  | cons c rest ih =>
    rw [VPath.removeChildren.eq_2, rmChildrenWithH, ih, h c]
    rfl

theorem rmAllH_eq : ∀ fuel p, rmAllH fuel p = VPath.removeDirAll fuel p := by
  intro fuel
  induction fuel with
  | zero => intro p; rw [VPath.removeDirAll.eq_1]; rfl
  | succ fuel ih =>
    intro p
    rw [VPath.removeDirAll.eq_2, rmAllH]
    have := rmChildrenWithH_eq fuel ih
    simp only [this]

def moveDirH (fuel : Nat) (src dst : VPath) : M Unit :=
  M.withPath src.path (do
    if (← dst.exists_) then M.failAt .other dst.path
    else
      let fast ← (if src.fsId = dst.fsId then M.attempt (src.fs.moveDir src.path dst.path)
                  else pure (fail .notSupported))
      match fast with
      | .ok _ => pure ()
      | .panic => M.ret .panic
      | .err k p =>
        if k ≠ .notSupported then M.ret (.err k p)
        else
          dst.createDir
          let s ← src.walkDir
          let _ ← VPath.copyItems fuel src dst s 0
          rmAllH fuel src)

theorem moveDirH_eq (fuel : Nat) (src dst : VPath) :
    moveDirH fuel src dst = VPath.moveDir fuel src dst := by
  unfold moveDirH VPath.moveDir
  simp only [rmAllH_eq]
  rfl

def runOpK (root : VPath) : POp → M Unit
  | .removeDirAll fuel p => rmAllH fuel (root.withStr p)
  | .moveDir fuel s d => moveDirH fuel (s.path root) (d.path root)
  | o => runOp root o

theorem runOpK_eq (root : VPath) (o : POp) : runOpK root o = runOp root o := by
  cases o <;> first | rfl | exact rmAllH_eq _ _ | exact moveDirH_eq _ _ _

def runHistoryK (root : VPath) : List POp → World → World
  | [], w => w
  | o :: rest, w => runHistoryK root rest (runOpK root o w).2

def outcomesK (root : VPath) : List POp → World → List Bool
  | [], _ => []
  | o :: rest, w =>
    (match (runOpK root o w).1 with | .ok _ => true | _ => false) ::
      outcomesK root rest (runOpK root o w).2

theorem runHistoryK_eq (root : VPath) (ops : List POp) (w : World) :
    runHistoryK root ops w = runHistory root ops w := by
  induction ops generalizing w with
  | nil => rfl
  | cons o rest ih => simp only [runHistoryK, runHistory, runOpK_eq, ih]

theorem outcomesK_eq (root : VPath) (ops : List POp) (w : World) :
    outcomesK root ops w = outcomes root ops w := by
  induction ops generalizing w with
  | nil => rfl
  | cons o rest ih => (simp only [outcomesK, outcomes, runOpK_eq, ih]) <;> rfl

/-! ### non-vacuity: a 3-layer world and a history using every constructor of `POp`

upper = leaf 0 (fresh MemoryFS); layer 1 = leaf 1: "/d", "/d/x" = "1"; layer 2 = leaf 2: "/d",
"/d/x" = "2", "/d/c" = "3", "/e", "/e/z" = "Z"; leaf 3 = a separate fresh MemoryFS (the "other
filesystem of the world"). All stored access times are unset, so a stamp is visible. -/

def dE : Entry :=
  { ftype := .dir, content := [], created := .at 1, modified := .at 1, accessed := .unset }
def fE (bs : Bytes) : Entry :=
  { ftype := .file, content := bs, created := .at 1, modified := .at 1, accessed := .unset }

def xA : FMap := [([], dE), ("/d".toList, dE), ("/d/x".toList, fE [49])]
def xB : FMap := [([], dE), ("/d".toList, dE), ("/d/x".toList, fE [50]), ("/d/c".toList, fE [51]),
  ("/e".toList, dE), ("/e/z".toList, fE [90])]
def xW : World := { leaves := [{ kind := .mem, files := Mem.init }, { kind := .mem, files := xA },
  { kind := .mem, files := xB }, { kind := .mem, files := Mem.init }] }

def xUpper : VPath := { fs := leafFS 0, fsId := 0, path := [] }
def xLowers : List VPath :=
  [{ fs := leafFS 1, fsId := 1, path := [] }, { fs := leafFS 2, fsId := 2, path := [] }]
def xRoot : VPath := { fs := Overlay.fs (xUpper :: xLowers), fsId := 9, path := [] }
/-- a path of the separate filesystem (leaf 3) -/
def xOut (p : String) : End := .other { fs := leafFS 3, fsId := 3, path := p.toList }

/-- every constructor of `POp`; transfers inside the overlay, out of it and into it -/
def xOps : List POp := [
  .createDir "/n".toList,
  .createDirAll "/a/b/c".toList,
  .createSession "/d/y".toList [.write [1, 2], .seek (.start 0), .write [3], .flush, .write [4]],
  .appendSession "/d/x".toList [.write [7]],           -- copy-up from layer 1
  .removeFile "/d/c".toList,                           -- lives in layer 2 only: whiteout
  .removeDir "/e".toList,                              -- fails: not empty
  .removeDirAll 8 "/e".toList,                         -- lives in layer 2 only
  .copyFile (.here "/d/x".toList) (.here "/d/x2".toList),
  .moveFile (.here "/d/x2".toList) (xOut "/out"),
  .copyFile (xOut "/out") (.here "/n/in".toList),
  .copyDir 16 (.here "/d".toList) (.here "/dd".toList),
  .moveDir 16 (.here "/dd".toList) (xOut "/dd"),
  .moveDir 16 (.here "/a".toList) (.here "/a2".toList),
  .moveFile (.here "/d/y".toList) (.here "/d/y2".toList),
  .copyDir 16 (xOut "/dd") (.here "/back".toList),
  .setCreationTime "/d/x".toList 5,
  .setModificationTime "/d/x".toList 6,
  .setAccessTime "/d/x".toList 7,
  .setModificationTime "/d".toList 6,                  -- "/d" exists in the upper layer by now
  .exists_ "/d/x".toList,
  .metadata "/d/x".toList,
  .readDir "/d".toList,
  .readFile "/d/x".toList,
  .walk 40 [],
  .readToString "/d/y2".toList,
  .isFile "/d/x".toList,
  .isDir "/d".toList,
  .removeFile "/d/x".toList,                           -- lives in all three layers by now
  .exists_ "/d/x".toList,
  .readFile "/d/x".toList]                             -- fails: removed

def POp.ctor : POp → Nat
  | .createDir _ => 0 | .createDirAll _ => 1 | .createSession _ _ => 2 | .appendSession _ _ => 3
  | .removeFile _ => 4 | .removeDir _ => 5 | .removeDirAll _ _ => 6 | .copyFile _ _ => 7
  | .moveFile _ _ => 8 | .copyDir _ _ _ => 9 | .moveDir _ _ _ => 10 | .setCreationTime _ _ => 11
  | .setModificationTime _ _ => 12 | .setAccessTime _ _ => 13 | .exists_ _ => 14 | .metadata _ => 15
  | .readDir _ => 16 | .readFile _ => 17 | .walk _ _ => 18 | .readToString _ => 19
  | .isFile _ => 20 | .isDir _ => 21

/-- the history uses all 22 constructors -/
theorem xOps_all_kinds : (List.range 22).all (fun k => (xOps.map POp.ctor).contains k) = true := by
  decide

/-! the hypotheses of the theorems hold for this world -/

theorem xUpper_built (j : Nat) (hj : 0 ≠ j) : Built (· ≠ j) Any xUpper.fs := .leaf 0 hj

theorem xLowers_built : ∀ l ∈ xLowers, Built Any Any l.fs := by
  intro l hl
  simp only [xLowers, List.mem_cons, List.mem_nil_iff, or_false] at hl
  rcases hl with rfl | rfl
  · exact .leaf 1 trivial
  · exact .leaf 2 trivial

theorem xLowers_ids : ∀ l ∈ xLowers, l.fsId ≠ xUpper.fsId := by
  intro l hl
  simp only [xLowers, List.mem_cons, List.mem_nil_iff, or_false] at hl
  rcases hl with rfl | rfl <;> decide

theorem xOps_off (j : Nat) (hj : 3 ≠ j) : ∀ o ∈ xOps, o.Off j := by
  have h3 : ∀ p, (xOut p).Off j := fun p => Built.leaf 3 hj
  have hh : ∀ p, (End.here p).Off j := fun _ => trivial
  simp only [xOps, List.forall_mem_cons]
  refine ⟨?_, ?_, ?_, ?_, ?_, ?_, ?_, ?_, ?_, ?_, ?_, ?_, ?_, ?_, ?_, ?_, ?_, ?_, ?_, ?_, ?_, ?_,
    ?_, ?_, ?_, ?_, ?_, ?_, ?_, ?_, ?_⟩
  all_goals first
    | trivial | exact ⟨hh _, hh _⟩ | exact ⟨hh _, h3 _⟩ | exact ⟨h3 _, hh _⟩ | (intro x hx; cases hx)

theorem xW_same1 : SameLeaf 1 .mem xA xW := ⟨_, rfl, rfl, fun _ => rfl⟩
theorem xW_same2 : SameLeaf 2 .mem xB xW := ⟨_, rfl, rfl, fun _ => rfl⟩

/-- **the theorem applied**: after the whole history both lower leaves hold what they held -/
theorem x_lower1_unchanged : SameLeaf 1 .mem xA (runHistory xRoot xOps xW) :=
  lower_leaves_unchanged_history_same 1 .mem xA xUpper xLowers (xUpper_built 1 (by decide))
    xLowers_built xLowers_ids xRoot rfl xOps (xOps_off 1 (by decide)) xW xW_same1

theorem x_lower2_unchanged : SameLeaf 2 .mem xB (runHistory xRoot xOps xW) :=
  lower_leaves_unchanged_history_same 2 .mem xB xUpper xLowers (xUpper_built 2 (by decide))
    xLowers_built xLowers_ids xRoot rfl xOps (xOps_off 2 (by decide)) xW xW_same2

/-- the history is not a list of failures: 28 of the 30 calls succeed (`remove_dir` of the
non-empty "/e" and the read after the removal fail, as they should) -/
theorem xOps_outcomes : outcomes xRoot xOps xW =
    [true, true, true, true, true, false, true, true, true, true, true, true, true, true, true, true,
     true, true, true, true, true, true, true, true, true, true, true, true, true, false] := by
  rw [← outcomesK_eq]; decide +kernel

/-- entries without access times, in a fixed order of keys -/
def stripped (w : World) (j : Nat) (keys : List Str) : List (Option Entry) :=
  keys.map fun k => ((w.leaf? j).bind fun l => l.files.find? k).map stripAcc

/-- evaluated independently of the theorem: the upper leaf and leaf 3 have changed (29 and 5
entries), layer 2 is bit-for-bit what it was, layer 1 holds the same entries up to access times … -/
theorem x_evaluated :
    ((runHistory xRoot xOps xW).leaves.map (·.files.length) = [29, 3, 6, 5]) ∧
    ((runHistory xRoot xOps xW).leaf? 2 = xW.leaf? 2) ∧
    (stripped (runHistory xRoot xOps xW) 1 xA.keys = stripped xW 1 xA.keys) := by
  rw [← runHistoryK_eq]; decide +kernel

/-- … and NOT bit for bit: "/d/x" of layer 1 carries an access stamp it did not have (the
copy-up of the append session and the reads went through `open_file` of layer 1) -/
theorem x_layer1_stamped :
    (((runHistory xRoot xOps xW).leaf? 1).bind fun l => l.files.find? "/d/x".toList).map (·.accessed)
      = some .now ∧
    ((xW.leaf? 1).bind fun l => l.files.find? "/d/x".toList).map (·.accessed) = some .unset := by
  rw [← runHistoryK_eq]; decide +kernel

/-- **the access stamp, in isolation**: ONE observer call through the overlay (open_file + read
of a file that lives in a lower layer) changes that lower memory leaf — in the `accessed` field of
the file, and in nothing else. This is the code's behaviour (memory.rs `open_file`:
`file.accessed = Some(SystemTime::now())` under the write lock), not an artefact of the model. -/
theorem x_access_stamp_on_lower :
    (runHistory xRoot [.readFile "/d/x".toList] xW).leaf? 1 ≠ xW.leaf? 1 ∧
    (((runHistory xRoot [.readFile "/d/x".toList] xW).leaf? 1).bind
        fun l => l.files.find? "/d/x".toList) = some { fE [49] with accessed := .now } ∧
    stripped (runHistory xRoot [.readFile "/d/x".toList] xW) 1 xA.keys = stripped xW 1 xA.keys ∧
    (runHistory xRoot [.readFile "/d/x".toList] xW).leaf? 0 = xW.leaf? 0 := by
  decide +kernel

/-- the same stamp through a MUTATOR of the overlay: `append_file` copies the file up, reading
it from layer 1 with `open_file` -/
theorem x_copy_up_stamps_lower :
    (((runHistory xRoot [.appendSession "/d/x".toList []] xW).leaf? 1).bind
        fun l => l.files.find? "/d/x".toList) = some { fE [49] with accessed := .now } := by
  decide +kernel

/-! a physical lower layer: exact, access times included -/

def xWp : World := { leaves := [{ kind := .mem, files := Mem.init }, { kind := .phys, files := xA },
  { kind := .mem, files := xB }, { kind := .mem, files := Mem.init }] }

theorem x_phys_lower_exact : PhysExact 1 xA (runHistory xRoot xOps xWp) :=
  lower_leaves_unchanged_history_phys_exact 1 xA xUpper xLowers (xUpper_built 1 (by decide))
    xLowers_built xLowers_ids xRoot rfl xOps (xOps_off 1 (by decide)) xWp ⟨_, rfl, rfl, rfl⟩

theorem x_phys_evaluated :
    (runHistory xRoot xOps xWp).leaf? 1 = xWp.leaf? 1 ∧
    (outcomes xRoot xOps xWp).count true = 28 := by
  rw [← runHistoryK_eq, ← outcomesK_eq]; decide +kernel

/-! ### observers only: overlay of leaves, altroot over the overlay, overlay of altroots -/

/-- the observers of the history above, and some on missing paths and directories -/
def xObs : List POp := [
  .exists_ "/d/x".toList, .metadata "/d/x".toList, .readDir "/d".toList, .readFile "/d/x".toList,
  .walk 40 [], .readToString "/d/c".toList, .isFile "/d/x".toList, .isDir "/d".toList,
  .readFile "/d".toList, .readToString "/nope".toList, .readDir "/d/x".toList, .metadata [],
  .readFile "/x".toList, .readDir [], .readFile "/c".toList]

theorem xObs_observers : ∀ o ∈ xObs, o.observer = true := by decide

/-- `AltrootFS` over the overlay, rooted at "/d" -/
def xAltOverOvl : VPath :=
  { fs := Altroot.fs { fs := xRoot.fs, fsId := 9, path := "/d".toList }, fsId := 10, path := [] }

/-- an overlay whose three layers are altroots (at "/d" of leaves 1 and 2, and at the root of
leaf 0) -/
def xOvlOfAlts : VPath :=
  { fs := Overlay.fs [
      { fs := Altroot.fs { fs := leafFS 0, fsId := 0, path := [] }, fsId := 20, path := [] },
      { fs := Altroot.fs { fs := leafFS 1, fsId := 1, path := "/d".toList }, fsId := 21, path := [] },
      { fs := Altroot.fs { fs := leafFS 2, fsId := 2, path := "/d".toList }, fsId := 22, path := [] }],
    fsId := 23, path := [] }

theorem xRoot_built : Built Any Any xRoot.fs := by
  apply Built.ovl _ (by simp)
  intro l hl
  simp only [List.mem_cons] at hl
  rcases hl with rfl | hl
  · exact .leaf 0 trivial
  · exact xLowers_built l hl

theorem xAltOverOvl_built : Built Any Any xAltOverOvl.fs := .alt _ xRoot_built

theorem xOvlOfAlts_built : Built Any Any xOvlOfAlts.fs := by
  apply Built.ovl _ (by simp)
  intro l hl
  simp only [List.mem_cons, List.mem_nil_iff, or_false] at hl
  rcases hl with rfl | rfl | rfl
  · exact .alt _ (.leaf 0 trivial)
  · exact .alt _ (.leaf 1 trivial)
  · exact .alt _ (.leaf 2 trivial)

/-- **the theorem applied**: every leaf — the upper layer's too — keeps its entries under the
observer history, through each of the three stackings (`m0` is whatever the leaf holds) -/
theorem x_observers_unchanged (root : VPath)
    (hroot : root = xRoot ∨ root = xAltOverOvl ∨ root = xOvlOfAlts) (j : Nat) (kind : LeafKind)
    (m0 : FMap) (hw : SameLeaf j kind m0 xW) : SameLeaf j kind m0 (runHistory root xObs xW) := by
  apply observers_leaves_unchanged_history_same j kind m0 root _ xObs xObs_observers xW hw
  rcases hroot with rfl | rfl | rfl
  · exact xRoot_built
  · exact xAltOverOvl_built
  · exact xOvlOfAlts_built

/-- evaluated: through each stacking most calls succeed, the upper leaf and leaf 3 are
bit-for-bit unchanged, the lower leaves are unchanged up to access times (and they ARE stamped) -/
theorem x_observers_evaluated :
    outcomes xRoot xObs xW =
      [true, true, true, true, true, true, true, true, false, false, false, true, false, true, false] ∧
    (outcomes xAltOverOvl xObs xW).count true = 8 ∧
    (outcomes xOvlOfAlts xObs xW).count true = 8 ∧
    (∀ root ∈ [xRoot, xAltOverOvl, xOvlOfAlts],
      (runHistory root xObs xW).leaf? 0 = xW.leaf? 0 ∧
      (runHistory root xObs xW).leaf? 3 = xW.leaf? 3 ∧
      stripped (runHistory root xObs xW) 1 xA.keys = stripped xW 1 xA.keys ∧
      stripped (runHistory root xObs xW) 2 xB.keys = stripped xW 2 xB.keys ∧
      (runHistory root xObs xW).leaf? 1 ≠ xW.leaf? 1) := by
  decide +kernel

/-! ### nested lower layers, and the call log -/

/-- layer 1 is itself an overlay (leaf 1 over leaf 2) behind a recorder tagged 1, layer 2 is an
altroot into leaf 2 behind a recorder tagged 1; the upper layer is recorded under tag 0 -/
def xNested : VPath :=
  { fs := Overlay.fs [
      { fs := recordFS 0 (leafFS 0), fsId := 0, path := [] },
      { fs := recordFS 1 (Overlay.fs xLowers), fsId := 30, path := [] },
      { fs := recordFS 1 (Altroot.fs { fs := leafFS 2, fsId := 2, path := "/e".toList }),
        fsId := 31, path := [] }],
    fsId := 32, path := [] }

def xNestedUpper : VPath := { fs := recordFS 0 (leafFS 0), fsId := 0, path := [] }
def xNestedLowers : List VPath := [
  { fs := recordFS 1 (Overlay.fs xLowers), fsId := 30, path := [] },
  { fs := recordFS 1 (Altroot.fs { fs := leafFS 2, fsId := 2, path := "/e".toList }),
    fsId := 31, path := [] }]

theorem xNestedLowers_built : ∀ l ∈ xNestedLowers, Built Any Any l.fs := by
  intro l hl
  simp only [xNestedLowers, List.mem_cons, List.mem_nil_iff, or_false] at hl
  rcases hl with rfl | rfl
  · exact .record 1 _ trivial (.ovl _ (by simp [xLowers]) xLowers_built)
  · exact .record 1 _ trivial (.alt _ (.leaf 2 trivial))

theorem xNestedLowers_ids : ∀ l ∈ xNestedLowers, l.fsId ≠ xNestedUpper.fsId := by
  intro l hl
  simp only [xNestedLowers, List.mem_cons, List.mem_nil_iff, or_false] at hl
  rcases hl with rfl | rfl <;> decide

theorem xOps_untagged : ∀ o ∈ xOps, o.Untagged 1 := by
  have h3 : ∀ p, (xOut p).Untagged 1 := fun p => Built.leaf 3 trivial
  have hh : ∀ p, (End.here p).Untagged 1 := fun _ => trivial
  simp only [xOps, List.forall_mem_cons]
  refine ⟨?_, ?_, ?_, ?_, ?_, ?_, ?_, ?_, ?_, ?_, ?_, ?_, ?_, ?_, ?_, ?_, ?_, ?_, ?_, ?_, ?_, ?_,
    ?_, ?_, ?_, ?_, ?_, ?_, ?_, ?_, ?_⟩
  all_goals first
    | trivial | exact ⟨hh _, hh _⟩ | exact ⟨hh _, h3 _⟩ | exact ⟨h3 _, hh _⟩ | (intro x hx; cases hx)

/-- **nested lower layers (item 4)**: the leaves under a lower layer that is itself an overlay,
or an altroot, are unchanged after the whole history -/
theorem x_nested_unchanged :
    SameLeaf 1 .mem xA (runHistory xNested xOps xW) ∧ SameLeaf 2 .mem xB (runHistory xNested xOps xW) :=
  ⟨lower_leaves_unchanged_history_same 1 .mem xA xNestedUpper xNestedLowers
      (.record 0 _ trivial (.leaf 0 (by decide))) xNestedLowers_built xNestedLowers_ids xNested rfl
      xOps (xOps_off 1 (by decide)) xW xW_same1,
   lower_leaves_unchanged_history_same 2 .mem xB xNestedUpper xNestedLowers
      (.record 0 _ trivial (.leaf 0 (by decide))) xNestedLowers_built xNestedLowers_ids xNested rfl
      xOps (xOps_off 2 (by decide)) xW xW_same2⟩

/-- **the call log**: after the whole history no mutating call is recorded under tag 1 (the two
lower layers) -/
theorem x_nested_log_clean : NoMutation 1 (runHistory xNested xOps xW) :=
  lower_log_clean_history 1 xNestedUpper xNestedLowers
    (.record 0 _ (by decide) (.leaf 0 trivial)) xNestedLowers_built xNestedLowers_ids xNested rfl
    xOps xOps_untagged xW (by intro e he; cases he)

/-- evaluated (on the first 12 calls of the history, to keep the kernel evaluation short: the
log already has 482 entries there; the statement for the WHOLE history is `x_nested_log_clean`):
the lower layers WERE called (observer calls under tag 1 are in the log), the upper layer
received mutating calls (tag 0), no entry tagged 1 is a mutating one, leaf 2 is bit-for-bit
what it was -/
theorem x_nested_log_evaluated :
    (((runHistory xNested (xOps.take 12) xW).log.filter (·.tag = 1)).length > 0) ∧
    (((runHistory xNested (xOps.take 12) xW).log.filter (·.tag = 1)).all
        (fun e => !e.method.mutating) = true) ∧
    (((runHistory xNested (xOps.take 12) xW).log.filter
        (fun e => e.tag = 0 && e.method.mutating)).length > 0) ∧
    (runHistory xNested (xOps.take 12) xW).leaf? 2 = xW.leaf? 2 := by
  rw [← runHistoryK_eq]; decide +kernel

end Vfs.C08

section audit
open Vfs.C08
#print axioms lower_layers_never_modified_history
#print axioms lower_layers_never_modified_history'
#print axioms observers_modify_nothing_history
#print axioms overlay_observers_modify_nothing_history
#print axioms lower_leaves_unchanged_history
#print axioms lower_leaves_unchanged_history_same
#print axioms lower_leaves_unchanged_history_phys_exact
#print axioms observers_leaves_unchanged_history
#print axioms lower_log_clean_history
#print axioms observers_log_clean_history
#print axioms x_lower1_unchanged
#print axioms xOps_outcomes
#print axioms x_evaluated
#print axioms x_access_stamp_on_lower
#print axioms x_copy_up_stamps_lower
#print axioms x_phys_evaluated
#print axioms x_observers_evaluated
#print axioms x_nested_unchanged
#print axioms x_nested_log_clean
#print axioms x_nested_log_evaluated
end audit
