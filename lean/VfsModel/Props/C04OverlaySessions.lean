/-
  C04 THROUGH THE OVERLAY for write sessions with ARBITRARY scripts of write / seek / flush
  actions — create AND append sessions, any list of them on one path, n ≥ 1 in-memory layers.
  (Props/C04Sessions.lean has this for the in-memory backend and altroots; Props/C04Overlay.lean
  for append sessions under layer-level hypotheses; Props/C09Contract.lean / C01Overlay.lean for
  sessions that consist of one `write_all`. This file closes the gap: any script, both kinds of
  session, hypotheses read off the VIEW, invariants re-established, so lists go by induction.)

  SPECIFICATION (Proofs/SessionLemmas.lean, independent of the handle code): `Act = write bs |
  flush | seek s`, `specWrite`/`specSeek`/`specRun` (= `std::io::Cursor<Vec<u8>>`; a failing seek
  leaves vector and position alone), `Session = create acts | append acts`, `specSession`,
  `specSessions`. MODEL SIDE: `Session.run P s` (`VfsPath::create_file` / `append_file`, the
  actions through the handle, drop), `runSessions P ss w`, with
  `P = ovP u idu is ids oid p = ⟨Overlay.fs (layersN (u :: is) (idu :: ids)), oid, p⟩`.

  SETTING (as Props/C09Contract.lean / C01Overlay.lean): `OWN w (u :: is) (idu :: ids) (mu :: ms)`
  (pairwise distinct memory leaves whose roots are the layers; `mu` upper, `ms` lower maps),
  `OInv mu ms`, `ViewWF (oview (mu :: ms))` — both invariants, re-established by every theorem
  here —, the path discipline `OpPath (ds ++ [n])`, `p = renderC (ds ++ [n])`, ANY identity `oid`.
  Per-path hypothesis `VReady v ds n c`, read off the view `v = oview (mu :: ms)`: the parent
  `renderC ds` is a directory of the view, and the view shows at `p` nothing (`c = none`) or a
  FILE with bytes `bs` (`c = some bs`) — in whichever layer (`VHolds`; `vholds_of_firstAt`: with no
  marker, the FIRST layer that has `p` decides). Nothing is assumed about what the individual
  layers hold at `p` (upper file, several lower files, a whiteout marker, nothing).

  PROVED (no sorry; axioms ⊆ {propext, Classical.choice, Quot.sound})
   0. `Opened mu ms p muS ms'` (the overlay state while/after a write handle on `p` exists: base
      map with a file at `p`, marker of `p` cleared, lower maps up to access stamps), `Opened.step`
      (any change of the upper map at the key `p` only), `Opened.spec` (⇒ `OInv`, the upper entry
      IS the view's entry at `p`, `VFrame` for all other visible paths). This is the bridge
      "write-layer map ↦ view" that lets the in-memory session lemmas (`applyActs_mem`,
      `runActs_mem`) be reused unchanged.
   1. `overlay_open_exact`   the open of a session (with the `get_parent` probe of
      `VfsPath::create_file`; with `ensure_has_parent` + copy-up from the first layer for
      `append_file`) returns the in-memory handle `memH u p b0 n0` on the UPPER leaf with the
      specification's start state (`startOf`: create ⇒ ([], 0); append ⇒ (view bytes, length)),
      and leaves an `Opened` world; create: lower maps literally unchanged.
      `overlay_session_exact`   one session, any script: outcome `sessOutcome` (`Ok`;
      `FileNotFound(p)` for an append on an absent path); world in the setting; `LowerSame ms ms'`
      (`ms' = ms` for create); `OInv`, `ViewWF` again; the view holds at `p` exactly
      `specSession c s` and the parent is still a directory (`VReady` again); `VFrame`: every other
      visible path keeps type and bytes.
      `overlay_create_session_exact`   (task item 1) hypotheses: parent a directory of the view,
      `p` not a directory of the view. Conclusion: `Ok`; `OWN … (mu' :: ms)` (lower maps
      unchanged); invariants; `VContract v (.write p new) (.ok ()) v'` and `VEffect v v' (.write p
      new)` with `new = (specRun [] 0 acts).1` — for the view the session IS one write of the
      specified bytes, whatever `p` held before in any layer; fresh `open_file` = `new`,
      `metadata.len = new.length`.
      `overlay_append_session_exact`   (task item 2) hypothesis: the view shows a file `old` at
      `p`. Conclusion: `Ok`; `LowerSame`; invariants; view at `p` = `(specRun old old.length
      acts).1`; `VFrame`; fresh `open_file`, `metadata`. `overlay_append_session_first_layer`:
      the same with the hypothesis spelled out by layers (`FirstAt … k m`, no marker): the bytes of
      the FIRST layer that has the file are continued, whatever deeper layers hold.
   2. `overlay_seek_errors_harmless`   a seek the specification rejects, anywhere in a script
      of a create or append session through the overlay: the session with it and without it are
      equal on this world (outcome and final world), and `specSession` agrees.
      `overlay_flush_visible`   script `pre ++ flush :: post`: right after the flush (handle still
      open) the world is in the setting, `OInv` holds, the VIEW shows at `p` exactly
      `(specRun b0 n0 pre).1`, `VFrame` for the rest, and a fresh `open_file` THROUGH THE OVERLAY
      returns exactly those bytes; running `post` and dropping the same handle ends as the whole
      session (`specSession`), invariants and frame included. (Every mid-session flush: split
      the script at it.)
   3. `overlay_sessions_exact`   (task item 3) ANY list of create / append sessions on `p`
      (failing appends on an absent path included; the world may still change under a failing
      append — `ensure_has_parent` materialises parents — but the view does not): final world in
      the setting, `LowerSame`, `OInv`, `ViewWF`, view at `p` = `specSessions c ss`, `VFrame`.
      `overlay_sessions_read_exact`   afterwards a fresh `open_file` through the overlay reads
      exactly those bytes; `read_to_end`; chunks of ANY sizes give `bs.take (Σ sizes)` (all of
      `bs` once they add up; side condition `bs.length < 2^64`); `readToEndChecked`; `metadata.len
      = bs.length`; if the list leaves the path absent: `FileNotFound(p)`.
      (`overlay_read_holds`, `overlay_read_absent`: the single-call facts, from the view.)
   4. Non-vacuity (task item 4), the 3-layer world `xw` of Props/C09Refine.lean: a 3-session
      history on "/d/x" (append continuing layer 1's "1" — not layer 2's "2" — with seek-back
      overwrite and flush; create with gap zero-fill, mid-session flush, FAILING seek, overwrite;
      append with a failing seek): specification by `decide`, model run read back / metadata by
      `decide +kernel`; append on a file only layer 2 has; failing append; `VReady`, `OpPath`,
      `FirstAt` instantiated and every main theorem applied to that world.

  NOT PROVED HERE
   * layers that are not roots of memory leaves (sub-directories, altroots, nested overlays,
     physical / embedded lower layers); an altroot on top of the overlay;
   * paths violating the discipline `OpPath` (components ending in "_wo", inside ".whiteout");
   * sessions on a path that is a DIRECTORY of the view or below a non-directory parent (the open
     fails; C09Contract covers the outcome for the one-write sessions);
   * "lower layers unchanged" is `LowerSame` (equal up to access stamps) for append sessions —
     literally what the code does: the copy-up opens the lower file and MemoryFS stamps its
     access time; for create sessions it is equality;
   * two handles open at once on the same path (C16/C17), positions ≥ 2^64 reached by `write`.
-/
import VfsModel.Props.C01Overlay
set_option linter.unusedSimpArgs false
set_option linter.unusedVariables false
set_option linter.unusedSectionVars false
namespace Vfs.C04
open Vfs Vfs.Overlay Vfs.C02 Vfs.C09 Vfs.C14

/-! ## 0. map-level preliminaries -/

/-- replacing the FILE at `p` by another entry keeps a map well-formed -/
theorem wf_replace_file {m m' : FMap} {p : Str} {e e' : Entry} (hwf : WF m)
    (he : m.find? p = some e) (hf : e.ftype = .file) (he' : m'.find? p = some e')
    (hfr : ∀ k, k ≠ p → m'.find? k = m.find? k) : WF m' := by
  obtain ⟨⟨r, hr, hrd⟩, hall⟩ := hwf
  have hpar : ∀ k pe, m.find? k = some pe → pe.ftype = .dir → m'.find? k = some pe := by
    intro k pe hk hd
    have : k ≠ p := by
      intro h0; subst h0; rw [he] at hk; injection hk with hk; subst hk; rw [hf] at hd; cases hd
    rw [hfr k this]; exact hk
  refine ⟨⟨r, hpar _ _ hr hrd, hrd⟩, ?_⟩
  intro k ek hk hk0
  by_cases hkp : k = p
  · subst hkp
    obtain ⟨hs, pe, hpe, hpd⟩ := hall k e he hk0
    exact ⟨hs, pe, hpar _ _ hpe hpd, hpd⟩
  · rw [hfr k hkp] at hk
    obtain ⟨hs, pe, hpe, hpd⟩ := hall k ek hk hk0
    exact ⟨hs, pe, hpar _ _ hpe hpd, hpd⟩

theorem VFrame.trans {a b c : View} {p : Str} (h1 : VFrame a b p) (h2 : VFrame b c p) :
    VFrame a c p := fun q hq hne => (h2 q hq hne).trans (h1 q hq hne)

/-- **the state of the overlay while a write handle on `p` is open** (and after it was dropped):
the upper map `muS` is a base map `mu1` — in order with the lower maps `ms` and showing the same
view as `mu :: ms` — with a FILE put at `p` and the marker of `p` cleared; the lower maps `ms'` are
`ms` up to access stamps. -/
def Opened (mu : FMap) (ms : List FMap) (p : Str) (muS : FMap) (ms' : List FMap) : Prop :=
  LowerSame ms ms' ∧ WF muS ∧ ∃ mu1 eS, OInv mu1 ms ∧ VSame (oview (mu :: ms)) (oview (mu1 :: ms)) ∧
    eS.ftype = .file ∧
    ∀ k, muS.find? k = if k = p then some eS else if k = marker p then none else mu1.find? k

/-- any change of the upper map that leaves a file at `p` and touches no other key keeps `Opened` -/
theorem Opened.step {mu : FMap} {ms : List FMap} {p : Str} {muS m' : FMap} {ms' : List FMap}
    (ho : Opened mu ms p muS ms') {e' : Entry} (he' : m'.find? p = some e') (hf' : e'.ftype = .file)
    (hfr : ∀ k, k ≠ p → m'.find? k = muS.find? k) : Opened mu ms p m' ms' := by
  obtain ⟨hls, hwf, mu1, eS, inv1, hs1, hfS, hS⟩ := ho
  refine ⟨hls, wf_replace_file hwf (by rw [hS, if_pos rfl]) hfS he' hfr, mu1, e', inv1, hs1, hf', ?_⟩
  intro k
  by_cases hk : k = p
  · rw [if_pos hk, hk]; exact he'
  · rw [if_neg hk, hfr k hk, hS, if_neg hk]

/-- what `Opened` says about the VIEW: the hidden state is in order, the upper entry at `p` is what
the view shows at `p`, and every other visible path shows what it showed before (type and bytes) -/
theorem Opened.spec {mu : FMap} {ms : List FMap} {muS : FMap} {ms' : List FMap} {ds : List Str}
    {n : Str} (hp : OpPath (ds ++ [n])) (ho : Opened mu ms (renderC (ds ++ [n])) muS ms') :
    OInv muS ms' ∧ ∃ eS, muS.find? (renderC (ds ++ [n])) = some eS ∧ eS.ftype = .file ∧
      viewN (muS :: ms') (renderC (ds ++ [n])) = some eS ∧
      oview (muS :: ms') (renderC (ds ++ [n])) = some eS ∧
      VFrame (oview (mu :: ms)) (oview (muS :: ms')) (renderC (ds ++ [n])) := by
  obtain ⟨hls, hwf, mu1, eS, inv1, hs1, hfS, hS⟩ := ho
  obtain ⟨inv2, hself, hfr⟩ := insert_spec inv1 hp eS muS hS hwf
  have hfind : muS.find? (renderC (ds ++ [n])) = some eS := by rw [hS, if_pos rfl]
  have hmk : muS.contains (marker (renderC (ds ++ [n]))) = false := by
    unfold FMap.contains
    rw [hS, if_neg (C10.marker_ne_self ds n), if_pos rfl]; rfl
  have hview : viewN (muS :: ms') (renderC (ds ++ [n])) = some eS := viewN_upper hmk hfind
  refine ⟨inv2.lowerSame hls, eS, hfind, hfS, hview, by rw [oview_NR hp.nr]; exact hview, ?_⟩
  exact VFrame.same_trans (VFrame.trans_same hs1 (exact_frame hfr)) (oview_lowerSame _ hls)

/-! ## 1. sessions: definitions on the model side and on the view side -/

/-- opening the handle of a session -/
def Session.opener (P : VPath) : Session → M WHandle
  | .create _ => P.createFile
  | .append _ => P.appendFile

/-- the same kind of session with another script -/
def Session.withActs : Session → List Act → Session
  | .create _, a => .create a
  | .append _, a => .append a

/-- the vector and the position a session starts from (`none`: the open fails) -/
def startOf : Option Bytes → Session → Option (Bytes × Nat)
  | _, .create _ => some ([], 0)
  | some old, .append _ => some (old, old.length)
  | none, .append _ => none

theorem specSession_eq_startOf (c : Option Bytes) (s : Session) :
    specSession c s = (startOf c s).map fun st => (specRun st.1 st.2 s.acts).1 := by
  cases s <;> cases c <;> rfl

theorem startOf_withActs (c : Option Bytes) (s : Session) (a : List Act) :
    startOf c (s.withActs a) = startOf c s := by
  cases s <;> cases c <;> rfl

theorem Session.acts_withActs (s : Session) (a : List Act) : (s.withActs a).acts = a := by
  cases s <;> rfl

theorem Session.opener_withActs (P : VPath) (s : Session) (a : List Act) :
    (s.withActs a).opener P = s.opener P := by
  cases s <;> rfl

theorem Session.run_eq_opener (P : VPath) (s : Session) :
    s.run P = (do let h ← s.opener P; C03.runActs h s.acts) := by
  cases s <;> rfl

/-- the outcome of a session according to the specification: `Ok`, except for an append on an
absent path (`FileNotFound`, labelled with the path) -/
def sessOutcome (p : Str) (c : Option Bytes) : Session → Res Unit
  | .create _ => .ok ()
  | .append _ => match c with
    | some _ => .ok ()
    | none => .err .fileNotFound (some p)

/-- the view shows at `p`: nothing (`none`) / a FILE with exactly these bytes (`some bs`) -/
def VHolds (v : View) (p : Str) : Option Bytes → Prop
  | none => VAbsent v p
  | some bs => VHasFile v p bs

/-- the hypotheses on the path `ds ++ [n]` read off the VIEW: its parent is a directory of the
view and the path itself is absent (`c = none`) or a FILE with bytes `bs` (`c = some bs`) — in
whichever layer -/
structure VReady (v : View) (ds : List Str) (n : Str) (c : Option Bytes) : Prop where
  parent : VIsDir v (renderC ds)
  holds : VHolds v (renderC (ds ++ [n])) c

theorem VHolds.not_dir {v : View} {p : Str} {c : Option Bytes} (h : VHolds v p c) :
    ¬ VIsDir v p := by
  intro hd
  cases c with
  | none => exact not_absent_of_dir hd h
  | some bs => obtain ⟨e, he, hf, _⟩ := h; exact not_file_and_dir ⟨e, he, hf⟩ hd

theorem VHolds.unique {v : View} {p : Str} {a b : Option Bytes} (ha : VHolds v p a)
    (hb : VHolds v p b) : a = b := by
  cases a with
  | none =>
    cases b with
    | none => rfl
    | some y =>
      obtain ⟨e, he, _⟩ := hb
      simp only [VHolds, VAbsent] at ha; rw [ha] at he; cases he
  | some x =>
    obtain ⟨e, he, _, hc⟩ := ha
    cases b with
    | none => simp only [VHolds, VAbsent] at hb; rw [hb] at he; cases he
    | some y =>
      obtain ⟨e', he', _, hc'⟩ := hb
      rw [he] at he'; injection he' with he'; subst he'
      rw [← hc, ← hc']

/-- the FIRST layer that has the path decides what the view holds (no marker in the upper map):
this is how `VHolds … (some bs)` reads in terms of layers -/
theorem vholds_of_firstAt {mu : FMap} {ms : List FMap} {ds : List Str} {n : Str}
    (hp : OpPath (ds ++ [n])) (hmk : mu.contains (marker (renderC (ds ++ [n]))) = false)
    {k : Nat} {m : FMap} (hfirst : FirstAt (mu :: ms) (renderC (ds ++ [n])) k m) {e : Entry}
    (he : m.find? (renderC (ds ++ [n])) = some e) (hf : e.ftype = .file) :
    VHolds (oview (mu :: ms)) (renderC (ds ++ [n])) (some e.content) := by
  refine ⟨e, ?_, hf, rfl⟩
  rw [oview_NR hp.nr, viewN_unmarked hmk, firstN_of_firstAt hfirst, he]

/-! ## 2. opening a session through the overlay -/

section settingN
variable {w : World} {u idu : Nat} {mu : FMap} {is ids : List Nat} {ms : List FMap}
  (h : OWN w (u :: is) (idu :: ids) (mu :: ms)) (inv : OInv mu ms)
  (hv : ViewWF (oview (mu :: ms))) {ds : List Str} {n : Str} (hp : OpPath (ds ++ [n])) (oid : Nat)
include h inv hv hp

/-- the overlay path the sessions run on -/
abbrev ovP (u idu : Nat) (is ids : List Nat) (oid : Nat) (p : Str) : VPath :=
  { fs := Overlay.fs (layersN (u :: is) (idu :: ids)), fsId := oid, path := p }

/-- **opening a session through the overlay.** Whatever layer serves `p` (or none): the open
returns the IN-MEMORY handle on the key `p` of the UPPER leaf, with the start vector and position
of the specification (`create_file`: empty, 0; `append_file`: the bytes the VIEW shows — the
first layer's — and their length, after the copy-up); the world is again in the setting, in the
state `Opened` (file at `p` in the upper map, marker of `p` cleared, nothing else different in the
view); for a create session the lower maps are literally unchanged. -/
theorem overlay_open_exact (c : Option Bytes) (hr : VReady (oview (mu :: ms)) ds n c)
    (s : Session) (b0 : Bytes) (n0 : Nat) (hst : startOf c s = some (b0, n0)) :
    ∃ w0 muS ms', s.opener (ovP u idu is ids oid (renderC (ds ++ [n]))) w
        = (.ok (memH u (renderC (ds ++ [n])) b0 n0), w0) ∧
      OWN w0 (u :: is) (idu :: ids) (muS :: ms') ∧
      Opened mu ms (renderC (ds ++ [n])) muS ms' ∧
      (∀ a, s = .create a → ms' = ms) := by
  have hvis : Vis (renderC (ds ++ [n])) := Or.inr hp.nr
  have hne := hp.ne
  have hcs := hp.good
  have hnd : ¬ VIsDir (oview (mu :: ms)) (renderC (ds ++ [n])) := hr.holds.not_dir
  obtain ⟨hE, inv1, hs1, hpok, hp1, hm1⟩ := ensure_ok inv hp hv hr.parent
  cases s with
  | create acts =>
    simp only [startOf, Option.some.injEq, Prod.mk.injEq] at hst
    obtain ⟨rfl, rfl⟩ := hst
    obtain ⟨mu2, hpure, hmu2⟩ := (pCreateFileN_cases inv hv hp).2.2 hr.parent hnd
    have hg := C01.run_getParent_overlay h inv hp oid
    rw [if_pos ((pIsDirN_iff _ _).2 hr.parent)] at hg
    have hwf2 : WF mu2 := by
      have := wf_pCreateFileN (ms := ms) (inv.wf mu (by simp)) (ds ++ [n])
      rw [hpure] at this; exact this
    have hX : (Overlay.fs (layersN (u :: is) (idu :: ids))).createFile (renderC (ds ++ [n])) w
        = (.ok (memH u (renderC (ds ++ [n])) [] 0), w.setLeafFiles u mu2) := by
      show Overlay.createFile _ _ w = _
      rw [run_ocreateFileN h _ hp.ne hp.good, hpure]; rfl
    refine ⟨w.setLeafFiles u mu2, mu2, ms, ?_, h.setHead mu2,
      ⟨LowerSame.refl ms, hwf2, _, fileEntryNow, inv1, hs1, rfl, hmu2⟩, fun _ _ => rfl⟩
    show VPath.createFile _ w = _
    simp only [VPath.createFile, bind, M.bind, hg, M.withPath, hX, Res.withPath]
  | append acts =>
    cases c with
    | none => cases hst
    | some old =>
      simp only [startOf, Option.some.injEq, Prod.mk.injEq] at hst
      obtain ⟨rfl, rfl⟩ := hst
      have hfileV : VHasFile (oview (mu :: ms)) (renderC (ds ++ [n])) old := hr.holds
      rcases Option.eq_none_or_eq_some (mu.find? (renderC (ds ++ [n]))) with hup | ⟨e0, hup⟩
      · -- nothing in the upper map: `ensure_has_parent`, then the copy-up from the first layer
        have hE' : pEnsureN (mu :: ms) (ds ++ [n]).dropLast = (.ok (), fillDirs mu (chain [] ds)) := by
          rw [List.dropLast_concat]; exact hE
        have hf1 : (fillDirs mu (chain [] ds)).find? (renderC (ds ++ [n])) = none := by
          rw [hp1]; exact hup
        have h1 := h.setHead (fillDirs mu (chain [] ds))
        have hov1 := oview_NR (all := fillDirs mu (chain [] ds) :: ms) hp.nr
        obtain ⟨e', he', hf', hc'⟩ := (hasFile_of_vcore (hs1 _ hvis)).2 hfileV
        rw [hov1] at he'
        rcases readPath_casesN h1 (ds ++ [n]) hne hcs with
          ⟨hv1, hr1⟩ | ⟨k, i, id, m, e1, hf, hi, hid, hl, he1, hmk1, hv1, hr1⟩
        · rw [hv1] at he'; cases he'
        · rw [hv1] at he'; injection he' with he'; subst he'
          obtain ⟨j, rfl⟩ : ∃ j, k = j + 1 := by
            cases k with
            | zero =>
              have hg := hf.get
              simp at hg; subst hg
              rw [hf1] at he1; cases he1
            | succ j => exact ⟨j, rfl⟩
          have hm : ms[j]? = some m := by simpa using hf.get
          have hbefore : ∀ j' mj, j' < j → ms[j']? = some mj →
              mj.find? (renderC (ds ++ [n])) = none :=
            fun j' mj hj' hget => hf.before (j' + 1) mj (by omega) (by simpa using hget)
          obtain ⟨w1, hX, hw1⟩ := run_oappendFile_copyUpN h (ds ++ [n]) hne hcs _ hE' hup hmk1
            hf1 hpok j m hm hbefore e1 he1 hf'
          have hopen : Mem.pOpenW (fillDirs mu (chain [] ds)) (renderC (ds ++ [n])) =
              (.ok (), (fillDirs mu (chain [] ds)).insert (renderC (ds ++ [n])) fileEntryNow) := by
            unfold Mem.pOpenW
            rw [if_pos hpok, Mem.createFile_fresh _ _ (slash_mem_renderC hne) hpok hf1]; rfl
          have hwfB : WF ((fillDirs mu (chain [] ds)).insert (renderC (ds ++ [n])) fileEntryNow) := by
            have := wf_pOpenW (inv1.wf (fillDirs mu (chain [] ds)) (by simp)) (renderC (ds ++ [n]))
            rw [hopen] at this; exact this
          obtain ⟨eC, hfC, hcC, hpwC⟩ := memPublish_pointwise
            ((fillDirs mu (chain [] ds)).insert (renderC (ds ++ [n])) fileEntryNow)
            (renderC (ds ++ [n])) e1.content fileEntryNow (FMap.find?_insert_self _ _ _) rfl
          have hmknone : (fillDirs mu (chain [] ds)).find? (marker (renderC (ds ++ [n]))) = none := by
            unfold FMap.contains at hmk1
            cases hx : (fillDirs mu (chain [] ds)).find? (marker (renderC (ds ++ [n]))) with
            | none => rfl
            | some x => rw [hx] at hmk1; cases hmk1
          have hls : LowerSame ms
              (ms.set j (m.insert (renderC (ds ++ [n])) { e1 with accessed := .now })) :=
            LowerSame.set hm (insert_touch_same m _ e1 he1)
          refine ⟨w1, _, _, ?_, hw1, ⟨hls, hwfB.memPublish_any _ _, _, eC, inv1, hs1, hfC, ?_⟩,
            fun a ha => by cases ha⟩
          · show M.withPath _ (Overlay.appendFile (layersN (u :: is) (idu :: ids)) _) w = _
            simp only [M.withPath, hX, Res.withPath, hc']
          · intro k
            rw [hpwC k]
            split
            · rfl
            · rename_i hk
              rw [FMap.find?_insert_ne _ _ _ _ hk]
              split
              · rename_i hk2; rw [hk2]; exact hmknone
              · rfl
      · -- the upper map has the path: the handle is the append handle of the upper leaf
        have hview := upper_is_view inv hp hup
        obtain ⟨e', he', hf', hc'⟩ := hfileV
        rw [oview_NR hp.nr, hview] at he'
        injection he' with he'; subst he'
        have hmknone : mu.find? (marker (renderC (ds ++ [n]))) = none := by
          obtain ⟨hm, _⟩ := viewN_some_cases hview
          unfold FMap.contains at hm
          cases hx : mu.find? (marker (renderC (ds ++ [n]))) with
          | none => rfl
          | some x => rw [hx] at hm; cases hm
        have happ : Mem.appendFile mu (renderC (ds ++ [n])) = .ok e0.content := by
          unfold Mem.appendFile; rw [hup]; simp only [hf', ne_eq, not_true_eq_false, if_false]
        have hX := run_oappend_upper h (ds ++ [n]) hne hcs e0 hup
        rw [happ] at hX
        simp only [Res.map, Res.withPath] at hX
        refine ⟨w, mu, ms, ?_, h, ⟨LowerSame.refl ms, inv.wf mu (by simp), mu, e0, inv,
          VSame.refl _, hf', ?_⟩, fun a ha => by cases ha⟩
        · show M.withPath _ (Overlay.appendFile (layersN (u :: is) (idu :: ids)) _) w = _
          simp only [M.withPath, hX, Res.withPath, hc']
        · intro k
          split
          · rename_i hk; rw [hk]; exact hup
          · split
            · rename_i hk2; rw [hk2]; exact hmknone
            · rfl

end settingN

/-! ## 3. one session, any script -/

section sessions
variable {w : World} {u idu : Nat} {mu : FMap} {is ids : List Nat} {ms : List FMap}
  (h : OWN w (u :: is) (idu :: ids) (mu :: ms)) (inv : OInv mu ms)
  (hv : ViewWF (oview (mu :: ms))) {ds : List Str} {n : Str} (hp : OpPath (ds ++ [n])) (oid : Nat)
include h inv hv hp

omit h inv in
/-- after a file was put at `p` (frame for every other visible path), the view is well-formed
again and the path is `VReady` again -/
theorem ready_after (c : Option Bytes) (hr : VReady (oview (mu :: ms)) ds n c) {v' : View}
    {bs : Bytes} (hfile : VHasFile v' (renderC (ds ++ [n])) bs)
    (hfr : VFrame (oview (mu :: ms)) v' (renderC (ds ++ [n]))) :
    ViewWF v' ∧ VReady v' ds n (some bs) := by
  refine ⟨hv.step hp (.write (renderC (ds ++ [n])) bs) rfl
    ⟨by rw [hp.parent]; exact hr.parent, hr.holds.not_dir⟩ ⟨hfile, hfr⟩, ?_, hfile⟩
  exact (isDir_of_vcore (hfr _ hp.parentVis OpPath.parent_ne)).2 hr.parent

/-- **overlay_session_exact.** One session — create or append, ANY script of writes, seeks and
flushes, drop — on the disciplined path `p = /ds/n` through an overlay over n memory layers, the
view showing a directory at the parent and at `p` nothing (`c = none`) or a file with bytes `bs`
(`c = some bs`), in whichever layer, whatever deeper layers hold:
* the outcome is the specified one (`Ok`; `FileNotFound(p)` for an append on an absent path);
* the world is again in the setting, lower maps unchanged up to access stamps (`LowerSame`;
  literally unchanged for a create session), `OInv` and `ViewWF` hold again;
* the view then holds at `p` exactly `specSession c s`; the parent is still a directory;
* every other visible path keeps its type and bytes (`VFrame`). -/
theorem overlay_session_exact (c : Option Bytes) (hr : VReady (oview (mu :: ms)) ds n c)
    (s : Session) :
    ∃ w' mu' ms', s.run (ovP u idu is ids oid (renderC (ds ++ [n]))) w
        = (sessOutcome (renderC (ds ++ [n])) c s, w') ∧
      OWN w' (u :: is) (idu :: ids) (mu' :: ms') ∧ LowerSame ms ms' ∧
      ((∃ a, s = .create a) → ms' = ms) ∧
      OInv mu' ms' ∧ ViewWF (oview (mu' :: ms')) ∧
      VReady (oview (mu' :: ms')) ds n (specSession c s) ∧
      VFrame (oview (mu :: ms)) (oview (mu' :: ms')) (renderC (ds ++ [n])) := by
  cases hst : startOf c s with
  | some st =>
    obtain ⟨b0, n0⟩ := st
    obtain ⟨w0, muS, ms', hopen, hown0, ho, hcr⟩ :=
      overlay_open_exact h inv hv hp oid c hr s b0 n0 hst
    obtain ⟨_, eS, heS, hfS, _, _, _⟩ := ho.spec hp
    obtain ⟨m', hrun, ⟨e', he', hf', hc', _, _⟩, hfr⟩ :=
      runActs_mem (i := u) (p := renderC (ds ++ [n])) hown0.hu eS heS hfS b0 n0 s.acts
    have ho' := ho.step he' hf' hfr
    obtain ⟨inv', e2, he2, hf2, _, hov2, hframe⟩ := ho'.spec hp
    rw [he'] at he2; injection he2 with he2; subst he2
    have hspec : specSession c s = some (specRun b0 n0 s.acts).1 := by
      rw [specSession_eq_startOf, hst]; rfl
    have hfile : VHasFile (oview (m' :: ms')) (renderC (ds ++ [n])) (specRun b0 n0 s.acts).1 :=
      ⟨e', hov2, hf', hc'⟩
    obtain ⟨hv', hr'⟩ := ready_after hv hp c hr hfile hframe
    refine ⟨_, m', ms', ?_, hown0.setHead m', ho.1, fun ⟨a, ha⟩ => hcr a ha, inv', hv',
      by rw [hspec]; exact hr', hframe⟩
    rw [Session.run_eq_opener]
    simp only [bind, M.bind, hopen, hrun]
    cases s with
    | create a => rfl
    | append a =>
      cases c with
      | none => cases hst
      | some old => rfl
  | none =>
    -- an append session on a path the view does not show: not-found, the view is unchanged
    cases s with
    | create a => cases hst
    | append acts =>
      cases c with
      | some old => cases hst
      | none =>
        have hvis : Vis (renderC (ds ++ [n])) := Or.inr hp.nr
        have habs : oview (mu :: ms) (renderC (ds ++ [n])) = none := hr.holds
        have hup : mu.find? (renderC (ds ++ [n])) = none :=
          upper_none_of_view_none inv hp (by rw [← oview_NR hp.nr]; exact habs)
        obtain ⟨hE, inv1, hs1, hpok, hp1, hm1⟩ := ensure_ok inv hp hv hr.parent
        have hE' : pEnsureN (mu :: ms) (ds ++ [n]).dropLast = (.ok (), fillDirs mu (chain [] ds)) := by
          rw [List.dropLast_concat]; exact hE
        have h1 := h.setHead (fillDirs mu (chain [] ds))
        have habs1 : oview (fillDirs mu (chain [] ds) :: ms) (renderC (ds ++ [n])) = none :=
          (none_of_vcore (hs1 _ hvis)).2 habs
        rcases readPath_casesN h1 (ds ++ [n]) hp.ne hp.good with
          ⟨hv1, hr1⟩ | ⟨k, i, id, m, e1, hf, hi, hid, hl, he1, hmk1, hv1, hr1⟩
        · have hX := run_oappend_notFound h (ds ++ [n]) hp.ne hp.good hup _ hE' hr1
          refine ⟨_, _, ms, ?_, h1, LowerSame.refl ms, fun _ => rfl, inv1, hv.same hs1,
            ⟨(isDir_of_vcore (hs1 _ hp.parentVis)).2 hr.parent, habs1⟩, hs1.frame _⟩
          rw [Session.run_append]
          show M.bind (M.withPath _ (Overlay.appendFile (layersN (u :: is) (idu :: ids)) _)) _ w = _
          simp only [M.bind, M.withPath, hX, Res.withPath]
          rfl
        · rw [oview_NR hp.nr, hv1] at habs1; cases habs1

/-- **overlay_sessions_exact (state).** ANY list of sessions on the same path through the
overlay — create and append mixed, failing appends on an absent path included, each with any
script of writes, seeks and flushes: the final world is again in the setting (lower maps
unchanged up to access stamps), the invariants hold, the view holds at `p` exactly
`specSessions c ss`, and every other visible path keeps its type and bytes. -/
theorem overlay_sessions_exact (c : Option Bytes) (hr : VReady (oview (mu :: ms)) ds n c)
    (ss : List Session) :
    ∃ mu' ms',
      OWN (runSessions (ovP u idu is ids oid (renderC (ds ++ [n]))) ss w) (u :: is) (idu :: ids)
        (mu' :: ms') ∧
      LowerSame ms ms' ∧ OInv mu' ms' ∧ ViewWF (oview (mu' :: ms')) ∧
      VReady (oview (mu' :: ms')) ds n (specSessions c ss) ∧
      VFrame (oview (mu :: ms)) (oview (mu' :: ms')) (renderC (ds ++ [n])) := by
  induction ss generalizing w mu ms c with
  | nil => exact ⟨mu, ms, h, LowerSame.refl ms, inv, hv, hr, (VSame.refl _).frame _⟩
  | cons s rest ih =>
    obtain ⟨w1, mu1, ms1, hrun, hown1, hls1, _, inv1, hv1, hr1, hfr1⟩ :=
      overlay_session_exact h inv hv hp oid c hr s
    obtain ⟨mu', ms', hown', hls', inv', hv', hr', hfr'⟩ := ih hown1 inv1 hv1 _ hr1
    refine ⟨mu', ms', ?_, hls1.trans hls', inv', hv', hr', VFrame.trans hfr1 hfr'⟩
    simp only [runSessions, hrun]
    exact hown'

end sessions

/-! ## 4. reading back through the overlay -/

section read
variable {w : World} {u idu : Nat} {mu : FMap} {is ids : List Nat} {ms : List FMap}
  (h : OWN w (u :: is) (idu :: ids) (mu :: ms)) {ds : List Str} {n : Str}
  (hp : OpPath (ds ++ [n])) (oid : Nat)
include h hp

/-- a fresh `open_file` through the overlay on a path where the view shows a file with bytes
`bs` returns a reader over exactly `bs`, positioned at 0; `metadata` reports `bs.length`;
`read_to_end` (and the checked byte path of `read_to_string`) gives `bs` -/
theorem overlay_read_holds (bs : Bytes)
    (hh : VHolds (oview (mu :: ms)) (renderC (ds ++ [n])) (some bs)) :
    let P := ovP u idu is ids oid (renderC (ds ++ [n]))
    (∃ w2, P.openFile w = (.ok { content := bs, pos := 0 }, w2)) ∧
    (∃ md, P.metadata w = (.ok md, w) ∧ md.len = bs.length ∧ md.ftype = .file) ∧
    (P.readToEndChecked w).1 = .ok bs := by
  intro P
  obtain ⟨e, he, hf, hc⟩ := hh
  rw [oview_NR hp.nr] at he
  obtain ⟨k2, i2, m2, w2, _, _, _, hopen, _, _⟩ :=
    C09.openFile_serves_viewN h (ds ++ [n]) hp.ne hp.good e he hf
  have hmeta := C09.metadata_is_viewN h (ds ++ [n]) hp.ne hp.good
  rw [he] at hmeta
  have hopen' : P.openFile w = (.ok { content := bs, pos := 0 }, w2) := by
    show M.withPath _ ((Overlay.fs (layersN (u :: is) (idu :: ids))).openFile _) _ = _
    unfold M.withPath
    rw [hopen, hc]
    rfl
  have hmd' : P.metadata w = (.ok e.meta, w) := by
    show M.withPath _ ((Overlay.fs (layersN (u :: is) (idu :: ids))).metadata _) _ = _
    unfold M.withPath
    rw [hmeta]
    rfl
  have hft : e.meta.ftype = .file := hf
  refine ⟨⟨w2, hopen'⟩, ⟨e.meta, hmd', by show e.content.length = _; rw [hc], hft⟩, ?_⟩
  unfold VPath.readToEndChecked
  simp only [bind, M.bind, hmd', hft, ne_eq, not_true_eq_false, if_false, hopen', M.withPath,
    M.ret, readToEnd_fresh, Res.withPath]

/-- a path the view does not show cannot be opened: `FileNotFound(p)`, world unchanged -/
theorem overlay_read_absent (hh : VHolds (oview (mu :: ms)) (renderC (ds ++ [n])) none) :
    (ovP u idu is ids oid (renderC (ds ++ [n]))).openFile w
      = (.err .fileNotFound (some (renderC (ds ++ [n]))), w) := by
  have hv : viewN (mu :: ms) (renderC (ds ++ [n])) = none := by
    rw [← oview_NR hp.nr]; exact hh
  show M.withPath _ ((Overlay.fs (layersN (u :: is) (idu :: ids))).openFile _) _ = _
  unfold M.withPath
  rw [C09.openFile_absentN h (ds ++ [n]) hp.ne hp.good hv]
  rfl

end read

section sessionsRead
variable {w : World} {u idu : Nat} {mu : FMap} {is ids : List Nat} {ms : List FMap}
  (h : OWN w (u :: is) (idu :: ids) (mu :: ms)) (inv : OInv mu ms)
  (hv : ViewWF (oview (mu :: ms))) {ds : List Str} {n : Str} (hp : OpPath (ds ++ [n])) (oid : Nat)
include h inv hv hp

/-- **overlay_sessions_exact (observation).** After any list of sessions on `p` through the
overlay that leaves the file present (`specSessions c ss = some bs`): a fresh `open_file` through
the overlay succeeds; `read_to_end` returns exactly `bs`; reading with ANY list of buffer sizes
returns, concatenated, exactly the first `Σ sizes` bytes of `bs` — all of `bs` once the sizes add
up to its length —; the checked byte path of `read_to_string` returns `bs`; `metadata` reports
`bs.length`. If the list leaves the path absent, `open_file` answers not-found. -/
theorem overlay_sessions_read_exact (c : Option Bytes) (hr : VReady (oview (mu :: ms)) ds n c)
    (ss : List Session) :
    let P := ovP u idu is ids oid (renderC (ds ++ [n]))
    let w1 := runSessions P ss w
    (∀ bs, specSessions c ss = some bs →
      (∃ w2, P.openFile w1 = (.ok { content := bs, pos := 0 }, w2)) ∧
      (RHandle.readToEnd { content := bs, pos := 0 }).1 = .ok bs ∧
      (∀ ns : List Nat, bs.length < u64Max →
        (chunks { content := bs, pos := 0 } ns).1.flatten = bs.take ns.sum) ∧
      (∀ ns : List Nat, bs.length < u64Max → bs.length ≤ ns.sum →
        (chunks { content := bs, pos := 0 } ns).1.flatten = bs) ∧
      (P.readToEndChecked w1).1 = .ok bs ∧
      (∃ md, P.metadata w1 = (.ok md, w1) ∧ md.len = bs.length ∧ md.ftype = .file)) ∧
    (specSessions c ss = none →
      P.openFile w1 = (.err .fileNotFound (some (renderC (ds ++ [n]))), w1)) := by
  intro P w1
  obtain ⟨mu', ms', hown', _, _, _, hr', _⟩ := overlay_sessions_exact h inv hv hp oid c hr ss
  constructor
  · intro bs hbs
    have hh : VHolds (oview (mu' :: ms')) (renderC (ds ++ [n])) (some bs) := by
      rw [← hbs]; exact hr'.holds
    obtain ⟨hopen, hmd, hchk⟩ := overlay_read_holds hown' hp oid bs hh
    refine ⟨hopen, readToEnd_fresh bs, ?_, ?_, hchk, hmd⟩
    · intro ns hlt
      have := (reader_chunks { content := bs, pos := 0 } ns rfl hlt).1
      simpa using this
    · intro ns hlt hsum
      exact reader_whole_file bs ns hlt hsum
  · intro hn
    have hh : VHolds (oview (mu' :: ms')) (renderC (ds ++ [n])) none := by
      rw [← hn]; exact hr'.holds
    exact overlay_read_absent hown' hp oid hh

/-! ## 5. inside a session: flush publishes to the view, a failing seek is harmless -/

/-- **overlay_flush_visible.** A session (create or append) through the overlay whose script is
`pre ++ flush :: post`. Right after the flush (the handle `h1` still open, the world `w1`): the
world is in the setting, the invariants hold, the VIEW shows at `p` exactly the vector the
specification gives for the prefix `pre`, every other visible path is as before the session, and
a reader opened THROUGH THE OVERLAY at that moment sees exactly those bytes. The handle stays
usable: running `post` and dropping it ends exactly as the whole session — `specSession`. -/
theorem overlay_flush_visible (c : Option Bytes) (hr : VReady (oview (mu :: ms)) ds n c)
    (s : Session) (b0 : Bytes) (n0 : Nat) (hst : startOf c s = some (b0, n0))
    (pre post : List Act) :
    let p := renderC (ds ++ [n])
    let P := ovP u idu is ids oid p
    let s' := s.withActs (pre ++ .flush :: post)
    ∃ h0 w0 h1 w1 mu1 ms1,
      s'.opener P w = (.ok h0, w0) ∧
      applyActs h0 w0 (pre ++ [.flush]) = (h1, w1) ∧
      OWN w1 (u :: is) (idu :: ids) (mu1 :: ms1) ∧ LowerSame ms ms1 ∧ OInv mu1 ms1 ∧
      VHolds (oview (mu1 :: ms1)) p (some (specRun b0 n0 pre).1) ∧
      VFrame (oview (mu :: ms)) (oview (mu1 :: ms1)) p ∧
      (∃ w2, P.openFile w1 = (.ok { content := (specRun b0 n0 pre).1, pos := 0 }, w2)) ∧
      s'.run P w = C03.runActs h1 post w1 ∧
      ∃ mu2, C03.runActs h1 post w1 = (.ok (), w1.setLeafFiles u mu2) ∧
        OWN (w1.setLeafFiles u mu2) (u :: is) (idu :: ids) (mu2 :: ms1) ∧ OInv mu2 ms1 ∧
        VHolds (oview (mu2 :: ms1)) p (specSession c s') ∧
        VFrame (oview (mu :: ms)) (oview (mu2 :: ms1)) p := by
  intro p P s'
  have hst' : startOf c s' = some (b0, n0) := by rw [startOf_withActs]; exact hst
  obtain ⟨w0, muS, ms', hopen, hown0, ho, _⟩ := overlay_open_exact h inv hv hp oid c hr s' b0 n0 hst'
  obtain ⟨_, eS, heS, hfS, _, _, _⟩ := ho.spec hp
  -- the prefix
  obtain ⟨mA, hA, ⟨eA, heA, hfA, _, _⟩, hfrA⟩ :=
    applyActs_mem (i := u) (p := p) hown0.hu eS heS hfS b0 n0 pre
  have hownA := hown0.setHead mA
  -- the flush
  obtain ⟨e1, he1, hf1, hc1, _, _⟩ := holds_memPublish heA hfA (specRun b0 n0 pre).1
  have hfr1 : ∀ k, k ≠ p → (memPublish mA p (specRun b0 n0 pre).1).find? k = muS.find? k :=
    fun k hk => by rw [find?_memPublish_ne' _ _ _ _ hk, hfrA k hk]
  have ho1 := ho.step he1 hf1 hfr1
  have hown1 := hown0.setHead (memPublish mA p (specRun b0 n0 pre).1)
  have hstep : applyActs (memH u p b0 n0) w0 (pre ++ [.flush]) =
      (memH u p (specRun b0 n0 pre).1 (specRun b0 n0 pre).2,
        w0.setLeafFiles u (memPublish mA p (specRun b0 n0 pre).1)) := by
    rw [applyActs_append, hA]
    simp only [applyActs]
    rw [apply_flush_mem hownA.hu, World.setLeafFiles_twice]
  obtain ⟨inv1, e1', he1', _, _, hov1, hframe1⟩ := ho1.spec hp
  rw [he1] at he1'; injection he1' with he1'; subst he1'
  have hh1 : VHolds (oview (memPublish mA p (specRun b0 n0 pre).1 :: ms')) p
      (some (specRun b0 n0 pre).1) := ⟨e1, hov1, hf1, hc1⟩
  obtain ⟨hopen2, _, _⟩ := overlay_read_holds hown1 hp oid _ hh1
  -- the rest
  obtain ⟨m2, hrun2, ⟨e2, he2, hf2, hc2, _, _⟩, hfr2⟩ :=
    runActs_mem (i := u) (p := p) hown1.hu e1 he1 hf1 (specRun b0 n0 pre).1 (specRun b0 n0 pre).2 post
  have ho2 := ho1.step he2 hf2 hfr2
  obtain ⟨inv2, e2', he2', _, _, hov2, hframe2⟩ := ho2.spec hp
  rw [he2] at he2'; injection he2' with he2'; subst he2'
  have hspec : specSession c s' = some (specRun (specRun b0 n0 pre).1 (specRun b0 n0 pre).2 post).1 := by
    rw [specSession_eq_startOf, hst', Session.acts_withActs]
    simp only [Option.map_some, specRun_append, specRun_cons, specStep]
  refine ⟨_, _, _, _, _, ms', hopen, hstep, hown1, ho.1, inv1, hh1, hframe1, hopen2, ?_, m2, hrun2,
    hown1.setHead m2, inv2, ?_, hframe2⟩
  · have hacts : s'.acts = pre ++ .flush :: post := Session.acts_withActs _ _
    have hopen' : s'.opener P w = (.ok (memH u p b0 n0), w0) := hopen
    rw [Session.run_eq_opener]
    simp only [bind, M.bind, hopen', hacts]
    rw [show pre ++ C03.HAct.flush :: post = (pre ++ [.flush]) ++ post by simp, runActs_append,
      hstep]
  · rw [hspec]; exact ⟨e2, hov2, hf2, hc2⟩

/-- **overlay_seek_errors_harmless.** A seek that the specification rejects (negative or
overflowing target) anywhere in a session through the overlay changes nothing: the session with
the failing seek and the session without it are the same state transformer on this world (same
outcome, same final world), and the specification agrees. -/
theorem overlay_seek_errors_harmless (c : Option Bytes) (hr : VReady (oview (mu :: ms)) ds n c)
    (s : Session) (b0 : Bytes) (n0 : Nat) (hst : startOf c s = some (b0, n0))
    (pre post : List Act) (sk : SeekFrom)
    (hfail : specSeek (specRun b0 n0 pre).1.length (specRun b0 n0 pre).2 sk = none) :
    let P := ovP u idu is ids oid (renderC (ds ++ [n]))
    (s.withActs (pre ++ .seek sk :: post)).run P w = (s.withActs (pre ++ post)).run P w ∧
    specSession c (s.withActs (pre ++ .seek sk :: post)) = specSession c (s.withActs (pre ++ post)) := by
  intro P
  have hstep : specStep (specRun b0 n0 pre) (.seek sk) = specRun b0 n0 pre := by
    unfold specStep; simp only [hfail]
  constructor
  · obtain ⟨w0, muS, ms', hopen, hown0, ho, _⟩ := overlay_open_exact h inv hv hp oid c hr s b0 n0 hst
    obtain ⟨_, eS, heS, hfS, _, _, _⟩ := ho.spec hp
    obtain ⟨mA, hA, _, _⟩ :=
      applyActs_mem (i := u) (p := renderC (ds ++ [n])) hown0.hu eS heS hfS b0 n0 pre
    have hopen' : s.opener P w = (.ok (memH u (renderC (ds ++ [n])) b0 n0), w0) := hopen
    rw [Session.run_eq_opener, Session.run_eq_opener]
    simp only [bind, M.bind, Session.opener_withActs, hopen', Session.acts_withActs]
    rw [runActs_append, runActs_append, hA]
    simp only [C03.runActs]
    rw [apply_seek_mem]
    simp only
    rw [show ((specRun b0 n0 pre).1, (specRun b0 n0 pre).2) = specRun b0 n0 pre from rfl, hstep]
  · rw [specSession_eq_startOf, specSession_eq_startOf, startOf_withActs, startOf_withActs, hst,
      Session.acts_withActs, Session.acts_withActs]
    simp only [Option.map_some, specRun_append, specRun_cons]
    rw [show ((specRun b0 n0 pre).1, (specRun b0 n0 pre).2) = specRun b0 n0 pre from rfl, hstep]

end sessionsRead

/-! ## 6. the two single-session theorems, spelled out -/

theorem vholds_of_not_dir {v : View} {p : Str} (hnd : ¬ VIsDir v p) : ∃ c, VHolds v p c := by
  cases hv0 : v p with
  | none => exact ⟨none, hv0⟩
  | some e =>
    refine ⟨some e.content, e, hv0, ?_, rfl⟩
    cases hft : e.ftype with
    | file => rfl
    | dir => exact absurd ⟨e, hv0, hft⟩ hnd

section single
variable {w : World} {u idu : Nat} {mu : FMap} {is ids : List Nat} {ms : List FMap}
  (h : OWN w (u :: is) (idu :: ids) (mu :: ms)) (inv : OInv mu ms)
  (hv : ViewWF (oview (mu :: ms))) {ds : List Str} {n : Str} (hp : OpPath (ds ++ [n])) (oid : Nat)
include h inv hv hp

/-- **overlay_create_session_exact.** Through an overlay over n in-memory layers (`OWN`, `OInv`,
`ViewWF`), on a disciplined path `p` whose parent is a directory of the view and which is not a
directory of the view — WHATEVER `p` held before in any layer (nothing, a file in the upper map,
files in one or several lower layers, a whiteout marker) —, a create session with ANY script of
write / seek / flush actions: succeeds; the lower maps are literally unchanged; the invariants
hold again; and, for the view, the session IS the single write of `new = (specRun [] 0 acts).1`
(`VContract … (.write p new) (.ok ()) …`, i.e. `VEffect`: the view holds at `p` a file with
exactly `new`, every other visible path keeps its type and bytes); a fresh `open_file` through
the overlay reads exactly `new` and `metadata` reports its length. -/
theorem overlay_create_session_exact (hd : VIsDir (oview (mu :: ms)) (renderC ds))
    (hnd : ¬ VIsDir (oview (mu :: ms)) (renderC (ds ++ [n]))) (acts : List Act) :
    let p := renderC (ds ++ [n])
    let P := ovP u idu is ids oid p
    let new := (specRun [] 0 acts).1
    ∃ w' mu', (Session.create acts).run P w = (.ok (), w') ∧
      OWN w' (u :: is) (idu :: ids) (mu' :: ms) ∧ OInv mu' ms ∧ ViewWF (oview (mu' :: ms)) ∧
      VContract (oview (mu :: ms)) (.write p new) (.ok ()) (oview (mu' :: ms)) ∧
      VEffect (oview (mu :: ms)) (oview (mu' :: ms)) (.write p new) ∧
      (∃ w2, P.openFile w' = (.ok { content := new, pos := 0 }, w2)) ∧
      (∃ md, P.metadata w' = (.ok md, w') ∧ md.len = new.length ∧ md.ftype = .file) := by
  intro p P new
  obtain ⟨c, hc⟩ := vholds_of_not_dir hnd
  obtain ⟨w', mu', ms', hrun, hown, _, hms, inv', hv', hr', hfr⟩ :=
    overlay_session_exact h inv hv hp oid c ⟨hd, hc⟩ (.create acts)
  have hms' : ms' = ms := hms ⟨acts, rfl⟩
  rw [hms'] at hown inv' hv' hr' hfr
  have hfile : VHasFile (oview (mu' :: ms)) p new := by
    have := hr'.holds
    cases c <;> exact this
  have heff : VEffect (oview (mu :: ms)) (oview (mu' :: ms)) (.write p new) := ⟨hfile, hfr⟩
  obtain ⟨hopen, hmd, _⟩ := overlay_read_holds hown hp oid new hfile
  exact ⟨w', mu', hrun, hown, inv', hv',
    VContract.of_ok ⟨by rw [hp.parent]; exact hd, hnd⟩ heff, heff, hopen, hmd⟩

/-- **overlay_append_session_exact.** The same for an append session on a path where the VIEW
shows a file with bytes `old` — the bytes of the FIRST layer that has the file (see
`vholds_of_firstAt`), whatever deeper layers hold: the script runs on a cursor that starts at the
end of `old` (after the copy-up into the upper layer if only lower layers had the file); the
session succeeds; the lower maps are unchanged up to the access stamp of the entry that was
copied up; the invariants hold again; the view then holds at `p` exactly
`(specRun old old.length acts).1`, every other visible path keeps its type and bytes; a fresh
`open_file` through the overlay reads exactly those bytes and `metadata` reports their length. -/
theorem overlay_append_session_exact (old : Bytes)
    (hold : VHasFile (oview (mu :: ms)) (renderC (ds ++ [n])) old) (acts : List Act) :
    let p := renderC (ds ++ [n])
    let P := ovP u idu is ids oid p
    let new := (specRun old old.length acts).1
    ∃ w' mu' ms', (Session.append acts).run P w = (.ok (), w') ∧
      OWN w' (u :: is) (idu :: ids) (mu' :: ms') ∧ LowerSame ms ms' ∧
      OInv mu' ms' ∧ ViewWF (oview (mu' :: ms')) ∧
      VHasFile (oview (mu' :: ms')) p new ∧
      VFrame (oview (mu :: ms)) (oview (mu' :: ms')) p ∧
      (∃ w2, P.openFile w' = (.ok { content := new, pos := 0 }, w2)) ∧
      (∃ md, P.metadata w' = (.ok md, w') ∧ md.len = new.length ∧ md.ftype = .file) := by
  have hfl : VIsFile (oview (mu :: ms)) (renderC (ds ++ [n])) := by
    obtain ⟨e, he, hf, _⟩ := hold; exact ⟨e, he, hf⟩
  have hd : VIsDir (oview (mu :: ms)) (renderC ds) := by
    by_cases hds0 : ds = []
    · subst hds0; exact rootIsDir inv.root
    · exact hv.2 ds n hds0 hp.hds hp.hn.noSlash hp.dhead
        (fun h0 => not_absent_of_file hfl (by rw [renderC_snoc]; exact h0))
  intro p P new
  obtain ⟨w', mu', ms', hrun, hown, hls, _, inv', hv', hr', hfr⟩ :=
    overlay_session_exact h inv hv hp oid (some old) ⟨hd, hold⟩ (.append acts)
  have hfile : VHasFile (oview (mu' :: ms')) p new := hr'.holds
  obtain ⟨hopen, hmd, _⟩ := overlay_read_holds hown hp oid new hfile
  exact ⟨w', mu', ms', hrun, hown, hls, inv', hv', hfile, hfr, hopen, hmd⟩

/-- the append theorem with the layer spelled out: no marker of `p` in the upper map, layer `k`
(upper or lower) is the FIRST that has `p`, and holds a file `e` there — then the script
continues `e.content`, whatever layers deeper than `k` hold at `p` -/
theorem overlay_append_session_first_layer
    (hmk : mu.contains (marker (renderC (ds ++ [n]))) = false) {k : Nat} {m : FMap}
    (hfirst : FirstAt (mu :: ms) (renderC (ds ++ [n])) k m) {e : Entry}
    (he : m.find? (renderC (ds ++ [n])) = some e) (hf : e.ftype = .file) (acts : List Act) :
    let p := renderC (ds ++ [n])
    let P := ovP u idu is ids oid p
    let new := (specRun e.content e.content.length acts).1
    ∃ w' mu' ms', (Session.append acts).run P w = (.ok (), w') ∧
      OWN w' (u :: is) (idu :: ids) (mu' :: ms') ∧ LowerSame ms ms' ∧
      OInv mu' ms' ∧ ViewWF (oview (mu' :: ms')) ∧
      VHasFile (oview (mu' :: ms')) p new ∧
      VFrame (oview (mu :: ms)) (oview (mu' :: ms')) p ∧
      (∃ w2, P.openFile w' = (.ok { content := new, pos := 0 }, w2)) ∧
      (∃ md, P.metadata w' = (.ok md, w') ∧ md.len = new.length ∧ md.ftype = .file) :=
  overlay_append_session_exact h inv hv hp oid e.content (vholds_of_firstAt hp hmk hfirst he hf) acts

end single

/-! ## 7. non-vacuity: the 3-layer world of Props/C09Refine.lean

upper (leaf 2): the root and "/top";  layer 1 (leaf 0): "/d", "/d/x" = "1", "/d/b" = "B";
layer 2 (leaf 1): "/d", "/d/x" = "2", "/d/c" = "C", "/e", "/e/z" = "Z". -/

section examples
open Vfs.C09 (xw xfs xU xA xB xw_setting xw_inv xw_viewWF fileOf)

/-- the path "/d/x" of the overlay (layer 1 serves "1", layer 2 holds "2") -/
def xPx : VPath := ovP 2 7 [0, 1] [8, 9] 42 "/d/x".toList
/-- the path "/d/c" (only layer 2 has it: "C") and a path nobody has -/
def xPc : VPath := ovP 2 7 [0, 1] [8, 9] 42 "/d/c".toList
def xPn : VPath := ovP 2 7 [0, 1] [8, 9] 42 "/d/nope".toList

/-- a history of three sessions: an append continuing LAYER 1's byte with a seek-back overwrite
and a flush; a create session (truncate) with a gap zero-fill, a flush in the middle, a FAILING
seek and an overwrite near the end; an append with a failing seek -/
def xSessions : List Session :=
  [.append [.write [65], .seek (.start 0), .write [66], .flush],
   .create [.write [1, 2, 3], .seek (.fromEnd 2), .write [9], .flush, .seek (.cur (-100)),
     .seek (.start 1), .write [7]],
   .append [.seek (.fromEnd (-100)), .write [8]]]

/-- the specification -/
example : specSession (some [49]) (.append [.write [65], .seek (.start 0), .write [66], .flush])
    = some [66, 65] := by decide
example : specSessions (some [49]) xSessions = some [1, 7, 3, 0, 0, 9, 8] := by decide

/-- the model, evaluated: a fresh read through the overlay after the history, metadata -/
example : (xPx.openFile (runSessions xPx xSessions xw)).1
    = .ok { content := [1, 7, 3, 0, 0, 9, 8], pos := 0 } := by decide +kernel
example : ((xPx.metadata (runSessions xPx xSessions xw)).1.map fun md => md.len) = .ok 7 := by
  decide +kernel
/-- after the first session alone: layer 1's "1" was continued, not layer 2's "2" -/
example : (xPx.openFile (runSessions xPx (xSessions.take 1) xw)).1
    = .ok { content := [66, 65], pos := 0 } := by decide +kernel
/-- an append on a file that only layer 2 has; a failing append on a path nobody has -/
example : (xPc.openFile (runSessions xPc [.append [.seek (.start 0), .write [99, 100]]] xw)).1
    = .ok { content := [99, 100], pos := 0 } := by decide +kernel
example : ((Session.append [.write [1]]).run xPn xw).1
    = .err .fileNotFound (some "/d/nope".toList) := by decide +kernel

/-- the hypotheses hold on that world: the view shows a directory at "/d" and at "/d/x" the file
"1" of layer 1 -/
theorem x_ready : VReady (oview [xU, xA, xB]) ["d".toList] "x".toList (some [49]) :=
  ⟨⟨dirEntryNow, by decide, rfl⟩, ⟨fileOf [49], by decide, rfl, rfl⟩⟩

theorem x_ready_absent : VReady (oview [xU, xA, xB]) ["d".toList] "nope".toList none :=
  ⟨⟨dirEntryNow, by decide, rfl⟩, by
    show oview [xU, xA, xB] (renderC (["d".toList] ++ ["nope".toList])) = none
    decide⟩

theorem x_path : OpPath (["d".toList] ++ ["x".toList]) := by decide

/-- the theorems, instantiated on that world -/
example := overlay_sessions_exact xw_setting xw_inv xw_viewWF x_path 42 (some [49]) x_ready xSessions
example := overlay_sessions_read_exact xw_setting xw_inv xw_viewWF x_path 42 (some [49]) x_ready
  xSessions
example := overlay_sessions_exact xw_setting xw_inv xw_viewWF
  (ds := ["d".toList]) (n := "nope".toList) (by decide) 42 none x_ready_absent
  [.append [.write [1]], .create [.write [2]], .append [.write [3]]]
example := overlay_create_session_exact xw_setting xw_inv xw_viewWF x_path 42
  ⟨dirEntryNow, by decide, rfl⟩ (by decide) [.write [1, 2, 3], .seek (.fromEnd 2), .write [9]]
example := overlay_append_session_exact xw_setting xw_inv xw_viewWF x_path 42 [49]
  ⟨fileOf [49], by decide, rfl, rfl⟩ [.write [65], .seek (.start 0), .write [66], .flush]
example := overlay_flush_visible xw_setting xw_inv xw_viewWF x_path 42 (some [49]) x_ready
  (.append []) [49] 1 rfl [.write [65], .seek (.start 0), .write [66]] [.write [67]]
example := overlay_seek_errors_harmless xw_setting xw_inv xw_viewWF x_path 42 (some [49]) x_ready
  (.create []) [] 0 rfl [.write [1, 2, 3]] [.write [7]] (.cur (-100)) (by decide)

/-- layer 1 (index 1 of `[xU, xA, xB]`) is the first holder of "/d/x" -/
theorem x_first : FirstAt [xU, xA, xB] (renderC (["d".toList] ++ ["x".toList])) 1 xA := by
  refine ⟨rfl, by decide, ?_⟩
  intro j mj hj hget
  have : j = 0 := by omega
  subst this
  simp only [List.getElem?_cons_zero, Option.some.injEq] at hget
  subst hget
  decide

example := overlay_append_session_first_layer xw_setting xw_inv xw_viewWF x_path 42 (by decide)
  x_first (e := fileOf [49]) (by decide) rfl [.write [65]]

end examples

#print axioms overlay_open_exact
#print axioms overlay_session_exact
#print axioms overlay_create_session_exact
#print axioms overlay_append_session_exact
#print axioms overlay_append_session_first_layer
#print axioms overlay_sessions_exact
#print axioms overlay_sessions_read_exact
#print axioms overlay_flush_visible
#print axioms overlay_seek_errors_harmless

end Vfs.C04
