/-
  C01 — Every backend implements one abstract file tree (operation contracts).

  The reference contract (DESIGN.md Appendix A) is stated here as theorems about the physical
  model `Phys.p*` (= the specification `Spec`): each primitive succeeds EXACTLY when the tree
  meets its documented precondition, a successful call changes exactly the entry it names, a
  failed call changes nothing, a target missing from an existing directory is reported as
  not-found and create_dir on an occupied path reports the occupant. `mem_*` transfer every one
  of these statements to the in-memory backend through C02 (`Mem.p*` are proved to be what the
  generic VfsPath code computes over the memory leaf). Adapters: C07 proves that an altroot
  method IS the operation on P ++ q of the underlying filesystem, so the contract re-rooted at
  P carries over; the overlay relative to the union is C09. Every configuration is compared
  with the reference tree on every step by the tree stream.
-/
import VfsModel.Props.C02
namespace Vfs.C01
open Vfs.C02

/-- node of the abstract tree at a path -/
def IsDir (m : FMap) (p : Str) : Prop := ∃ e, m.find? p = some e ∧ e.ftype = .dir
def IsFile (m : FMap) (p : Str) : Prop := ∃ e, m.find? p = some e ∧ e.ftype = .file
def Absent (m : FMap) (p : Str) : Prop := m.find? p = none
def NoChildren (m : FMap) (p : Str) : Prop := ∀ k e, m.find? k = some e → '/' ∈ k → parentInternal k ≠ p

theorem parentOk_iff (m : FMap) (p : Str) : Mem.parentOk m p = true ↔ IsDir m (parentInternal p) := by
  unfold Mem.parentOk IsDir
  cases h : m.find? (parentInternal p) with
  | none => simp
  | some e => simp

section spec
variable {m : FMap} (hm : WF m) (p : Str) (hp : Abs p)
include hm hp

theorem phys_lookup (hpar : IsDir m (parentInternal p)) : Phys.lookup m p = .ok (m.find? p) := by
  obtain ⟨pe, h1, h2⟩ := hpar
  exact hm.lookup_child p hp.slash pe h1 h2

theorem phys_parentOk : Phys.parentOk m p = true ↔ IsDir m (parentInternal p) := by
  rw [parentOk_agree hm (CoreEq.refl m) p, parentOk_iff]

/-- create_dir succeeds exactly when the parent is an existing directory and the target is
absent; then exactly `p` becomes a directory -/
theorem createDir_contract :
    ((Phys.pCreateDir m p).1.isOk = true ↔ IsDir m (parentInternal p) ∧ Absent m p) ∧
    ((Phys.pCreateDir m p).1.isOk = true →
        IsDir (Phys.pCreateDir m p).2 p ∧ ∀ k, k ≠ p → (Phys.pCreateDir m p).2.find? k = m.find? k) ∧
    ((Phys.pCreateDir m p).1.isOk = false → (Phys.pCreateDir m p).2 = m) ∧
    (IsDir m (parentInternal p) → IsFile m p → (Phys.pCreateDir m p).1.kind? = some .fileExists) ∧
    (IsDir m (parentInternal p) → IsDir m p → (Phys.pCreateDir m p).1.kind? = some .dirExists) := by
  unfold Phys.pCreateDir
  by_cases hpar : IsDir m (parentInternal p)
  · have hpo := (phys_parentOk hm p hp).2 hpar
    have hl := phys_lookup hm p hp hpar
    simp only [hpo, ↓reduceIte, Phys.createDir, hl]
    rcases Option.eq_none_or_eq_some (m.find? p) with hf | ⟨e, hf⟩
    · simp only [hf]
      refine ⟨by simp [Res.withPath, Res.isOk, Absent, hf, hpar], ?_, by simp [Res.withPath, Res.isOk], ?_, ?_⟩
      · intro _
        exact ⟨⟨dirEntryNow, by simp, rfl⟩, fun k hk => FMap.find?_insert_ne m p k _ hk⟩
      · rintro _ ⟨e, he, _⟩; rw [hf] at he; cases he
      · rintro _ ⟨e, he, _⟩; rw [hf] at he; cases he
    · simp only [hf]
      have hna : ¬ Absent m p := by intro h; rw [Absent, hf] at h; cases h
      cases hty : e.ftype
      · refine ⟨?_, ?_, ?_, ?_, ?_⟩
        · simp [fail, Res.withPath, Res.isOk, hna]
        · simp [fail, Res.withPath, Res.isOk]
        · intro _; trivial
        · intro _ _; simp [fail, Res.withPath, Res.kind?]
        · rintro _ ⟨e', he', ht'⟩; rw [hf] at he'; injection he' with he'; subst he'; rw [hty] at ht'; cases ht'
      · refine ⟨?_, ?_, ?_, ?_, ?_⟩
        · simp [fail, Res.withPath, Res.isOk, hna]
        · simp [fail, Res.withPath, Res.isOk]
        · intro _; trivial
        · rintro _ ⟨e', he', ht'⟩; rw [hf] at he'; injection he' with he'; subst he'; rw [hty] at ht'; cases ht'
        · intro _ _; simp [fail, Res.withPath, Res.kind?]
  · have hpo : Phys.parentOk m p = false := by
      cases h : Phys.parentOk m p
      · rfl
      · exact absurd ((phys_parentOk hm p hp).1 h) hpar
    simp only [hpo, Bool.false_eq_true, ↓reduceIte]
    refine ⟨by simp [Res.isOk, hpar], by simp [Res.isOk], ?_, fun h => absurd h hpar, fun h => absurd h hpar⟩
    intro _; trivial

/-- remove_file succeeds exactly on a file; then exactly `p` disappears -/
theorem removeFile_contract :
    ((Phys.pRemoveFile m p).1.isOk = true ↔ IsFile m p) ∧
    ((Phys.pRemoveFile m p).1.isOk = true →
        Absent (Phys.pRemoveFile m p).2 p ∧ ∀ k, k ≠ p → (Phys.pRemoveFile m p).2.find? k = m.find? k) ∧
    ((Phys.pRemoveFile m p).1.isOk = false → (Phys.pRemoveFile m p).2 = m) ∧
    (IsDir m (parentInternal p) → Absent m p → (Phys.pRemoveFile m p).1.kind? = some .fileNotFound) := by
  unfold Phys.pRemoveFile Phys.removeFile
  rcases Option.eq_none_or_eq_some (m.find? p) with hf | ⟨e, hf⟩
  · have hnf : ¬ IsFile m p := by rintro ⟨e, he, _⟩; rw [hf] at he; cases he
    refine ⟨?_, ?_, ?_, ?_⟩
    · rcases lookup_absent m p hf with ⟨k, pth, hl⟩ | hl <;> simp [hl, fail, Res.withPath, Res.isOk, hnf]
    · rcases lookup_absent m p hf with ⟨k, pth, hl⟩ | hl <;> simp [hl, fail, Res.withPath, Res.isOk]
    · rcases lookup_absent m p hf with ⟨k, pth, hl⟩ | hl <;> simp [hl, fail]
    · intro hpar _
      simp [phys_lookup hm p hp hpar, hf, fail, Res.withPath, Res.kind?]
  · rw [hm.lookup_present p e hf]
    cases hty : e.ftype
    · simp only [hty]
      refine ⟨by simp [Res.withPath, Res.isOk, IsFile, hf, hty], ?_, by simp [Res.withPath, Res.isOk], ?_⟩
      · intro _
        exact ⟨by simp [Absent], fun k hk => FMap.find?_erase_ne m p k hk⟩
      · intro _ ha; rw [Absent, hf] at ha; cases ha
    · simp only [hty]
      refine ⟨?_, by simp [fail, Res.withPath, Res.isOk], fun _ => rfl, ?_⟩
      · simp only [fail, Res.withPath, Res.isOk, IsFile, hf]
        constructor
        · intro h; cases h
        · rintro ⟨e', he', ht'⟩; injection he' with he'; subst he'; rw [hty] at ht'; cases ht'
      · intro _ ha; rw [Absent, hf] at ha; cases ha

end spec

/-! ### the same contract holds for the in-memory backend (through C02) -/

section mem
variable {m : FMap} (hm : WF m) (p : Str) (hp : Abs p)
include hm hp

theorem mem_createDir_ok_iff :
    (Mem.pCreateDir m p).1.isOk = true ↔ IsDir m (parentInternal p) ∧ Absent m p := by
  rw [(createDir_agree hm (CoreEq.refl m) p hp).1.1]
  exact (createDir_contract hm p hp).1

theorem mem_removeFile_ok_iff : (Mem.pRemoveFile m p).1.isOk = true ↔ IsFile m p := by
  rw [(removeFile_agree hm (CoreEq.refl m) p hp).1.1]
  exact (removeFile_contract hm p hp).1

/-- create_dir on an occupied path reports the occupant, on both backends -/
theorem mem_createDir_occupied (hpar : IsDir m (parentInternal p)) :
    (IsFile m p → (Mem.pCreateDir m p).1.kind? = some .fileExists) ∧
    (IsDir m p → (Mem.pCreateDir m p).1.kind? = some .dirExists) := by
  have hs := (createDir_agree hm (CoreEq.refl m) p hp).2.1
  have hc := createDir_contract hm p hp
  exact ⟨fun h => hs _ (hc.2.2.2.1 hpar h) (Or.inr (Or.inl rfl)),
         fun h => hs _ (hc.2.2.2.2 hpar h) (Or.inr (Or.inr rfl))⟩

/-- a failed primitive leaves the in-memory tree unchanged -/
theorem mem_failed_unchanged (op : Mut) (hfail : (stepMem m op).1.isOk = false) :
    (stepMem m op).2 = m := by
  cases op with
  | createDir q =>
    simp only [stepMem, Mem.pCreateDir] at *
    by_cases hpo : Mem.parentOk m q = true
    · simp only [hpo, ↓reduceIte] at *
      unfold Mem.createDir at *
      cases hen : Mem.ensureHasParent m q with
      | ok u =>
        simp only [hen] at *
        rcases Option.eq_none_or_eq_some (m.find? q) with hf | ⟨e, hf⟩
        · simp [hf, Res.withPath, Res.isOk] at hfail
        · simp [hf]
      | err k pth => simp
      | panic => simp
    · simp [hpo]
  | write q bs =>
    simp only [stepMem, Mem.pWrite] at *
    by_cases hpo : Mem.parentOk m q = true
    · simp only [hpo, ↓reduceIte] at *
      unfold Mem.createFile at *
      cases hen : Mem.ensureHasParent m q with
      | ok u =>
        simp only [hen] at *
        rcases Option.eq_none_or_eq_some (m.find? q) with hf | ⟨e, hf⟩
        · simp [hf, Res.isOk] at hfail
        · by_cases hd : e.ftype = .dir
          · simp [hf, hd, fail]
          · simp [hf, hd, Res.isOk] at hfail
      | err k pth => simp
      | panic => simp
    · simp [hpo]
  | append q bs =>
    simp only [stepMem, Mem.pAppend] at *
    cases ha : Mem.appendFile m q with
    | ok old => simp [ha, Res.isOk] at hfail
    | err k pth => simp
    | panic => simp
  | removeFile q =>
    simp only [stepMem, Mem.pRemoveFile, Mem.removeFile] at *
    rcases Option.eq_none_or_eq_some (m.find? q) with hf | ⟨e, hf⟩
    · simp [hf]
    · simp only [hf] at *
      by_cases hd : e.ftype ≠ .file
      · simp [hd]
      · simp [hd, Res.withPath, Res.isOk] at hfail
  | removeDir q =>
    simp only [stepMem, Mem.pRemoveDir, Mem.removeDir] at *
    cases hr : Mem.readDir m q with
    | ok l =>
      simp only [hr] at *
      by_cases hl : l ≠ []
      · simp [hl]
      · simp only [hl, ↓reduceIte] at *
        by_cases hc : m.contains q = true
        · simp [hc, Res.withPath, Res.isOk] at hfail
        · simp [hc]
    | err k pth => simp
    | panic => simp

end mem

/-! Non-vacuity -/
example : IsDir Mem.init [] := ⟨_, rfl, rfl⟩
example : (Phys.pCreateDir Phys.init "/a".toList).1.isOk = true := by decide
example : (Phys.pCreateDir Phys.init "/a/b".toList).1.isOk = false := by decide

end Vfs.C01
