/-
  C17 for an overlay whose layers are SUB-DIRECTORY paths of in-memory filesystems
  (`OverlayFS::new(&[up_fs_root.join("layers/up")?, low_fs_root.join("low")?])`), interleaving
  model VfsModel/OverlayConc.lean — KERNEL-EVALUATED INSTANCES (the general theorem is in
  Props/C17OverlaySubdirConc.lean).

  World `wS`: leaf 1 holds "/layers/up" with the markers "/layers/up/.whiteout/c_wo" and
  "/layers/up/.whiteout/c/o_wo" (left by `remove_file("/c/o")`, `remove_dir("/c")` through the
  overlay), leaf 0 holds "/low/c", "/low/c/o".  Threads T0 = `create_dir_all("/c/x")`,
  T1 = `create_dir_all("/c/y")` on the overlay (32 layer calls each: four more than over root-path
  layers, because `create_dir_all` on the write path "/layers/up/…" first walks "/layers",
  "/layers/up", each answering `DirectoryExists`).

  PROVED (by `decide +kernel`; axioms: propext only):
  * `subdir_new_ok_preemptOnce` : every schedule in which each thread is preempted at most once
    (`preemptOnce 36 36`, 2738 schedules, all steps of both threads) ends with both `Ok(())`,
    "/layers/up/c", "/layers/up/c/x", "/layers/up/c/y" directories of leaf 1, the marker of "/c"
    gone, leaf 0 as before — the repaired `create_dir` (finding O11);
  * `subdir_new_ok_window` : ALL C(10,5) = 252 interleavings of the critical window (the 5 calls of
    each thread starting with its `create_dir("/layers/up/c")` on the write layer), then completion;
  * `subdir_old_fails` : the pre-repair `create_dir` fails on `badScheduleS` (T1 runs up to and
    including its `create_dir("/layers/up/c")`, then T0 runs to completion): T0 = `Err(Other)`.
  The tie `small_step_is_createDirAll` (Props/C17OverlayConc.lean) holds for these layers as for
  any (it has no hypothesis on the layers).

  The statement for EVERY schedule over sub-directory layers (the analogue of
  `overlay_create_dir_all_concurrent`) is `overlay_subdir_create_dir_all_concurrent` in
  Props/C17OverlaySubdirConc.lean, instantiated on this world by `wS_instance` there.
-/
import VfsModel.Props.C17OverlayConc
namespace Vfs.C17
open Vfs Vfs.Overlay Vfs.OConc

def sUp : Str := ['/', 'l', 'a', 'y', 'e', 'r', 's', '/', 'u', 'p']
def sLayers : Str := ['/', 'l', 'a', 'y', 'e', 'r', 's']
def sLow : Str := ['/', 'l', 'o', 'w']

/-- the upper filesystem: the write layer is its directory "/layers/up" -/
def muS : FMap :=
  [(sUp ++ kMC, fileOf' []), (sUp ++ kMOld, fileOf' []), (sUp ++ kWoC, dirEntryNow),
   (sUp ++ kWo, dirEntryNow), (sUp, dirEntryNow), (sLayers, dirEntryNow), ([], dirEntryNow)]
/-- the lower filesystem: the lower layer is its directory "/low" -/
def mlS : FMap :=
  [(sLow ++ kOld, fileOf' [49]), (sLow ++ kC, dirEntryNow), (sLow, dirEntryNow), ([], dirEntryNow)]
def wS : World := { leaves := [{ kind := .mem, files := mlS }, { kind := .mem, files := muS }] }
def layS : List VPath :=
  [{ fs := leafFS 1, fsId := 7, path := sUp }, { fs := leafFS 0, fsId := 8, path := sLow }]

def sNewS : Sys := initSys layS wS [pX, pY]
def sOldS : Sys := initSysOld layS wS [pX, pY]

/-- both `Ok(())`; "/layers/up/c", ".../c/x", ".../c/y" directories of leaf 1 and the marker of
"/c" gone there; leaf 0 as before -/
def goodS (s : Sys) : Bool :=
  s.results = [some (.ok ()), some (.ok ())] &&
  (s.world.leaves.map fun l =>
      ([sUp ++ kC, sUp ++ pX, sUp ++ pY, sUp ++ kMC].map fun q => (l.files.find? q).map (·.ftype))) ==
    [[none, none, none, none], [some .dir, some .dir, some .dir, none]] &&
  (s.world.leaves.map (·.files))[0]? == some mlS

example : (OConc.createDirAll layS pX).callsFrom wS = 32 ∧
    (OConc.createDirAll layS pY).callsFrom wS = 32 := by decide +kernel

example : goodS (OConc.run sNewS (List.replicate 36 0 ++ List.replicate 36 1)) = true := by
  decide +kernel

/-- T1's tenth call is the `create_dir("/layers/up/c")` on the write layer -/
example : ((OConc.run sOldS (List.replicate 9 1)).threads.map Prog.label)[1]? = some "create_dir" ∧
    (OConc.run sOldS (List.replicate 10 1)).world.leaves.map
        (fun l => l.files.contains (sUp ++ kC) && l.files.contains (sUp ++ kMC))
      = [false, true] := by decide +kernel

def badScheduleS : List Nat := List.replicate 10 1 ++ List.replicate 36 0 ++ List.replicate 26 1

/-- the pre-repair `create_dir` fails over sub-directory layers as over root layers -/
theorem subdir_old_fails :
    (OConc.run sOldS badScheduleS).results = [some (.err .other (some pX)), some (.ok ())] := by
  decide +kernel

theorem subdir_new_ok_badSchedule : goodS (OConc.run sNewS badScheduleS) = true := by decide +kernel

/-! ### every schedule that preempts each thread at most once -/

example : (preemptOnce 36 36).length = 2738 := by decide +kernel

set_option maxRecDepth 100000 in
theorem subdir_new_ok_preemptOnce_1 :
    ((preemptOnce 36 36).take 550).all (fun sc => goodS (OConc.run sNewS sc)) = true := by
  decide +kernel
set_option maxRecDepth 100000 in
theorem subdir_new_ok_preemptOnce_2 :
    (((preemptOnce 36 36).drop 550).take 550).all (fun sc => goodS (OConc.run sNewS sc)) = true := by
  decide +kernel
set_option maxRecDepth 100000 in
theorem subdir_new_ok_preemptOnce_3 :
    (((preemptOnce 36 36).drop 1100).take 550).all (fun sc => goodS (OConc.run sNewS sc)) = true := by
  decide +kernel
set_option maxRecDepth 100000 in
theorem subdir_new_ok_preemptOnce_4 :
    (((preemptOnce 36 36).drop 1650).take 550).all (fun sc => goodS (OConc.run sNewS sc)) = true := by
  decide +kernel
set_option maxRecDepth 100000 in
theorem subdir_new_ok_preemptOnce_5 :
    ((preemptOnce 36 36).drop 2200).all (fun sc => goodS (OConc.run sNewS sc)) = true := by
  decide +kernel

theorem mem_split_take {α} (l : List α) (n : Nat) {x : α} (h : x ∈ l) :
    x ∈ l.take n ∨ x ∈ l.drop n := by
  rw [← List.take_append_drop n l, List.mem_append] at h
  exact h

/-- every schedule of the family ends with both `Ok` and the three directories present -/
theorem subdir_new_ok_preemptOnce : ∀ sc ∈ preemptOnce 36 36, goodS (OConc.run sNewS sc) = true := by
  intro sc hsc
  rcases mem_split_take _ 550 hsc with h | h
  · exact List.all_eq_true.1 subdir_new_ok_preemptOnce_1 sc h
  rcases mem_split_take _ 550 h with h | h
  · exact List.all_eq_true.1 subdir_new_ok_preemptOnce_2 sc h
  rw [List.drop_drop] at h
  rcases mem_split_take _ 550 h with h | h
  · exact List.all_eq_true.1 subdir_new_ok_preemptOnce_3 sc h
  rw [List.drop_drop] at h
  rcases mem_split_take _ 550 h with h | h
  · exact List.all_eq_true.1 subdir_new_ok_preemptOnce_4 sc h
  rw [List.drop_drop] at h
  exact List.all_eq_true.1 subdir_new_ok_preemptOnce_5 sc h

/-- with the old `create_dir` some schedule of the family fails -/
theorem subdir_old_fails_some : ∃ sc ∈ preemptOnce 36 36, goodS (OConc.run sOldS sc) = false :=
  ⟨badScheduleS, by decide +kernel, by decide +kernel⟩

/-! ### all interleavings of the critical window -/

/-- both threads have made their first 9 calls (each is about to call `create_dir("/layers/up/c")`
on the write layer); then EVERY interleaving of the next 5 calls of each thread; then both run to
completion -/
def windowSchedulesS : List (List Nat) :=
  (interleavings 5 5).map fun mid =>
    List.replicate 9 0 ++ List.replicate 9 1 ++ mid ++ List.replicate 36 0 ++ List.replicate 36 1

example : (OConc.run sNewS (List.replicate 9 0 ++ List.replicate 9 1)).threads.map Prog.label
    = ["create_dir", "create_dir"] := by decide +kernel

set_option maxRecDepth 100000 in
theorem subdir_new_ok_window : windowSchedulesS.all (fun sc => goodS (OConc.run sNewS sc)) = true := by
  decide +kernel

set_option maxRecDepth 100000 in
theorem subdir_old_fails_window : windowSchedulesS.any (fun sc => !goodS (OConc.run sOldS sc)) = true := by
  decide +kernel

end Vfs.C17

#print axioms Vfs.C17.subdir_new_ok_preemptOnce
#print axioms Vfs.C17.subdir_new_ok_window
#print axioms Vfs.C17.subdir_old_fails
#print axioms Vfs.C17.subdir_old_fails_some
