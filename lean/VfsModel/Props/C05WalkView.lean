/-
  C05 (traversal) for ANY filesystem that shows a well-formed tree — `VfsPath::walk_dir` yields
  every descendant exactly once and every directory before anything inside it — and its instances
  for the in-memory backend, the overlay over n in-memory layers, and the altroot over an
  in-memory leaf.

  INTERFACE (Proofs/WalkGeneric.lean). `TreeViewOn fs S v`: `v : Str → Option Entry` is a finite
  well-formed tree (finitely many present paths; the root "" is a directory; every other present
  path contains '/', and its `parent_internal` is a present directory), and in EVERY world of the
  set `S` the two trait methods the walker calls answer by `v` and keep the world inside `S`:
  `read_dir p` of a directory `p` succeeds with exactly the bare names `n` ('/' ∉ n) for which
  `v (p ++ "/" ++ n)` is present, each once, in SOME order (which may change from call to call);
  `metadata p` of a present `p` succeeds and reports the type of `v p`. `TreeView fs w v` is
  `S = {w}`: the observers leave the world unchanged (true for the three instances below;
  `open_file` stamps access times but the walker never opens a file). `S` may be larger, e.g. for a
  recording wrapper whose ghost log grows with every call — any set of worlds all showing `v`
  and closed under the two observers.

  PROVED — generic (`fs`, `S`, `v` arbitrary with `TreeViewOn fs S v`; `p` a directory of `v`;
  `D` any duplicate-free enumeration of the present proper descendants of `p`
  (`DescList v p D`, one exists: `descList_exists`); start world in `S`; NO assumption on the order
  of any listing):
    * `walk_view_spec`         fuel > |D|: `.ok` list of `.ok` items on the same filesystem, the
                               yielded paths L are a permutation of D, duplicate-free, k ∈ L iff k
                               is present and strictly below p, no path before one of its
                               ancestors (`Pairwise`), final world in S;
                               fuel ≤ |D|: the out-of-fuel sentinel `.panic`, final world in S.
    * `walk_view_panic_iff`    the bound is exact: sentinel ⇔ fuel ≤ |D|; in particular the walk
                               never panics with sufficient fuel (`walk_view_terminates`).
    * `walk_view_result`       EVERY `.ok` outcome, whatever the fuel, is the right one;
      `walk_view_fuel_irrelevant`.
    * `walk_view_items_ok`, `walk_view_complete_nodup` (count = 1), `walk_view_dirs_first` (index
      form), `walk_view_ancestors_listed`, `walk_view_dir_before_content` (split form),
      `walk_view_root_complete` (from "" every present path but the root).
    * `walk_view_not_dir`      `walk_dir` on an absent path / a file of the view fails
                               (not-found / the error `read_dir` gives), no iterator (`ViewAbsent`).
    * `TreeView` versions: world unchanged (`walk_view_spec_fixed`).
  PROVED — instances:
    * `mem_treeView`; `mem_walk_spec` (the in-memory theorem `C05.walk_spec` re-derived from the
      generic one, as a sanity check).
    * `overlay_treeView`, `overlay_viewAbsent`; `overlay_walk_spec`, `overlay_walk_result`,
      `overlay_walk_dir_before_content`, `overlay_walk_not_dir`: overlay over n ≥ 1 in-memory
      layers under `OWN`, `OInv`, `ViewWF` and the name discipline `NamesOK` (below), view =
      `ovisView all` = `oview all` cut down to the root and the disciplined canonical paths
      (`OVis`: outside ".whiteout", no component ending in "_wo").
    * `altroot_treeView`; `altroot_walk_spec`, `altroot_walk_spec_leaf`: altroot over a directory
      `P` of an in-memory leaf, view = lookup in the sub-map `sub P m` (hypotheses `Inv0 (sub P m)`,
      `AncOK P m`, `Canon P` as in Props/C07Subtree.lean, plus `WF m`, unique keys).
    * `treeViewOn_of_fixed`, `record_treeViewOn`, `recorded_mem_walk_spec`: an instance where the
      world DOES change — a recording wrapper (ghost log grows with every call) around MemoryFS,
      `S` = "leaf i holds m".
    * non-vacuity: the 3-layer world of Props/C09Refine.lean walked from "" and from "/d", before
      and after its 12-call history: hypotheses by `decide`, walk evaluated by `decide`, item
      multiset and dirs-first order checked, theorems instantiated.

  HYPOTHESES of the overlay instance. `OWN`, `OInv`, `ViewWF` are invariants of every disciplined
  history (Props/C03Overlay.lean). `NamesOK all` is an additional STATE hypothesis: below the root
  and below every disciplined path, every present bare name is a canonical component that does not
  end in "_wo" (at the root ".whiteout" is exempt). It is needed: a lower-layer directory called
  "x_wo" would make `read_dir` consult the marker FILE of "x". `namesOK_of_keys` is a decidable
  sufficient check on the keys of the layer maps.
  It is an invariant too: `namesOK_step` (one contract-obeying call keeps it),
  `overlay_history_walkable` (all four hypotheses hold after every disciplined history), and
  `overlay_walk_history` states the walk theorem for EVERY reachable state, from the initial
  hypotheses of Props/C03Overlay.lean plus `NamesOK` of the initial layers.
  NOT PROVED: the async iterator; physical leaves; overlays whose layers are not roots of memory
  leaves; walks started at an overlay path with a component ending in "_wo" or inside
  ".whiteout" (outside the view by design); histories with `VfsPath`-level operations (as in
  Props/C03Overlay.lean); concurrent mutation during the walk (the worlds of `S` all show the
  SAME view `v`).
-/
import VfsModel.Proofs.WalkGeneric
import VfsModel.Props.C05Walk
import VfsModel.Props.C05Overlay
import VfsModel.Props.C07Subtree
set_option linter.unusedVariables false
namespace Vfs.C05
open Vfs.Wk
open Vfs.WkG (TreeViewOn TreeView ViewAbsent IsNames)

/-! ### vocabulary -/

/-- the `VfsPath` with string `k` on filesystem `fs` (identity `id`) -/
abbrev vp (fs : FS) (id : Nat) (k : Str) : VPath := { fs := fs, fsId := id, path := k }

/-- the items `.ok path` for the path strings `L` on `fs` -/
def okItemsOn (fs : FS) (id : Nat) (L : List Str) : List (Res VPath) :=
  L.map (fun k => .ok (vp fs id k))

/-- `D` enumerates, without duplicates, the present paths strictly below `p` -/
def DescList (v : Str → Option Entry) (p : Str) (D : List Str) : Prop :=
  D.Nodup ∧ ∀ k, k ∈ D ↔ (v k ≠ none ∧ below p k = true)

theorem okItemsOn_inj {fs : FS} {id : Nat} {L L' : List Str}
    (h : okItemsOn fs id L = okItemsOn fs id L') : L = L' := by
  have := congrArg (List.map (fun it : Res VPath => match it with
    | .ok x => x.path
    | _ => [])) h
  simpa [okItemsOn, List.map_map, Function.comp_def] using this

theorem ne_none_iff {α} (o : Option α) : o ≠ none ↔ ∃ e, o = some e := by
  cases o <;> simp

theorem DescList.length_eq {v : Str → Option Entry} {p : Str} {D D' : List Str}
    (h : DescList v p D) (h' : DescList v p D') : D.length = D'.length :=
  ((List.perm_ext_iff_of_nodup h.1 h'.1).2 (fun k => by rw [h.2 k, h'.2 k])).length_eq

theorem descList_of_map (m : FMap) (hk : FMap.NodupKeys m) (p : Str) :
    DescList m.find? p (m.keys.filter (below p)) := by
  refine ⟨List.Pairwise.filter _ hk, ?_⟩
  intro k
  rw [List.mem_filter, FMap.mem_keys_iff, ne_none_iff]

/-- a finite view has an enumeration of the descendants of every path -/
theorem descList_exists {fs : FS} {S : World → Prop} {v : Str → Option Entry}
    (tv : TreeViewOn fs S v) (p : Str) : ∃ D, DescList v p D := by
  obtain ⟨m, rfl, _, hk⟩ := WkG.exists_map tv.finite tv.root tv.parent
  exact ⟨_, descList_of_map m hk p⟩

/-- more fuel does not change a finished collected walk (any filesystem) -/
theorem walkCollect_fuel_le {fuel fuel' : Nat} (hle : fuel ≤ fuel') (P : VPath) (w w' : World)
    (l : List (Res VPath)) (h : walkCollect fuel P w = (.ok l, w')) :
    walkCollect fuel' P w = (.ok l, w') := by
  unfold walkCollect at h ⊢
  simp only [bind, M.bind] at h ⊢
  rcases hd : P.walkDir w with ⟨r, w1⟩
  rw [hd] at h
  cases r with
  | ok s => exact walkAll_fuel_le hle s w1 w' l h
  | err k p => simp at h
  | panic => simp at h

/-! ### the generic traversal theorem -/

section generic
variable {fs : FS} {S : World → Prop} {v : Str → Option Entry} (tv : TreeViewOn fs S v) (id : Nat)
  {w : World} (hw : S w) {p : Str} {e : Entry} (hp : v p = some e) (hdir : e.ftype = .dir)
  {D : List Str} (hD : DescList v p D)
include tv hw hp hdir hD

/-- **walk_dir over any tree view.** Whatever order the listings come in: with more fuel than
present proper descendants of `p`, the collected walk is an `.ok` list of `.ok` items — exactly
the present proper descendants of `p`, each once, no path before one of its ancestors — and never
`.panic`; with less fuel it is the out-of-fuel sentinel. The final world is in `S`. -/
theorem walk_view_spec (fuel : Nat) :
    (D.length < fuel →
      ∃ (L : List Str) (w' : World), S w' ∧
        walkCollect fuel (vp fs id p) w = (.ok (okItemsOn fs id L), w') ∧
        L.Perm D ∧ L.Nodup ∧ (∀ k, k ∈ L ↔ (v k ≠ none ∧ below p k = true)) ∧
        L.Pairwise (fun a b => below b a = false)) ∧
    (fuel ≤ D.length → ∃ w', S w' ∧ walkCollect fuel (vp fs id p) w = (.panic, w')) := by
  obtain ⟨m, rfl, hwf, hk⟩ := WkG.exists_map tv.finite tv.root tv.parent
  have hlen : (m.keys.filter (below p)).length = D.length :=
    (descList_of_map m hk p).length_eq hD
  have tv' : TreeViewOn (vp fs id p).fs S m.find? := tv
  obtain ⟨h1, h2⟩ := WkG.walk_from_dir (P := vp fs id p) tv' hwf hk w hw p e hp hdir fuel
  constructor
  · intro hf
    obtain ⟨L, w', hS, hrun, hmem, hnd, hord⟩ := h1 (by omega)
    have hmem' : ∀ k, k ∈ L ↔ (m.find? k ≠ none ∧ below p k = true) := by
      intro k; rw [hmem k, FMap.mem_keys_iff, ne_none_iff]
    refine ⟨L, w', hS, hrun, ?_, hnd, hmem', hord⟩
    rw [List.perm_ext_iff_of_nodup hnd hD.1]
    intro k; rw [hmem' k, hD.2 k]
  · intro hf
    exact h2 (by omega)

/-- termination: fuel > number of present proper descendants — the sentinel is not reached -/
theorem walk_view_terminates (fuel : Nat) (hf : D.length < fuel) :
    ∃ (L : List Str) (w' : World), S w' ∧
      walkCollect fuel (vp fs id p) w = (.ok (okItemsOn fs id L), w') := by
  obtain ⟨L, w', hS, hrun, _⟩ := (walk_view_spec tv id hw hp hdir hD fuel).1 hf
  exact ⟨L, w', hS, hrun⟩

/-- the bound is exact: the out-of-fuel sentinel is the outcome iff fuel ≤ #descendants -/
theorem walk_view_panic_iff (fuel : Nat) :
    (walkCollect fuel (vp fs id p) w).1 = .panic ↔ fuel ≤ D.length := by
  constructor
  · intro hpan
    apply Nat.le_of_not_lt
    intro hf
    obtain ⟨L, w', _, h1⟩ := walk_view_terminates tv id hw hp hdir hD fuel hf
    rw [h1] at hpan
    cases hpan
  · intro hle
    obtain ⟨w', _, h1⟩ := (walk_view_spec tv id hw hp hdir hD fuel).2 hle
    rw [h1]

/-- EVERY `.ok` outcome of the collected walk, whatever the fuel, is the right one -/
theorem walk_view_result (fuel : Nat) (items : List (Res VPath)) (w' : World)
    (hrun : walkCollect fuel (vp fs id p) w = (.ok items, w')) :
    S w' ∧ ∃ L : List Str, items = okItemsOn fs id L ∧
      L.Perm D ∧ L.Nodup ∧ (∀ k, k ∈ L ↔ (v k ≠ none ∧ below p k = true)) ∧
      L.Pairwise (fun a b => below b a = false) := by
  obtain ⟨L, w2, hS, h1, h2, h3, h4, h5⟩ :=
    (walk_view_spec tv id hw hp hdir hD (max fuel (D.length + 1))).1 (by omega)
  have := walkCollect_fuel_le (Nat.le_max_left fuel (D.length + 1)) _ w w' items hrun
  rw [h1] at this
  simp only [Prod.mk.injEq, Res.ok.injEq] at this
  refine ⟨by rw [← this.2]; exact hS, L, this.1.symm, h2, h3, h4, h5⟩

/-- all sufficient fuels give the same outcome -/
theorem walk_view_fuel_irrelevant (fuel fuel' : Nat) (hf : D.length < fuel)
    (hf' : D.length < fuel') :
    walkCollect fuel (vp fs id p) w = walkCollect fuel' (vp fs id p) w := by
  obtain ⟨L, w', _, h1⟩ := walk_view_terminates tv id hw hp hdir hD (D.length + 1) (by omega)
  rw [walkCollect_fuel_le (show D.length + 1 ≤ fuel by omega) _ w w' _ h1,
    walkCollect_fuel_le (show D.length + 1 ≤ fuel' by omega) _ w w' _ h1]

/-- every item is `.ok`: a present path strictly below p, on the same filesystem -/
theorem walk_view_items_ok (fuel : Nat) (items : List (Res VPath)) (w' : World)
    (hrun : walkCollect fuel (vp fs id p) w = (.ok items, w')) :
    ∀ it ∈ items, ∃ k, it = .ok (vp fs id k) ∧ v k ≠ none ∧ below p k = true := by
  obtain ⟨_, L, rfl, _, _, hmem, _⟩ := walk_view_result tv id hw hp hdir hD fuel items w' hrun
  intro it hit
  simp only [okItemsOn, List.mem_map] at hit
  obtain ⟨k, hkL, rfl⟩ := hit
  obtain ⟨a, b⟩ := (hmem k).1 hkL
  exact ⟨k, rfl, a, b⟩

/-- every present proper descendant of p exactly once, and nothing else -/
theorem walk_view_complete_nodup (fuel : Nat) (L : List Str) (w' : World)
    (hrun : walkCollect fuel (vp fs id p) w = (.ok (okItemsOn fs id L), w')) :
    L.Perm D ∧ L.Nodup ∧
    (∀ k, k ∈ L ↔ v k ≠ none ∧ k ≠ p ∧ (k = p ∨ ∃ t, k = p ++ '/' :: t)) ∧
    (∀ k, v k ≠ none → k ≠ p → (k = p ∨ ∃ t, k = p ++ '/' :: t) → L.count k = 1) := by
  obtain ⟨_, L', hL, hperm, hnd, hmem, _⟩ :=
    walk_view_result tv id hw hp hdir hD fuel _ w' hrun
  obtain rfl := okItemsOn_inj hL
  have hmem' : ∀ k, k ∈ L ↔ v k ≠ none ∧ k ≠ p ∧ (k = p ∨ ∃ t, k = p ++ '/' :: t) := by
    intro k
    rw [hmem k, below_iff_under]
  refine ⟨hperm, hnd, hmem', ?_⟩
  intro k h1 h2 h3
  rw [List.Nodup.count hnd, if_pos ((hmem' k).2 ⟨h1, h2, h3⟩)]

/-- directories first, index form: a proper ancestor comes strictly earlier -/
theorem walk_view_dirs_first (fuel : Nat) (L : List Str) (w' : World)
    (hrun : walkCollect fuel (vp fs id p) w = (.ok (okItemsOn fs id L), w'))
    (a b : Nat) (ha : a < L.length) (hb : b < L.length) (hab : below L[a] L[b] = true) :
    a < b := by
  obtain ⟨_, L', hL, _, _, _, hord⟩ := walk_view_result tv id hw hp hdir hD fuel _ w' hrun
  obtain rfl := okItemsOn_inj hL
  exact WkG.dirs_first_index hord a b ha hb hab

/-- every name strictly between p and a yielded path is yielded too, and is a directory -/
theorem walk_view_ancestors_listed (fuel : Nat) (L : List Str) (w' : World)
    (hrun : walkCollect fuel (vp fs id p) w = (.ok (okItemsOn fs id L), w'))
    (k1 k2 : Str) (h2 : k2 ∈ L) (hp1 : below p k1 = true) (h12 : below k1 k2 = true) :
    k1 ∈ L ∧ ∃ e1, v k1 = some e1 ∧ e1.ftype = .dir := by
  obtain ⟨_, L', hL, _, _, hmem, _⟩ := walk_view_result tv id hw hp hdir hD fuel _ w' hrun
  obtain rfl := okItemsOn_inj hL
  obtain ⟨m, rfl, hwf, hk⟩ := WkG.exists_map tv.finite tv.root tv.parent
  have hk2 := (ne_none_iff _).1 ((hmem k2).1 h2).1
  obtain ⟨e1, he1, hd1⟩ := ancestor_dir hwf hk2 h12
  exact ⟨(hmem k1).2 ⟨by rw [he1]; simp, hp1⟩, e1, he1, hd1⟩

/-- the C05 sentence: a directory is yielded before anything inside it — if k2 is yielded and
k1 (below p) is a proper ancestor of k2, the list splits as `… k1 … k2 …` -/
theorem walk_view_dir_before_content (fuel : Nat) (L : List Str) (w' : World)
    (hrun : walkCollect fuel (vp fs id p) w = (.ok (okItemsOn fs id L), w'))
    (k1 k2 : Str) (h2 : k2 ∈ L) (hp1 : below p k1 = true) (h12 : below k1 k2 = true) :
    ∃ l1 l2 l3, L = l1 ++ k1 :: l2 ++ k2 :: l3 := by
  obtain ⟨h1, _⟩ :=
    walk_view_ancestors_listed tv id hw hp hdir hD fuel L w' hrun k1 k2 h2 hp1 h12
  obtain ⟨a, ha, hak⟩ := List.getElem_of_mem h1
  obtain ⟨b, hb, hbk⟩ := List.getElem_of_mem h2
  have hlt := walk_view_dirs_first tv id hw hp hdir hD fuel L w' hrun a b ha hb
    (by rw [hak, hbk]; exact h12)
  have := WkG.split_at_two L a b ha hb hlt
  rw [hak, hbk] at this
  exact this

end generic

/-- the observers leave the world unchanged (`TreeView`): so does the walk -/
theorem walk_view_spec_fixed {fs : FS} {w : World} {v : Str → Option Entry} (tv : TreeView fs w v)
    (id : Nat) {p : Str} {e : Entry} (hp : v p = some e) (hdir : e.ftype = .dir)
    {D : List Str} (hD : DescList v p D) (fuel : Nat) :
    (D.length < fuel →
      ∃ L : List Str, walkCollect fuel (vp fs id p) w = (.ok (okItemsOn fs id L), w) ∧
        L.Perm D ∧ L.Nodup ∧ (∀ k, k ∈ L ↔ (v k ≠ none ∧ below p k = true)) ∧
        L.Pairwise (fun a b => below b a = false)) ∧
    (fuel ≤ D.length → walkCollect fuel (vp fs id p) w = (.panic, w)) := by
  obtain ⟨h1, h2⟩ := walk_view_spec tv id (S := fun w' => w' = w) rfl hp hdir hD fuel
  constructor
  · intro hf
    obtain ⟨L, w', hS, hrun, r⟩ := h1 hf
    subst hS
    exact ⟨L, hrun, r⟩
  · intro hf
    obtain ⟨w', hS, hrun⟩ := h2 hf
    subst hS
    exact hrun

/-- walking the root `""` yields every present path but the root, each once, ancestors first -/
theorem walk_view_root_complete {fs : FS} {S : World → Prop} {v : Str → Option Entry}
    (tv : TreeViewOn fs S v) (id : Nat) {w : World} (hw : S w) {D : List Str}
    (hD : D.Nodup ∧ ∀ k, k ∈ D ↔ (v k ≠ none ∧ k ≠ [])) :
    ∃ (L : List Str) (w' : World), S w' ∧
      walkCollect (D.length + 1) (vp fs id []) w = (.ok (okItemsOn fs id L), w') ∧
      L.Perm D ∧ L.Nodup ∧
      (∀ a b (ha : a < L.length) (hb : b < L.length), below L[a] L[b] = true → a < b) := by
  obtain ⟨e, hp, hdir⟩ := tv.root
  have hD' : DescList v [] D := by
    refine ⟨hD.1, fun k => ?_⟩
    rw [hD.2 k]
    obtain ⟨m, rfl, hwf, hk⟩ := WkG.exists_map tv.finite tv.root tv.parent
    constructor
    · rintro ⟨h1, h2⟩
      exact ⟨h1, below_root hwf k.length k (Nat.le_refl _) ((ne_none_iff _).1 h1) h2⟩
    · rintro ⟨h1, h2⟩
      refine ⟨h1, ?_⟩
      intro h0; subst h0
      rw [below_irrefl] at h2; cases h2
  obtain ⟨L, w', hS, hrun, hperm, hnd, _, hord⟩ :=
    (walk_view_spec tv id hw hp hdir hD' (D.length + 1)).1 (by omega)
  exact ⟨L, w', hS, hrun, hperm, hnd, fun a b ha hb => WkG.dirs_first_index hord a b ha hb⟩

/-- `walk_dir` on a path of `dom` that is absent / a file of the view: `walk_dir` itself fails
(not-found for an absent path), the path filled in, and there is no iterator -/
theorem walk_view_not_dir {fs : FS} {S : World → Prop} {v : Str → Option Entry}
    {dom : Str → Prop} (va : ViewAbsent fs S v dom) (id : Nat) {w : World} (hw : S w) {p : Str}
    (hdom : dom p) (fuel : Nat) :
    (v p = none → ∃ w', S w' ∧
      VPath.walkDir (vp fs id p) w = (.err .fileNotFound (some p), w') ∧
      walkCollect fuel (vp fs id p) w = (.err .fileNotFound (some p), w')) ∧
    (∀ e, v p = some e → e.ftype = .file → ∃ k w', S w' ∧
      VPath.walkDir (vp fs id p) w = (.err k (some p), w') ∧
      walkCollect fuel (vp fs id p) w = (.err k (some p), w')) := by
  constructor
  · intro hp
    obtain ⟨⟨pth, w', hrd, hS⟩, _⟩ := va.absent w hw p hdom hp
    have := WkG.collect_readDir_err fuel (vp fs id p) w w' .fileNotFound pth hrd
    exact ⟨w', hS, this.1, this.2⟩
  · intro e hp hf
    obtain ⟨k, pth, w', hrd, hS⟩ := va.file w hw p e hdom hp hf
    have := WkG.collect_readDir_err fuel (vp fs id p) w w' k pth hrd
    exact ⟨k, w', hS, this.1, this.2⟩

/-- a view that is shown, with the world unchanged, in every world of `S` is a view on `S` -/
theorem treeViewOn_of_fixed {fs : FS} {S : World → Prop} {v : Str → Option Entry} (w0 : World)
    (hw0 : S w0) (h : ∀ w, S w → TreeView fs w v) : TreeViewOn fs S v where
  finite := (h w0 hw0).finite
  root := (h w0 hw0).root
  parent := (h w0 hw0).parent
  readDir := by
    intro w hw p e hp hd
    obtain ⟨names, w', h1, h2, h3⟩ := (h w hw).readDir w rfl p e hp hd
    cases h2
    exact ⟨names, w, h1, hw, h3⟩
  metadata := by
    intro w hw p e hp
    obtain ⟨md, w', h1, h2, h3⟩ := (h w hw).metadata w rfl p e hp
    cases h2
    exact ⟨md, w, h1, hw, h3⟩

/-! ### a wrapper that DOES change the world: the recording filesystem

`recordFS tag inner` appends one entry to the ghost log of the world on every trait call and then
forwards. If `inner` shows `v` on a set of worlds that does not look at the log, so does the
wrapper — with `S` unchanged. The walk through the wrapper therefore has the same specification,
while the world is NOT left unchanged (the log grows): this is what the parameter `S` is for. -/

theorem record_treeViewOn {fs : FS} {S : World → Prop} {v : Str → Option Entry} (tag : Nat)
    (tv : TreeViewOn fs S v)
    (hlog : ∀ w, S w → ∀ l, S { w with log := l }) : TreeViewOn (recordFS tag fs) S v where
  finite := tv.finite
  root := tv.root
  parent := tv.parent
  readDir := by
    intro w hw p e hp hd
    exact tv.readDir _ (hlog w hw _) p e hp hd
  metadata := by
    intro w hw p e hp
    exact tv.metadata _ (hlog w hw _) p e hp

/-! ### instance 0: observers computed from a flat map; the in-memory backend -/

/-- the listing the memory leaf computes is a listing in the sense of the interface -/
theorem names_of_map (m : FMap) (hk : FMap.NodupKeys m) (p : Str) :
    IsNames m.find? p (m.keys.filterMap (childName p)) := by
  refine ⟨filterMap_childName_nodup m p hk, fun n => ?_⟩
  rw [mem_filterMap_childName]
  constructor
  · rintro ⟨k, e, he, hs, hp, ha⟩
    obtain ⟨h1, h2⟩ := split_last '/' k hs
    unfold parentInternal at hp
    rw [hp, ha] at h1
    rw [ha] at h2
    exact ⟨h2, by rw [← h1, he]; simp⟩
  · rintro ⟨hs, hpres⟩
    obtain ⟨e, he⟩ := (ne_none_iff _).1 hpres
    exact ⟨p ++ '/' :: n, e, he, by simp, parent_of_child p n hs,
      afterLast_append_delim '/' p n hs⟩

/-- a filesystem whose `read_dir` / `metadata` are those of the well-formed map `m`, and leave the
world alone, shows the tree `m.find?` -/
theorem treeView_of_map {fs : FS} {w : World} {m : FMap} (hwf : WF m) (hk : FMap.NodupKeys m)
    (hrd : ∀ p e, m.find? p = some e → e.ftype = .dir →
      fs.readDir p w = (.ok (m.keys.filterMap (childName p)), w))
    (hmd : ∀ p e, m.find? p = some e →
      ∃ md, fs.metadata p w = (.ok md, w) ∧ md.ftype = e.ftype) :
    TreeView fs w m.find? where
  finite := ⟨m.keys, fun k hk' => (FMap.mem_keys_iff m k).2 ((ne_none_iff _).1 hk')⟩
  root := hwf.1
  parent := hwf.2
  readDir := by
    intro w' hw' p e hp hd
    cases hw'
    exact ⟨_, _, hrd p e hp hd, rfl, names_of_map m hk p⟩
  metadata := by
    intro w' hw' p e hp
    cases hw'
    obtain ⟨md, h1, h2⟩ := hmd p e hp
    exact ⟨md, _, h1, rfl, h2⟩

section memory
variable {w : World} {i : Nat} {m : FMap} (h : MemLeafAt w i m) (hwf : WF m)
  (hk : FMap.NodupKeys m)
include h hwf hk

/-- **MemoryFS shows the tree of its map** -/
theorem mem_treeView : TreeView (leafFS i) w m.find? := by
  refine treeView_of_map hwf hk ?_ ?_
  · intro p e hp hd
    rw [run_readDir h p]
    simp [Mem.readDir, hp, hd]
  · intro p e hp
    refine ⟨e.meta, ?_, rfl⟩
    rw [run_metadata h p, metadata_reports m p e hp]

omit hwf hk in
theorem mem_viewAbsent : ViewAbsent (leafFS i) (fun w' => w' = w) m.find? (fun _ => True) where
  absent := by
    intro w' hw' p _ hp
    cases hw'
    obtain ⟨_, h2, h3, _⟩ := absent_all_fail m p hp
    exact ⟨⟨none, w, by rw [run_readDir h p, h3]; rfl, rfl⟩,
      ⟨none, w, by rw [run_metadata h p, h2]; rfl, rfl⟩⟩
  file := by
    intro w' hw' p e _ hp hf
    cases hw'
    refine ⟨.other, none, w, ?_, rfl⟩
    rw [run_readDir h p]
    simp [Mem.readDir, hp, hf, fail]

/-- sanity check: the in-memory theorem `C05.walk_spec` (Props/C05Walk.lean), re-derived as an
instance of the generic one -/
theorem mem_walk_spec (id : Nat) (p : Str) (e : Entry) (hp : m.find? p = some e)
    (hdir : e.ftype = .dir) (fuel : Nat) (hf : descCount m p < fuel) :
    ∃ L : List Str, walkCollect fuel (mk i id p) w = (.ok (okItems i id L), w) ∧
      (∀ k, k ∈ L ↔ k ∈ m.keys ∧ below p k = true) ∧ L.Nodup ∧
      L.Pairwise (fun a b => below b a = false) := by
  obtain ⟨L, h1, _, h3, h4, h5⟩ :=
    (walk_view_spec_fixed (mem_treeView h hwf hk) id hp hdir (descList_of_map m hk p) fuel).1 hf
  refine ⟨L, h1, ?_, h3, h5⟩
  intro k
  rw [h4 k, FMap.mem_keys_iff, ne_none_iff]

/-- … and the exact fuel bound `C05.walk_panic_iff` -/
theorem mem_walk_panic_iff (id : Nat) (p : Str) (e : Entry) (hp : m.find? p = some e)
    (hdir : e.ftype = .dir) (fuel : Nat) :
    (walkCollect fuel (mk i id p) w).1 = .panic ↔ fuel ≤ descCount m p :=
  walk_view_panic_iff (mem_treeView h hwf hk) id (S := fun w' => w' = w) rfl hp hdir
    (descList_of_map m hk p) fuel

end memory

/-- MemoryFS shows the tree of its map in every world whose leaf `i` holds that map; a recording
wrapper around it does too, although every call changes the world (the ghost log) -/
theorem mem_treeViewOn (w0 : World) {i : Nat} {m : FMap} (h0 : MemLeafAt w0 i m) (hwf : WF m)
    (hk : FMap.NodupKeys m) : TreeViewOn (leafFS i) (fun w => MemLeafAt w i m) m.find? :=
  treeViewOn_of_fixed w0 h0 (fun w hw => mem_treeView hw hwf hk)

theorem recorded_mem_treeViewOn (tag : Nat) (w0 : World) {i : Nat} {m : FMap}
    (h0 : MemLeafAt w0 i m) (hwf : WF m) (hk : FMap.NodupKeys m) :
    TreeViewOn (recordFS tag (leafFS i)) (fun w => MemLeafAt w i m) m.find? :=
  record_treeViewOn tag (mem_treeViewOn w0 h0 hwf hk) (fun w hw l => hw)

/-- walk_dir through a recording wrapper over MemoryFS: the same items as without the wrapper
(up to the filesystem the paths carry), in a world that still holds the map -/
theorem recorded_mem_walk_spec (tag : Nat) {w : World} {i : Nat} {m : FMap}
    (h : MemLeafAt w i m) (hwf : WF m) (hk : FMap.NodupKeys m) (id : Nat) (p : Str) (e : Entry)
    (hp : m.find? p = some e) (hdir : e.ftype = .dir) (fuel : Nat) :
    (descCount m p < fuel →
      ∃ (L : List Str) (w' : World), MemLeafAt w' i m ∧
        walkCollect fuel (vp (recordFS tag (leafFS i)) id p) w
          = (.ok (okItemsOn (recordFS tag (leafFS i)) id L), w') ∧
        L.Perm (m.keys.filter (below p)) ∧ L.Nodup ∧
        L.Pairwise (fun a b => below b a = false)) ∧
    (fuel ≤ descCount m p →
      ∃ w', MemLeafAt w' i m ∧
        walkCollect fuel (vp (recordFS tag (leafFS i)) id p) w = (.panic, w')) := by
  obtain ⟨h1, h2⟩ := walk_view_spec (recorded_mem_treeViewOn tag w h hwf hk) id
    (S := fun w => MemLeafAt w i m) h hp hdir (descList_of_map m hk p) fuel
  refine ⟨fun hf => ?_, h2⟩
  obtain ⟨L, w', a, b, c, d, _, e'⟩ := h1 hf
  exact ⟨L, w', a, b, c, d, e'⟩

/-! ### instance 1: the overlay over n in-memory layers -/

section overlay
open Vfs.Overlay Vfs.C09 Vfs.C02 Vfs.C01

/-- the paths the overlay's tree consists of: the root and the disciplined canonical paths
(canonical, outside ".whiteout", no component ending in "_wo") -/
def OVis (k : Str) : Prop := k = [] ∨ ∃ cs, OpPath cs ∧ k = renderC cs

open Classical in
/-- the overlay's view `oview`, cut down to the root and the disciplined paths -/
noncomputable def ovisView (all : List FMap) : Str → Option Entry :=
  fun k => if OVis k then oview all k else none

theorem ovisView_of_vis {all : List FMap} {k : Str} (h : OVis k) : ovisView all k = oview all k := by
  unfold ovisView; rw [if_pos h]

theorem ovisView_some {all : List FMap} {k : Str} {e : Entry} (h : ovisView all k = some e) :
    OVis k ∧ oview all k = some e := by
  unfold ovisView at h
  split at h
  · rename_i hv; exact ⟨hv, h⟩
  · cases h

theorem ovisView_ne_none_iff {all : List FMap} {k : Str} :
    ovisView all k ≠ none ↔ (OVis k ∧ oview all k ≠ none) := by
  unfold ovisView
  split
  · rename_i hv; exact ⟨fun h => ⟨hv, h⟩, fun h => h.2⟩
  · rename_i hv; exact ⟨fun h => absurd rfl h, fun h => absurd h.1 hv⟩

/-- `cs` is the root or a disciplined path -/
def RootOrOp (cs : List Str) : Prop := cs = [] ∨ OpPath cs

theorem RootOrOp.good {cs : List Str} (h : RootOrOp cs) : ∀ c ∈ cs, GoodComp c := by
  rcases h with rfl | h
  · intro c hc; cases hc
  · exact h.good

theorem RootOrOp.nowo {cs : List Str} (h : RootOrOp cs) : ∀ c ∈ cs, NoWo c := by
  rcases h with rfl | h
  · intro c hc; cases hc
  · exact h.nowo

theorem RootOrOp.vis {cs : List Str} (h : RootOrOp cs) : OVis (renderC cs) := by
  rcases h with rfl | h
  · left; rfl
  · right; exact ⟨cs, h, rfl⟩

theorem OVis.cases {k : Str} (h : OVis k) : ∃ cs, RootOrOp cs ∧ k = renderC cs := by
  rcases h with rfl | ⟨cs, hcs, rfl⟩
  · exact ⟨[], Or.inl rfl, rfl⟩
  · exact ⟨cs, Or.inr hcs, rfl⟩

theorem RootOrOp.child {ds : List Str} {n : Str} (h : RootOrOp ds) (hn : GoodComp n)
    (hnw : NoWo n) (hroot : ds = [] → n ≠ woDir) : OpPath (ds ++ [n]) where
  ne := by simp
  good := by
    intro c hc
    rcases List.mem_append.1 hc with hc | hc
    · exact h.good c hc
    · rw [List.mem_singleton.1 hc]; exact hn
  nowo := by
    intro c hc
    rcases List.mem_append.1 hc with hc | hc
    · exact h.nowo c hc
    · rw [List.mem_singleton.1 hc]; exact hnw
  head := by
    cases ds with
    | nil =>
      intro h0
      simp only [List.nil_append, List.head?_cons, Option.some.injEq] at h0
      exact hroot rfl h0
    | cons d ds =>
      rcases h with h | h
      · cases h
      · simpa using h.head

theorem rootOrOp_parent {ds : List Str} {n : Str} (hp : OpPath (ds ++ [n])) : RootOrOp ds := by
  by_cases hd : ds = []
  · exact Or.inl hd
  · exact Or.inr ⟨hd, hp.hds, hp.nwds, hp.dhead⟩

/-- **name discipline of the view** (a state hypothesis): below the root and below every
disciplined path, every present bare name is a canonical component that does not end in "_wo";
at the root the bookkeeping directory ".whiteout" is exempt -/
def NamesOK (all : List FMap) : Prop :=
  ∀ (ds : List Str) (n : Str), RootOrOp ds → '/' ∉ n →
    viewN all (renderC ds ++ '/' :: n) ≠ none → (ds = [] → n ≠ woDir) → GoodComp n ∧ NoWo n

/-- a disciplined child path, as a string, is not inside ".whiteout" -/
theorem child_NR {ds : List Str} {n : Str} (h : RootOrOp ds) (hs : '/' ∉ n)
    (hroot : ds = [] → n ≠ woDir) : NR (renderC ds ++ '/' :: n) := by
  rw [← renderC_snoc]
  apply NR_renderC (by simp)
  · intro c hc
    rcases List.mem_append.1 hc with hc | hc
    · exact (h.good c hc).noSlash
    · rw [List.mem_singleton.1 hc]; exact hs
  · cases ds with
    | nil =>
      intro h0
      simp only [List.nil_append, List.head?_cons, Option.some.injEq] at h0
      exact hroot rfl h0
    | cons d ds =>
      rcases h with h | h
      · cases h
      · simpa using h.head

/-- a decidable sufficient check of `NamesOK` on the keys of the layer maps: every key is the
root, lies inside ".whiteout", or has a canonical last component not ending in "_wo" -/
def namesCheck (all : List FMap) : Bool :=
  all.all fun m => m.keys.all fun k =>
    decide (k = []) || decide (firstComp k = woDir) ||
      (decide (GoodComp (afterLast '/' k)) && decide (NoWo (afterLast '/' k)))

theorem viewN_some_key {all : List FMap} {q : Str} (h : viewN all q ≠ none) :
    ∃ m ∈ all, q ∈ m.keys := by
  unfold viewN at h
  split at h
  · exact absurd rfl h
  · obtain ⟨e, he⟩ := (ne_none_iff _).1 h
    obtain ⟨k, m, hfa, hm⟩ := firstN_some he
    exact ⟨m, List.mem_of_getElem? hfa.get, (FMap.mem_keys_iff m q).2 ⟨e, hm⟩⟩

theorem namesOK_of_keys {all : List FMap} (h : namesCheck all = true) : NamesOK all := by
  intro ds n hds hs hpres hroot
  obtain ⟨m, hm, hk⟩ := viewN_some_key hpres
  unfold namesCheck at h
  rw [List.all_eq_true] at h
  have := h m hm
  rw [List.all_eq_true] at this
  have := this _ hk
  simp only [Bool.or_eq_true, Bool.and_eq_true, decide_eq_true_eq] at this
  have hnr := child_NR hds hs hroot
  rcases this with (h0 | h0) | h0
  · simp at h0
  · exact absurd h0 hnr.2
  · rw [afterLast_append_delim '/' _ n hs] at h0
    exact h0


/-! decidable sufficient checks for the examples -/

/-- a decidable sufficient check of `OVis` -/
def ovisB (k : Str) : Bool :=
  decide (k = [] ∨ (OpPath (pathComps k) ∧ renderC (pathComps k) = k))

theorem ovis_of_check {k : Str} (h : ovisB k = true) : OVis k := by
  rcases of_decide_eq_true h with h | ⟨h1, h2⟩
  · exact Or.inl h
  · exact Or.inr ⟨_, h1, h2.symm⟩

theorem OVis.nr {k : Str} (h : OVis k) (hne : k ≠ []) : NR k := by
  rcases h with h | ⟨cs, hcs, rfl⟩
  · exact absurd h hne
  · exact NR_renderC hcs.ne (good_noSlash hcs.good) hcs.head

/-- a decidable sufficient check that `D` enumerates the descendants of `p` in the overlay's
(cut-down) view: every member is visible, present and below `p`; every key of a layer map is a
member, or absent from the view, or not below `p`, or inside ".whiteout" -/
theorem descList_overlay_check {all : List FMap} {p : Str} {D : List Str} (hnd : D.Nodup)
    (h1 : ∀ k ∈ D, ovisB k = true ∧ oview all k ≠ none ∧ below p k = true)
    (h2 : ∀ k ∈ all.flatMap FMap.keys,
      k ∈ D ∨ oview all k = none ∨ below p k = false ∨ ¬ NR k) :
    DescList (ovisView all) p D := by
  refine ⟨hnd, fun k => ⟨fun hk => ?_, ?_⟩⟩
  · obtain ⟨a, b, c⟩ := h1 k hk
    exact ⟨ovisView_ne_none_iff.2 ⟨ovis_of_check a, b⟩, c⟩
  · rintro ⟨hpres, hb⟩
    obtain ⟨hvis, hov⟩ := ovisView_ne_none_iff.1 hpres
    have hne : k ≠ [] := by
      intro h0; subst h0
      have := below_length hb
      simp at this
    have hvn := hov
    rw [oview_ne hne] at hvn
    obtain ⟨m, hm, hkm⟩ := viewN_some_key hvn
    rcases h2 k (List.mem_flatMap.2 ⟨m, hm, hkm⟩) with h | h | h | h
    · exact h
    · exact absurd h hov
    · rw [hb] at h; cases h
    · exact absurd (hvis.nr hne) h

variable {w : World} {u idu : Nat} {mu : FMap} {is ids : List Nat} {ms : List FMap}
  (h : OWN w (u :: is) (idu :: ids) (mu :: ms)) (inv : OInv mu ms)
  (hv : ViewWF (oview (mu :: ms))) (hn : NamesOK (mu :: ms))

/-- `metadata("")` through the overlay is the metadata of the upper layer's root -/
theorem overlay_metadata_root (h : OWN w (u :: is) (idu :: ids) (mu :: ms)) :
    (Overlay.fs (layersN (u :: is) (idu :: ids))).metadata [] w
      = ((Mem.metadata mu []).withPath [], w) := by
  cases h with
  | cons hu hni ht =>
    show (do let q ← readPath (layersN (u :: is) (idu :: ids)) []; q.metadata : M Meta) w = _
    unfold readPath
    simp only [if_true, bind, M.bind, pure, M.pure, writeLayer_layersN]
    unfold VPath.metadata
    simp only [M.withPath, run_metadata hu]

include h inv hv hn in
/-- **the overlay shows a tree**: under `OWN`, `OInv`, `ViewWF` and the name discipline, the
observers of the overlay are those of its view cut down to the disciplined paths, a well-formed
finite tree, and they leave the world unchanged -/
theorem overlay_treeView :
    TreeView (Overlay.fs (layersN (u :: is) (idu :: ids))) w (ovisView (mu :: ms)) where
  finite := by
    refine ⟨[] :: (mu :: ms).flatMap FMap.keys, fun k hk => ?_⟩
    by_cases hk0 : k = []
    · subst hk0; simp
    · have := (ovisView_ne_none_iff.1 hk).2
      rw [oview_ne hk0] at this
      obtain ⟨m, hm, hkm⟩ := viewN_some_key this
      exact List.mem_cons_of_mem _ (List.mem_flatMap.2 ⟨m, hm, hkm⟩)
  root := by
    obtain ⟨e, he, hd⟩ := rootIsDir (ms := ms) inv.root
    exact ⟨e, by rw [ovisView_of_vis (Or.inl rfl)]; exact he, hd⟩
  parent := by
    intro k e hk hne
    obtain ⟨hvis, hk⟩ := ovisView_some hk
    rcases hvis with rfl | ⟨cs, hcs, rfl⟩
    · exact absurd rfl hne
    · rcases List.eq_nil_or_concat cs with rfl | ⟨ds, n, rfl⟩
      · exact absurd rfl hcs.ne
      · rw [List.concat_eq_append] at hcs hk ⊢
        refine ⟨by rw [renderC_snoc]; simp, ?_⟩
        have := C03.viewWF_no_orphan hv hcs.ne hcs.good hcs.head (by rw [hk]; simp)
        rw [hcs.parent] at this ⊢
        obtain ⟨pe, hpe, hpd⟩ := this
        exact ⟨pe, by rw [ovisView_of_vis (rootOrOp_parent hcs).vis]; exact hpe, hpd⟩
  readDir := by
    intro w' hw' p e hp hd
    cases hw'
    obtain ⟨hvis, hp⟩ := ovisView_some hp
    obtain ⟨cs, hcs, rfl⟩ := hvis.cases
    refine ⟨pListingN (mu :: ms) (renderC cs), w, ?_, rfl, nodup_pListingN _ _, fun n => ?_⟩
    · rw [overlay_readDir_spec h inv cs hcs.good hcs.nowo, hp]
      simp only [hd, if_true]
    · rw [mem_listing h inv cs n, ovisView_ne_none_iff]
      constructor
      · rintro ⟨hs, hsome, hroot⟩
        have hpres : viewN (mu :: ms) (renderC cs ++ '/' :: n) ≠ none := by
          intro h0; rw [h0] at hsome; cases hsome
        have hroot' : cs = [] → n ≠ woDir := fun h0 => hroot (by rw [h0]; rfl)
        obtain ⟨hg, hnw⟩ := hn cs n hcs hs hpres hroot'
        refine ⟨hs, Or.inr ⟨cs ++ [n], hcs.child hg hnw hroot', (renderC_snoc cs n).symm⟩, ?_⟩
        rw [oview_ne (by simp)]
        exact hpres
      · rintro ⟨hs, hvis', hpres⟩
        rw [oview_ne (by simp)] at hpres
        refine ⟨hs, ?_, ?_⟩
        · cases hvn : viewN (mu :: ms) (renderC cs ++ '/' :: n) with
          | none => exact absurd hvn hpres
          | some e' => rfl
        · intro h0 hnwo
          rw [h0] at hvis'
          rcases hvis' with h1 | ⟨cs', hcs', h1⟩
          · simp at h1
          · have hnr := NR_renderC hcs'.ne (good_noSlash hcs'.good) hcs'.head
            rw [← h1] at hnr
            have : firstComp ([] ++ '/' :: n) = n := by
              unfold firstComp
              simp only [List.nil_append, List.drop_succ_cons, List.drop_zero]
              have := takeWhile_noSlash n [] hs (Or.inl rfl)
              simpa using this
            exact hnr.2 (by rw [this]; exact hnwo)
  metadata := by
    intro w' hw' p e hp
    cases hw'
    obtain ⟨hvis, hp⟩ := ovisView_some hp
    rcases hvis with rfl | ⟨cs, hcs, rfl⟩
    · refine ⟨e.meta, w, ?_, rfl, rfl⟩
      rw [overlay_metadata_root h]
      rw [oview_root] at hp
      rw [metadata_reports mu [] e hp]
      rfl
    · exact ⟨e.meta, w, overlay_metadata_reports h hcs.ne hcs.good hp, rfl, rfl⟩

include h inv in
/-- on the disciplined paths, absent paths are not-found and files refuse `read_dir` -/
theorem overlay_viewAbsent :
    ViewAbsent (Overlay.fs (layersN (u :: is) (idu :: ids))) (fun w' => w' = w)
      (ovisView (mu :: ms)) (fun p => ∃ cs, OpPath cs ∧ p = renderC cs) where
  absent := by
    intro w' hw' p hdom hp
    cases hw'
    obtain ⟨cs, hcs, rfl⟩ := hdom
    rw [ovisView_of_vis (Or.inr ⟨cs, hcs, rfl⟩)] at hp
    obtain ⟨_, h2, h3, _⟩ := overlay_absent_all_fail h inv hcs hp
    exact ⟨⟨none, w, h3, rfl⟩, ⟨none, w, h2, rfl⟩⟩
  file := by
    intro w' hw' p e hdom hp hf
    cases hw'
    obtain ⟨cs, hcs, rfl⟩ := hdom
    rw [ovisView_of_vis (Or.inr ⟨cs, hcs, rfl⟩)] at hp
    refine ⟨.other, none, w, ?_, rfl⟩
    rw [overlay_readDir_spec h inv cs hcs.good hcs.nowo, hp]
    simp [hf]

section owalk
variable (id : Nat) {cs : List Str} (hcs : RootOrOp cs) {e : Entry}
  (hp : oview (mu :: ms) (renderC cs) = some e) (hdir : e.ftype = .dir)
  {D : List Str} (hD : DescList (ovisView (mu :: ms)) (renderC cs) D)
include h inv hv hn hcs hp hdir hD

/-- **walk_dir through the overlay.** From the root or a disciplined directory `cs` of the view:
with more fuel than present (disciplined) proper descendants, the collected walk is an `.ok` list
of `.ok` items — exactly those descendants, each once, every directory before anything inside it
— the world unchanged, never `.panic`; with less fuel it is the out-of-fuel sentinel. -/
theorem overlay_walk_spec (fuel : Nat) :
    (D.length < fuel →
      ∃ L : List Str,
        walkCollect fuel (vp (Overlay.fs (layersN (u :: is) (idu :: ids))) id (renderC cs)) w
          = (.ok (okItemsOn (Overlay.fs (layersN (u :: is) (idu :: ids))) id L), w) ∧
        L.Perm D ∧ L.Nodup ∧
        (∀ k, k ∈ L ↔ ((OVis k ∧ oview (mu :: ms) k ≠ none) ∧ below (renderC cs) k = true)) ∧
        L.Pairwise (fun a b => below b a = false)) ∧
    (fuel ≤ D.length →
      walkCollect fuel (vp (Overlay.fs (layersN (u :: is) (idu :: ids))) id (renderC cs)) w
        = (.panic, w)) := by
  have hp' : ovisView (mu :: ms) (renderC cs) = some e := by
    rw [ovisView_of_vis hcs.vis]; exact hp
  obtain ⟨h1, h2⟩ := walk_view_spec_fixed (overlay_treeView h inv hv hn) id hp' hdir hD fuel
  refine ⟨fun hf => ?_, h2⟩
  obtain ⟨L, a, b, c, d, e'⟩ := h1 hf
  exact ⟨L, a, b, c, fun k => by rw [d k, ovisView_ne_none_iff], e'⟩

/-- every `.ok` outcome of the walk through the overlay, whatever the fuel -/
theorem overlay_walk_result (fuel : Nat) (items : List (Res VPath)) (w' : World)
    (hrun : walkCollect fuel
      (vp (Overlay.fs (layersN (u :: is) (idu :: ids))) id (renderC cs)) w = (.ok items, w')) :
    w' = w ∧ ∃ L : List Str,
      items = okItemsOn (Overlay.fs (layersN (u :: is) (idu :: ids))) id L ∧
      L.Perm D ∧ L.Nodup ∧
      (∀ k, k ∈ L ↔ ((OVis k ∧ oview (mu :: ms) k ≠ none) ∧ below (renderC cs) k = true)) ∧
      L.Pairwise (fun a b => below b a = false) := by
  have hp' : ovisView (mu :: ms) (renderC cs) = some e := by
    rw [ovisView_of_vis hcs.vis]; exact hp
  obtain ⟨hS, L, a, b, c, d, e'⟩ := walk_view_result (overlay_treeView h inv hv hn) id
    (S := fun w' => w' = w) rfl hp' hdir hD fuel items w' hrun
  exact ⟨hS, L, a, b, c, fun k => by rw [d k, ovisView_ne_none_iff], e'⟩

/-- the sentinel is reached iff fuel ≤ number of descendants -/
theorem overlay_walk_panic_iff (fuel : Nat) :
    (walkCollect fuel
      (vp (Overlay.fs (layersN (u :: is) (idu :: ids))) id (renderC cs)) w).1 = .panic
      ↔ fuel ≤ D.length := by
  have hp' : ovisView (mu :: ms) (renderC cs) = some e := by
    rw [ovisView_of_vis hcs.vis]; exact hp
  exact walk_view_panic_iff (overlay_treeView h inv hv hn) id (S := fun w' => w' = w) rfl hp' hdir
    hD fuel

/-- a directory of the view is yielded before anything inside it -/
theorem overlay_walk_dir_before_content (fuel : Nat) (L : List Str) (w' : World)
    (hrun : walkCollect fuel
      (vp (Overlay.fs (layersN (u :: is) (idu :: ids))) id (renderC cs)) w
        = (.ok (okItemsOn (Overlay.fs (layersN (u :: is) (idu :: ids))) id L), w'))
    (k1 k2 : Str) (h2 : k2 ∈ L) (hp1 : below (renderC cs) k1 = true) (h12 : below k1 k2 = true) :
    (k1 ∈ L ∧ VIsDir (oview (mu :: ms)) k1) ∧ ∃ l1 l2 l3, L = l1 ++ k1 :: l2 ++ k2 :: l3 := by
  have hp' : ovisView (mu :: ms) (renderC cs) = some e := by
    rw [ovisView_of_vis hcs.vis]; exact hp
  have tv := overlay_treeView h inv hv hn
  obtain ⟨a, e1, he1, hd1⟩ := walk_view_ancestors_listed tv id (S := fun w' => w' = w) rfl hp' hdir
    hD fuel L w' hrun k1 k2 h2 hp1 h12
  exact ⟨⟨a, e1, (ovisView_some he1).2, hd1⟩,
    walk_view_dir_before_content tv id (S := fun w' => w' = w) rfl hp' hdir hD fuel L w' hrun
      k1 k2 h2 hp1 h12⟩

end owalk

include h inv in
/-- `walk_dir` through the overlay on a disciplined path that is absent / a file of the view -/
theorem overlay_walk_not_dir (id : Nat) {cs : List Str} (hcs : OpPath cs) (fuel : Nat) :
    (oview (mu :: ms) (renderC cs) = none →
      walkCollect fuel (vp (Overlay.fs (layersN (u :: is) (idu :: ids))) id (renderC cs)) w
        = (.err .fileNotFound (some (renderC cs)), w)) ∧
    (VIsFile (oview (mu :: ms)) (renderC cs) →
      ∃ k, walkCollect fuel (vp (Overlay.fs (layersN (u :: is) (idu :: ids))) id (renderC cs)) w
        = (.err k (some (renderC cs)), w)) := by
  have := walk_view_not_dir (overlay_viewAbsent h inv) id (S := fun w' => w' = w) (w := w) rfl
    (p := renderC cs) ⟨cs, hcs, rfl⟩ fuel
  have hvis : OVis (renderC cs) := Or.inr ⟨cs, hcs, rfl⟩
  constructor
  · intro h0
    obtain ⟨w', hS, _, h2⟩ := this.1 (by rw [ovisView_of_vis hvis]; exact h0)
    cases hS; exact h2
  · rintro ⟨e, he, hf⟩
    obtain ⟨k, w', hS, _, h2⟩ := this.2 e (by rw [ovisView_of_vis hvis]; exact he) hf
    cases hS; exact ⟨k, h2⟩

/-! the name discipline along histories -/

omit h inv hv hn in
/-- one contract-obeying call on a disciplined path keeps the name discipline: the only path whose
presence can change is the operated one, and its last component is disciplined -/
theorem namesOK_step {all all' : List FMap} {op : Mut} {r : Res Unit} (hn : NamesOK all)
    (hop : OpOK op) (hc : VContract (oview all) op r (oview all')) : NamesOK all' := by
  intro ds n hds hs hpres hroot
  have hnr := child_NR hds hs hroot
  have hq0 : renderC ds ++ '/' :: n ≠ [] := by simp
  obtain ⟨ds', n', hp', hpath⟩ := hop
  by_cases hq : renderC ds ++ '/' :: n = op.path
  · rw [hpath, renderC_snoc] at hq
    have := congrArg (afterLast '/') hq
    rw [afterLast_append_delim '/' _ n hs, afterLast_append_delim '/' _ n' hp'.hn.noSlash] at this
    rw [this]
    exact ⟨hp'.hn, hp'.nowo n' (by simp)⟩
  · have hsame : (oview all' (renderC ds ++ '/' :: n)).map vcore
        = (oview all (renderC ds ++ '/' :: n)).map vcore := by
      cases hr : r.isOk with
      | true => exact (hc.effect hr).2 _ (Or.inr hnr) hq
      | false => exact hc.unchanged hr _ (Or.inr hnr)
    have hiff := none_of_vcore hsame
    rw [oview_ne hq0, oview_ne hq0] at hiff
    exact hn ds n hds hs (fun h0 => hpres (hiff.2 h0)) hroot

omit hv hn in
/-- **the hypotheses of the walk theorem hold in every reachable state**: `OWN`, `OInv`, `ViewWF`
(Props/C03Overlay.lean) and the name discipline `NamesOK` are kept by every finite history of
mutators on disciplined paths that respects the O3 discipline -/
theorem overlay_history_walkable (ops : List Mut) (hops : ∀ op ∈ ops, OpOK op)
    {w : World} {mu : FMap} {ms : List FMap}
    (h : OWN w (u :: is) (idu :: ids) (mu :: ms)) (inv : OInv mu ms)
    (hv : ViewWF (oview (mu :: ms))) (hn : NamesOK (mu :: ms))
    (hdisc : C03.ViewO3Free (Overlay.fs (layersN (u :: is) (idu :: ids))) (u :: is) ops w) :
    ∃ mu' ms',
      OWN (runOverlay (Overlay.fs (layersN (u :: is) (idu :: ids))) ops w).2
        (u :: is) (idu :: ids) (mu' :: ms') ∧
      OInv mu' ms' ∧ ViewWF (oview (mu' :: ms')) ∧ NamesOK (mu' :: ms') := by
  induction ops generalizing w mu ms with
  | nil => exact ⟨mu, ms, h, inv, hv, hn⟩
  | cons op rest ih =>
    have hop := hops op (by simp)
    have hd3 : O3Free (oview (mu :: ms)) op := by
      have := hdisc.1; rwa [C03.mapsOfN_of_OWN h] at this
    obtain ⟨r, w', mu1, ms1, hrun, hown1, _, _, inv1, hv1, hc⟩ :=
      overlay_contractN h inv hv op hop hd3
    have h2 : (ostep (Overlay.fs (layersN (u :: is) (idu :: ids))) op w).2 = w' := by rw [hrun]
    have hdisc' := hdisc.2
    rw [h2] at hdisc'
    obtain ⟨mu', ms', hown', inv', hv', hn'⟩ :=
      ih (fun o ho => hops o (by simp [ho])) hown1 inv1 hv1 (namesOK_step hn hop hc) hdisc'
    simp only [runOverlay, h2]
    exact ⟨mu', ms', hown', inv', hv', hn'⟩

omit h inv hv hn in
/-- **walk_dir through the overlay in every reachable state.** Well-formed type-consistent layers
without markers whose keys are disciplined names (`namesCheck`); any finite history of
disciplined mutators (O3 discipline for `remove_file`). In the final world the overlay shows a
tree, and from the root and from every disciplined directory of the final view the collected
walk yields exactly the present descendants, each once, directories first, world unchanged, with
the exact fuel bound. -/
theorem overlay_walk_history (ops : List Mut) (hops : ∀ op ∈ ops, OpOK op)
    {w : World} {mu : FMap} {ms : List FMap}
    (h : OWN w (u :: is) (idu :: ids) (mu :: ms)) (hwf : ∀ m ∈ mu :: ms, WF m)
    (hnw : NoWhiteout mu) (htc : TypeConsistent (mu :: ms)) (hnames : NamesOK (mu :: ms))
    (hdisc : C03.ViewO3Free (Overlay.fs (layersN (u :: is) (idu :: ids))) (u :: is) ops w) :
    ∃ mu' ms',
      OWN (runOverlay (Overlay.fs (layersN (u :: is) (idu :: ids))) ops w).2
        (u :: is) (idu :: ids) (mu' :: ms') ∧
      TreeView (Overlay.fs (layersN (u :: is) (idu :: ids)))
        (runOverlay (Overlay.fs (layersN (u :: is) (idu :: ids))) ops w).2
        (ovisView (mu' :: ms')) ∧
      ∀ (id : Nat) (cs : List Str), RootOrOp cs → ∀ e,
        oview (mu' :: ms') (renderC cs) = some e → e.ftype = .dir →
        ∀ D, DescList (ovisView (mu' :: ms')) (renderC cs) D → ∀ fuel,
        (D.length < fuel →
          ∃ L : List Str,
            walkCollect fuel (vp (Overlay.fs (layersN (u :: is) (idu :: ids))) id (renderC cs))
              (runOverlay (Overlay.fs (layersN (u :: is) (idu :: ids))) ops w).2
              = (.ok (okItemsOn (Overlay.fs (layersN (u :: is) (idu :: ids))) id L),
                  (runOverlay (Overlay.fs (layersN (u :: is) (idu :: ids))) ops w).2) ∧
            L.Perm D ∧ L.Nodup ∧ L.Pairwise (fun a b => below b a = false)) ∧
        (fuel ≤ D.length →
          walkCollect fuel (vp (Overlay.fs (layersN (u :: is) (idu :: ids))) id (renderC cs))
            (runOverlay (Overlay.fs (layersN (u :: is) (idu :: ids))) ops w).2
            = (.panic, (runOverlay (Overlay.fs (layersN (u :: is) (idu :: ids))) ops w).2)) := by
  obtain ⟨mu', ms', hown, inv', hv', hn'⟩ :=
    overlay_history_walkable ops hops h (OInv.initial hwf hnw) (ViewWF.initial hwf hnw htc) hnames
      hdisc
  refine ⟨mu', ms', hown, overlay_treeView hown inv' hv' hn', ?_⟩
  intro id cs hcs e hp hdir D hD fuel
  obtain ⟨h1, h2⟩ := overlay_walk_spec hown inv' hv' hn' id hcs hp hdir hD fuel
  refine ⟨fun hf => ?_, h2⟩
  obtain ⟨L, a, b, c, _, e'⟩ := h1 hf
  exact ⟨L, a, b, c, e'⟩

end overlay

/-! ### instance 2: the altroot over a directory of an in-memory leaf -/

/-! the hypotheses on the sub-map follow from those on the leaf map (restated from
Props/C11Altroot.lean, which lives on the other side of the TransferLemmas / OverlayLemmas name
clash) -/

theorem mem_keys_sub' {P : Str} {m : FMap} {q : Str} (h : q ∈ (sub P m).keys) :
    ∃ k ∈ m.keys, stripP P k = some q := by
  induction m with
  | nil => simp [sub, FMap.keys] at h
  | cons kv rest ih =>
    obtain ⟨k, v⟩ := kv
    cases hs : stripP P k with
    | none =>
      rw [sub_cons_none v rest hs] at h
      obtain ⟨k', hk', hq⟩ := ih h
      exact ⟨k', by simp [FMap.keys] at hk' ⊢; exact Or.inr hk', hq⟩
    | some q' =>
      rw [sub_cons_some v rest hs] at h
      simp only [FMap.keys, List.map_cons, List.mem_cons] at h
      rcases h with rfl | h
      · exact ⟨k, by simp [FMap.keys], hs⟩
      · obtain ⟨k', hk', hq⟩ := ih (by simpa [FMap.keys] using h)
        exact ⟨k', by simp [FMap.keys] at hk' ⊢; exact Or.inr hk', hq⟩

/-- unique keys are inherited by the sub-map -/
theorem nodupKeys_sub' (P : Str) {m : FMap} (h : FMap.NodupKeys m) : FMap.NodupKeys (sub P m) := by
  unfold FMap.NodupKeys at h ⊢
  induction m with
  | nil => simp [sub, FMap.keys]
  | cons kv rest ih =>
    obtain ⟨k, v⟩ := kv
    have hnd : k ∉ FMap.keys rest ∧ (FMap.keys rest).Nodup := by
      simpa [FMap.keys] using h
    cases hs : stripP P k with
    | none => rw [sub_cons_none v rest hs]; exact ih hnd.2
    | some q =>
      rw [sub_cons_some v rest hs]
      have : FMap.keys ((q, v) :: sub P rest) = q :: FMap.keys (sub P rest) := by simp [FMap.keys]
      rw [this, List.nodup_cons]
      refine ⟨?_, ih hnd.2⟩
      intro hq
      obtain ⟨k', hk', hs'⟩ := mem_keys_sub' hq
      have e1 := (stripP_some hs).1
      have e2 := (stripP_some hs').1
      exact hnd.1 (by rw [e1, ← e2]; exact hk')

/-- well-formedness is inherited by the sub-map (its keys are canonical: `Inv0`) -/
theorem wf_sub' {P : Str} {m : FMap} (hwf : WF m) (hinv : Inv0 (sub P m)) : WF (sub P m) := by
  refine ⟨hinv.1, ?_⟩
  intro k e he hne
  have hk : Canon k := hinv.2 k ((FMap.mem_keys_iff _ k).2 ⟨e, he⟩)
  obtain ⟨h1, h2, h3, h4⟩ := parent_shift P hk hne
  refine ⟨h3, ?_⟩
  rw [find?_sub P m k hk.rooted] at he
  have hne' : P ++ k ≠ [] := by
    intro h0; apply hne
    exact (List.append_eq_nil_iff.1 h0).2
  obtain ⟨_, pe, hpe, hpd⟩ := hwf.2 _ e he hne'
  rw [h1] at hpe
  exact ⟨pe, by rw [find?_sub P m _ h2]; exact hpe, hpd⟩

section altroot
variable {w : World} {i : Nat} {P : Str} {m : FMap} (h : MemLeafAt w i m)
  (hinv : Inv0 (sub P m)) (hanc : AncOK P m) (hP : Canon P) (hwf : WF (sub P m))
  (hk : FMap.NodupKeys (sub P m)) (id : Nat)
include h hinv hanc hP hwf hk

/-- **the altroot shows the subtree**: the observers of the altroot rooted at the directory `P`
of a memory leaf are those of the sub-map `sub P m` (keys at or below `P`, `P` stripped) -/
theorem altroot_treeView :
    TreeView (Altroot.fs { fs := leafFS i, fsId := id, path := P }) w (sub P m).find? := by
  refine treeView_of_map hwf hk ?_ ?_
  · intro p e hp hd
    have hq : Canon p := hinv.2 p ((FMap.mem_keys_iff _ p).2 ⟨e, hp⟩)
    obtain ⟨hrel, hw⟩ := C07.altroot_view_readDir h hinv hanc hP id hq
    have hm : Mem.readDir (sub P m) p = .ok ((sub P m).keys.filterMap (childName p)) := by
      simp [Mem.readDir, hp, hd]
    rw [hm] at hrel
    rcases hr : (Altroot.fs { fs := leafFS i, fsId := id, path := P }).readDir p w with ⟨r, w1⟩
    rw [hr] at hrel hw
    simp only at hrel hw
    subst hw
    cases hrel with
    | ok hq' => rw [hq'.1]
  · intro p e hp
    have hq : Canon p := hinv.2 p ((FMap.mem_keys_iff _ p).2 ⟨e, hp⟩)
    refine ⟨e.meta, ?_, rfl⟩
    rw [C07.altroot_view_metadata h hinv hP id hq, metadata_reports _ p e hp]
    rfl

/-- **walk_dir through the altroot**: from a directory `p` of the subtree, exactly the keys of
the sub-map strictly below `p`, each once, directories first, world unchanged; exact fuel bound -/
theorem altroot_walk_spec (id' : Nat) {p : Str} {e : Entry} (hp : (sub P m).find? p = some e)
    (hdir : e.ftype = .dir) (fuel : Nat) :
    (descCount (sub P m) p < fuel →
      ∃ L : List Str,
        walkCollect fuel (vp (Altroot.fs { fs := leafFS i, fsId := id, path := P }) id' p) w
          = (.ok (okItemsOn (Altroot.fs { fs := leafFS i, fsId := id, path := P }) id' L), w) ∧
        L.Perm ((sub P m).keys.filter (below p)) ∧ L.Nodup ∧
        (∀ k, k ∈ L ↔ (k ∈ (sub P m).keys ∧ below p k = true)) ∧
        L.Pairwise (fun a b => below b a = false)) ∧
    (fuel ≤ descCount (sub P m) p →
      walkCollect fuel (vp (Altroot.fs { fs := leafFS i, fsId := id, path := P }) id' p) w
        = (.panic, w)) := by
  obtain ⟨h1, h2⟩ := walk_view_spec_fixed (altroot_treeView h hinv hanc hP hwf hk id) id' hp hdir
    (descList_of_map (sub P m) hk p) fuel
  refine ⟨fun hf => ?_, h2⟩
  obtain ⟨L, a, b, c, d, e'⟩ := h1 hf
  exact ⟨L, a, b, c, fun k => by rw [d k, FMap.mem_keys_iff, ne_none_iff], e'⟩

end altroot

/-- the same with the hypotheses on the LEAF map: `WF m`, unique keys, `P` a directory of `m`
whose subtree has canonical keys (`Inv0 (sub P m)`), ancestors of `P` directories -/
theorem altroot_walk_spec_leaf {w : World} {i : Nat} {P : Str} {m : FMap} (h : MemLeafAt w i m)
    (hinv : Inv0 (sub P m)) (hanc : AncOK P m) (hP : Canon P) (hwf : WF m)
    (hk : FMap.NodupKeys m) (id id' : Nat) {p : Str} {e : Entry}
    (hp : (sub P m).find? p = some e) (hdir : e.ftype = .dir) (fuel : Nat) :
    (descCount (sub P m) p < fuel →
      ∃ L : List Str,
        walkCollect fuel (vp (Altroot.fs { fs := leafFS i, fsId := id, path := P }) id' p) w
          = (.ok (okItemsOn (Altroot.fs { fs := leafFS i, fsId := id, path := P }) id' L), w) ∧
        L.Perm ((sub P m).keys.filter (below p)) ∧ L.Nodup ∧
        (∀ k, k ∈ L ↔ (k ∈ (sub P m).keys ∧ below p k = true)) ∧
        L.Pairwise (fun a b => below b a = false)) ∧
    (fuel ≤ descCount (sub P m) p →
      walkCollect fuel (vp (Altroot.fs { fs := leafFS i, fsId := id, path := P }) id' p) w
        = (.panic, w)) :=
  altroot_walk_spec h hinv hanc hP (wf_sub' hwf hinv) (nodupKeys_sub' P hk) id id' hp hdir fuel

/-! ### non-vacuity: the 3-layer world of Props/C09Refine.lean (section example3)

upper (leaf 2): "/top"; layer 1 (leaf 0): "/d", "/d/x", "/d/b"; layer 2 (leaf 1): "/d", "/d/x",
"/d/c", "/e", "/e/z". Walked through the overlay from "" and from "/d", before and after the
12-call history `xOps` (which leaves markers and a ".whiteout" tree in the upper layer). -/

section example3
open Vfs.Overlay Vfs.C09 Vfs.C02 Vfs.C01
open Vfs.C10 (mapsOfN)

theorem xw_names : NamesOK [xU, xA, xB] := namesOK_of_keys (by decide)

/-- the present proper descendants of the root / of "/d" in the initial view -/
def xDroot : List Str :=
  ["/top".toList, "/d".toList, "/e".toList, "/e/z".toList, "/d/x".toList, "/d/b".toList,
   "/d/c".toList]
def xDd : List Str := ["/d/x".toList, "/d/b".toList, "/d/c".toList]

theorem xDroot_desc : DescList (ovisView [xU, xA, xB]) [] xDroot :=
  descList_overlay_check (by decide) (by decide) (by decide)
theorem xDd_desc : DescList (ovisView [xU, xA, xB]) "/d".toList xDd :=
  descList_overlay_check (by decide) (by decide) (by decide)

/-- the walk from the root as the model computes it (7 items; fuel 8 suffices, fuel 7 does not) -/
example : pathsOf (walkCollect 8 (vp xfs 0 []) xw) =
    .ok [.ok "/top".toList, .ok "/d".toList, .ok "/e".toList, .ok "/e/z".toList,
         .ok "/d/x".toList, .ok "/d/b".toList, .ok "/d/c".toList] := by decide +kernel
example : pathsOf (walkCollect 7 (vp xfs 0 []) xw) = .panic := by decide +kernel
/-- … and from "/d" ("/d/x" of layers 1 and 2 once) -/
example : pathsOf (walkCollect 4 (vp xfs 0 "/d".toList) xw) =
    .ok [.ok "/d/x".toList, .ok "/d/b".toList, .ok "/d/c".toList] := by decide +kernel
example : pathsOf (walkCollect 3 (vp xfs 0 "/d".toList) xw) = .panic := by decide +kernel

/-- item multiset and dirs-first order of the computed lists, checked directly -/
example :
    ["/top".toList, "/d".toList, "/e".toList, "/e/z".toList, "/d/x".toList, "/d/b".toList,
      "/d/c".toList].Perm xDroot ∧
    (["/top".toList, "/d".toList, "/e".toList, "/e/z".toList, "/d/x".toList, "/d/b".toList,
      "/d/c".toList] : List Str).Pairwise (fun a b => below b a = false) := by decide

example : (["/d/x".toList, "/d/b".toList, "/d/c".toList] : List Str).Perm xDd ∧
    (["/d/x".toList, "/d/b".toList, "/d/c".toList] : List Str).Pairwise
      (fun a b => below b a = false) := by decide

/-- the theorems, instantiated: all hypotheses hold on this world -/
example := overlay_walk_spec xw_setting xw_inv xw_viewWF xw_names 0 (cs := []) (Or.inl rfl)
  (e := dirEntryNow) (by decide) rfl xDroot_desc 8
example := overlay_walk_spec xw_setting xw_inv xw_viewWF xw_names 0 (cs := ["d".toList])
  (Or.inr (by decide)) (e := dirEntryNow) (by decide) rfl xDd_desc 4
example := overlay_walk_panic_iff xw_setting xw_inv xw_viewWF xw_names 0 (cs := ["d".toList])
  (Or.inr (by decide)) (e := dirEntryNow) (by decide) rfl xDd_desc 3
example := overlay_walk_not_dir xw_setting xw_inv 0 (cs := ["d".toList, "x".toList]) (by decide) 5
example := overlay_treeView xw_setting xw_inv xw_viewWF xw_names

/-- theorem and evaluation agree: the theorem's list for fuel 8 is the evaluated one -/
example : ∃ L : List Str, walkCollect 8 (vp xfs 0 []) xw = (.ok (okItemsOn xfs 0 L), xw) ∧
    L.Perm xDroot ∧ L.Pairwise (fun a b => below b a = false) := by
  obtain ⟨L, a, b, _, _, e⟩ := (overlay_walk_spec xw_setting xw_inv xw_viewWF xw_names 0 (cs := [])
    (Or.inl rfl) (e := dirEntryNow) (by decide) rfl xDroot_desc 8).1 (by decide)
  exact ⟨L, a, b, e⟩

/-! after the 12-call history: "/d/new", "/d/new/f" created, "/d/b" removed and re-created,
"/e/z" removed (marker "/.whiteout/e/z_wo"), "/e" removed and re-created -/

/-- the world after the history -/
def xw2 : World := (runOverlay xfs xOps xw).2

theorem xw2_setting : ∃ mu' ms', mu' :: ms' = mapsOfN xw2 [2, 0, 1] ∧
    OWN xw2 [2, 0, 1] [7, 8, 9] (mu' :: ms') ∧ OInv mu' ms' ∧ ViewWF (oview (mu' :: ms')) := by
  obtain ⟨mu', ms', hown, _, inv', hv', _⟩ := x_refines
  exact ⟨mu', ms', (C03.mapsOfN_of_OWN hown).symm, hown, inv', hv'⟩

theorem xw2_names : NamesOK (mapsOfN xw2 [2, 0, 1]) := namesOK_of_keys (by decide +kernel)

def xDroot2 : List Str :=
  ["/e".toList, "/d".toList, "/top".toList, "/d/b".toList, "/d/c".toList, "/d/new".toList,
   "/d/x".toList, "/d/new/f".toList]

theorem xDroot2_desc : DescList (ovisView (mapsOfN xw2 [2, 0, 1])) [] xDroot2 :=
  descList_overlay_check (by decide) (by decide +kernel) (by decide +kernel)

/-- the walk from the root after the history, as the model computes it: nothing of ".whiteout",
"/e" empty (its lower-layer child "/e/z" is marked) -/
example : pathsOf (walkCollect 9 (vp xfs 0 []) xw2) =
    .ok [.ok "/e".toList, .ok "/d".toList, .ok "/top".toList, .ok "/d/b".toList,
         .ok "/d/c".toList, .ok "/d/new".toList, .ok "/d/x".toList, .ok "/d/new/f".toList] := by
  decide +kernel
example : pathsOf (walkCollect 8 (vp xfs 0 []) xw2) = .panic := by decide +kernel

/-- the theorem instantiated on the world after the history -/
example : ∃ L : List Str, walkCollect 9 (vp xfs 0 []) xw2 = (.ok (okItemsOn xfs 0 L), xw2) ∧
    L.Perm xDroot2 ∧ L.Nodup ∧ L.Pairwise (fun a b => below b a = false) := by
  obtain ⟨mu', ms', hmaps, hown, inv', hv'⟩ := xw2_setting
  have hn : NamesOK (mu' :: ms') := by rw [hmaps]; exact xw2_names
  have hD : DescList (ovisView (mu' :: ms')) (renderC []) xDroot2 := by
    rw [hmaps]; exact xDroot2_desc
  have hroot := rootIsDir (ms := ms') inv'.root
  obtain ⟨e, he, hd⟩ := hroot
  obtain ⟨L, a, b, c, _, e'⟩ := (overlay_walk_spec hown inv' hv' hn 0 (cs := []) (Or.inl rfl) he hd
    hD 9).1 (by decide)
  exact ⟨L, a, b, c, e'⟩

/-- the history theorem, instantiated on the 12-call history: all its hypotheses hold -/
example := overlay_walk_history xOps xOps_ok xw_setting xw_wf
  (noWhiteout_of_keys (by decide)) (typeConsistent_of_keys (by decide)) xw_names C03.xOps_viewO3

end example3

/-! the in-memory sample of Props/C05Walk.lean through the generic theorem, and an altroot on it -/

example := mem_walk_spec sampleW_leaf sampleW_wf sampleW_nodup 0 "/a".toList dirEntryNow
  (by decide) rfl 7 (by decide)
example := mem_treeView sampleW_leaf sampleW_wf sampleW_nodup

section examplealt
open Vfs.C07

/-- a decidable sufficient check of `Canon` -/
def canonB (k : Str) : Bool :=
  decide ((∀ c ∈ C09.pathComps k, GoodComp c) ∧ renderC (C09.pathComps k) = k)

theorem canon_of_check {k : Str} (h : canonB k = true) : Canon k := by
  obtain ⟨h1, h2⟩ := of_decide_eq_true h
  exact ⟨_, h1, h2.symm⟩

theorem inv0_of_check {m : FMap} (h1 : ∃ e, m.find? [] = some e ∧ e.ftype = .dir)
    (h2 : ∀ k ∈ m.keys, canonB k = true) : Inv0 m :=
  ⟨h1, fun k hk => canon_of_check (h2 k hk)⟩

/-- the altroot at "/r" of the world of Props/C07Subtree.lean shows a tree -/
example := altroot_treeView (w := xW1) (i := 0) (P := xP) (m := xM) rfl xInv xAnc xP_canon
  (WF_of_check _ (by decide)) (by unfold FMap.NodupKeys; decide) 7

/-! the altroot at "/a" of the in-memory sample of Props/C05Walk.lean (siblings "/ab", "/a.b"
stay outside): its subtree walked from its root "" -/

def aP : Str := "/a".toList
def aRoot : VPath := { fs := leafFS 0, fsId := 3, path := aP }

theorem aP_canon : Canon aP := ⟨["a".toList], by decide, by decide⟩
theorem aInv : Inv0 (sub aP sampleW) := inv0_of_check ⟨dirEntryNow, by decide, rfl⟩ (by decide)
theorem aAnc : AncOK aP sampleW := ancOK_one "a".toList (by decide) sampleW dirEntryNow (by decide) rfl

example : (sub aP sampleW).keys =
    ["/x/y/z".toList, "/x".toList, [], "/f".toList, "/x/y".toList, "/x/y/w".toList, "/e".toList] := by
  decide

/-- the walk of the altroot's root as the model computes it: six items, "/x/y" after "/x" and
before its contents; fuel 7 suffices, fuel 6 does not -/
example : pathsOf (walkCollect 7 (vp (Altroot.fs aRoot) 0 []) worldW) =
    .ok [.ok "/x".toList, .ok "/f".toList, .ok "/e".toList, .ok "/x/y".toList,
         .ok "/x/y/z".toList, .ok "/x/y/w".toList] := by decide +kernel
example : pathsOf (walkCollect 6 (vp (Altroot.fs aRoot) 0 []) worldW) = .panic := by decide +kernel
example : descCount (sub aP sampleW) [] = 6 := by decide

/-- the theorem, instantiated -/
example : ∃ L : List Str,
    walkCollect 7 (vp (Altroot.fs aRoot) 0 []) worldW = (.ok (okItemsOn (Altroot.fs aRoot) 0 L), worldW) ∧
    L.Perm ((sub aP sampleW).keys.filter (below [])) ∧ L.Nodup ∧
    L.Pairwise (fun a b => below b a = false) := by
  obtain ⟨L, a, b, c, _, e⟩ := (altroot_walk_spec_leaf sampleW_leaf aInv aAnc aP_canon sampleW_wf
    sampleW_nodup 3 0 (p := []) (e := dirEntryNow) (by decide) rfl 7).1 (by decide)
  exact ⟨L, a, b, c, e⟩

end examplealt

/-! a recording wrapper around the in-memory sample: the same items, the world changed (11 calls
logged: 5 `read_dir`, 6 `metadata`), still holding the map -/

example : pathsOf (walkCollect 7 (vp (recordFS 5 (leafFS 0)) 0 "/a".toList) worldW) =
    .ok [.ok "/a/x".toList, .ok "/a/f".toList, .ok "/a/e".toList, .ok "/a/x/y".toList,
         .ok "/a/x/y/z".toList, .ok "/a/x/y/w".toList] := by decide +kernel
example : (walkCollect 7 (vp (recordFS 5 (leafFS 0)) 0 "/a".toList) worldW).2.log.length = 11 := by
  decide +kernel
example := recorded_mem_walk_spec 5 sampleW_leaf sampleW_wf sampleW_nodup 0 "/a".toList dirEntryNow
  (by decide) rfl 7

end Vfs.C05

section audit
open Vfs.C05
#print axioms walk_view_spec
#print axioms walk_view_panic_iff
#print axioms walk_view_result
#print axioms walk_view_complete_nodup
#print axioms walk_view_dirs_first
#print axioms walk_view_dir_before_content
#print axioms walk_view_root_complete
#print axioms walk_view_not_dir
#print axioms mem_treeView
#print axioms mem_walk_spec
#print axioms overlay_treeView
#print axioms overlay_walk_spec
#print axioms overlay_walk_result
#print axioms overlay_walk_dir_before_content
#print axioms overlay_walk_not_dir
#print axioms altroot_treeView
#print axioms altroot_walk_spec
#print axioms xDroot2_desc
end audit

section audit2
open Vfs.C05
#print axioms overlay_history_walkable
#print axioms overlay_walk_history
#print axioms namesOK_step
#print axioms recorded_mem_walk_spec
#print axioms altroot_walk_spec_leaf
#print axioms treeViewOn_of_fixed
end audit2
