/-
  Non-vacuity of Props/C11OverlayWithin.lean: the hypotheses of `copyDir_within_overlay_exact` and
  `moveDir_within_overlay_exact` are satisfiable on the world `yw2` of
  Props/C11OverlaySourceEx.lean (3-layer overlay, the nested directory "/d/n" spread over all
  three layers, "/d/b" and "/d/n/q" whited out): "/d" is copied / moved to "/copy" / "/moved"
  INSIDE the same overlay (same `Arc` identity 4 on both paths). Hypotheses by `decide`, results
  re-evaluated by `decide +kernel`. Nothing is proved here beyond instantiation and evaluation.
-/
import VfsModel.Props.C11OverlayWithin
import VfsModel.Props.C11OverlaySourceEx
set_option linter.unusedVariables false
namespace Vfs.C11
open Vfs Vfs.Overlay Vfs.C02 Vfs.C01 Vfs.C09 Vfs.C05 Vfs.Wk
open Vfs.C10 (mapsOfN)

section example5

theorem y_notin (n0 : Str) (hne : n0 ≠ "d".toList) (hg : '/' ∉ n0) :
    ¬ InSub ["d".toList] (renderC ([] ++ [n0])) := by
  rintro ⟨ts, hp, h0⟩
  have := C06.renderC_injective _ _ (by intro c hc; simp at hc; subst hc; exact hg)
    (good_noSlash hp.good) h0
  simp only [List.nil_append, List.singleton_append, List.cons.injEq] at this
  exact hne this.1

/-- the hypotheses of `copyDir_within_overlay_exact` are satisfiable -/
example : ∃ w' mu' ms',
    VPath.copyDir 6 ⟨xfs, 4, "/d".toList⟩ ⟨xfs, 4, "/copy".toList⟩ yw2 = (.ok 5, w') ∧
    OWN w' [2, 0, 1] [7, 8, 9] (mu' :: ms') ∧
    (∀ ts, ts ≠ [] → OpPath (["copy".toList] ++ ts) →
      (oview (mu' :: ms') (renderC (["copy".toList] ++ ts))).map vcore
        = (ovisView (mapsOfN yw2 [2, 0, 1]) (renderC (["d".toList] ++ ts))).map vcore) := by
  obtain ⟨mu', ms', hmaps, hown, inv', hv', hn'⟩ := yw2_setting
  have hD : DescList (ovisView (mu' :: ms')) (renderC ["d".toList]) yD := by
    rw [hmaps]; exact yD_desc
  have hsrc : VIsDir (oview (mu' :: ms')) (renderC ["d".toList]) := by
    rw [hmaps]; decide +kernel
  have hroot : VIsDir (oview (mu' :: ms')) (renderC []) := by
    rw [hmaps]; decide +kernel
  have habs : VAbsent (oview (mu' :: ms')) (renderC ([] ++ ["copy".toList])) := by
    show oview (mu' :: ms') _ = none
    rw [hmaps]; decide +kernel
  obtain ⟨w', mu2, ms2, hrun, st2, _, _, _, hcopy, _⟩ :=
    copyDir_within_overlay_exact hown inv' hv' hn' 4 4 (ss := ["d".toList]) (dd := [])
      (n0 := "copy".toList) (by decide) (by decide) hsrc hroot habs
      (y_notin _ (by decide) (by decide)) hD (fuel := 6) (by decide)
  refine ⟨w', mu2, ms2, hrun, st2.own, ?_⟩
  rw [← hmaps]
  exact hcopy

example : (VPath.copyDir 6 ⟨xfs, 4, "/d".toList⟩ ⟨xfs, 4, "/copy".toList⟩ yw2).1 = .ok 5 := by
  decide +kernel

example : (xfs.readDir "/copy/n".toList
    (VPath.copyDir 6 ⟨xfs, 4, "/d".toList⟩ ⟨xfs, 4, "/copy".toList⟩ yw2).2).1.map
      (fun l => (l.contains "q".toList, l.contains "p".toList, l.contains "r".toList, l.length))
    = .ok (false, true, true, 2) := by
  decide +kernel

example : C09.readAllN xfs "/copy/n/p"
    (VPath.copyDir 6 ⟨xfs, 4, "/d".toList⟩ ⟨xfs, 4, "/copy".toList⟩ yw2).2 = .ok [1] := by
  decide +kernel

/-- the hypotheses of `moveDir_within_overlay_exact` are satisfiable -/
example : ∃ w' mu' ms',
    VPath.moveDir 6 ⟨xfs, 4, "/d".toList⟩ ⟨xfs, 4, "/moved".toList⟩ yw2 = (.ok (), w') ∧
    OWN w' [2, 0, 1] [7, 8, 9] (mu' :: ms') ∧ oview (mu' :: ms') "/d".toList = none ∧
    VIsDir (oview (mu' :: ms')) "/moved".toList := by
  obtain ⟨mu', ms', hmaps, hown, inv', hv', hn'⟩ := yw2_setting
  have hD : DescList (ovisView (mu' :: ms')) (renderC ["d".toList]) yD := by
    rw [hmaps]; exact yD_desc
  have hsrc : VIsDir (oview (mu' :: ms')) (renderC ["d".toList]) := by
    rw [hmaps]; decide +kernel
  have hroot : VIsDir (oview (mu' :: ms')) (renderC []) := by
    rw [hmaps]; decide +kernel
  have habs : VAbsent (oview (mu' :: ms')) (renderC ([] ++ ["moved".toList])) := by
    show oview (mu' :: ms') _ = none
    rw [hmaps]; decide +kernel
  have hdepth : FuelOK (oview (mu' :: ms')) ["d".toList] 6 := by
    rw [hmaps]; exact fuelOK_of_keys (by decide) (by decide +kernel)
  obtain ⟨w', mu2, ms2, hrun, st2, _, _, hdir, _, hgone, _⟩ :=
    moveDir_within_overlay_exact hown inv' hv' hn' 4 4 (ss := ["d".toList]) (dd := [])
      (n0 := "moved".toList) (by decide) (by decide) hsrc hroot habs
      (y_notin _ (by decide) (by decide)) hD (fuel := 6) (by decide) hdepth
  exact ⟨w', mu2, ms2, hrun, st2.own, hgone _ (InSub.self (by decide)), hdir⟩

example : (VPath.moveDir 6 ⟨xfs, 4, "/d".toList⟩ ⟨xfs, 4, "/moved".toList⟩ yw2).1 = .ok () := by
  rw [moveDir_eq_K]; decide +kernel

example : (xfs.readDir [] (VPath.moveDir 6 ⟨xfs, 4, "/d".toList⟩
      ⟨xfs, 4, "/moved".toList⟩ yw2).2).1.map
      (fun l => (l.contains "d".toList, l.contains "moved".toList)) = .ok (false, true) := by
  rw [moveDir_eq_K]; decide +kernel

end example5

end Vfs.C11
