/-
  C14 over WHOLE SCRIPTS — write handles (part 2).

  The specification of the growable write cursor is the one of Proofs/SessionLemmas.lean
  (`C04.specWrite`, `C04.specSeek`, `C04.specStep`, `C04.specRun`: `std::io::Cursor<Vec<u8>>`
  written by structural recursion, independent of `cursorWrite` / `cursorSeek` / `WHandle.*`).
  It gives the vector and the position after a script; added here, in the same independent style:
    `WOut = wrote n | flushed | moved pos | invalidSeek`   what each call ANSWERS,
    `wspecTrace buf pos acts`   every answer with the position after the call,
    `specFlushed init buf pos acts`   what the FILE holds while the handle is still open: the
                                vector as of the last `flush` of the script (`init` if none).
  MODEL SIDE: `actAns a h w` (the `Res` the call returns), `traceActs h w acts` (answers and the
  handle's positions, the state advancing by `C03.HAct.apply`, i.e. exactly as in `C03.runActs` /
  `C04.applyActs`).

  PROVED (memory write handle `memH i p buf pos` = `WritableFile` on key `p` of leaf `i`)
   * `write_script_is_cursor`   ANY world, ANY start vector / position, ANY script: the answers
       and positions are, call by call, the specification's (`write` answers `Ok(len)`, `flush`
       `Ok(())`, `seek` `Ok(new position)` or `Err(io)` with the position left alone), and the
       handle afterwards is `memH i p b' n'` with `(b', n') = specRun buf pos acts`.
   * `write_script_published`   (hyp.: leaf `i` is a memory leaf holding `m`, a FILE sits at `p`)
       while the handle is open the file holds exactly `specFlushed (old bytes) buf pos acts` —
       the buffer as of the last flush, the old bytes if the script has no flush —, other keys
       untouched; `write_script_dropped`: after the drop it holds exactly `(specRun buf pos acts).1`
       (= `C04.runActs_mem`, restated). Both build on `C14.publish_exact`'s `memPublish`.
   * in the property's words, after any script `pre` with `(b, n) = specRun buf pos pre`:
       `script_write_past_end`  `n ≥ b.length`: a write of `bs` makes the vector
                                `b ++ zeros(n - b.length) ++ bs` (zero-filled gap), position `n + |bs|`;
       `script_write_inside`    in general: bytes before `n` kept (zero-padded), `bs` at `n`, bytes
                                after `n + |bs|` kept, length `max |b| (n + |bs|)`;
       `script_seek_before_start_w`  a rejected seek answers `Err(io)` and changes neither vector
                                nor position; `create_starts_empty`, `append_starts_at_end`: the
                                first write of a create session lands at 0 of the empty vector, of
                                an append session at the end of the old bytes.
   * non-vacuity by `decide`.

  NOT PROVED HERE: the physical write handles (`physCreate` / `physAppend` write straight to the
  file — no buffer to publish; not covered by a script theorem); positions ≥ 2^64 reached by
  `write` (model and specification let the position grow). How the start state (`[]`, 0) /
  (`old`, `|old|`) comes out of `create_file` / `append_file` of each backend is in
  Props/C14ScriptsBackends.lean and C14ScriptsOverlay.lean.
-/
import VfsModel.Proofs.SessionLemmas
namespace Vfs.C14
open Vfs.C04

/-! ## specification of the answers -/

inductive WOut where
  | wrote (n : Nat)
  | flushed
  | moved (pos : Nat)
  | invalidSeek
  deriving DecidableEq, Repr

def wspecAns (st : Bytes × Nat) : Act → WOut
  | .write bs => .wrote bs.length
  | .flush => .flushed
  | .seek s =>
    match specSeek st.1.length st.2 s with
    | some n => .moved n
    | none => .invalidSeek

/-- every answer with the position after the call -/
def wspecTrace (buf : Bytes) (pos : Nat) : List Act → List (WOut × Nat)
  | [] => []
  | a :: rest =>
    (wspecAns (buf, pos) a, (specStep (buf, pos) a).2) ::
      wspecTrace (specStep (buf, pos) a).1 (specStep (buf, pos) a).2 rest

/-- what the file holds while the handle is open: the vector as of the last flush -/
def specFlushed (init buf : Bytes) (pos : Nat) : List Act → Bytes
  | [] => init
  | .flush :: rest => specFlushed buf buf pos rest
  | .write bs :: rest =>
    specFlushed init (specStep (buf, pos) (.write bs)).1 (specStep (buf, pos) (.write bs)).2 rest
  | .seek s :: rest =>
    specFlushed init (specStep (buf, pos) (.seek s)).1 (specStep (buf, pos) (.seek s)).2 rest

/-! ## model side -/

inductive WAns where
  | write (r : Res Nat)
  | flush (r : Res Unit)
  | seek (r : Res Nat)
  deriving DecidableEq, Repr

def WOut.toModel : WOut → WAns
  | .wrote n => .write (.ok n)
  | .flushed => .flush (.ok ())
  | .moved n => .seek (.ok n)
  | .invalidSeek => .seek (fail .io)

/-- the answer of one call through the handle -/
def actAns (a : Act) (h : WHandle) (w : World) : WAns :=
  match a with
  | .write bs => .write ((h.write bs w).1.map (·.1))
  | .flush => .flush (h.flush w).1
  | .seek s => .seek ((h.seek s w).1.map (·.1))

/-- answers and positions of a script; the state advances as in `C03.runActs` -/
def traceActs (h : WHandle) (w : World) : List Act → List (WAns × Nat)
  | [] => []
  | a :: rest =>
    (actAns a h w, (a.apply h w).1.pos) :: traceActs (a.apply h w).1 (a.apply h w).2 rest

theorem specStep_seek_fst (buf : Bytes) (pos : Nat) (s : SeekFrom) :
    (specStep (buf, pos) (.seek s)).1 = buf := by
  unfold specStep; simp only; split <;> rfl

section mem
variable {i : Nat} {p : Str}

theorem actAns_mem (a : Act) (buf : Bytes) (pos : Nat) (w : World) :
    actAns a (memH i p buf pos) w = (wspecAns (buf, pos) a).toModel := by
  cases a with
  | write bs => rfl
  | flush =>
    show WAns.flush ((memH i p buf pos).flush w).1 = _
    unfold WHandle.flush
    simp only [wspecAns, WOut.toModel]
    split <;> rfl
  | seek s =>
    show WAns.seek (((memH i p buf pos).seek s w).1.map (·.1)) = _
    unfold WHandle.seek WHandle.fileLen wspecAns
    simp only [specSeek_eq_cursorSeek]
    cases specSeek buf.length pos s <;> rfl

/-- the handle after one call is the in-memory handle in the specification's next state (the
world may change: a flush publishes) -/
theorem apply_mem_handle (a : Act) (buf : Bytes) (pos : Nat) (w : World) :
    (a.apply (memH i p buf pos) w).1 =
      memH i p (specStep (buf, pos) a).1 (specStep (buf, pos) a).2 := by
  cases a with
  | write bs => rw [apply_write_mem]; rfl
  | flush => rfl
  | seek s => rw [apply_seek_mem, specStep_seek_fst]

/-- **write_script_is_cursor.** For every world, every start vector and position and every script
of write / flush / seek calls on an in-memory write handle: the answers and the positions are,
call by call, the specification's, and the handle afterwards carries the specification's vector
and position. -/
theorem write_script_is_cursor (buf : Bytes) (pos : Nat) (acts : List Act) (w : World) :
    traceActs (memH i p buf pos) w acts =
        (wspecTrace buf pos acts).map (fun o => (o.1.toModel, o.2)) ∧
      (applyActs (memH i p buf pos) w acts).1 =
        memH i p (specRun buf pos acts).1 (specRun buf pos acts).2 := by
  induction acts generalizing buf pos w with
  | nil => exact ⟨rfl, rfl⟩
  | cons a rest ih =>
    simp only [traceActs, wspecTrace, List.map_cons, applyActs, specRun_cons]
    rw [apply_mem_handle, actAns_mem]
    obtain ⟨h1, h2⟩ := ih (specStep (buf, pos) a).1 (specStep (buf, pos) a).2
      ((a.apply (memH i p buf pos) w).2)
    exact ⟨by rw [h1], h2⟩

/-- **flush publishes exactly the buffer, over scripts.** With a file at `p` of the memory leaf:
after any script (handle still open) the file holds the vector as of the last flush (its old bytes
if the script has no flush); every other key is untouched. -/
theorem write_script_published {m : FMap} {w : World} (h : MemLeafAt w i m) (e : Entry)
    (he : m.find? p = some e) (hf : e.ftype = .file) (buf : Bytes) (pos : Nat) (acts : List Act) :
    ∃ m', applyActs (memH i p buf pos) w acts =
        (memH i p (specRun buf pos acts).1 (specRun buf pos acts).2, w.setLeafFiles i m') ∧
      Holds m' p (some (specFlushed e.content buf pos acts)) ∧
      (∀ k, k ≠ p → m'.find? k = m.find? k) := by
  induction acts generalizing buf pos m w e with
  | nil => exact ⟨m, by rw [h.same]; rfl, ⟨e, he, hf, rfl⟩, fun _ _ => rfl⟩
  | cons a rest ih =>
    cases a with
    | write bs =>
      obtain ⟨m', h1, h2, h3⟩ := ih h e he hf (specWrite buf pos bs) (pos + bs.length)
      exact ⟨m', by rw [applyActs, apply_write_mem]; exact h1, h2, h3⟩
    | seek s =>
      obtain ⟨m', h1, h2, h3⟩ := ih h e he hf buf (specStep (buf, pos) (.seek s)).2
      refine ⟨m', ?_, ?_, h3⟩
      · rw [applyActs, apply_seek_mem]
        simp only
        rw [h1, specRun_cons, specStep_seek_fst]
      · simp only [specFlushed, specStep_seek_fst]; exact h2
    | flush =>
      obtain ⟨e1, he1, hf1, hc1, _, _⟩ := holds_memPublish he hf buf
      obtain ⟨m', h1, h2, h3⟩ := ih (h.set (memPublish m p buf)) e1 he1 hf1 buf pos
      refine ⟨m', ?_, ?_, ?_⟩
      · rw [applyActs, apply_flush_mem h]
        simp only
        rw [h1, World.setLeafFiles_twice]
        rfl
      · simp only [specFlushed]; rw [hc1] at h2; exact h2
      · intro k hk
        rw [h3 k hk, find?_memPublish_ne' _ _ _ _ hk]

/-- **drop publishes exactly the buffer, over scripts** (`C04.runActs_mem`): after the script and
the drop the file holds exactly the specification's vector; other keys untouched; the session
answers `Ok` -/
theorem write_script_dropped {m : FMap} {w : World} (h : MemLeafAt w i m) (e : Entry)
    (he : m.find? p = some e) (hf : e.ftype = .file) (buf : Bytes) (pos : Nat) (acts : List Act) :
    ∃ m', C03.runActs (memH i p buf pos) acts w = (.ok (), w.setLeafFiles i m') ∧
      Holds m' p (some (specRun buf pos acts).1) ∧
      (∀ k, k ≠ p → m'.find? k = m.find? k) := by
  obtain ⟨m', h1, ⟨e', he', hf', hc', _, _⟩, h3⟩ := runActs_mem h e he hf buf pos acts
  exact ⟨m', h1, ⟨e', he', hf', hc'⟩, h3⟩

/-- a script that ends with a flush has published what the drop will publish -/
theorem specFlushed_flush_last (init buf : Bytes) (pos : Nat) (acts : List Act) :
    specFlushed init buf pos (acts ++ [.flush]) = (specRun buf pos acts).1 := by
  induction acts generalizing init buf pos with
  | nil => rfl
  | cons a rest ih =>
    cases a with
    | write bs => simp only [List.cons_append, specFlushed, specRun_cons, ih]
    | flush => simp only [List.cons_append, specFlushed, specRun_cons, ih]; rfl
    | seek s => simp only [List.cons_append, specFlushed, specRun_cons, ih]

end mem

/-! ## the property's words -/

/-- writing at or past the end: the gap is filled with zeros, the bytes follow -/
theorem specWrite_past_end (b : Bytes) (n : Nat) (bs : Bytes) (hn : b.length ≤ n) :
    specWrite b n bs = b ++ List.replicate (n - b.length) 0 ++ bs := by
  rw [specWrite_eq_cursorWrite]
  unfold cursorWrite padTo
  have hl : (b ++ List.replicate (n - b.length) (0 : UInt8)).length = n := by
    simp only [List.length_append, List.length_replicate]; omega
  rw [List.take_of_length_le (by omega), List.drop_of_length_le (by omega), List.append_nil]

/-- after any script, a write at or past the end of the vector zero-fills the gap -/
theorem script_write_past_end (buf : Bytes) (pos : Nat) (pre : List Act) (bs : Bytes)
    (hn : (specRun buf pos pre).1.length ≤ (specRun buf pos pre).2) :
    specRun buf pos (pre ++ [.write bs]) =
      ((specRun buf pos pre).1 ++
          List.replicate ((specRun buf pos pre).2 - (specRun buf pos pre).1.length) 0 ++ bs,
        (specRun buf pos pre).2 + bs.length) := by
  rw [specRun_append, specRun_cons, specRun_nil]
  simp only [specStep, specWrite_past_end _ _ _ hn]

/-- after any script, a write anywhere: what lies before the position is kept (zero-padded up to
it), the bytes sit at the position, what lies after them is kept -/
theorem script_write_inside (buf : Bytes) (pos : Nat) (pre : List Act) (bs : Bytes) :
    let b := (specRun buf pos pre).1
    let n := (specRun buf pos pre).2
    let b' := (specRun buf pos (pre ++ [.write bs])).1
    (specRun buf pos (pre ++ [.write bs])).2 = n + bs.length ∧
    b'.length = max b.length (n + bs.length) ∧
    b'.take n = (b ++ List.replicate (n - b.length) 0).take n ∧
    (b'.drop n).take bs.length = bs ∧
    b'.drop (n + bs.length) = b.drop (n + bs.length) := by
  intro b n b'
  have hb' : b' = cursorWrite b n bs := by
    show (specRun buf pos (pre ++ [.write bs])).1 = _
    rw [specRun_append, specRun_cons, specRun_nil]
    simp only [specStep, specWrite_eq_cursorWrite]
    rfl
  refine ⟨?_, ?_, ?_, ?_, ?_⟩
  · rw [specRun_append, specRun_cons, specRun_nil]; rfl
  · rw [hb']; exact write_length b n bs
  · rw [hb']; exact write_before b n bs
  · rw [hb']; exact write_at b n bs
  · rw [hb']; exact write_after b n bs

/-- after any script, a seek the specification rejects (before the start, or beyond `u64`) changes
neither the vector nor the position, and the model answers `Err(io)` -/
theorem script_seek_before_start_w {i : Nat} {p : Str} (buf : Bytes) (pos : Nat) (pre : List Act)
    (s : SeekFrom) (w : World)
    (hrej : specSeek (specRun buf pos pre).1.length (specRun buf pos pre).2 s = none) :
    specRun buf pos (pre ++ [.seek s]) = specRun buf pos pre ∧
    traceActs (memH i p buf pos) w (pre ++ [.seek s]) =
      traceActs (memH i p buf pos) w pre ++ [(.seek (fail .io), (specRun buf pos pre).2)] := by
  constructor
  · rw [specRun_append, specRun_cons, specRun_nil]
    simp only [specStep, hrej]
  · have hsplit : ∀ (h : WHandle) (w : World) (a b : List Act),
        traceActs h w (a ++ b) = traceActs h w a ++
          traceActs (applyActs h w a).1 (applyActs h w a).2 b := by
      intro h w a b
      induction a generalizing h w with
      | nil => rfl
      | cons x xs ih => simp only [List.cons_append, traceActs, applyActs, ih]
    rw [hsplit]
    congr 1
    have hh := (write_script_is_cursor (i := i) (p := p) buf pos pre w).2
    rw [show applyActs (memH i p buf pos) w pre =
      ((applyActs (memH i p buf pos) w pre).1, (applyActs (memH i p buf pos) w pre).2) from rfl, hh]
    simp only [traceActs]
    rw [apply_mem_handle, actAns_mem]
    simp only [wspecAns, specStep, hrej, WOut.toModel]

/-- create starts empty at 0: the first write of a create session yields exactly the bytes -/
theorem create_starts_empty (bs : Bytes) (rest : List Act) :
    specRun [] 0 (.write bs :: rest) = specRun bs bs.length rest := by
  rw [specRun_cons]
  simp only [specStep, specWrite_fresh, Nat.zero_add]

/-- append starts at the end of the existing bytes: the first write of an append session lands
right behind them -/
theorem append_starts_at_end (old bs : Bytes) (rest : List Act) :
    specRun old old.length (.write bs :: rest) = specRun (old ++ bs) (old ++ bs).length rest := by
  rw [specRun_cons]
  simp only [specStep, specWrite_end, List.length_append]

/-! ## non-vacuity -/

/-- write 3 bytes, seek 2 past the end, write (zero-fill), flush, seek before the start (rejected),
seek back relative to the end, overwrite, seek far past the end relative to the end -/
def exActs : List Act :=
  [.write [1, 2, 3], .seek (.fromEnd 2), .write [9], .flush, .seek (.cur (-100)),
   .seek (.fromEnd (-5)), .write [7, 7], .seek (.fromEnd 10)]

example : specRun [] 0 exActs = ([1, 7, 7, 0, 0, 9], 16) := by decide

example : wspecTrace [] 0 exActs =
    [(.wrote 3, 3), (.moved 5, 5), (.wrote 1, 6), (.flushed, 6), (.invalidSeek, 6), (.moved 1, 1),
     (.wrote 2, 3), (.moved 16, 16)] := by decide

example : specFlushed [] [] 0 exActs = [1, 2, 3, 0, 0, 9] := by decide

def exWorld : World := { leaves := [{ kind := .mem, files := [("/f".toList, fileEntryNow), ([], dirEntryNow)] }] }

example : traceActs (memH 0 "/f".toList [] 0) exWorld exActs =
    [(.write (.ok 3), 3), (.seek (.ok 5), 5), (.write (.ok 1), 6), (.flush (.ok ()), 6),
     (.seek (fail .io), 6), (.seek (.ok 1), 1), (.write (.ok 2), 3), (.seek (.ok 16), 16)] := by
  decide

/-- the hypotheses of `write_script_published` on that world -/
example : MemLeafAt exWorld 0 [("/f".toList, fileEntryNow), ([], dirEntryNow)] := rfl
example : FMap.find? [("/f".toList, fileEntryNow), ([], dirEntryNow)] "/f".toList = some fileEntryNow ∧
    fileEntryNow.ftype = .file := by decide

/-- an append session: starts at the end of the old bytes -/
example : specRun [4, 5] 2 [.write [6], .seek (.start 0), .write [1]] = ([1, 5, 6], 1) := by decide

end Vfs.C14

#print axioms Vfs.C14.write_script_is_cursor
#print axioms Vfs.C14.write_script_published
#print axioms Vfs.C14.write_script_dropped
#print axioms Vfs.C14.script_write_past_end
#print axioms Vfs.C14.script_write_inside
#print axioms Vfs.C14.script_seek_before_start_w
#print axioms Vfs.C14.create_starts_empty
#print axioms Vfs.C14.append_starts_at_end
